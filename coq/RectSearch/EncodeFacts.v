(* C08 facts, part 1: from the clause list to the posted constraints (through C07's
   [post_exact]); what each kind of posted constraint says; the objective. *)
From Coq Require Import ZArith List Bool String Arith Lia.
From FrameModel Require Import Num.QcTac PB.Expr PB.ExprFacts PB.Cnf PB.Amo PB.AmoFacts PB.Robdd PB.RobddFacts
  PB.Codify PB.CodifyFacts PB.Sat PB.SatFacts RectSearch.Coords RectSearch.Names RectSearch.Encode.
Import ListNotations.
Local Open Scope nat_scope.

Definition posts_hold (a : uasg) (ps : list post) : Prop := Forall (post_holds a) ps.
Definition lv (a : uasg) (l : ul) : bool := Bool.eqb (a (fst l)) (snd l).

Lemma posts_hold_app a p q : posts_hold a (p ++ q) <-> posts_hold a p /\ posts_hold a q.
Proof. apply Forall_app. Qed.
Lemma posts_hold_In a ps : posts_hold a ps <-> forall p, In p ps -> post_holds a p.
Proof. apply Forall_forall. Qed.

Lemma forallb_map' {A B} (f : B -> bool) (g : A -> B) l : forallb f (map g l) = forallb (fun x => f (g x)) l.
Proof. induction l as [|x r IH]; cbn; [reflexivity|rewrite IH; reflexivity]. Qed.

Lemma imply_holds a l x : post_holds a (PImply l x) <-> (forallb (lv a) l = true -> lv a x = true).
Proof. cbn [post_holds]. unfold ulits. rewrite forallb_map'. reflexivity. Qed.

Lemma lv_pos a v : lv a (pos v) = a (name v).
Proof. unfold lv, pos. cbn. destruct (a (name v)); reflexivity. Qed.
Lemma lv_ngt a v : lv a (ngt v) = negb (a (name v)).
Proof. unfold lv, ngt. cbn. destruct (a (name v)); reflexivity. Qed.

(* sum of unit terms >= 1 : some variable of the list is true *)
Lemma tsum_units_nonneg a vs : (0 <= tsum a (map (fun v => mkT (name v) true 1) vs))%Z.
Proof.
  induction vs as [|v r IH]; cbn [map tsum tc tv ts]; [lia|].
  destruct (lit_01 a (name v) true) as [E|E]; rewrite E; lia.
Qed.
Lemma atleast1_holds a vs : post_holds a (atleast1 vs) <-> exists v, In v vs /\ a (name v) = true.
Proof.
  unfold atleast1. cbn [post_holds]. unfold holds. cbn [iop il ir cmp_holds].
  induction vs as [|v r IH]; cbn [map tsum tc tv ts].
  - split; [lia|intros [v [[] _]]].
  - pose proof (tsum_units_nonneg a r) as NN. unfold lit at 1. destruct (a (name v)) eqn:E; cbn [Bool.eqb].
    + split; [intros _; exists v; split; [left; reflexivity|exact E]|lia].
    + split.
      * intro H. assert (H' : (tsum a (map (fun v0 => mkT (name v0) true 1) r) >= 1)%Z) by lia.
        apply IH in H'. destruct H' as [w [I W]]. exists w. split; [right; exact I|exact W].
      * intros [w [[<-|I] W]]; [congruence|].
        assert (H' : (tsum a (map (fun v0 => mkT (name v0) true 1) r) >= 1)%Z) by (apply IH; exists w; split; assumption).
        lia.
Qed.

(* at most one of a list of positive literals *)
Lemma count_pos a vs : count_true (uval a) (ulits (map pos vs)) = List.length (filter (fun v => a (name v)) vs).
Proof.
  unfold count_true. induction vs as [|v r IH]; [reflexivity|].
  cbn [map ulits filter]. unfold ulits in IH. cbn [fst snd pos].
  change (lit_val (uval a) (ulit (name v) true)) with (Bool.eqb (a (name v)) true).
  destruct (a (name v)); cbn [Bool.eqb List.length]; rewrite IH; reflexivity.
Qed.
Lemma amo_holds a k vs : post_holds a (PAmoH k (map pos vs)) <-> List.length (filter (fun v => a (name v)) vs) <= 1.
Proof. cbn [post_holds]. unfold at_most_one. rewrite count_pos. reflexivity. Qed.

(* ---- every post of the model is accepted ---- *)
Definition plain (p : post) : Prop :=
  match p with PAmoH k _ => (3 <= k)%Z | PIneq i _ => is_ge (iop i) = true | _ => True end.
Lemma plain_accepted (m : memory) s p m' s' st : plain p -> run_post m s p = Some (m', s', st) -> st = Accepted.
Proof.
  intros Pl E. destruct st; [reflexivity|]. exfalso.
  destruct (refused_only m s p m' s' E) as [(k & l & -> & Hk)|(i & d & -> & _ & Hg)]; cbn [plain] in Pl.
  - lia.
  - congruence.
Qed.
Lemma all_accepted : forall ps (m : memory) s m' s' sts, Forall plain ps ->
  run_posts m s ps = Some (m', s', sts) -> forall a, accepted_hold a ps sts <-> posts_hold a ps.
Proof.
  induction ps as [|p r IH]; intros m s m' s' sts Pl E a.
  - split; [intros _; constructor|intros _]. cbn in E. injection E as _ _ <-. exact I.
  - cbn [run_posts] in E. destruct (run_post m s p) as [[[m1 s1] st]|] eqn:E1; [|discriminate].
    destruct (run_posts m1 s1 r) as [[[m2 s2] sts']|] eqn:E2; [|discriminate].
    injection E as _ _ <-. inversion Pl as [|? ? P1 Pr]; subst.
    rewrite (plain_accepted _ _ _ _ _ _ P1 E1). cbn [accepted_hold].
    rewrite (IH _ _ _ _ _ Pr E2 a). split.
    + intros [H1 H2]. constructor; assumption.
    + intro H. inversion H; subst. split; assumption.
Qed.

Ltac in_cases :=
  repeat match goal with
  | H : In _ (_ ++ _) |- _ => apply in_app_or in H; destruct H as [H|H]
  | H : In _ (flat_map _ _) |- _ => apply in_flat_map in H; destruct H as [? [? H]]
  | H : In _ (map _ _) |- _ => apply in_map_iff in H; destruct H as [? [<- ?]]
  | H : In _ (_ :: _) |- _ => destruct H as [<-|H]
  | H : In _ [] |- _ => destruct H
  | H : In _ (if ?c then _ else _) |- _ => destruct c
  end.

Definition good (p : post) : Prop := post_ok p /\ plain p.
Lemma atleast1_good vs : good (atleast1 vs).
Proof.
  split; [|reflexivity]. cbn [post_ok atleast1 il]. apply Forall_forall. intros t Ht.
  apply in_map_iff in Ht. destruct Ht as [v [<- _]]. cbn. lia.
Qed.
Lemma enforce_good mode inp C i t p : In p (enforce_bb mode inp C i t) -> good p.
Proof.
  intro H. unfold enforce_bb, box_posts, selector_posts, attach, excl, into_trunk, cellposts, xchain, ychain in H.
  in_cases; try (split; exact I); try apply atleast1_good.
  all: try (split; [exact I|cbn; lia]).
Qed.

Lemma fold_add_NF' {A} (g : A -> string) (h : A -> Z) l : forall acc, NF acc ->
  NF (fold_left (fun e b => add_term e (g b) true (h b)) l acc).
Proof. induction l as [|x r IH]; intros acc N; cbn [fold_left]; [exact N|]. apply IH. apply add_term_NF. exact N. Qed.
Lemma objective_NF inp factor ratio : NF (objective inp factor ratio).
Proof.
  assert (S : NF (selarea inp factor)) by (unfold selarea; apply fold_add_NF'; apply zero_NF).
  unfold objective. exact (sub_expr_NF _ _ (mul_NF _ _ S)).
Qed.
Lemma obj_good inp factor ratio bound : good (PIneq (obj_ineq inp factor ratio bound) false).
Proof.
  split.
  - cbn [post_ok]. unfold obj_ineq.
    pose proof (ineq_NF (objective inp factor ratio) (add_int zero bound) GE (objective_NF _ _ _)
                        (add_int_NF _ _ zero_NF)) as [H _]. exact H.
  - cbn [plain]. reflexivity.
Qed.

Lemma shape_posts_good mode inp k p : In p (shape_posts mode inp k) -> good p.
Proof.
  intro H. unfold shape_posts, shape_posts_pre, shape_posts_post, cellsel, cell_amo in H.
  apply in_app_or in H. destruct H as [H|H].
  - in_cases; try (split; exact I); apply atleast1_good.
  - apply in_app_or in H. destruct H as [H|H].
    + apply in_flat_map in H. destruct H as [i [_ H]]. exact (enforce_good _ _ _ _ _ _ H).
    + in_cases. split; [exact I|cbn; lia].
Qed.

Lemma solve_posts_split mode inp k factor ratio bound ps :
  solve_posts mode inp k factor ratio bound = Some ps ->
  ps = shape_posts_pre inp k ++ [PIneq (obj_ineq inp factor ratio bound) false] ++ shape_posts_post mode inp k.
Proof.
  unfold solve_posts. destruct (Qcltb ratio 1); [discriminate|].
  destruct (_ && _); [discriminate|]. intro H. injection H as <-. reflexivity.
Qed.

(* any sequence of posts of the kinds the model uses: the clause list is produced and a user
   assignment extends to a model of it exactly when every posted constraint holds *)
Theorem good_posts_exact (m0 : memory) ps : mem_wf m0 -> (forall p, In p ps -> good p) ->
  exists m s sts, run_posts m0 empty_mgr ps = Some (m, s, sts) /\
                  forall a, ext a (clauses s) <-> posts_hold a ps.
Proof.
  intros W G.
  assert (Ok : Forall post_ok ps) by (apply Forall_forall; intros p Hp; exact (proj1 (G p Hp))).
  assert (Pl : Forall plain ps) by (apply Forall_forall; intros p Hp; exact (proj2 (G p Hp))).
  destruct (post_exact m0 ps W Ok) as (m & s & sts & Er & _ & Hx).
  exists m, s, sts. split; [exact Er|].
  intro a. rewrite (Hx a). exact (all_accepted ps m0 empty_mgr m s sts Pl Er a).
Qed.

(* the generated formula and the posted constraints *)
Theorem encode_exact mode inp k factor ratio bound (m0 : memory) ps : mem_wf m0 ->
  solve_posts mode inp k factor ratio bound = Some ps ->
  exists m s, encode mode inp k factor ratio bound m0 = Some (m, s) /\
              forall a, ext a (clauses s) <-> posts_hold a ps.
Proof.
  intros W E. pose proof (solve_posts_split _ _ _ _ _ _ _ E) as Eps.
  assert (G : forall p, In p ps -> good p).
  { intros p Hp. rewrite Eps in Hp. apply in_app_or in Hp. destruct Hp as [Hp|Hp].
    - apply (shape_posts_good mode inp k). unfold shape_posts. apply in_or_app. left. exact Hp.
    - destruct Hp as [<-|Hp]; [apply obj_good|].
      apply (shape_posts_good mode inp k). unfold shape_posts. apply in_or_app. right. exact Hp. }
  destruct (good_posts_exact m0 ps W G) as (m & s & sts & Er & Hx).
  exists m, s. split; [|exact Hx]. unfold encode. rewrite E, Er. reflexivity.
Qed.

(* ---- the objective ---- *)
Lemma lit_true a v : lit a v true = if a v then 1%Z else 0%Z.
Proof. unfold lit. destruct (a v); reflexivity. Qed.

Lemma objective_fold a (g : nat -> string) (hs hr : nat -> Z) (r : Z) l : forall e1 e2,
  (eval a (fold_left (fun e b => add_term e (g b) true (hs b)) l e1) * r
   - eval a (fold_left (fun e b => add_term e (g b) true (hr b)) l e2))%Z
  = fold_left (fun acc b => if a (g b) then (acc + (r * hs b - hr b))%Z else acc) l
              (eval a e1 * r - eval a e2)%Z.
Proof.
  induction l as [|x t IH]; intros e1 e2; cbn [fold_left]; [reflexivity|].
  rewrite IH, !add_term_eval, !lit_true. destruct (a (g x)); f_equal; ring.
Qed.

Theorem objective_eval a inp factor ratio :
  eval a (objective inp factor ratio) = cost_of inp factor ratio (fun b => a (name (VSel b))).
Proof.
  unfold objective, cost_of. rewrite sub_expr_eval, mul_eval. unfold selarea, realarea.
  rewrite objective_fold. unfold cell_cost. reflexivity.
Qed.
Theorem obj_holds a inp factor ratio bound :
  post_holds a (PIneq (obj_ineq inp factor ratio bound) false) <->
  (bound <= cost_of inp factor ratio (fun b => a (name (VSel b))))%Z.
Proof.
  cbn [post_holds]. unfold obj_ineq. rewrite ineq_holds_iff. cbn [cmp_holds].
  rewrite objective_eval. unfold eval, add_int, zero. cbn [ec et tsum]. lia.
Qed.

Lemma cost_of_ext inp factor ratio s s' :
  (forall b, b < List.length inp -> s b = s' b) -> cost_of inp factor ratio s = cost_of inp factor ratio s'.
Proof.
  intro H. unfold cost_of. cbn [definecoords blocks].
  assert (G : forall l acc, (forall b, In b l -> b < List.length inp) ->
     fold_left (fun acc b => if s b then (acc + cell_cost inp factor ratio b)%Z else acc) l acc =
     fold_left (fun acc b => if s' b then (acc + cell_cost inp factor ratio b)%Z else acc) l acc).
  { induction l as [|x t IH]; intros acc Hl; cbn [fold_left]; [reflexivity|].
    rewrite (H x (Hl x (or_introl eq_refl))). apply IH. intros b Hb. apply Hl. right. exact Hb. }
  apply G. intros b Hb. apply in_seq in Hb. lia.
Qed.
