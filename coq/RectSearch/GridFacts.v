(* C08 facts, part 3: on a full grid the posts of enforce_bb, written by the code with
   coordinate look-ups, are the posts over column / row indices. *)
From Coq Require Import ZArith List Bool String Arith Lia Sorted.
From FrameModel Require Import Num.QcTac PB.Expr PB.Cnf PB.Sat RectSearch.Coords RectSearch.CoordsFacts
  RectSearch.Names RectSearch.Encode.
Import ListNotations.
Local Open Scope nat_scope.

Lemma Qceqb_nth l : inc l -> forall i j, i < List.length l -> j < List.length l ->
  Qceqb (nth i l 0%Qc) (nth j l 0%Qc) = Nat.eqb i j.
Proof.
  intros S i j Hi Hj. destruct (Nat.eqb_spec i j) as [->|N].
  - apply Qceqb_refl.
  - apply Qceqb_false. intro E. apply N. exact (inc_nth_inj l S i j Hi Hj E).
Qed.
Lemma Qcltb_nth l : inc l -> forall i j, i < List.length l -> j < List.length l ->
  Qcltb (nth i l 0%Qc) (nth j l 0%Qc) = Nat.ltb i j.
Proof.
  intros S i j Hi Hj. destruct (Nat.ltb_spec i j) as [L|L].
  - apply Qcltb_true. exact (inc_nth_lt l S i j L Hj).
  - apply Qcltb_false. destruct (Nat.eq_dec i j) as [->|N]; [apply Qcle_refl|].
    apply Qclt_le_weak. apply (inc_nth_lt l S j i); lia.
Qed.

Section Grid.
  Variable inp : problem.
  Hypothesis FG : full_grid inp = true.
  Let C := definecoords inp.
  Let xs := xcoords C.
  Let ys := ycoords C.
  Let n := List.length inp.
  Definition colb (b : nat) : nat := col C (cel inp b).
  Definition rowb (b : nat) : nat := row C (cel inp b).

  Lemma xs_inc : inc xs. Proof. apply xcoords_inc. Qed.
  Lemma ys_inc : inc ys. Proof. apply ycoords_inc. Qed.
  Lemma blocks_seq : blocks C = seq 0 n. Proof. reflexivity. Qed.

  Lemma fg_parts : forallb (cell_ok C) inp = true /\
    (forall c r, c < ncols C -> r < nrows C -> count_at C inp c r = 1) /\ 1 <= ncols C /\ 1 <= nrows C.
  Proof.
    unfold full_grid in FG. fold C in FG. apply andb_prop in FG. destruct FG as [H3 H4].
    apply andb_prop in H3. destruct H3 as [H2 H3]. apply andb_prop in H2. destruct H2 as [H1 H2].
    split; [exact H1|]. split; [|split; [apply Nat.leb_le; exact H3|apply Nat.leb_le; exact H4]].
    intros c r Hc Hr. rewrite forallb_forall in H2. specialize (H2 c ltac:(apply in_seq; lia)).
    rewrite forallb_forall in H2. specialize (H2 r ltac:(apply in_seq; lia)). apply Nat.eqb_eq. exact H2.
  Qed.
  Lemma len_xs : List.length xs = S (ncols C).
  Proof. destruct fg_parts as (_ & _ & H & _). unfold ncols in *. fold xs in H |- *. lia. Qed.
  Lemma len_ys : List.length ys = S (nrows C).
  Proof. destruct fg_parts as (_ & _ & _ & H). unfold nrows in *. fold ys in H |- *. lia. Qed.

  Record cell_facts (b : nat) : Prop := mkCF {
    cf_col : colb b < ncols C;
    cf_row : rowb b < nrows C;
    cf_x1 : cx1 (cel inp b) = nth (colb b) xs 0%Qc;
    cf_x2 : cx2 (cel inp b) = nth (S (colb b)) xs 0%Qc;
    cf_y1 : cy1 (cel inp b) = nth (rowb b) ys 0%Qc;
    cf_y2 : cy2 (cel inp b) = nth (S (rowb b)) ys 0%Qc
  }.
  Lemma cell_ok_b b : b < n -> cell_facts b.
  Proof.
    intro Hb. destruct fg_parts as (H & _). rewrite forallb_forall in H.
    specialize (H (cel inp b) ltac:(apply nth_In; exact Hb)). unfold cell_ok in H.
    apply andb_prop in H. destruct H as [H H4]. apply andb_prop in H. destruct H as [H H3].
    apply andb_prop in H. destruct H as [H1 H2].
    apply Nat.ltb_lt in H2, H4. apply Qceqb_true in H1, H3. fold xs in H1, H2. fold ys in H3, H4.
    pose proof len_xs as Lx. pose proof len_ys as Ly.
    rewrite (nth_indep xs _ 0%Qc H2) in H1. rewrite (nth_indep ys _ 0%Qc H4) in H3.
    split; unfold colb, rowb; try lia; try assumption.
    - symmetry. unfold col in H2 |- *. fold xs in H2 |- *. apply nth_idx. lia.
    - symmetry. unfold row in H4 |- *. fold ys in H4 |- *. apply nth_idx. lia.
  Qed.

  (* every position of the grid carries a cell *)
  Lemma cell_at c r : c < ncols C -> r < nrows C -> exists b, b < n /\ colb b = c /\ rowb b = r.
  Proof.
    intros Hc Hr. destruct fg_parts as (_ & H & _). specialize (H c r Hc Hr). unfold count_at in H.
    destruct (filter (fun x => Nat.eqb (col C x) c && Nat.eqb (row C x) r) inp) as [|x t] eqn:E; [discriminate|].
    assert (I : In x (filter (fun x => Nat.eqb (col C x) c && Nat.eqb (row C x) r) inp)) by (rewrite E; left; reflexivity).
    apply filter_In in I. destruct I as [I P]. apply andb_prop in P. destruct P as [P1 P2].
    apply Nat.eqb_eq in P1, P2. destruct (In_nth _ _ cell0 I) as [b [Hb Eb]].
    exists b. split; [exact Hb|]. unfold colb, rowb, cel. rewrite Eb. split; assumption.
  Qed.

  (* ---- the look-ups of enforce_bb ---- *)
  Section Box.
    Variable mode : border_mode.
    Variable i t : nat.
    Lemma idx_xs j : j < List.length xs -> idx (nth j xs 0%Qc) xs = j.
    Proof. apply idx_nth. exact xs_inc. Qed.
    Lemma idx_ys j : j < List.length ys -> idx (nth j ys 0%Qc) ys = j.
    Proof. apply idx_nth. exact ys_inc. Qed.
    Lemma getd_next_x j : S j < List.length xs -> getd (nth j xs 0%Qc) (next_x C) = nth (S j) xs 0%Qc.
    Proof. intro H. unfold getd. change (next_x C) with (pairs xs). rewrite (lookup_next xs xs_inc j H). reflexivity. Qed.
    Lemma getd_prev_x j : S j < List.length xs -> getd (nth (S j) xs 0%Qc) (prev_x C) = nth j xs 0%Qc.
    Proof.
      intro H. unfold getd. change (prev_x C) with (map (fun p : Qc * Qc => (snd p, fst p)) (pairs xs)).
      rewrite (lookup_prev xs xs_inc j H). reflexivity.
    Qed.
    Lemma getd_next_y j : S j < List.length ys -> getd (nth j ys 0%Qc) (next_y C) = nth (S j) ys 0%Qc.
    Proof. intro H. unfold getd. change (next_y C) with (pairs ys). rewrite (lookup_next ys ys_inc j H). reflexivity. Qed.
    Lemma getd_prev_y j : S j < List.length ys -> getd (nth (S j) ys 0%Qc) (prev_y C) = nth j ys 0%Qc.
    Proof.
      intro H. unfold getd. change (prev_y C) with (map (fun p : Qc * Qc => (snd p, fst p)) (pairs ys)).
      rewrite (lookup_prev ys ys_inc j H). reflexivity.
    Qed.

    Lemma cellposts_eq b : b < n -> cellposts inp C i b =
      [PImply [pos (VCell i b)] (pos (VxL i (S (colb b)))); PImply [pos (VCell i b)] (pos (VxB i (colb b)));
       PImply [pos (VCell i b)] (pos (VyL i (S (rowb b)))); PImply [pos (VCell i b)] (pos (VyB i (rowb b)))].
    Proof.
      intro Hb. destruct (cell_ok_b b Hb) as [Hc Hr X1 X2 Y1 Y2]. pose proof len_xs. pose proof len_ys.
      unfold cellposts, xl, xb, yl, yb. fold xs ys. rewrite X1, X2, Y1, Y2.
      rewrite !idx_xs, !idx_ys by lia. reflexivity.
    Qed.
    Lemma xchain_eq j : j < ncols C -> xchain C i (S j) =
      [PImply [pos (VxB i j)] (pos (VxB i (S j))); PImply [pos (VxL i (S j))] (pos (VxL i j))].
    Proof.
      intro Hj. pose proof len_xs. unfold xchain, xl, xb. fold xs.
      rewrite getd_prev_x by lia. rewrite !idx_xs by lia. reflexivity.
    Qed.
    Lemma ychain_eq j : j < nrows C -> ychain C i (S j) =
      [PImply [pos (VyB i j)] (pos (VyB i (S j))); PImply [pos (VyL i (S j))] (pos (VyL i j))].
    Proof.
      intro Hj. pose proof len_ys. unfold ychain, yl, yb. fold ys.
      rewrite getd_prev_y by lia. rewrite !idx_ys by lia. reflexivity.
    Qed.
    Lemma converse_eq b : b < n -> converse inp C i b =
      PImply [pos (VxL i (S (colb b))); pos (VxB i (colb b)); pos (VyL i (S (rowb b))); pos (VyB i (rowb b))]
             (pos (VCell i b)).
    Proof.
      intro Hb. destruct (cell_ok_b b Hb) as [Hc Hr X1 X2 Y1 Y2]. pose proof len_xs. pose proof len_ys.
      unfold converse, xl, xb, yl, yb. fold xs ys. rewrite X1, X2, Y1, Y2.
      rewrite getd_next_x, getd_prev_x, getd_next_y, getd_prev_y by lia.
      rewrite !idx_xs, !idx_ys by lia. reflexivity.
    Qed.
    Lemma keys_ok_b b : b < n -> keys_ok inp C b = true.
    Proof.
      intro Hb. destruct (cell_ok_b b Hb) as [Hc Hr X1 X2 Y1 Y2]. pose proof len_xs. pose proof len_ys.
      unfold keys_ok, has_key. rewrite X1, X2, Y1, Y2.
      change (next_x C) with (pairs xs). change (next_y C) with (pairs ys).
      change (prev_x C) with (map (fun p : Qc * Qc => (snd p, fst p)) (pairs xs)).
      change (prev_y C) with (map (fun p : Qc * Qc => (snd p, fst p)) (pairs ys)).
      rewrite (lookup_next xs xs_inc), (lookup_prev xs xs_inc), (lookup_next ys ys_inc), (lookup_prev ys ys_inc) by lia.
      reflexivity.
    Qed.

    Lemma on_border_eq b d : b < n -> on_border Repaired inp C b d =
      match d with
      | DW => Nat.eqb (colb b) 0 | DN => Nat.eqb (rowb b) 0
      | DE => Nat.eqb (S (colb b)) (ncols C) | DS => Nat.eqb (S (rowb b)) (nrows C)
      end.
    Proof.
      intro Hb. destruct (cell_ok_b b Hb) as [Hc Hr X1 X2 Y1 Y2]. pose proof len_xs as Lx. pose proof len_ys as Ly.
      unfold on_border. fold xs ys. rewrite X1, X2, Y1, Y2, !hd_nth, !last_nth, Lx, Ly.
      destruct d.
      - apply (Qceqb_nth ys ys_inc); lia.
      - replace (S (nrows C) - 1) with (nrows C) by lia. apply (Qceqb_nth ys ys_inc); lia.
      - replace (S (ncols C) - 1) with (ncols C) by lia. apply (Qceqb_nth xs xs_inc); lia.
      - apply (Qceqb_nth xs xs_inc); lia.
    Qed.

    Lemma same_line r1 r2 : (r2 <? S r1) && (r1 <? S r2) = Nat.eqb r1 r2.
    Proof. destruct (Nat.eqb_spec r1 r2), (Nat.ltb_spec r2 (S r1)), (Nat.ltb_spec r1 (S r2)); cbn; try reflexivity; lia. Qed.
    Lemma neighbour_eq b1 b2 d : b1 < n -> b2 < n -> neighbour inp b1 b2 d =
      match d with
      | DW => Nat.eqb (colb b1) (S (colb b2)) && Nat.eqb (rowb b1) (rowb b2)
      | DE => Nat.eqb (S (colb b1)) (colb b2) && Nat.eqb (rowb b1) (rowb b2)
      | DN => Nat.eqb (rowb b1) (S (rowb b2)) && Nat.eqb (colb b1) (colb b2)
      | DS => Nat.eqb (S (rowb b1)) (rowb b2) && Nat.eqb (colb b1) (colb b2)
      end.
    Proof.
      intros H1 H2. destruct (cell_ok_b b1 H1) as [Hc Hr X1 X2 Y1 Y2].
      destruct (cell_ok_b b2 H2) as [Hc' Hr' X1' X2' Y1' Y2']. pose proof len_xs as Lx. pose proof len_ys as Ly.
      unfold neighbour. rewrite X1, X2, Y1, Y2, X1', X2', Y1', Y2'.
      destruct d; rewrite ?(Qceqb_nth xs xs_inc), ?(Qceqb_nth ys ys_inc), ?(Qcltb_nth xs xs_inc), ?(Qcltb_nth ys ys_inc) by lia;
        rewrite <- andb_assoc, same_line; reflexivity.
    Qed.
  End Box.
End Grid.
