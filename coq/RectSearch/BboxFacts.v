(* C08 facts, part 8: the bounding box that solve computes from the cells of a box is the
   extent of the box (a full rectangle of cells). *)
From Coq Require Import ZArith List Bool String Arith Lia.
From FrameModel Require Import Num.QcTac RectSearch.Coords RectSearch.CoordsFacts RectSearch.Names RectSearch.Encode
  RectSearch.GridFacts RectSearch.Shapes RectSearch.BoxFacts RectSearch.AttachFacts RectSearch.SearchFacts.
Import ListNotations.
Local Open Scope nat_scope.

Section Bbox.
  Variable inp : problem.
  Hypothesis FG : full_grid inp = true.
  Notation C := (definecoords inp).
  Notation n := (List.length inp).
  Notation nx := (ncols (definecoords inp)).
  Notation ny := (nrows (definecoords inp)).
  Notation xs := (xcoords (definecoords inp)).
  Notation ys := (ycoords (definecoords inp)).
  Notation cb := (colb inp).
  Notation rb := (rowb inp).
  Variable s : nat -> bool.

  Definition to_box (R : irect) : box :=
    (nth (c0 R) xs 0%Qc, nth (r0 R) ys 0%Qc, nth (S (c1 R)) xs 0%Qc, nth (S (r1 R)) ys 0%Qc).
  Definition stepQ (acc : option box) (b : nat) : option box := if s b then grow acc (cel inp b) else acc.
  Definition stepI (acc : option irect) (b : nat) : option irect := if s b then grow_r acc (cb b) (rb b) else acc.
  Definition acc_ok (acc : option irect) : Prop :=
    match acc with None => True | Some R => c0 R < nx /\ c1 R < nx /\ r0 R < ny /\ r1 R < ny end.

  Lemma pick_min l i j : inc l -> i < List.length l -> j < List.length l ->
    (if Qcltb (nth i l 0%Qc) (nth j l 0%Qc) then nth i l 0%Qc else nth j l 0%Qc) = nth (Nat.min j i) l 0%Qc.
  Proof.
    intros S Hi Hj. rewrite (Qcltb_nth l S i j Hi Hj). destruct (Nat.ltb_spec i j).
    - rewrite Nat.min_r by lia. reflexivity.
    - rewrite Nat.min_l by lia. reflexivity.
  Qed.
  Lemma pick_max l i j : inc l -> i < List.length l -> j < List.length l ->
    (if Qcltb (nth j l 0%Qc) (nth i l 0%Qc) then nth i l 0%Qc else nth j l 0%Qc) = nth (Nat.max j i) l 0%Qc.
  Proof.
    intros S Hi Hj. rewrite (Qcltb_nth l S j i Hj Hi). destruct (Nat.ltb_spec j i).
    - rewrite Nat.max_r by lia. reflexivity.
    - rewrite Nat.max_l by lia. reflexivity.
  Qed.

  Lemma step_commutes acc b : b < n -> acc_ok acc ->
    stepQ (option_map to_box acc) b = option_map to_box (stepI acc b) /\ acc_ok (stepI acc b).
  Proof.
    intros Hb Ok. unfold stepQ, stepI. destruct (s b); [|split; [reflexivity|exact Ok]].
    destruct (cell_ok_b inp FG b Hb) as [Hc Hr X1 X2 Y1 Y2].
    pose proof (len_xs inp FG) as Lx. pose proof (len_ys inp FG) as Ly.
    destruct acc as [R|]; cbn [option_map grow grow_r to_box acc_ok] in *.
    - destruct Ok as (O1 & O2 & O3 & O4). split; [|cbn [c0 c1 r0 r1]; lia].
      unfold to_box. cbn [c0 c1 r0 r1]. rewrite X1, X2, Y1, Y2.
      rewrite (pick_min xs (cb b) (c0 R) (xs_inc inp)) by lia.
      rewrite (pick_min ys (rb b) (r0 R) (ys_inc inp)) by lia.
      rewrite (pick_max xs (S (cb b)) (S (c1 R)) (xs_inc inp)) by lia.
      rewrite (pick_max ys (S (rb b)) (S (r1 R)) (ys_inc inp)) by lia.
      rewrite <- !Nat.succ_max_distr. reflexivity.
    - split; [|cbn [c0 c1 r0 r1]; lia]. unfold to_box. cbn [c0 c1 r0 r1]. rewrite X1, X2, Y1, Y2. reflexivity.
  Qed.

  Lemma fold_commutes l : forall acc, (forall b, In b l -> b < n) -> acc_ok acc ->
    fold_left stepQ l (option_map to_box acc) = option_map to_box (fold_left stepI l acc).
  Proof.
    induction l as [|b l IH]; intros acc Hl Ok; [reflexivity|]. cbn [fold_left].
    destruct (step_commutes acc b (Hl b (or_introl eq_refl)) Ok) as [E Ok']. rewrite E.
    apply IH; [intros x Hx; apply Hl; right; exact Hx|exact Ok'].
  Qed.

  (* index level: the bounding rectangle of the cells of a rectangle is the rectangle *)
  Variable R : irect.
  Hypothesis OkR : rect_okb nx ny R = true.
  Hypothesis HR : forall b, b < n -> s b = in_rect R (cb b) (rb b).

  Definition inv (acc : option irect) (seen : nat -> Prop) : Prop :=
    match acc with
    | None => forall b, seen b -> b < n -> s b = false
    | Some R' => c0 R <= c0 R' /\ c0 R' <= c1 R' /\ c1 R' <= c1 R /\ r0 R <= r0 R' /\ r0 R' <= r1 R' /\ r1 R' <= r1 R /\
                 forall b, seen b -> b < n -> s b = true ->
                           c0 R' <= cb b /\ cb b <= c1 R' /\ r0 R' <= rb b /\ rb b <= r1 R'
    end.
  Lemma fold_inv l : forall acc seen, (forall b, In b l -> b < n) -> inv acc seen ->
    inv (fold_left stepI l acc) (fun b => seen b \/ In b l).
  Proof.
    induction l as [|b l IH]; intros acc seen Hl I; cbn [fold_left].
    - destruct acc as [R'|]; cbn [inv] in *.
      + destruct I as (A1 & A2 & A3 & A4 & A5 & A6 & A7). repeat split; try assumption;
          destruct H as [H|[]]; apply (A7 b H H0 H1).
      + intros b [H|[]] Hb. exact (I b H Hb).
    - assert (Hb : b < n) by (apply Hl; left; reflexivity).
      assert (I' : inv (stepI acc b) (fun x => seen x \/ x = b)).
      { unfold stepI. destruct (s b) eqn:Sb.
        - pose proof (HR b Hb) as E. rewrite Sb in E. symmetry in E. unfold in_rect in E. b2p'.
          destruct acc as [R'|]; cbn [inv grow_r c0 c1 r0 r1] in *.
          + destruct I as (A1 & A2 & A3 & A4 & A5 & A6 & A7). repeat split; try lia;
              destruct H as [H| ->]; try lia; destruct (A7 b0 H H0 H1) as (B1 & B2 & B3 & B4); lia.
          + repeat split; try lia; destruct H as [H| ->]; try lia; rewrite (I b0 H H0) in H1; discriminate.
        - destruct acc as [R'|]; cbn [inv] in *.
          + destruct I as (A1 & A2 & A3 & A4 & A5 & A6 & A7). repeat split; try assumption;
              destruct H as [H| ->]; try congruence; apply (A7 b0 H H0 H1).
          + intros x [H| ->] Hx; [exact (I x H Hx)|exact Sb]. }
      specialize (IH (stepI acc b) (fun x => seen x \/ x = b) ltac:(intros x Hx; apply Hl; right; exact Hx) I').
      destruct (fold_left stepI l (stepI acc b)) as [R'|]; cbn [inv] in *.
      + destruct IH as (A1 & A2 & A3 & A4 & A5 & A6 & A7). repeat split; try assumption;
          apply (A7 b0); try assumption; destruct H as [H|[<-|H]]; tauto.
      + intros x Hx Hn. apply IH; [|exact Hn]. destruct Hx as [H|[<-|H]]; tauto.
  Qed.

  Lemma bound_rect_rect : bound_rect C inp s = Some R.
  Proof.
    pose proof (fold_inv (seq 0 n) None (fun _ => False) ltac:(intros b Hb; apply in_seq in Hb; lia)
                         ltac:(cbn; intros b []) ) as I.
    unfold rect_okb in OkR. b2p'.
    destruct (cell_at inp FG (c0 R) (r0 R) ltac:(lia) ltac:(lia)) as (b1 & Hb1 & C1 & R1).
    destruct (cell_at inp FG (c1 R) (r1 R) ltac:(lia) ltac:(lia)) as (b2 & Hb2 & C2 & R2).
    assert (S1 : s b1 = true) by (rewrite (HR b1 Hb1), C1, R1; unfold in_rect; b2p'; lia).
    assert (S2 : s b2 = true) by (rewrite (HR b2 Hb2), C2, R2; unfold in_rect; b2p'; lia).
    assert (In1 : In b1 (seq 0 n)) by (apply in_seq; lia).
    assert (In2 : In b2 (seq 0 n)) by (apply in_seq; lia).
    unfold bound_rect. change (fold_left stepI (seq 0 n) None = Some R).
    destruct (fold_left stepI (seq 0 n) None) as [R'|]; cbn [inv] in I.
    - destruct I as (A1 & A2 & A3 & A4 & A5 & A6 & A7).
      pose proof (A7 b1 (or_intror In1) Hb1 S1).
      pose proof (A7 b2 (or_intror In2) Hb2 S2).
      destruct R as [a b c d], R' as [a' b' c' d']. cbn [c0 c1 r0 r1] in *. f_equal. f_equal; lia.
    - rewrite (I b1 (or_intror In1) Hb1) in S1. discriminate.
  Qed.

  Theorem bbox_rect : cells_bbox inp s = Some (to_box R).
  Proof.
    unfold cells_bbox. change (blocks C) with (seq 0 n).
    change (fold_left stepQ (seq 0 n) (option_map to_box None) = Some (to_box R)).
    rewrite fold_commutes; [|intros b Hb; apply in_seq in Hb; lia|exact I].
    change (fold_left stepI (seq 0 n) None) with (bound_rect C inp s). rewrite bound_rect_rect. reflexivity.
  Qed.
End Bbox.
