(* C08 model, part 2: [enforce_bb] and [solve] of tools/rect/rect.py (lines 93-277)
   as the sequence of constraints they post to the SATManager of C07 ([PB/Sat.v]),
   in the order of the code.  The generated formula is [run_posts] of that sequence.

   Repaired border tests (fixes/C08-border-tests.diff): a cell lies on the die's
   border when its coordinate equals the extreme coordinate of the grid
   ([xcoords[0]], [xcoords[-1]] ...); the unrepaired tests compared with the
   literal 0 and with int(Width), int(Height) - kept as [Orig W H] for
   [border_refuted]. *)
From Coq Require Import ZArith List Bool String Arith Lia.
From FrameModel Require Import Num.QcTac PB.Expr PB.Cnf PB.Amo PB.Robdd PB.Codify PB.Sat
  RectSearch.Coords RectSearch.Names.
Import ListNotations.
Local Open Scope nat_scope.

Definition pos (v : rv) : ul := (name v, true).
Definition ngt (v : rv) : ul := (name v, false).
(* sum of the literals >= 1, through pseudoboolencoding (Expr accumulation of distinct
   variables with coefficient 1; Ineq normal form: bound 1) *)
Definition atleast1 (vs : list rv) : post :=
  PIneq (mkI (map (fun v => mkT (name v) true 1) vs) 1 GE) false.

Inductive border_mode := Repaired | Orig (W H : Qc).
Definition Ztrunc (q : Qc) : Z := Z.quot (Qnum q) (Zpos (Qden q)).        (* int(float) *)
Definition ZQc (z : Z) : Qc := Q2Qc (inject_Z z).

Section BB.
  Variable mode : border_mode.
  Variable inp : problem.
  Variable C : coords.
  Variable i t : nat.            (* btag = "b<i>_", cbtag = "b<t>_" *)
  Let xs := xcoords C.
  Let ys := ycoords C.
  Definition cel (b : nat) : cell := nth b inp cell0.
  Definition xl (x : Qc) : rv := VxL i (idx x xs).      (* var_lilx[x] *)
  Definition xb (x : Qc) : rv := VxB i (idx x xs).      (* var_bigx[x] *)
  Definition yl (y : Qc) : rv := VyL i (idx y ys).
  Definition yb (y : Qc) : rv := VyB i (idx y ys).

  (* for b in blocks: the four implications from the cell to its interval variables *)
  Definition cellposts (b : nat) : list post :=
    let c := cel b in
    [PImply [pos (VCell i b)] (pos (xl (cx2 c))); PImply [pos (VCell i b)] (pos (xb (cx1 c)));
     PImply [pos (VCell i b)] (pos (yl (cy2 c))); PImply [pos (VCell i b)] (pos (yb (cy1 c)))].
  (* for i in range(1, len(xcoords)) *)
  Definition xchain (j : nat) : list post :=
    let x := nth j xs 0%Qc in let p := getd x (prev_x C) in
    [PImply [pos (xb p)] (pos (xb x)); PImply [pos (xl x)] (pos (xl p))].
  Definition ychain (j : nat) : list post :=
    let y := nth j ys 0%Qc in let p := getd y (prev_y C) in
    [PImply [pos (yb p)] (pos (yb y)); PImply [pos (yl y)] (pos (yl p))].
  (* the converse: the four interval literals of the cell imply the cell *)
  Definition converse (b : nat) : post :=
    let c := cel b in
    PImply [pos (xl (getd (cx1 c) (next_x C))); pos (xb (getd (cx2 c) (prev_x C)));
            pos (yl (getd (cy1 c) (next_y C))); pos (yb (getd (cy2 c) (prev_y C)))] (pos (VCell i b)).
  (* the dictionary lookups of [converse] that can raise KeyError *)
  Definition keys_ok (b : nat) : bool :=
    let c := cel b in
    has_key (cx1 c) (next_x C) && has_key (cx2 c) (prev_x C) &&
    has_key (cy1 c) (next_y C) && has_key (cy2 c) (prev_y C).

  Definition dirs : list rv := [VDir i DN; VDir i DS; VDir i DE; VDir i DW].
  Definition on_border (b : nat) (d : dir) : bool :=
    let c := cel b in
    match mode, d with
    | Repaired, DW => Qceqb (cx1 c) (hd 0%Qc xs)
    | Repaired, DN => Qceqb (cy1 c) (hd 0%Qc ys)
    | Repaired, DE => Qceqb (cx2 c) (last xs 0%Qc)
    | Repaired, DS => Qceqb (cy2 c) (last ys 0%Qc)
    | Orig _ _, DW => Qceqb (cx1 c) 0%Qc
    | Orig _ _, DN => Qceqb (cy1 c) 0%Qc
    | Orig W _, DE => Qceqb (cx2 c) (ZQc (Ztrunc W))
    | Orig _ H, DS => Qceqb (cy2 c) (ZQc (Ztrunc H))
    end.
  Definition excl (b : nat) (d : dir) : list post :=
    if on_border b d then [PImply [pos (VDir i d)] (ngt (VCell i b))] else [].
  (* [b2] is the neighbour of [b1] on side [d] (shares the side, overlaps in the other direction) *)
  Definition neighbour (b1 b2 : nat) (d : dir) : bool :=
    let c1 := cel b1 in let c2 := cel b2 in
    match d with
    | DW => Qceqb (cx1 c1) (cx2 c2) && Qcltb (cy1 c2) (cy2 c1) && Qcltb (cy1 c1) (cy2 c2)
    | DE => Qceqb (cx2 c1) (cx1 c2) && Qcltb (cy1 c2) (cy2 c1) && Qcltb (cy1 c1) (cy2 c2)
    | DN => Qceqb (cy1 c1) (cy2 c2) && Qcltb (cx1 c2) (cx2 c1) && Qcltb (cx1 c1) (cx2 c2)
    | DS => Qceqb (cy2 c1) (cy1 c2) && Qcltb (cx1 c2) (cx2 c1) && Qcltb (cx1 c1) (cx2 c2)
    end.
  Definition into_trunk (b1 b2 : nat) (d : dir) : list post :=
    if neighbour b1 b2 d
    then [PImply [pos (VCell i b1); pos (VDir i d); ngt (VCell i b2)] (pos (VCell t b2))] else [].
  Definition attach (b1 : nat) : list post :=
    excl b1 DW ++ excl b1 DN ++ excl b1 DE ++ excl b1 DS ++
    flat_map (fun b2 => into_trunk b1 b2 DW ++ into_trunk b1 b2 DE ++
                        into_trunk b1 b2 DN ++ into_trunk b1 b2 DS) (blocks C).

  Definition box_posts : list post :=
    flat_map cellposts (blocks C) ++
    flat_map xchain (seq 1 (List.length xs - 1)) ++
    flat_map ychain (seq 1 (List.length ys - 1)) ++
    map converse (blocks C) ++
    [atleast1 (map (VCell i) (blocks C))].
  Definition selector_posts : list post :=
    if Nat.eqb i t then []
    else [PAmoH 3 (map pos dirs); atleast1 dirs] ++ flat_map attach (blocks C).
  Definition enforce_bb : list post := box_posts ++ selector_posts.
End BB.

(* ---- solve ---- *)
Definition area (factor : Qc) (c : cell) (sel : bool) : Z :=
  if sel then Ztrunc (factor * cp c * (cx2 c - cx1 c) * (cy2 c - cy1 c))
  else Ztrunc (factor * (cx2 c - cx1 c) * (cy2 c - cy1 c)).

Section Solve.
  Variable mode : border_mode.
  Variable inp : problem.
  Variable k : nat.              (* nboxes *)
  Variable factor ratio : Qc.
  Variable bound : Z.            (* dif[0] *)
  Let C := definecoords inp.

  Definition selarea : expr :=
    fold_left (fun e b => add_term e (name (VSel b)) true (area factor (cel inp b) true)) (blocks C) zero.
  Definition realarea : expr :=
    fold_left (fun e b => add_term e (name (VSel b)) true (area factor (cel inp b) false)) (blocks C) zero.
  (* obj = ratio * selarea - realarea   (Expr.__rmul__ takes int(ratio)) *)
  Definition objective : expr := sub_expr (mul selarea (Ztrunc ratio)) realarea.
  Definition obj_ineq : ineq := mk_ineq objective (add_int zero bound) GE.

  Definition cellsel (b : nat) : list post :=
    map (fun i => PImply [pos (VCell i b)] (pos (VSel b))) (seq 0 k) ++
    [PImply (map (fun i => ngt (VCell i b)) (seq 0 k)) (ngt (VSel b))].
  Definition cell_amo (b : nat) : post := PAmoH 3 (map (fun i => pos (VCell i b)) (seq 0 k)).

  (* the part of the formula that does not depend on the cost bound *)
  Definition shape_posts_pre : list post :=
    flat_map cellsel (blocks C) ++ [atleast1 (map VSel (blocks C))].
  Definition shape_posts_post : list post :=
    flat_map (fun i => enforce_bb mode inp C i 0) (seq 0 k) ++ map cell_amo (blocks C).
  Definition shape_posts : list post := shape_posts_pre ++ shape_posts_post.
  (* [None]: KeyError in a prev/next lookup, or a mode of the tool that is not modelled (ratio < 1) *)
  Definition solve_posts : option (list post) :=
    if Qcltb ratio 1 then None
    else if (1 <=? k) && negb (forallb (keys_ok inp C) (blocks C)) then None
    else Some (shape_posts_pre ++ [PIneq obj_ineq false] ++ shape_posts_post).

  Definition encode (m0 : memory) : option (memory * mgr) :=
    match solve_posts with
    | None => None
    | Some ps => match run_posts m0 empty_mgr ps with
                 | Some (m, s, _) => Some (m, s)
                 | None => None
                 end
    end.

  (* bounding boxes of the model: rects[i], (inf, inf, -inf, -inf) = None *)
  Definition box := (Qc * Qc * Qc * Qc)%type.
  Definition grow (acc : option box) (c : cell) : option box :=
    match acc with
    | None => Some (cx1 c, cy1 c, cx2 c, cy2 c)
    | Some (x0, y0, x1, y1) =>
        Some (if Qcltb (cx1 c) x0 then cx1 c else x0, if Qcltb (cy1 c) y0 then cy1 c else y0,
              if Qcltb x1 (cx2 c) then cx2 c else x1, if Qcltb y1 (cy2 c) then cy2 c else y1)
    end.
  Definition bbox (e : valuation) (i : nat) : option box :=
    fold_left (fun acc b => if e (User (name (VCell i b))) then grow acc (cel inp b) else acc) (blocks C) None.

  Inductive result := Insat | Found (cost1 : Z) (rects : list (option box)).
  (* what solve returns once the solver has answered: (0, 1), [] / (int(o + 1), 1), rects *)
  Definition result_of (ans : option valuation) : result :=
    match ans with
    | None => Insat
    | Some e => Found (evalexpr e objective + 1)%Z (map (bbox e) (seq 0 k))
    end.
  Definition solve_with (sat_o : cnf -> option valuation) (m0 : memory) : option result :=
    match encode m0 with
    | None => None
    | Some (_, s) => Some (result_of (sat_o (clauses s)))
    end.

  (* the third component solve returns, the "quality" it also prints: the objective of the model
     relative to float(ratio - 1) * carrier.theoreticalBestArea ([tba], set by main to the sum of
     area(b, True), read by solve).  Repaired (fixes/C08-quality-zero-division.diff): 0 when that
     product is 0 (all occupied areas truncate to 0, or ratio = 1) - the unrepaired code raised
     ZeroDivisionError after the solver had found a shape.  "Insat" returns quality 0. *)
  Definition quality_of (tba : Z) (ans : option valuation) : Qc :=
    match ans with
    | None => 0%Qc
    | Some e => let best := ((ratio - 1) * ZQc tba)%Qc in
                if Qceqb best 0%Qc then 0%Qc else (ZQc (evalexpr e objective) / best)%Qc
    end.
  (* main (rect.py:479-481): carrier.theoreticalBestArea = sum over the blocks of area(b, True) *)
  Definition theoretical_area : Z :=
    fold_left (fun acc b => (acc + area factor (cel inp b) true)%Z) (blocks C) 0%Z.

  (* the cost of a cell selection: sum over the selected cells of int(ratio) * sel - real *)
  Definition cell_cost (b : nat) : Z :=
    (Ztrunc ratio * area factor (cel inp b) true - area factor (cel inp b) false)%Z.
  Definition cost_of (selected : nat -> bool) : Z :=
    fold_left (fun acc b => if selected b then (acc + cell_cost b)%Z else acc) (blocks C) 0%Z.
End Solve.
