(* C08 facts, part 5: enforce_bb with the N/S/E/W selector: a box (a rectangle, by part 4)
   that shares no cell with the trunk rectangle satisfies the selector clauses exactly when it
   abuts the trunk along one side within the trunk's extent - all grid sizes. *)
From Coq Require Import ZArith List Bool String Arith Lia.
From FrameModel Require Import Num.QcTac PB.Expr PB.Cnf PB.Robdd PB.Codify PB.Sat PB.SatFacts
  RectSearch.Coords RectSearch.CoordsFacts RectSearch.Names RectSearch.Encode RectSearch.EncodeFacts
  RectSearch.GridFacts RectSearch.Shapes RectSearch.BoxFacts.
Import ListNotations.
Local Open Scope nat_scope.

Ltac b2p' := rewrite ?andb_true_iff, ?andb_false_iff, ?orb_true_iff, ?orb_false_iff, ?Nat.leb_le, ?Nat.leb_gt,
  ?Nat.ltb_lt, ?Nat.ltb_ge, ?Nat.eqb_eq, ?Nat.eqb_neq, ?negb_true_iff in *.

Lemma imp_excl a v w : post_holds a (PImply [pos v] (ngt w)) <-> (a (name v) = true -> a (name w) = false).
Proof. rewrite imply_holds. cbn [forallb]. rewrite lv_pos, lv_ngt, andb_true_r, negb_true_iff. reflexivity. Qed.
Lemma imp_trunk a v1 v2 v3 w : post_holds a (PImply [pos v1; pos v2; ngt v3] (pos w)) <->
  (a (name v1) = true -> a (name v2) = true -> a (name v3) = false -> a (name w) = true).
Proof.
  rewrite imply_holds. cbn [forallb]. rewrite !lv_pos, lv_ngt, andb_true_r, !andb_true_iff, negb_true_iff. tauto.
Qed.

Definition dir_eq_dec (a b : dir) : {a = b} + {a <> b}.
Proof. decide equality. Defined.
Lemma dir_eqb_eq a b : dir_eqb a b = true <-> a = b.
Proof. destruct a, b; cbn; split; intro H; try reflexivity; try discriminate. Qed.

Section Sel.
  Variable mode : border_mode.
  Variable inp : problem.
  Notation C := (definecoords inp).
  Notation n := (List.length inp).
  Variable i t : nat.

  Definition sel_sem (f : rv -> bool) : Prop :=
    List.length (filter f (dirs i)) <= 1 /\
    (exists v, In v (dirs i) /\ f v = true) /\
    (forall b1 d, b1 < n -> on_border mode inp C b1 d = true -> f (VDir i d) = true -> f (VCell i b1) = false) /\
    (forall b1 b2 d, b1 < n -> b2 < n -> neighbour inp b1 b2 d = true ->
       f (VCell i b1) = true -> f (VDir i d) = true -> f (VCell i b2) = false -> f (VCell t b2) = true).

  Lemma excl_sem a b d : posts_hold a (excl mode inp C i b d) <->
    (on_border mode inp C b d = true -> a (name (VDir i d)) = true -> a (name (VCell i b)) = false).
  Proof.
    unfold excl. destruct (on_border mode inp C b d).
    - rewrite posts_hold_cons, posts_hold_nil, imp_excl. tauto.
    - rewrite posts_hold_nil. split; [intros _ H; discriminate H|intros _; exact I].
  Qed.
  Lemma into_trunk_sem a b1 b2 d : posts_hold a (into_trunk inp i t b1 b2 d) <->
    (neighbour inp b1 b2 d = true -> a (name (VCell i b1)) = true -> a (name (VDir i d)) = true ->
     a (name (VCell i b2)) = false -> a (name (VCell t b2)) = true).
  Proof.
    unfold into_trunk. destruct (neighbour inp b1 b2 d).
    - rewrite posts_hold_cons, posts_hold_nil, imp_trunk. tauto.
    - rewrite posts_hold_nil. split; [intros _ H; discriminate H|intros _; exact I].
  Qed.

  Lemma selector_posts_sem a : i <> t ->
    (posts_hold a (selector_posts mode inp C i t) <-> sel_sem (fun v => a (name v))).
  Proof.
    intro Ne. unfold selector_posts, sel_sem. apply Nat.eqb_neq in Ne. rewrite Ne.
    cbn [app]. rewrite !posts_hold_cons, amo_holds, atleast1_holds.
    change (blocks C) with (seq 0 n). rewrite posts_hold_flat_seq.
    apply and_iff_both; [reflexivity|]. apply and_iff_both; [reflexivity|].
    split.
    - intro H. split.
      + intros b1 d Hb. specialize (H b1 ltac:(lia)). unfold attach in H. rewrite !posts_hold_app in H.
        destruct H as (W & N & E & S & _). destruct d; [exact (proj1 (excl_sem a b1 DN) N)|exact (proj1 (excl_sem a b1 DS) S)|exact (proj1 (excl_sem a b1 DE) E)|exact (proj1 (excl_sem a b1 DW) W)].
      + intros b1 b2 d Hb1 Hb2. specialize (H b1 ltac:(lia)). unfold attach in H. rewrite !posts_hold_app in H.
        destruct H as (_ & _ & _ & _ & H). change (blocks C) with (seq 0 n) in H. rewrite posts_hold_flat_seq in H.
        specialize (H b2 ltac:(lia)). rewrite !posts_hold_app in H. destruct H as (W & E & N & S).
        destruct d; [exact (proj1 (into_trunk_sem a b1 b2 DN) N)|exact (proj1 (into_trunk_sem a b1 b2 DS) S)|exact (proj1 (into_trunk_sem a b1 b2 DE) E)|exact (proj1 (into_trunk_sem a b1 b2 DW) W)].
    - intros [H3 H4] b1 Hb1. unfold attach. rewrite !posts_hold_app. change (blocks C) with (seq 0 n).
      rewrite posts_hold_flat_seq. repeat split; try (apply excl_sem; apply H3; lia).
      intros b2 Hb2. rewrite !posts_hold_app. repeat split; apply into_trunk_sem; apply H4; lia.
  Qed.
End Sel.

Section Attach.
  Variable inp : problem.
  Hypothesis FG : full_grid inp = true.
  Notation C := (definecoords inp).
  Notation n := (List.length inp).
  Notation nx := (ncols (definecoords inp)).
  Notation ny := (nrows (definecoords inp)).
  Notation cb := (colb inp).
  Notation rb := (rowb inp).
  Variable i : nat.
  Hypothesis Ni : i <> 0.

  Definition is_rect_of (f : rv -> bool) (j : nat) (R : irect) : Prop :=
    forall b, b < n -> f (VCell j b) = in_rect R (cb b) (rb b).

  Lemma cell2 f T B c r : is_rect_of f 0 T -> is_rect_of f i B -> c < nx -> r < ny ->
    exists b, b < n /\ cb b = c /\ rb b = r /\ f (VCell 0 b) = in_rect T c r /\ f (VCell i b) = in_rect B c r.
  Proof.
    intros HT HB Hc Hr. destruct (cell_at inp FG c r Hc Hr) as [b [Hb [E1 E2]]].
    exists b. rewrite (HT b Hb), (HB b Hb), E1, E2. repeat split; assumption.
  Qed.

  (* which selector goes with which side *)
  Definition dir_of (T B : irect) : dir :=
    if abuts_e T B then DW else if abuts_w T B then DE else if abuts_s T B then DN else DS.

  Section Sound.
    Variable f : rv -> bool.
    Variables T B : irect.
    Hypothesis HT : is_rect_of f 0 T.
    Hypothesis HB : is_rect_of f i B.
    Hypothesis SS : sel_sem Repaired inp i 0 f.

    Lemma nb_W c r : f (VDir i DW) = true -> S c < nx -> r < ny ->
      in_rect B (S c) r = true -> in_rect B c r = false -> in_rect T c r = true.
    Proof.
      intros D Hc Hr I1 I2. destruct SS as (_ & _ & _ & A4).
      destruct (cell2 f T B (S c) r HT HB Hc Hr) as (b1 & Hb1 & C1 & R1 & _ & F1).
      destruct (cell2 f T B c r HT HB ltac:(lia) Hr) as (b2 & Hb2 & C2 & R2 & F2 & F2').
      rewrite <- F2. apply (A4 b1 b2 DW Hb1 Hb2); [|congruence|exact D|congruence].
      rewrite (neighbour_eq inp FG b1 b2 DW Hb1 Hb2), C1, C2, R1, R2, !Nat.eqb_refl. reflexivity.
    Qed.
    Lemma nb_E c r : f (VDir i DE) = true -> S c < nx -> r < ny ->
      in_rect B c r = true -> in_rect B (S c) r = false -> in_rect T (S c) r = true.
    Proof.
      intros D Hc Hr I1 I2. destruct SS as (_ & _ & _ & A4).
      destruct (cell2 f T B c r HT HB ltac:(lia) Hr) as (b1 & Hb1 & C1 & R1 & _ & F1).
      destruct (cell2 f T B (S c) r HT HB Hc Hr) as (b2 & Hb2 & C2 & R2 & F2 & F2').
      rewrite <- F2. apply (A4 b1 b2 DE Hb1 Hb2); [|congruence|exact D|congruence].
      rewrite (neighbour_eq inp FG b1 b2 DE Hb1 Hb2), C1, C2, R1, R2, !Nat.eqb_refl. reflexivity.
    Qed.
    Lemma nb_N c r : f (VDir i DN) = true -> c < nx -> S r < ny ->
      in_rect B c (S r) = true -> in_rect B c r = false -> in_rect T c r = true.
    Proof.
      intros D Hc Hr I1 I2. destruct SS as (_ & _ & _ & A4).
      destruct (cell2 f T B c (S r) HT HB Hc Hr) as (b1 & Hb1 & C1 & R1 & _ & F1).
      destruct (cell2 f T B c r HT HB Hc ltac:(lia)) as (b2 & Hb2 & C2 & R2 & F2 & F2').
      rewrite <- F2. apply (A4 b1 b2 DN Hb1 Hb2); [|congruence|exact D|congruence].
      rewrite (neighbour_eq inp FG b1 b2 DN Hb1 Hb2), C1, C2, R1, R2, !Nat.eqb_refl. reflexivity.
    Qed.
    Lemma nb_S c r : f (VDir i DS) = true -> c < nx -> S r < ny ->
      in_rect B c r = true -> in_rect B c (S r) = false -> in_rect T c (S r) = true.
    Proof.
      intros D Hc Hr I1 I2. destruct SS as (_ & _ & _ & A4).
      destruct (cell2 f T B c r HT HB Hc ltac:(lia)) as (b1 & Hb1 & C1 & R1 & _ & F1).
      destruct (cell2 f T B c (S r) HT HB Hc Hr) as (b2 & Hb2 & C2 & R2 & F2 & F2').
      rewrite <- F2. apply (A4 b1 b2 DS Hb1 Hb2); [|congruence|exact D|congruence].
      rewrite (neighbour_eq inp FG b1 b2 DS Hb1 Hb2), C1, C2, R1, R2, !Nat.eqb_refl. reflexivity.
    Qed.
    (* the border exclusions *)
    Lemma bd c r d : f (VDir i d) = true -> c < nx -> r < ny ->
      match d with DW => c = 0 | DN => r = 0 | DE => S c = nx | DS => S r = ny end ->
      in_rect B c r = false.
    Proof.
      intros D Hc Hr Hd. destruct SS as (_ & _ & A3 & _).
      destruct (cell2 f T B c r HT HB Hc Hr) as (b & Hb & C1 & R1 & _ & F1).
      rewrite <- F1. apply (A3 b d Hb); [|exact D].
      rewrite (on_border_eq inp FG b d Hb), C1, R1. destruct d; apply Nat.eqb_eq; exact Hd.
    Qed.

    Hypothesis OkT : rect_okb nx ny T = true.
    Hypothesis OkB : rect_okb nx ny B = true.
    Hypothesis Dj : forall b, b < n -> f (VCell i b) = true -> f (VCell 0 b) = false.
    Lemma dj c r : c < nx -> r < ny -> in_rect B c r = true -> in_rect T c r = false.
    Proof.
      intros Hc Hr I. destruct (cell2 f T B c r HT HB Hc Hr) as (b & Hb & _ & _ & F0 & F1).
      rewrite <- F0. apply (Dj b Hb). congruence.
    Qed.

    Theorem attach_sound : abutsb T B = true.
    Proof.
      pose proof SS as (_ & [v [Hv Fv]] & _). unfold rect_okb in OkT, OkB. b2p'.
      assert (I00 : in_rect B (c0 B) (r0 B) = true) by (unfold in_rect; b2p'; lia).
      assert (I01 : in_rect B (c0 B) (r1 B) = true) by (unfold in_rect; b2p'; lia).
      assert (I10 : in_rect B (c1 B) (r0 B) = true) by (unfold in_rect; b2p'; lia).
      assert (I11 : in_rect B (c1 B) (r1 B) = true) by (unfold in_rect; b2p'; lia).
      pose proof (dj (c0 B) (r0 B) ltac:(lia) ltac:(lia) I00) as D00.
      pose proof (dj (c1 B) (r1 B) ltac:(lia) ltac:(lia) I11) as D11.
      unfold abutsb. destruct Hv as [<-|[<-|[<-|[<-|[]]]]].
      - (* north: the box lies below the trunk *)
        assert (Z : r0 B <> 0).
        { intro Z. pose proof (bd (c0 B) (r0 B) DN Fv ltac:(lia) ltac:(lia) Z). congruence. }
        destruct (r0 B) as [|r] eqn:Er; [congruence|].
        pose proof (nb_N (c0 B) r Fv ltac:(lia) ltac:(lia) I00 ltac:(unfold in_rect; b2p'; lia)) as N0.
        pose proof (nb_N (c1 B) r Fv ltac:(lia) ltac:(lia) I10 ltac:(unfold in_rect; b2p'; lia)) as N1.
        assert (G : abuts_s T B = true); [|rewrite G, !orb_true_r; reflexivity].
        unfold abuts_s, in_rect in *. b2p'. lia.
      - (* south *)
        assert (Z : S (r1 B) <> ny).
        { intro Z. pose proof (bd (c0 B) (r1 B) DS Fv ltac:(lia) ltac:(lia) Z). congruence. }
        pose proof (nb_S (c0 B) (r1 B) Fv ltac:(lia) ltac:(lia) I01 ltac:(unfold in_rect; b2p'; lia)) as N0.
        pose proof (nb_S (c1 B) (r1 B) Fv ltac:(lia) ltac:(lia) I11 ltac:(unfold in_rect; b2p'; lia)) as N1.
        assert (G : abuts_n T B = true); [|rewrite G, !orb_true_r; reflexivity].
        unfold abuts_n, in_rect in *. b2p'. lia.
      - (* east *)
        assert (Z : S (c1 B) <> nx).
        { intro Z. pose proof (bd (c1 B) (r0 B) DE Fv ltac:(lia) ltac:(lia) Z). congruence. }
        pose proof (nb_E (c1 B) (r0 B) Fv ltac:(lia) ltac:(lia) I10 ltac:(unfold in_rect; b2p'; lia)) as N0.
        pose proof (nb_E (c1 B) (r1 B) Fv ltac:(lia) ltac:(lia) I11 ltac:(unfold in_rect; b2p'; lia)) as N1.
        assert (G : abuts_w T B = true); [|rewrite G; reflexivity].
        unfold abuts_w, in_rect in *. b2p'. lia.
      - (* west *)
        assert (Z : c0 B <> 0).
        { intro Z. pose proof (bd (c0 B) (r0 B) DW Fv ltac:(lia) ltac:(lia) Z). congruence. }
        destruct (c0 B) as [|c] eqn:Ec; [congruence|].
        pose proof (nb_W c (r0 B) Fv ltac:(lia) ltac:(lia) I00 ltac:(unfold in_rect; b2p'; lia)) as N0.
        pose proof (nb_W c (r1 B) Fv ltac:(lia) ltac:(lia) I01 ltac:(unfold in_rect; b2p'; lia)) as N1.
        assert (G : abuts_e T B = true); [|rewrite G, !orb_true_r; reflexivity].
        unfold abuts_e, in_rect in *. b2p'. lia.
    Qed.
  End Sound.

  Lemma dir_of_cases T B : abutsb T B = true ->
    (dir_of T B = DW /\ abuts_e T B = true) \/ (dir_of T B = DE /\ abuts_w T B = true) \/
    (dir_of T B = DN /\ abuts_s T B = true) \/ (dir_of T B = DS /\ abuts_n T B = true).
  Proof.
    unfold dir_of, abutsb. destruct (abuts_e T B), (abuts_w T B), (abuts_s T B), (abuts_n T B); cbn; intro H;
      try discriminate H; tauto.
  Qed.

  Theorem attach_complete f T B : is_rect_of f 0 T -> is_rect_of f i B ->
    rect_okb nx ny T = true -> rect_okb nx ny B = true -> abutsb T B = true ->
    (forall d, f (VDir i d) = dir_eqb d (dir_of T B)) ->
    sel_sem Repaired inp i 0 f.
  Proof.
    intros HT HB OkT OkB Ab Hd. unfold sel_sem. split; [|split; [|split]].
    - cbn [dirs filter]. rewrite !Hd. destruct (dir_of T B); cbn; lia.
    - exists (VDir i (dir_of T B)). split.
      + destruct (dir_of T B); cbn; tauto.
      + rewrite Hd. apply dir_eqb_eq. reflexivity.
    - intros b1 d Hb Ob Fd. rewrite Hd in Fd. apply dir_eqb_eq in Fd. subst d.
      rewrite (on_border_eq inp FG b1 _ Hb) in Ob. rewrite (HB b1 Hb).
      destruct (cell_ok_b inp FG b1 Hb) as [Hc Hr _ _ _ _].
      unfold rect_okb in OkT, OkB.
      destruct (dir_of_cases T B Ab) as [[Ed Ea]|[[Ed Ea]|[[Ed Ea]|[Ed Ea]]]]; rewrite Ed in Ob; cbn match in Ob;
        clear Ab Hd Ed; unfold abuts_e, abuts_w, abuts_s, abuts_n, in_rect in *; b2p'; lia.
    - intros b1 b2 d Hb1 Hb2 Nb F1 Fd F2. rewrite Hd in Fd. apply dir_eqb_eq in Fd. subst d.
      rewrite (neighbour_eq inp FG b1 b2 _ Hb1 Hb2) in Nb. rewrite (HB b1 Hb1) in F1. rewrite (HB b2 Hb2) in F2.
      rewrite (HT b2 Hb2).
      unfold rect_okb in OkT, OkB.
      destruct (dir_of_cases T B Ab) as [[Ed Ea]|[[Ed Ea]|[[Ed Ea]|[Ed Ea]]]]; rewrite Ed in Nb; cbn match in Nb;
        clear Ab Hd Ed; unfold abuts_e, abuts_w, abuts_s, abuts_n, in_rect in *; b2p'; lia.
  Qed.
End Attach.
