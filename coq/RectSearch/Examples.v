(* C08: non-vacuity examples and the refutation of the unrepaired border tests (F10). *)
From Coq Require Import ZArith List Bool String Arith Lia.
From FrameModel Require Import Num.QcTac PB.Expr PB.Cnf PB.Robdd PB.Codify PB.Sat PB.SatFacts
  RectSearch.Coords RectSearch.Names RectSearch.Encode RectSearch.EncodeFacts RectSearch.Shapes
  RectSearch.GridFacts RectSearch.BoxFacts RectSearch.AttachFacts RectSearch.ShapesFacts RectSearch.SearchFacts.
Import ListNotations.
Local Open Scope nat_scope.

(* a non-uniform 3 x 2 grid with a shifted, fractional origin; cells listed column by column *)
Definition ex_cells : problem :=
  let g := grid_cells [qc 1 2; qc 2 1; qc 7 2; qc 4 1] [qc (-1) 1; qc 1 4; qc 3 1] in
  with_occ [nth 0 g cell0; nth 3 g cell0; nth 1 g cell0; nth 4 g cell0; nth 2 g cell0; nth 5 g cell0]
           [qc 1 1; qc 1 2; qc 1 1; qc 1 4; 0%Qc; qc 3 4].
Example ex_full_grid : full_grid ex_cells = true.
Proof. vm_compute. reflexivity. Qed.
Example ex_not_full : full_grid (tl ex_cells) = false.
Proof. vm_compute. reflexivity. Qed.

(* an L-shaped 2-box orthogon on it: trunk = left column (cells 0 and 1), branch = the cell right of its top *)
Definition ex_sigma (i b : nat) : bool :=
  match i, b with 0, 0 | 0, 1 | 1, 2 => true | _, _ => false end.
Example ex_shape : shape 2 ex_cells ex_sigma.
Proof.
  exists [mkR 0 0 0 1; mkR 1 1 0 0]. split; [reflexivity|]. split; [vm_compute; reflexivity|].
  intros i b Hi Hb. destruct i as [|[|i]]; [| |lia];
    (destruct b as [|[|[|[|[|[|b]]]]]]; [vm_compute; reflexivity..|cbn in Hb; lia]).
Qed.
(* the specification is decided by [shapeb]; a detached pair is not a shape *)
Example ex_shapeb : shapeb 2 ex_cells ex_sigma = true /\
  shapeb 2 ex_cells (fun i b => match i, b with 0, 0 | 1, 5 => true | _, _ => false end) = false.
Proof. split; vm_compute; reflexivity. Qed.

(* solve's formula on it (k = 2, factor 16, ratio 2, bound 3): produced, 140 clauses and a diagram *)
Example ex_encode :
  match encode Repaired ex_cells 2 (qc 16 1) (qc 2 1) 3%Z [] with
  | Some (m, s) => 100 <=? List.length (clauses s) = true /\ 1 <=? List.length m = true
  | None => False
  end.
Proof. vm_compute. split; reflexivity. Qed.
(* a degenerate cell at the far edge: the KeyError of the code *)
Example ex_keyerror :
  solve_posts Repaired (ex_cells ++ [mkCell (qc 4 1) (qc (-1) 1) (qc 4 1) (qc 1 4) 0%Qc]) 1 (qc 16 1) (qc 2 1) 0%Z = None.
Proof. vm_compute. reflexivity. Qed.

(* the number of 1-, 2- and 3-box single-trunk orthogons of a 3 x 3 grid *)
Example ex_count : map (fun k => List.length (enum_shapes 3 3 k)) [1; 2; 3] = [36; 240; 852].
Proof. vm_compute. reflexivity. Qed.

(* ---- F10: the unrepaired border tests ---- *)
Definition f10_cells : problem := grid_cells [0%Qc; qc 1 1; qc 2 1; qc 7 2] [0%Qc; qc 1 1].
Definition f10_true : list rv :=
  [VCell 0 0; VCell 1 2; VSel 0; VSel 2;
   VxL 0 0; VxL 0 1; VxB 0 0; VxB 0 1; VxB 0 2; VxB 0 3; VyL 0 0; VyL 0 1; VyB 0 0; VyB 0 1;
   VxL 1 0; VxL 1 1; VxL 1 2; VxL 1 3; VxB 1 2; VxB 1 3; VyL 1 0; VyL 1 1; VyB 1 0; VyB 1 1;
   VDir 1 DE].
Definition f10_e : valuation :=
  fun v => match v with
           | User s => match unname s with Some x => existsb (rv_eqb x) f10_true | None => false end
           | Aux _ => true
           | Node _ => false
           end.

Theorem border_refuted : exists inp W H e,
  full_grid inp = true /\
  match run_posts [] empty_mgr (shape_posts (Orig W H) inp 2) with
  | Some (_, s, _) => sat e (clauses s)
  | None => False
  end /\ ~ shape 2 inp (cells_of e).
Proof.
  exists f10_cells, (qc 7 2), (qc 1 1), f10_e. split; [vm_compute; reflexivity|]. split; [vm_compute; reflexivity|].
  intros [Rs [L [SR HS]]].
  destruct Rs as [|T [|B [|? ?]]]; try discriminate L.
  assert (C0 : colb f10_cells 0 = 0 /\ rowb f10_cells 0 = 0) by (split; vm_compute; reflexivity).
  assert (C1 : colb f10_cells 1 = 1 /\ rowb f10_cells 1 = 0) by (split; vm_compute; reflexivity).
  assert (C2 : colb f10_cells 2 = 2 /\ rowb f10_cells 2 = 0) by (split; vm_compute; reflexivity).
  pose proof (HS 0 0 ltac:(lia) ltac:(cbn; lia)) as T0. pose proof (HS 0 2 ltac:(lia) ltac:(cbn; lia)) as T2.
  pose proof (HS 0 1 ltac:(lia) ltac:(cbn; lia)) as T1. pose proof (HS 1 1 ltac:(lia) ltac:(cbn; lia)) as B1.
  pose proof (HS 1 0 ltac:(lia) ltac:(cbn; lia)) as B0. pose proof (HS 1 2 ltac:(lia) ltac:(cbn; lia)) as B2.
  unfold sigma_of in *. cbn [nth] in T0, T1, T2, B0, B1, B2.
  change (col (definecoords f10_cells) (nth 0 f10_cells cell0)) with (colb f10_cells 0) in *.
  change (row (definecoords f10_cells) (nth 0 f10_cells cell0)) with (rowb f10_cells 0) in *.
  change (col (definecoords f10_cells) (nth 1 f10_cells cell0)) with (colb f10_cells 1) in *.
  change (row (definecoords f10_cells) (nth 1 f10_cells cell0)) with (rowb f10_cells 1) in *.
  change (col (definecoords f10_cells) (nth 2 f10_cells cell0)) with (colb f10_cells 2) in *.
  change (row (definecoords f10_cells) (nth 2 f10_cells cell0)) with (rowb f10_cells 2) in *.
  destruct C0 as [E1 E2], C2 as [E3 E4], C1 as [E5 E6]. rewrite E1, E2 in T0, B0. rewrite E3, E4 in T2, B2.
  rewrite E5, E6 in T1, B1.
  replace (cells_of f10_e 0 1) with false in T1 by (vm_compute; reflexivity).
  replace (cells_of f10_e 1 1) with false in B1 by (vm_compute; reflexivity).
  replace (cells_of f10_e 0 0) with true in T0 by (vm_compute; reflexivity).
  replace (cells_of f10_e 0 2) with false in T2 by (vm_compute; reflexivity).
  replace (cells_of f10_e 1 0) with false in B0 by (vm_compute; reflexivity).
  replace (cells_of f10_e 1 2) with true in B2 by (vm_compute; reflexivity).
  symmetry in T0, T1, T2, B0, B1, B2.
  apply shape_rects_iff in SR. destruct SR as (Ok & _ & _ & Ab).
  pose proof (Ok 0 ltac:(cbn; lia)) as OT. pose proof (Ok 1 ltac:(cbn; lia)) as OB.
  specialize (Ab 1 ltac:(lia) ltac:(cbn; lia)). cbn [nth] in OT, OB, Ab.
  replace (ncols (definecoords f10_cells)) with 3 in * by (vm_compute; reflexivity).
  replace (nrows (definecoords f10_cells)) with 1 in * by (vm_compute; reflexivity).
  clear HS Ok. unfold abutsb, abuts_w, abuts_e, abuts_n, abuts_s, rect_okb, in_rect in *. do 3 b2p'. lia.
Qed.
