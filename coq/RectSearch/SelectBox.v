(* C08 model, part 4: rect_io.select_box (tools/rect/rect_io.py) - the grid of cells of the
   selected module is built from the entries [xc, yc, w, h] / {module: ratio} that get_alloc
   copies from the Allocation: corners = centre -/+ size / 2.
   Repaired (fixes/C08-select-box-shared-borders.diff): the corner coordinates are then snapped -
   coordinates closer to each other than 1e-9 x the largest magnitude get one representative - so
   that adjacent cells share their border coordinate EXACTLY (definecoords uses the coordinates
   as dictionary keys).  The unrepaired code returned the raw corners: in binary64
   0.15 - 0.1/2 <> 0.05 + 0.1/2, a uniform 3 x 1 grid of 0.1-wide cells came out with five
   distinct x coordinates and the search lost three of its six one-box shapes.
   In the model (exact rationals) the raw corners of a grid are exact; the theorem below shows
   that snapping does not disturb a grid whose lines are further apart than the tolerance. *)
From Coq Require Import ZArith List Bool String Arith Lia Sorted Permutation.
From FrameModel Require Import Num.QcTac RectSearch.Coords RectSearch.CoordsFacts RectSearch.GridGen.
Import ListNotations.
Local Open Scope nat_scope.

(* one entry of ifile['Rectangles']: dim = [xc, yc, w, h], mod = the list of one-entry dicts {module: ratio} *)
Record arect := mkA { axc : Qc; ayc : Qc; aw : Qc; ah : Qc; amods : list (string * Qc) }.
(* val = 0.0; for every entry: if selected_box in entry: val = entry[selected_box] *)
Definition occ_of (sel : string) (mods : list (string * Qc)) : Qc :=
  fold_left (fun v e => if String.eqb sel (fst e) then snd e else v) mods 0%Qc.
Definition corners (sel : string) (a : arect) : cell :=
  mkCell (axc a - aw a * half) (ayc a - ah a * half) (axc a + aw a * half) (ayc a + ah a * half)
         (occ_of sel (amods a)).

Definition tol9 : Qc := qc 1 1000000000.
(* for v in ordered: if v - last > tolerance: last = v; representative[v] = last *)
Fixpoint snap_go (tol lst : Qc) (l : list Qc) : dict :=
  match l with
  | [] => []
  | v :: r => let lst' := if Qcltb tol (v - lst) then v else lst in (v, lst') :: snap_go tol lst' r
  end.
Definition snap_tol (ordered : list Qc) : Qc :=
  (tol9 * Qcmax (Qcabs (hd 0%Qc ordered)) (Qcabs (last ordered 0%Qc)))%Qc.
Definition snap (vals : list Qc) : dict :=
  let ordered := sort_set vals in
  match ordered with
  | [] => []
  | v0 :: _ => snap_go (snap_tol ordered) v0 ordered
  end.

Definition select_box (sel : string) (al : list arect) : problem :=
  let raw := map (corners sel) al in
  let sx := snap (flat_map (fun c => [cx1 c; cx2 c]) raw) in
  let sy := snap (flat_map (fun c => [cy1 c; cy2 c]) raw) in
  map (fun c => mkCell (getd (cx1 c) sx) (getd (cy1 c) sy) (getd (cx2 c) sx) (getd (cy2 c) sy) (cp c)) raw.

(* ---- facts ---- *)
(* consecutive coordinates are further apart than the tolerance *)
Fixpoint spaced (tol : Qc) (l : list Qc) : Prop :=
  match l with
  | a :: (b :: _) as r => (tol < b - a)%Qc /\ spaced tol r
  | _ => True
  end.

Lemma snap_go_id tol : forall l a, spaced tol (a :: l) -> snap_go tol a l = map (fun v => (v, v)) l.
Proof.
  induction l as [|v r IH]; intros a S; [reflexivity|]. destruct S as [G S]. cbn [snap_go map].
  replace (Qcltb tol (v - a)) with true by (symmetry; apply Qcltb_true; exact G).
  rewrite (IH v S). reflexivity.
Qed.
Lemma snap_id vals : spaced (snap_tol (sort_set vals)) (sort_set vals) -> snap vals = map (fun v => (v, v)) (sort_set vals).
Proof.
  unfold snap. destruct (sort_set vals) as [|v0 r] eqn:E; intro S; [reflexivity|].
  cbv zeta. cbn [snap_go map]. destruct (Qcltb _ _); rewrite (snap_go_id _ r v0 S); reflexivity.
Qed.
Lemma getd_id l x : getd x (map (fun v => (v, v)) l) = x.
Proof.
  unfold getd. induction l as [|v r IH]; [reflexivity|]. cbn [map lookup].
  destruct (Qceqb x v) eqn:E; [apply Qceqb_true in E; symmetry; exact E|exact IH].
Qed.

(* the corners of a cell given by its centre and size are the cell *)
Lemma corners_center sel a b c d mods :
  corners sel (mkA ((a + b) * half) ((c + d) * half) (b - a) (d - c) mods) = mkCell a c b d (occ_of sel mods).
Proof.
  unfold corners. cbn [axc ayc aw ah amods].
  assert (H : forall u v : Qc, ((u + v) * half - (v - u) * half = u /\ (u + v) * half + (v - u) * half = v)%Qc).
  { intros u v. pose proof (half_double u) as Hu. pose proof (half_double v) as Hv. split.
    - rewrite <- Hu at 3. ring.
    - rewrite <- Hv at 3. ring. }
  destruct (H a b) as [-> ->]. destruct (H c d) as [-> ->]. reflexivity.
Qed.

(* select_box on the allocation of a grid whose lines are further apart than the tolerance:
   the raw corners, a grid on xs, ys *)
Theorem select_box_grid xs ys sel al :
  inc xs -> inc ys -> 2 <= List.length xs -> 2 <= List.length ys ->
  is_grid xs ys (map (corners sel) al) -> spaced (snap_tol xs) xs -> spaced (snap_tol ys) ys ->
  select_box sel al = map (corners sel) al /\ is_grid xs ys (select_box sel al).
Proof.
  intros Sx Sy Lx Ly Gd Px Py.
  destruct (full_grid_general xs ys _ Sx Sy Lx Ly Gd) as (_ & Ex & Ey).
  assert (E : select_box sel al = map (corners sel) al).
  { unfold select_box.
    change (sort_set (flat_map (fun c => [cx1 c; cx2 c]) (map (corners sel) al)) = xs) in Ex.
    change (sort_set (flat_map (fun c => [cy1 c; cy2 c]) (map (corners sel) al)) = ys) in Ey.
    rewrite !snap_id by (rewrite ?Ex, ?Ey; assumption).
    transitivity (map (fun c : cell => c) (map (corners sel) al)); [|apply map_id].
    apply map_ext. intros [x1 y1 x2 y2 p]. cbn [cx1 cy1 cx2 cy2 cp]. rewrite !getd_id. reflexivity. }
  split; [exact E|rewrite E; exact Gd].
Qed.

(* the entry get_alloc produces for a cell (centre, size) with the modules' ratios [mods] *)
Definition arect_of (c : cell) (mods : list (string * Qc)) : arect :=
  mkA ((cx1 c + cx2 c) * half) ((cy1 c + cy2 c) * half) (cx2 c - cx1 c) (cy2 c - cy1 c) mods.
Definition cell_of (sel : string) (cm : cell * list (string * Qc)) : cell :=
  mkCell (cx1 (fst cm)) (cy1 (fst cm)) (cx2 (fst cm)) (cy2 (fst cm)) (occ_of sel (snd cm)).

(* from the allocation of a grid (the cells of the grid on xs, ys in any order, each with the
   ratios of its modules) select_box returns that grid with the selected module's ratios *)
Theorem select_box_of_grid xs ys sel (cms : list (cell * list (string * Qc))) :
  inc xs -> inc ys -> 2 <= List.length xs -> 2 <= List.length ys ->
  is_grid xs ys (map fst cms) -> spaced (snap_tol xs) xs -> spaced (snap_tol ys) ys ->
  select_box sel (map (fun cm => arect_of (fst cm) (snd cm)) cms) = map (cell_of sel) cms /\
  is_grid xs ys (map (cell_of sel) cms).
Proof.
  intros Sx Sy Lx Ly Gd Px Py.
  assert (Ec : map (corners sel) (map (fun cm => arect_of (fst cm) (snd cm)) cms) = map (cell_of sel) cms).
  { rewrite map_map. apply map_ext. intros [[x1 y1 x2 y2 p] mods]. unfold arect_of, cell_of. cbn [fst snd cx1 cy1 cx2 cy2].
    apply corners_center. }
  assert (Gd' : is_grid xs ys (map (cell_of sel) cms)).
  { unfold is_grid in *. rewrite map_map. rewrite map_map in Gd. exact Gd. }
  destruct (select_box_grid xs ys sel _ Sx Sy Lx Ly ltac:(rewrite Ec; exact Gd') Px Py) as [E _].
  split; [rewrite E; exact Ec|exact Gd'].
Qed.

(* non-vacuity: the 2 x 1 grid on [1/2; 2; 11/4] x [0; 3/2] stored as an allocation (second cell first, a
   bystander module, the selected module absent from one cell) *)
Example ex_select_box :
  let xs := [qc 1 2; qc 2 1; qc 11 4] in let ys := [0%Qc; qc 3 2] in
  let cms := [(mkCell (qc 2 1) 0%Qc (qc 11 4) (qc 3 2) 0%Qc, [("N"%string, qc 1 4)]);
              (mkCell (qc 1 2) 0%Qc (qc 2 1) (qc 3 2) 0%Qc, [("N"%string, qc 1 2); ("M"%string, qc 3 4)])] in
  inc xs /\ inc ys /\ is_grid xs ys (map fst cms) /\ spaced (snap_tol xs) xs /\ spaced (snap_tol ys) ys /\
  map (cell_of "M") cms =
    [mkCell (qc 2 1) 0%Qc (qc 11 4) (qc 3 2) 0%Qc; mkCell (qc 1 2) 0%Qc (qc 2 1) (qc 3 2) (qc 3 4)].
Proof.
  cbv zeta. split; [|split; [|split; [|split; [|split]]]].
  - repeat (constructor; [|repeat (constructor; [reflexivity|]); constructor]). constructor.
  - repeat (constructor; [|repeat (constructor; [reflexivity|]); constructor]). constructor.
  - unfold is_grid. cbn [map fst grid_cells row_cells app]. apply perm_swap.
  - cbn [spaced]. repeat split; apply Qcltb_true; vm_compute; reflexivity.
  - cbn [spaced]. repeat split; apply Qcltb_true; vm_compute; reflexivity.
  - reflexivity.
Qed.
