(* C08 facts, part 10: shapes_exact and search_exact for grids GIVEN BY THEIR COORDINATE LISTS.
   The decidable hypothesis [full_grid] is discharged by GridGen.full_grid_general: the
   theorems apply to every rectangular grid of cells - any strictly increasing column and row
   boundaries (uniform or not, any origin, integer or fractional), the cells listed in any
   order with arbitrary occupancy values.  The search theorem is restated with the index
   rectangles of the shape and the returned rectangles written with xs, ys themselves. *)
From Coq Require Import ZArith List Bool String Arith Lia Sorted Permutation.
From FrameModel Require Import Num.QcTac PB.Expr PB.Cnf PB.Robdd PB.Codify PB.Sat PB.SatFacts
  RectSearch.Coords RectSearch.CoordsFacts RectSearch.Names RectSearch.Encode RectSearch.EncodeFacts
  RectSearch.GridFacts RectSearch.Shapes RectSearch.BoxFacts RectSearch.AttachFacts RectSearch.ShapesFacts
  RectSearch.SearchFacts RectSearch.BboxFacts RectSearch.GridGen.
Import ListNotations.
Local Open Scope nat_scope.

Theorem shapes_exact_grid : forall xs ys inp k (m0 : memory),
  StronglySorted Qclt xs -> StronglySorted Qclt ys -> 2 <= List.length xs -> 2 <= List.length ys ->
  is_grid xs ys inp -> 1 <= k -> mem_wf m0 ->
  exists m s sts, run_posts m0 empty_mgr (shape_posts Repaired inp k) = Some (m, s, sts) /\
    forall sigma,
      (exists a, (forall i b, i < k -> b < List.length inp -> a (name (VCell i b)) = sigma i b) /\
                 ext a (clauses s)) <-> shape k inp sigma.
Proof.
  intros xs ys inp k m0 Sx Sy Lx Ly Gd Hk W.
  exact (shapes_exact inp k m0 (proj1 (full_grid_general xs ys inp Sx Sy Lx Ly Gd)) Hk W).
Qed.

(* the rectangle (x0, y0, x1, y1) covered by an index rectangle of the grid on xs, ys *)
Definition box_of (xs ys : list Qc) (R : irect) : box :=
  (nth (c0 R) xs 0%Qc, nth (r0 R) ys 0%Qc, nth (S (c1 R)) xs 0%Qc, nth (S (r1 R)) ys 0%Qc).
(* the cost of a shape given by its index rectangles *)
Definition shape_cost (inp : problem) (factor ratio : Qc) (Rs : list irect) : Z :=
  cost_of inp factor ratio (selected (List.length Rs) (sigma_of (definecoords inp) inp Rs)).

Lemma map_nth_seq {A B} (g : A -> B) d l : map (fun i => g (nth i l d)) (seq 0 (List.length l)) = map g l.
Proof.
  induction l as [|a l IH]; [reflexivity|]. cbn [List.length seq map nth]. f_equal.
  rewrite <- seq_shift, map_map. exact IH.
Qed.

Section SearchGrid.
  Variable sat_o : cnf -> option valuation.
  Hypothesis sat_o_sound : forall f e, sat_o f = Some e -> sat e f.
  Hypothesis sat_o_complete : forall f, sat_o f = None -> forall e, ~ sat e f.

  Theorem search_exact_grid : forall xs ys inp k factor ratio bound (m0 : memory),
    StronglySorted Qclt xs -> StronglySorted Qclt ys -> 2 <= List.length xs -> 2 <= List.length ys ->
    is_grid xs ys inp -> 1 <= k -> mem_wf m0 -> ~ (ratio < 1)%Qc ->
    exists r, solve_with Repaired inp k factor ratio bound sat_o m0 = Some r /\
      match r with
      | Insat => forall Rs, List.length Rs = k ->
                   shape_rects (List.length xs - 1) (List.length ys - 1) Rs = true ->
                   (shape_cost inp factor ratio Rs < bound)%Z
      | Found c1 rects =>
          exists Rs, List.length Rs = k /\
            shape_rects (List.length xs - 1) (List.length ys - 1) Rs = true /\
            (bound <= shape_cost inp factor ratio Rs)%Z /\
            c1 = (shape_cost inp factor ratio Rs + 1)%Z /\
            rects = map (fun R => Some (box_of xs ys R)) Rs
      end.
  Proof.
    intros xs ys inp k factor ratio bound m0 Sx Sy Lx Ly Gd Hk W Hr.
    destruct (full_grid_general xs ys inp Sx Sy Lx Ly Gd) as (FG & Ex & Ey).
    destruct (search_exact sat_o sat_o_sound sat_o_complete inp k factor ratio bound m0 FG Hk W Hr) as [r [Er Hres]].
    exists r. split; [exact Er|]. destruct r as [|c1 rects].
    - intros Rs L SR. unfold shape_cost. rewrite L. apply Hres. exists Rs. split; [exact L|]. split.
      + unfold ncols, nrows. rewrite Ex, Ey. exact SR.
      + intros; reflexivity.
    - destruct Hres as (sigma & (Rs & L & SR & HS) & Hb & Hc & Hrects).
      assert (Ec : cost_of inp factor ratio (selected k sigma) = shape_cost inp factor ratio Rs).
      { unfold shape_cost. rewrite L. apply cost_of_ext. intros b Hb'. unfold selected.
        apply existsb_ext_in. intros i Hi. apply in_seq in Hi. apply HS; lia. }
      exists Rs. split; [exact L|]. split; [unfold ncols, nrows in SR; rewrite Ex, Ey in SR; exact SR|].
      split; [rewrite <- Ec; exact Hb|]. split; [rewrite <- Ec; exact Hc|].
      rewrite Hrects, <- (map_nth_seq (fun R => Some (box_of xs ys R)) R0 Rs), L.
      apply map_ext_in. intros i Hi. apply in_seq in Hi.
      apply shape_rects_iff in SR. destruct SR as (Ok & _).
      rewrite (bbox_rect inp FG (sigma i) (nth i Rs R0)).
      + unfold to_box, box_of. rewrite Ex, Ey. reflexivity.
      + apply Ok. lia.
      + intros b Hb'. exact (HS i b ltac:(lia) Hb').
  Qed.
End SearchGrid.

(* non-vacuity: a 3 x 2 non-uniform grid with a fractional, shifted origin, cells shuffled, occupancies set *)
Example ex_is_grid :
  let xs := [qc 1 2; qc 2 1; qc 7 2; qc 4 1] in let ys := [qc (-1) 1; qc 1 4; qc 3 1] in
  let g := grid_cells xs ys in
  let inp := with_occ [nth 0 g cell0; nth 3 g cell0; nth 1 g cell0; nth 4 g cell0; nth 2 g cell0; nth 5 g cell0]
                      [qc 1 1; qc 1 2; qc 1 1; qc 1 4; 0%Qc; qc 3 4] in
  StronglySorted Qclt xs /\ StronglySorted Qclt ys /\ is_grid xs ys inp.
Proof.
  cbv zeta. split; [|split].
  - repeat (constructor; [|repeat (constructor; [reflexivity|]); constructor]). constructor.
  - repeat (constructor; [|repeat (constructor; [reflexivity|]); constructor]). constructor.
  - apply is_grid_with_occ; [reflexivity|]. unfold is_grid.
    apply Permutation_map. cbn [grid_cells row_cells app nth].
    apply perm_skip.
    lazymatch goal with |- Permutation (_ :: _) (?a :: ?b :: ?c :: ?d) => apply (Permutation_cons_app [a; b] d) end.
    apply perm_skip. apply perm_swap.
Qed.
