(* C10 - model of the CONSTRAINT SYSTEM optimize_allocation (tools/glbfloor/optimization.py:239-408)
   hands to GEKKO: which quantities are Python floats and which are solver variables, the bounds of the
   variables, and every (in)equation issued through g.Equation.  Definitions only; facts in SystemFacts.v.

   The model mirrors the code repaired by fixes/C10-fake-name-clash.diff: the internal name f"{m}_{r}" of the
   r-th rectangle of a movable hard module m must not be the name of a module of the netlist (AssertionError).
   On the unrepaired code such a netlist silently shares the dictionary rows model.a / model.x / model.y of two
   different modules (corpus/C10/fake-name-clash-fixed.json).

   Names are data: a variable is identified by the dictionary and key under which the code stores it
   (model.a[key][c], model.x[key], model.y[key], model.d[key]); nothing is ever decided by looking inside a name.

   VARIABLES (g.Var), with their bounds:
     VX k, VY k   lb/ub = the die's bounding box      every non-fixed entry of `modules`, every movable hard module
     VD k         lb = 0                               every non-fixed entry of `modules`
     VA k c       lb = 0, ub = 1                       entries of `modules` the threshold rule does not freeze
                                                       ([model_a] = None), and every (movable hard module, cell)
     VEX j, VEY j lb = 0                               the j-th net with other than two pins
   where `modules` = [problem_modules]: soft and fixed modules themselves, movable hard modules replaced by one
   "fake" one-rectangle module per rectangle.
   EQUATIONS (in the order of the code; `a k c` is a float or a variable, `x k` likewise):
     cap c        sum_{k in modules} a k c <= 1                                      every cell c
     area k       sum_c area_c * a k c >= area_k                                     every k in modules
     centx/y k    1/area_k * sum_c area_c*cx_c * a k c == x k                        every k in modules
     disp k       6/area_k^(3/2) * sum_c area_c * a k c * ((x k - cx_c)^2 + (y k - cy_c)^2) == d k    soft k
     for every movable hard module m with rectangles r_0 .. r_{n-1}  (m_r = f"{m}_{r}"):
     anchor       x m - x m_0 == cx_m - cx_{r_0}    (flip: both sides squared)       and the same in y
     link c       a m c == sum_r a m_r c                                             every cell c
     rigid r r'   x m_r - x m_r' == cx_r - cx_r'    (flip: both sides squared), y    r < r'
     disp m_r     12/(w^3+h^3) * sum_c area_c * a m_r c * D == d m_r
                  D = (h/w*(x - cx_c))^2 + (y - cy_c)^2 if w < h else (x - cx_c)^2 + (w/h*(y - cy_c))^2
     hyper j      (sum_{k in net} x k) / n == VEX j,  the same in y                  nets with n <> 2 pins
   The objective (g.Minimize) is not a constraint and is not modelled.  area^(3/2) is not rational: it is the
   section variable [pow32] (any function; no theorem depends on it).  The dispersion function is the default
   x^2 + y^2 of glbfloor.  Terminals are not modelled (the netlists of the quantifier have none).             *)
From FrameModel Require Import Num.QcTac Geometry.Rect Alloc.Alloc Glb.Extract.
Open Scope list_scope.
Open Scope Qc_scope.

Inductive var :=
| VA (k : string) (c : nat) | VX (k : string) | VY (k : string) | VD (k : string)
| VEX (j : nat) | VEY (j : nat).

Inductive expr :=
| EC (q : Qc) | EV (v : var)
| EAdd (a b : expr) | ESub (a b : expr) | EMul (a b : expr) | ESqr (a : expr).

Inductive rel := LE | GE | EQ.
Record con := mkCon { clhs : expr; crel : rel; crhs : expr }.
Record vdecl := mkV { vvar : var; vlb : option Qc; vub : option Qc }.
Record system := mkSys { svars : list vdecl; scons : list con }.

(* ---- semantics ---- *)
Fixpoint eval (asg : var -> Qc) (e : expr) : Qc :=
  match e with
  | EC q => q
  | EV v => asg v
  | EAdd a b => eval asg a + eval asg b
  | ESub a b => eval asg a - eval asg b
  | EMul a b => eval asg a * eval asg b
  | ESqr a => eval asg a * eval asg a
  end.

(* an (in)equation holds within the solver's constraint tolerance *)
Definition holds (tol : Qc) (asg : var -> Qc) (c : con) : Prop :=
  match crel c with
  | LE => eval asg (clhs c) <= eval asg (crhs c) + tol
  | GE => eval asg (crhs c) <= eval asg (clhs c) + tol
  | EQ => eval asg (clhs c) <= eval asg (crhs c) + tol /\ eval asg (crhs c) <= eval asg (clhs c) + tol
  end.
(* bounds are kept exactly (the Allocation constructor re-checks 0 <= ratio <= 1 without tolerance) *)
Definition in_bounds (asg : var -> Qc) (d : vdecl) : Prop :=
  (forall lb, vlb d = Some lb -> lb <= asg (vvar d)) /\ (forall ub, vub d = Some ub -> asg (vvar d) <= ub).
(* "the solver returned a point feasible for the system it was given" *)
Definition Feasible (tol : Qc) (s : system) (asg : var -> Qc) : Prop :=
  Forall (in_bounds asg) (svars s) /\ Forall (holds tol asg) (scons s).

(* g.sum(list) *)
Definition esum (l : list expr) : expr := fold_right EAdd (EC 0) l.

Definition find_module (k : string) (ms : list module) : option module :=
  find (fun m => String.eqb (mname m) k) ms.

(* movable hard modules, in netlist order (nonfixed_hard_modules) *)
Definition hards (mods : list module) : list module :=
  filter (fun m => mhard m && negb (mfixed m)) mods.

Section Gen.
Variable pow32 : Qc -> Qc.                 (* area ** (3/2) *)
Variables (eps t : Qc) (die : Rect).
Variable mods : list module.               (* die.netlist.modules *)
Variable areas : alloc.                    (* Module.area() of the soft modules, by name *)
Variable cells : list cell.                (* the allocation to optimise *)
Variable edges : list (list string).       (* the nets: names of their pins *)

Definition pms : list module := problem_modules mods.
Definition icells : list (nat * cell) := indexed_from 0 cells.

(* Module.area(): hard modules (fixed ones, fake ones) = sum of their rectangles; soft = the given area *)
Definition pm_area (m : module) : Qc :=
  if mhard m then rects_area (mrects m)
  else match lookup (mname m) areas with Some a => a | None => 0 end.

(* model.a[k][c], model.x[k], model.y[k] for an entry of `modules` *)
Definition a_ent (m : module) (c : nat) : expr :=
  match model_a eps t cells m c with Some v => EC v | None => EV (VA (mname m) c) end.
Definition x_ent (m : module) : expr := if mfixed m then EC (fst (mcenter m)) else EV (VX (mname m)).
Definition y_ent (m : module) : expr := if mfixed m then EC (snd (mcenter m)) else EV (VY (mname m)).
(* model.x[name] / model.y[name] of a netlist module, as the nets read them after all assignments *)
Definition x_name (k : string) : expr :=
  match find_module k mods with Some m => x_ent m | None => EC 0 end.
Definition y_name (k : string) : expr :=
  match find_module k mods with Some m => y_ent m | None => EC 0 end.

(* ---- variables ---- *)
Definition die_x (v : var) : vdecl := mkV v (Some (xmin die)) (Some (xmax die)).
Definition die_y (v : var) : vdecl := mkV v (Some (ymin die)) (Some (ymax die)).
Definition unit_v (v : var) : vdecl := mkV v (Some 0) (Some 1).
Definition nonneg_v (v : var) : vdecl := mkV v (Some 0) None.

(* An entry of `modules` together with its row of model.a: [snd p c] is model.a[name][c].  The generators below
   are written over such pairs so that the row of a module is computed once; the model instantiates them with
   [ent_of m = (m, a_ent m)]  (Cases/CmpC10Sys.v evaluates the same generators with tabulated rows,
   Glb/SystemFacts.v: gen_system_of_ext shows that this makes no difference). *)
Definition ent := (module * (nat -> expr))%type.
Definition ent_of (m : module) : ent := (m, a_ent m).

Definition xyd_decls (m : module) : list vdecl :=
  if mfixed m then []
  else [die_x (VX (mname m)); die_y (VY (mname m)); nonneg_v (VD (mname m))].
(* the entries that are g.Var(lb=0, ub=1) *)
Definition a_decls_of (p : ent) : list vdecl :=
  flat_map (fun ic => match snd p (fst ic) with EV v => [unit_v v] | _ => [] end) icells.
Definition hard_decls (m : module) : list vdecl :=
  [die_x (VX (mname m)); die_y (VY (mname m))] ++ map (fun ic => unit_v (VA (mname m) (fst ic))) icells.
Definition is_hyper (e : list string) : bool := negb (Nat.eqb (List.length e) 2).
Definition hypers : list (nat * list string) := indexed_from 0 (filter is_hyper edges).
Definition edge_decls : list vdecl :=
  flat_map (fun je => [nonneg_v (VEX (fst je)); nonneg_v (VEY (fst je))]) hypers.

Definition all_decls_of (ents : list ent) : list vdecl :=
  flat_map xyd_decls pms ++ flat_map a_decls_of ents ++ flat_map hard_decls (hards mods) ++ edge_decls.

(* ---- equations ---- *)
(* cells cannot be over-occupied *)
Definition cap_con_of (ents : list ent) (c : nat) : con := mkCon (esum (map (fun p => snd p c) ents)) LE (EC 1).

(* modules must have sufficient area; centroid of modules *)
Definition area_con_of (p : ent) : con :=
  mkCon (esum (map (fun ic => EMul (EC (area (crect (snd ic)))) (snd p (fst ic))) icells)) GE (EC (pm_area (fst p))).
Definition centx_con_of (p : ent) : con :=
  mkCon (EMul (EC (1 / pm_area (fst p)))
              (esum (map (fun ic => EMul (EC (area (crect (snd ic)) * cx (crect (snd ic)))) (snd p (fst ic))) icells)))
        EQ (x_ent (fst p)).
Definition centy_con_of (p : ent) : con :=
  mkCon (EMul (EC (1 / pm_area (fst p)))
              (esum (map (fun ic => EMul (EC (area (crect (snd ic)) * cy (crect (snd ic)))) (snd p (fst ic))) icells)))
        EQ (y_ent (fst p)).
(* dispersion of soft modules *)
Definition disp_con_of (p : ent) : con :=
  let m := fst p in
  mkCon (EMul (EC (qc 6 1 / pow32 (pm_area m)))
              (esum (map (fun ic => EMul (EMul (EC (area (crect (snd ic)))) (snd p (fst ic)))
                                         (EAdd (ESqr (ESub (x_ent m) (EC (cx (crect (snd ic))))))
                                               (ESqr (ESub (y_ent m) (EC (cy (crect (snd ic)))))))) icells)))
        EQ (EV (VD (mname m))).
Definition module_cons_of (p : ent) : list con :=
  [area_con_of p; centx_con_of p; centy_con_of p] ++ (if mhard (fst p) then [] else [disp_con_of p]).

(* movable hard modules *)
Definition offset_con (flip : bool) (u v : expr) (d : Qc) : con :=
  if flip then mkCon (ESqr (ESub u v)) EQ (EC (d * d)) else mkCon (ESub u v) EQ (EC d).
Definition link_con_of (m : module) (fents : list ent) (c : nat) : con :=
  mkCon (EV (VA (mname m) c)) EQ (esum (map (fun p => snd p c) fents)).
Definition fake_disp_con_of (p : ent) (r : Rect) : con :=
  let fm := fst p in let w := rw r in let h := rh r in
  mkCon (EMul (EC (qc 12 1 / (w * w * w + h * h * h)))
              (esum (map (fun ic =>
                 let dx := ESub (x_ent fm) (EC (cx (crect (snd ic)))) in
                 let dy := ESub (y_ent fm) (EC (cy (crect (snd ic)))) in
                 EMul (EMul (EC (area (crect (snd ic)))) (snd p (fst ic)))
                      (if Qcltb w h then EAdd (ESqr (EMul (EC (h / w)) dx)) (ESqr dy)
                       else EAdd (ESqr dx) (ESqr (EMul (EC (w / h)) dy)))) icells)))
        EQ (EV (VD (mname fm))).
(* for r, rectangle: (for r' > r: the two offset equations); the dispersion of m_r *)
Fixpoint rigid_cons_of (flip : bool) (fms : list (ent * Rect)) : list con :=
  match fms with
  | [] => []
  | (p, r) :: rest =>
      flat_map (fun q => [offset_con flip (x_ent (fst p)) (x_ent (fst (fst q))) (cx r - cx (snd q));
                          offset_con flip (y_ent (fst p)) (y_ent (fst (fst q))) (cy r - cy (snd q))]) rest
      ++ [fake_disp_con_of p r] ++ rigid_cons_of flip rest
  end.
Definition hard_cons_of (mk : module -> ent) (m : module) : list con :=
  let fents := map mk (fake_modules m) in
  match combine fents (mrects m) with
  | [] => []
  | (p0, r0) :: _ =>
      [offset_con (mflip m) (EV (VX (mname m))) (x_ent (fst p0)) (fst (mcenter m) - cx r0);
       offset_con (mflip m) (EV (VY (mname m))) (y_ent (fst p0)) (snd (mcenter m) - cy r0)]
      ++ map (fun ic => link_con_of m fents (fst ic)) icells
      ++ rigid_cons_of (mflip m) (combine fents (mrects m))
  end.

(* nets with other than two pins *)
Definition inv_len (e : list string) : Qc := 1 / ofnat (List.length e).
Definition hyper_cons (je : nat * list string) : list con :=
  [mkCon (EMul (esum (map x_name (snd je))) (EC (inv_len (snd je)))) EQ (EV (VEX (fst je)));
   mkCon (EMul (esum (map y_name (snd je))) (EC (inv_len (snd je)))) EQ (EV (VEY (fst je)))].

Definition all_cons_of (mk : module -> ent) (ents : list ent) : list con :=
  map (fun ic => cap_con_of ents (fst ic)) icells ++ flat_map module_cons_of ents
  ++ flat_map (hard_cons_of mk) (hards mods) ++ flat_map hyper_cons hypers.

(* the model: every row is [a_ent m] *)
Definition a_decls (m : module) : list vdecl := a_decls_of (ent_of m).
Definition all_decls : list vdecl := all_decls_of (map ent_of pms).
Definition cap_con (c : nat) : con := cap_con_of (map ent_of pms) c.
Definition link_con (m : module) (c : nat) : con := link_con_of m (map ent_of (fake_modules m)) c.
Definition all_cons : list con := all_cons_of ent_of (map ent_of pms).

(* ---- what makes optimize_allocation raise before the solver is called ---- *)
(* repaired code: assert f"{m}_{r}" is not the name of a module of the netlist *)
Definition fake_clash : bool :=
  existsb (fun fm => existsb (fun m => String.eqb (mname m) (mname fm)) mods) (flat_map fake_modules (hards mods)).
(* 1 / module.area(), h / w, w / h, 12 / (w**3 + h**3): ZeroDivisionError;  model.x[f"{m}_0"]: KeyError *)
Definition zero_div : bool :=
  existsb (fun m => Qceqb (pm_area m) 0) pms
  || existsb (fun m => is_empty (mrects m) || existsb (fun r => Qceqb (rw r) 0 || Qceqb (rh r) 0) (mrects m))
             (hards mods)
  || existsb (fun e => is_empty e) (filter is_hyper edges).

Definition gen_system_of (mk : module -> ent) : option system :=
  if fake_clash || zero_div then None
  else let ents := map mk pms in Some (mkSys (all_decls_of ents) (all_cons_of mk ents)).
Definition gen_system : option system := gen_system_of ent_of.

(* ---- the values extract_solution reads through get_value: floats as they are, variables as solved ---- *)
Definition sol_of_asg (asg : var -> Qc) : Sol :=
  mkSol (fun k c => match find_module k pms with
                    | Some m => match model_a eps t cells m c with Some v => v | None => asg (VA k c) end
                    | None => asg (VA k c)
                    end)
        (fun k => match find_module k mods with
                  | Some m => if mfixed m then fst (mcenter m) else asg (VX k)
                  | None => asg (VX k)
                  end)
        (fun k => match find_module k mods with
                  | Some m => if mfixed m then snd (mcenter m) else asg (VY k)
                  | None => asg (VY k)
                  end).
End Gen.

(* the tolerance SolOK gets: the capacity equation and one linking equation per movable hard module *)
Definition sys_tol (tol : Qc) (mods : list module) : Qc := tol + Qcsum (map (fun _ => tol) (hards mods)).

(* ---- the loop of glbfloor with the solver answering with an assignment of the variables ---- *)
Section SysLoop.
Variable pow32 : Qc -> Qc.
Variables (eps aeps t : Qc) (die : Rect) (areas : alloc) (edges : list (list string)).
(* the solver: per optimisation problem an assignment, None = GEKKO raises *)
Variable raw : nat -> list module -> list cell -> option (var -> Qc).

(* optimize_allocation up to extract_solution: build the system (may raise), solve, read the values *)
Definition solver_of (n : nat) (ms : list module) (cells : list cell) : option Sol :=
  match gen_system pow32 eps t die ms areas cells edges with
  | None => None
  | Some _ => match raw n ms cells with
              | None => None
              | Some asg => Some (sol_of_asg eps t ms cells asg)
              end
  end.

Definition feasible_at (tol : Qc) (n : nat) (ms : list module) (cells : list cell) : Prop :=
  forall sys asg, gen_system pow32 eps t die ms areas cells edges = Some sys ->
                  raw n ms cells = Some asg -> Feasible tol sys asg.

(* "the solver's answer is feasible for the system it was given, at every optimisation of this run" *)
Fixpoint feasible_along (tol : Qc) (fuel : nat) (max_iter : option nat) (n_iter : nat)
                        (ms : list module) (cells : list cell) : Prop :=
  match fuel with
  | O => True
  | S f =>
      if match max_iter with None => true | Some k => (n_iter <=? k)%nat end then
        if (1 <? n_iter)%nat then
          if must_be_refined t cells then
            match refine aeps t 1 cells with
            | None => True
            | Some cells1 =>
                feasible_at tol n_iter ms cells1 /\
                match optimize solver_of aeps t n_iter ms cells1 with
                | None => True
                | Some (ms', cells') => feasible_along tol f max_iter (S n_iter) ms' cells'
                end
            end
          else True
        else
          feasible_at tol n_iter ms cells /\
          match optimize solver_of aeps t n_iter ms cells with
          | None => True
          | Some (ms', cells') => feasible_along tol f max_iter (S n_iter) ms' cells'
          end
      else True
  end.
End SysLoop.
