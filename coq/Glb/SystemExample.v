(* Non-vacuity of the C10 system theorems: a concrete instance whose generated system has a feasible point
   (tolerance 0), with: a fixed module, a soft module whose name "H_io" has the movable hard module's name "H"
   followed by "_" as a prefix and whose ratio in its cell is EXACTLY 1 - threshold (a tie: a variable),
   a flippable two-rectangle hard module, a three-pin net; and the loop returning on it. *)
From FrameModel Require Import Num.QcTac Geometry.Rect Alloc.Alloc Glb.Extract Glb.ExtractFacts
  Glb.RigidFacts Glb.LoopFacts Glb.System Glb.SystemFacts.
Open Scope list_scope.
Open Scope Qc_scope.
Open Scope string_scope.

Module C10SysExample.
Definition die : Rect := mkRect (qc 2 1) (qc 1 1) (qc 4 1) (qc 2 1) false false "_" NOPOLY.
Definition rF : Rect := mkRect (qc 7 2) (qc 1 1) (qc 1 1) (qc 2 1) true true "_" TRUNK.
Definition rC1 : Rect := mkRect (qc 1 1) (qc 1 1) (qc 2 1) (qc 2 1) false false "_" NOPOLY.
Definition rC2a : Rect := mkRect (qc 5 2) (qc 1 2) (qc 1 1) (qc 1 1) false false "_" NOPOLY.
Definition rC2b : Rect := mkRect (qc 5 2) (qc 3 2) (qc 1 1) (qc 1 1) false false "_" NOPOLY.
Definition rS : Rect := mkRect (qc 1 1) (qc 1 1) (qc 1 1) (qc 1 1) false false "_" NOPOLY.
Definition rH0 : Rect := mkRect (qc 5 2) (qc 1 2) (qc 1 1) (qc 1 1) false true "_" TRUNK.
Definition rH1 : Rect := mkRect (qc 5 2) (qc 3 2) (qc 1 2) (qc 1 2) false true "_" NORTH.

Definition mF := mkModule "F" true true false (qc 7 2, qc 1 1) [rF].
Definition mS := mkModule "H_io" false false false (qc 1 1, qc 1 1) [rS].
Definition mH := mkModule "H" true false true (qc 5 2, qc 7 10) [rH0; rH1].
Definition mods := [mS; mH; mF].
Definition areas : alloc := [("H_io", qc 1 1)].
Definition cells := [mkCell rF [("F", 1)] 0; mkCell rC1 [("H_io", qc 1 4)] 0;
                     mkCell rC2a [("H", 1)] 0; mkCell rC2b [("H", qc 1 4)] 0].
Definition edges := [["F"; "H_io"; "H"]; ["H"; "H_io"]].
Definition t : Qc := qc 3 4.
Definition eps : Qc := 0.
Definition aeps : Qc := 0.
Definition tol : Qc := 0.
Definition pow32 (a : Qc) : Qc := a.          (* any function will do *)

Definition tbl (l : list (string * list Qc)) (m : string) (c : nat) : Qc :=
  match find (fun p => String.eqb (fst p) m) l with Some p => nth c (snd p) 0 | None => 0 end.
Definition tbl1 (l : list (string * Qc)) (m : string) : Qc :=
  match find (fun p => String.eqb (fst p) m) l with Some p => snd p | None => 0 end.
(* every module stays where it is *)
Definition asg (v : var) : Qc :=
  match v with
  | VA k c => tbl [("F", [1; 0; 0; 0]); ("H_io", [0; qc 1 4; 0; 0]); ("H_0", [0; 0; 1; 0]);
                   ("H_1", [0; 0; 0; qc 1 4]); ("H", [0; 0; 1; qc 1 4])] k c
  | VX k => tbl1 [("H_io", qc 1 1); ("H_0", qc 5 2); ("H_1", qc 5 2); ("H", qc 5 2)] k
  | VY k => tbl1 [("H_io", qc 1 1); ("H_0", qc 1 2); ("H_1", qc 3 2); ("H", qc 7 10)] k
  | VD _ => 0
  | VEX _ => qc 7 3
  | VEY _ => qc 9 10
  end.

Definition the_system : option system := gen_system pow32 eps t die mods areas cells edges.

(* the tie: H_io has exactly 1 - t of its cell, and is a variable there *)
Example tie_is_variable :
  get_a cells mS 1 = 1 - t /\ model_a eps t cells mS 1 = None.
Proof. split; vm_compute; reflexivity. Qed.

Example system_feasible : exists sys, the_system = Some sys /\ Feasible tol sys asg.
Proof.
  destruct the_system as [sys|] eqn:E; [|vm_compute in E; discriminate].
  exists sys. split; [reflexivity|]. apply feasibleb_ok.
  assert (X : match the_system with Some s => feasibleb tol s asg | None => false end = true) by (vm_compute; reflexivity).
  rewrite E in X. exact X.
Qed.

Example names_hold : names_ok mods.
Proof. split. - cbn. repeat constructor; cbn; intuition discriminate. - repeat constructor. Qed.

Ltac qdec := first [apply Qcleb_true; vm_compute; reflexivity | apply Qcltb_true; vm_compute; reflexivity
                   | apply Qceqb_true; vm_compute; reflexivity].
Ltac in_mods H := cbn [In mods] in H; repeat (destruct H as [<-|H]; [|]); try destruct H.

Lemma inv0 : Inv aeps die mods mods cells.
Proof.
  apply Inv_initial.
  - vm_compute. reflexivity.
  - repeat constructor.
  - apply names_hold.
  - intros m Hm Hf. in_mods Hm; try discriminate Hf.
    unfold owns. cbn [mrects mF]. constructor; [|constructor]. split; [reflexivity|].
    exists (mkCell rF [("F", 1)] 0). split; [left; reflexivity|]. split; reflexivity.
  - intros m Hm Hf. in_mods Hm; try discriminate Hf. unfold in_box; cbn [fst snd mcenter mF]. repeat split; qdec.
Qed.

(* the solver answers the first optimisation with that point *)
Definition raw (n : nat) (ms : list module) (cs : list cell) : option (var -> Qc) :=
  if Nat.eqb n 1 then Some asg else None.
Definition solver := solver_of pow32 eps t die areas edges raw.

Example loop_returns : exists ms' cells', glbfloor solver aeps t 2 (Some 1%nat) mods cells = Finished ms' cells'.
Proof. eexists. eexists. vm_compute. reflexivity. Qed.

Example feasible_along_holds :
  feasible_along pow32 eps aeps t die areas edges raw tol 2 (Some 1%nat) 1 mods cells.
Proof.
  cbn [feasible_along Nat.leb Nat.ltb]. split.
  - intros sys a Gs R. injection R as <-. destruct system_feasible as (sys' & E & Fe).
    unfold the_system in E. rewrite Gs in E. injection E as <-. exact Fe.
  - destruct (optimize _ aeps t 1 mods cells) as [[? ?]|]; exact I.
Qed.

(* so the hypotheses of glb_from_system are jointly satisfiable, and its conclusion holds here *)
Example glb_from_system_applies : exists ms' cells',
  glbfloor solver aeps t 2 (Some 1%nat) mods cells = Finished ms' cells' /\
  GlbOK aeps (sys_tol tol mods) die mods ms' cells'.
Proof.
  destruct loop_returns as (ms' & cells' & L). exists ms', cells'. split; [exact L|].
  apply (glb_from_system_thm pow32 eps aeps t tol die areas edges raw 2%nat (Some 1%nat) mods cells ms' cells'); auto.
  - qdec.
  - qdec.
  - qdec.
  - discriminate.
  - apply inv0.
  - apply feasible_along_holds.
Qed.

(* WITHOUT the capacity equations (the first |cells| equations of the system) the rest does not give the
   property: H_io is a variable in the cells next to its own because of the tie (its ratio there is not below
   1 - t), and the point that moves it entirely into the cell H occupies satisfies every bound and every other
   equation exactly - that cell is then occupied 200 %.  This is what a change that skips a capacity equation
   (at a tie, for a prefixed name, for a fixed cell) allows. *)
Definition drop_caps (s : system) : system := mkSys (svars s) (skipn (List.length cells) (scons s)).
Definition asg_bad (v : var) : Qc :=
  match v with
  | VA k c => tbl [("F", [1; 0; 0; 0]); ("H_io", [0; 0; 1; 0]); ("H_0", [0; 0; 1; 0]);
                   ("H_1", [0; 0; 0; qc 1 4]); ("H", [0; 0; 1; qc 1 4])] k c
  | VX k => tbl1 [("H_io", qc 5 2); ("H_0", qc 5 2); ("H_1", qc 5 2); ("H", qc 5 2)] k
  | VY k => tbl1 [("H_io", qc 1 2); ("H_0", qc 1 2); ("H_1", qc 3 2); ("H", qc 7 10)] k
  | VD _ => 0
  | VEX _ => qc 17 6
  | VEY _ => qc 11 15
  end.
Example capacity_equations_needed : exists sys,
  the_system = Some sys /\
  Forall (fun c => exists k, c = cap_con eps t mods cells k) (firstn (List.length cells) (scons sys)) /\
  Feasible tol (drop_caps sys) asg_bad /\
  Qcsum (map (fun m => sa (sol_of_asg eps t mods cells asg_bad) (mname m) 2) mods) = qc 2 1.
Proof.
  destruct the_system as [sys|] eqn:E; [|vm_compute in E; discriminate].
  exists sys. split; [reflexivity|].
  assert (S : sys = mkSys (all_decls eps t die mods cells edges) (all_cons pow32 eps t mods areas cells edges)).
  { unfold the_system, gen_system, gen_system_of in E. destruct (fake_clash mods || zero_div mods areas edges); [discriminate|].
    injection E as <-. reflexivity. }
  split; [|split].
  - rewrite S. cbn [scons]. unfold all_cons, cells, icells. cbn [indexed_from map List.length app firstn fst].
    repeat constructor; eexists; reflexivity.
  - apply feasibleb_ok.
    assert (X : match the_system with Some s => feasibleb tol (drop_caps s) asg_bad | None => false end = true)
      by (vm_compute; reflexivity).
    rewrite E in X. exact X.
  - apply Qceqb_true. vm_compute. reflexivity.
Qed.
End C10SysExample.
