(* Module.recenter_rectangles (model: Glb/Extract.v [recenter]) at full strength, for the coincidence
   inputs of the C10/C14 kernel streams: the translation vector is (centre - area-weighted centre) in
   BOTH axes for every input; an axis stands still exactly when its own increment is zero, whatever the
   other increment is; rectangles that are already centred are returned as they are; recentring twice is
   recentring once.  Companion of [recenter_rigid_thm] (Glb/RigidFacts.v). *)
From FrameModel Require Import Num.QcTac Geometry.Rect Alloc.Alloc Glb.Extract Glb.ExtractFacts Glb.RigidFacts.
Open Scope list_scope.
Open Scope Qc_scope.

Lemma recenter_exact_glb c rs rs' : recenter c rs = Some rs' ->
  rects_area rs <> 0 /\
  rs' = map (translate (fst c - fst (centroid rs)) (snd c - snd (centroid rs))) rs.
Proof.
  unfold recenter, centroid. destruct (Qceqb (rects_area rs) 0) eqn:E; [discriminate|]. qb2p.
  intro H. injection H as <-. split; [exact E|reflexivity].
Qed.

Lemma recenter_defined_glb c rs : rects_area rs <> 0 ->
  recenter c rs = Some (map (translate (fst c - fst (centroid rs)) (snd c - snd (centroid rs))) rs).
Proof.
  intro E. unfold recenter, centroid. destruct (Qceqb (rects_area rs) 0) eqn:E0.
  - qb2p. contradiction.
  - reflexivity.
Qed.

(* per rectangle and per axis *)
Lemma recenter_axes_glb c rs rs' i r : recenter c rs = Some rs' -> nth_error rs i = Some r ->
  exists r', nth_error rs' i = Some r' /\ same_shape r r' /\
    cx r' = cx r + (fst c - fst (centroid rs)) /\ cy r' = cy r + (snd c - snd (centroid rs)) /\
    (cx r' = cx r <-> fst c = fst (centroid rs)) /\ (cy r' = cy r <-> snd c = snd (centroid rs)).
Proof.
  intros Hr Hn. apply recenter_exact_glb in Hr. destruct Hr as [_ ->].
  eexists. rewrite nth_error_map, Hn. cbn [option_map]. split; [reflexivity|].
  split; [apply same_shape_set_center|]. unfold translate, set_center. cbn [cx cy].
  split; [reflexivity|]. split; [reflexivity|].
  generalize (fst (centroid rs)), (snd (centroid rs)), (fst c), (snd c), (cx r), (cy r). intros gx gy c1 c2 x y.
  split; split; intro E; qlra.
Qed.

Lemma translate_zero r : translate 0 0 r = r.
Proof.
  destruct r as [x y w h f hd rg lc]. unfold translate, set_center. cbn [cx cy rw rh fixed hard region rloc].
  f_equal; ring.
Qed.
Lemma map_translate_zero rs : map (translate 0 0) rs = rs.
Proof. induction rs as [|r rs IH]; cbn [map]; [reflexivity|]. rewrite translate_zero, IH. reflexivity. Qed.

(* both increments zero: nothing moves *)
Lemma recenter_fixpoint_glb c rs : rects_area rs <> 0 -> centroid rs = c -> recenter c rs = Some rs.
Proof.
  intros E <-. rewrite (recenter_defined_glb _ _ E).
  replace (fst (centroid rs) - fst (centroid rs)) with 0 by ring.
  replace (snd (centroid rs) - snd (centroid rs)) with 0 by ring.
  rewrite map_translate_zero. reflexivity.
Qed.

Lemma recenter_idem_glb c rs rs' : recenter c rs = Some rs' -> recenter c rs' = Some rs'.
Proof.
  intro H. destruct (recenter_rigid_thm _ _ _ H) as (dx & dy & _ & _ & Ea & E & Hc).
  apply recenter_fixpoint_glb; [rewrite Ea; exact E|exact Hc].
Qed.
