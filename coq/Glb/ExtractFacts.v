(* Facts about the model of extract_solution / recenter / flips (C10), part 1:
   what extract_solution returns, given the solver contract SolOK. *)
From FrameModel Require Import Num.QcTac Geometry.Rect Geometry.RectFacts Alloc.Alloc Glb.Extract.
Open Scope list_scope.
Open Scope Qc_scope.

(* ------------------------------------------------------------------ *)
(* generic list vocabulary                                             *)
(* ------------------------------------------------------------------ *)
Inductive sublist {A} : list A -> list A -> Prop :=
| sl_nil : sublist [] []
| sl_skip x l1 l2 : sublist l1 l2 -> sublist l1 (x :: l2)
| sl_keep x l1 l2 : sublist l1 l2 -> sublist (x :: l1) (x :: l2).

Fixpoint pairwise {A} (R : A -> A -> Prop) (l : list A) : Prop :=
  match l with
  | [] => True
  | x :: r => Forall (R x) r /\ pairwise R r
  end.

Lemma sublist_refl {A} (l : list A) : sublist l l.
Proof. induction l; [apply sl_nil|apply sl_keep; auto]. Qed.
Lemma sublist_nil_l {A} (l : list A) : sublist [] l.
Proof. induction l; [apply sl_nil|apply sl_skip; auto]. Qed.
Lemma sublist_In {A} (l1 l2 : list A) x : sublist l1 l2 -> In x l1 -> In x l2.
Proof. induction 1; cbn; intuition. Qed.
Lemma sublist_Forall {A} (P : A -> Prop) l1 l2 : sublist l1 l2 -> Forall P l2 -> Forall P l1.
Proof.
  intros S F. rewrite Forall_forall in *. intros x Hx. apply F. eapply sublist_In; eauto.
Qed.
Lemma pairwise_sublist {A} (R : A -> A -> Prop) l1 l2 : sublist l1 l2 -> pairwise R l2 -> pairwise R l1.
Proof.
  induction 1; cbn; auto.
  - intros [_ P]. auto.
  - intros [F P]. split; auto. eapply sublist_Forall; eauto.
Qed.
Lemma pairwise_no_ov_is l : pairwise_no_ov l <-> pairwise (fun r s => area_overlap r s = 0) l.
Proof. induction l; cbn; tauto. Qed.

(* the constructor's overlap check, as a predicate on the rectangles *)
Definition no_ov_rects (aeps : Qc) (rs : list Rect) : Prop :=
  pairwise (fun r s => overlap aeps r s = false) rs.
Lemma no_overlap_with_iff aeps r l :
  no_overlap_with aeps r l = true <-> Forall (fun s => overlap aeps r s = false) (map crect l).
Proof.
  induction l as [|c l IH]; cbn.
  - split; auto.
  - rewrite andb_true_iff, negb_true_iff, IH. split.
    + intros [A B]. constructor; auto.
    + intro F. inversion F; auto.
Qed.
Lemma no_overlap_iff aeps l : no_overlap aeps l = true <-> no_ov_rects aeps (map crect l).
Proof.
  unfold no_ov_rects. induction l as [|c l IH]; cbn.
  - tauto.
  - rewrite andb_true_iff, no_overlap_with_iff, IH. tauto.
Qed.

Lemma Qcsum_nonneg l : Forall (fun x => 0 <= x) l -> 0 <= Qcsum l.
Proof. induction 1; cbn [Qcsum]. qlra. generalize dependent (Qcsum l). intros. qlra. Qed.
Lemma Qcsum_pos l x : Forall (fun x => 0 <= x) l -> In x l -> 0 < x -> 0 < Qcsum l.
Proof.
  induction 1 as [|y l Hy F IH]; cbn [Qcsum In]. tauto.
  intros [->|Hin] Hx.
  - pose proof (Qcsum_nonneg l F). generalize dependent (Qcsum l). intros. qlra.
  - specialize (IH Hin Hx). generalize dependent (Qcsum l). intros. qlra.
Qed.
Lemma Qcsum_le_member l x : Forall (fun x => 0 <= x) l -> In x l -> x <= Qcsum l.
Proof.
  induction 1 as [|y l Hy F IH]; cbn [Qcsum In]. tauto.
  intros [->|Hin].
  - pose proof (Qcsum_nonneg l F). generalize dependent (Qcsum l). intros. qlra.
  - specialize (IH Hin). generalize dependent (Qcsum l). intros. qlra.
Qed.

Lemma mul_pos_pos (a b : Qc) : 0 < a -> 0 < b -> 0 < a * b.
Proof. intros. qnra. Qed.
Lemma mul_nonneg_pos_area (q w h : Qc) : 0 <= q -> 0 < w -> 0 < h -> 0 <= q * (w * h).
Proof. intros Hq Hw Hh. pose proof (mul_pos_pos w h Hw Hh). generalize dependent (w * h). intros. qnra. Qed.
Lemma mul_pos_pos_area (q w h : Qc) : 0 < q -> 0 < w -> 0 < h -> 0 < q * (w * h).
Proof. intros Hq Hw Hh. pose proof (mul_pos_pos w h Hw Hh). generalize dependent (w * h). intros. qnra. Qed.

(* ------------------------------------------------------------------ *)
(* indexed_from                                                        *)
(* ------------------------------------------------------------------ *)
Lemma in_indexed_from {A} (l : list A) i k x :
  In (k, x) (indexed_from i l) <-> (i <= k)%nat /\ nth_error l (k - i) = Some x.
Proof.
  revert i. induction l as [|y l IH]; intro i; cbn [indexed_from In].
  - split; [tauto|]. intros [_ H]. destruct (k - i)%nat; discriminate.
  - rewrite IH. split.
    + intros [E|[L N]].
      * injection E as <- <-. split; [lia|]. replace (i - i)%nat with 0%nat by lia. reflexivity.
      * split; [lia|]. replace (k - i)%nat with (S (k - S i)) by lia. exact N.
    + intros [L N]. destruct (Nat.eq_dec k i) as [->|Hne].
      * left. replace (i - i)%nat with 0%nat in N by lia. cbn in N. congruence.
      * right. split; [lia|]. replace (k - i)%nat with (S (k - S i)) in N by lia. exact N.
Qed.

(* ------------------------------------------------------------------ *)
(* names                                                               *)
(* ------------------------------------------------------------------ *)
Definition names_ok (mods : list module) : Prop :=
  NoDup (map mname mods) /\ Forall (fun m => valid_identifier (mname m) = true) mods.

Section WithSol.
Variable sol : Sol.

(* ---- the dict of one cell ---- *)
Lemma in_cell_alloc t mods c n v :
  In (n, v) (cell_alloc sol t mods c) <->
  exists m, In m mods /\ mname m = n /\ v = sa sol (mname m) c /\ 1 - t < v.
Proof.
  unfold cell_alloc. rewrite in_flat_map. split.
  - intros (m & Hm & Hin). exists m. cbv zeta in Hin.
    destruct (Qcltb (1 - t) (sa sol (mname m) c)) eqn:E; [|destruct Hin].
    destruct Hin as [Hin|[]]. injection Hin as <- <-. qb2p. auto.
  - intros (m & Hm & <- & -> & Hlt). exists m. split; auto. cbv zeta.
    apply Qcltb_true in Hlt. rewrite Hlt. left. reflexivity.
Qed.

Lemma lookup_none_notin n (al : alloc) : lookup n al = None <-> ~ In n (map fst al).
Proof.
  induction al as [|[k v] al IH]; cbn [lookup map fst In].
  - tauto.
  - destruct (String.eqb k n) eqn:E.
    + apply String.eqb_eq in E. split; [discriminate|]. intro H. exfalso. apply H. auto.
    + apply String.eqb_neq in E. rewrite IH. tauto.
Qed.
Lemma lookup_some_in n (al : alloc) v : lookup n al = Some v -> In (n, v) al.
Proof.
  induction al as [|[k w] al IH]; cbn [lookup In]. discriminate.
  destruct (String.eqb k n) eqn:E.
  - apply String.eqb_eq in E. intro H. injection H as <-. subst. auto.
  - auto.
Qed.
Lemma in_lookup n (al : alloc) v : In (n, v) al -> exists v', lookup n al = Some v' /\ In (n, v') al.
Proof.
  intro H. destruct (lookup n al) as [v'|] eqn:E.
  - exists v'. split; auto. apply lookup_some_in; auto.
  - exfalso. apply lookup_none_notin in E. apply E. change n with (fst (n, v)). apply in_map. exact H.
Qed.

Lemma cell_alloc_keys t mods c : map fst (cell_alloc sol t mods c) =
  map mname (filter (fun m => Qcltb (1 - t) (sa sol (mname m) c)) mods).
Proof.
  unfold cell_alloc. induction mods as [|m ms IH]; cbn [flat_map filter map]. reflexivity.
  cbv zeta. destruct (Qcltb (1 - t) (sa sol (mname m) c)); cbn [app map fst]; rewrite IH; reflexivity.
Qed.
Lemma NoDup_map_filter {A B} (f : A -> B) p l : NoDup (map f l) -> NoDup (map f (filter p l)).
Proof.
  induction l as [|x l IH]; cbn [map filter]; auto.
  intro N. inversion N as [|? ? Hn N']; subst.
  destruct (p x); cbn [map]; auto. constructor; auto.
  intro H. apply Hn. apply in_map_iff in H. destruct H as (y & E & Hy).
  apply filter_In in Hy. apply in_map_iff. exists y. tauto.
Qed.
Lemma nodup_keys_of_NoDup (al : alloc) : NoDup (map fst al) -> nodup_keys al = true.
Proof.
  induction al as [|[k v] al IH]; cbn [nodup_keys map fst]. reflexivity.
  intro N. inversion N as [|? ? Hn N']; subst.
  apply lookup_none_notin in Hn. rewrite Hn. auto.
Qed.
Lemma cell_alloc_nodup t mods c : NoDup (map mname mods) -> nodup_keys (cell_alloc sol t mods c) = true.
Proof.
  intro N. apply nodup_keys_of_NoDup. rewrite cell_alloc_keys. apply NoDup_map_filter. exact N.
Qed.

Lemma cell_alloc_sum_le t mods c :
  Forall (fun m => 0 <= sa sol (mname m) c) mods ->
  Qcsum (map snd (cell_alloc sol t mods c)) <= Qcsum (map (fun m => sa sol (mname m) c) mods).
Proof.
  unfold cell_alloc. induction 1 as [|m ms Hm F IH]; cbn [flat_map map Qcsum]. qlra.
  cbv zeta. destruct (Qcltb (1 - t) (sa sol (mname m) c)); cbn [app map snd Qcsum].
  - generalize dependent (Qcsum (map snd (flat_map (fun m0 => if Qcltb (1 - t) (sa sol (mname m0) c)
        then [(mname m0, sa sol (mname m0) c)] else []) ms))).
    generalize (Qcsum (map (fun m0 => sa sol (mname m0) c) ms)). generalize (sa sol (mname m) c).
    intros. qlra.
  - generalize dependent (Qcsum (map snd (flat_map (fun m0 => if Qcltb (1 - t) (sa sol (mname m0) c)
        then [(mname m0, sa sol (mname m0) c)] else []) ms))).
    generalize dependent (Qcsum (map (fun m0 => sa sol (mname m0) c) ms)). generalize dependent (sa sol (mname m) c).
    intros. qlra.
Qed.

(* ---- the list of returned cells ---- *)
Definition ec_from (t : Qc) (mods : list module) (i : nat) (rects : list Rect) : list cell :=
  flat_map (fun p => let al := cell_alloc sol t mods (fst p) in
                     if is_empty al then [] else [mkCell (snd p) al 0%nat])
           (indexed_from i rects).
Lemma extract_cells_ec t mods rects : extract_cells sol t mods rects = ec_from t mods 0 rects.
Proof. reflexivity. Qed.

Lemma ec_from_sublist t mods i rects : sublist (map crect (ec_from t mods i rects)) rects.
Proof.
  unfold ec_from. revert i. induction rects as [|r rs IH]; intro i; cbn [indexed_from flat_map map].
  - constructor.
  - cbv zeta. cbn [fst snd]. destruct (is_empty (cell_alloc sol t mods i)); cbn [app map crect].
    + apply sl_skip. apply IH.
    + apply sl_keep. apply IH.
Qed.

Lemma in_ec_from t mods i rects c :
  In c (ec_from t mods i rects) <->
  exists k r, nth_error rects k = Some r /\ cell_alloc sol t mods (i + k) <> [] /\
              c = mkCell r (cell_alloc sol t mods (i + k)) 0%nat.
Proof.
  unfold ec_from. rewrite in_flat_map. split.
  - intros ([k r] & Hin & Hc). apply in_indexed_from in Hin. destruct Hin as [L N].
    cbv zeta in Hc. cbn [fst snd] in Hc.
    exists (k - i)%nat, r. replace (i + (k - i))%nat with k by lia.
    destruct (cell_alloc sol t mods k) eqn:E; cbn [is_empty] in Hc. destruct Hc.
    destruct Hc as [<-|[]]. split; auto. split; auto. discriminate.
  - intros (k & r & N & Hne & ->). exists ((i + k)%nat, r). split.
    + apply in_indexed_from. split; [lia|]. replace (i + k - i)%nat with k by lia. exact N.
    + cbv zeta. cbn [fst snd]. destruct (cell_alloc sol t mods (i + k)); [congruence|]. left. reflexivity.
Qed.

End WithSol.

(* ------------------------------------------------------------------ *)
(* the Allocation constructor                                          *)
(* ------------------------------------------------------------------ *)
Lemma accepted_inv aeps cells : accepted aeps cells ->
  cells <> [] /\ forallb cell_ok cells = true /\ in_quadrant cells = true /\
  no_overlap aeps cells = true /\
  forallb (fun m => negb (Qceqb (area_of m cells) 0)) (module_names cells) = true.
Proof.
  unfold accepted, mk_allocation. destruct cells as [|c cs]; [discriminate|].
  destruct (forallb cell_ok (c :: cs) && in_quadrant (c :: cs) && no_overlap aeps (c :: cs) &&
            forallb (fun m => negb (Qceqb (area_of m (c :: cs)) 0)) (module_names (c :: cs))) eqn:E;
    [|discriminate].
  intros _. apply andb_true_iff in E. destruct E as [E E4]. apply andb_true_iff in E. destruct E as [E E3].
  apply andb_true_iff in E. destruct E as [E1 E2]. repeat split; auto. discriminate.
Qed.
Lemma accepted_intro aeps cells :
  cells <> [] -> forallb cell_ok cells = true -> in_quadrant cells = true ->
  no_overlap aeps cells = true ->
  forallb (fun m => negb (Qceqb (area_of m cells) 0)) (module_names cells) = true ->
  accepted aeps cells.
Proof.
  intros H0 H1 H2 H3 H4. unfold accepted, mk_allocation. destruct cells as [|c cs]; [congruence|].
  rewrite H1, H2, H3, H4. reflexivity.
Qed.

Lemma in_add_names a acc n : In n (add_names a acc) -> In n acc \/ exists v, In (n, v) a.
Proof.
  revert acc. induction a as [|[k v] a IH]; intro acc; cbn [add_names In]. auto.
  intro H. apply IH in H. destruct H as [H|[w H]]; [|right; exists w; auto].
  destruct (existsb (String.eqb k) acc); auto.
  apply in_app_or in H. destruct H as [H|[<-|[]]]; auto. right. exists v. auto.
Qed.
Lemma in_module_names_aux cells acc n :
  In n (fold_left (fun acc c => add_names (calloc c) acc) cells acc) ->
  In n acc \/ exists c v, In c cells /\ In (n, v) (calloc c).
Proof.
  revert acc. induction cells as [|c cs IH]; intro acc; cbn [fold_left In]. auto.
  intro H. apply IH in H. destruct H as [H|(c' & v & Hc & Hv)].
  - apply in_add_names in H. destruct H as [H|[v H]]; auto. right. exists c, v. auto.
  - right. exists c', v. auto.
Qed.
Lemma in_module_names cells n : In n (module_names cells) -> exists c v, In c cells /\ In (n, v) (calloc c).
Proof. intro H. apply in_module_names_aux in H. destruct H as [[]|H]. exact H. Qed.

(* ------------------------------------------------------------------ *)
(* extract_alloc_ok                                                    *)
(* ------------------------------------------------------------------ *)
Definition ratios_in_unit (cells : list cell) : Prop :=
  Forall (fun c => Forall (fun p => 0 <= snd p /\ snd p <= 1) (calloc c)) cells.
Definition cell_sums_le (b : Qc) (cells : list cell) : Prop :=
  Forall (fun c => Qcsum (map snd (calloc c)) <= b) cells.
Definition all_inside (die : Rect) (rs : list Rect) : Prop :=
  Forall (fun r => is_inside r die = true) rs.

Section ExtractOK.
Variables (sol : Sol) (eps tol t aeps : Qc) (die : Rect) (mods : list module) (cells0 : list cell).
Hypothesis OK : SolOK eps tol t die mods cells0 sol.
Hypothesis Ht1 : t <= 1.
Hypothesis Acc : accepted aeps cells0.
Hypothesis Names : names_ok mods.

Let rects := map crect cells0.
Let out := extract_cells sol t mods rects.

Lemma out_cell c : In c out ->
  exists k r, (k < List.length cells0)%nat /\ nth_error rects k = Some r /\
    cell_alloc sol t mods k <> [] /\ c = mkCell r (cell_alloc sol t mods k) 0%nat.
Proof.
  unfold out. rewrite extract_cells_ec. intro H. apply in_ec_from in H.
  destruct H as (k & r & N & Hne & ->). cbn [Nat.add] in *. exists k, r. repeat split; auto.
  assert (L : (k < List.length rects)%nat) by (apply nth_error_Some; congruence).
  unfold rects in L. rewrite map_length in L. exact L.
Qed.

Lemma out_sublist : sublist (map crect out) rects.
Proof. unfold out. rewrite extract_cells_ec. apply ec_from_sublist. Qed.

Lemma out_ratios : ratios_in_unit out.
Proof.
  apply Forall_forall. intros c Hc. apply out_cell in Hc. destruct Hc as (k & r & L & N & Hne & ->).
  cbn [calloc]. apply Forall_forall. intros [n v] Hin. apply in_cell_alloc in Hin.
  destruct Hin as (m & Hm & <- & -> & Hlt). cbn [snd]. apply (sol_a_range _ _ _ _ _ _ _ OK); auto.
Qed.

Lemma out_sums : cell_sums_le (1 + tol) out.
Proof.
  apply Forall_forall. intros c Hc. apply out_cell in Hc. destruct Hc as (k & r & L & N & Hne & ->).
  cbn [calloc]. eapply Qcle_trans; [apply cell_alloc_sum_le|apply (sol_sum _ _ _ _ _ _ _ OK); auto].
  apply Forall_forall. intros m Hm. apply (sol_a_range _ _ _ _ _ _ _ OK); auto.
Qed.

Lemma out_no_overlap : no_overlap aeps out = true.
Proof.
  apply no_overlap_iff. unfold no_ov_rects. eapply pairwise_sublist; [apply out_sublist|].
  apply accepted_inv in Acc. destruct Acc as (_ & _ & _ & NO & _). apply no_overlap_iff in NO. exact NO.
Qed.

Lemma out_rect_in c : In c out -> exists c0, In c0 cells0 /\ crect c0 = crect c.
Proof.
  intro H. assert (I : In (crect c) rects).
  { eapply sublist_In; [apply out_sublist|]. apply in_map. exact H. }
  unfold rects in I. apply in_map_iff in I. destruct I as (c0 & E & I). eauto.
Qed.

Lemma out_cell_ok : forallb cell_ok out = true.
Proof.
  apply forallb_forall. intros c Hc. unfold cell_ok. apply andb_true_iff. split.
  - destruct (out_rect_in c Hc) as (c0 & I & E). rewrite <- E.
    apply accepted_inv in Acc. destruct Acc as (_ & CK & _).
    rewrite forallb_forall in CK. specialize (CK c0 I). unfold cell_ok in CK.
    apply andb_true_iff in CK. tauto.
  - pose proof out_ratios as R. unfold ratios_in_unit in R. rewrite Forall_forall in R. specialize (R c Hc).
    apply out_cell in Hc. destruct Hc as (k & r & L & N & Hne & ->). cbn [calloc] in *.
    unfold alloc_ok. apply andb_true_iff. split; [|apply cell_alloc_nodup; apply Names].
    apply forallb_forall. intros [n v] Hin. rewrite Forall_forall in R. specialize (R _ Hin). cbn [fst snd] in *.
    apply in_cell_alloc in Hin. destruct Hin as (m & Hm & <- & -> & Hlt).
    destruct Names as [_ V]. rewrite Forall_forall in V. rewrite (V m Hm). cbn [andb].
    apply andb_true_iff. split; apply Qcleb_true; tauto.
Qed.

Lemma out_quadrant : in_quadrant out = true.
Proof.
  apply forallb_forall. intros c Hc. destruct (out_rect_in c Hc) as (c0 & I & E). rewrite <- E.
  apply accepted_inv in Acc. destruct Acc as (_ & _ & Q & _). unfold in_quadrant in Q.
  rewrite forallb_forall in Q. exact (Q c0 I).
Qed.

Lemma out_entry_pos c n v : In c out -> In (n, v) (calloc c) -> 0 < v.
Proof.
  intros Hc Hin. apply out_cell in Hc. destruct Hc as (k & r & L & N & Hne & ->). cbn [calloc] in Hin.
  apply in_cell_alloc in Hin. destruct Hin as (m & Hm & <- & -> & Hlt).
  generalize dependent (sa sol (mname m) k). intros. qlra.
Qed.
Lemma out_wf c : In c out -> wf (crect c).
Proof.
  intro Hc. pose proof out_cell_ok as CK. rewrite forallb_forall in CK. specialize (CK c Hc).
  unfold cell_ok in CK. apply andb_true_iff in CK. destruct CK as [W _]. unfold wfb in W.
  apply andb_true_iff in W. destruct W. qb2p. split; auto.
Qed.
Lemma out_ratio_nonneg n c : In c out -> 0 <= ratio n c.
Proof.
  intro Hc. unfold ratio. destruct (lookup n (calloc c)) as [v|] eqn:E.
  - apply lookup_some_in in E. pose proof (out_entry_pos c n v Hc E). qlra.
  - qlra.
Qed.

Lemma out_areas : forallb (fun m => negb (Qceqb (area_of m out) 0)) (module_names out) = true.
Proof.
  apply forallb_forall. intros n Hn. apply negb_true_iff. apply Qceqb_false.
  apply in_module_names in Hn. destruct Hn as (c & v & Hc & Hin).
  assert (P : 0 < area_of n out).
  { unfold area_of. apply (Qcsum_pos _ (ratio n c * area (crect c))).
    - apply Forall_forall. intros x Hx. apply in_map_iff in Hx. destruct Hx as (c' & <- & Hc').
      pose proof (out_ratio_nonneg n c' Hc'). destruct (out_wf c' Hc') as [W Hh]. unfold area.
      apply mul_nonneg_pos_area; auto.
    - apply in_map_iff. exists c. auto.
    - destruct (in_lookup n (calloc c) v Hin) as (v' & L & I'). unfold ratio. rewrite L.
      pose proof (out_entry_pos c n v' Hc I'). destruct (out_wf c Hc) as [W Hh]. unfold area.
      apply mul_pos_pos_area; auto. }
  intro E. rewrite E in P. qlra.
Qed.

Theorem extract_alloc_ok_sec :
  sublist (map crect out) rects /\
  no_overlap aeps out = true /\
  ratios_in_unit out /\
  cell_sums_le (1 + tol) out /\
  Forall (fun c => cdepth c = 0%nat) out /\
  (out <> [] -> accepted aeps out).
Proof.
  split; [apply out_sublist|]. split; [apply out_no_overlap|]. split; [apply out_ratios|].
  split; [apply out_sums|]. split.
  - apply Forall_forall. intros c Hc. apply out_cell in Hc. destruct Hc as (k & r & _ & _ & _ & ->). reflexivity.
  - intro Hne. apply accepted_intro; auto using out_cell_ok, out_quadrant, out_no_overlap, out_areas.
Qed.
End ExtractOK.

(* ------------------------------------------------------------------ *)
(* extract_fixed                                                       *)
(* ------------------------------------------------------------------ *)
(* a fixed module owns its cells: for each of its rectangles there is a cell with that
   rectangle whose allocation is exactly {m: 1} *)
Definition owns (m : module) (cells : list cell) : Prop :=
  Forall (fun r => fixed r = true /\ exists c, In c cells /\ crect c = r /\ calloc c = [(mname m, 1)]) (mrects m).

Lemma Qcsum_two {A} (f : A -> Qc) (l : list A) x y :
  (forall z, In z l -> 0 <= f z) -> NoDup l -> In x l -> In y l -> x <> y ->
  f x + f y <= Qcsum (map f l).
Proof.
  intros Hpos. induction l as [|z l IH]; cbn [In map Qcsum]. tauto.
  intros N Hx Hy Hne. inversion N as [|? ? Hn N']; subst.
  assert (F : Forall (fun q => 0 <= q) (map f l)).
  { apply Forall_forall. intros q Hq. apply in_map_iff in Hq. destruct Hq as (w & <- & Hw). apply Hpos. right. auto. }
  assert (Pz : 0 <= f z) by (apply Hpos; left; auto).
  destruct Hx as [->|Hx]; destruct Hy as [->|Hy].
  - congruence.
  - assert (L : f y <= Qcsum (map f l)) by (apply Qcsum_le_member; auto; apply in_map; auto).
    generalize dependent (Qcsum (map f l)). generalize dependent (f y). generalize dependent (f x). intros. qlra.
  - assert (L : f x <= Qcsum (map f l)) by (apply Qcsum_le_member; auto; apply in_map; auto).
    generalize dependent (Qcsum (map f l)). generalize dependent (f y). generalize dependent (f x). intros. qlra.
  - assert (L : f x + f y <= Qcsum (map f l)).
    { apply IH; auto. intros w Hw. apply Hpos. right. auto. }
    generalize dependent (Qcsum (map f l)). generalize dependent (f z). intros. qlra.
Qed.

Lemma NoDup_map_inv {A B} (f : A -> B) l : NoDup (map f l) -> NoDup l.
Proof.
  induction l as [|x l IH]; cbn [map]; intro N. constructor.
  inversion N; subst. constructor; auto. intro H. apply H1. apply in_map. exact H.
Qed.
Lemma NoDup_map_inj {A B} (f : A -> B) l x y : NoDup (map f l) -> In x l -> In y l -> f x = f y -> x = y.
Proof.
  induction l as [|z l IH]; cbn [map In]. tauto.
  intros N Hx Hy E. inversion N as [|? ? Hn N']; subst.
  destruct Hx as [->|Hx]; destruct Hy as [->|Hy]; auto.
  - exfalso. apply Hn. rewrite E. apply in_map. auto.
  - exfalso. apply Hn. rewrite <- E. apply in_map. auto.
Qed.

Section CellAllocSingle.
Variable sol : Sol.
Lemma cell_alloc_none t mods k :
  (forall m', In m' mods -> sa sol (mname m') k <= 1 - t) -> cell_alloc sol t mods k = [].
Proof.
  unfold cell_alloc. induction mods as [|x ms IH]; cbn [flat_map]; intro H. reflexivity.
  cbv zeta. assert (E : Qcltb (1 - t) (sa sol (mname x) k) = false).
  { apply Qcltb_false. apply H. left. auto. }
  rewrite E. cbn [app]. apply IH. intros. apply H. right. auto.
Qed.
Lemma cell_alloc_single t mods k m :
  NoDup mods -> In m mods -> 1 - t < sa sol (mname m) k ->
  (forall m', In m' mods -> m' <> m -> sa sol (mname m') k <= 1 - t) ->
  cell_alloc sol t mods k = [(mname m, sa sol (mname m) k)].
Proof.
  intros N. induction mods as [|x ms IH]; cbn [In]. tauto.
  intros Hin Hlt Hoth. inversion N as [|? ? Hn N']; subst.
  change (cell_alloc sol t (x :: ms) k) with
    ((let v := sa sol (mname x) k in if Qcltb (1 - t) v then [(mname x, v)] else []) ++ cell_alloc sol t ms k).
  cbv zeta. destruct Hin as [->|Hin].
  - apply Qcltb_true in Hlt. rewrite Hlt. rewrite cell_alloc_none. reflexivity.
    intros m' Hm'. apply Hoth; auto. intros ->. tauto.
  - assert (E : Qcltb (1 - t) (sa sol (mname x) k) = false).
    { apply Qcltb_false. apply Hoth; auto. intros ->. tauto. }
    rewrite E. cbn [app]. apply IH; auto.
Qed.
End CellAllocSingle.

Lemma fixed_in_problem mods m : In m mods -> mfixed m = true -> In m (problem_modules mods).
Proof.
  intros H F. unfold problem_modules. apply in_flat_map. exists m. split; auto.
  rewrite F, orb_true_r. left. reflexivity.
Qed.

Lemma module_eta m : mkModule (mname m) (mhard m) (mfixed m) (mflip m) (mcenter m) (mrects m) = m.
Proof. destruct m; reflexivity. Qed.

Theorem extract_fixed_thm sol eps tol t die mods cells0 m :
  SolOK eps tol t die mods cells0 sol ->
  0 < t -> tol <= 1 - t ->
  names_ok mods -> In m mods -> mfixed m = true -> owns m cells0 ->
  owns m (extract_cells sol t mods (map crect cells0)) /\ extract_module sol m = Some m.
Proof.
  intros OK Ht Htol Names Hm Hf Own. split.
  - unfold owns in *. rewrite Forall_forall in *. intros r Hr. destruct (Own r Hr) as (Fx & c0 & Hc0 & Er & Ea).
    split; auto.
    destruct (In_nth_error _ _ Hc0) as (k & Nk).
    assert (Lk : (k < List.length cells0)%nat) by (apply nth_error_Some; congruence).
    assert (Ga : get_a cells0 m k = 1).
    { unfold get_a. rewrite Nk, Ea. cbn [lookup]. rewrite String.eqb_refl. reflexivity. }
    assert (A1 : sa sol (mname m) k = 1).
    { apply (sol_const _ _ _ _ _ _ _ OK m k 1); auto using fixed_in_problem.
      unfold model_a, model_a_with. rewrite Hf. cbn [orb]. rewrite Ga. reflexivity. }
    destruct Names as [ND V].
    assert (Oth : forall m', In m' mods -> m' <> m -> sa sol (mname m') k <= 1 - t).
    { intros m' Hm' Hne.
      pose proof (Qcsum_two (fun m0 => sa sol (mname m0) k) mods m m') as S2.
      assert (S : sa sol (mname m) k + sa sol (mname m') k <= Qcsum (map (fun m0 => sa sol (mname m0) k) mods)).
      { apply S2; auto.
        - intros z Hz. apply (sol_a_range _ _ _ _ _ _ _ OK); auto.
        - eapply NoDup_map_inv; eauto. }
      pose proof (sol_sum _ _ _ _ _ _ _ OK k Lk) as S3. rewrite A1 in S.
      generalize dependent (Qcsum (map (fun m0 => sa sol (mname m0) k) mods)).
      generalize dependent (sa sol (mname m') k). clear - Htol. intros. qlra. }
    exists (mkCell r (cell_alloc sol t mods k) 0%nat).
    assert (CA : cell_alloc sol t mods k = [(mname m, 1)]).
    { rewrite <- A1. apply cell_alloc_single; auto.
      - eapply NoDup_map_inv; eauto.
      - rewrite A1. clear - Ht. qlra. }
    split; [|rewrite CA; auto].
    rewrite extract_cells_ec. apply in_ec_from. exists k, r. cbn [Nat.add].
    split; [rewrite <- Er; apply map_nth_error; exact Nk|]. split; [rewrite CA; discriminate|reflexivity].
  - unfold extract_module. destruct (sol_fixed_xy _ _ _ _ _ _ _ OK m Hm Hf) as [-> ->].
    destruct m as [n h f fl [cx0 cy0] rs]. cbn in *. subst f. rewrite andb_false_r. reflexivity.
Qed.

(* ------------------------------------------------------------------ *)
(* centres_in_die                                                      *)
(* ------------------------------------------------------------------ *)
Lemma extract_module_center sol m m' : extract_module sol m = Some m' ->
  mcenter m' = (sx sol (mname m), sy sol (mname m)) /\ mname m' = mname m /\
  mhard m' = mhard m /\ mfixed m' = mfixed m /\ mflip m' = mflip m.
Proof.
  unfold extract_module. destruct (mhard m && negb (mfixed m)).
  - destruct (recenter _ _); [|discriminate]. intro H. injection H as <-. cbn. auto.
  - intro H. injection H as <-. cbn. auto.
Qed.

Theorem centres_in_die_thm sol eps tol t die mods cells0 m m' :
  SolOK eps tol t die mods cells0 sol ->
  In m mods -> (mfixed m = true -> in_box die (mcenter m)) ->
  extract_module sol m = Some m' -> in_box die (mcenter m').
Proof.
  intros OK Hm Hfix E. apply extract_module_center in E. destruct E as (-> & _).
  destruct (mfixed m) eqn:F.
  - destruct (sol_fixed_xy _ _ _ _ _ _ _ OK m Hm F) as [-> ->]. rewrite <- surjective_pairing. auto.
  - apply (sol_box _ _ _ _ _ _ _ OK); auto.
Qed.
