(* C10 - facts about the constraint system of optimize_allocation (Glb/System.v):
   every assignment feasible for the generated system (bounds exactly, (in)equations within tol) gives, through
   get_value, solver values satisfying the whole contract SolOK that the theorems about extract_solution and the
   loop assume - for every die, allocation, netlist, threshold (ties included) and whatever the module names. *)
From FrameModel Require Import Num.QcTac Geometry.Rect Geometry.RectFacts Alloc.Alloc Glb.Extract Glb.ExtractFacts
  Glb.RigidFacts Glb.LoopFacts Glb.System.
From Coq Require Import DecimalString DecimalNat Ascii.
Open Scope list_scope.
Open Scope Qc_scope.

(* ------------------------------------------------------------------ *)
(* f"{m}_{r}" is injective in (m, r)                                   *)
(* ------------------------------------------------------------------ *)
Definition us : ascii := "_"%char.
Fixpoint has_us (s : string) : bool :=
  match s with EmptyString => false | String c r => Ascii.eqb c us || has_us r end.

Lemma digits_no_us d : has_us (NilEmpty.string_of_uint d) = false.
Proof. induction d; cbn [NilEmpty.string_of_uint has_us]; try rewrite IHd; reflexivity. Qed.

Lemma has_us_app a b : has_us (a ++ String us b)%string = true.
Proof. induction a as [|c a IH]; cbn [append has_us]. - rewrite Ascii.eqb_refl. reflexivity. - rewrite IH. apply orb_true_r. Qed.

Lemma sep_inj a : forall a' s s', has_us s = false -> has_us s' = false ->
  (a ++ String us s)%string = (a' ++ String us s')%string -> a = a' /\ s = s'.
Proof.
  induction a as [|c a IH]; intros [|c' a'] s s' Hs Hs' E; cbn [append] in E.
  - injection E as ->. auto.
  - injection E as <- ->. rewrite has_us_app in Hs. discriminate.
  - injection E as -> <-. rewrite has_us_app in Hs'. discriminate.
  - injection E as <- E. destruct (IH a' s s' Hs Hs' E) as [-> ->]. auto.
Qed.

Lemma fake_inj m r m' r' : fake m r = fake m' r' -> m = m' /\ r = r'.
Proof.
  unfold fake. intro E.
  change ("_" ++ NilEmpty.string_of_uint (Nat.to_uint r))%string
    with (String us (NilEmpty.string_of_uint (Nat.to_uint r))) in E.
  change ("_" ++ NilEmpty.string_of_uint (Nat.to_uint r'))%string
    with (String us (NilEmpty.string_of_uint (Nat.to_uint r'))) in E.
  destruct (sep_inj _ _ _ _ (digits_no_us _) (digits_no_us _) E) as [-> E2]. split; [reflexivity|].
  assert (E3 : Some (Nat.to_uint r) = Some (Nat.to_uint r')).
  { rewrite <- (NilEmpty.usu (Nat.to_uint r)), <- (NilEmpty.usu (Nat.to_uint r')), E2. reflexivity. }
  injection E3 as E3. rewrite <- (Unsigned.of_to r), <- (Unsigned.of_to r'), E3. reflexivity.
Qed.

(* ------------------------------------------------------------------ *)
(* the entries of `modules` and their names                            *)
(* ------------------------------------------------------------------ *)
Definition movable_hard (m : module) : bool := mhard m && negb (mfixed m).

Lemma movable_hard_neg m : negb (mhard m) || mfixed m = negb (movable_hard m).
Proof. unfold movable_hard. destruct (mhard m), (mfixed m); reflexivity. Qed.

Lemma in_hards mods m : In m (hards mods) <-> In m mods /\ movable_hard m = true.
Proof. unfold hards. apply filter_In. Qed.

Lemma in_pms mods pm : In pm (problem_modules mods) <->
  exists m, In m mods /\ ((movable_hard m = false /\ pm = m) \/ (movable_hard m = true /\ In pm (fake_modules m))).
Proof.
  unfold problem_modules. rewrite in_flat_map. split; intros (m & Hm & H); exists m; split; auto.
  - rewrite movable_hard_neg in H. destruct (movable_hard m); cbn [negb] in H.
    + right. auto.
    + left. destruct H as [<-|[]]. auto.
  - rewrite movable_hard_neg. destruct H as [[E ->]|[E H]]; rewrite E; cbn [negb]; [left; reflexivity|exact H].
Qed.

Lemma in_fakes m fm : In fm (fake_modules m) <->
  exists i r, nth_error (mrects m) i = Some r /\
              fm = mkModule (fake (mname m) i) true false false (cx r, cy r) [r].
Proof.
  unfold fake_modules. rewrite in_map_iff. split.
  - intros ([i r] & <- & H). apply in_indexed_from in H. destruct H as [_ H]. rewrite Nat.sub_0_r in H.
    exists i, r. auto.
  - intros (i & r & H & ->). exists (i, r). split; [reflexivity|]. apply in_indexed_from. split; [lia|].
    rewrite Nat.sub_0_r. exact H.
Qed.

Lemma fake_props m fm : In fm (fake_modules m) ->
  mhard fm = true /\ mfixed fm = false /\ exists i, mname fm = fake (mname m) i /\ (i < List.length (mrects m))%nat.
Proof.
  intro H. apply in_fakes in H. destruct H as (i & r & N & ->). cbn. repeat split; auto.
  exists i. split; auto. apply nth_error_Some. congruence.
Qed.

(* the repaired code's assertion, as a Prop *)
Definition no_clash (mods : list module) : Prop :=
  forall h fm m, In h (hards mods) -> In fm (fake_modules h) -> In m mods -> mname m <> mname fm.

Lemma fake_clash_false mods : fake_clash mods = false -> no_clash mods.
Proof.
  unfold fake_clash, no_clash. intros E h fm m Hh Hfm Hm Eq.
  assert (X : existsb (fun fm => existsb (fun m => String.eqb (mname m) (mname fm)) mods)
                      (flat_map fake_modules (hards mods)) = true).
  { apply existsb_exists. exists fm. split; [apply in_flat_map; exists h; auto|].
    apply existsb_exists. exists m. split; auto. apply String.eqb_eq. exact Eq. }
  congruence.
Qed.

Lemma find_module_some k ms m : find_module k ms = Some m -> In m ms /\ mname m = k.
Proof. unfold find_module. intro H. apply find_some in H. destruct H as [H E]. apply String.eqb_eq in E. auto. Qed.
Lemma find_module_none k ms : find_module k ms = None -> forall m, In m ms -> mname m <> k.
Proof.
  unfold find_module. intros H m Hm E. apply (find_none _ _ H) in Hm. apply String.eqb_neq in Hm. auto.
Qed.

Section Names.
Variable mods : list module.
Hypothesis Names : names_ok mods.
Hypothesis NC : no_clash mods.

Lemma mods_name_inj m m' : In m mods -> In m' mods -> mname m = mname m' -> m = m'.
Proof. destruct Names as [ND _]. intros. eapply NoDup_map_inj; eauto. Qed.

(* two entries of `modules` with the same key are the same entry *)
Lemma pms_name_inj pm pm' : In pm (problem_modules mods) -> In pm' (problem_modules mods) ->
  mname pm = mname pm' -> pm = pm'.
Proof.
  intros H H' E. apply in_pms in H. apply in_pms in H'.
  destruct H as (m & Hm & [[Hk ->]|[Hk Hf]]); destruct H' as (m' & Hm' & [[Hk' ->]|[Hk' Hf']]).
  - apply mods_name_inj; auto.
  - exfalso. apply (NC m' pm' m); auto. apply in_hards. auto.
  - exfalso. apply (NC m pm m'); auto. apply in_hards. auto.
  - apply in_fakes in Hf. apply in_fakes in Hf'. destruct Hf as (i & r & N & ->). destruct Hf' as (i' & r' & N' & ->).
    cbn [mname] in E. apply fake_inj in E. destruct E as [E ->].
    assert (m = m') by (apply mods_name_inj; auto). subst m'. rewrite N in N'. injection N' as <-. reflexivity.
Qed.

Lemma find_pm pm : In pm (problem_modules mods) -> find_module (mname pm) (problem_modules mods) = Some pm.
Proof.
  intro H. destruct (find_module (mname pm) (problem_modules mods)) as [pm'|] eqn:F.
  - apply find_module_some in F. destruct F as [H' E]. f_equal. apply pms_name_inj; auto.
  - exfalso. apply (find_module_none _ _ F pm H). reflexivity.
Qed.

Lemma find_mod m : In m mods -> find_module (mname m) mods = Some m.
Proof.
  intro H. destruct (find_module (mname m) mods) as [m'|] eqn:F.
  - apply find_module_some in F. destruct F as [H' E]. f_equal. apply mods_name_inj; auto.
  - exfalso. apply (find_module_none _ _ F m H). reflexivity.
Qed.

(* the key of a movable hard module is not a key of `modules` *)
Lemma find_pm_hard h : In h (hards mods) -> find_module (mname h) (problem_modules mods) = None.
Proof.
  intro H. destruct (find_module (mname h) (problem_modules mods)) as [pm|] eqn:F; [|reflexivity]. exfalso.
  apply find_module_some in F. destruct F as [Hpm E]. apply in_pms in Hpm. apply in_hards in H. destruct H as [Hh Hk].
  destruct Hpm as (m & Hm & [[Hk' ->]|[Hk' Hf]]).
  - assert (m = h) by (apply mods_name_inj; auto). subst m. congruence.
  - apply (NC m pm h); auto. apply in_hards. auto.
Qed.
End Names.

(* ------------------------------------------------------------------ *)
(* get_a is a ratio                                                    *)
(* ------------------------------------------------------------------ *)
Lemma ov_le_area r s : wf r -> area_overlap r s <= area r.
Proof.
  intros [Hw Hh]. unfold area_overlap, area.
  destruct (Qcleb (Qcmin (xmax r) (xmax s)) (Qcmax (xmin r) (xmin s))) eqn:E1; qb2p; [qnra|].
  destruct (Qcleb (Qcmin (ymax r) (ymax s)) (Qcmax (ymin r) (ymin s))) eqn:E2; qb2p; [qnra|].
  assert (Dx : Qcmin (xmax r) (xmax s) - Qcmax (xmin r) (xmin s) <= rw r).
  { unfold xmax, xmin in *. destruct (Qcmin_spec (cx r + rw r * half) (cx s + rw s * half)) as [[? ->]|[? ->]];
      destruct (Qcmax_spec (cx r - rw r * half) (cx s - rw s * half)) as [[? ->]|[? ->]]; qlra. }
  assert (Dy : Qcmin (ymax r) (ymax s) - Qcmax (ymin r) (ymin s) <= rh r).
  { unfold ymax, ymin in *. destruct (Qcmin_spec (cy r + rh r * half) (cy s + rh s * half)) as [[? ->]|[? ->]];
      destruct (Qcmax_spec (cy r - rh r * half) (cy s - rh s * half)) as [[? ->]|[? ->]]; qlra. }
  revert Dx Dy E1 E2 Hw Hh.
  generalize (Qcmin (xmax r) (xmax s)) (Qcmax (xmin r) (xmin s)) (Qcmin (ymax r) (ymax s)) (Qcmax (ymin r) (ymin s))
             (rw r) (rh r).
  intros a b c d w h. intros. qnra.
Qed.

Lemma get_a_range cells m c :
  forallb cell_ok cells = true -> 0 <= get_a cells m c /\ get_a cells m c <= 1.
Proof.
  intro OK. unfold get_a. destruct (nth_error cells c) as [cl|] eqn:N; [|split; qlra].
  apply nth_error_In in N. rewrite forallb_forall in OK. specialize (OK cl N).
  unfold cell_ok in OK. apply andb_true_iff in OK. destruct OK as [Wf AO].
  destruct (lookup (mname m) (calloc cl)) as [v|] eqn:L.
  - apply lookup_some_in in L. unfold alloc_ok in AO. apply andb_true_iff in AO. destruct AO as [AO _].
    rewrite forallb_forall in AO. specialize (AO _ L). cbn [fst snd] in AO.
    apply andb_true_iff in AO. destruct AO as [AO A1]. apply andb_true_iff in AO. destruct AO as [_ A0].
    qb2p. split; assumption.
  - destruct (mrects m) as [|r [|r' rs]]; try (split; qlra).
    unfold wfb in Wf. apply andb_true_iff in Wf. destruct Wf as [W1 W2]. qb2p.
    assert (WF : wf (crect cl)) by (split; assumption).
    assert (Ap : 0 < area (crect cl)) by (unfold area; qnra).
    pose proof (ov_nonneg (crect cl) r). pose proof (ov_le_area (crect cl) r WF).
    apply div_bounds; auto; qlra.
Qed.

Lemma model_a_range eps t cells m c v :
  forallb cell_ok cells = true -> model_a eps t cells m c = Some v -> 0 <= v /\ v <= 1.
Proof.
  intros OK H. unfold model_a, model_a_with in H.
  destruct (mfixed m || _ || _); [|discriminate]. injection H as <-. apply get_a_range. exact OK.
Qed.

(* ------------------------------------------------------------------ *)
(* sums                                                                *)
(* ------------------------------------------------------------------ *)
Lemma eval_esum asg l : eval asg (esum l) = Qcsum (map (eval asg) l).
Proof. induction l as [|e l IH]; cbn [esum fold_right eval map Qcsum]; [reflexivity|]. fold (esum l). rewrite IH. reflexivity. Qed.

Lemma sum_pms (F : module -> Qc) l :
  Qcsum (map F (problem_modules l)) =
  Qcsum (map (fun m => if movable_hard m then Qcsum (map F (fake_modules m)) else F m) l).
Proof.
  induction l as [|m l IH]; [reflexivity|].
  unfold problem_modules in *. cbn [flat_map map Qcsum]. rewrite map_app, Qcsum_app, IH.
  rewrite movable_hard_neg. destruct (movable_hard m); cbn [negb map Qcsum]; ring.
Qed.

Lemma sum_hards (tol : Qc) l :
  Qcsum (map (fun m => if movable_hard m then tol else 0) l) = Qcsum (map (fun _ => tol) (hards l)).
Proof.
  induction l as [|m l IH]; [reflexivity|]. unfold hards in *. cbn [map Qcsum filter]. fold (movable_hard m).
  destruct (movable_hard m); cbn [map Qcsum]; rewrite IH; ring.
Qed.

Lemma sum_le3 {A} (f g h : A -> Qc) l :
  (forall x, In x l -> f x <= g x + h x) -> Qcsum (map f l) <= Qcsum (map g l) + Qcsum (map h l).
Proof.
  induction l as [|x l IH]; intro H; cbn [map Qcsum]; [qlra|].
  assert (H1 := H x (or_introl eq_refl)). assert (H2 := IH (fun y Hy => H y (or_intror Hy))). qlra.
Qed.

Lemma in_icells cells c : (c < List.length cells)%nat -> exists cl, In (c, cl) (icells cells).
Proof.
  intro H. destruct (nth_error cells c) as [cl|] eqn:N.
  - exists cl. unfold icells. apply in_indexed_from. split; [lia|]. rewrite Nat.sub_0_r. exact N.
  - apply nth_error_None in N. lia.
Qed.

(* ------------------------------------------------------------------ *)
(* feasible for the generated system  ->  SolOK                        *)
(* ------------------------------------------------------------------ *)
Section Main.
Variable pow32 : Qc -> Qc.
Variables (eps t tol : Qc) (die : Rect) (mods : list module) (areas : alloc) (cells : list cell)
          (edges : list (list string)) (sys : system) (asg : var -> Qc).
Hypothesis G : gen_system pow32 eps t die mods areas cells edges = Some sys.
Hypothesis Names : names_ok mods.
Hypothesis CellsOK : forallb cell_ok cells = true.
Hypothesis Feas : Feasible tol sys asg.

Let sol := sol_of_asg eps t mods cells asg.
Let pmsl := problem_modules mods.

Lemma gen_inv : sys = mkSys (all_decls eps t die mods cells edges) (all_cons pow32 eps t mods areas cells edges)
                /\ no_clash mods /\ zero_div mods areas edges = false.
Proof.
  unfold gen_system, gen_system_of in G. destruct (fake_clash mods) eqn:FC; [discriminate|].
  destruct (zero_div mods areas edges) eqn:Z; [discriminate|]. cbn [orb] in G. injection G as E.
  repeat split; auto. apply fake_clash_false. exact FC.
Qed.

Let NC : no_clash mods := proj1 (proj2 gen_inv).

Lemma decl_ok d : In d (all_decls eps t die mods cells edges) -> in_bounds asg d.
Proof.
  destruct Feas as [B _]. pose proof gen_inv as X. destruct X as [E _]. rewrite E in B. cbn [svars] in B. rewrite Forall_forall in B. apply B.
Qed.
Lemma con_ok c : In c (all_cons pow32 eps t mods areas cells edges) -> holds tol asg c.
Proof.
  destruct Feas as [_ C]. pose proof gen_inv as X. destruct X as [E _]. rewrite E in C. cbn [scons] in C. rewrite Forall_forall in C. apply C.
Qed.

Lemma unit_bounds v : In (unit_v v) (all_decls eps t die mods cells edges) -> 0 <= asg v /\ asg v <= 1.
Proof. intro H. destruct (decl_ok _ H) as [L U]. cbn in L, U. split; [apply L|apply U]; reflexivity. Qed.

(* what get_value reads *)
Lemma sa_pm pm c : In pm pmsl -> sa sol (mname pm) c = eval asg (a_ent eps t cells pm c).
Proof.
  intro H. unfold sol, sol_of_asg, a_ent. cbn [sa]. unfold pms. rewrite (find_pm mods Names NC pm H).
  destruct (model_a eps t cells pm c); reflexivity.
Qed.
Lemma sa_hard h c : In h (hards mods) -> sa sol (mname h) c = asg (VA (mname h) c).
Proof. intro H. unfold sol, sol_of_asg. cbn [sa]. unfold pms. rewrite (find_pm_hard mods Names NC h H). reflexivity. Qed.

Lemma pm_entry_range pm c : In pm pmsl -> (c < List.length cells)%nat ->
  0 <= eval asg (a_ent eps t cells pm c) /\ eval asg (a_ent eps t cells pm c) <= 1.
Proof.
  intros H Hc. unfold a_ent. destruct (model_a eps t cells pm c) as [v|] eqn:MA; cbn [eval].
  - eapply model_a_range; eauto.
  - apply unit_bounds. unfold all_decls. apply in_or_app. right. apply in_or_app. left.
    apply in_flat_map. exists (ent_of eps t cells pm). split; [apply in_map; exact H|]. unfold a_decls_of. apply in_flat_map.
    destruct (in_icells cells c Hc) as [cl Hcl]. exists (c, cl). split; [exact Hcl|].
    cbn [fst snd ent_of]. unfold a_ent. rewrite MA. left. reflexivity.
Qed.

Lemma hard_decl_in h d : In h (hards mods) -> In d (hard_decls die cells h) ->
  In d (all_decls eps t die mods cells edges).
Proof.
  intros H Hd. unfold all_decls. apply in_or_app. right. apply in_or_app. right. apply in_or_app. left.
  apply in_flat_map. exists h. auto.
Qed.

Lemma hard_entry_range h c : In h (hards mods) -> (c < List.length cells)%nat ->
  0 <= asg (VA (mname h) c) /\ asg (VA (mname h) c) <= 1.
Proof.
  intros H Hc. apply unit_bounds. apply (hard_decl_in h); auto. unfold hard_decls. apply in_or_app. right.
  destruct (in_icells cells c Hc) as [cl Hcl]. apply in_map_iff. exists (c, cl). auto.
Qed.

Lemma soft_in_pms m : In m mods -> movable_hard m = false -> In m pmsl.
Proof. intros H K. apply in_pms. exists m. auto. Qed.

Lemma box_of_decls vx vy :
  In (die_x die vx) (all_decls eps t die mods cells edges) -> In (die_y die vy) (all_decls eps t die mods cells edges) ->
  in_box die (asg vx, asg vy).
Proof.
  intros Hx Hy. destruct (decl_ok _ Hx) as [Lx Ux]. destruct (decl_ok _ Hy) as [Ly Uy]. cbn in Lx, Ux, Ly, Uy.
  unfold in_box. cbn [fst snd]. repeat split; [apply Lx|apply Ux|apply Ly|apply Uy]; reflexivity.
Qed.

Lemma hard_rects_nonempty h : In h (hards mods) -> mrects h <> [].
Proof.
  intros H E. pose proof gen_inv as X. destruct X as (_ & _ & Z). unfold zero_div in Z.
  apply orb_false_iff in Z. destruct Z as [Z _]. apply orb_false_iff in Z. destruct Z as [_ Z].
  assert (X : existsb (fun m => is_empty (mrects m) || existsb (fun r => Qceqb (rw r) 0 || Qceqb (rh r) 0) (mrects m))
                      (hards mods) = true).
  { apply existsb_exists. exists h. split; auto. rewrite E. reflexivity. }
  congruence.
Qed.

Lemma link_in h c : In h (hards mods) -> (c < List.length cells)%nat ->
  In (link_con eps t cells h c) (all_cons pow32 eps t mods areas cells edges).
Proof.
  intros H Hc. unfold all_cons. apply in_or_app. right. apply in_or_app. right. apply in_or_app. left.
  apply in_flat_map. exists h. split; [exact H|]. unfold hard_cons_of, link_con.
  pose proof (hard_rects_nonempty h H) as NE. unfold fake_modules.
  destruct (mrects h) as [|r rs]; [congruence|]. cbn [indexed_from map combine].
  apply in_or_app. right. apply in_or_app. left.
  destruct (in_icells cells c Hc) as [cl Hcl]. apply in_map_iff. exists (c, cl). auto.
Qed.

Lemma cap_in c : (c < List.length cells)%nat -> In (cap_con eps t mods cells c) (all_cons pow32 eps t mods areas cells edges).
Proof.
  intro Hc. unfold all_cons. apply in_or_app. left.
  destruct (in_icells cells c Hc) as [cl Hcl]. apply in_map_iff. exists (c, cl). auto.
Qed.

Theorem feasible_solok : SolOK eps (sys_tol tol mods) t die mods cells sol.
Proof.
  constructor.
  - (* ratios in [0,1] *)
    intros m c Hm Hc. destruct (movable_hard m) eqn:K.
    + assert (Hh : In m (hards mods)) by (apply in_hards; auto).
      rewrite (sa_hard m c Hh). apply hard_entry_range; auto.
    + rewrite (sa_pm m c (soft_in_pms m Hm K)). apply pm_entry_range; auto. apply soft_in_pms; auto.
  - (* movable centres in the die box *)
    intros m Hm Fx. unfold sol, sol_of_asg. cbn [sx sy]. rewrite (find_mod mods Names m Hm), Fx.
    destruct (movable_hard m) eqn:K.
    + assert (Hh : In m (hards mods)) by (apply in_hards; auto).
      apply box_of_decls; apply (hard_decl_in m); auto; unfold hard_decls; cbn [app In]; auto.
    + apply box_of_decls; unfold all_decls; apply in_or_app; left; apply in_flat_map; exists m;
        (split; [apply soft_in_pms; auto|]); unfold xyd_decls; rewrite Fx; cbn [In]; auto.
  - (* no cell above 100 % *)
    intros c Hc.
    pose (F := fun pm => eval asg (a_ent eps t cells pm c)).
    assert (S1 : Qcsum (map (fun m => sa sol (mname m) c) mods) <=
                 Qcsum (map (fun m => if movable_hard m then Qcsum (map F (fake_modules m)) else F m) mods) +
                 Qcsum (map (fun m => if movable_hard m then tol else 0) mods)).
    { apply sum_le3. intros m Hm. destruct (movable_hard m) eqn:K.
      - assert (Hh : In m (hards mods)) by (apply in_hards; auto).
        rewrite (sa_hard m c Hh). pose proof (con_ok _ (link_in m c Hh Hc)) as L.
        unfold holds, link_con, link_con_of in L. cbn [crel clhs crhs eval] in L. rewrite eval_esum, !map_map in L.
        cbn [snd ent_of] in L. destruct L as [L _]. exact L.
      - rewrite (sa_pm m c (soft_in_pms m Hm K)). unfold F. qlra. }
    rewrite <- sum_pms, sum_hards in S1.
    pose proof (con_ok _ (cap_in c Hc)) as C. unfold holds, cap_con, cap_con_of in C. cbn [crel clhs crhs eval] in C.
    rewrite eval_esum, !map_map in C. cbn [snd ent_of] in C. unfold pms in C. fold pmsl in C. unfold F in S1. fold pmsl in S1.
    unfold sys_tol.
    generalize dependent (Qcsum (map (fun x => eval asg (a_ent eps t cells x c)) pmsl)).
    generalize (Qcsum (map (fun _ : module => tol) (hards mods))).
    generalize (Qcsum (map (fun m => sa sol (mname m) c) mods)). intros. qlra.
  - (* fixed centres are the floats the code stored *)
    intros m Hm Fx. unfold sol, sol_of_asg. cbn [sx sy]. rewrite (find_mod mods Names m Hm), Fx. auto.
  - (* constants are returned unchanged *)
    intros pm c v Hpm Hc MA. unfold sol, sol_of_asg. cbn [sa]. unfold pms. rewrite (find_pm mods Names NC pm Hpm), MA.
    reflexivity.
Qed.
End Main.

(* ------------------------------------------------------------------ *)
(* the loop: "feasible at every optimisation" replaces the contract    *)
(* ------------------------------------------------------------------ *)
Lemma hards_track mods0 ms (tol : Qc) : Forall2 track mods0 ms ->
  Qcsum (map (fun _ : module => tol) (hards ms)) = Qcsum (map (fun _ : module => tol) (hards mods0)).
Proof.
  intro H. rewrite <- !sum_hards. induction H as [|m0 m l0 l T _ IH]; [reflexivity|].
  cbn [map Qcsum]. rewrite IH. destruct T as (_ & Eh & Ef & _). unfold movable_hard. rewrite Eh, Ef. reflexivity.
Qed.
Lemma sys_tol_track mods0 ms tol : Forall2 track mods0 ms -> sys_tol tol ms = sys_tol tol mods0.
Proof. intro H. unfold sys_tol. rewrite (hards_track mods0 ms tol H). reflexivity. Qed.

Section LoopSys.
Variable pow32 : Qc -> Qc.
Variables (eps aeps t tol : Qc) (die : Rect) (areas : alloc) (edges : list (list string)) (mods0 : list module).
Variable raw : nat -> list module -> list cell -> option (var -> Qc).
Hypothesis Ht0 : 0 < t.
Hypothesis Ht1 : t <= 1.
Hypothesis Htol : sys_tol tol mods0 <= 1 - t.

Let solver := solver_of pow32 eps t die areas edges raw.

Lemma feasible_at_sol_ok n ms cells :
  Inv aeps die mods0 ms cells ->
  feasible_at pow32 eps t die areas edges raw tol n ms cells ->
  sol_ok_at solver t eps (sys_tol tol mods0) die n ms cells.
Proof.
  intros I Fa sol Hs. unfold solver, solver_of in Hs.
  destruct (gen_system pow32 eps t die ms areas cells edges) as [sys|] eqn:Gs; [|discriminate].
  destruct (raw n ms cells) as [asg|] eqn:R; [|discriminate]. injection Hs as <-.
  destruct I as [Acc _ Names Tr _ _]. rewrite <- (sys_tol_track mods0 ms tol Tr).
  apply (feasible_solok pow32 eps t tol die ms areas cells edges sys asg Gs Names).
  - apply accepted_inv in Acc. tauto.
  - apply Fa; auto.
Qed.

Lemma feasible_along_sol_ok fuel : forall max_iter n ms cells,
  Inv aeps die mods0 ms cells ->
  feasible_along pow32 eps aeps t die areas edges raw tol fuel max_iter n ms cells ->
  sol_ok_along solver aeps t eps (sys_tol tol mods0) die fuel max_iter n ms cells.
Proof.
  induction fuel as [|f IH]; intros mi n ms cells I A; cbn [feasible_along sol_ok_along] in *; [exact Logic.I|].
  destruct (match mi with None => true | Some k => (n <=? k)%nat end); [|exact Logic.I].
  destruct (1 <? n)%nat.
  - destruct (must_be_refined t cells); [|exact Logic.I].
    destruct (refine aeps t 1 cells) as [cells1|] eqn:R; [|exact Logic.I].
    destruct A as [A1 A2]. pose proof (refine_step _ _ _ _ _ _ _ I R) as I1.
    pose proof (feasible_at_sol_ok n ms cells1 I1 A1) as S1. split; [exact S1|].
    fold solver in A2.
    destruct (optimize solver aeps t n ms cells1) as [[ms2 cells2]|] eqn:O; [|exact Logic.I].
    destruct (optimize_step eps _ t aeps die mods0 Ht0 Ht1 Htol solver n ms cells1 ms2 cells2 I1 S1 O) as [I2 _].
    apply IH; auto.
  - destruct A as [A1 A2]. pose proof (feasible_at_sol_ok n ms cells I A1) as S1. split; [exact S1|].
    fold solver in A2.
    destruct (optimize solver aeps t n ms cells) as [[ms2 cells2]|] eqn:O; [|exact Logic.I].
    destruct (optimize_step eps _ t aeps die mods0 Ht0 Ht1 Htol solver n ms cells ms2 cells2 I S1 O) as [I2 _].
    apply IH; auto.
Qed.

(* THE PROPERTY, conditional only on: at every optimisation of the run the solver answered with a point
   feasible (bounds exactly, equations within tol) for the system optimize_allocation built *)
Theorem glb_from_system fuel max_iter ms cells ms' cells' :
  max_iter <> Some 0%nat ->
  Inv aeps die mods0 ms cells ->
  feasible_along pow32 eps aeps t die areas edges raw tol fuel max_iter 1 ms cells ->
  glbfloor solver aeps t fuel max_iter ms cells = Finished ms' cells' ->
  GlbOK aeps (sys_tol tol mods0) die mods0 ms' cells'.
Proof.
  intros NZ I A L.
  apply (glb_partial_thm eps _ t aeps die mods0 Ht0 Ht1 Htol solver fuel max_iter ms cells ms' cells' NZ I); auto.
  apply feasible_along_sol_ok; auto.
Qed.
End LoopSys.

Theorem glb_from_system_thm pow32 eps aeps t tol die areas edges raw fuel max_iter ms cells ms' cells' :
  0 < t -> t <= 1 -> sys_tol tol ms <= 1 - t ->
  max_iter <> Some 0%nat ->
  Inv aeps die ms ms cells ->
  feasible_along pow32 eps aeps t die areas edges raw tol fuel max_iter 1 ms cells ->
  glbfloor (solver_of pow32 eps t die areas edges raw) aeps t fuel max_iter ms cells = Finished ms' cells' ->
  GlbOK aeps (sys_tol tol ms) die ms ms' cells'.
Proof. intros. eapply glb_from_system; eauto. Qed.

(* ------------------------------------------------------------------ *)
(* a decision procedure for Feasible (used by the examples)            *)
(* ------------------------------------------------------------------ *)
Definition holdsb (tol : Qc) (asg : var -> Qc) (c : con) : bool :=
  match crel c with
  | LE => Qcleb (eval asg (clhs c)) (eval asg (crhs c) + tol)
  | GE => Qcleb (eval asg (crhs c)) (eval asg (clhs c) + tol)
  | EQ => Qcleb (eval asg (clhs c)) (eval asg (crhs c) + tol) && Qcleb (eval asg (crhs c)) (eval asg (clhs c) + tol)
  end.
Definition in_boundsb (asg : var -> Qc) (d : vdecl) : bool :=
  match vlb d with Some lb => Qcleb lb (asg (vvar d)) | None => true end &&
  match vub d with Some ub => Qcleb (asg (vvar d)) ub | None => true end.
Definition feasibleb (tol : Qc) (s : system) (asg : var -> Qc) : bool :=
  forallb (in_boundsb asg) (svars s) && forallb (holdsb tol asg) (scons s).

Lemma feasibleb_ok tol s asg : feasibleb tol s asg = true -> Feasible tol s asg.
Proof.
  unfold feasibleb, Feasible. intro H. apply andb_true_iff in H. destruct H as [B C]. split; apply Forall_forall.
  - intros d Hd. rewrite forallb_forall in B. specialize (B d Hd). unfold in_boundsb in B. apply andb_true_iff in B.
    destruct B as [B1 B2]. split; intros q E; rewrite E in *; qb2p; assumption.
  - intros c Hc. rewrite forallb_forall in C. specialize (C c Hc). unfold holdsb, holds in *.
    destruct (crel c); [qb2p; exact C|qb2p; exact C|].
    apply andb_true_iff in C. destruct C as [C1 C2]. qb2p. split; assumption.
Qed.

(* ------------------------------------------------------------------ *)
(* the generators only read the rows at the cells of the allocation:   *)
(* tabulating the rows (Cases/CmpC10Sys.v) gives the same system       *)
(* ------------------------------------------------------------------ *)
Section Ext.
Variable pow32 : Qc -> Qc.
Variables (die : Rect) (mods : list module) (areas : alloc) (cells : list cell)
          (edges : list (list string)).
Variables mk mk' : module -> ent.
Hypothesis Efst : forall m, fst (mk m) = fst (mk' m).
Hypothesis Esnd : forall m c, (c < List.length cells)%nat -> snd (mk m) c = snd (mk' m) c.

Lemma icells_lt ic : In ic (icells cells) -> (fst ic < List.length cells)%nat.
Proof.
  destruct ic as [c cl]. unfold icells. intro H. apply in_indexed_from in H. destruct H as [_ H].
  rewrite Nat.sub_0_r in H. cbn [fst]. apply nth_error_Some. congruence.
Qed.

Lemma flat_map_ext_in' {A B} (f g : A -> list B) l : (forall x, In x l -> f x = g x) -> flat_map f l = flat_map g l.
Proof.
  induction l as [|x l IH]; intro H; [reflexivity|]. cbn [flat_map]. rewrite (H x (or_introl eq_refl)).
  f_equal. apply IH. intros y Hy. apply H. right. exact Hy.
Qed.

Lemma cellmap_ext {B} (F : nat * cell -> expr -> B) m :
  map (fun ic => F ic (snd (mk m) (fst ic))) (icells cells) = map (fun ic => F ic (snd (mk' m) (fst ic))) (icells cells).
Proof. apply map_ext_in. intros ic Hic. rewrite (Esnd _ _ (icells_lt ic Hic)). reflexivity. Qed.

Lemma a_decls_ext m : a_decls_of cells (mk m) = a_decls_of cells (mk' m).
Proof.
  unfold a_decls_of. apply flat_map_ext_in'. intros ic Hic. rewrite (Esnd _ _ (icells_lt ic Hic)). reflexivity.
Qed.
Lemma area_con_ext m : area_con_of areas cells (mk m) = area_con_of areas cells (mk' m).
Proof.
  unfold area_con_of. rewrite Efst.
  rewrite (cellmap_ext (fun ic e => EMul (EC (area (crect (snd ic)))) e) m). reflexivity.
Qed.
Lemma centx_con_ext m : centx_con_of areas cells (mk m) = centx_con_of areas cells (mk' m).
Proof.
  unfold centx_con_of. rewrite Efst.
  rewrite (cellmap_ext (fun ic e => EMul (EC (area (crect (snd ic)) * cx (crect (snd ic)))) e) m). reflexivity.
Qed.
Lemma centy_con_ext m : centy_con_of areas cells (mk m) = centy_con_of areas cells (mk' m).
Proof.
  unfold centy_con_of. rewrite Efst.
  rewrite (cellmap_ext (fun ic e => EMul (EC (area (crect (snd ic)) * cy (crect (snd ic)))) e) m). reflexivity.
Qed.
Lemma disp_con_ext m : disp_con_of pow32 areas cells (mk m) = disp_con_of pow32 areas cells (mk' m).
Proof.
  unfold disp_con_of. rewrite Efst.
  rewrite (cellmap_ext (fun ic e => EMul (EMul (EC (area (crect (snd ic)))) e)
                          (EAdd (ESqr (ESub (x_ent (fst (mk' m))) (EC (cx (crect (snd ic))))))
                                (ESqr (ESub (y_ent (fst (mk' m))) (EC (cy (crect (snd ic)))))))) m). reflexivity.
Qed.
Lemma module_cons_ext m : module_cons_of pow32 areas cells (mk m) = module_cons_of pow32 areas cells (mk' m).
Proof.
  unfold module_cons_of. rewrite area_con_ext, centx_con_ext, centy_con_ext, disp_con_ext, Efst. reflexivity.
Qed.
Lemma fake_disp_ext m r : fake_disp_con_of cells (mk m) r = fake_disp_con_of cells (mk' m) r.
Proof.
  unfold fake_disp_con_of. rewrite Efst.
  rewrite (cellmap_ext (fun ic e =>
             EMul (EMul (EC (area (crect (snd ic)))) e)
                  (if Qcltb (rw r) (rh r)
                   then EAdd (ESqr (EMul (EC (rh r / rw r)) (ESub (x_ent (fst (mk' m))) (EC (cx (crect (snd ic)))))))
                             (ESqr (ESub (y_ent (fst (mk' m))) (EC (cy (crect (snd ic))))))
                   else EAdd (ESqr (ESub (x_ent (fst (mk' m))) (EC (cx (crect (snd ic))))))
                             (ESqr (EMul (EC (rw r / rh r)) (ESub (y_ent (fst (mk' m))) (EC (cy (crect (snd ic)))))))))
             m). reflexivity.
Qed.

Lemma rigid_cons_ext flip (l : list (module * Rect)) :
  rigid_cons_of cells flip (map (fun q => (mk (fst q), snd q)) l) =
  rigid_cons_of cells flip (map (fun q => (mk' (fst q), snd q)) l).
Proof.
  induction l as [|[m r] l IH]; [reflexivity|]. cbn [map rigid_cons_of fst snd].
  rewrite IH, fake_disp_ext, !Efst. f_equal.
  rewrite !flat_map_concat_map, !map_map. cbn [fst snd]. f_equal. apply map_ext. intros [m2 r2]. cbn [fst snd].
  rewrite !Efst. reflexivity.
Qed.

Lemma combine_map_l {A B C} (f : A -> B) (l : list A) (l2 : list C) :
  combine (map f l) l2 = map (fun q => (f (fst q), snd q)) (combine l l2).
Proof. revert l2. induction l as [|x l IH]; intros [|y l2]; cbn [map combine fst snd]; try reflexivity. rewrite IH. reflexivity. Qed.

Lemma link_con_ext m c : (c < List.length cells)%nat ->
  link_con_of m (map mk (fake_modules m)) c = link_con_of m (map mk' (fake_modules m)) c.
Proof.
  intro Hc. unfold link_con_of. rewrite !map_map. f_equal. f_equal. apply map_ext. intro fm. apply Esnd. exact Hc.
Qed.

Lemma hard_cons_ext m : hard_cons_of cells mk m = hard_cons_of cells mk' m.
Proof.
  unfold hard_cons_of. cbv zeta. rewrite !combine_map_l, rigid_cons_ext.
  destruct (combine (fake_modules m) (mrects m)) as [|[fm0 r0] rest]; [reflexivity|]. cbn [map fst snd].
  rewrite !Efst.
  assert (Hm : map (fun ic => link_con_of m (map mk (fake_modules m)) (fst ic)) (icells cells) =
               map (fun ic => link_con_of m (map mk' (fake_modules m)) (fst ic)) (icells cells)).
  { apply map_ext_in. intros ic Hic. apply link_con_ext. apply icells_lt. exact Hic. }
  rewrite Hm. reflexivity.
Qed.

Lemma cap_con_ext l c : (c < List.length cells)%nat -> cap_con_of (map mk l) c = cap_con_of (map mk' l) c.
Proof. intro Hc. unfold cap_con_of. rewrite !map_map. f_equal. f_equal. apply map_ext. intro m. apply Esnd. exact Hc. Qed.

Theorem gen_system_of_ext :
  gen_system_of pow32 die mods areas cells edges mk = gen_system_of pow32 die mods areas cells edges mk'.
Proof.
  unfold gen_system_of. destruct (fake_clash mods || zero_div mods areas edges); [reflexivity|]. cbv zeta.
  f_equal. f_equal.
  - unfold all_decls_of. f_equal. f_equal. rewrite !flat_map_concat_map, !map_map. f_equal. apply map_ext.
    intro m. apply a_decls_ext.
  - unfold all_cons_of. f_equal; [|f_equal; [|f_equal]].
    + apply map_ext_in. intros ic Hic. apply cap_con_ext. apply icells_lt. exact Hic.
    + rewrite !flat_map_concat_map, !map_map. f_equal. apply map_ext. intro m. apply module_cons_ext.
    + apply flat_map_ext. intro m. apply hard_cons_ext.
Qed.
End Ext.

(* the tabulated rows used by the comparator: the neighbours of every cell once, the row of every module once *)
Definition tab_ent (nbs : list (list nat)) (t : Qc) (cells : list cell) (m : module) : ent :=
  let row := map (fun ic => match model_a_with (nth (fst ic) nbs []) t cells m (fst ic) with
                            | Some v => EC v | None => EV (VA (mname m) (fst ic)) end) (icells cells) in
  (m, fun c => nth c row (EC 0)).
Definition gen_system_fast pow32 eps t die mods areas cells edges : option system :=
  let nbs := nb_table eps cells in
  gen_system_of pow32 die mods areas cells edges (tab_ent nbs t cells).

Lemma nth_indexed_map {A B} (g : nat -> B) (d : B) (l : list A) : forall i c, (c < List.length l)%nat ->
  nth c (map (fun ic => g (fst ic)) (indexed_from i l)) d = g (i + c)%nat.
Proof.
  induction l as [|x l IH]; intros i c Hc; cbn [List.length] in Hc; [lia|].
  cbn [indexed_from map]. destruct c as [|c]; cbn [nth fst].
  - f_equal. lia.
  - rewrite IH by lia. f_equal. lia.
Qed.

Lemma model_a_tab eps t cells m c : (c < List.length cells)%nat ->
  model_a_with (nth c (nb_table eps cells) []) t cells m c = model_a eps t cells m c.
Proof. intro Hc. unfold model_a, nb_table. rewrite (nth_indexed_map (neighbours eps cells)); auto. Qed.

Theorem gen_system_fast_same pow32 eps t die mods areas cells edges :
  gen_system_fast pow32 eps t die mods areas cells edges = gen_system pow32 eps t die mods areas cells edges.
Proof.
  unfold gen_system_fast, gen_system. cbv zeta. apply gen_system_of_ext.
  - intro m. reflexivity.
  - intros m c Hc. unfold tab_ent, ent_of, icells. cbn [snd].
    rewrite (nth_indexed_map (fun k => match model_a_with (nth k (nb_table eps cells) []) t cells m k with
                                       | Some v => EC v | None => EV (VA (mname m) k) end)); auto.
    cbn [Nat.add]. unfold a_ent. rewrite model_a_tab; auto.
Qed.
