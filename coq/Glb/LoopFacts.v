(* Facts about the refine/optimise loop of glbfloor (C10), part 3: the property holds of
   whatever the loop returns, provided the solver contract held at every optimisation. *)
From FrameModel Require Import Num.QcTac Geometry.Rect Geometry.RectFacts Geometry.SplitFacts
  Alloc.Alloc Glb.Extract Glb.ExtractFacts Glb.RigidFacts.
Open Scope list_scope.
Open Scope Qc_scope.

(* ------------------------------------------------------------------ *)
(* helpers                                                             *)
(* ------------------------------------------------------------------ *)
Lemma mk_allocation_some aeps x y : mk_allocation aeps x = Some y -> y = x /\ accepted aeps x.
Proof.
  unfold accepted. intro H. assert (E : y = x).
  { unfold mk_allocation in H. destruct x; [discriminate|].
    destruct (_ && _ && _ && _) in H; [|discriminate]. injection H as <-. reflexivity. }
  subst. auto.
Qed.

Lemma is_inside_refl r : is_inside r r = true.
Proof. apply is_inside_coords. repeat split; apply Qcle_refl. Qed.
Lemma is_inside_trans a b c : is_inside a b = true -> is_inside b c = true -> is_inside a c = true.
Proof.
  rewrite !is_inside_coords. intros (A1 & A2 & A3 & A4) (B1 & B2 & B3 & B4).
  repeat split; eapply Qcle_trans; eauto.
Qed.

Lemma Forall2_weaken {A B} (R S : A -> B -> Prop) l l' :
  (forall x y, R x y -> S x y) -> Forall2 R l l' -> Forall2 S l l'.
Proof. intro H. induction 1; constructor; auto. Qed.
Lemma map_opt_Forall2 {A B} (f : A -> option B) l l' :
  map_opt f l = Some l' -> Forall2 (fun x y => In x l /\ f x = Some y) l l'.
Proof.
  revert l'. induction l as [|x l IH]; cbn [map_opt]; intros l' H.
  - injection H as <-. constructor.
  - destruct (f x) as [y|] eqn:E; [|discriminate]. destruct (map_opt f l) as [ys|]; [|discriminate].
    injection H as <-. constructor; [split; [left; auto|auto]|].
    eapply Forall2_weaken; [|apply IH; reflexivity]. cbv beta. intros x0 y0 [? ?]. split; auto. right. auto.
Qed.
Lemma Forall2_in_r {A B} (R : A -> B -> Prop) l l' y : Forall2 R l l' -> In y l' -> exists x, In x l /\ R x y.
Proof.
  induction 1 as [|a b l l' Hab F IH]; cbn [In]. tauto. intros [<-|H']. eauto. destruct (IH H') as (z & ? & ?). eauto.
Qed.
Lemma Forall2_in_l {A B} (R : A -> B -> Prop) l l' x : Forall2 R l l' -> In x l -> exists y, In y l' /\ R x y.
Proof.
  induction 1 as [|a b l l' Hab F IH]; cbn [In]. tauto. intros [<-|H']. eauto. destruct (IH H') as (z & ? & ?). eauto.
Qed.
Lemma Forall2_compose {A B C} (R : A -> B -> Prop) (S : B -> C -> Prop) (T : A -> C -> Prop) l1 l2 l3 :
  (forall a b c, R a b -> S b c -> T a c) -> Forall2 R l1 l2 -> Forall2 S l2 l3 -> Forall2 T l1 l3.
Proof.
  intros H F. revert l3. induction F; intros l3 G; inversion G; subst; constructor; eauto.
Qed.

Lemma concat_opt_in {A} (l : list (option (list A))) out x :
  concat_opt l = Some out -> In x out -> exists xs, In (Some xs) l /\ In x xs.
Proof.
  revert out. induction l as [|o l IH]; cbn [concat_opt]; intros out H Hx.
  - injection H as <-. destruct Hx.
  - destruct o as [xs|]; [|discriminate]. destruct (concat_opt l) as [ys|]; [|discriminate].
    injection H as <-. apply in_app_or in Hx. destruct Hx as [Hx|Hx].
    + exists xs. split; [left; auto|auto].
    + destruct (IH ys eq_refl Hx) as (zs & ? & ?). exists zs. split; [right; auto|auto].
Qed.
Lemma concat_opt_incl {A} (l : list (option (list A))) out xs x :
  concat_opt l = Some out -> In (Some xs) l -> In x xs -> In x out.
Proof.
  revert out. induction l as [|o l IH]; cbn [concat_opt In]; intros out H Hin Hx. tauto.
  destruct o as [zs|]; [|discriminate]. destruct (concat_opt l) as [ys|]; [|discriminate].
  injection H as <-. apply in_or_app. destruct Hin as [E|Hin].
  - injection E as ->. auto.
  - right. eapply IH; eauto.
Qed.

(* ---- refine: cells stay inside their parents, fixed cells are kept ---- *)
Lemma split_alloc_inside l : forall r al d cs, wf r -> split_alloc r al d l = Some cs ->
  Forall (fun c => is_inside (crect c) r = true /\ wf (crect c)) cs.
Proof.
  induction l as [|l IH]; cbn [split_alloc]; intros r al d cs W H.
  - injection H as <-. constructor; [|constructor]. cbn [crect]. split; [apply is_inside_refl|exact W].
  - destruct (split_halves r W) as (r1 & r2 & Sp & T & _). rewrite Sp in H.
    destruct (split_alloc r1 al (S d) l) as [a|] eqn:E1; [|discriminate].
    destruct (split_alloc r2 al (S d) l) as [b|] eqn:E2; [|discriminate].
    injection H as <-. destruct T as (F & _ & _).
    inversion F as [|? ? [W1 I1] F']; subst. inversion F' as [|? ? [W2 I2] _]; subst.
    pose proof (IH _ _ _ _ W1 E1) as F1. pose proof (IH _ _ _ _ W2 E2) as F2.
    rewrite Forall_forall in *. intros c Hc. apply in_app_or in Hc. destruct Hc as [Hc|Hc].
    + destruct (F1 c Hc) as [Ic Wc]. split; auto. eapply is_inside_trans; eauto.
    + destruct (F2 c Hc) as [Ic Wc]. split; auto. eapply is_inside_trans; eauto.
Qed.

Lemma cell_eta c : mkCell (crect c) (calloc c) (cdepth c) = c.
Proof. destruct c; reflexivity. Qed.

Lemma accepted_wf aeps cells c : accepted aeps cells -> In c cells -> wf (crect c).
Proof.
  intros A Hc. apply accepted_inv in A. destruct A as (_ & CK & _). rewrite forallb_forall in CK.
  specialize (CK c Hc). unfold cell_ok in CK. apply andb_true_iff in CK. destruct CK as [W _].
  unfold wfb in W. apply andb_true_iff in W. destruct W. qb2p. split; auto.
Qed.

Section RefineStep.
Variables (aeps t : Qc) (levels : nat) (cells new : list cell).
Hypothesis Acc : accepted aeps cells.
Hypothesis R : refine aeps t levels cells = Some new.

Lemma refine_unfold : accepted aeps new /\ refine_cells t levels cells = Some new.
Proof.
  unfold refine in R. destruct levels; [discriminate|].
  destruct (refine_cells t (S n) cells) as [x|] eqn:E; [|discriminate].
  apply mk_allocation_some in R. destruct R as [-> A]. auto.
Qed.

Lemma refine_inside die : all_inside die (map crect cells) -> all_inside die (map crect new).
Proof.
  destruct refine_unfold as [_ RC]. unfold all_inside. rewrite !Forall_forall. intros H r Hr.
  apply in_map_iff in Hr. destruct Hr as (c' & <- & Hc'). unfold refine_cells in RC.
  destruct (concat_opt_in _ _ _ RC Hc') as (xs & Hxs & Hin).
  apply in_map_iff in Hxs. destruct Hxs as (c & E & Hc).
  pose proof (split_alloc_inside _ _ _ _ _ (accepted_wf _ _ _ Acc Hc) E) as F.
  rewrite Forall_forall in F. destruct (F c' Hin) as [I _].
  eapply is_inside_trans; [exact I|]. apply H. apply in_map. exact Hc.
Qed.

Lemma refine_keeps_fixed c : In c cells -> fixed (crect c) = true -> In c new.
Proof.
  intros Hc Fx. destruct refine_unfold as [_ RC]. unfold refine_cells in RC.
  apply (concat_opt_incl _ _ [c] c RC); [|left; reflexivity].
  apply in_map_iff. exists c. split; auto.
  unfold splittable. rewrite Fx. cbn [negb andb split_alloc]. rewrite cell_eta. reflexivity.
Qed.

Lemma refine_owns m : owns m cells -> owns m new.
Proof.
  unfold owns. rewrite !Forall_forall. intros H r Hr. destruct (H r Hr) as (Fx & c & Hc & Er & Ea).
  split; auto. exists c. split; auto. apply refine_keeps_fixed; auto. rewrite Er. exact Fx.
Qed.
End RefineStep.

(* ------------------------------------------------------------------ *)
(* the invariant and the property                                      *)
(* ------------------------------------------------------------------ *)
(* how a module of the result relates to the module the netlist started with *)
Definition track (m0 m : module) : Prop :=
  mname m = mname m0 /\ mhard m = mhard m0 /\ mfixed m = mfixed m0 /\ mflip m = mflip m0 /\
  (mfixed m0 = true -> mrects m = mrects m0 /\ mcenter m = mcenter m0) /\          (* fixed: untouched *)
  (mhard m0 = false -> mrects m = mrects m0) /\                                      (* soft: rectangles untouched *)
  (mhard m0 && negb (mfixed m0) = true -> rigid (mrects m0) (mrects m)).           (* movable hard: rigid motion *)

Lemma track_refl m : track m m.
Proof. unfold track. do 4 (split; [reflexivity|]). split; [auto|]. split; [auto|]. intros _. apply rigid_refl. Qed.

Record Inv (aeps : Qc) (die : Rect) (mods0 ms : list module) (cells : list cell) : Prop := {
  inv_acc : accepted aeps cells;
  inv_inside : all_inside die (map crect cells);
  inv_names : names_ok ms;
  inv_track : Forall2 track mods0 ms;
  inv_owns : forall m, In m ms -> mfixed m = true -> owns m cells;
  inv_fixed_centres : forall m, In m ms -> mfixed m = true -> in_box die (mcenter m)
}.

(* the property C10 of a returned (modules, allocation) *)
Record GlbOK (aeps tol : Qc) (die : Rect) (mods0 ms : list module) (cells : list cell) : Prop := {
  ok_no_overlap : no_ov_rects aeps (map crect cells);         (* no two cells overlap (beyond the area tolerance) *)
  ok_inside : all_inside die (map crect cells);               (* cells inside the die *)
  ok_ratios : ratios_in_unit cells;                           (* every ratio in [0,1] *)
  ok_sums : cell_sums_le (1 + tol) cells;                     (* no cell beyond 100% (+ tol) *)
  ok_centres : Forall (fun m => in_box die (mcenter m)) ms;   (* module centres in the die *)
  ok_track : Forall2 track mods0 ms;                          (* fixed untouched, movable hard rigid *)
  ok_owns : forall m, In m ms -> mfixed m = true -> owns m cells   (* fixed modules fully own their cells *)
}.

Section Step.
Variables (eps tol t aeps : Qc) (die : Rect) (mods0 : list module).
Hypothesis Ht0 : 0 < t.
Hypothesis Ht1 : t <= 1.
Hypothesis Htol : tol <= 1 - t.

Lemma extract_step sol ms cells ms' cells' :
  Inv aeps die mods0 ms cells ->
  SolOK eps tol t die ms cells sol ->
  extract sol aeps t ms (map crect cells) = Some (ms', cells') ->
  Inv aeps die mods0 ms' cells' /\ GlbOK aeps tol die mods0 ms' cells'.
Proof.
  intros I OK E. destruct I as [Acc Ins Names Tr Own FC].
  unfold extract in E.
  destruct (mk_allocation aeps (extract_cells sol t ms (map crect cells))) as [cs|] eqn:MA; [|discriminate].
  destruct (map_opt (extract_module sol) ms) as [ms2|] eqn:MO; [|discriminate].
  injection E as <- <-. apply mk_allocation_some in MA. destruct MA as [-> Acc'].
  apply map_opt_Forall2 in MO.
  destruct (extract_alloc_ok_sec sol eps tol t aeps die ms cells OK Ht1 Acc Names) as (SL & NO & RT & SM & _ & _).
  set (out := extract_cells sol t ms (map crect cells)) in *.
  (* fixed modules are returned unchanged *)
  assert (FixSame : forall m m', In m ms -> extract_module sol m = Some m' -> mfixed m = true -> m' = m).
  { intros m m' Hm Em Fm.
    destruct (extract_fixed_thm sol eps tol t die ms cells m OK Ht0 Htol Names Hm Fm (Own m Hm Fm)) as [_ E2].
    congruence. }
  assert (Ins' : all_inside die (map crect out)) by (eapply sublist_Forall; eauto).
  assert (Tr' : Forall2 track mods0 ms2).
  { eapply Forall2_compose; [|exact Tr|exact MO]. cbv beta.
    intros m0 m m' T [Hm Em]. destruct T as (Tn & Th & Tf & Tl & Tfix & Tsoft & Thard).
    pose proof (extract_module_center _ _ _ Em) as (Ec & En & Eh & Ef & El).
    pose proof (extract_module_rigid _ _ _ Em) as [Rsame Rrig].
    unfold track. split; [congruence|]. split; [congruence|]. split; [congruence|]. split; [congruence|].
    split; [|split].
    - intro F0. assert (Fm : mfixed m = true) by congruence.
      rewrite (FixSame m m' Hm Em Fm). apply Tfix; auto.
    - intro H0. rewrite Rsame; [auto|]. rewrite Th, H0. reflexivity.
    - intro H0. eapply rigid_trans; [apply Thard; exact H0|]. apply Rrig. rewrite Th, Tf. exact H0. }
  assert (Own' : forall m', In m' ms2 -> mfixed m' = true -> owns m' out).
  { intros m' Hm' Fm'. destruct (Forall2_in_r _ _ _ _ MO Hm') as (m & _ & Hm & Em).
    pose proof (extract_module_center _ _ _ Em) as (_ & _ & _ & Ef & _).
    assert (Fm : mfixed m = true) by congruence.
    rewrite (FixSame m m' Hm Em Fm).
    apply (extract_fixed_thm sol eps tol t die ms cells m OK Ht0 Htol Names Hm Fm (Own m Hm Fm)). }
  assert (FC' : forall m', In m' ms2 -> mfixed m' = true -> in_box die (mcenter m')).
  { intros m' Hm' Fm'. destruct (Forall2_in_r _ _ _ _ MO Hm') as (m & _ & Hm & Em).
    pose proof (extract_module_center _ _ _ Em) as (_ & _ & _ & Ef & _).
    assert (Fm : mfixed m = true) by congruence.
    rewrite (FixSame m m' Hm Em Fm). auto. }
  assert (Names' : names_ok ms2).
  { assert (EN : map mname ms2 = map mname ms).
    { clear - MO. induction MO as [|m m' l l' [_ Em] F IH]; cbn [map]. reflexivity.
      apply extract_module_center in Em. destruct Em as (_ & -> & _). rewrite IH. reflexivity. }
    destruct Names as [ND V]. split; [rewrite EN; exact ND|].
    apply Forall_forall. intros m' Hm'. destruct (Forall2_in_r _ _ _ _ MO Hm') as (m & _ & Hm & Em).
    apply extract_module_center in Em. destruct Em as (_ & -> & _). rewrite Forall_forall in V. auto. }
  split.
  - constructor; auto.
  - constructor; auto.
    + apply no_overlap_iff. exact NO.
    + apply Forall_forall. intros m' Hm'. destruct (Forall2_in_r _ _ _ _ MO Hm') as (m & _ & Hm & Em).
      eapply centres_in_die_thm; eauto.
Qed.

Lemma refine_step ms cells cells1 :
  Inv aeps die mods0 ms cells -> refine aeps t 1 cells = Some cells1 -> Inv aeps die mods0 ms cells1.
Proof.
  intros [Acc Ins Names Tr Own FC] R.
  destruct (refine_unfold _ _ _ _ _ R) as [Acc' _].
  constructor; auto.
  - eapply refine_inside; [exact Acc|exact R|exact Ins].
  - intros m Hm Fm. eapply refine_owns; eauto.
Qed.

(* ------------------------------------------------------------------ *)
(* glb_partial                                                         *)
(* ------------------------------------------------------------------ *)
Variable solver : nat -> list module -> list cell -> option Sol.

Lemma optimize_step n ms cells ms' cells' :
  Inv aeps die mods0 ms cells ->
  sol_ok_at solver t eps tol die n ms cells ->
  optimize solver aeps t n ms cells = Some (ms', cells') ->
  Inv aeps die mods0 ms' cells' /\ GlbOK aeps tol die mods0 ms' cells'.
Proof.
  unfold optimize, sol_ok_at. intros I OK E. destruct (solver n ms cells) as [sol|]; [|discriminate].
  eapply extract_step; eauto.
Qed.

Theorem glb_loop_ok fuel : forall max_iter n ms cells ms' cells',
  Inv aeps die mods0 ms cells ->
  ((1 < n)%nat -> GlbOK aeps tol die mods0 ms cells) ->
  ((n <= 1)%nat -> max_iter <> Some 0%nat) -> (1 <= n)%nat ->
  sol_ok_along solver aeps t eps tol die fuel max_iter n ms cells ->
  glb_loop solver aeps t fuel max_iter n ms cells = Finished ms' cells' ->
  GlbOK aeps tol die mods0 ms' cells'.
Proof.
  induction fuel as [|f IH]; intros mi n ms cells ms' cells' I G NZ N1 A L; cbn [glb_loop sol_ok_along] in *.
  - discriminate.
  - destruct (match mi with None => true | Some k => (n <=? k)%nat end) eqn:Test.
    + destruct (1 <? n)%nat eqn:N.
      * apply Nat.ltb_lt in N.
        destruct (must_be_refined t cells).
        -- destruct (refine aeps t 1 cells) as [cells1|] eqn:R; [|discriminate].
           destruct A as [A1 A2].
           destruct (optimize solver aeps t n ms cells1) as [[ms2 cells2]|] eqn:O; [|discriminate].
           destruct (optimize_step n ms cells1 ms2 cells2 (refine_step _ _ _ I R) A1 O) as [I2 G2].
           eapply (IH mi (S n)); eauto; intros; try lia.
        -- injection L as <- <-. auto.
      * apply Nat.ltb_ge in N. destruct A as [A1 A2].
        destruct (optimize solver aeps t n ms cells) as [[ms2 cells2]|] eqn:O; [|discriminate].
        destruct (optimize_step n ms cells ms2 cells2 I A1 O) as [I2 G2].
        eapply (IH mi (S n)); eauto; intros; try lia.
    + injection L as <- <-. apply G.
      destruct mi as [k|]; [|discriminate]. apply Nat.leb_gt in Test.
      destruct (Nat.le_gt_cases n 1) as [Hle|Hgt]; [|exact Hgt].
      exfalso. apply (NZ Hle). f_equal. lia.
Qed.

(* the property, conditional on SolOK at every iteration, for every run that returns
   (any fuel: nothing is claimed about termination) after at least one optimisation *)
Theorem glb_partial_thm fuel max_iter ms cells ms' cells' :
  max_iter <> Some 0%nat ->
  Inv aeps die mods0 ms cells ->
  sol_ok_along solver aeps t eps tol die fuel max_iter 1 ms cells ->
  glbfloor solver aeps t fuel max_iter ms cells = Finished ms' cells' ->
  GlbOK aeps tol die mods0 ms' cells'.
Proof.
  intros NZ I A L. unfold glbfloor in L.
  eapply (glb_loop_ok fuel max_iter 1 ms cells); eauto; intros; try lia.
Qed.
End Step.

(* the invariant at the start of glbfloor (the initial allocation of the die) *)
Lemma Inv_initial aeps die ms cells :
  accepted aeps cells -> all_inside die (map crect cells) -> names_ok ms ->
  (forall m, In m ms -> mfixed m = true -> owns m cells) ->
  (forall m, In m ms -> mfixed m = true -> in_box die (mcenter m)) ->
  Inv aeps die ms ms cells.
Proof.
  intros. constructor; auto. clear. induction ms; constructor; auto using track_refl.
Qed.

(* the centre of a fixed module (area-weighted centre of its rectangles, computed by the
   netlist) lies in the die when its rectangles do *)
Lemma div_bounds (lo hi s a : Qc) : 0 < a -> lo * a <= s -> s <= hi * a -> lo <= s / a /\ s / a <= hi.
Proof.
  intros Ha H1 H2. assert (Na : a <> 0) by (intro Z; rewrite Z in Ha; clear - Ha; qlra).
  assert (E : s = (s / a) * a) by (field; exact Na).
  generalize dependent (s / a). intros q E. subst s. clear - Ha H1 H2. split; qnra.
Qed.
Theorem centroid_in_box die rs : rs <> [] ->
  Forall (fun r => wf r /\ is_inside r die = true) rs -> in_box die (centroid rs).
Proof.
  intros Hne F.
  assert (Fx : Forall (fun r => 0 < area r /\ xmin die <= cx r /\ cx r <= xmax die) rs).
  { eapply Forall_impl; [|exact F]. cbv beta. intros r [[W H] I]. apply is_inside_coords in I.
    destruct I as (I1 & I2 & I3 & I4). split; [apply mul_pos_pos; auto|]. unfold xmin, xmax in *. split; qlra. }
  assert (Fy : Forall (fun r => 0 < area r /\ ymin die <= cy r /\ cy r <= ymax die) rs).
  { eapply Forall_impl; [|exact F]. cbv beta. intros r [[W H] I]. apply is_inside_coords in I.
    destruct I as (I1 & I2 & I3 & I4). split; [apply mul_pos_pos; auto|]. unfold ymin, ymax in *. split; qlra. }
  assert (Pa : 0 < rects_area rs).
  { destruct rs as [|r rs]; [congruence|]. unfold rects_area. apply (Qcsum_pos _ (area r)).
    - apply Forall_forall. intros x Hx. apply in_map_iff in Hx. destruct Hx as (r' & <- & Hr').
      rewrite Forall_forall in Fx. destruct (Fx r' Hr') as [P _]. apply Qclt_le_weak. exact P.
    - left. reflexivity.
    - inversion Fx; tauto. }
  destruct (weighted_bounds _ _ _ cx Fx) as [X1 X2]. destruct (weighted_bounds _ _ _ cy Fy) as [Y1 Y2].
  unfold in_box, centroid. cbn [fst snd]. unfold rects_momx, rects_momy.
  destruct (div_bounds _ _ _ _ Pa X1 X2). destruct (div_bounds _ _ _ _ Pa Y1 Y2). tauto.
Qed.

(* with an iteration limit the loop needs at most max_iter + 1 passes: fuel is then no restriction
   (termination for max_iter = None is NOT proved) *)
Lemma glb_loop_bounded solver aeps t k : forall fuel n ms cells,
  (1 <= fuel)%nat -> (k + 2 <= fuel + n)%nat ->
  glb_loop solver aeps t fuel (Some k) n ms cells <> OutOfFuel.
Proof.
  induction fuel as [|f IH]; intros n ms cells H1 H2. lia.
  cbn [glb_loop]. destruct (n <=? k)%nat eqn:T; [|discriminate]. apply Nat.leb_le in T.
  assert (G : forall ms' cells', glb_loop solver aeps t f (Some k) (S n) ms' cells' <> OutOfFuel)
    by (intros; apply IH; lia).
  destruct (1 <? n)%nat.
  - destruct (must_be_refined t cells); [|discriminate].
    destruct (refine aeps t 1 cells); [|discriminate].
    destruct (optimize solver aeps t n ms l) as [[? ?]|]; [apply G|discriminate].
  - destruct (optimize solver aeps t n ms cells) as [[? ?]|]; [apply G|discriminate].
Qed.

(* ------------------------------------------------------------------ *)
(* statements in the form used by Properties/C10.v                     *)
(* ------------------------------------------------------------------ *)
Theorem extract_alloc_ok sol eps tol t aeps die mods cells0 :
  SolOK eps tol t die mods cells0 sol -> t <= 1 -> accepted aeps cells0 -> names_ok mods ->
  let rects := map crect cells0 in
  let out := extract_cells sol t mods rects in
  sublist (map crect out) rects /\
  (all_inside die rects -> all_inside die (map crect out)) /\
  (pairwise_no_ov rects -> pairwise_no_ov (map crect out)) /\
  no_ov_rects aeps (map crect out) /\
  ratios_in_unit out /\
  cell_sums_le (1 + tol) out /\
  (out <> [] -> accepted aeps out /\ extract_cells sol t mods rects = out /\
                mk_allocation aeps out = Some out).
Proof.
  intros OK Ht1 Acc Names rects out.
  destruct (extract_alloc_ok_sec sol eps tol t aeps die mods cells0 OK Ht1 Acc Names) as (SL & NO & RT & SM & _ & AC).
  fold rects in SL, NO, RT, SM, AC. fold out in SL, NO, RT, SM, AC.
  split; [exact SL|]. split; [intro H; eapply sublist_Forall; eauto|].
  split; [rewrite !pairwise_no_ov_is; apply pairwise_sublist; exact SL|].
  split; [apply no_overlap_iff; exact NO|]. split; [exact RT|]. split; [exact SM|].
  intro Hne. split; [auto|]. split; [reflexivity|]. apply AC. exact Hne.
Qed.

Theorem glb_partial eps tol t aeps die solver fuel max_iter ms cells ms' cells' :
  0 < t -> t <= 1 -> tol <= 1 - t ->
  max_iter <> Some 0%nat ->
  Inv aeps die ms ms cells ->
  sol_ok_along solver aeps t eps tol die fuel max_iter 1 ms cells ->
  glbfloor solver aeps t fuel max_iter ms cells = Finished ms' cells' ->
  GlbOK aeps tol die ms ms' cells'.
Proof. intros. eapply glb_partial_thm; eauto. Qed.
