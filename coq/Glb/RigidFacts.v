(* Facts about Module.recenter_rectangles and the flips of extract_solution (C10), part 2:
   movable hard modules are translated or mirrored, never reshaped. *)
From FrameModel Require Import Num.QcTac Geometry.Rect Alloc.Alloc Glb.Extract Glb.ExtractFacts.
Open Scope list_scope.
Open Scope Qc_scope.

(* everything but the centre is kept *)
Definition same_shape (r r' : Rect) : Prop :=
  rw r' = rw r /\ rh r' = rh r /\ fixed r' = fixed r /\ hard r' = hard r /\
  region r' = region r /\ rloc r' = rloc r.
Lemma same_shape_refl r : same_shape r r.
Proof. unfold same_shape. tauto. Qed.
Lemma same_shape_trans a b c : same_shape a b -> same_shape b c -> same_shape a c.
Proof. unfold same_shape. intuition congruence. Qed.
Lemma same_shape_set_center r x y : same_shape r (set_center r x y).
Proof. unfold same_shape, set_center. cbn. tauto. Qed.
Lemma same_shape_area r r' : same_shape r r' -> area r' = area r.
Proof. unfold same_shape, area. intros (-> & -> & _). reflexivity. Qed.

(* ---- sums over the rectangles ---- *)
Lemma rects_area_map f rs : (forall r, area (f r) = area r) -> rects_area (map f rs) = rects_area rs.
Proof.
  intro H. unfold rects_area. induction rs as [|r rs IH]; cbn [map Qcsum]. reflexivity.
  rewrite H. unfold rects_area in IH. rewrite IH. reflexivity.
Qed.
Lemma momx_translate dx dy rs :
  rects_momx (map (translate dx dy) rs) = rects_momx rs + dx * rects_area rs.
Proof.
  unfold rects_momx, rects_area. induction rs as [|r rs IH]; cbn [map Qcsum]. ring.
  rewrite IH. unfold translate, set_center, area. cbn. ring.
Qed.
Lemma momy_translate dx dy rs :
  rects_momy (map (translate dx dy) rs) = rects_momy rs + dy * rects_area rs.
Proof.
  unfold rects_momy, rects_area. induction rs as [|r rs IH]; cbn [map Qcsum]. ring.
  rewrite IH. unfold translate, set_center, area. cbn. ring.
Qed.
Lemma momx_mirror_x c rs :
  rects_momx (map (mirror_x c) rs) = (c + c) * rects_area rs - rects_momx rs.
Proof.
  unfold rects_momx, rects_area. induction rs as [|r rs IH]; cbn [map Qcsum]. ring.
  rewrite IH. unfold mirror_x, set_center, area. cbn. ring.
Qed.
Lemma momy_mirror_x c rs : rects_momy (map (mirror_x c) rs) = rects_momy rs.
Proof.
  unfold rects_momy. induction rs as [|r rs IH]; cbn [map Qcsum]. reflexivity.
  rewrite IH. unfold mirror_x, set_center, area. cbn. reflexivity.
Qed.
Lemma momy_mirror_y c rs :
  rects_momy (map (mirror_y c) rs) = (c + c) * rects_area rs - rects_momy rs.
Proof.
  unfold rects_momy, rects_area. induction rs as [|r rs IH]; cbn [map Qcsum]. ring.
  rewrite IH. unfold mirror_y, set_center, area. cbn. ring.
Qed.
Lemma momx_mirror_y c rs : rects_momx (map (mirror_y c) rs) = rects_momx rs.
Proof.
  unfold rects_momx. induction rs as [|r rs IH]; cbn [map Qcsum]. reflexivity.
  rewrite IH. unfold mirror_y, set_center, area. cbn. reflexivity.
Qed.
Lemma area_translate dx dy r : area (translate dx dy r) = area r.
Proof. reflexivity. Qed.
Lemma area_mirror_x c r : area (mirror_x c r) = area r.
Proof. reflexivity. Qed.
Lemma area_mirror_y c r : area (mirror_y c r) = area r.
Proof. reflexivity. Qed.

(* ------------------------------------------------------------------ *)
(* recenter_rigid                                                      *)
(* ------------------------------------------------------------------ *)
Theorem recenter_rigid_thm c rs rs' : recenter c rs = Some rs' ->
  exists dx dy,
    rs' = map (translate dx dy) rs /\
    (forall r, cx (translate dx dy r) = cx r + dx /\ cy (translate dx dy r) = cy r + dy /\
               same_shape r (translate dx dy r)) /\
    rects_area rs' = rects_area rs /\ rects_area rs <> 0 /\
    centroid rs' = c.
Proof.
  unfold recenter. destruct (Qceqb (rects_area rs) 0) eqn:E; [discriminate|]. qb2p.
  intro H. injection H as <-.
  exists (fst c - rects_momx rs / rects_area rs), (snd c - rects_momy rs / rects_area rs).
  split; [reflexivity|]. split.
  { intro r. split; [reflexivity|]. split; [reflexivity|]. apply same_shape_set_center. }
  split; [apply rects_area_map; intro; reflexivity|]. split; [exact E|].
  unfold centroid. rewrite momx_translate, momy_translate, rects_area_map by (intro; reflexivity).
  destruct c as [c1 c2]. cbn [fst snd]. f_equal; field; exact E.
Qed.

(* ------------------------------------------------------------------ *)
(* flip_mirror                                                         *)
(* ------------------------------------------------------------------ *)
Definition mirror_if_x (b : bool) (c : Qc) (r : Rect) : Rect := if b then mirror_x c r else r.
Definition mirror_if_y (b : bool) (c : Qc) (r : Rect) : Rect := if b then mirror_y c r else r.

Lemma map_id' {A} (l : list A) : map (fun x => x) l = l.
Proof. apply map_id. Qed.

Theorem flip_mirror_thm sol m c rs :
  exists bx by_ : bool,
    flip sol m c rs = map (fun r => mirror_if_y by_ (snd c) (mirror_if_x bx (fst c) r)) rs.
Proof.
  unfold flip.
  destruct (opposite (sx sol) cx m rs) eqn:Ex.
  - destruct (opposite (sy sol) cy m (map (mirror_x (fst c)) rs)) eqn:Ey.
    + exists true, true. rewrite map_map. reflexivity.
    + exists true, false. reflexivity.
  - destruct (opposite (sy sol) cy m rs) eqn:Ey.
    + exists false, true. reflexivity.
    + exists false, false. cbn. symmetry. apply map_id.
Qed.

(* what a mirror does: cx -> 2c - cx, the other coordinate and the shape are kept;
   offsets between any two rectangles are negated on that axis *)
Lemma mirror_x_spec c r :
  cx (mirror_x c r) = c + c - cx r /\ cy (mirror_x c r) = cy r /\ same_shape r (mirror_x c r).
Proof. split; [unfold mirror_x; cbn; ring|]. split; [reflexivity|apply same_shape_set_center]. Qed.
Lemma mirror_y_spec c r :
  cy (mirror_y c r) = c + c - cy r /\ cx (mirror_y c r) = cx r /\ same_shape r (mirror_y c r).
Proof. split; [unfold mirror_y; cbn; ring|]. split; [reflexivity|apply same_shape_set_center]. Qed.
Lemma mirror_x_offsets c r s : cx (mirror_x c r) - cx (mirror_x c s) = - (cx r - cx s).
Proof. unfold mirror_x. cbn. ring. Qed.
Lemma mirror_y_offsets c r s : cy (mirror_y c r) - cy (mirror_y c s) = - (cy r - cy s).
Proof. unfold mirror_y. cbn. ring. Qed.

(* mirroring about the centroid keeps the centroid: after the flips the module centre is
   still the area-weighted centre of the rectangles *)
Lemma centroid_mirror_x c rs : rects_area rs <> 0 -> centroid rs = c ->
  centroid (map (mirror_x (fst c)) rs) = c.
Proof.
  intros Ha <-. unfold centroid. cbn [fst snd].
  rewrite momx_mirror_x, momy_mirror_x, rects_area_map by (intro; reflexivity).
  f_equal. field. exact Ha.
Qed.
Lemma centroid_mirror_y c rs : rects_area rs <> 0 -> centroid rs = c ->
  centroid (map (mirror_y (snd c)) rs) = c.
Proof.
  intros Ha <-. unfold centroid. cbn [fst snd].
  rewrite momx_mirror_y, momy_mirror_y, rects_area_map by (intro; reflexivity).
  f_equal. field. exact Ha.
Qed.
Theorem flip_centroid sol m c rs : rects_area rs <> 0 -> centroid rs = c ->
  centroid (flip sol m c rs) = c /\ rects_area (flip sol m c rs) = rects_area rs.
Proof.
  intros Ha Hc. unfold flip.
  assert (A1 : rects_area (map (mirror_x (fst c)) rs) = rects_area rs) by (apply rects_area_map; intro; reflexivity).
  destruct (opposite (sx sol) cx m rs).
  - destruct (opposite (sy sol) cy m (map (mirror_x (fst c)) rs)).
    + split.
      * apply centroid_mirror_y. rewrite A1; auto. apply centroid_mirror_x; auto.
      * rewrite rects_area_map by (intro; reflexivity). exact A1.
    + split; auto. apply centroid_mirror_x; auto.
  - destruct (opposite (sy sol) cy m rs).
    + split. apply centroid_mirror_y; auto. apply rects_area_map; intro; reflexivity.
    + auto.
Qed.

(* ------------------------------------------------------------------ *)
(* rigid: translated or mirrored, never reshaped                       *)
(* ------------------------------------------------------------------ *)
Definition sign (s : Qc) : Prop := s = 1 \/ s = - (1).
Definition rigid (rs rs' : list Rect) : Prop :=
  exists sgx sgy dx dy, sign sgx /\ sign sgy /\
    Forall2 (fun r r' => same_shape r r' /\ cx r' = sgx * cx r + dx /\ cy r' = sgy * cy r + dy) rs rs'.

Lemma Forall2_map_r {A B} (R : A -> B -> Prop) (f : A -> B) l : (forall x, R x (f x)) -> Forall2 R l (map f l).
Proof. intro H. induction l; cbn; constructor; auto. Qed.
Lemma Forall2_trans' {A} (R S T : A -> A -> Prop) l1 l2 l3 :
  (forall a b c, R a b -> S b c -> T a c) -> Forall2 R l1 l2 -> Forall2 S l2 l3 -> Forall2 T l1 l3.
Proof.
  intro H. intro F. revert l3. induction F; intros l3 G; inversion G; subst; constructor; eauto.
Qed.

Lemma rigid_refl rs : rigid rs rs.
Proof.
  exists 1, 1, 0, 0. split; [left; reflexivity|]. split; [left; reflexivity|].
  induction rs; constructor; auto. split; [apply same_shape_refl|]. split; ring.
Qed.
Lemma sign_mul a b : sign a -> sign b -> sign (a * b).
Proof. unfold sign. intros [->| ->] [->| ->]; [left|right|right|left]; ring. Qed.
Lemma rigid_trans a b c : rigid a b -> rigid b c -> rigid a c.
Proof.
  intros (s1 & t1 & d1 & e1 & S1 & T1 & F1) (s2 & t2 & d2 & e2 & S2 & T2 & F2).
  exists (s2 * s1), (t2 * t1), (s2 * d1 + d2), (t2 * e1 + e2).
  split; [apply sign_mul; auto|]. split; [apply sign_mul; auto|].
  eapply Forall2_trans'; [|exact F1|exact F2]. cbv beta.
  intros x y z (Sa & X1 & Y1) (Sb & X2 & Y2). split; [eapply same_shape_trans; eauto|].
  rewrite X2, Y2, X1, Y1. split; ring.
Qed.
Lemma rigid_length a b : rigid a b -> List.length a = List.length b.
Proof. intros (? & ? & ? & ? & _ & _ & F). induction F; cbn; auto. Qed.
Lemma rigid_shapes a b : rigid a b -> Forall2 same_shape a b.
Proof.
  intros (? & ? & ? & ? & _ & _ & F). induction F; constructor; tauto.
Qed.

Lemma rigid_translate dx dy rs : rigid rs (map (translate dx dy) rs).
Proof.
  exists 1, 1, dx, dy. split; [left; reflexivity|]. split; [left; reflexivity|].
  apply Forall2_map_r. intro r. unfold translate. cbn. split; [apply same_shape_set_center|]. split; ring.
Qed.
Lemma rigid_mirror_x c rs : rigid rs (map (mirror_x c) rs).
Proof.
  exists (- (1)), 1, (c + c), 0. split; [right; reflexivity|]. split; [left; reflexivity|].
  apply Forall2_map_r. intro r. unfold mirror_x. cbn. split; [apply same_shape_set_center|]. split; ring.
Qed.
Lemma rigid_mirror_y c rs : rigid rs (map (mirror_y c) rs).
Proof.
  exists 1, (- (1)), 0, (c + c). split; [left; reflexivity|]. split; [right; reflexivity|].
  apply Forall2_map_r. intro r. unfold mirror_y. cbn. split; [apply same_shape_set_center|]. split; ring.
Qed.
Lemma rigid_flip sol m c rs : rigid rs (flip sol m c rs).
Proof.
  unfold flip. destruct (opposite (sx sol) cx m rs).
  - destruct (opposite (sy sol) cy m (map (mirror_x (fst c)) rs)).
    + eapply rigid_trans; [apply rigid_mirror_x|apply rigid_mirror_y].
    + apply rigid_mirror_x.
  - destruct (opposite (sy sol) cy m rs); [apply rigid_mirror_y|apply rigid_refl].
Qed.
Lemma rigid_recenter c rs rs' : recenter c rs = Some rs' -> rigid rs rs'.
Proof.
  intro H. apply recenter_rigid_thm in H. destruct H as (dx & dy & -> & _). apply rigid_translate.
Qed.

(* extract_solution on one module: soft and fixed modules keep their rectangles,
   movable hard modules are moved rigidly and their centroid is the new centre *)
Theorem extract_module_rigid sol m m' : extract_module sol m = Some m' ->
  (mhard m && negb (mfixed m) = false -> mrects m' = mrects m) /\
  (mhard m && negb (mfixed m) = true ->
     rigid (mrects m) (mrects m') /\ centroid (mrects m') = mcenter m' /\ rects_area (mrects m') <> 0).
Proof.
  unfold extract_module. destruct (mhard m && negb (mfixed m)) eqn:E.
  - destruct (recenter _ (mrects m)) as [rs|] eqn:R; [|discriminate].
    intro H. injection H as <-. cbn [mrects mcenter]. split; [discriminate|]. intros _.
    pose proof (rigid_recenter _ _ _ R) as Rg.
    apply recenter_rigid_thm in R. destruct R as (dx & dy & Ers & _ & Ar & Ane & Cen).
    assert (Ane' : rects_area rs <> 0) by (rewrite Ar; exact Ane).
    destruct (mflip m && (1 <? List.length rs)%nat).
    + destruct (flip_centroid sol (mname m) _ rs Ane' Cen) as [C A].
      split; [eapply rigid_trans; [exact Rg|apply rigid_flip]|]. split; [exact C|]. rewrite A. exact Ane'.
    + auto.
  - intro H. injection H as <-. cbn [mrects]. split; auto. discriminate.
Qed.

(* the area-weighted centre of rectangles whose centres lie in a box lies in the box
   (used for the centres of fixed modules, which the solver does not touch) *)
Lemma weighted_bounds (lo hi : Qc) (rs : list Rect) (coord : Rect -> Qc) :
  Forall (fun r => 0 < area r /\ lo <= coord r /\ coord r <= hi) rs ->
  lo * rects_area rs <= Qcsum (map (fun r => coord r * area r) rs) /\
  Qcsum (map (fun r => coord r * area r) rs) <= hi * rects_area rs.
Proof.
  unfold rects_area. induction 1 as [|r rs (Ha & Hl & Hh) F IH]; cbn [map Qcsum]. split; qlra.
  destruct IH as [I1 I2].
  generalize dependent (Qcsum (map (fun r0 => coord r0 * area r0) rs)).
  generalize dependent (Qcsum (map area rs)). generalize dependent (coord r). generalize dependent (area r).
  intros. split; qnra.
Qed.
