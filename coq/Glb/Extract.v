(* Model of the logical shell of tools/glbfloor/optimization.py (C10):
     extract_solution, get_a, get_neighbouring_cells, the rule that decides which
     model.a[m][c] entries are constants, the "fake" one-rectangle modules of the
     movable hard modules, the refine/optimise loop of glbfloor;
   and of Module.recenter_rectangles (frame/netlist/module.py).
   Definitions only; the facts are in ExtractFacts.v.

   What is NOT logic and is therefore not modelled: the values GEKKO/IPOPT
   returns.  They are a value [sol : Sol] (per optimisation: [solver : ... -> Sol])
   about which the theorems assume the stated contract [SolOK] - a hypothesis of
   the theorems, never an axiom.  The harness monitors [SolOK] on real runs. *)
From FrameModel Require Import Num.QcTac Geometry.Rect Alloc.Alloc.
From Coq Require Import DecimalString.
Open Scope list_scope.
Open Scope Qc_scope.

(* ---- modules of the netlist, as far as glbfloor reads / writes them ---- *)
Record module := mkModule {
  mname : string; mhard : bool; mfixed : bool; mflip : bool;
  mcenter : Qc * Qc; mrects : list Rect }.

(* what a solved GEKKO model hands to extract_solution through get_value:
   model.a[m][c], model.x[m], model.y[m]   (keys are strings, as in the code) *)
Record Sol := mkSol { sa : string -> nat -> Qc; sx : string -> Qc; sy : string -> Qc }.

(* f"{m}_{r}" *)
Definition fake (m : string) (r : nat) : string :=
  (m ++ "_" ++ NilEmpty.string_of_uint (Nat.to_uint r))%string.

Fixpoint indexed_from {A} (i : nat) (l : list A) : list (nat * A) :=
  match l with [] => [] | x :: r => (i, x) :: indexed_from (S i) r end.

Fixpoint map_opt {A B} (f : A -> option B) (l : list A) : option (list B) :=
  match l with
  | [] => Some []
  | x :: r => match f x, map_opt f r with Some y, Some ys => Some (y :: ys) | _, _ => None end
  end.

(* ---- Module.recenter_rectangles and the flips ---- *)
Definition set_center (r : Rect) (x y : Qc) : Rect :=
  mkRect x y (rw r) (rh r) (fixed r) (hard r) (region r) (rloc r).
Definition translate (dx dy : Qc) (r : Rect) : Rect := set_center r (cx r + dx) (cy r + dy).
Definition rects_area (rs : list Rect) : Qc := Qcsum (map area rs).
Definition rects_momx (rs : list Rect) : Qc := Qcsum (map (fun r => cx r * area r) rs).
Definition rects_momy (rs : list Rect) : Qc := Qcsum (map (fun r => cy r * area r) rs).
Definition centroid (rs : list Rect) : Qc * Qc :=
  (rects_momx rs / rects_area rs, rects_momy rs / rects_area rs).

(* None = ZeroDivisionError (no rectangles) *)
Definition recenter (c : Qc * Qc) (rs : list Rect) : option (list Rect) :=
  let a := rects_area rs in
  if Qceqb a 0 then None else
  let inc_x := fst c - rects_momx rs / a in
  let inc_y := snd c - rects_momy rs / a in
  Some (map (translate inc_x inc_y) rs).

(* rectangle.center.x = module.center.x - (rectangle.center.x - module.center.x) *)
Definition mirror_x (c : Qc) (r : Rect) : Rect := set_center r (c - (cx r - c)) (cy r).
Definition mirror_y (c : Qc) (r : Rect) : Rect := set_center r (cx r) (c - (cy r - c)).

(* all((v[m_0] - v[m_r]) * (rect[0].coord - rect[r].coord) < 0 for r in 1 .. n-1) *)
Definition opposite (sv : string -> Qc) (coord : Rect -> Qc) (m : string) (rs : list Rect) : bool :=
  match rs with
  | [] => true
  | r0 :: rest =>
      forallb (fun p => Qcltb ((sv (fake m 0) - sv (fake m (fst p))) * (coord r0 - coord (snd p))) 0)
              (indexed_from 1 rest)
  end.

(* the two flip tests of extract_solution, applied to the recentred rectangles *)
Definition flip (sol : Sol) (m : string) (c : Qc * Qc) (rs : list Rect) : list Rect :=
  let rs1 := if opposite (sx sol) cx m rs then map (mirror_x (fst c)) rs else rs in
  if opposite (sy sol) cy m rs1 then map (mirror_y (snd c)) rs1 else rs1.

(* ---- extract_solution ---- *)
Section Extract.
Variable sol : Sol.

(* the dict built for cell c: modules in netlist order, kept iff a > 1 - threshold *)
Definition cell_alloc (t : Qc) (mods : list module) (c : nat) : alloc :=
  flat_map (fun m => let v := sa sol (mname m) c in
                     if Qcltb (1 - t) v then [(mname m, v)] else []) mods.

(* allocation_list: empty cells dropped, depth 0 *)
Definition extract_cells (t : Qc) (mods : list module) (rects : list Rect) : list cell :=
  flat_map (fun p => let al := cell_alloc t mods (fst p) in
                     if is_empty al then [] else [mkCell (snd p) al 0%nat])
           (indexed_from 0 rects).

(* the per-module part: centre update, recenter + flips of movable hard modules *)
Definition extract_module (m : module) : option module :=
  let c := (sx sol (mname m), sy sol (mname m)) in
  if mhard m && negb (mfixed m) then
    match recenter c (mrects m) with
    | None => None
    | Some rs =>
        let rs' := if mflip m && (1 <? List.length rs)%nat then flip sol (mname m) c rs else rs in
        Some (mkModule (mname m) (mhard m) (mfixed m) (mflip m) c rs')
    end
  else Some (mkModule (mname m) (mhard m) (mfixed m) (mflip m) c (mrects m)).

(* None = an exception escapes (the Allocation constructor rejects, division by zero) *)
Definition extract (aeps t : Qc) (mods : list module) (rects : list Rect)
  : option (list module * list cell) :=
  match mk_allocation aeps (extract_cells t mods rects) with
  | None => None
  | Some cells =>
      match map_opt extract_module mods with
      | None => None
      | Some ms => Some (ms, cells)
      end
  end.
End Extract.

(* ---- get_a, neighbours, and which model.a entries are constants ---- *)
Definition get_a (cells : list cell) (m : module) (c : nat) : Qc :=
  match nth_error cells c with
  | None => 0
  | Some cl =>
      match lookup (mname m) (calloc cl) with
      | Some v => v
      | None =>
          match mrects m with
          | [r] => area_overlap (crect cl) r / area (crect cl)
          | _ => 0
          end
      end
  end.

Definition neighbours (eps : Qc) (cells : list cell) (c : nat) : list nat :=
  match nth_error cells c with
  | None => []
  | Some cl =>
      flat_map (fun p => if negb (Nat.eqb (fst p) c) && touches eps (crect cl) (crect (snd p))
                         then [fst p] else [])
               (indexed_from 0 cells)
  end.

(* Some v: the entry is the Python float v;  None: it is a GEKKO variable in [0,1] *)
Definition model_a_with (nb : list nat) (t : Qc) (cells : list cell) (m : module) (c : nat) : option Qc :=
  let a := get_a cells m c in
  if mfixed m
     || (Qcltb t a && forallb (fun d => Qcltb t (get_a cells m d)) nb)
     || (Qcltb a (1 - t) && forallb (fun d => Qcltb (get_a cells m d) (1 - t)) nb)
  then Some a else None.
Definition model_a (eps t : Qc) (cells : list cell) (m : module) (c : nat) : option Qc :=
  model_a_with (neighbours eps cells c) t cells m c.
(* the neighbours of every cell, tabulated (used by the comparators; SystemFacts.model_a_tab) *)
Definition nb_table (eps : Qc) (cells : list cell) : list (list nat) :=
  map (fun ic => neighbours eps cells (fst ic)) (indexed_from 0 cells).

(* Module(f"{m}_{r}", hard=True) with the r-th rectangle; centre = that rectangle's centre *)
Definition fake_modules (m : module) : list module :=
  map (fun p => mkModule (fake (mname m) (fst p)) true false false (cx (snd p), cy (snd p)) [snd p])
      (indexed_from 0 (mrects m)).
(* the list `modules` of optimize_allocation: soft and fixed modules themselves,
   movable hard modules replaced by their fake modules; the rule above is applied to these.
   model.a[m] of a movable hard module m itself is always a variable. *)
Definition problem_modules (mods : list module) : list module :=
  flat_map (fun m => if negb (mhard m) || mfixed m then [m] else fake_modules m) mods.

(* ---- the contract of the solver ---- *)
Definition in_box (d : Rect) (p : Qc * Qc) : Prop :=
  xmin d <= fst p /\ fst p <= xmax d /\ ymin d <= snd p /\ snd p <= ymax d.

Record SolOK (eps tol t : Qc) (die : Rect) (mods : list module) (cells : list cell) (sol : Sol) : Prop := {
  (* variables a have lb = 0, ub = 1; constants are ratios *)
  sol_a_range : forall m c, In m mods -> (c < List.length cells)%nat ->
      0 <= sa sol (mname m) c /\ sa sol (mname m) c <= 1;
  (* centre variables have lb/ub = the die's bounding box *)
  sol_box : forall m, In m mods -> mfixed m = false ->
      in_box die (sx sol (mname m), sy sol (mname m));
  (* g.Equation(sum_m a[m][c] <= 1), up to the solver's constraint tolerance *)
  sol_sum : forall c, (c < List.length cells)%nat ->
      Qcsum (map (fun m => sa sol (mname m) c) mods) <= 1 + tol;
  (* entries the code fixed are returned unchanged *)
  sol_fixed_xy : forall m, In m mods -> mfixed m = true ->
      sx sol (mname m) = fst (mcenter m) /\ sy sol (mname m) = snd (mcenter m);
  sol_const : forall m c v, In m (problem_modules mods) -> (c < List.length cells)%nat ->
      model_a eps t cells m c = Some v -> sa sol (mname m) c = v
}.

(* ---- the loop of glbfloor ---- *)
Inductive outcome := Finished (ms : list module) (cells : list cell) | Raised | OutOfFuel.

Section Loop.
(* one solver answer per optimisation problem (iteration number, modules, cells);
   None = GEKKO raises ("Solution Not Found" ...) *)
Variable solver : nat -> list module -> list cell -> option Sol.
Variables aeps t : Qc.

(* optimize_allocation = build the model, solve, extract_solution *)
Definition optimize (n : nat) (ms : list module) (cells : list cell) : option (list module * list cell) :=
  match solver n ms cells with
  | None => None
  | Some sol => extract sol aeps t ms (map crect cells)
  end.

(* while max_iter is None or n_iter <= max_iter:
     if n_iter > 1: if must_be_refined: refine else: break
     optimize; n_iter += 1
   [fuel] bounds the number of passes the model follows; OutOfFuel = "has not returned yet". *)
Fixpoint glb_loop (fuel : nat) (max_iter : option nat) (n_iter : nat)
                  (ms : list module) (cells : list cell) : outcome :=
  match fuel with
  | O => OutOfFuel
  | S f =>
      if match max_iter with None => true | Some k => (n_iter <=? k)%nat end then
        if (1 <? n_iter)%nat then
          if must_be_refined t cells then
            match refine aeps t 1 cells with
            | None => Raised
            | Some cells1 =>
                match optimize n_iter ms cells1 with
                | None => Raised
                | Some (ms', cells') => glb_loop f max_iter (S n_iter) ms' cells'
                end
            end
          else Finished ms cells
        else
          match optimize n_iter ms cells with
          | None => Raised
          | Some (ms', cells') => glb_loop f max_iter (S n_iter) ms' cells'
          end
      else Finished ms cells
  end.

(* glbfloor after create_initial_allocation: n_iter starts at 1 *)
Definition glbfloor (fuel : nat) (max_iter : option nat) (ms : list module) (cells : list cell) : outcome :=
  glb_loop fuel max_iter 1 ms cells.

(* "the solver contract holds at every optimisation of this run": follows the same recursion *)
Section Along.
Variables (eps tol : Qc) (die : Rect).
Definition sol_ok_at (n : nat) (ms : list module) (cells : list cell) : Prop :=
  forall sol, solver n ms cells = Some sol -> SolOK eps tol t die ms cells sol.
Fixpoint sol_ok_along (fuel : nat) (max_iter : option nat) (n_iter : nat)
                      (ms : list module) (cells : list cell) : Prop :=
  match fuel with
  | O => True
  | S f =>
      if match max_iter with None => true | Some k => (n_iter <=? k)%nat end then
        if (1 <? n_iter)%nat then
          if must_be_refined t cells then
            match refine aeps t 1 cells with
            | None => True
            | Some cells1 =>
                sol_ok_at n_iter ms cells1 /\
                match optimize n_iter ms cells1 with
                | None => True
                | Some (ms', cells') => sol_ok_along f max_iter (S n_iter) ms' cells'
                end
            end
          else True
        else
          sol_ok_at n_iter ms cells /\
          match optimize n_iter ms cells with
          | None => True
          | Some (ms', cells') => sol_ok_along f max_iter (S n_iter) ms' cells'
          end
      else True
  end.
End Along.
End Loop.
