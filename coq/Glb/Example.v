(* Non-vacuity of the C10 theorems: a concrete instance (die 4 x 2; a fixed module owning a cell,
   a soft module, a flippable two-rectangle hard module; a concrete solver answer) on which every
   hypothesis of the theorems holds and the loop returns. *)
From FrameModel Require Import Num.QcTac Geometry.Rect Alloc.Alloc Glb.Extract Glb.ExtractFacts
  Glb.RigidFacts Glb.LoopFacts Cases.Cmp Cases.CmpAlloc Cases.CmpC10.
Open Scope list_scope.
Open Scope Qc_scope.
Open Scope string_scope.

Module C10Example.
Definition die : Rect := mkRect (qc 2 1) (qc 1 1) (qc 4 1) (qc 2 1) false false "_" NOPOLY.
Definition rF : Rect := mkRect (qc 1 1) (qc 1 1) (qc 2 1) (qc 2 1) true true "_" TRUNK.
Definition rC : Rect := mkRect (qc 3 1) (qc 1 1) (qc 2 1) (qc 2 1) false false "_" NOPOLY.
Definition rS : Rect := mkRect (qc 3 1) (qc 1 1) (qc 1 1) (qc 1 1) false false "_" NOPOLY.
Definition rH0 : Rect := mkRect (qc 3 1) (qc 3 2) (qc 1 1) (qc 1 1) false true "_" TRUNK.
Definition rH1 : Rect := mkRect (qc 15 4) (qc 3 2) (qc 1 2) (qc 1 1) false true "_" EAST.

Definition mF := mkModule "F" true true false (qc 1 1, qc 1 1) [rF].
Definition mS := mkModule "S" false false false (qc 3 1, qc 1 1) [rS].
Definition mH := mkModule "H" true false true (qc 13 4, qc 3 2) [rH0; rH1].
Definition mods := [mF; mS; mH].
Definition cells := [mkCell rF [("F", 1)] 0; mkCell rC [("S", qc 1 2)] 0].

Definition tbl (l : list (string * list Qc)) (m : string) (c : nat) : Qc :=
  match find (fun p => String.eqb (fst p) m) l with Some p => nth c (snd p) 0 | None => 0 end.
Definition tbl1 (l : list (string * Qc)) (m : string) : Qc :=
  match find (fun p => String.eqb (fst p) m) l with Some p => snd p | None => 0 end.
(* the fake module H_1 is placed on the other side of H_0: the x flip fires *)
Definition sol : Sol := mkSol
  (tbl [("F", [1; 0]); ("S", [0; qc 1 2]); ("H", [0; qc 3 8]); ("H_0", [0; qc 1 4]); ("H_1", [0; qc 1 8])])
  (tbl1 [("F", qc 1 1); ("S", qc 3 1); ("H", qc 3 1); ("H_0", qc 13 4); ("H_1", qc 5 2)])
  (tbl1 [("F", qc 1 1); ("S", qc 1 1); ("H", qc 1 1); ("H_0", qc 1 1); ("H_1", qc 1 1)]).
Definition t : Qc := qc 3 4.
Definition tol : Qc := 0.
Definition eps : Qc := 0.
Definition aeps : Qc := 0.

Ltac qdec := first [apply Qcleb_true; vm_compute; reflexivity | apply Qcltb_true; vm_compute; reflexivity
                   | apply Qceqb_true; vm_compute; reflexivity].
Ltac in_mods H := cbn [In mods] in H; repeat (destruct H as [<-|H]; [|]); try destruct H.

Lemma sol_ok : SolOK eps tol t die mods cells sol.
Proof.
  constructor.
  - intros m c Hm Hc. cbn [List.length cells] in Hc.
    destruct c as [|[|c]]; [| |lia]; in_mods Hm; split; qdec.
  - intros m Hm Hf. in_mods Hm; try discriminate Hf; unfold in_box; cbn [fst snd]; repeat split; qdec.
  - intros c Hc. cbn [List.length cells] in Hc. destruct c as [|[|c]]; [| |lia]; qdec.
  - intros m Hm Hf. in_mods Hm; try discriminate Hf. split; qdec.
  - intros m c v Hm Hc Hv. cbn [List.length cells] in Hc.
    assert (PM : problem_modules mods = ([mF; mS] ++ fake_modules mH)%list) by reflexivity.
    rewrite PM in Hm. cbn [app fake_modules mH mrects indexed_from map In fst snd mname] in Hm.
    destruct c as [|[|c]]; [| |lia];
      repeat (destruct Hm as [<-|Hm]; [vm_compute in Hv; try discriminate Hv; injection Hv as <-; qdec|]);
      destruct Hm.
Qed.

Lemma inv0 : Inv aeps die mods mods cells.
Proof.
  apply Inv_initial.
  - vm_compute. reflexivity.
  - repeat constructor.
  - split.
    + cbn. repeat constructor; cbn; intuition discriminate.
    + repeat constructor.
  - intros m Hm Hf. in_mods Hm; try discriminate Hf.
    unfold owns. cbn [mrects mF]. constructor; [|constructor]. split; [reflexivity|].
    exists (mkCell rF [("F", 1)] 0). split; [left; reflexivity|]. split; reflexivity.
  - intros m Hm Hf. in_mods Hm; try discriminate Hf. unfold in_box; cbn [fst snd mcenter mF]. repeat split; qdec.
Qed.

Definition solver (n : nat) (ms : list module) (cs : list cell) : option Sol :=
  if Nat.eqb n 1 then Some sol else None.

(* the model of extract_solution on this instance: the fixed cell is returned with {F: 1}, the
   other cell with {S: 1/2, H: 3/8}; H is recentred at (3,1) and mirrored in x *)
Example extract_runs :
  extract_cmp [true; true; true] 0 0 (extract sol aeps t mods (map crect cells))
  (Some ([mF; mkModule "S" false false false (qc 3 1, qc 1 1) [rS];
          mkModule "H" true false true (qc 3 1, qc 1 1)
            [set_center rH0 (qc 13 4) (qc 1 1); set_center rH1 (qc 5 2) (qc 1 1)]],
         [mkCell rF [("F", 1)] 0; mkCell rC [("S", qc 1 2); ("H", qc 3 8)] 0])) = true.
Proof. vm_compute. reflexivity. Qed.

Example loop_returns : exists ms' cells',
  glbfloor solver aeps t 2 (Some 1%nat) mods cells = Finished ms' cells'.
Proof. eexists. eexists. vm_compute. reflexivity. Qed.

Example sol_ok_along_holds : sol_ok_along solver aeps t eps tol die 2 (Some 1%nat) 1 mods cells.
Proof.
  cbn [sol_ok_along Nat.leb Nat.ltb]. split.
  - intros s Hs. injection Hs as <-. apply sol_ok.
  - destruct (optimize solver aeps t 1 mods cells) as [[? ?]|]; exact I.
Qed.

(* so the hypotheses of glb_partial are jointly satisfiable, and its conclusion holds here *)
Example glb_partial_applies : exists ms' cells',
  glbfloor solver aeps t 2 (Some 1%nat) mods cells = Finished ms' cells' /\
  GlbOK aeps tol die mods ms' cells'.
Proof.
  destruct loop_returns as (ms' & cells' & L). exists ms', cells'. split; [exact L|].
  apply (glb_partial_thm eps tol t aeps die mods) with (solver := solver) (fuel := 2%nat)
        (max_iter := Some 1%nat) (ms := mods) (cells := cells); auto.
  - qdec.
  - qdec.
  - qdec.
  - discriminate.
  - apply inv0.
  - apply sol_ok_along_holds.
Qed.
(* without the solver contract the property is false of the model: a "solver" that fills the
   free cell to 180% is extracted faithfully (the Allocation constructor no longer checks the total) *)
Definition sol_bad : Sol := mkSol
  (tbl [("F", [1; 0]); ("S", [0; qc 9 10]); ("H", [0; qc 9 10]); ("H_0", [0; qc 1 4]); ("H_1", [0; qc 1 8])])
  (sx sol) (sy sol).
Definition solver_bad (n : nat) (ms : list module) (cs : list cell) : option Sol :=
  if Nat.eqb n 1 then Some sol_bad else None.
Example bad_loop_returns : exists ms' cells',
  glbfloor solver_bad aeps t 2 (Some 1%nat) mods cells = Finished ms' cells' /\
  exists c, In c cells' /\ 1 + tol < Qcsum (map snd (calloc c)).
Proof.
  eexists. eexists. split. vm_compute. reflexivity.
  eexists. split. right. left. reflexivity. apply Qcltb_true. vm_compute. reflexivity.
Qed.
Theorem unconditional_statement_refuted :
  ~ (forall tol t aeps die solver fuel max_iter ms cells ms' cells',
       0 < t -> t <= 1 -> tol <= 1 - t -> max_iter <> Some 0%nat ->
       Inv aeps die ms ms cells ->
       glbfloor solver aeps t fuel max_iter ms cells = Finished ms' cells' ->
       GlbOK aeps tol die ms ms' cells').
Proof.
  intro H. destruct bad_loop_returns as (ms' & cells' & L & c & Hc & Bad).
  assert (G : GlbOK aeps tol die mods ms' cells').
  { apply (H tol t aeps die solver_bad 2%nat (Some 1%nat) mods cells ms' cells'); try qdec; auto.
    discriminate. apply inv0. }
  destruct G as [_ _ _ Sums _ _ _]. unfold cell_sums_le in Sums. rewrite Forall_forall in Sums.
  specialize (Sums c Hc). apply (Qclt_not_le _ _ Bad). exact Sums.
Qed.
End C10Example.
