(* C20 model: the process-wide state of FRAME made explicit.

   State anchored in the code:
   - Rectangle._distance_epsilon / _area_epsilon (frame/geometry/geometry.py:184-265): undefined (-1) or a pair;
     written by Rectangle.set_epsilon(d) = (d, sqrt d), called under the guard
     `if not Rectangle.epsilon_defined()` by Netlist._create_rectangles (smallest distance * 1e-12),
     Die.__init__ (min(width, height) * 10e-12) and Allocation.__init__ (1e-12 * min side of the bounding
     box): the FIRST design loaded in a process decides, and its tolerance is relative to ITS size;
   - pseudobool.memory / mmap (tools/rect/pseudobool.py:387-433): the store of decision-diagram nodes, only
     ever appended to by constructrobdd;
   - expression_tree.epsilon / named_variables / debug_print (tools/legalfloor/expression_tree.py:10-43):
     Model.define_time overwrites epsilon before anything reads it; named_variables is never written;
     debug_print is written only by turn_on_flag/turn_off_flag (main), never by Model construction;
   - the objects created once, when the `def` is evaluated, for the default arguments
     Ineq.__init__(lhs=Expr(), rhs=Expr()) (tools/rect/pseudobool.py:257) and
     Strop.__init__(height=list(), width=list()) (tools/floorset_parser/floor_set_manager/strop.py:108-109):
     every call that omits the argument reads the SAME object; the code only reads them (lhs - rhs builds a new
     expression, height[:] copies), so they keep their import-time value - the invariant [dflt_pristine].
   Not state of the library (audited with tools/stateaudit.py, see DESIGN): Die, Netlist, Allocation, read_yaml,
   create_stog and SATManager keep no class- or module-level table; their models are functions of their arguments
   and of the fields above only, which is exactly the claim a memo table keyed too coarsely would break.

   Every library operation is  op : gstate -> input -> gstate * output , a wrapper around the existing models
   (Yaml/NetlistRead.v, Die/DieModel.v, Alloc/Alloc.v, PB/Sat.v) that reads its tolerances / store from the state
   and writes them back.  math.sqrt is the Section variable [sqrt_o]; the legaliser's builder is the Section
   variable [leg_build] (a function of its arguments only: that is the claim, checked against the code by the
   harness).  Netlist._create_rectangles is modelled after fixes/C20-infinite-epsilon.diff: a netlist without any
   dimension (terminals only) leaves the tolerances undefined instead of installing math.inf.
   Definitions only; facts in StateFacts.v. *)
From Coq Require Import ZArith List Bool String.
From FrameModel Require Import Num.QcTac Geometry.Rect Stog.CreateStog PB.Expr PB.Cnf PB.Amo PB.Robdd PB.Codify PB.Sat.
From FrameModel Require Alloc.Alloc Die.Boundaries Die.Cells Die.Cover Die.DieModel Yaml.Tree Yaml.NetlistRead.
From FrameModel Require Strop.Strop.
Import ListNotations.
Open Scope Qc_scope.

Module AL := FrameModel.Alloc.Alloc.
Module DB := FrameModel.Die.Boundaries.
Module DM := FrameModel.Die.DieModel.
Module YT := FrameModel.Yaml.Tree.
Module NR := FrameModel.Yaml.NetlistRead.
Module SP := FrameModel.Strop.Strop.

(* ------------------------------------------------------------------ *)
(* the state                                                           *)
(* ------------------------------------------------------------------ *)
Record leg_state := mkLeg {
  leg_eps : option (Qc * Qc * Qc);     (* expression_tree.epsilon = decay ** time * temperature_ini *)
  named_vars : list string;            (* expression_tree.named_variables: never written *)
  debug_mask : Z }.                    (* expression_tree.debug_print *)

(* the objects bound to default arguments at definition time *)
Record dflt_state := mkD {
  d_ineq_lhs : expr;                   (* Ineq.__init__: lhs = Expr() *)
  d_ineq_rhs : expr;                   (* Ineq.__init__: rhs = Expr() *)
  d_strop_h : list Qc;                 (* Strop.__init__: height = list() *)
  d_strop_w : list Qc }.               (* Strop.__init__: width = list() *)
Definition dflt_init : dflt_state := mkD zero zero [] [].

Record gstate := mkG {
  g_eps : option (Qc * Qc);            (* None = undefined; Some (distance epsilon, area epsilon) *)
  g_mem : memory;                      (* pseudobool.memory[2:] (mmap agrees with it) *)
  g_leg : leg_state;
  g_dflt : dflt_state }.

(* the state of a fresh interpreter after importing the modules *)
Definition s_init : gstate := mkG None [] (mkLeg None [] 255) dflt_init.

Definition with_eps (s : gstate) (e : option (Qc * Qc)) : gstate := mkG e (g_mem s) (g_leg s) (g_dflt s).
Definition with_mem (s : gstate) (m : memory) : gstate := mkG (g_eps s) m (g_leg s) (g_dflt s).
Definition with_leg (s : gstate) (l : leg_state) : gstate := mkG (g_eps s) (g_mem s) l (g_dflt s).

(* ---- objects built from default arguments (no Section variable needed) ---- *)
(* one step of a caller: Ineq(lhs?, rhs?, op) observed; Expr() observed (and then changed by the caller);
   Ineq() whose expression the caller then changes in place (q.lhs.c = 5; q.lhs = q.lhs + Literal) *)
Inductive dstep :=
| DIneq (l r : option tree) (op : cmp)
| DExpr
| DUse.
Inductive dout := DOIneq (i : ineq) | DOExpr (e : expr).
Definition arg_or (o : option tree) (dflt : expr) : expr := match o with Some t => build t | None => dflt end.
(* Ineq.__init__: self.lhs = lhs - rhs is a NEW expression; self.lhs.c = 0 changes that new object only; the
   caller's later changes (DUse, DExpr) reach objects created by the call, never the two default objects *)
Definition dstep_run (d : dflt_state) (st : dstep) : dflt_state * list dout :=
  match st with
  | DIneq l r op => (d, [DOIneq (mk_ineq (arg_or l (d_ineq_lhs d)) (arg_or r (d_ineq_rhs d)) op)])
  | DExpr => (d, [DOExpr zero])
  | DUse => (d, [])
  end.
Fixpoint dsteps_run (d : dflt_state) (l : list dstep) : dflt_state * list dout :=
  match l with
  | [] => (d, [])
  | st :: r => let (d1, o1) := dstep_run d st in let (d2, o2) := dsteps_run d1 r in (d2, o1 ++ o2)
  end.

(* Strop(matrix, height?, width?): `assert len(height) == 0 or len(height) == nrows`,
   `self._height = height[:] if len(height) > 0 else [1] * nrows` (a copy: the default list is never written) *)
Definition strop_sizes (given : option (list Qc)) (dflt : list Qc) (n : nat) : option (list Qc) :=
  let h := match given with Some l => l | None => dflt end in
  match h with
  | [] => Some (repeat 1 n)
  | _ => if Nat.eqb (List.length h) n then Some h else None
  end.
Definition strop_out := option (list SP.Inst * bool * list Qc * list Qc).
Definition strop_run (d : dflt_state) (M : SP.BoolMatrix) (h w : option (list Qc)) : strop_out :=
  match SP.strop M with
  | None => None
  | Some insts =>
      match strop_sizes h (d_strop_h d) (SP.nrows M), strop_sizes w (d_strop_w d) (SP.ncols M) with
      | Some hh, Some ww => Some (insts, SP.is_strop M, hh, ww)
      | _, _ => None
      end
  end.

Definition tiny : Qc := qc 1 1000000000000.          (* 1e-12 *)
Definition die_tiny : Qc := qc 1 100000000000.       (* 10e-12 *)

Fixpoint Qcminl (d : Qc) (l : list Qc) : Qc := match l with [] => d | x :: r => Qcmin x (Qcminl d r) end.
Fixpoint Qcmaxl (d : Qc) (l : list Qc) : Qc := match l with [] => d | x :: r => Qcmax x (Qcmaxl d r) end.

Section Ops.
Variable sqrt_o : Qc -> Qc.                           (* math.sqrt *)
Variables leg_input leg_output : Type.
Variable leg_build : leg_input -> leg_output.         (* Model(...): constraints, variables, objective *)
Variable leg_params : leg_input -> Qc * Qc * Qc.      (* (temperature decay, fixed_t, temperature_ini) *)

(* Rectangle.set_epsilon(d): area epsilon = sqrt(d) *)
Definition set_epsilon (d : Qc) : Qc * Qc := (d, sqrt_o d).
(* `if not Rectangle.epsilon_defined(): Rectangle.set_epsilon(cand)`; cand = None: the constructor does not get
   as far as the guard (it raised earlier), or has no finite candidate *)
Definition first_writer (cur : option (Qc * Qc)) (cand : option Qc) : option (Qc * Qc) :=
  match cur with
  | Some e => Some e
  | None => option_map set_epsilon cand
  end.

(* ---- Netlist(...) ---- *)
Definition netlist_cand (t : YT.ytree) : option Qc :=
  match NR.parse_netlist t with
  | NR.Ok p =>
      match NR.cr_squares sqrt_o (fst p) with
      | NR.Ok ms1 => option_map (fun d => d * NR.tiny) (NR.smallest_distance sqrt_o ms1)
      | NR.Reject _ => None
      end
  | NR.Reject _ => None
  end.
Definition op_netlist (s : gstate) (t : YT.ytree) : gstate * NR.result NR.netlist :=
  (with_eps s (first_writer (g_eps s) (netlist_cand t)), NR.read_netlist sqrt_o (g_eps s) t).

(* ---- Die(...) (the fixed rectangles of the attached netlist are part of the description) ---- *)
Definition die_cand (d : DM.desc) : option Qc :=
  match DM.parse d with
  | Some (w, h, _) => Some (Qcmin w h * die_tiny)
  | None => None
  end.
(* Die._epsilon and the inside tolerance: the die's own, not process state *)
Definition die_tols (d : DM.desc) : Qc * Qc :=
  match DM.parse d with
  | Some (w, h, _) => (Qcmin w h * die_tiny, Qcmax w h * die_tiny)
  | None => (0, 0)
  end.
Definition die_out (e : option (Qc * Qc)) (d : DM.desc) : DM.result :=
  match e with
  | Some (eps, aeps) => DM.die_model eps aeps (fst (die_tols d)) (snd (die_tols d)) d
  | None => DM.Reject DM.RParse          (* only when the description does not parse *)
  end.
Definition op_die (s : gstate) (d : DM.desc) : gstate * DM.result :=
  let e := first_writer (g_eps s) (die_cand d) in (with_eps s e, die_out e d).

(* ---- Allocation(...) followed by refine / uniform_refinement_depth / griddify ---- *)
Definition bbox_side (cells : list AL.cell) : Qc :=
  let rs := map AL.crect cells in
  Qcmin (Qcmaxl 0 (map xmax rs) - Qcminl 0 (map xmin rs)) (Qcmaxl 0 (map ymax rs) - Qcminl 0 (map ymin rs)).
(* the constructor reaches the guard after parsing the cells and computing the bounding box
   (which asserts the positive quadrant) *)
Definition alloc_cand (cells : list AL.cell) : option Qc :=
  match cells with
  | [] => None
  | _ => if forallb AL.cell_ok cells && AL.in_quadrant cells then Some (tiny * bbox_side cells) else None
  end.
Definition alloc_out (e : option (Qc * Qc)) (q : Qc) (ops : list AL.op) (cells : list AL.cell)
  : option (list AL.cell) :=
  match e with
  | Some (eps, aeps) =>
      match AL.mk_allocation aeps cells with
      | Some cs => AL.run_ops eps aeps q ops cs
      | None => None
      end
  | None => None
  end.
Definition op_alloc (s : gstate) (q : Qc) (ops : list AL.op) (cells : list AL.cell)
  : gstate * option (list AL.cell) :=
  let e := first_writer (g_eps s) (alloc_cand cells) in (with_eps s e, alloc_out e q ops cells).

(* ---- a new SATManager and a sequence of posts: constructrobdd appends to the store ---- *)
Definition op_sat (s : gstate) (ps : list post) : gstate * option (cnf * list status) :=
  match run_posts (g_mem s) empty_mgr ps with
  | Some (m, mg, sts) => (with_mem s m, Some (clauses mg, sts))
  | None => (s, None)
  end.

(* ---- legaliser: Model(...) ; define_time overwrites the module-level epsilon ---- *)
Definition op_legal (s : gstate) (x : leg_input) : gstate * leg_output :=
  (with_leg s (mkLeg (Some (leg_params x)) (named_vars (g_leg s)) (debug_mask (g_leg s))), leg_build x).

(* ---- callers relying on default arguments; Strop ---- *)
Definition op_defaults (s : gstate) (l : list dstep) : gstate * list dout :=
  let (d, o) := dsteps_run (g_dflt s) l in (mkG (g_eps s) (g_mem s) (g_leg s) d, o).
Definition op_strop (s : gstate) (M : SP.BoolMatrix) (h w : option (list Qc)) : gstate * strop_out :=
  (s, strop_run (g_dflt s) M h w).

(* ---- operations and their results ---- *)
Inductive opn :=
| ONetlist (t : YT.ytree)
| ODie (d : DM.desc)
| OAlloc (q : Qc) (ops : list AL.op) (cells : list AL.cell)
| OSat (ps : list post)
| OLegal (x : leg_input)
| ODefaults (l : list dstep)
| OStrop (M : SP.BoolMatrix) (h w : option (list Qc)).

Inductive out :=
| RNetlist (r : NR.result NR.netlist)
| RDie (r : DM.result)
| RAlloc (r : option (list AL.cell))
| RSat (r : option (cnf * list status))
| RLegal (r : leg_output)
| RDefaults (r : list dout)
| RStrop (r : strop_out).

Definition step (s : gstate) (o : opn) : gstate * out :=
  match o with
  | ONetlist t => let (s', r) := op_netlist s t in (s', RNetlist r)
  | ODie d => let (s', r) := op_die s d in (s', RDie r)
  | OAlloc q ops cells => let (s', r) := op_alloc s q ops cells in (s', RAlloc r)
  | OSat ps => let (s', r) := op_sat s ps in (s', RSat r)
  | OLegal x => let (s', r) := op_legal s x in (s', RLegal r)
  | ODefaults l => let (s', r) := op_defaults s l in (s', RDefaults r)
  | OStrop M h w => let (s', r) := op_strop s M h w in (s', RStrop r)
  end.

Definition run (h : list opn) (s : gstate) : gstate := fold_left (fun s o => fst (step s o)) h s.

(* the tolerance an operation installs when it is the first writer *)
Definition op_cand (o : opn) : option Qc :=
  match o with
  | ONetlist t => netlist_cand t
  | ODie d => die_cand d
  | OAlloc _ _ cells => alloc_cand cells
  | OSat _ | OLegal _ | ODefaults _ | OStrop _ _ _ => None
  end.

(* ---- what a caller can observe of a result ---- *)
(* a loaded netlist without the record of the tolerances it was loaded under *)
Definition nl_view (n : NR.netlist) := (NR.nl_modules n, NR.nl_nets n, NR.nl_rects n).
Definition nl_result_view (r : NR.result NR.netlist) : NR.result _ :=
  match r with NR.Ok n => NR.Ok (nl_view n) | NR.Reject x => NR.Reject x end.

(* SAT: the statuses and the set of user assignments that extend to a model of the clauses
   (node ids are internal names) *)
Definition sat_equiv (a b : option (cnf * list status)) : Prop :=
  match a, b with
  | Some (c1, s1), Some (c2, s2) => s1 = s2 /\ forall u, ext u c1 <-> ext u c2
  | None, None => True
  | _, _ => False
  end.

Definition obs_equiv (a b : out) : Prop :=
  match a, b with
  | RNetlist x, RNetlist y => nl_result_view x = nl_result_view y
  | RDie x, RDie y => x = y
  | RAlloc x, RAlloc y => x = y
  | RSat x, RSat y => sat_equiv x y
  | RLegal x, RLegal y => x = y
  | RDefaults x, RDefaults y => x = y
  | RStrop x, RStrop y => x = y
  | _, _ => False
  end.

End Ops.

(* ------------------------------------------------------------------ *)
(* robustness: every compared quantity is clearly below or clearly     *)
(* above the band of tolerances                                        *)
(* ------------------------------------------------------------------ *)
Definition gapok (lo hi d : Qc) : bool := Qcltb d lo || Qcltb hi d.

(* Rectangle.touches *)
Definition robust_touches (lo hi : Qc) (r s : Rect) : bool :=
  gapok lo hi (xmin r - xmax s) && gapok lo hi (xmin s - xmax r) &&
  gapok lo hi (ymin r - ymax s) && gapok lo hi (ymin s - ymax r).
(* Rectangle.overlap *)
Definition robust_overlap (alo ahi : Qc) (r s : Rect) : bool := gapok alo ahi (area_overlap r s).
(* Rectangle.find_location: the overlap test, the four almost_eq, the four containment tests *)
Definition robust_fl (lo hi alo ahi : Qc) (t r : Rect) : bool :=
  robust_overlap alo ahi t r &&
  gapok lo hi (Qcabs (ymax t - ymin r)) && gapok lo hi (Qcabs (ymin t - ymax r)) &&
  gapok lo hi (Qcabs (xmax t - xmin r)) && gapok lo hi (Qcabs (xmin t - xmax r)) &&
  gapok lo hi (xmin t - xmin r) && gapok lo hi (xmax r - xmax t) &&
  gapok lo hi (ymin t - ymin r) && gapok lo hi (ymax r - ymax t).
(* create_stog: every ordered pair of the list *)
Definition robust_stog (lo hi alo ahi : Qc) (rs : list Rect) : bool :=
  forallb (fun t => forallb (robust_fl lo hi alo ahi t) rs) rs.
(* combinations(rectangles, 2) with Rectangle.overlap *)
Definition robust_pairs (alo ahi : Qc) (rs : list Rect) : bool :=
  forallb (fun r => forallb (robust_overlap alo ahi r) rs) rs.
(* gather_boundaries / uniq: every two collected coordinates *)
Definition robust_coords (lo hi : Qc) (l : list Qc) : bool :=
  forallb (fun a => forallb (fun b => gapok lo hi (a - b)) l) l.
Definition robust_bounds (lo hi : Qc) (rs : list Rect) : bool :=
  robust_coords lo hi (flat_map (fun r => [xmin r; xmax r]) rs) &&
  robust_coords lo hi (flat_map (fun r => [ymin r; ymax r]) rs).

Definition in_band (lo hi alo ahi e a : Qc) : bool :=
  Qcleb lo e && Qcleb e hi && Qcleb alo a && Qcleb a ahi.
