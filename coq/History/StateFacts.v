(* C20 facts, part 1: the tolerance-dependent operations give the same result under every tolerance of a band
   [lo, hi] (area band [alo, ahi]) on inputs that are robust for the band: every compared difference is below lo
   or above hi, every overlap area below alo or above ahi.  Built bottom-up: comparisons, touches / overlap /
   find_location, create_stog, uniq / gather_boundaries, Allocation, refine, griddify, Die, Netlist. *)
From Coq Require Import ZArith List Bool String Lia.
From FrameModel Require Import Num.QcTac Geometry.Rect Stog.CreateStog History.State.
Import ListNotations.
Open Scope Qc_scope.

Definition band (lo hi e : Qc) : Prop := lo <= e /\ e <= hi.

Lemma bool_eq_iff (a b : bool) : (a = true <-> b = true) -> a = b.
Proof. destruct a, b; intros [H1 H2]; try reflexivity; [symmetry; apply H1|apply H2]; reflexivity. Qed.

Lemma gapok_cases lo hi d : gapok lo hi d = true -> d < lo \/ hi < d.
Proof. unfold gapok. intro H. apply orb_true_iff in H. destruct H as [H|H]; qb2p; auto. Qed.

(* ---- the three shapes of comparison ---- *)
Lemma gap_ltb_r lo hi d e1 e2 : gapok lo hi d = true -> band lo hi e1 -> band lo hi e2 ->
  Qcltb d e1 = Qcltb d e2.
Proof.
  intros G [A1 B1] [A2 B2]. apply gapok_cases in G. apply bool_eq_iff. rewrite !Qcltb_true.
  destruct G; split; intro; qlra.
Qed.
Lemma gap_leb_r lo hi d e1 e2 : gapok lo hi d = true -> band lo hi e1 -> band lo hi e2 ->
  Qcleb d e1 = Qcleb d e2.
Proof.
  intros G [A1 B1] [A2 B2]. apply gapok_cases in G. apply bool_eq_iff. rewrite !Qcleb_true.
  destruct G; split; intro; qlra.
Qed.
Lemma gap_ltb_l lo hi d e1 e2 : gapok lo hi d = true -> band lo hi e1 -> band lo hi e2 ->
  Qcltb e1 d = Qcltb e2 d.
Proof.
  intros G [A1 B1] [A2 B2]. apply gapok_cases in G. apply bool_eq_iff. rewrite !Qcltb_true.
  destruct G; split; intro; qlra.
Qed.

(* ---- the code's comparisons ---- *)
Lemma gap_leb_plus lo hi a b e1 e2 : gapok lo hi (a - b) = true -> band lo hi e1 -> band lo hi e2 ->
  Qcleb a (b + e1) = Qcleb a (b + e2).
Proof.
  intros G [A1 B1] [A2 B2]. apply gapok_cases in G. apply bool_eq_iff. rewrite !Qcleb_true.
  destruct G; split; intro; qlra.
Qed.
Lemma gap_ltb_minus lo hi a b e1 e2 : gapok lo hi (a - b) = true -> band lo hi e1 -> band lo hi e2 ->
  Qcltb (a - e1) b = Qcltb (a - e2) b.
Proof.
  intros G [A1 B1] [A2 B2]. apply gapok_cases in G. apply bool_eq_iff. rewrite !Qcltb_true.
  destruct G; split; intro; qlra.
Qed.
Lemma gap_ltb_plus lo hi a b e1 e2 : gapok lo hi (a - b) = true -> band lo hi e1 -> band lo hi e2 ->
  Qcltb a (b + e1) = Qcltb a (b + e2).
Proof.
  intros G [A1 B1] [A2 B2]. apply gapok_cases in G. apply bool_eq_iff. rewrite !Qcltb_true.
  destruct G; split; intro; qlra.
Qed.
Lemma gap_ltb_left lo hi a b e1 e2 : gapok lo hi (b - a) = true -> band lo hi e1 -> band lo hi e2 ->
  Qcltb (a + e1) b = Qcltb (a + e2) b.
Proof.
  intros G [A1 B1] [A2 B2]. apply gapok_cases in G. apply bool_eq_iff. rewrite !Qcltb_true.
  destruct G; split; intro; qlra.
Qed.

(* ------------------------------------------------------------------ *)
(* touches, overlap, find_location                                     *)
(* ------------------------------------------------------------------ *)
Theorem eps_insensitive_touches lo hi e1 e2 r s :
  band lo hi e1 -> band lo hi e2 -> robust_touches lo hi r s = true ->
  touches e1 r s = touches e2 r s.
Proof.
  intros B1 B2 R. unfold robust_touches in R. qb2p. unfold touches.
  rewrite (gap_leb_plus lo hi _ _ e1 e2 H B1 B2), (gap_leb_plus lo hi _ _ e1 e2 H2 B1 B2),
          (gap_leb_plus lo hi _ _ e1 e2 H1 B1 B2), (gap_leb_plus lo hi _ _ e1 e2 H0 B1 B2). reflexivity.
Qed.

Theorem eps_insensitive_overlap alo ahi a1 a2 r s :
  band alo ahi a1 -> band alo ahi a2 -> robust_overlap alo ahi r s = true ->
  overlap a1 r s = overlap a2 r s.
Proof. intros B1 B2 R. unfold overlap. exact (gap_ltb_l alo ahi _ a1 a2 R B1 B2). Qed.

Theorem eps_insensitive_find_location lo hi alo ahi e1 e2 a1 a2 t r :
  band lo hi e1 -> band lo hi e2 -> band alo ahi a1 -> band alo ahi a2 ->
  robust_fl lo hi alo ahi t r = true ->
  find_location e1 a1 t r = find_location e2 a2 t r.
Proof.
  intros B1 B2 C1 C2 R. unfold robust_fl in R.
  repeat match goal with H : andb _ _ = true |- _ => apply andb_true_iff in H; destruct H end.
  unfold find_location, almost_eq. unfold robust_overlap in *.
  repeat match goal with
  | G : gapok lo hi ?d = true |- context [Qcltb ?d e1] => rewrite (gap_ltb_r lo hi d e1 e2 G B1 B2)
  | G : gapok alo ahi ?d = true |- context [Qcltb a1 ?d] => rewrite (gap_ltb_l alo ahi d a1 a2 G C1 C2)
  | G : gapok lo hi (?a - ?b) = true |- context [Qcltb (?a - e1) ?b] =>
      rewrite (gap_ltb_minus lo hi a b e1 e2 G B1 B2)
  | G : gapok lo hi (?a - ?b) = true |- context [Qcltb ?a (?b + e1)] =>
      rewrite (gap_ltb_plus lo hi a b e1 e2 G B1 B2)
  end.
  reflexivity.
Qed.

(* ------------------------------------------------------------------ *)
(* create_stog                                                         *)
(* ------------------------------------------------------------------ *)
Section Stog.
Variables lo hi alo ahi e1 e2 a1 a2 : Qc.
Hypothesis B1 : band lo hi e1.
Hypothesis B2 : band lo hi e2.
Hypothesis C1 : band alo ahi a1.
Hypothesis C2 : band alo ahi a2.

Definition RS (rs : list Rect) : Prop :=
  forall t r, In t rs -> In r rs -> robust_fl lo hi alo ahi t r = true.

Lemma robust_stog_RS rs : robust_stog lo hi alo ahi rs = true -> RS rs.
Proof.
  unfold robust_stog, RS. intros H t r Ht Hr. rewrite forallb_forall in H. specialize (H t Ht).
  rewrite forallb_forall in H. exact (H r Hr).
Qed.

Lemma robust_fl_set_loc t r l l' :
  robust_fl lo hi alo ahi (set_loc t l) (set_loc r l') = robust_fl lo hi alo ahi t r.
Proof. reflexivity. Qed.

Lemma RS_map_set_loc rs l : RS rs -> RS (map (fun r => set_loc r l) rs).
Proof.
  intros H t r Ht Hr. apply in_map_iff in Ht. apply in_map_iff in Hr.
  destruct Ht as [t' [<- Ht]]. destruct Hr as [r' [<- Hr]]. rewrite robust_fl_set_loc. exact (H t' r' Ht Hr).
Qed.

Lemma fl_eq t r : robust_fl lo hi alo ahi t r = true -> find_location e1 a1 t r = find_location e2 a2 t r.
Proof. exact (eps_insensitive_find_location lo hi alo ahi e1 e2 a1 a2 t r B1 B2 C1 C2). Qed.

Lemma valid_from_eq t i rs : (forall r, In r rs -> robust_fl lo hi alo ahi t r = true) ->
  forall j, valid_from e1 a1 t i j rs = valid_from e2 a2 t i j rs.
Proof.
  induction rs as [|r rest IH]; intros H j; [reflexivity|]. cbn [valid_from].
  rewrite (fl_eq t r (H r (or_introl eq_refl))). rewrite IH; [reflexivity|].
  intros x Hx. apply H. right. exact Hx.
Qed.

Lemma scan_eq all rs : (forall t r, In t rs -> In r all -> robust_fl lo hi alo ahi t r = true) ->
  forall i best, scan e1 a1 all rs i best = scan e2 a2 all rs i best.
Proof.
  induction rs as [|t rest IH]; intros H i best; [reflexivity|]. cbn [scan]. unfold valid_trunk.
  rewrite (valid_from_eq t i all (fun r Hr => H t r (or_introl eq_refl) Hr) 0%nat).
  assert (H' : forall t r, In t rest -> In r all -> robust_fl lo hi alo ahi t r = true).
  { intros x r Hx Hr. apply H; [right; exact Hx|exact Hr]. }
  destruct best as [[b ab]|].
  - destruct (Qcleb (area t) ab); [reflexivity|].
    destruct (valid_from e2 a2 t i 0 all); apply IH; exact H'.
  - destruct (valid_from e2 a2 t i 0 all); apply IH; exact H'.
Qed.

Lemma set_nth_In {A} (l : list A) : forall n x y, In y (set_nth l n x) -> y = x \/ In y l.
Proof.
  induction l as [|h r IH]; intros n x y H; [destruct n; destruct H|].
  destruct n; cbn in H.
  - destruct H as [H|H]; [left; symmetry; exact H|right; right; exact H].
  - destruct H as [H|H]; [right; left; exact H|]. destruct (IH n x y H); [left|right; right]; assumption.
Qed.
Lemma swap0_In l b y : In y (swap0 l b) -> In y l.
Proof.
  unfold swap0. destruct l as [|h r]; [intros []|]. destruct (nth_error (h :: r) b) as [x|] eqn:E; [|auto].
  intro H. apply set_nth_In in H. destruct H as [->|H]; [eapply nth_error_In; exact E|].
  apply set_nth_In in H. destruct H as [->|H]; [left; reflexivity|exact H].
Qed.

Theorem eps_insensitive_create_stog rs : robust_stog lo hi alo ahi rs = true ->
  create_stog e1 a1 rs = create_stog e2 a2 rs.
Proof.
  intro R. apply robust_stog_RS in R. unfold create_stog.
  destruct rs as [|r0 [|r1 rest]]; [reflexivity|reflexivity|].
  set (rs := r0 :: r1 :: rest) in *. set (rs0 := map (fun r => set_loc r NOPOLY) rs).
  assert (R0 : RS rs0) by (apply RS_map_set_loc; exact R).
  rewrite (scan_eq rs0 rs0 R0 0%nat None).
  destruct (scan e2 a2 rs0 rs0 0 None) as [[b ab]|]; [|reflexivity].
  destruct (swap0 rs0 b) as [|t rest'] eqn:E; [reflexivity|].
  f_equal. f_equal. f_equal. apply map_ext_in. intros r Hr. f_equal. apply fl_eq. apply R0.
  - apply (swap0_In rs0 b). rewrite E. left. reflexivity.
  - apply (swap0_In rs0 b). rewrite E. right. exact Hr.
Qed.
End Stog.

(* ------------------------------------------------------------------ *)
(* uniq / gather_boundaries (both copies: allocation.py's and die.py's) *)
(* ------------------------------------------------------------------ *)
From FrameModel Require Die.BoundariesFacts.
Section Bounds.
Variables lo hi e1 e2 : Qc.
Hypothesis B1 : band lo hi e1.
Hypothesis B2 : band lo hi e2.

Definition PW (L : list Qc) : Prop := forall a b, In a L -> In b L -> gapok lo hi (a - b) = true.
Lemma robust_coords_PW L : robust_coords lo hi L = true -> PW L.
Proof.
  unfold robust_coords, PW. intros H a b Ha Hb. rewrite forallb_forall in H. specialize (H a Ha).
  rewrite forallb_forall in H. exact (H b Hb).
Qed.

Lemma al_dedup_eq L : PW L -> forall l last, In last L -> incl l L ->
  AL.dedup e1 last l = AL.dedup e2 last l.
Proof.
  intros P. induction l as [|v r IH]; intros last Hl Hi; [reflexivity|]. cbn [AL.dedup].
  assert (Hv : In v L) by (apply Hi; left; reflexivity).
  assert (Hr : incl r L) by (intros x Hx; apply Hi; right; exact Hx).
  rewrite (gap_ltb_left lo hi last v e1 e2 (P v last Hv Hl) B1 B2).
  destruct (Qcltb (last + e2) v); [f_equal|]; apply IH; assumption.
Qed.
Lemma al_insert_in x l v : In v (AL.insert_sorted x l) -> v = x \/ In v l.
Proof.
  induction l as [|y r IH]; cbn [AL.insert_sorted]; [intros [H|[]]; left; symmetry; exact H|].
  destruct (Qcleb x y).
  - intros [H|H]; [left; symmetry; exact H|right; exact H].
  - intros [H|H]; [right; left; exact H|]. destruct (IH H) as [E|E]; [left; exact E|right; right; exact E].
Qed.
Lemma al_sortq_in l v : In v (AL.sortq l) -> In v l.
Proof.
  induction l as [|x r IH]; cbn; [auto|]. intro H. apply al_insert_in in H. destruct H as [->|H]; auto.
Qed.
Theorem eps_insensitive_uniq l : robust_coords lo hi l = true -> AL.uniq e1 l = AL.uniq e2 l.
Proof.
  intro R. apply robust_coords_PW in R. unfold AL.uniq. destruct (AL.sortq l) as [|v r] eqn:E; [reflexivity|].
  f_equal. apply (al_dedup_eq l R).
  - apply al_sortq_in. rewrite E. left. reflexivity.
  - intros x Hx. apply al_sortq_in. rewrite E. right. exact Hx.
Qed.
Theorem eps_insensitive_gather_boundaries rs : robust_bounds lo hi rs = true ->
  AL.gather_boundaries e1 rs = AL.gather_boundaries e2 rs.
Proof.
  unfold robust_bounds. intro R. apply andb_true_iff in R. destruct R as [Rx Ry]. unfold AL.gather_boundaries.
  rewrite (eps_insensitive_uniq _ Rx), (eps_insensitive_uniq _ Ry). reflexivity.
Qed.

(* die.py's copy *)
Lemma db_dedup_from_eq L : PW L -> forall l last, In last L -> incl l L ->
  DB.dedup_from e1 last l = DB.dedup_from e2 last l.
Proof.
  intros P. induction l as [|v r IH]; intros last Hl Hi; [reflexivity|]. cbn [DB.dedup_from].
  assert (Hv : In v L) by (apply Hi; left; reflexivity).
  assert (Hr : incl r L) by (intros x Hx; apply Hi; right; exact Hx).
  rewrite (gap_ltb_left lo hi last v e1 e2 (P v last Hv Hl) B1 B2).
  destruct (Qcltb (last + e2) v); [f_equal|]; apply IH; assumption.
Qed.
Lemma db_dedup_sort_eq l : robust_coords lo hi l = true -> DB.dedup e1 (DB.sort l) = DB.dedup e2 (DB.sort l).
Proof.
  intro R. apply robust_coords_PW in R. unfold DB.dedup. destruct (DB.sort l) as [|v r] eqn:E; [reflexivity|].
  f_equal. apply (db_dedup_from_eq l R).
  - apply BoundariesFacts.sort_in. rewrite E. left. reflexivity.
  - intros x Hx. apply BoundariesFacts.sort_in. rewrite E. right. exact Hx.
Qed.
Theorem eps_insensitive_die_boundaries rs : robust_bounds lo hi rs = true ->
  DB.gather_boundaries e1 rs = DB.gather_boundaries e2 rs.
Proof.
  unfold robust_bounds. intro R. apply andb_true_iff in R. destruct R as [Rx Ry].
  unfold DB.gather_boundaries, DB.xbounds, DB.ybounds, DB.xcoords, DB.ycoords.
  rewrite (db_dedup_sort_eq _ Rx), (db_dedup_sort_eq _ Ry). reflexivity.
Qed.
End Bounds.

(* ------------------------------------------------------------------ *)
(* Allocation(...), refine, uniform_refinement_depth, griddify          *)
(* ------------------------------------------------------------------ *)
Section AllocOps.
Variables lo hi alo ahi e1 e2 a1 a2 : Qc.
Hypothesis B1 : band lo hi e1.
Hypothesis B2 : band lo hi e2.
Hypothesis C1 : band alo ahi a1.
Hypothesis C2 : band alo ahi a2.

Definition RP (rs : list Rect) : Prop :=
  forall r s, In r rs -> In s rs -> robust_overlap alo ahi r s = true.
Lemma robust_pairs_RP rs : robust_pairs alo ahi rs = true -> RP rs.
Proof.
  unfold robust_pairs, RP. intros H r s Hr Hs. rewrite forallb_forall in H. specialize (H r Hr).
  rewrite forallb_forall in H. exact (H s Hs).
Qed.
Lemma ov_eq r s : robust_overlap alo ahi r s = true -> overlap a1 r s = overlap a2 r s.
Proof. exact (eps_insensitive_overlap alo ahi a1 a2 r s C1 C2). Qed.

Lemma no_overlap_with_eq L r l : RP L -> In r L -> incl (map AL.crect l) L ->
  AL.no_overlap_with a1 r l = AL.no_overlap_with a2 r l.
Proof.
  intros P Hr. induction l as [|c rest IH]; intro Hi; [reflexivity|]. cbn [AL.no_overlap_with].
  rewrite (ov_eq r (AL.crect c)); [|apply P; [exact Hr|apply Hi; left; reflexivity]].
  rewrite IH; [reflexivity|]. intros x Hx. apply Hi. right. exact Hx.
Qed.
Lemma no_overlap_eq L l : RP L -> incl (map AL.crect l) L -> AL.no_overlap a1 l = AL.no_overlap a2 l.
Proof.
  intros P. induction l as [|c rest IH]; intro Hi; [reflexivity|]. cbn [AL.no_overlap].
  assert (Hr : incl (map AL.crect rest) L) by (intros x Hx; apply Hi; right; exact Hx).
  rewrite (no_overlap_with_eq L (AL.crect c) rest P (Hi _ (or_introl eq_refl)) Hr), (IH Hr). reflexivity.
Qed.

Theorem eps_insensitive_mk_allocation cells : robust_pairs alo ahi (map AL.crect cells) = true ->
  AL.mk_allocation a1 cells = AL.mk_allocation a2 cells.
Proof.
  intro R. apply robust_pairs_RP in R. unfold AL.mk_allocation. destruct cells as [|c r]; [reflexivity|].
  rewrite (no_overlap_eq _ (c :: r) R (incl_refl _)). reflexivity.
Qed.

(* refine: the cells are cut without looking at a tolerance; the constructor then checks the new cells *)
Theorem eps_insensitive_refine t levels cells :
  (forall new, AL.refine_cells t levels cells = Some new -> robust_pairs alo ahi (map AL.crect new) = true) ->
  AL.refine a1 t levels cells = AL.refine a2 t levels cells.
Proof.
  intro H. unfold AL.refine. destruct levels; [reflexivity|].
  destruct (AL.refine_cells t (S levels) cells) as [new|] eqn:E; [|reflexivity].
  apply eps_insensitive_mk_allocation. apply H. reflexivity.
Qed.
Theorem eps_insensitive_uniform cells :
  (forall new, AL.uniform_cells cells = Some new -> robust_pairs alo ahi (map AL.crect new) = true) ->
  AL.uniform_refinement_depth a1 cells = AL.uniform_refinement_depth a2 cells.
Proof.
  intro H. unfold AL.uniform_refinement_depth. destruct (Nat.eqb _ _); [reflexivity|].
  destruct (AL.uniform_cells cells) as [new|] eqn:E; [|reflexivity].
  apply eps_insensitive_mk_allocation. apply H. reflexivity.
Qed.

(* griddify: the boundaries are gathered with the distance tolerance, the cut cells checked with the area one *)
Lemma griddify_cells_eq q cells : robust_bounds lo hi (map AL.crect cells) = true ->
  AL.griddify_cells e1 q cells = AL.griddify_cells e2 q cells.
Proof.
  intro R. unfold AL.griddify_cells.
  rewrite (eps_insensitive_gather_boundaries lo hi e1 e2 B1 B2 _ R). reflexivity.
Qed.
Theorem eps_insensitive_griddify q cells : robust_bounds lo hi (map AL.crect cells) = true ->
  (forall new, AL.griddify_cells e2 q cells = Some new -> robust_pairs alo ahi (map AL.crect new) = true) ->
  AL.griddify e1 a1 q cells = AL.griddify e2 a2 q cells.
Proof.
  intros R H. unfold AL.griddify. rewrite (griddify_cells_eq q cells R).
  destruct (AL.griddify_cells e2 q cells) as [new|] eqn:E; [|reflexivity].
  apply eps_insensitive_mk_allocation. apply H. reflexivity.
Qed.
End AllocOps.

(* ------------------------------------------------------------------ *)
(* Die(...)                                                            *)
(* ------------------------------------------------------------------ *)
From FrameModel Require Die.Cover.
(* the rectangles whose pairwise overlap _check_rectangles tests, for the grid obtained with tolerance e *)
Definition die_all (e : Qc) (d : DM.desc) (w h : Qc) (regions : list Rect) : list Rect :=
  let ins := DM.inputs regions (DM.d_fixed d) in
  let xs := DM.die_xs e w h ins in
  let ys := DM.die_ys e w h ins in
  DM.specialised regions ++ map (DM.ground_of xs ys) (DM.die_cover e d Cover.greedy_cover) ++
  DM.blockages regions ++ DM.d_fixed d.
Definition robust_die (lo hi alo ahi : Qc) (d : DM.desc) : bool :=
  match DM.parse d with
  | None => true
  | Some (w, h, regions) =>
      robust_bounds lo hi (DM.inputs regions (DM.d_fixed d) ++ [DM.die_rect w h]) &&
      robust_pairs alo ahi (die_all lo d w h regions)
  end.

Section DieOps.
Variables lo hi alo ahi e1 e2 a1 a2 : Qc.
Hypothesis B1 : band lo hi e1.
Hypothesis B2 : band lo hi e2.
Hypothesis C1 : band alo ahi a1.
Hypothesis C2 : band alo ahi a2.

Lemma forallb_ext_in' {A} (f g : A -> bool) l : (forall x, In x l -> f x = g x) -> forallb f l = forallb g l.
Proof.
  induction l as [|x r IH]; intro H; [reflexivity|]. cbn. rewrite (H x (or_introl eq_refl)), IH; [reflexivity|].
  intros y Hy. apply H. right. exact Hy.
Qed.
Lemma dm_no_overlaps_eq L l : RP alo ahi L -> incl l L -> DM.no_overlaps a1 l = DM.no_overlaps a2 l.
Proof.
  intros P. induction l as [|r rest IH]; intro Hi; [reflexivity|]. cbn [DM.no_overlaps].
  assert (Hr : incl rest L) by (intros x Hx; apply Hi; right; exact Hx).
  rewrite (IH Hr). f_equal. apply forallb_ext_in'.
  intros s Hs. rewrite (ov_eq alo ahi a1 a2 C1 C2 r s); [reflexivity|].
  apply P; [apply Hi; left; reflexivity|apply Hr; exact Hs].
Qed.

Lemma die_xs_eq w h ins : robust_bounds lo hi (ins ++ [DM.die_rect w h]) = true ->
  DM.die_xs e1 w h ins = DM.die_xs e2 w h ins /\ DM.die_ys e1 w h ins = DM.die_ys e2 w h ins.
Proof.
  intro R. pose proof (eps_insensitive_die_boundaries lo hi e1 e2 B1 B2 _ R) as E.
  unfold DB.gather_boundaries in E. unfold DM.die_xs, DM.die_ys. split; congruence.
Qed.

Theorem eps_insensitive_die_model_gen deps tin d :
  (forall w h regions, DM.parse d = Some (w, h, regions) ->
     robust_bounds lo hi (DM.inputs regions (DM.d_fixed d) ++ [DM.die_rect w h]) = true /\
     robust_pairs alo ahi (die_all e2 d w h regions) = true) ->
  DM.die_model e1 a1 deps tin d = DM.die_model e2 a2 deps tin d.
Proof.
  intro H. unfold DM.die_model.
  assert (Ec : DM.die_cover e1 d Cover.greedy_cover = DM.die_cover e2 d Cover.greedy_cover).
  { unfold DM.die_cover. destruct (DM.parse d) as [[[w h] regions]|] eqn:E; [|reflexivity].
    destruct (H w h regions eq_refl) as [Rb _]. destruct (die_xs_eq w h _ Rb) as [Ex Ey].
    cbv zeta. rewrite Ex, Ey. reflexivity. }
  rewrite Ec. unfold DM.die_with_cover.
  destruct (DM.parse d) as [[[w h] regions]|] eqn:E; [|reflexivity].
  destruct (H w h regions eq_refl) as [Rb Rp]. destruct (die_xs_eq w h _ Rb) as [Ex Ey].
  cbv zeta. rewrite Ex, Ey.
  destruct (negb (Cover.is_cover _ _ _ _)); [reflexivity|].
  unfold DM.check_rectangles.
  destruct (negb (forallb _ _)); [reflexivity|].
  unfold die_all in Rp. cbv zeta in Rp.
  rewrite (dm_no_overlaps_eq _ _ (robust_pairs_RP alo ahi _ Rp) (incl_refl _)). reflexivity.
Qed.
End DieOps.

(* the decidable form: robustness evaluated at the lower end of the band *)
Theorem eps_insensitive_die_model lo hi alo ahi e1 e2 a1 a2 deps tin d :
  band lo hi e1 -> band lo hi e2 -> band alo ahi a1 -> band alo ahi a2 ->
  robust_die lo hi alo ahi d = true ->
  DM.die_model e1 a1 deps tin d = DM.die_model e2 a2 deps tin d.
Proof.
  intros B1 B2 C1 C2 R.
  assert (Bl : band lo hi lo) by (destruct B1; split; [apply Qcle_refl|eapply Qcle_trans; eassumption]).
  assert (Cl : band alo ahi alo) by (destruct C1; split; [apply Qcle_refl|eapply Qcle_trans; eassumption]).
  assert (H : forall w h regions, DM.parse d = Some (w, h, regions) ->
     robust_bounds lo hi (DM.inputs regions (DM.d_fixed d) ++ [DM.die_rect w h]) = true /\
     robust_pairs alo ahi (die_all lo d w h regions) = true).
  { intros w h regions E. unfold robust_die in R. rewrite E in R. apply andb_true_iff in R. exact R. }
  transitivity (DM.die_model lo alo deps tin d).
  - exact (eps_insensitive_die_model_gen lo hi alo ahi e1 lo a1 alo B1 Bl C1 Cl deps tin d H).
  - symmetry. exact (eps_insensitive_die_model_gen lo hi alo ahi e2 lo a2 alo B2 Bl C2 Cl deps tin d H).
Qed.

(* ------------------------------------------------------------------ *)
(* Netlist(...)                                                        *)
(* ------------------------------------------------------------------ *)
Definition stog_rects (m : NR.module) : list Rect :=
  map NR.to_rect (map (fun r => NR.set_mloc r NOPOLY) (NR.m_rects m)).
(* one module after create_square: the overlap assertion of hard modules, create_stog *)
Definition robust_module (lo hi alo ahi : Qc) (m : NR.module) : bool :=
  (if NR.m_hard m && negb (NR.m_terminal m) then robust_pairs alo ahi (map NR.to_rect (NR.m_rects m)) else true) &&
  robust_stog lo hi alo ahi (stog_rects m).

Section NetlistOps.
Variable sqrt_o : Qc -> Qc.
Variables lo hi alo ahi e1 e2 a1 a2 : Qc.
Hypothesis B1 : band lo hi e1.
Hypothesis B2 : band lo hi e2.
Hypothesis C1 : band alo ahi a1.
Hypothesis C2 : band alo ahi a2.

Definition robust_netlist (t : YT.ytree) : bool :=
  match NR.parse_netlist t with
  | NR.Ok p =>
      match NR.cr_squares sqrt_o (fst p) with
      | NR.Ok ms1 => forallb (robust_module lo hi alo ahi) ms1
      | NR.Reject _ => true
      end
  | NR.Reject _ => true
  end.

Lemma nr_no_overlap_with_eq L r l : RP alo ahi L -> In (NR.to_rect r) L -> incl (map NR.to_rect l) L ->
  NR.no_overlap_with a1 r l = NR.no_overlap_with a2 r l.
Proof.
  intros P Hr. induction l as [|s rest IH]; intro Hi; [reflexivity|]. cbn [NR.no_overlap_with].
  rewrite (ov_eq alo ahi a1 a2 C1 C2 (NR.to_rect r) (NR.to_rect s));
    [|apply P; [exact Hr|apply Hi; left; reflexivity]].
  rewrite IH; [reflexivity|]. intros x Hx. apply Hi. right. exact Hx.
Qed.
Lemma nr_no_overlaps_eq L l : RP alo ahi L -> incl (map NR.to_rect l) L ->
  NR.no_overlaps a1 l = NR.no_overlaps a2 l.
Proof.
  intros P. induction l as [|r rest IH]; intro Hi; [reflexivity|]. cbn [NR.no_overlaps].
  assert (Hr : incl (map NR.to_rect rest) L) by (intros x Hx; apply Hi; right; exact Hx).
  rewrite (nr_no_overlap_with_eq L r rest P (Hi _ (or_introl eq_refl)) Hr), (IH Hr). reflexivity.
Qed.

Lemma swap0g_In {A} (l : list A) b y : In y (NR.swap0g l b) -> In y l.
Proof.
  unfold NR.swap0g. destruct l as [|h r]; [intros []|]. destruct (nth_error (h :: r) b) as [x|] eqn:E; [|auto].
  intro H. apply set_nth_In in H. destruct H as [->|H]; [eapply nth_error_In; exact E|].
  apply set_nth_In in H. destruct H as [->|H]; [left; reflexivity|exact H].
Qed.

Lemma m_create_stog_eq rs :
  robust_stog lo hi alo ahi (map NR.to_rect (map (fun r => NR.set_mloc r NOPOLY) rs)) = true ->
  NR.m_create_stog e1 a1 rs = NR.m_create_stog e2 a2 rs.
Proof.
  intro R. apply (robust_stog_RS lo hi alo ahi) in R. unfold NR.m_create_stog.
  destruct rs as [|r0 [|r1 rest]]; [reflexivity|reflexivity|].
  set (rs := r0 :: r1 :: rest) in *. set (rs0 := map (fun r => NR.set_mloc r NOPOLY) rs) in *.
  set (g := map NR.to_rect rs0) in *.
  rewrite (scan_eq lo hi alo ahi e1 e2 a1 a2 B1 B2 C1 C2 g g R 0%nat None).
  destruct (scan e2 a2 g g 0 None) as [[b ab]|]; [|reflexivity].
  destruct (NR.swap0g rs0 b) as [|t rest'] eqn:E; [reflexivity|].
  assert (Em : map (fun r => NR.set_mloc r (find_location e1 a1 (NR.to_rect t) (NR.to_rect r))) rest' =
               map (fun r => NR.set_mloc r (find_location e2 a2 (NR.to_rect t) (NR.to_rect r))) rest').
  { apply map_ext_in. intros r Hr. f_equal.
    apply (fl_eq lo hi alo ahi e1 e2 a1 a2 B1 B2 C1 C2). apply R; apply in_map; apply (swap0g_In rs0 b); rewrite E.
    - left. reflexivity.
    - right. exact Hr. }
  rewrite Em. reflexivity.
Qed.

Lemma cr_overlaps_eq ms : forallb (robust_module lo hi alo ahi) ms = true ->
  NR.cr_overlaps a1 ms = NR.cr_overlaps a2 ms.
Proof.
  induction ms as [|m rest IH]; intro R; [reflexivity|]. cbn [forallb] in R. apply andb_true_iff in R.
  destruct R as [Rm Rr]. cbn [NR.cr_overlaps]. rewrite (IH Rr).
  replace (NR.cr_overlap a1 m) with (NR.cr_overlap a2 m); [reflexivity|].
  unfold NR.cr_overlap. unfold robust_module in Rm. apply andb_true_iff in Rm. destruct Rm as [Rm _].
  destruct (NR.m_hard m && negb (NR.m_terminal m)); [|reflexivity].
  rewrite (nr_no_overlaps_eq _ (NR.m_rects m) (robust_pairs_RP alo ahi _ Rm) (incl_refl _)). reflexivity.
Qed.
Lemma cr_stogs_eq ms : forallb (robust_module lo hi alo ahi) ms = true ->
  NR.cr_stogs e1 a1 ms = NR.cr_stogs e2 a2 ms.
Proof.
  induction ms as [|m rest IH]; intro R; [reflexivity|]. cbn [forallb] in R. apply andb_true_iff in R.
  destruct R as [Rm Rr]. cbn [NR.cr_stogs]. rewrite (IH Rr).
  replace (NR.cr_stog e1 a1 m) with (NR.cr_stog e2 a2 m); [reflexivity|].
  unfold NR.cr_stog. unfold robust_module in Rm. apply andb_true_iff in Rm. destruct Rm as [_ Rm].
  destruct (NR.m_rects m) as [|r0 r] eqn:E; [reflexivity|].
  unfold stog_rects in Rm. rewrite E in Rm. rewrite (m_create_stog_eq (r0 :: r) Rm). reflexivity.
Qed.

(* the part of _create_rectangles after the tolerances are known *)
Lemma create_rectangles_view d1 d2 ms ms1 :
  NR.cr_squares sqrt_o ms = NR.Ok ms1 ->
  NR.epsilon_after sqrt_o d1 ms1 = Some (e1, a1) -> NR.epsilon_after sqrt_o d2 ms1 = Some (e2, a2) ->
  forallb (robust_module lo hi alo ahi) ms1 = true ->
  match NR.create_rectangles sqrt_o d1 ms, NR.create_rectangles sqrt_o d2 ms with
  | NR.Ok (x1, y1, _), NR.Ok (x2, y2, _) => x1 = x2 /\ y1 = y2
  | NR.Reject r1, NR.Reject r2 => r1 = r2
  | _, _ => False
  end.
Proof.
  intros Es E1 E2 R. unfold NR.create_rectangles. rewrite Es. cbn [NR.bind]. rewrite E1, E2.
  rewrite (cr_overlaps_eq ms1 R), (cr_stogs_eq ms1 R).
  destruct (NR.cr_overlaps a2 ms1) as [[]|x]; cbn [NR.bind]; [|reflexivity].
  destruct (NR.cr_stogs e2 a2 ms1) as [p|x]; cbn [NR.bind]; [|reflexivity].
  destruct (NR.assert _ _) as [[]|x]; cbn [NR.bind]; [split; reflexivity|reflexivity].
Qed.

Theorem eps_insensitive_read_netlist d1 d2 t :
  (forall p ms1, NR.parse_netlist t = NR.Ok p -> NR.cr_squares sqrt_o (fst p) = NR.Ok ms1 ->
     NR.epsilon_after sqrt_o d1 ms1 = Some (e1, a1) /\ NR.epsilon_after sqrt_o d2 ms1 = Some (e2, a2)) ->
  robust_netlist t = true ->
  nl_result_view (NR.read_netlist sqrt_o d1 t) = nl_result_view (NR.read_netlist sqrt_o d2 t).
Proof.
  intros He R. unfold NR.read_netlist. unfold robust_netlist in R.
  destruct (NR.parse_netlist t) as [p|x] eqn:Ep; cbn [NR.bind]; [|reflexivity].
  destruct (NR.cr_squares sqrt_o (fst p)) as [ms1|x] eqn:Es.
  - destruct (He p ms1 eq_refl Es) as [E1 E2].
    pose proof (create_rectangles_view d1 d2 (fst p) ms1 Es E1 E2 R) as V.
    destruct (NR.create_rectangles sqrt_o d1 (fst p)) as [[[x1 y1] z1]|r1];
      destruct (NR.create_rectangles sqrt_o d2 (fst p)) as [[[x2 y2] z2]|r2]; try contradiction.
    + destruct V as [-> ->]. cbn [NR.bind].
      destruct (NR.resolve_edges _ _) as [nets|x]; cbn [NR.bind]; reflexivity.
    + subst r2. reflexivity.
  - unfold NR.create_rectangles. rewrite Es. reflexivity.
Qed.
End NetlistOps.

(* ------------------------------------------------------------------ *)
(* the diagram store: what was encoded before does not change the      *)
(* meaning of what is encoded now (from C07's post_exact)              *)
(* ------------------------------------------------------------------ *)
From FrameModel Require Import PB.Expr PB.Cnf PB.Amo PB.Robdd PB.Codify PB.Sat PB.SatFacts.

Lemma run_post_status m1 s1 m2 s2 p m1' s1' st1 m2' s2' st2 :
  run_post m1 s1 p = Some (m1', s1', st1) -> run_post m2 s2 p = Some (m2', s2', st2) -> st1 = st2.
Proof.
  destruct p as [v|c|l x|l|k l|i d]; cbn [run_post]; intros H1 H2;
    try (inversion H1; inversion H2; reflexivity).
  - destruct (k <? 3)%Z; [inversion H1; inversion H2; reflexivity|].
    destruct (heule _ _ (auxcount s1) _) as [[? ?]|]; [|discriminate].
    destruct (heule _ _ (auxcount s2) _) as [[? ?]|]; [|discriminate].
    inversion H1; inversion H2; reflexivity.
  - unfold pseudobool in *. destruct (isclause i); try (inversion H1; inversion H2; reflexivity).
    destruct (is_ge (iop i)); [|inversion H1; inversion H2; reflexivity].
    destruct (getrobdd d i m1) as [[r1 x1]|]; [|discriminate].
    destruct (getrobdd d i m2) as [[r2 x2]|]; [|discriminate].
    destruct (codify _ x1 r1 s1); [|discriminate]. destruct (codify _ x2 r2 s2); [|discriminate].
    inversion H1; inversion H2; reflexivity.
Qed.
Lemma run_posts_status : forall ps m1 s1 m2 s2 m1' s1' sts1 m2' s2' sts2,
  run_posts m1 s1 ps = Some (m1', s1', sts1) -> run_posts m2 s2 ps = Some (m2', s2', sts2) -> sts1 = sts2.
Proof.
  induction ps as [|p r IH]; cbn [run_posts]; intros m1 s1 m2 s2 m1' s1' sts1 m2' s2' sts2 H1 H2.
  - inversion H1; inversion H2; reflexivity.
  - destruct (run_post m1 s1 p) as [[[x1 y1] z1]|] eqn:E1; [|discriminate].
    destruct (run_post m2 s2 p) as [[[x2 y2] z2]|] eqn:E2; [|discriminate].
    destruct (run_posts x1 y1 r) as [[[u1 v1] w1]|] eqn:F1; [|discriminate].
    destruct (run_posts x2 y2 r) as [[[u2 v2] w2]|] eqn:F2; [|discriminate].
    inversion H1; inversion H2; subst. f_equal.
    + exact (run_post_status _ _ _ _ _ _ _ _ _ _ _ E1 E2).
    + exact (IH _ _ _ _ _ _ _ _ _ _ F1 F2).
Qed.

Theorem memory_independent : forall (m1 m2 : memory) ps, mem_wf m1 -> mem_wf m2 -> Forall post_ok ps ->
  exists m1' s1 m2' s2 sts,
    run_posts m1 empty_mgr ps = Some (m1', s1, sts) /\ run_posts m2 empty_mgr ps = Some (m2', s2, sts) /\
    mem_wf m1' /\ mem_wf m2' /\
    (forall a, ext a (clauses s1) <-> ext a (clauses s2)) /\
    (forall a, ext a (clauses s1) <-> accepted_hold a ps sts).
Proof.
  intros m1 m2 ps W1 W2 Ok.
  destruct (post_exact m1 ps W1 Ok) as (x1 & s1 & sts1 & E1 & _ & X1).
  destruct (post_exact m2 ps W2 Ok) as (x2 & s2 & sts2 & E2 & _ & X2).
  destruct (run_posts_spec ps m1 empty_mgr (inv_empty m1 W1) Ok) as (y1 & t1 & u1 & F1 & I1 & _).
  destruct (run_posts_spec ps m2 empty_mgr (inv_empty m2 W2) Ok) as (y2 & t2 & u2 & F2 & I2 & _).
  rewrite E1 in F1. rewrite E2 in F2.
  injection F1 as -> -> ->. injection F2 as -> -> ->.
  pose proof (run_posts_status _ _ _ _ _ _ _ _ _ _ _ E1 E2) as Es.
  exists y1, t1, y2, t2, u1. split; [exact E1|]. split; [rewrite Es; exact E2|].
  split; [exact (inv_wf _ _ I1)|]. split; [exact (inv_wf _ _ I2)|]. split; [|exact X1].
  rewrite <- Es in X2.
  intro a. rewrite X1, X2. tauto.
Qed.

(* ------------------------------------------------------------------ *)
(* a run of allocation operations                                      *)
(* ------------------------------------------------------------------ *)
Open Scope Qc_scope.
(* robustness of one operation on the cells it is applied to, and along a run (evaluated at the lower end of
   the band: by the theorems above the run is the same under every tolerance of the band) *)
Definition op_robust (lo hi alo ahi q : Qc) (o : AL.op) (cs : list AL.cell) : bool :=
  match o with
  | AL.OpRefine t l =>
      match AL.refine_cells t l cs with Some new => robust_pairs alo ahi (map AL.crect new) | None => true end
  | AL.OpUniform =>
      match AL.uniform_cells cs with Some new => robust_pairs alo ahi (map AL.crect new) | None => true end
  | AL.OpGriddify =>
      robust_bounds lo hi (map AL.crect cs) &&
      match AL.griddify_cells lo q cs with Some new => robust_pairs alo ahi (map AL.crect new) | None => true end
  end.
Fixpoint steps_robust (lo hi alo ahi q : Qc) (ops : list AL.op) (cs : list AL.cell) : bool :=
  match ops with
  | [] => true
  | o :: r => op_robust lo hi alo ahi q o cs &&
              match AL.run_op lo alo q o cs with
              | Some cs' => steps_robust lo hi alo ahi q r cs'
              | None => true
              end
  end.
Definition robust_alloc (lo hi alo ahi q : Qc) (ops : list AL.op) (cells : list AL.cell) : bool :=
  robust_pairs alo ahi (map AL.crect cells) &&
  match AL.mk_allocation alo cells with
  | Some cs => steps_robust lo hi alo ahi q ops cs
  | None => true
  end.

Section AllocRun.
Variables lo hi alo ahi : Qc.
Hypothesis Lh : lo <= hi.
Hypothesis Ah : alo <= ahi.
Lemma band_lo : band lo hi lo. Proof. split; [apply Qcle_refl|exact Lh]. Qed.
Lemma band_alo : band alo ahi alo. Proof. split; [apply Qcle_refl|exact Ah]. Qed.

Lemma run_op_lo e a q o cs : band lo hi e -> band alo ahi a -> op_robust lo hi alo ahi q o cs = true ->
  AL.run_op e a q o cs = AL.run_op lo alo q o cs.
Proof.
  intros B C R. destruct o as [t l| |]; cbn [AL.run_op op_robust] in *.
  - apply (eps_insensitive_refine alo ahi a alo C band_alo). intros new E. rewrite E in R. exact R.
  - apply (eps_insensitive_uniform alo ahi a alo C band_alo). intros new E. rewrite E in R. exact R.
  - apply andb_true_iff in R. destruct R as [R1 R2].
    apply (eps_insensitive_griddify lo hi alo ahi e lo a alo B band_lo C band_alo q cs R1).
    intros new E. rewrite E in R2. exact R2.
Qed.
Lemma fold_none e a q ops :
  fold_left (fun acc o => match acc with Some cs => AL.run_op e a q o cs | None => None end) ops None = None.
Proof. induction ops; [reflexivity|exact IHops]. Qed.
Lemma run_ops_lo e a q ops : band lo hi e -> band alo ahi a -> forall cs,
  steps_robust lo hi alo ahi q ops cs = true -> AL.run_ops e a q ops cs = AL.run_ops lo alo q ops cs.
Proof.
  intros B C. unfold AL.run_ops. induction ops as [|o r IH]; intros cs R; [reflexivity|].
  cbn [steps_robust] in R. apply andb_true_iff in R. destruct R as [Ro Rr]. cbn [fold_left].
  rewrite (run_op_lo e a q o cs B C Ro).
  destruct (AL.run_op lo alo q o cs) as [cs'|]; [apply IH; exact Rr|].
  rewrite !fold_none. reflexivity.
Qed.

Theorem eps_insensitive_alloc_run e1 a1 e2 a2 q ops cells :
  band lo hi e1 -> band lo hi e2 -> band alo ahi a1 -> band alo ahi a2 ->
  robust_alloc lo hi alo ahi q ops cells = true ->
  match AL.mk_allocation a1 cells with Some cs => AL.run_ops e1 a1 q ops cs | None => None end =
  match AL.mk_allocation a2 cells with Some cs => AL.run_ops e2 a2 q ops cs | None => None end.
Proof.
  intros B1 B2 C1 C2 R. unfold robust_alloc in R. apply andb_true_iff in R. destruct R as [Rp Rs].
  rewrite (eps_insensitive_mk_allocation alo ahi a1 alo C1 band_alo cells Rp).
  rewrite (eps_insensitive_mk_allocation alo ahi a2 alo C2 band_alo cells Rp).
  destruct (AL.mk_allocation alo cells) as [cs|]; [|reflexivity].
  rewrite (run_ops_lo e1 a1 q ops B1 C1 cs Rs), (run_ops_lo e2 a2 q ops B2 C2 cs Rs). reflexivity.
Qed.
End AllocRun.

(* ------------------------------------------------------------------ *)
(* histories                                                           *)
(* ------------------------------------------------------------------ *)
Section History.
Variable sqrt_o : Qc -> Qc.
Hypothesis sqrt_mono : forall x y, x <= y -> sqrt_o x <= sqrt_o y.
Variables leg_input leg_output : Type.
Variable leg_build : leg_input -> leg_output.
Variable leg_params : leg_input -> Qc * Qc * Qc.
Variables lo hi : Qc.
Hypothesis Lh : lo <= hi.
Let alo := sqrt_o lo.
Let ahi := sqrt_o hi.
Notation opn := (opn leg_input).
Notation step := (step sqrt_o leg_input leg_output leg_build leg_params).
Notation run := (run sqrt_o leg_input leg_output leg_build leg_params).
Notation op_cand := (op_cand sqrt_o leg_input).

Lemma Ah : alo <= ahi. Proof. apply sqrt_mono. exact Lh. Qed.

(* the tolerances in the state, if defined, lie in the band; the store is well formed *)
Definition eps_ok (e : option (Qc * Qc)) : Prop :=
  match e with Some (e, a) => band lo hi e /\ band alo ahi a | None => True end.
(* ... and the objects bound to default arguments still have their import-time value *)
Definition dflt_pristine (s : gstate) : Prop := g_dflt s = dflt_init.
Definition st_ok (s : gstate) : Prop := eps_ok (g_eps s) /\ mem_wf (g_mem s) /\ dflt_pristine s.
(* an operation of the history: whatever it would install lies in the band; its posts are in normal form *)
Definition cand_ok (o : opn) : Prop :=
  match op_cand o with Some c => band lo hi c | None => True end.
Definition posts_ok (o : opn) : Prop :=
  match o with OSat _ ps => Forall post_ok ps | _ => True end.

Lemma first_writer_ok cur cand : eps_ok cur -> match cand with Some c => band lo hi c | None => True end ->
  eps_ok (first_writer sqrt_o cur cand).
Proof.
  intros H C. destruct cur as [[e a]|]; [exact H|]. destruct cand as [c|]; [|exact Logic.I].
  cbn. split; [exact C|]. destruct C as [C1 C2]. split; apply sqrt_mono; assumption.
Qed.

Lemma s_init_ok : st_ok s_init.
Proof. split; [exact Logic.I|]. split; [|reflexivity]. intros j v h l E. destruct j; discriminate. Qed.

(* no caller-visible step writes the default objects *)
Lemma dstep_preserves d st : fst (dstep_run d st) = d.
Proof. destruct st; reflexivity. Qed.
Lemma dsteps_preserve l : forall d, fst (dsteps_run d l) = d.
Proof.
  induction l as [|st r IH]; intro d; [reflexivity|]. cbn [dsteps_run].
  pose proof (dstep_preserves d st) as E1. destruct (dstep_run d st) as [d1 o1]. cbn in E1. subst d1.
  pose proof (IH d) as E2. destruct (dsteps_run d r) as [d2 o2]. cbn in E2. subst d2. reflexivity.
Qed.
Lemma step_dflt s o : g_dflt (fst (step s o)) = g_dflt s.
Proof.
  destruct o as [t|d|q ops cells|ps|x|l|M h w]; cbn; try reflexivity.
  - unfold op_sat. destruct (run_posts _ _ _) as [[[? ?] ?]|]; reflexivity.
  - unfold op_defaults. pose proof (dsteps_preserve l (g_dflt s)) as E.
    destruct (dsteps_run (g_dflt s) l) as [d o]. exact E.
Qed.

Lemma step_ok s o : st_ok s -> cand_ok o -> posts_ok o -> st_ok (fst (step s o)).
Proof.
  intros (He & Hm & Hd) C P.
  assert (D : dflt_pristine (fst (step s o))) by (unfold dflt_pristine; rewrite step_dflt; exact Hd).
  unfold cand_ok in C. destruct o as [t|d|q ops cells|ps|x|l|M h w]; cbn in *.
  - split; [apply first_writer_ok; assumption|split; [exact Hm|exact D]].
  - split; [apply first_writer_ok; assumption|split; [exact Hm|exact D]].
  - split; [apply first_writer_ok; assumption|split; [exact Hm|exact D]].
  - unfold op_sat in *.
    destruct (run_posts_spec ps (g_mem s) empty_mgr (inv_empty _ Hm) P) as (m' & s' & sts & E & I & _).
    rewrite E in *. cbn in *. split; [exact He|split; [exact (inv_wf _ _ I)|exact D]].
  - split; [exact He|split; [exact Hm|exact D]].
  - unfold op_defaults in *. destruct (dsteps_run (g_dflt s) l) as [d o]. cbn in *.
    split; [exact He|split; [exact Hm|exact D]].
  - split; [exact He|split; [exact Hm|exact D]].
Qed.

Lemma run_ok h : forall s, st_ok s -> Forall cand_ok h -> Forall posts_ok h -> st_ok (run h s).
Proof.
  induction h as [|o r IH]; intros s Hs Hc Hp; [exact Hs|].
  inversion Hc; inversion Hp; subst. cbn [State.run fold_left]. apply IH; [apply step_ok|..]; assumption.
Qed.

(* ---- the probe ---- *)
(* a netlist that has at least one dimension (otherwise nothing in it is compared with a tolerance) *)
Definition netlist_has_dim (t : YT.ytree) : Prop :=
  forall p ms1, NR.parse_netlist t = NR.Ok p -> NR.cr_squares sqrt_o (fst p) = NR.Ok ms1 ->
    NR.smallest_distance sqrt_o ms1 <> None.
Definition probe_robust (p : opn) : Prop :=
  match p with
  | ONetlist _ t => robust_netlist sqrt_o lo hi alo ahi t = true /\ netlist_has_dim t
  | ODie _ d => robust_die lo hi alo ahi d = true
  | OAlloc _ q ops cells => robust_alloc lo hi alo ahi q ops cells = true
  | OSat _ ps => True
  | OLegal _ _ => True
  | ODefaults _ _ => True
  | OStrop _ _ _ _ => True
  end.

Lemma die_model_noparse e a deps tin d : DM.parse d = None -> DM.die_model e a deps tin d = DM.Reject DM.RParse.
Proof. intro E. unfold DM.die_model, DM.die_with_cover. rewrite E. reflexivity. Qed.
Lemma alloc_nocand a cells : alloc_cand cells = None -> AL.mk_allocation a cells = None.
Proof.
  unfold alloc_cand, AL.mk_allocation. destruct cells as [|c r]; [reflexivity|].
  destruct (forallb AL.cell_ok (c :: r) && AL.in_quadrant (c :: r)); [discriminate|reflexivity].
Qed.

(* the effective tolerances of a probe: those of the state, or the probe's own *)
Lemma eff_some e c : eps_ok e -> band lo hi c ->
  exists x a, first_writer sqrt_o e (Some c) = Some (x, a) /\ band lo hi x /\ band alo ahi a.
Proof.
  intros H C. pose proof (first_writer_ok e (Some c) H C) as K.
  destruct (first_writer sqrt_o e (Some c)) as [[x a]|] eqn:E.
  - exists x, a. split; [reflexivity|exact K].
  - destruct e as [[? ?]|]; discriminate.
Qed.

Theorem probe_independent s1 s2 p : st_ok s1 -> st_ok s2 -> cand_ok p -> posts_ok p -> probe_robust p ->
  obs_equiv leg_output (snd (step s1 p)) (snd (step s2 p)).
Proof.
  intros (He1 & Hm1 & Hd1) (He2 & Hm2 & Hd2) C P R. unfold cand_ok in C. unfold dflt_pristine in Hd1, Hd2.
  destruct p as [t|d|q ops cells|ps|x|l|M h w]; cbn in *.
  - (* netlist *)
    destruct R as [R Hd]. unfold netlist_cand in C.
    destruct (NR.parse_netlist t) as [p|r] eqn:Ep.
    2:{ unfold NR.read_netlist. rewrite Ep. reflexivity. }
    destruct (NR.cr_squares sqrt_o (fst p)) as [ms1|r] eqn:Es.
    2:{ unfold NR.read_netlist, NR.create_rectangles. rewrite Ep. cbn [NR.bind]. rewrite Es. reflexivity. }
    specialize (Hd p ms1 Ep Es).
    destruct (NR.smallest_distance sqrt_o ms1) as [dd|] eqn:Ed; [|contradiction]. cbn in C.
    assert (K : forall e, eps_ok e -> exists x a, NR.epsilon_after sqrt_o e ms1 = Some (x, a) /\
                                       band lo hi x /\ band alo ahi a).
    { intros e He. unfold NR.epsilon_after. destruct e as [[x a]|].
      - exists x, a. split; [reflexivity|exact He].
      - rewrite Ed. exists (dd * NR.tiny), (sqrt_o (dd * NR.tiny)). split; [reflexivity|]. split; [exact C|].
        destruct C. split; apply sqrt_mono; assumption. }
    destruct (K _ He1) as (x1 & y1 & E1 & Bx1 & By1). destruct (K _ He2) as (x2 & y2 & E2 & Bx2 & By2).
    apply (eps_insensitive_read_netlist sqrt_o lo hi alo ahi x1 x2 y1 y2 Bx1 Bx2 By1 By2); [|exact R].
    intros p' ms1' Ep' Es'. rewrite Ep in Ep'. injection Ep' as <-. rewrite Es in Es'. injection Es' as <-.
    split; assumption.
  - (* die *)
    unfold die_cand in C. unfold die_out, die_cand.
    destruct (DM.parse d) as [[[w h] regions]|] eqn:Ep.
    + destruct (eff_some _ _ He1 C) as (x1 & y1 & E1 & Bx1 & By1).
      destruct (eff_some _ _ He2 C) as (x2 & y2 & E2 & Bx2 & By2). rewrite E1, E2.
      exact (eps_insensitive_die_model lo hi alo ahi x1 x2 y1 y2 _ _ d Bx1 Bx2 By1 By2 R).
    + destruct (g_eps s1) as [[? ?]|], (g_eps s2) as [[? ?]|]; cbn;
        rewrite ?(die_model_noparse _ _ _ _ d Ep); reflexivity.
  - (* allocation *)
    unfold alloc_out. destruct (alloc_cand cells) as [c|] eqn:Ec.
    + destruct (eff_some _ _ He1 C) as (x1 & y1 & E1 & Bx1 & By1).
      destruct (eff_some _ _ He2 C) as (x2 & y2 & E2 & Bx2 & By2). rewrite E1, E2.
      exact (eps_insensitive_alloc_run lo hi alo ahi Lh Ah x1 y1 x2 y2 q ops cells Bx1 Bx2 By1 By2 R).
    + destruct (g_eps s1) as [[? ?]|], (g_eps s2) as [[? ?]|]; cbn;
        rewrite ?(alloc_nocand _ cells Ec); reflexivity.
  - (* SAT *)
    unfold op_sat.
    destruct (memory_independent (g_mem s1) (g_mem s2) ps Hm1 Hm2 P)
      as (m1' & t1 & m2' & t2 & sts & E1 & E2 & _ & _ & X & _).
    rewrite E1, E2. cbn. split; [reflexivity|exact X].
  - reflexivity.
  - (* default arguments: both states hold the import-time objects *)
    unfold op_defaults. rewrite Hd1, Hd2. destruct (dsteps_run dflt_init l) as [d o]. reflexivity.
  - (* Strop *)
    rewrite Hd1, Hd2. reflexivity.
Qed.

(* the result of a robust probe after ANY history on designs of comparable scale equals its result as the
   first operation of the process *)
Theorem history_independent : forall (h : list opn) (p : opn),
  Forall cand_ok h -> Forall posts_ok h -> cand_ok p -> posts_ok p -> probe_robust p ->
  obs_equiv leg_output (snd (step (run h s_init) p)) (snd (step s_init p)).
Proof.
  intros h p Hc Hp C P R.
  exact (probe_independent (run h s_init) s_init p (run_ok h s_init s_init_ok Hc Hp) s_init_ok C P R).
Qed.

(* the legaliser's builder never reads the state *)
Theorem legal_independent : forall s1 s2 x, snd (step s1 (OLegal _ x)) = snd (step s2 (OLegal _ x)).
Proof. reflexivity. Qed.
(* the state left by a history never depends on anything but the first writer and the posts *)
Theorem first_writer_wins : forall s o e, g_eps s = Some e -> g_eps (fst (step s o)) = Some e.
Proof.
  intros s o e H. destruct o; cbn; try rewrite H; try reflexivity.
  - unfold op_sat. destruct (run_posts _ _ _) as [[[? ?] ?]|]; exact H.
  - unfold op_defaults. destruct (dsteps_run _ _) as [d o]. exact H.
Qed.
(* nothing ever writes the objects bound to default arguments *)
Theorem defaults_never_written : forall h s, g_dflt (run h s) = g_dflt s.
Proof.
  induction h as [|o r IH]; intro s; [reflexivity|]. cbn [State.run fold_left].
  change (g_dflt (run r (fst (step s o))) = g_dflt s). rewrite IH. apply step_dflt.
Qed.

(* ---- histories that CONTAIN the probed operation and near-duplicates of it ---- *)
(* history_independent puts no condition relating the history to the probe: in particular the history may
   contain the probe itself, any number of times, anywhere *)
Corollary history_with_probe_independent : forall (h1 h2 : list opn) (n : nat) (p : opn),
  Forall cand_ok h1 -> Forall posts_ok h1 -> Forall cand_ok h2 -> Forall posts_ok h2 ->
  cand_ok p -> posts_ok p -> probe_robust p ->
  obs_equiv leg_output (snd (step (run (h1 ++ repeat p (S n) ++ h2) s_init) p)) (snd (step s_init p)).
Proof.
  intros h1 h2 n p C1 P1 C2 P2 C P R. apply history_independent; try assumption.
  - apply Forall_app. split; [exact C1|]. apply Forall_app. split; [|exact C2].
    apply Forall_forall. intros x Hx. apply repeat_spec in Hx. subst x. exact C.
  - apply Forall_app. split; [exact P1|]. apply Forall_app. split; [|exact P2].
    apply Forall_forall. intros x Hx. apply repeat_spec in Hx. subst x. exact P.
Qed.
End History.

(* ------------------------------------------------------------------ *)
(* non-vacuity                                                         *)
(* ------------------------------------------------------------------ *)
Definition ex_trunk : Rect := mkRect (qc 2 1) (qc 2 1) (qc 2 1) (qc 2 1) false true "_" NOPOLY.
(* a branch attached exactly to the east side of the trunk *)
Definition ex_branch : Rect := mkRect (qc 4 1) (qc 2 1) (qc 2 1) (qc 1 1) false true "_" NOPOLY.
(* the same branch 1e-6 further east: a gap inside the band [1e-9, 1e-3] *)
Definition ex_branch_gap : Rect := mkRect (qc 4000001 1000000) (qc 2 1) (qc 2 1) (qc 1 1) false true "_" NOPOLY.
Definition ex_lo : Qc := qc 1 1000000000.
Definition ex_hi : Qc := qc 1 1000.

(* a robust probe: the theorem applies, and the recognised orthogon is not trivial *)
Example robust_probe_exists :
  robust_stog ex_lo ex_hi ex_lo ex_hi [ex_trunk; ex_branch] = true /\
  create_stog ex_lo ex_lo [ex_trunk; ex_branch] = create_stog ex_hi ex_hi [ex_trunk; ex_branch] /\
  exists rs, create_stog ex_lo ex_lo [ex_trunk; ex_branch] = Some (true, rs).
Proof. split; [vm_compute; reflexivity|]. split; [vm_compute; reflexivity|]. eexists. vm_compute. reflexivity. Qed.

(* a non-robust probe: two tolerances of the band give different answers (F15: the answer depends on which
   design was loaded first) *)
Example nonrobust_probe_differs :
  robust_stog ex_lo ex_hi ex_lo ex_hi [ex_trunk; ex_branch_gap] = false /\
  band ex_lo ex_hi ex_lo /\ band ex_lo ex_hi ex_hi /\
  touches ex_lo ex_trunk ex_branch_gap <> touches ex_hi ex_trunk ex_branch_gap /\
  find_location ex_lo ex_lo ex_trunk ex_branch_gap <> find_location ex_hi ex_hi ex_trunk ex_branch_gap /\
  create_stog ex_lo ex_lo [ex_trunk; ex_branch_gap] <> create_stog ex_hi ex_hi [ex_trunk; ex_branch_gap].
Proof.
  split; [vm_compute; reflexivity|].
  split; [split; apply Qcleb_true; vm_compute; reflexivity|].
  split; [split; apply Qcleb_true; vm_compute; reflexivity|].
  split; [vm_compute; discriminate|]. split; vm_compute; discriminate.
Qed.

(* the hypotheses of history_independent are satisfiable: a history that installs a tolerance and fills the
   store, then a robust allocation probe (sqrt instantiated by a monotone function) *)
Definition ex_cell (x : Qc) (m : string) : AL.cell :=
  AL.mkCell (mkRect x (qc 1 1) (qc 2 1) (qc 2 1) false false "_" NOPOLY) [(m, qc 1 2)] 0.
Definition ex_hist : list (opn unit) :=
  [OAlloc unit (qc 1 100) [] [ex_cell (qc 1 1) "A"; ex_cell (qc 3 1) "B"];
   OSat unit [PNewVar "x"; PNewVar "y"; PIneq (mkI [mkT "x" true 2; mkT "y" true 2; mkT "z" true 1] 3 GE) false]].
Definition ex_probe : opn unit :=
  OAlloc unit (qc 1 100) [AL.OpRefine (qc 3 4) 1; AL.OpGriddify] [ex_cell (qc 100 1) "A"; ex_cell (qc 102 1) "B"].
Definition ex_band_lo : Qc := qc 1 1000000000000000.
Definition ex_band_hi : Qc := qc 1 100000000.
Example history_hypotheses_satisfiable :
  Forall (cand_ok (fun x => x) unit ex_band_lo ex_band_hi) ex_hist /\
  Forall (posts_ok unit) ex_hist /\
  cand_ok (fun x => x) unit ex_band_lo ex_band_hi ex_probe /\
  probe_robust (fun x => x) unit ex_band_lo ex_band_hi ex_probe /\
  (exists e, g_eps (run (fun x => x) unit unit (fun _ => tt) (fun _ => (0, 0, 0)) ex_hist s_init) = Some e) /\
  (exists n m, g_mem (run (fun x => x) unit unit (fun _ => tt) (fun _ => (0, 0, 0)) ex_hist s_init) = n :: m) /\
  exists cs, snd (step (fun x => x) unit unit (fun _ => tt) (fun _ => (0, 0, 0)) s_init ex_probe)
             = RAlloc unit (Some cs) /\ List.length cs = 4%nat.
Proof.
  split. { apply Forall_cons; [unfold cand_ok; vm_compute; split; discriminate|].
           apply Forall_cons; [exact Logic.I|apply Forall_nil]. }
  split. { apply Forall_cons; [exact Logic.I|]. apply Forall_cons; [|apply Forall_nil].
           cbn. apply Forall_cons; [exact Logic.I|]. apply Forall_cons; [exact Logic.I|].
           apply Forall_cons; [|apply Forall_nil].
           cbn. repeat (apply Forall_cons; [reflexivity|]). apply Forall_nil. }
  split. { unfold cand_ok. vm_compute. split; discriminate. }
  split. { vm_compute. reflexivity. }
  split. { eexists. vm_compute. reflexivity. }
  split. { eexists. eexists. vm_compute. reflexivity. }
  eexists. split; vm_compute; reflexivity.
Qed.

(* ---- histories of RELATED designs ---- *)
(* history_independent quantifies over histories containing the probe's own design and near-duplicates of it.
   Two dies 6 x 4 with EXACTLY the same cut coordinates (x: 0 2 4 6, y: 0 2 4; 2 rows x 3 columns of cells) and
   other occupied cells: [ex_die_other] occupies cells (row 0, column 2) and (row 1, column 1), [ex_die_probe]
   occupies (1, 0) and (1, 1).  The history executes both, twice, the probe's own design included; the hypotheses
   of the theorem hold, the two designs have different results, and the model's answer for the probe after the
   history is the decomposition of the probe's own cells (ground = the bottom row and the top-right cell). *)
Definition ex_reg (x y : Qc) (tag : string) : DM.ytree :=
  DM.YList [DM.YNum x; DM.YNum y; DM.YNum (qc 2 1); DM.YNum (qc 2 1); DM.YStr tag].
Definition ex_die (regs : list DM.ytree) : DM.desc :=
  DM.mkDesc [("width"%string, DM.YNum (qc 6 1)); ("height"%string, DM.YNum (qc 4 1));
             ("regions"%string, DM.YList regs)] [].
Definition ex_die_other : opn unit := ODie unit (ex_die [ex_reg (qc 5 1) (qc 1 1) "BRAM"; ex_reg (qc 3 1) (qc 3 1) "#"]).
Definition ex_die_probe : opn unit := ODie unit (ex_die [ex_reg (qc 1 1) (qc 3 1) "DSP"; ex_reg (qc 3 1) (qc 3 1) "DSP"]).
Definition ex_rel_hist : list (opn unit) := [ex_die_other; ex_die_probe; ex_die_other; ex_die_probe].
Definition box4 (r : Rect) : Qc * Qc * Qc * Qc := (cx r, cy r, rw r, rh r).
Definition box4_eqb (a b : Qc * Qc * Qc * Qc) : bool :=
  let '(a1, a2, a3, a4) := a in let '(b1, b2, b3, b4) := b in
  Qceqb a1 b1 && Qceqb a2 b2 && Qceqb a3 b3 && Qceqb a4 b4.
Fixpoint boxes_eqb (l m : list (Qc * Qc * Qc * Qc)) : bool :=
  match l, m with
  | [], [] => true
  | a :: l', b :: m' => box4_eqb a b && boxes_eqb l' m'
  | _, _ => false
  end.
Definition ex_step := step (fun x => x) unit unit (fun _ => tt) (fun _ => (0, 0, 0)).
Definition ex_run := run (fun x => x) unit unit (fun _ => tt) (fun _ => (0, 0, 0)).

Example related_history_hypotheses_satisfiable :
  Forall (cand_ok (fun x => x) unit ex_band_lo ex_band_hi) ex_rel_hist /\
  Forall (posts_ok unit) ex_rel_hist /\
  cand_ok (fun x => x) unit ex_band_lo ex_band_hi ex_die_probe /\
  probe_robust (fun x => x) unit ex_band_lo ex_band_hi ex_die_probe /\
  In ex_die_probe ex_rel_hist /\
  snd (ex_step s_init ex_die_other) <> snd (ex_step s_init ex_die_probe) /\
  exists g sp bl fx,
    snd (ex_step (ex_run ex_rel_hist s_init) ex_die_probe) = RDie unit (DM.Accept g sp bl fx) /\
    snd (ex_step s_init ex_die_probe) = RDie unit (DM.Accept g sp bl fx) /\
    boxes_eqb (map box4 g) [(qc 3 1, qc 1 1, qc 6 1, qc 2 1); (qc 5 1, qc 3 1, qc 2 1, qc 2 1)] = true /\
    boxes_eqb (map box4 sp) [(qc 1 1, qc 3 1, qc 2 1, qc 2 1); (qc 3 1, qc 3 1, qc 2 1, qc 2 1)] = true.
Proof.
  split. { repeat (apply Forall_cons; [unfold cand_ok; vm_compute; split; discriminate|]). apply Forall_nil. }
  split. { repeat (apply Forall_cons; [exact Logic.I|]). apply Forall_nil. }
  split. { unfold cand_ok. vm_compute. split; discriminate. }
  split. { vm_compute. reflexivity. }
  split. { right. left. reflexivity. }
  split. { vm_compute. discriminate. }
  eexists. eexists. eexists. eexists.
  split; [vm_compute; reflexivity|]. split; [vm_compute; reflexivity|]. split; vm_compute; reflexivity.
Qed.

(* a history using (and changing) objects built from default arguments and building Strops with and without
   sizes, then the same calls again: the default objects are the import-time ones *)
Definition ex_dflt_hist : list (opn unit) :=
  [ODefaults unit [DUse; DIneq (Some (TAddTerm TZero "a" true 2)) None GE; DExpr; DUse];
   OStrop unit [[true; true]; [false; true]] (Some [qc 3 2; qc 1 2]) None;
   OStrop unit [[true; true]; [false; true]] None None].
Example default_objects_pristine :
  g_dflt (ex_run ex_dflt_hist s_init) = dflt_init /\
  snd (ex_step (ex_run ex_dflt_hist s_init) (ODefaults unit [DIneq None None LE; DExpr])) =
    RDefaults unit [DOIneq (mkI [] 0 GE); DOExpr zero] /\
  exists i, snd (ex_step (ex_run ex_dflt_hist s_init) (OStrop unit [[true; true]; [false; true]] None None)) =
    RStrop unit (Some (i, true, [1; 1], [1; 1])).
Proof. split; [vm_compute; reflexivity|]. split; [vm_compute; reflexivity|]. eexists. vm_compute. reflexivity. Qed.
