(* C20 facts, part 1: the tolerance-dependent operations give the same result under every tolerance of a band
   [lo, hi] (area band [alo, ahi]) on inputs that are robust for the band: every compared difference is below lo
   or above hi, every overlap area below alo or above ahi.  Built bottom-up: comparisons, touches / overlap /
   find_location, create_stog, uniq / gather_boundaries, Allocation, refine, griddify, Die, Netlist. *)
From Coq Require Import ZArith List Bool String Lia.
From FrameModel Require Import Num.QcTac Geometry.Rect Stog.CreateStog History.State.
Import ListNotations.
Open Scope Qc_scope.

Definition band (lo hi e : Qc) : Prop := lo <= e /\ e <= hi.

Lemma bool_eq_iff (a b : bool) : (a = true <-> b = true) -> a = b.
Proof. destruct a, b; intros [H1 H2]; try reflexivity; [symmetry; apply H1|apply H2]; reflexivity. Qed.

Lemma gapok_cases lo hi d : gapok lo hi d = true -> d < lo \/ hi < d.
Proof. unfold gapok. intro H. apply orb_true_iff in H. destruct H as [H|H]; qb2p; auto. Qed.

(* ---- the three shapes of comparison ---- *)
Lemma gap_ltb_r lo hi d e1 e2 : gapok lo hi d = true -> band lo hi e1 -> band lo hi e2 ->
  Qcltb d e1 = Qcltb d e2.
Proof.
  intros G [A1 B1] [A2 B2]. apply gapok_cases in G. apply bool_eq_iff. rewrite !Qcltb_true.
  destruct G; split; intro; qlra.
Qed.
Lemma gap_leb_r lo hi d e1 e2 : gapok lo hi d = true -> band lo hi e1 -> band lo hi e2 ->
  Qcleb d e1 = Qcleb d e2.
Proof.
  intros G [A1 B1] [A2 B2]. apply gapok_cases in G. apply bool_eq_iff. rewrite !Qcleb_true.
  destruct G; split; intro; qlra.
Qed.
Lemma gap_ltb_l lo hi d e1 e2 : gapok lo hi d = true -> band lo hi e1 -> band lo hi e2 ->
  Qcltb e1 d = Qcltb e2 d.
Proof.
  intros G [A1 B1] [A2 B2]. apply gapok_cases in G. apply bool_eq_iff. rewrite !Qcltb_true.
  destruct G; split; intro; qlra.
Qed.

(* ---- the code's comparisons ---- *)
Lemma gap_leb_plus lo hi a b e1 e2 : gapok lo hi (a - b) = true -> band lo hi e1 -> band lo hi e2 ->
  Qcleb a (b + e1) = Qcleb a (b + e2).
Proof.
  intros G [A1 B1] [A2 B2]. apply gapok_cases in G. apply bool_eq_iff. rewrite !Qcleb_true.
  destruct G; split; intro; qlra.
Qed.
Lemma gap_ltb_minus lo hi a b e1 e2 : gapok lo hi (a - b) = true -> band lo hi e1 -> band lo hi e2 ->
  Qcltb (a - e1) b = Qcltb (a - e2) b.
Proof.
  intros G [A1 B1] [A2 B2]. apply gapok_cases in G. apply bool_eq_iff. rewrite !Qcltb_true.
  destruct G; split; intro; qlra.
Qed.
Lemma gap_ltb_plus lo hi a b e1 e2 : gapok lo hi (a - b) = true -> band lo hi e1 -> band lo hi e2 ->
  Qcltb a (b + e1) = Qcltb a (b + e2).
Proof.
  intros G [A1 B1] [A2 B2]. apply gapok_cases in G. apply bool_eq_iff. rewrite !Qcltb_true.
  destruct G; split; intro; qlra.
Qed.
Lemma gap_ltb_left lo hi a b e1 e2 : gapok lo hi (b - a) = true -> band lo hi e1 -> band lo hi e2 ->
  Qcltb (a + e1) b = Qcltb (a + e2) b.
Proof.
  intros G [A1 B1] [A2 B2]. apply gapok_cases in G. apply bool_eq_iff. rewrite !Qcltb_true.
  destruct G; split; intro; qlra.
Qed.

(* ------------------------------------------------------------------ *)
(* touches, overlap, find_location                                     *)
(* ------------------------------------------------------------------ *)
Theorem eps_insensitive_touches lo hi e1 e2 r s :
  band lo hi e1 -> band lo hi e2 -> robust_touches lo hi r s = true ->
  touches e1 r s = touches e2 r s.
Proof.
  intros B1 B2 R. unfold robust_touches in R. qb2p. unfold touches.
  rewrite (gap_leb_plus lo hi _ _ e1 e2 H B1 B2), (gap_leb_plus lo hi _ _ e1 e2 H2 B1 B2),
          (gap_leb_plus lo hi _ _ e1 e2 H1 B1 B2), (gap_leb_plus lo hi _ _ e1 e2 H0 B1 B2). reflexivity.
Qed.

Theorem eps_insensitive_overlap alo ahi a1 a2 r s :
  band alo ahi a1 -> band alo ahi a2 -> robust_overlap alo ahi r s = true ->
  overlap a1 r s = overlap a2 r s.
Proof. intros B1 B2 R. unfold overlap. exact (gap_ltb_l alo ahi _ a1 a2 R B1 B2). Qed.

Theorem eps_insensitive_find_location lo hi alo ahi e1 e2 a1 a2 t r :
  band lo hi e1 -> band lo hi e2 -> band alo ahi a1 -> band alo ahi a2 ->
  robust_fl lo hi alo ahi t r = true ->
  find_location e1 a1 t r = find_location e2 a2 t r.
Proof.
  intros B1 B2 C1 C2 R. unfold robust_fl in R.
  repeat match goal with H : andb _ _ = true |- _ => apply andb_true_iff in H; destruct H end.
  unfold find_location, almost_eq. unfold robust_overlap in *.
  repeat match goal with
  | G : gapok lo hi ?d = true |- context [Qcltb ?d e1] => rewrite (gap_ltb_r lo hi d e1 e2 G B1 B2)
  | G : gapok alo ahi ?d = true |- context [Qcltb a1 ?d] => rewrite (gap_ltb_l alo ahi d a1 a2 G C1 C2)
  | G : gapok lo hi (?a - ?b) = true |- context [Qcltb (?a - e1) ?b] =>
      rewrite (gap_ltb_minus lo hi a b e1 e2 G B1 B2)
  | G : gapok lo hi (?a - ?b) = true |- context [Qcltb ?a (?b + e1)] =>
      rewrite (gap_ltb_plus lo hi a b e1 e2 G B1 B2)
  end.
  reflexivity.
Qed.

(* ------------------------------------------------------------------ *)
(* create_stog                                                         *)
(* ------------------------------------------------------------------ *)
Section Stog.
Variables lo hi alo ahi e1 e2 a1 a2 : Qc.
Hypothesis B1 : band lo hi e1.
Hypothesis B2 : band lo hi e2.
Hypothesis C1 : band alo ahi a1.
Hypothesis C2 : band alo ahi a2.

Definition RS (rs : list Rect) : Prop :=
  forall t r, In t rs -> In r rs -> robust_fl lo hi alo ahi t r = true.

Lemma robust_stog_RS rs : robust_stog lo hi alo ahi rs = true -> RS rs.
Proof.
  unfold robust_stog, RS. intros H t r Ht Hr. rewrite forallb_forall in H. specialize (H t Ht).
  rewrite forallb_forall in H. exact (H r Hr).
Qed.

Lemma robust_fl_set_loc t r l l' :
  robust_fl lo hi alo ahi (set_loc t l) (set_loc r l') = robust_fl lo hi alo ahi t r.
Proof. reflexivity. Qed.

Lemma RS_map_set_loc rs l : RS rs -> RS (map (fun r => set_loc r l) rs).
Proof.
  intros H t r Ht Hr. apply in_map_iff in Ht. apply in_map_iff in Hr.
  destruct Ht as [t' [<- Ht]]. destruct Hr as [r' [<- Hr]]. rewrite robust_fl_set_loc. exact (H t' r' Ht Hr).
Qed.

Lemma fl_eq t r : robust_fl lo hi alo ahi t r = true -> find_location e1 a1 t r = find_location e2 a2 t r.
Proof. exact (eps_insensitive_find_location lo hi alo ahi e1 e2 a1 a2 t r B1 B2 C1 C2). Qed.

Lemma valid_from_eq t i rs : (forall r, In r rs -> robust_fl lo hi alo ahi t r = true) ->
  forall j, valid_from e1 a1 t i j rs = valid_from e2 a2 t i j rs.
Proof.
  induction rs as [|r rest IH]; intros H j; [reflexivity|]. cbn [valid_from].
  rewrite (fl_eq t r (H r (or_introl eq_refl))). rewrite IH; [reflexivity|].
  intros x Hx. apply H. right. exact Hx.
Qed.

Lemma scan_eq all rs : (forall t r, In t rs -> In r all -> robust_fl lo hi alo ahi t r = true) ->
  forall i best, scan e1 a1 all rs i best = scan e2 a2 all rs i best.
Proof.
  induction rs as [|t rest IH]; intros H i best; [reflexivity|]. cbn [scan]. unfold valid_trunk.
  rewrite (valid_from_eq t i all (fun r Hr => H t r (or_introl eq_refl) Hr) 0%nat).
  assert (H' : forall t r, In t rest -> In r all -> robust_fl lo hi alo ahi t r = true).
  { intros x r Hx Hr. apply H; [right; exact Hx|exact Hr]. }
  destruct best as [[b ab]|].
  - destruct (Qcleb (area t) ab); [reflexivity|].
    destruct (valid_from e2 a2 t i 0 all); apply IH; exact H'.
  - destruct (valid_from e2 a2 t i 0 all); apply IH; exact H'.
Qed.

Lemma set_nth_In {A} (l : list A) : forall n x y, In y (set_nth l n x) -> y = x \/ In y l.
Proof.
  induction l as [|h r IH]; intros n x y H; [destruct n; destruct H|].
  destruct n; cbn in H.
  - destruct H as [H|H]; [left; symmetry; exact H|right; right; exact H].
  - destruct H as [H|H]; [right; left; exact H|]. destruct (IH n x y H); [left|right; right]; assumption.
Qed.
Lemma swap0_In l b y : In y (swap0 l b) -> In y l.
Proof.
  unfold swap0. destruct l as [|h r]; [intros []|]. destruct (nth_error (h :: r) b) as [x|] eqn:E; [|auto].
  intro H. apply set_nth_In in H. destruct H as [->|H]; [eapply nth_error_In; exact E|].
  apply set_nth_In in H. destruct H as [->|H]; [left; reflexivity|exact H].
Qed.

Theorem eps_insensitive_create_stog rs : robust_stog lo hi alo ahi rs = true ->
  create_stog e1 a1 rs = create_stog e2 a2 rs.
Proof.
  intro R. apply robust_stog_RS in R. unfold create_stog.
  destruct rs as [|r0 [|r1 rest]]; [reflexivity|reflexivity|].
  set (rs := r0 :: r1 :: rest) in *. set (rs0 := map (fun r => set_loc r NOPOLY) rs).
  assert (R0 : RS rs0) by (apply RS_map_set_loc; exact R).
  rewrite (scan_eq rs0 rs0 R0 0%nat None).
  destruct (scan e2 a2 rs0 rs0 0 None) as [[b ab]|]; [|reflexivity].
  destruct (swap0 rs0 b) as [|t rest'] eqn:E; [reflexivity|].
  f_equal. f_equal. f_equal. apply map_ext_in. intros r Hr. f_equal. apply fl_eq. apply R0.
  - apply (swap0_In rs0 b). rewrite E. left. reflexivity.
  - apply (swap0_In rs0 b). rewrite E. right. exact Hr.
Qed.
End Stog.
