(* C20 facts: the same PATTERN over other coordinates.

   The model of every operation is a function of the design's VALUES (coordinates included) and of the two
   class-wide tolerances - nothing else of the state is read (History/State.v: [step]).  So a table keyed by
   less than the design (the occupancy matrix of a die's grid of cut coordinates, say) cannot be expressed in
   it, and C20_history_independent covers histories whose designs share the probe's pattern and differ in the
   coordinates.  The example makes the hypotheses concrete: two dies whose 3 x 3 matrices of cells are both
   "centre occupied" - 6 x 6 with lines 0 2 4 6 / 0 2 4 6, and 12 x 5 with lines 0 9 11 12 / 0 1 4 5 - are both
   executed (the probe's own design too) before the probe; the two designs decompose differently (the first
   ground region of the second is its wide first column, 9 x 5), and the probe's answer after the history is
   its answer in a fresh process. *)
From Coq Require Import ZArith List Bool String Lia.
From FrameModel Require Import Num.QcTac Geometry.Rect Stog.CreateStog History.State History.StateFacts.
Import ListNotations.
Open Scope Qc_scope.

Definition pat_die (w h cx cy rw rh : Qc) (tag : string) : opn unit :=
  ODie unit (DM.mkDesc [("width"%string, DM.YNum w); ("height"%string, DM.YNum h);
                        ("regions"%string, DM.YList [DM.YList [DM.YNum cx; DM.YNum cy; DM.YNum rw; DM.YNum rh;
                                                               DM.YStr tag]])] []).
Definition pat_a : opn unit := pat_die (qc 6 1) (qc 6 1) (qc 3 1) (qc 3 1) (qc 2 1) (qc 2 1) "DSP".
Definition pat_b : opn unit := pat_die (qc 12 1) (qc 5 1) (qc 10 1) (qc 5 2) (qc 2 1) (qc 3 1) "#".
Definition pat_hist : list (opn unit) := [pat_a; pat_b; pat_a].

Example same_pattern_other_coordinates :
  Forall (cand_ok (fun x => x) unit ex_band_lo ex_band_hi) pat_hist /\
  Forall (posts_ok unit) pat_hist /\
  cand_ok (fun x => x) unit ex_band_lo ex_band_hi pat_b /\
  probe_robust (fun x => x) unit ex_band_lo ex_band_hi pat_b /\
  snd (ex_step s_init pat_a) <> snd (ex_step s_init pat_b) /\
  snd (ex_step (ex_run pat_hist s_init) pat_b) = snd (ex_step s_init pat_b) /\
  exists g sp bl fx,
    snd (ex_step (ex_run pat_hist s_init) pat_b) = RDie unit (DM.Accept g sp bl fx) /\
    List.length g = 4%nat /\
    boxes_eqb (map box4 (firstn 1 g)) [(qc 9 2, qc 5 2, qc 9 1, qc 5 1)] = true.
Proof.
  split. { repeat (apply Forall_cons; [unfold cand_ok; vm_compute; split; discriminate|]). apply Forall_nil. }
  split. { repeat (apply Forall_cons; [exact Logic.I|]). apply Forall_nil. }
  split. { unfold cand_ok. vm_compute. split; discriminate. }
  split. { vm_compute. reflexivity. }
  split. { vm_compute. discriminate. }
  split. { vm_compute. reflexivity. }
  eexists. eexists. eexists. eexists.
  split; [vm_compute; reflexivity|]. split; vm_compute; reflexivity.
Qed.
