(* Model of Netlist.write_yaml: dump_yaml_modules / dump_yaml_module /
   dump_yaml_rectangles / dump_yaml_edges (frame/netlist/yaml_write_netlist.py).
   Definitions only.  The model mirrors the REPAIRED writer
   (fixes/C04-writer-flip-regions.diff): the flip attribute is written, and an
   area that is not a single ground-region entry is written as the mapping
   region -> area (the unchanged writer wrote the total). *)
From FrameModel Require Import Num.QcTac Geometry.Rect Yaml.Tree Yaml.NetlistRead.
Open Scope Qc_scope.
Open Scope string_scope.

Definition write_point (c : Qc * Qc) : ytree := YList [yfloat (fst c); yfloat (snd c)].

(* the area attribute of a soft module *)
Definition write_area (a : list (string * Qc)) : ytree :=
  match a with
  | [(k, v)] => if String.eqb k KW_GROUND then yfloat v
                else YMap (map (fun p => (fst p, yfloat (snd p))) a)
  | _ => YMap (map (fun p => (fst p, yfloat (snd p))) a)
  end.

(* dump_yaml_rectangles *)
Definition write_rect (r : mrect) : ytree :=
  YList ([scalar_tree (mr_x r); scalar_tree (mr_y r); scalar_tree (mr_w r); scalar_tree (mr_h r)]
         ++ (if String.eqb (mr_region r) KW_GROUND then [] else [YStr (mr_region r)]))%list.

Definition opt_entry {A} (k : string) (o : option A) (f : A -> ytree) : list (string * ytree) :=
  match o with Some x => [(k, f x)] | None => [] end.

(* dump_yaml_module: the entries in the order in which the dict receives them *)
Definition write_module (m : module) : list (string * ytree) :=
  ((if m_hard m then []
    else (KW_AREA, write_area (m_area m))
         :: opt_entry KW_CENTER (m_center m) write_point
         ++ opt_entry KW_ASPECT_RATIO (m_ar m) write_point)
   ++ (if m_fixed m then [(KW_FIXED, YBool true)]
       else if m_hard m && negb (m_terminal m) then [(KW_HARD, YBool true)] else [])
   ++ (if m_flip m then [(KW_FLIP, YBool true)] else [])
   ++ (if m_terminal m
       then (KW_TERMINAL, YBool true)
            :: (if m_hard m then opt_entry KW_CENTER (m_center m) write_point else [])
       else [])
   ++ (match m_rects m with
       | [] => []
       | rs => [(KW_RECTANGLES, YList (map write_rect rs))]
       end))%list.

(* dump_yaml_edges: the weight is written when it differs from 1 *)
Definition write_net (e : net) : ytree :=
  YList (map YStr (n_members e) ++ (if Qceqb (n_weight e) 1 then [] else [yfloat (n_weight e)]))%list.

Definition write_netlist (n : netlist) : ytree :=
  YMap [(KW_MODULES, YMap (map (fun m => (m_name m, YMap (write_module m))) (nl_modules n)));
        (KW_NETS, YList (map write_net (nl_nets n)))].
