(* C05: a syntactic well-formedness predicate on documents and the acceptance
   theorem "every well-formed document is loaded".

   [well_formed_doc t] looks at the document only: keys, value formats, which
   attributes go together (whatever their order in the mapping), net members.
   The two geometric checks of Netlist._create_rectangles (rectangles of a hard
   module do not overlap; a flippable module is a single-trunk orthogon) are
   stated on the rectangle entries of the document as well
   ([doc_geometry_ok eps aeps t]), for the epsilons in force. *)
From Coq Require Import Permutation.
From FrameModel Require Import Num.QcTac Geometry.Rect Stog.CreateStog Stog.StogFacts
  Yaml.Tree Yaml.NetlistRead Yaml.NetlistWrite Yaml.NetlistFacts Yaml.NetlistDerived Yaml.NetlistRoundTrip
  Yaml.NetlistImage Yaml.NetlistDoc.
Open Scope Qc_scope.
Open Scope string_scope.

(* ------------------------------------------------------------------ *)
(* association lists                                                    *)
(* ------------------------------------------------------------------ *)
Lemma lookup_app {A} k (l1 l2 : list (string * A)) :
  lookup k (l1 ++ l2) = match lookup k l1 with Some v => Some v | None => lookup k l2 end.
Proof.
  induction l1 as [|[k' v] l1 IH]; cbn [app lookup]; [reflexivity|].
  destruct (String.eqb k k'); [reflexivity|exact IH].
Qed.

Lemma has_key_snoc {A} k k' (p : A) done :
  has_key k (done ++ [(k', p)]) = has_key k done || String.eqb k k'.
Proof.
  unfold has_key. rewrite lookup_app. destruct (lookup k done); [reflexivity|].
  cbn [lookup]. destruct (String.eqb k k'); reflexivity.
Qed.

Lemma nodup_app_key {A} (done : list (string * A)) k p todo :
  nodup_keys (done ++ (k, p) :: todo) = true -> has_key k done = false.
Proof.
  unfold nodup_keys, has_key. induction done as [|[k0 p0] done IH]; intros H; [reflexivity|].
  cbn [app map fst nodup_str] in H. apply andb_true_iff in H. destruct H as [H1 H2].
  apply negb_true_iff in H1. cbn [lookup].
  destruct (String.eqb k k0) eqn:E; [|exact (IH H2)].
  apply String.eqb_eq in E. subst k0. exfalso.
  assert (mem_str k (map fst (done ++ (k, p) :: todo)) = true); [|congruence].
  apply mem_str_in. rewrite map_app. apply in_or_app. right. left. reflexivity.
Qed.

Lemma has_key_lookup {A} k (m : list (string * A)) : has_key k m = is_some (lookup k m).
Proof. reflexivity. Qed.

(* evaluate comparisons of keywords *)
Ltac keq :=
  repeat match goal with
  | |- context [String.eqb ?a ?b] =>
      let v := eval vm_compute in (String.eqb a b) in
      match v with
      | true => change (String.eqb a b) with true
      | false => change (String.eqb a b) with false
      end
  end.

(* ------------------------------------------------------------------ *)
(* the loop of Module.__init__ with the attributes in any order         *)
(* ------------------------------------------------------------------ *)
Lemma init_loop_snoc_ind all (P : mstate -> list (string * pvalue) -> Prop) (Q : string -> pvalue -> Prop) :
  (forall done k p s s', P s done -> has_key k done = false -> Q k p ->
     init_step all k p s = Ok s' -> P s' (done ++ [(k, p)])%list) ->
  forall todo done s s', nodup_keys (done ++ todo) = true -> (forall k p, In (k, p) todo -> Q k p) ->
  P s done -> init_loop all todo s = Ok s' -> P s' (done ++ todo)%list.
Proof.
  intros Hstep. induction todo as [|[k p] todo IH]; intros done s s' Hn HQ HP H.
  - inversion H; subst. rewrite app_nil_r. exact HP.
  - cbn [init_loop] in H. inv_bind H.
    change ((k, p) :: todo) with ([(k, p)] ++ todo)%list. rewrite app_assoc.
    apply (IH _ a).
    + rewrite <- app_assoc. exact Hn.
    + intros k0 p0 Hin. apply HQ. right. exact Hin.
    + eapply Hstep; eauto. eapply nodup_app_key; eauto. apply HQ. left. reflexivity.
    + exact H.
Qed.

Lemma init_loop_succeeds all ps :
  (forall k p, In (k, p) ps -> forall s, exists s', init_step all k p s = Ok s') ->
  forall s, exists s', init_loop all ps s = Ok s'.
Proof.
  induction ps as [|[k p] ps IH]; intros H s; [eexists; reflexivity|].
  cbn [init_loop]. destruct (H k p (or_introl eq_refl) s) as [s1 E]. rewrite E. cbn [bind].
  apply IH. intros k0 p0 Hin. apply H. right. exact Hin.
Qed.

(* value formats *)
Definition ar_range (a : Qc * Qc) : bool := Qcleb 0 (fst a) && Qcleb (fst a) 1 && Qcleb 1 (snd a).

Definition wf_center (v : ytree) : Prop :=
  exists a b x y, v = YList [a; b] /\ as_number a = Some x /\ as_number b = Some y.
Definition wf_ar (v : ytree) : Prop :=
  (exists a, as_number v = Some a /\ 0 < a) \/
  (exists a b x y, v = YList [a; b] /\ as_number a = Some x /\ as_number b = Some y /\
                   0 <= x /\ x <= 1 /\ 1 <= y).
Definition wf_area (v : ytree) : Prop :=
  (exists q, as_number v = Some q /\ 0 < q) \/
  (exists d, v = YMap d /\ d <> [] /\ nodup_keys d = true /\
     Forall (fun p => valid_identifier (fst p) = true /\ exists q, as_number (snd p) = Some q /\ 0 < q) d).

Lemma parse_center_ok v : wf_center v -> exists c, parse_center v = Ok c.
Proof. intros (a & b & x & y & -> & Ha & Hb). cbn. rewrite Ha, Hb. eauto. Qed.

Lemma inv_range a : 0 < a -> ar_range (Qcmin a (1 / a), Qcmax a (1 / a)) = true.
Proof.
  intros Ha. unfold ar_range. cbn [fst snd].
  assert (Hb : a * (1 / a) = 1) by (field; intro E; rewrite E in Ha; qlra).
  revert Hb. generalize (1 / a). intros b Hb.
  assert (Hbp : 0 < b).
  { destruct (Qclt_le_dec 0 b) as [L|L]; [exact L|]. exfalso. qnra. }
  rewrite !andb_true_iff. repeat split; qb2p.
  - qmlra.
  - destruct (Qcmin_spec a b) as [[H E]|[H E]]; rewrite E; clear E.
    + destruct (Qclt_le_dec 1 a) as [L|L]; [exfalso; qnra|exact L].
    + destruct (Qclt_le_dec 1 b) as [L|L]; [exfalso; qnra|exact L].
  - destruct (Qcmax_spec a b) as [[H E]|[H E]]; rewrite E; clear E.
    + destruct (Qclt_le_dec b 1) as [L|L]; [exfalso; qnra|exact L].
    + destruct (Qclt_le_dec a 1) as [L|L]; [exfalso; qnra|exact L].
Qed.

Lemma parse_ar_ok v : wf_ar v -> exists a, parse_ar v = Ok a /\ ar_range a = true.
Proof.
  intros [(a & Ha & Hp)|(a & b & x & y & -> & Ha & Hb & H0 & H1 & H2)]; unfold parse_ar.
  - rewrite Ha. assert (E : Qcltb 0 a = true) by (qb2p; exact Hp). rewrite E. cbn [assert bind].
    eexists. split; [reflexivity|]. apply inv_range. exact Hp.
  - cbn [as_number as_scalar]. rewrite Ha, Hb.
    assert (E : ar_range (x, y) = true).
    { unfold ar_range. cbn [fst snd]. rewrite !andb_true_iff. repeat split; qb2p; assumption. }
    unfold ar_range in E. cbn [fst snd] in E. rewrite E. cbn [assert bind]. eexists. split; [reflexivity|exact E].
Qed.

Lemma read_area_dict_wf d :
  Forall (fun p => valid_identifier (fst p) = true /\ exists q, as_number (snd p) = Some q /\ 0 < q) d ->
  exists r, read_area_dict d = Ok r /\ List.length r = List.length d.
Proof.
  induction 1 as [|[k v] d (Hv & q & Hq & Hp) _ (r & IH & Hl)]; [exists []; auto|].
  cbn [read_area_dict fst snd] in *. rewrite Hv, Hq. cbn [assert bind].
  assert (E : Qcltb 0 q = true) by (qb2p; exact Hp). rewrite E, IH. cbn [assert bind].
  eexists. split; [reflexivity|]. cbn. rewrite Hl. reflexivity.
Qed.

Lemma read_region_area_wf v : wf_area v -> exists a, read_region_area v = Ok a /\ a <> [].
Proof.
  intros [(q & Hq & Hp)|(d & -> & Hne & Hnd & Hf)]; unfold read_region_area.
  - rewrite Hq. assert (E : Qcltb 0 q = true) by (qb2p; exact Hp). rewrite E. cbn. eexists. split; [reflexivity|discriminate].
  - cbn [as_number as_scalar]. rewrite Hnd. cbn [assert bind].
    destruct (read_area_dict_wf _ Hf) as (r & Hr & Hl). exists r. split; [exact Hr|].
    destruct r; [destruct d; [congruence|discriminate]|discriminate].
Qed.

(* ------------------------------------------------------------------ *)
(* well-formed attribute mappings                                       *)
(* ------------------------------------------------------------------ *)
Definition flag (k : string) (info : list (string * ytree)) : bool :=
  match lookup k info with Some (YBool true) => true | _ => false end.

(* the module is hard: "hard: true", "fixed: true" or a terminal *)
Definition doc_hard (info : list (string * ytree)) : bool :=
  flag KW_HARD info || flag KW_FIXED info || has_key KW_TERMINAL info.

(* one rectangle entry: [x, y, w, h] or, for soft modules, [x, y, w, h, region] *)
Definition wf_rect_entry (regions_allowed : bool) (t : ytree) : Prop :=
  exists x y w h tl sx sy sw sh, t = YList (x :: y :: w :: h :: tl) /\
    as_scalar x = Some sx /\ as_scalar y = Some sy /\ as_scalar w = Some sw /\ as_scalar h = Some sh /\
    0 <= sval sx /\ 0 <= sval sy /\ 0 < sval sw /\ 0 < sval sh /\
    (tl = [] \/ (regions_allowed = true /\ exists s, tl = [YStr s] /\ valid_identifier s = true)).
(* the rectangles attribute: one entry, or a non-empty list of entries *)
Definition wf_rects (regions_allowed : bool) (v : ytree) : Prop :=
  wf_rect_entry regions_allowed v \/
  (exists l, v = YList l /\ l <> [] /\ Forall (wf_rect_entry regions_allowed) l).

Record wf_info (info : list (string * ytree)) : Prop := {
  wi_nodup : nodup_keys info = true;
  wi_known : forall k v, In (k, v) info -> mem_str k known_keys = true;
  wi_center : forall v, In (KW_CENTER, v) info -> wf_center v;
  wi_ar : forall v, In (KW_ASPECT_RATIO, v) info -> wf_ar v;
  wi_area : forall v, In (KW_AREA, v) info -> wf_area v;
  wi_flip : forall v, In (KW_FLIP, v) info -> exists b, v = YBool b;
  (* "hard" / "fixed", when present, say whether the module is hard; never both *)
  wi_hard : forall v, In (KW_HARD, v) info -> v = YBool (doc_hard info) /\ has_key KW_FIXED info = false;
  wi_fixed : forall v, In (KW_FIXED, v) info -> v = YBool (doc_hard info);
  (* a terminal has no area, aspect ratio or flip attribute *)
  wi_terminal : forall v, In (KW_TERMINAL, v) info ->
     v = YBool true /\ has_key KW_AREA info = false /\ has_key KW_ASPECT_RATIO info = false /\
     has_key KW_FLIP info = false;
  wi_rects : forall v, In (KW_RECTANGLES, v) info -> wf_rects (negb (doc_hard info)) v;
  (* soft: an area, not flippable *)
  wi_soft : doc_hard info = false -> has_key KW_AREA info = true /\ flag KW_FLIP info = false;
  (* hard: no area, no aspect ratio, a centre only for terminals, rectangles
     unless a terminal, not both fixed and flippable *)
  wi_hard_attrs : doc_hard info = true ->
     has_key KW_AREA info = false /\ has_key KW_ASPECT_RATIO info = false /\
     (has_key KW_CENTER info = true -> has_key KW_TERMINAL info = true) /\
     (has_key KW_TERMINAL info = false -> has_key KW_RECTANGLES info = true) /\
     (flag KW_FLIP info = true -> flag KW_FIXED info = false);
  (* a fixed terminal has a centre *)
  wi_fixed_terminal : has_key KW_TERMINAL info = true -> flag KW_FIXED info = true ->
     has_key KW_CENTER info = true }.

(* what parse_yaml_module hands to the constructor *)
Definition param_ok (h : bool) (k : string) (p : pvalue) : Prop :=
  match p with
  | PCenter _ => k = KW_CENTER
  | PAR a => k = KW_ASPECT_RATIO /\ ar_range a = true
  | PRaw v => (k = KW_AREA /\ wf_area v) \/ (k = KW_FIXED /\ v = YBool h) \/ (k = KW_HARD /\ v = YBool h) \/
              (k = KW_FLIP /\ exists b, v = YBool b) \/ (k = KW_TERMINAL /\ v = YBool true /\ h = true)
  end.

Lemma known_cases k : mem_str k known_keys = true ->
  k = KW_AREA \/ k = KW_CENTER \/ k = KW_ASPECT_RATIO \/ k = KW_TERMINAL \/ k = KW_HARD \/ k = KW_FIXED \/
  k = KW_FLIP \/ k = KW_RECTANGLES.
Proof.
  intros H. apply mem_str_in in H. cbn in H. intuition.
Qed.

Lemma has_key_of_in {A} k (v : A) m : In (k, v) m -> has_key k m = true.
Proof. intros H. apply has_key_in. eauto. Qed.

Lemma params_of_wf info : wf_info info ->
  forall l, (forall k v, In (k, v) l -> In (k, v) info) ->
  exists ps, parse_params l = Ok ps /\ forall k p, In (k, p) ps -> param_ok (doc_hard info) k p.
Proof.
  intros W. induction l as [|[k v] l IH]; intros Hsub.
  - exists []. split; [reflexivity|]. intros k p [].
  - destruct IH as (ps & Hps & Hok); [intros k0 v0 Hin; apply Hsub; right; exact Hin|].
    assert (Hin : In (k, v) info) by (apply Hsub; left; reflexivity).
    cbn [parse_params]. rewrite Hps.
    destruct (known_cases _ (wi_known _ W _ _ Hin)) as [->|[->|[->|[->|[->|[->|[->| ->]]]]]]];
      cbn [mem_str raw_keys]; keq; cbn [orb bind].
    + eexists. split; [reflexivity|]. intros k p [E|Hp]; [|auto]. inversion E; subst. cbn. left.
      split; [reflexivity|]. apply (wi_area _ W). exact Hin.
    + destruct (parse_center_ok _ (wi_center _ W _ Hin)) as (c & Hc). rewrite Hc. cbn [bind].
      eexists. split; [reflexivity|]. intros k p [E|Hp]; [|auto]. inversion E; subst. reflexivity.
    + destruct (parse_ar_ok _ (wi_ar _ W _ Hin)) as (a & Ha & Hr). rewrite Ha. cbn [bind].
      eexists. split; [reflexivity|]. intros k p [E|Hp]; [|auto]. inversion E; subst. cbn. auto.
    + eexists. split; [reflexivity|]. intros k p [E|Hp]; [|auto]. inversion E; subst. cbn.
      right. right. right. right. destruct (wi_terminal _ W _ Hin) as (-> & _).
      split; [reflexivity|]. split; [reflexivity|]. unfold doc_hard.
      rewrite (has_key_of_in _ _ _ Hin). apply orb_true_r.
    + eexists. split; [reflexivity|]. intros k p [E|Hp]; [|auto]. inversion E; subst. cbn.
      right. right. left. split; [reflexivity|]. apply (wi_hard _ W). exact Hin.
    + eexists. split; [reflexivity|]. intros k p [E|Hp]; [|auto]. inversion E; subst. cbn.
      right. left. split; [reflexivity|]. apply (wi_fixed _ W). exact Hin.
    + eexists. split; [reflexivity|]. intros k p [E|Hp]; [|auto]. inversion E; subst. cbn.
      right. right. right. left. split; [reflexivity|]. apply (wi_flip _ W). exact Hin.
    + eexists. split; [reflexivity|]. exact Hok.
Qed.

(* keys and raw values are kept (the rectangles attribute is dropped) *)
Lemma params_lookup info : forall ps k,
  parse_params info = Ok ps -> k <> KW_RECTANGLES ->
  has_key k ps = has_key k info /\
  (mem_str k raw_keys = true -> lookup k ps = option_map PRaw (lookup k info)).
Proof.
  unfold has_key. induction info as [|[k' v'] info IH]; intros ps k H Hk.
  - inversion H; subst. split; reflexivity.
  - cbn [parse_params] in H. do 2 inv_bind H. inversion H; subst; clear H.
    destruct (IH _ _ E0 Hk) as [A B]. cbn [lookup].
    destruct (String.eqb k k') eqn:Ek.
    + apply String.eqb_eq in Ek. subst k'.
      destruct (mem_str k raw_keys) eqn:Er.
      * inversion E; subst. cbn [lookup]. rewrite String.eqb_refl. split; reflexivity.
      * destruct (String.eqb k KW_CENTER); [inv_bind E; inversion E; subst; cbn [lookup]; rewrite String.eqb_refl; split; [reflexivity|discriminate]|].
        destruct (String.eqb k KW_ASPECT_RATIO); [inv_bind E; inversion E; subst; cbn [lookup]; rewrite String.eqb_refl; split; [reflexivity|discriminate]|].
        destruct (String.eqb k KW_RECTANGLES) eqn:E3; [apply String.eqb_eq in E3; congruence|discriminate].
    + destruct a as [p|]; [cbn [lookup]; rewrite Ek|]; split; assumption.
Qed.

(* ------------------------------------------------------------------ *)
(* the loop: success and final state                                    *)
(* ------------------------------------------------------------------ *)
Lemma step_area all v s : init_step all KW_AREA (PRaw v) s =
  (do a <- read_region_area v;
   Ok (mkMState (s_center s) (s_ar s) (s_terminal s) (s_hard s) (s_fixed s) (s_flip s) a)).
Proof. reflexivity. Qed.
Lemma step_fixed all b s : init_step all KW_FIXED (PRaw (YBool b)) s =
  Ok (mkMState (s_center s) (s_ar s) (s_terminal s) b b (s_flip s) (s_area s)).
Proof. reflexivity. Qed.
Lemma step_hard all b s : init_step all KW_HARD (PRaw (YBool b)) s =
  (do _ <- assert (negb (has_key KW_FIXED all)) R_hard_fixed_exclusive;
   Ok (mkMState (s_center s) (s_ar s) (s_terminal s) b (s_fixed s) (s_flip s) (s_area s))).
Proof. reflexivity. Qed.
Lemma step_flip all b s : init_step all KW_FLIP (PRaw (YBool b)) s =
  Ok (mkMState (s_center s) (s_ar s) (s_terminal s) (s_hard s) (s_fixed s) b (s_area s)).
Proof. reflexivity. Qed.
Lemma step_terminal all b s : init_step all KW_TERMINAL (PRaw (YBool b)) s =
  (do _ <- assert (negb (has_key KW_AREA all)) R_terminal_area;
   do _ <- assert (negb (has_key KW_ASPECT_RATIO all)) R_terminal_ar;
   do _ <- assert (negb (has_key KW_FLIP all)) R_terminal_flip;
   Ok (mkMState (s_center s) (s_ar s) b true (s_fixed s) (s_flip s) (s_area s))).
Proof. reflexivity. Qed.

Lemma step_succeeds all h k p s :
  param_ok h k p -> In (k, p) all ->
  (has_key KW_HARD all = true -> has_key KW_FIXED all = false) ->
  (has_key KW_TERMINAL all = true ->
     has_key KW_AREA all = false /\ has_key KW_ASPECT_RATIO all = false /\ has_key KW_FLIP all = false) ->
  exists s', init_step all k p s = Ok s'.
Proof.
  intros Hp Hin Hh Ht. destruct p as [v|c|a]; cbn [param_ok] in Hp.
  - destruct Hp as [(-> & Ha)|[(-> & ->)|[(-> & ->)|[(-> & b & ->)|(-> & -> & _)]]]].
    + rewrite step_area. destruct (read_region_area_wf _ Ha) as (a & -> & _). cbn. eauto.
    + rewrite step_fixed. eauto.
    + rewrite step_hard. rewrite (Hh (has_key_of_in _ _ _ Hin)). cbn. eauto.
    + rewrite step_flip. eauto.
    + rewrite step_terminal. destruct (Ht (has_key_of_in _ _ _ Hin)) as (-> & -> & ->). cbn. eauto.
  - cbn. eauto.
  - destruct Hp as [_ Hr]. cbn [init_step]. unfold ar_range in Hr. rewrite Hr. cbn. eauto.
Qed.

Definition flagp (k : string) (done : list (string * pvalue)) : bool :=
  match lookup k done with Some (PRaw (YBool true)) => true | _ => false end.

Lemma flagp_snoc_other k k' p done :
  String.eqb k k' = false -> flagp k (done ++ [(k', p)]) = flagp k done.
Proof.
  intros E. unfold flagp. rewrite lookup_app. destruct (lookup k done); [reflexivity|].
  cbn [lookup]. rewrite E. reflexivity.
Qed.
Lemma flagp_snoc_same k p done :
  has_key k done = false ->
  flagp k (done ++ [(k, p)]) = match p with PRaw (YBool true) => true | _ => false end.
Proof.
  unfold has_key, flagp. intros E. rewrite lookup_app. destruct (lookup k done); [discriminate|].
  cbn [lookup]. rewrite String.eqb_refl. reflexivity.
Qed.

(* the state after the attributes in [done] have been processed *)
Definition loop_inv (h : bool) (s : mstate) (done : list (string * pvalue)) : Prop :=
  is_some (s_center s) = has_key KW_CENTER done /\
  is_some (s_ar s) = has_key KW_ASPECT_RATIO done /\
  negb (is_nil (s_area s)) = has_key KW_AREA done /\
  s_terminal s = has_key KW_TERMINAL done /\
  s_fixed s = h && has_key KW_FIXED done /\
  s_flip s = flagp KW_FLIP done /\
  s_hard s = h && (has_key KW_HARD done || has_key KW_FIXED done || has_key KW_TERMINAL done).

Ltac snoc_simpl :=
  rewrite ?has_key_snoc; keq;
  rewrite ?(flagp_snoc_other KW_FLIP) by reflexivity.

Lemma loop_inv_step all h done k p s s' :
  loop_inv h s done -> has_key k done = false -> param_ok h k p ->
  init_step all k p s = Ok s' -> loop_inv h s' (done ++ [(k, p)]).
Proof.
  intros (I1 & I2 & I3 & I4 & I5 & I6 & I7) Hk Hp H.
  destruct s as [c ar te ha fi fl area].
  cbn [s_center s_ar s_terminal s_hard s_fixed s_flip s_area] in *.
  destruct p as [v|c'|a]; cbn [param_ok] in Hp.
  - destruct Hp as [(-> & Ha)|[(-> & ->)|[(-> & ->)|[(-> & b & ->)|(-> & -> & ->)]]]].
    + rewrite step_area in H. destruct (read_region_area_wf _ Ha) as (a & Ea & Hne). rewrite Ea in H.
      inversion H; subst s'; clear H. unfold loop_inv.
      cbn [s_center s_ar s_terminal s_hard s_fixed s_flip s_area]. snoc_simpl.
      rewrite ?orb_false_r, ?orb_true_r. repeat split; auto.
      destruct a; [congruence|reflexivity].
    + rewrite step_fixed in H. inversion H; subst s'; clear H. unfold loop_inv.
      cbn [s_center s_ar s_terminal s_hard s_fixed s_flip s_area]. snoc_simpl.
      rewrite ?orb_false_r, ?orb_true_r, ?andb_true_r. cbn [orb]. rewrite ?andb_true_r. repeat split; auto.
    + rewrite step_hard in H. inv_bind H. inversion H; subst s'; clear H. unfold loop_inv.
      cbn [s_center s_ar s_terminal s_hard s_fixed s_flip s_area]. snoc_simpl.
      rewrite ?orb_false_r, ?orb_true_r, ?andb_true_r. cbn [orb]. rewrite ?andb_true_r. repeat split; auto.
    + rewrite step_flip in H. inversion H; subst s'; clear H. unfold loop_inv.
      cbn [s_center s_ar s_terminal s_hard s_fixed s_flip s_area].
      rewrite (flagp_snoc_same _ _ _ Hk). snoc_simpl.
      rewrite ?orb_false_r. repeat split; auto. destruct b; reflexivity.
    + rewrite step_terminal in H. do 3 inv_bind H. inversion H; subst s'; clear H. unfold loop_inv.
      cbn [s_center s_ar s_terminal s_hard s_fixed s_flip s_area]. snoc_simpl.
      rewrite ?orb_false_r, ?orb_true_r. cbn [andb]. repeat split; auto.
  - subst k. cbn [init_step] in H. inversion H; subst s'; clear H. unfold loop_inv.
    cbn [s_center s_ar s_terminal s_hard s_fixed s_flip s_area is_some]. snoc_simpl.
    rewrite ?orb_false_r, ?orb_true_r. repeat split; auto.
  - destruct Hp as [-> Hr]. cbn [init_step] in H. inv_bind H. inversion H; subst s'; clear H. unfold loop_inv.
    cbn [s_center s_ar s_terminal s_hard s_fixed s_flip s_area is_some]. snoc_simpl.
    rewrite ?orb_false_r, ?orb_true_r. repeat split; auto.
Qed.

Lemma loop_inv0 h : loop_inv h mstate0 [].
Proof. unfold loop_inv, mstate0, has_key, flagp; cbn. rewrite andb_false_r. repeat split. Qed.

(* ------------------------------------------------------------------ *)
(* rectangles                                                           *)
(* ------------------------------------------------------------------ *)
Lemma rect_num_scalar t s : as_scalar t = Some s -> 0 <= sval s -> rect_num t = Ok s.
Proof.
  intros E H. unfold rect_num. rewrite E. assert (B : Qcleb 0 (sval s) = true) by (qb2p; exact H).
  rewrite B. reflexivity.
Qed.

Lemma parse_rectangle_entry f hd ra t :
  wf_rect_entry ra t -> (f || hd = true -> ra = false) -> exists r, parse_rectangle f hd t = Ok r.
Proof.
  intros (x & y & w & h & tl & sx & sy & sw & sh & -> & Ex & Ey & Ew & Eh & Hx & Hy & Hw & Hh & Htl) Hra.
  assert (Bw : Qcltb 0 (sval sw) = true) by (qb2p; exact Hw).
  assert (Bh : Qcltb 0 (sval sh) = true) by (qb2p; exact Hh).
  assert (Hw' : 0 <= sval sw) by (apply Qclt_le_weak; exact Hw).
  assert (Hh' : 0 <= sval sh) by (apply Qclt_le_weak; exact Hh).
  destruct Htl as [->|(Er & s & -> & Hs)]; cbn [parse_rectangle];
    rewrite (rect_num_scalar _ _ Ex Hx), (rect_num_scalar _ _ Ey Hy),
            (rect_num_scalar _ _ Ew Hw'), (rect_num_scalar _ _ Eh Hh'); cbn [bind].
  - unfold finish_rectangle. cbn [negb orb assert bind]. rewrite Bw, Bh. cbn. eauto.
  - rewrite Hs. cbn [assert bind]. unfold finish_rectangle.
    destruct (f || hd) eqn:Efh; [rewrite (Hra eq_refl) in Er; discriminate|].
    cbn [negb orb assert bind]. rewrite Bw, Bh. cbn. eauto.
Qed.

Lemma parse_rect_list_entries f hd ra l :
  Forall (wf_rect_entry ra) l -> (f || hd = true -> ra = false) ->
  exists rs, parse_rect_list f hd l = Ok rs /\ List.length rs = List.length l.
Proof.
  intros H Hra. induction H as [|t l Ht _ (rs & IH & Hl)]; [exists []; auto|].
  destruct (parse_rectangle_entry f hd ra t Ht Hra) as (r & Hr).
  cbn [parse_rect_list]. rewrite Hr, IH. cbn [bind]. eexists. split; [reflexivity|]. cbn. rewrite Hl. reflexivity.
Qed.

Lemma entry_not_number ra t : wf_rect_entry ra t -> as_number t = None.
Proof. intros (x & y & w & h & tl & sx & sy & sw & sh & -> & _). reflexivity. Qed.

Lemma parse_rectangles_wf_rects f hd ra v :
  wf_rects ra v -> (f || hd = true -> ra = false) ->
  exists rs, parse_rectangles f hd v = Ok rs /\ rs <> [].
Proof.
  intros [He|(l & -> & Hne & Hf)] Hra.
  - destruct (parse_rectangle_entry f hd ra v He Hra) as (r & Hr).
    destruct He as (x & y & w & h & tl & sx & sy & sw & sh & -> & Ex & _).
    unfold parse_rectangles. unfold as_number. rewrite Ex. cbn [is_some parse_rect_list].
    rewrite Hr. cbn. eexists. split; [reflexivity|discriminate].
  - destruct l as [|first rest]; [congruence|]. unfold parse_rectangles.
    inversion Hf; subst. rewrite (entry_not_number _ _ H1). cbn [is_some].
    destruct (parse_rect_list_entries f hd ra _ Hf Hra) as (rs & Hrs & Hl).
    exists rs. split; [exact Hrs|]. destruct rs; [discriminate|discriminate].
Qed.

(* ------------------------------------------------------------------ *)
(* a well-formed attribute mapping is accepted                          *)
(* ------------------------------------------------------------------ *)
Lemma key_neq a b : String.eqb a b = false -> a <> b.
Proof. apply String.eqb_neq. Qed.

Lemma flag_has_key k info : flag k info = true -> has_key k info = true.
Proof. unfold flag, has_key. destruct (lookup k info); [reflexivity|discriminate]. Qed.

Lemma lookup_in {A} k (m : list (string * A)) v : lookup k m = Some v -> In (k, v) m.
Proof.
  induction m as [|[k' v'] m IH]; cbn [lookup]; [discriminate|].
  destruct (String.eqb k k') eqn:E.
  - apply String.eqb_eq in E. subst. intros H; inversion H; subst. left. reflexivity.
  - intros H. right. auto.
Qed.

Lemma module_state info : wf_info info ->
  exists ps s, parse_params info = Ok ps /\ init_loop ps ps mstate0 = Ok s /\
    is_some (s_center s) = has_key KW_CENTER info /\
    is_some (s_ar s) = has_key KW_ASPECT_RATIO info /\
    negb (is_nil (s_area s)) = has_key KW_AREA info /\
    s_terminal s = has_key KW_TERMINAL info /\
    s_fixed s = flag KW_FIXED info /\
    s_flip s = flag KW_FLIP info /\
    s_hard s = doc_hard info.
Proof.
  intros W. set (h := doc_hard info).
  destruct (params_of_wf info W info (fun _ _ H => H)) as (ps & Hps & Hok).
  pose proof (params_nodup _ _ Hps (wi_nodup _ W)) as Hnd.
  assert (K : forall k, String.eqb k KW_RECTANGLES = false -> has_key k ps = has_key k info).
  { intros k E. apply (params_lookup _ _ _ Hps). apply key_neq. exact E. }
  assert (Hhf : has_key KW_HARD ps = true -> has_key KW_FIXED ps = false).
  { rewrite !K by reflexivity. intros H. apply has_key_in in H. destruct H as [v Hv].
    apply (wi_hard _ W _ Hv). }
  assert (Hta : has_key KW_TERMINAL ps = true ->
            has_key KW_AREA ps = false /\ has_key KW_ASPECT_RATIO ps = false /\ has_key KW_FLIP ps = false).
  { rewrite !K by reflexivity. intros H. apply has_key_in in H. destruct H as [v Hv].
    apply (wi_terminal _ W _ Hv). }
  destruct (init_loop_succeeds ps ps) with (s := mstate0) as (s & Hs).
  { intros k p Hin s0. eapply step_succeeds; eauto. }
  pose proof (init_loop_snoc_ind ps (loop_inv h) (param_ok h) (loop_inv_step ps h)
                ps [] mstate0 s Hnd Hok (loop_inv0 h) Hs) as (I1 & I2 & I3 & I4 & I5 & I6 & I7).
  cbn [app] in *. rewrite !K in * by reflexivity.
  exists ps, s. repeat split; auto.
  - (* fixed *)
    rewrite I5. unfold flag, has_key. destruct (lookup KW_FIXED info) as [v|] eqn:El; [|apply andb_false_r].
    rewrite (wi_fixed _ W v (lookup_in _ _ _ El)). fold h. destruct h; reflexivity.
  - (* flip *)
    rewrite I6. unfold flagp, flag.
    rewrite (proj2 (params_lookup _ _ KW_FLIP Hps (key_neq KW_FLIP KW_RECTANGLES eq_refl)) eq_refl).
    destruct (lookup KW_FLIP info) as [v|]; [|reflexivity]. cbn. reflexivity.
  - (* hard *)
    rewrite I7. destruct h eqn:Eh; [|reflexivity]. cbn [andb]. unfold h, doc_hard in Eh.
    destruct (flag KW_HARD info) eqn:E1; [rewrite (flag_has_key _ _ E1); reflexivity|].
    destruct (flag KW_FIXED info) eqn:E2; [rewrite (flag_has_key _ _ E2); apply orb_true_iff; left; apply orb_true_r|].
    cbn in Eh. rewrite Eh. apply orb_true_r.
Qed.

Theorem parse_module_accepts name info :
  valid_identifier name = true -> wf_info info ->
  exists m, parse_module name (YMap info) = Ok m /\
    m_hard m = doc_hard info /\ m_terminal m = has_key KW_TERMINAL info /\
    m_fixed m = flag KW_FIXED info /\ m_flip m = flag KW_FLIP info /\
    match lookup KW_RECTANGLES info with
    | Some v => parse_rectangles (flag KW_FIXED info) (doc_hard info) v = Ok (m_rects m) /\ m_rects m <> []
    | None => m_rects m = []
    end.
Proof.
  intros Hname W.
  destruct (module_state info W) as (ps & s & Hps & Hs & F1 & F2 & F3 & F4 & F5 & F6 & F7).
  destruct s as [c ar te ha fi fl area].
  cbn [s_center s_ar s_terminal s_hard s_fixed s_flip s_area] in *. subst te ha fi fl.
  set (h := doc_hard info) in *.
  assert (Hfh : flag KW_FIXED info = true -> h = true).
  { intros E. unfold h, doc_hard. rewrite E. apply orb_true_iff. left. apply orb_true_r. }
  assert (Hth : has_key KW_TERMINAL info = true -> h = true).
  { intros E. unfold h, doc_hard. rewrite E. apply orb_true_r. }
  (* the rectangles *)
  assert (Hr : exists rs, match lookup KW_RECTANGLES info with
                          | Some v => parse_rectangles (flag KW_FIXED info) h v
                          | None => Ok []
                          end = Ok rs /\
                          (has_key KW_RECTANGLES info = true -> rs <> [])).
  { unfold has_key. destruct (lookup KW_RECTANGLES info) as [v|] eqn:El.
    - destruct (parse_rectangles_wf_rects (flag KW_FIXED info) h (negb h) v) as (rs & A & B).
      + apply (wi_rects _ W). apply lookup_in. exact El.
      + intros E. destruct h; [reflexivity|]. rewrite orb_false_r in E. discriminate (Hfh E).
      + exists rs. auto.
    - exists []. split; [reflexivity|discriminate]. }
  destruct Hr as (rs & Hrs & Hrne).
  cbn [parse_module]. rewrite (wi_nodup _ W), Hname. cbn [assert bind]. rewrite Hps. cbn [bind].
  unfold module_init. rewrite Hs. cbn [bind s_center s_ar s_terminal s_hard s_fixed s_flip s_area].
  destruct h eqn:Eh.
  - (* hard *)
    destruct (wi_hard_attrs _ W Eh) as (Ha & Har & Hc & Hrk & Hff).
    rewrite Har in F2. rewrite Ha in F3.
    destruct ar; [discriminate|]. destruct area; [|discriminate]. cbn [is_some negb orb assert bind].
    assert (A2 : negb (has_key KW_TERMINAL info) || negb (flag KW_FIXED info) || is_some c = true).
    { destruct (has_key KW_TERMINAL info) eqn:Et; [|reflexivity].
      destruct (flag KW_FIXED info) eqn:Ef; [|reflexivity]. rewrite F1. apply (wi_fixed_terminal _ W); auto. }
    rewrite A2. cbn [assert bind s_fixed s_hard]. rewrite Hrs. cbn [bind]. unfold setup.
    cbn [s_center s_ar s_terminal s_hard s_fixed s_flip s_area is_nil is_some negb andb orb assert bind].
    rewrite andb_false_r. cbn [negb assert bind].
    assert (A3 : negb (flag KW_FLIP info && flag KW_FIXED info) = true).
    { destruct (flag KW_FLIP info) eqn:Efl; [|reflexivity]. rewrite (Hff eq_refl). reflexivity. }
    rewrite A3. cbn [assert bind]. rewrite andb_false_r. cbn [negb assert bind].
    rewrite orb_true_r. cbn [assert bind].
    assert (A4 : negb (is_some c) || has_key KW_TERMINAL info = true).
    { destruct c; [|reflexivity]. cbn. apply Hc. rewrite <- F1. reflexivity. }
    rewrite A4. cbn [assert bind].
    assert (A5 : has_key KW_TERMINAL info || negb (is_nil rs) = true).
    { destruct (has_key KW_TERMINAL info) eqn:Et; [reflexivity|]. cbn.
      specialize (Hrne (Hrk eq_refl)). destruct rs; [congruence|reflexivity]. }
    rewrite A5. cbn [assert bind]. eexists. split; [reflexivity|].
    cbn [m_hard m_terminal m_fixed m_flip m_rects]. repeat split.
    unfold has_key in Hrne. destruct (lookup KW_RECTANGLES info); [split; [exact Hrs|apply Hrne; reflexivity]|].
    inversion Hrs. reflexivity.
  - (* soft *)
    destruct (wi_soft _ W Eh) as (Ha & Hfl).
    assert (Ht : has_key KW_TERMINAL info = false).
    { destruct (has_key KW_TERMINAL info) eqn:Et; [|reflexivity]. discriminate (Hth eq_refl). }
    assert (Hf : flag KW_FIXED info = false).
    { destruct (flag KW_FIXED info) eqn:Ef; [|reflexivity]. discriminate (Hfh eq_refl). }
    rewrite Ht, Hf, Hfl in *. rewrite Ha in F3.
    cbn [negb orb assert bind s_fixed s_hard]. rewrite Hrs. cbn [bind]. unfold setup.
    cbn [s_center s_ar s_terminal s_hard s_fixed s_flip s_area negb andb orb assert bind].
    rewrite F3. cbn [assert bind]. eexists. split; [reflexivity|].
    cbn [m_hard m_terminal m_fixed m_flip m_rects]. repeat split.
    unfold has_key in Hrne. destruct (lookup KW_RECTANGLES info); [split; [exact Hrs|apply Hrne; reflexivity]|].
    inversion Hrs. reflexivity.
Qed.

(* ------------------------------------------------------------------ *)
(* the rectangles of a module as the document writes them               *)
(* ------------------------------------------------------------------ *)
Definition opt_list {A} (o : option A) : list A := match o with Some x => [x] | None => [] end.

(* the Rectangle built from one entry (fixed / hard are the module's flags) *)
Definition entry_rect (f hd : bool) (t : ytree) : option Rect :=
  match t with
  | YList (x :: y :: w :: h :: tl) =>
      match as_number x, as_number y, as_number w, as_number h with
      | Some a, Some b, Some c, Some d =>
          Some (mkRect a b c d f hd (match tl with [YStr s] => s | _ => KW_GROUND end) NOPOLY)
      | _, _, _, _ => None
      end
  | _ => None
  end.

Definition doc_rects (f hd : bool) (v : ytree) : list Rect :=
  match v with
  | YList (first :: rest) =>
      if is_some (as_number first) then opt_list (entry_rect f hd v)
      else flat_map (fun t => opt_list (entry_rect f hd t)) (first :: rest)
  | _ => []
  end.

Lemma parse_rectangle_entry_rect f hd t r :
  parse_rectangle f hd t = Ok r -> entry_rect f hd t = Some (to_rect (reset r)).
Proof.
  destruct t as [| | |l| |]; try discriminate. cbn [parse_rectangle entry_rect].
  destruct l as [|x [|y [|w [|h [|e [|e' tl]]]]]]; try discriminate; intros H; do 4 inv_bind H;
    apply rect_num_ok in E, E0, E1, E2; rewrite E, E0, E1, E2.
  - unfold finish_rectangle in H. do 3 inv_bind H. inversion H; subst. reflexivity.
  - destruct e; try discriminate. inv_bind H. unfold finish_rectangle in H. do 3 inv_bind H.
    inversion H; subst. reflexivity.
Qed.

Lemma parse_rect_list_doc f hd l : forall rs,
  parse_rect_list f hd l = Ok rs ->
  flat_map (fun t => opt_list (entry_rect f hd t)) l = map to_rect (map reset rs).
Proof.
  induction l as [|t l IH]; intros rs H.
  - inversion H. reflexivity.
  - cbn [parse_rect_list] in H. do 2 inv_bind H. inversion H; subst. cbn [flat_map map].
    rewrite (parse_rectangle_entry_rect _ _ _ _ E), (IH _ E0). reflexivity.
Qed.

Lemma parse_rectangles_doc f hd v rs :
  parse_rectangles f hd v = Ok rs -> doc_rects f hd v = map to_rect (map reset rs).
Proof.
  unfold parse_rectangles, doc_rects. destruct v as [| | |l| |]; try discriminate.
  destruct l as [|first rest]; [discriminate|].
  destruct (is_some (as_number first)).
  - intros H. cbn [parse_rect_list] in H. inv_bind H. inversion H; subst.
    rewrite (parse_rectangle_entry_rect _ _ _ _ E). reflexivity.
  - apply parse_rect_list_doc.
Qed.

(* no two of the rectangles overlap by more than aeps *)
Fixpoint g_no_overlap_with (aeps : Qc) (r : Rect) (rs : list Rect) : bool :=
  match rs with
  | [] => true
  | s :: rest => negb (overlap aeps r s) && g_no_overlap_with aeps r rest
  end.
Fixpoint g_no_overlaps (aeps : Qc) (rs : list Rect) : bool :=
  match rs with
  | [] => true
  | r :: rest => g_no_overlap_with aeps r rest && g_no_overlaps aeps rest
  end.

Lemma no_overlaps_g aeps rs : no_overlaps aeps rs = g_no_overlaps aeps (map to_rect rs).
Proof.
  assert (W : forall r l, no_overlap_with aeps r l = g_no_overlap_with aeps (to_rect r) (map to_rect l)).
  { intros r l. induction l as [|s l IH]; [reflexivity|]. cbn. rewrite IH. reflexivity. }
  induction rs as [|r rs IH]; [reflexivity|]. cbn [no_overlaps map g_no_overlaps]. rewrite IH, W. reflexivity.
Qed.

(* one rectangle, or some rectangle to which every other one abuts *)
Definition g_has_trunk (eps aeps : Qc) (gs : list Rect) : Prop :=
  match gs with
  | [] => False
  | [_] => True
  | _ => exists i t, nth_error gs i = Some t /\ valid_trunk eps aeps gs i t = true
  end.

Lemma mcs_has_stog eps aeps rs :
  g_has_trunk eps aeps (map to_rect (map reset rs)) ->
  exists fin orig, m_create_stog eps aeps rs = Some (true, fin, orig) /\
    match fin with r :: _ => mr_loc r = TRUNK | [] => False end.
Proof.
  intros H. destruct rs as [|r [|r' rs]].
  - destruct H.
  - eexists _, _. split; reflexivity.
  - assert (H' : exists i t, nth_error (map to_rect (map reset (r :: r' :: rs))) i = Some t /\
                             valid_trunk eps aeps (map to_rect (map reset (r :: r' :: rs))) i t = true) by exact H.
    clear H. destruct H' as (i & t & Hi & Hv). unfold m_create_stog.
    change (map (fun r0 => set_mloc r0 NOPOLY) (r :: r' :: rs)) with (map reset (r :: r' :: rs)).
    set (rs0 := map reset (r :: r' :: rs)) in *.
    destruct (scan eps aeps (map to_rect rs0) (map to_rect rs0) 0 None) as [[b a]|] eqn:S.
    + assert (B : best_ok eps aeps (map to_rect rs0) (Some (b, a))) by (rewrite <- S; apply scan_some; cbn; auto).
      destruct B as (tb & Hb & _). rewrite nth_error_map in Hb.
      destruct (nth_error rs0 b) as [x|] eqn:Ex; [|discriminate].
      pose proof (swap0g_perm rs0 b) as P.
      destruct (swap0g rs0 b) as [|t0 rest] eqn:Es.
      { apply Permutation_nil in P. unfold rs0 in P. discriminate. }
      eexists _, _. split; reflexivity.
    + exfalso. pose proof (scan_none _ _ _ _ _ S i t Hi) as V. cbn [plus] in V. congruence.
Qed.

Lemma mcs_defined eps aeps rs : rs <> [] -> exists hs fin orig, m_create_stog eps aeps rs = Some (hs, fin, orig).
Proof.
  intros Hne. unfold m_create_stog. destruct rs as [|r [|r' rs]]; [congruence|eauto|].
  change (map (fun r0 => set_mloc r0 NOPOLY) (r :: r' :: rs)) with (map reset (r :: r' :: rs)).
  set (rs0 := map reset (r :: r' :: rs)).
  destruct (scan eps aeps (map to_rect rs0) (map to_rect rs0) 0 None) as [[b a]|]; [|eauto].
  pose proof (swap0g_perm rs0 b) as P.
  destruct (swap0g rs0 b) as [|t0 rest] eqn:Es; [|eauto].
  apply Permutation_nil in P. unfold rs0 in P. discriminate.
Qed.

(* ------------------------------------------------------------------ *)
(* well-formed documents                                                *)
(* ------------------------------------------------------------------ *)
(* a net: at least two module names, all known, then possibly a positive weight *)
Definition wf_net_doc (names : list string) (t : ytree) : Prop :=
  exists mem tail, t = YList (map YStr mem ++ tail) /\ (2 <= List.length mem)%nat /\
    (forall b, In b mem -> In b names) /\
    (tail = [] \/ exists w q, tail = [w] /\ as_number w = Some q /\ 0 < q).

Definition doc_module_names (items : list (string * ytree)) : list string :=
  match lookup KW_MODULES items with Some (YMap mods) => map fst mods | _ => [] end.

Definition well_formed_doc (t : ytree) : Prop :=
  exists items, t = YMap items /\ nodup_keys items = true /\
    (forall k v, In (k, v) items -> k = KW_MODULES \/ k = KW_NETS) /\
    (forall v, In (KW_MODULES, v) items ->
       exists mods, v = YMap mods /\ nodup_keys mods = true /\
         forall name i, In (name, i) mods ->
           valid_identifier name = true /\ exists info, i = YMap info /\ wf_info info) /\
    (forall v, In (KW_NETS, v) items ->
       exists nets, v = YList nets /\ forall n, In n nets -> wf_net_doc (doc_module_names items) n).

(* the two geometric checks of _create_rectangles, on the rectangle entries:
   the rectangles of a hard module that is not a terminal do not overlap by
   more than aeps; a flippable module has a trunk *)
Definition doc_geometry_ok (eps aeps : Qc) (t : ytree) : Prop :=
  forall name info v, module_at t name info -> lookup KW_RECTANGLES info = Some v ->
    let gs := doc_rects (flag KW_FIXED info) (doc_hard info) v in
    (doc_hard info = true -> has_key KW_TERMINAL info = false -> g_no_overlaps aeps gs = true) /\
    (flag KW_FLIP info = true -> g_has_trunk eps aeps gs).

(* ---------------- nets ---------------- *)
Lemma edge_items_strs_num mem w q : as_number w = Some q ->
  edge_items (map YStr mem ++ [w])%list = Ok (mem, Some q).
Proof.
  intros Hw. induction mem as [|s mem IH]; cbn [map app].
  - cbn. rewrite Hw. reflexivity.
  - destruct (map YStr mem ++ [w])%list eqn:E; [destruct mem; discriminate|].
    rewrite edge_items_cons, IH. reflexivity.
Qed.

Lemma parse_edge_wf names t : wf_net_doc names t ->
  exists mem w, parse_edge t = Ok (mem, w) /\ 0 < w /\ (forall b, In b mem -> In b names).
Proof.
  intros (mem & tail & -> & Hl & Hk & Ht).
  assert (Hl' : (2 <=? List.length mem)%nat = true) by (apply Nat.leb_le; exact Hl).
  assert (Hne : mem <> []) by (destruct mem; [cbn in Hl; lia|discriminate]).
  destruct Ht as [->|(w & q & -> & Hw & Hq)]; cbn [parse_edge].
  - rewrite app_nil_r, map_length, Hl'. cbn [assert bind]. rewrite (edge_items_strs _ Hne).
    cbn [bind fst snd]. rewrite Hl'. cbn [assert bind]. exists mem, 1. repeat split; auto; try qlra.
  - rewrite app_length, map_length. cbn [List.length].
    assert (H2 : (2 <=? List.length mem + 1)%nat = true) by (apply Nat.leb_le; lia).
    rewrite H2. cbn [assert bind]. rewrite (edge_items_strs_num _ _ _ Hw). cbn [bind fst snd].
    rewrite Hl'. cbn [assert bind]. exists mem, q. repeat split; auto.
Qed.

Lemma parse_edge_list_wf names l : (forall n, In n l -> wf_net_doc names n) ->
  exists es, parse_edge_list l = Ok es /\
    Forall (fun e => 0 < snd e /\ forall b, In b (fst e) -> In b names) es.
Proof.
  induction l as [|t l IH]; intros H; [exists []; split; [reflexivity|constructor]|].
  destruct (parse_edge_wf names t (H t (or_introl eq_refl))) as (mem & w & Hp & Hw & Hk).
  destruct IH as (es & Hes & Hf); [intros n Hn; apply H; right; exact Hn|].
  cbn [parse_edge_list]. rewrite Hp, Hes. cbn [bind]. eexists. split; [reflexivity|].
  constructor; [cbn; auto|exact Hf].
Qed.

Lemma known_all_in names mem : (forall b, In b mem -> In b names) -> known_all names mem = true.
Proof.
  induction mem as [|b mem IH]; intros H; [reflexivity|]. cbn [known_all].
  rewrite (proj2 (mem_str_in b names)) by (apply H; left; reflexivity).
  apply IH. intros x Hx. apply H. right. exact Hx.
Qed.

Lemma resolve_edges_ok names es :
  Forall (fun e => 0 < snd e /\ forall b, In b (fst e) -> In b names) es ->
  exists nets, resolve_edges names es = Ok nets.
Proof.
  induction 1 as [|[mem w] es (Hw & Hk) _ (nets & IH)]; [eexists; reflexivity|].
  cbn [resolve_edges fst snd] in *. rewrite (known_all_in _ _ Hk).
  assert (E : Qcltb 0 w = true) by (qb2p; exact Hw). rewrite E, IH. cbn. eauto.
Qed.

(* ---------------- modules ---------------- *)
Lemma parse_module_list_wf_doc l :
  (forall name i, In (name, i) l -> valid_identifier name = true /\ exists info, i = YMap info /\ wf_info info) ->
  exists ms, parse_module_list l = Ok ms /\
    Forall2 (fun entry m => parse_module (fst entry) (snd entry) = Ok m) l ms.
Proof.
  induction l as [|[name i] l IH]; intros H; [exists []; split; [reflexivity|constructor]|].
  destruct (H name i (or_introl eq_refl)) as (Hn & info & -> & W).
  destruct (parse_module_accepts name info Hn W) as (m & Hm & _).
  destruct IH as (ms & Hms & Hf); [intros n0 i0 Hin; apply H; right; exact Hin|].
  cbn [parse_module_list]. rewrite Hn. cbn [assert bind]. rewrite Hm, Hms. cbn [bind].
  eexists. split; [reflexivity|]. constructor; [exact Hm|exact Hf].
Qed.

Lemma parse_root_ok items : forall ms0 es0,
  (forall k v, In (k, v) items ->
     (k = KW_MODULES /\ exists ms, parse_modules v = Ok ms) \/
     (k = KW_NETS /\ exists es, parse_edges v = Ok es)) ->
  exists ms es, parse_root items ms0 es0 = Ok (ms, es).
Proof.
  induction items as [|[k v] items IH]; intros ms0 es0 H; [eexists _, _; reflexivity|].
  cbn [parse_root].
  destruct (H k v (or_introl eq_refl)) as [(-> & ms & Hm)|(-> & es & He)]; keq.
  - rewrite Hm. cbn [bind]. apply IH. intros k0 v0 Hin. apply H. right. exact Hin.
  - rewrite He. cbn [bind]. apply IH. intros k0 v0 Hin. apply H. right. exact Hin.
Qed.

Lemma Forall2_right {A B} (R : A -> B -> Prop) (P : B -> Prop) l ms :
  Forall2 R l ms -> (forall x m, In x l -> R x m -> P m) -> Forall P ms.
Proof.
  induction 1 as [|x m l ms Hx _ IH]; intros H; constructor.
  - apply (H x m); [left; reflexivity|exact Hx].
  - apply IH. intros x0 m0 Hin. apply H. right. exact Hin.
Qed.

Section Accept.
Variable sqrt_o : Qc -> Qc.

Lemma cr_overlaps_ok aeps ms :
  Forall (fun m => m_hard m = true -> m_terminal m = false -> no_overlaps aeps (m_rects m) = true) ms ->
  cr_overlaps aeps ms = Ok tt.
Proof.
  induction 1 as [|m ms Hm _ IH]; [reflexivity|]. cbn [cr_overlaps]. unfold cr_overlap.
  destruct (m_hard m) eqn:Eh; [|cbn; exact IH]. destruct (m_terminal m) eqn:Et; [cbn; exact IH|].
  cbn [andb negb]. rewrite (Hm eq_refl eq_refl). cbn. exact IH.
Qed.

Lemma cr_stogs_ok eps aeps ms :
  Forall (fun m => m_flip m = true ->
            g_has_trunk eps aeps (map to_rect (map reset (m_rects m)))) ms ->
  exists p, cr_stogs eps aeps ms = Ok p /\
            forallb (fun m => negb (m_flip m) || has_stog m) (fst p) = true.
Proof.
  induction 1 as [|m ms Hm _ (p & IH & Hp)]; [eexists; split; reflexivity|].
  cbn beta in Hm. cbn [cr_stogs]. unfold cr_stog.
  destruct (m_rects m) as [|r0 rs0] eqn:Er.
  - rewrite IH. cbn [bind fst forallb]. eexists. split; [reflexivity|]. cbn [fst forallb]. rewrite Hp.
    destruct (m_flip m) eqn:Ef; [|reflexivity]. exfalso. exact (Hm eq_refl).
  - destruct (m_flip m) eqn:Ef.
    + destruct (mcs_has_stog eps aeps (r0 :: rs0)) as (fin & orig & Hmc & Hfin).
      { apply Hm. reflexivity. }
      rewrite Hmc, IH. cbn [bind fst]. eexists. split; [reflexivity|]. cbn [fst forallb]. rewrite Hp.
      unfold has_stog; cbn. destruct fin as [|f0 fin]; [destruct Hfin|]. rewrite Hfin. rewrite orb_true_r. reflexivity.
    + destruct (mcs_defined eps aeps (r0 :: rs0)) as (hs & fin & orig & Hmc); [discriminate|].
      rewrite Hmc, IH. cbn [bind fst]. eexists. split; [reflexivity|]. cbn [fst forallb]. rewrite Hp.
      cbn. rewrite Ef. reflexivity.
Qed.

(* every well-formed document whose hard modules do not overlap themselves and
   whose flippable modules have a trunk - for the epsilons in force - is loaded *)
Theorem accept_well_formed_doc e eps aeps t :
  well_formed_doc t ->
  (forall ms es, parse_netlist t = Ok (ms, es) ->
     match epsilon_after sqrt_o e ms with Some p => p | None => (0, 0) end = (eps, aeps)) ->
  doc_geometry_ok eps aeps t ->
  exists n, read_netlist sqrt_o e t = Ok n.
Proof.
  intros (items & -> & Hnd & Hkeys & Hmods & Hnets) Heps Hgeo.
  (* parsing *)
  assert (Hroot : exists ms es, parse_root items [] [] = Ok (ms, es)).
  { apply parse_root_ok. intros k v Hin. destruct (Hkeys _ _ Hin) as [->| ->]; [left|right]; split; try reflexivity.
    - destruct (Hmods _ Hin) as (mods & -> & Hn & Hm). cbn [parse_modules]. rewrite Hn. cbn [assert bind].
      destruct (parse_module_list_wf_doc _ Hm) as (ms & A & _). eauto.
    - destruct (Hnets _ Hin) as (nets & -> & Hn). cbn [parse_edges].
      destruct (parse_edge_list_wf _ _ Hn) as (es & A & _). eauto. }
  destruct Hroot as (ms & es & Hroot).
  assert (Hp : parse_netlist (YMap items) = Ok (ms, es)).
  { cbn [parse_netlist]. rewrite Hnd. cbn [assert bind]. exact Hroot. }
  destruct (parse_netlist_result _ _ _ Hp) as (_ & Rm & Re).
  destruct (parse_netlist_wf _ _ _ Hp) as (W & _ & _).
  specialize (Heps _ _ Hp).
  (* the modules of the document and the loaded modules *)
  assert (Hmod : exists mods, Forall2 (fun entry m => parse_module (fst entry) (snd entry) = Ok m) mods ms /\
             (forall name i, In (name, i) mods ->
                exists info, i = YMap info /\ wf_info info /\ valid_identifier name = true /\
                             module_at (YMap items) name info) /\
             map m_name ms = doc_module_names items).
  { unfold doc_module_names. destruct (lookup KW_MODULES items) as [v|] eqn:El.
    - pose proof (lookup_in _ _ _ El) as Hin. destruct (Hmods _ Hin) as (mods & -> & Hn & Hm).
      cbn [parse_modules] in Rm. rewrite Hn in Rm. cbn [assert bind] in Rm.
      destruct (parse_module_list_wf_doc _ Hm) as (ms' & A & F2). rewrite A in Rm. inversion Rm; subst ms'.
      exists mods. split; [exact F2|]. split; [|apply (parse_module_list_names _ _ A)].
      intros name i Hi. destruct (Hm _ _ Hi) as (Hv & info & -> & Wi). exists info.
      split; [reflexivity|]. split; [exact Wi|]. split; [exact Hv|].
      unfold module_at. exists items, mods. auto.
    - subst ms. exists []. split; [constructor|]. split; [intros ? ? []|reflexivity]. }
  destruct Hmod as (mods & F2 & Hmi & Hnames).
  (* _create_rectangles *)
  assert (Hcr : exists msF rects, create_rectangles sqrt_o e ms = Ok (msF, rects, epsilon_after sqrt_o e ms)).
  { unfold create_rectangles.
    rewrite cr_squares_id by (eapply Forall_impl; [|exact W]; intros m; apply wf_has_rects).
    cbn [bind].
    assert (E1 : match epsilon_after sqrt_o e ms with Some (x, _) => x | None => 0 end = eps).
    { destruct (epsilon_after sqrt_o e ms) as [[x y]|]; inversion Heps; reflexivity. }
    assert (E2 : match epsilon_after sqrt_o e ms with Some (_, y) => y | None => 0 end = aeps).
    { destruct (epsilon_after sqrt_o e ms) as [[x y]|]; inversion Heps; reflexivity. }
    rewrite E1, E2.
    (* per module: what the geometry of the document says *)
    assert (G : Forall (fun m =>
                  (m_hard m = true -> m_terminal m = false -> no_overlaps aeps (m_rects m) = true) /\
                  (m_flip m = true -> g_has_trunk eps aeps (map to_rect (map reset (m_rects m))))) ms).
    { eapply Forall2_right; [exact F2|]. intros [name i] m Hin Hpm. cbn [fst snd] in Hpm.
      destruct (Hmi _ _ Hin) as (info & -> & Wi & Hv & Hat).
      destruct (parse_module_accepts name info Hv Wi) as (m' & Hm' & Hh & Ht & Hf & Hfl & Hr).
      rewrite Hpm in Hm'. inversion Hm'; subst m'; clear Hm'.
      destruct (lookup KW_RECTANGLES info) as [v|] eqn:El.
      - destruct Hr as [Hr Hne]. destruct (Hgeo name info v Hat El) as [G1 G2].
        rewrite (parse_rectangles_doc _ _ _ _ Hr) in G1, G2. split.
        + intros A B. rewrite <- no_overlaps_reset, no_overlaps_g. apply G1; congruence.
        + intros A. apply G2. congruence.
      - rewrite Hr. split; [reflexivity|].
        intros A. exfalso. rewrite Hfl in A.
        assert (Hd : doc_hard info = true).
        { destruct (doc_hard info) eqn:Ed; [reflexivity|]. destruct (wi_soft _ Wi Ed) as [_ B]. congruence. }
        destruct (wi_hard_attrs _ Wi Hd) as (_ & _ & _ & Hrk & _).
        destruct (has_key KW_TERMINAL info) eqn:Etm.
        + apply has_key_in in Etm. destruct Etm as [tv Htv].
          destruct (wi_terminal _ Wi _ Htv) as (_ & _ & _ & Hnf).
          apply flag_has_key in A. congruence.
        + specialize (Hrk eq_refl). unfold has_key in Hrk. rewrite El in Hrk. discriminate. }
    rewrite (cr_overlaps_ok aeps ms) by (eapply Forall_impl; [|exact G]; intros m [A _]; exact A).
    cbn [bind].
    destruct (cr_stogs_ok eps aeps ms) as (p & Hp1 & Hp2);
      [eapply Forall_impl; [|exact G]; intros m [_ B]; exact B|].
    rewrite Hp1. cbn [bind]. rewrite Hp2. cbn [assert bind]. eauto. }
  destruct Hcr as (msF & rects & Hcr).
  (* nets *)
  assert (Hres : exists nets, resolve_edges (map m_name msF) es = Ok nets).
  { rewrite (create_rectangles_names _ _ _ _ _ _ Hcr), Hnames.
    destruct (lookup KW_NETS items) as [v|] eqn:El.
    - pose proof (lookup_in _ _ _ El) as Hin. destruct (Hnets _ Hin) as (nets & -> & Hn).
      cbn [parse_edges] in Re. destruct (parse_edge_list_wf _ _ Hn) as (es' & A & Hf).
      rewrite A in Re. inversion Re; subst es'. apply resolve_edges_ok. exact Hf.
    - subst es. eexists. reflexivity. }
  destruct Hres as (nets & Hres).
  unfold read_netlist. rewrite Hp. cbn [bind fst snd]. rewrite Hcr. cbn [bind]. rewrite Hres. cbn [bind]. eauto.
Qed.

Corollary accept_well_formed_doc_eps eps aeps t :
  well_formed_doc t -> doc_geometry_ok eps aeps t ->
  exists n, read_netlist sqrt_o (Some (eps, aeps)) t = Ok n.
Proof. intros W G. apply (accept_well_formed_doc (Some (eps, aeps)) eps aeps t W); [intros; reflexivity|exact G]. Qed.

End Accept.

(* ------------------------------------------------------------------ *)
(* no geometric side condition when hard modules have one rectangle     *)
(* ------------------------------------------------------------------ *)
(* the rectangles attribute holds one entry: [x, y, w, h] or [[x, y, w, h]] *)
Definition one_entry (v : ytree) : Prop :=
  wf_rect_entry false v \/ exists x, v = YList [x] /\ wf_rect_entry false x.

(* every hard module of the document has one rectangle (soft modules: any number) *)
Definition hard_single_rect (t : ytree) : Prop :=
  forall name info v, module_at t name info -> lookup KW_RECTANGLES info = Some v ->
    doc_hard info = true -> one_entry v.

Lemma entry_rect_some f hd ra t : wf_rect_entry ra t -> exists g, entry_rect f hd t = Some g.
Proof.
  intros (x & y & w & h & tl & sx & sy & sw & sh & -> & Ex & Ey & Ew & Eh & _).
  unfold entry_rect, as_number. rewrite Ex, Ey, Ew, Eh. eauto.
Qed.

Lemma one_entry_rects f hd v : one_entry v -> exists g, doc_rects f hd v = [g].
Proof.
  intros [He|(x & -> & He)].
  - destruct (entry_rect_some f hd _ _ He) as (g & Hg).
    destruct He as (x & y & w & h & tl & sx & sy & sw & sh & -> & Ex & _).
    unfold doc_rects. unfold as_number at 1. rewrite Ex. cbn [is_some]. rewrite Hg. exists g. reflexivity.
  - destruct (entry_rect_some f hd _ _ He) as (g & Hg).
    unfold doc_rects. rewrite (entry_not_number _ _ He). cbn [is_some flat_map]. rewrite Hg. exists g. reflexivity.
Qed.

Lemma single_rect_geometry eps aeps t :
  well_formed_doc t -> hard_single_rect t -> doc_geometry_ok eps aeps t.
Proof.
  intros W Hs name info v Hat Hl. cbn zeta. split.
  - intros Hh _. destruct (one_entry_rects (flag KW_FIXED info) (doc_hard info) v (Hs _ _ _ Hat Hl Hh)) as (g & ->).
    reflexivity.
  - intros Hf.
    assert (Hh : doc_hard info = true).
    { destruct W as (items & -> & _ & _ & Hm & _).
      destruct Hat as (items' & mods & E & H1 & H2). inversion E; subst items'; clear E.
      destruct (Hm _ H1) as (mods' & E & _ & Hmods). inversion E; subst mods'; clear E.
      destruct (Hmods _ _ H2) as (_ & info' & E & Wi). inversion E; subst info'; clear E.
      destruct (doc_hard info) eqn:Ed; [reflexivity|]. destruct (wi_soft _ Wi Ed) as [_ B]. congruence. }
    destruct (one_entry_rects (flag KW_FIXED info) (doc_hard info) v (Hs _ _ _ Hat Hl Hh)) as (g & ->).
    exact I.
Qed.

Section AcceptSingle.
Variable sqrt_o : Qc -> Qc.

(* unconditional acceptance: a well-formed document whose hard modules have one
   rectangle each is loaded, whatever the epsilon state *)
Theorem accept_well_formed_doc_single e t :
  well_formed_doc t -> hard_single_rect t -> exists n, read_netlist sqrt_o e t = Ok n.
Proof.
  intros W Hs.
  destruct (parse_netlist t) as [[ms es]|r] eqn:Ep.
  - destruct (match epsilon_after sqrt_o e ms with Some p => p | None => (0, 0) end) as [eps aeps] eqn:Ee.
    apply (accept_well_formed_doc sqrt_o e eps aeps t W).
    + intros ms' es' Hp. rewrite Ep in Hp. inversion Hp; subst. exact Ee.
    + apply single_rect_geometry; assumption.
  - apply (accept_well_formed_doc sqrt_o e 0 0 t W).
    + intros ms' es' Hp. rewrite Ep in Hp. discriminate.
    + apply single_rect_geometry; assumption.
Qed.

End AcceptSingle.
