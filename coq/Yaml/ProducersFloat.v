(* The reader does not look at the int/float form of the numbers of a
   rectangle: _create_rectangles commutes with [fl] (the rectangle with its four
   numbers as floats), so a canonical design stays canonical when its rectangle
   numbers are written as floats.  This is what the round trip of legalfloor's
   Model.get_netlist needs: the model's variables evaluate to floats whatever the
   netlist said (2 comes back as 2.0). *)
From Coq Require Import Permutation.
From FrameModel Require Import Num.QcTac Geometry.Rect Alloc.Alloc Stog.CreateStog Stog.StogFacts Yaml.Tree
  Yaml.NetlistRead Yaml.NetlistWrite Yaml.NetlistFacts Yaml.NetlistDerived Yaml.NetlistRoundTrip
  Yaml.NetlistImage Yaml.Netgen Yaml.DieAlloc Yaml.Producers Yaml.ProducersFacts Yaml.ProducersRT.
Open Scope Qc_scope.
Open Scope string_scope.

Definition rmap {A B} (f : A -> B) (x : result A) : result B :=
  match x with Ok a => Ok (f a) | Reject r => Reject r end.

Lemma to_rect_fl r : to_rect (fl r) = to_rect r.
Proof. destruct r as [x y w h reg fx hd l]. destruct x, y, w, h; reflexivity. Qed.
Lemma map_to_rect_fl rs : map to_rect (map fl rs) = map to_rect rs.
Proof. rewrite map_map. apply map_ext. exact to_rect_fl. Qed.
Lemma mr_area_fl r : mr_area (fl r) = mr_area r.
Proof. destruct r as [x y w h reg fx hd l]. destruct w, h; reflexivity. Qed.
Lemma set_mloc_fl r l : set_mloc (fl r) l = fl (set_mloc r l).
Proof. reflexivity. Qed.
Lemma reset_fl r : reset (fl r) = fl (reset r).
Proof. reflexivity. Qed.
Lemma sum_areas_fl rs : sum_areas (map fl rs) = sum_areas rs.
Proof. unfold sum_areas. rewrite map_map. reflexivity. Qed.
Lemma is_nil_map {A B} (f : A -> B) l : is_nil (map f l) = is_nil l.
Proof. destruct l; reflexivity. Qed.

Lemma centroid_fl rs : centroid (map fl rs) = centroid rs.
Proof.
  unfold centroid. rewrite sum_areas_fl, !map_map.
  assert (E1 : map (fun x => mr_area (fl x) * sval (mr_x (fl x))) rs = map (fun r => mr_area r * sval (mr_x r)) rs).
  { apply map_ext. intros r. rewrite mr_area_fl. destruct r as [x y w h reg fx hd l]. destruct x; reflexivity. }
  assert (E2 : map (fun x => mr_area (fl x) * sval (mr_y (fl x))) rs = map (fun r => mr_area r * sval (mr_y r)) rs).
  { apply map_ext. intros r. rewrite mr_area_fl. destruct r as [x y w h reg fx hd l]. destruct y; reflexivity. }
  rewrite E1, E2. reflexivity.
Qed.

Section Float.
Variable sqrt_o : Qc -> Qc.

(* ---- squares ---- *)
Lemma cr_square_fl m : cr_square sqrt_o (flm m) = rmap flm (cr_square sqrt_o m).
Proof.
  destruct m as [name c ar te ha fi fl0 area rs].
  unfold cr_square, flm. cbn [m_terminal m_hard m_center m_rects m_area]. rewrite is_nil_map.
  unfold module_total_area. cbn [m_area].
  destruct (te || negb ha || is_some c || negb (is_nil rs)); cbn [assert bind rmap]; [|reflexivity].
  destruct (ha && negb te && is_nil rs) eqn:E.
  - destruct c as [[x y]|]; [|reflexivity]. cbn [rmap]. reflexivity.
  - reflexivity.
Qed.
Lemma cr_squares_fl ms : cr_squares sqrt_o (map flm ms) = rmap (map flm) (cr_squares sqrt_o ms).
Proof.
  induction ms as [|m ms IH]; [reflexivity|]. cbn [map cr_squares]. rewrite cr_square_fl, IH.
  destruct (cr_square sqrt_o m); cbn [rmap bind]; [|reflexivity].
  destruct (cr_squares sqrt_o ms); reflexivity.
Qed.

(* ---- epsilon ---- *)
Lemma flat_rects_fl ms : flat_map m_rects (map flm ms) = map fl (flat_map m_rects ms).
Proof.
  induction ms as [|m ms IH]; [reflexivity|]. cbn [map flat_map]. rewrite IH, map_app. reflexivity.
Qed.
Lemma smallest_rects_fl rs : forall acc, smallest_rects (map fl rs) acc = smallest_rects rs acc.
Proof.
  unfold smallest_rects. induction rs as [|r rs IH]; intros acc; [reflexivity|]. cbn [map fold_left].
  rewrite IH. destruct r as [x y w h reg fx hd l]. destruct w, h; reflexivity.
Qed.
Lemma smallest_areas_fl ms : forall acc, smallest_areas sqrt_o (map flm ms) acc = smallest_areas sqrt_o ms acc.
Proof.
  unfold smallest_areas. induction ms as [|m ms IH]; intros acc; [reflexivity|]. cbn [map fold_left].
  rewrite IH. reflexivity.
Qed.
Lemma epsilon_after_fl e ms : epsilon_after sqrt_o e (map flm ms) = epsilon_after sqrt_o e ms.
Proof.
  unfold epsilon_after, smallest_distance. rewrite flat_rects_fl, smallest_rects_fl, smallest_areas_fl. reflexivity.
Qed.

(* ---- overlaps ---- *)
Lemma no_overlap_with_fl aeps r rs : no_overlap_with aeps (fl r) (map fl rs) = no_overlap_with aeps r rs.
Proof. induction rs as [|s rs IH]; [reflexivity|]. cbn [map no_overlap_with]. rewrite IH, !to_rect_fl. reflexivity. Qed.
Lemma no_overlaps_fl aeps rs : no_overlaps aeps (map fl rs) = no_overlaps aeps rs.
Proof. induction rs as [|r rs IH]; [reflexivity|]. cbn [map no_overlaps]. rewrite IH, no_overlap_with_fl. reflexivity. Qed.
Lemma cr_overlaps_fl aeps ms : cr_overlaps aeps (map flm ms) = cr_overlaps aeps ms.
Proof.
  induction ms as [|m ms IH]; [reflexivity|]. cbn [map cr_overlaps]. rewrite IH.
  unfold cr_overlap, flm. cbn [m_hard m_terminal m_rects]. rewrite no_overlaps_fl. reflexivity.
Qed.

(* ---- stogs ---- *)
Definition fl3 (x : bool * list mrect * list mrect) : bool * list mrect * list mrect :=
  let '(hs, fin, orig) := x in (hs, map fl fin, map fl orig).

Lemma m_create_stog_fl eps aeps rs :
  m_create_stog eps aeps (map fl rs) = option_map fl3 (m_create_stog eps aeps rs).
Proof.
  destruct rs as [|r [|r' rs]]; [reflexivity|reflexivity|].
  unfold m_create_stog.
  change (map fl (r :: r' :: rs)) with (fl r :: fl r' :: map fl rs).
  cbv iota beta.
  change (fl r :: fl r' :: map fl rs) with (map fl (r :: r' :: rs)).
  set (rs0 := map (fun r0 => set_mloc r0 NOPOLY) (r :: r' :: rs)).
  assert (E0 : map (fun r0 => set_mloc r0 NOPOLY) (map fl (r :: r' :: rs)) = map fl rs0).
  { unfold rs0. rewrite !map_map. apply map_ext. intros x. reflexivity. }
  rewrite E0. rewrite map_to_rect_fl.
  destruct (scan eps aeps (map to_rect rs0) (map to_rect rs0) 0 None) as [[b a]|]; [|reflexivity].
  rewrite <- map_swap0g. destruct (swap0g rs0 b) as [|t rest]; [reflexivity|].
  cbn [map option_map fl3]. rewrite to_rect_fl.
  assert (E1 : set_mloc (fl t) TRUNK ::
               map (fun r0 => set_mloc r0 (find_location eps aeps (to_rect t) (to_rect r0))) (map fl rest)
             = map fl (set_mloc t TRUNK ::
               map (fun r0 => set_mloc r0 (find_location eps aeps (to_rect t) (to_rect r0))) rest)).
  { cbn [map]. f_equal. rewrite !map_map. apply map_ext. intros x. rewrite to_rect_fl. reflexivity. }
  rewrite E1. rewrite map_swap0g. reflexivity.
Qed.

Definition flp (p : module * list mrect) : module * list mrect := (flm (fst p), map fl (snd p)).

Lemma cr_stog_fl eps aeps m : cr_stog eps aeps (flm m) = rmap flp (cr_stog eps aeps m).
Proof.
  destruct m as [name c ar te ha fi fl0 area rs]. unfold cr_stog, flm.
  cbn [m_name m_center m_ar m_terminal m_hard m_fixed m_flip m_area m_rects].
  destruct rs as [|r0 rs0]; [reflexivity|].
  cbn [map]. change (fl r0 :: map fl rs0) with (map fl (r0 :: rs0)). rewrite m_create_stog_fl.
  destruct (m_create_stog eps aeps (r0 :: rs0)) as [[[hs fin] orig]|]; [|reflexivity].
  cbn [option_map fl3 rmap flp fst snd]. unfold with_center, with_rects, flm.
  cbn [m_name m_center m_ar m_terminal m_hard m_fixed m_flip m_area m_rects]. rewrite centroid_fl. reflexivity.
Qed.

Lemma cr_stogs_fl eps aeps ms :
  cr_stogs eps aeps (map flm ms) = rmap (fun p => (map flm (fst p), map fl (snd p))) (cr_stogs eps aeps ms).
Proof.
  induction ms as [|m ms IH]; [reflexivity|]. cbn [map cr_stogs]. rewrite cr_stog_fl, IH.
  destruct (cr_stog eps aeps m) as [p|]; cbn [rmap bind]; [|reflexivity].
  destruct (cr_stogs eps aeps ms) as [q|]; cbn [rmap bind]; [|reflexivity].
  cbn [flp fst snd map]. rewrite map_app. reflexivity.
Qed.

Lemma forallb_map_fl {A B} (f : B -> bool) (g : A -> B) l : forallb f (map g l) = forallb (fun x => f (g x)) l.
Proof. induction l as [|a l IH]; cbn [map forallb]; [reflexivity|]. rewrite IH. reflexivity. Qed.
Lemma forallb_ext_fl {A} (f g : A -> bool) l : (forall x, f x = g x) -> forallb f l = forallb g l.
Proof. intros H. induction l as [|a l IH]; cbn [forallb]; [reflexivity|]. rewrite H, IH. reflexivity. Qed.

Lemma has_stog_fl m : has_stog (flm m) = has_stog m.
Proof. unfold has_stog, flm. cbn [m_rects]. destruct (m_rects m); reflexivity. Qed.

Definition fl_cr (x : list module * list mrect * option (Qc * Qc)) :=
  let '(ms, rects, e) := x in (map flm ms, map fl rects, e).

Theorem create_rectangles_fl e ms :
  create_rectangles sqrt_o e (map flm ms) = rmap fl_cr (create_rectangles sqrt_o e ms).
Proof.
  unfold create_rectangles. rewrite cr_squares_fl.
  destruct (cr_squares sqrt_o ms) as [ms1|]; cbn [rmap bind]; [|reflexivity].
  rewrite epsilon_after_fl, cr_overlaps_fl.
  destruct (cr_overlaps _ ms1); cbn [bind rmap]; [|reflexivity].
  rewrite cr_stogs_fl.
  destruct (cr_stogs _ _ ms1) as [p|]; cbn [rmap bind fst snd]; [|reflexivity].
  rewrite forallb_map_fl.
  assert (E : forallb (fun x => negb (m_flip (flm x)) || has_stog (flm x)) (fst p)
            = forallb (fun m => negb (m_flip m) || has_stog m) (fst p)).
  { apply forallb_ext_fl. intros m. rewrite has_stog_fl. reflexivity. }
  rewrite E. destruct (forallb (fun m => negb (m_flip m) || has_stog m) (fst p)); reflexivity.
Qed.

(* ---- canonical designs ---- *)
Lemma rect_wf_fl fx hd r : rect_wf fx hd r -> rect_wf fx hd (fl r).
Proof. destruct r as [x y w h reg fx' hd' l]. destruct x, y, w, h; exact (fun H => H). Qed.

Lemma wf_module_fl m : wf_module m -> wf_module (flm m).
Proof.
  intros (Hn & Hr & Hs & Hh). unfold wf_module, flm.
  cbn [m_name m_rects m_hard m_fixed m_flip m_terminal m_area m_ar m_center].
  split; [exact Hn|]. split; [|split].
  - apply Forall_forall. intros x Hx. apply in_map_iff in Hx. destruct Hx as (x0 & <- & Hx0).
    apply rect_wf_fl. rewrite Forall_forall in Hr. apply Hr. exact Hx0.
  - exact Hs.
  - intros H. destruct (Hh H) as (A & B & C & D & E). rewrite sum_areas_fl.
    split; [exact A|]. split; [exact B|]. split; [|split; [exact D|exact E]].
    intros T N. apply (C T). destruct (m_rects m); [reflexivity|discriminate].
Qed.

Lemma unload_fl m : unload (flm m) = flm (unload m).
Proof.
  unfold unload, flm. cbn [m_name m_rects m_hard m_fixed m_flip m_terminal m_area m_ar m_center].
  rewrite !map_map. reflexivity.
Qed.

Theorem canonical_fl e n : canonical sqrt_o e n -> canonical sqrt_o e (fln n).
Proof.
  intros (W & Nd & Wn & rects & Hc). unfold canonical, fln. cbn [nl_modules nl_nets nl_eps].
  assert (En : map m_name (map flm (nl_modules n)) = map m_name (nl_modules n)).
  { rewrite map_map. reflexivity. }
  rewrite En. split; [|split; [exact Nd|split; [exact Wn|]]].
  - apply Forall_forall. intros x Hx. apply in_map_iff in Hx. destruct Hx as (m & <- & Hm).
    apply wf_module_fl. rewrite Forall_forall in W. apply W. exact Hm.
  - exists (map fl rects).
    assert (Eu : map unload (map flm (nl_modules n)) = map flm (map unload (nl_modules n))).
    { rewrite !map_map. apply map_ext. exact unload_fl. }
    rewrite Eu, create_rectangles_fl, Hc. reflexivity.
Qed.

(* ---- legalfloor: reader after builder ---- *)
(* The document Model.get_netlist hands to the reader is accepted and loaded as the design the
   model was built from - modules, kinds, flip, areas per region, aspect ratios, centres, the
   rectangles in their order with their regions and roles, nets and weights - the four numbers
   of each rectangle being floats now. *)
Theorem legal_netlist_rt e doc n :
  read_netlist sqrt_o e doc = Ok n -> buildable n ->
  exists t n', legal_netlist n = Some t /\ read_netlist sqrt_o e t = Ok n' /\
               nl_modules n' = map flm (nl_modules n) /\ nl_nets n' = nl_nets n /\ nl_eps n' = nl_eps n.
Proof.
  intros H B.
  pose proof (image_canonical sqrt_o _ _ _ H) as C. apply canonical_fl in C.
  destruct (rt_canonical sqrt_o _ _ C) as (n' & Hr & Hm & Hn & He).
  exists (write_netlist (fln n)), n'. split; [eapply legal_netlist_doc; eauto|]. split; [exact Hr|].
  split; [exact Hm|]. split; [exact Hn|exact He].
Qed.
End Float.

(* the hypotheses are satisfiable: the witnesses on which the builders as found lose data
   (a weighted net, a rectangle with a region, integer coordinates; a terminal) *)
Example legal_rt_example sqrt_o :
  exists n, read_netlist sqrt_o eps_ref doc_weight_rects = Ok n /\ buildable n.
Proof.
  eexists. split; [vm_compute; reflexivity|]. split; [discriminate|]. repeat constructor; discriminate.
Qed.
Example solution_rt_example sqrt_o :
  (exists n, read_netlist sqrt_o eps_ref doc_weight = Ok n) /\
  (exists n, read_netlist sqrt_o eps_ref doc_terminal = Ok n).
Proof. split; eexists; vm_compute; reflexivity. Qed.
