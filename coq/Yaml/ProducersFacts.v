(* Facts about the producers of Yaml/Producers.v. *)
From FrameModel Require Import Num.QcTac Geometry.Rect Alloc.Alloc Stog.CreateStog Yaml.Tree
  Yaml.NetlistRead Yaml.NetlistWrite Yaml.Netgen Yaml.DieAlloc Yaml.Producers.
Open Scope Qc_scope.
Open Scope string_scope.

(* ---- dump_yaml_namededges ---- *)
(* repaired: the argument is left as it was, so a second call gives the same document *)
Lemma dump_named_state es : snd (dump_named es) = es.
Proof.
  unfold dump_named, dump_named_with; cbn [snd]. induction es as [|e r IH]; cbn [map]; [reflexivity|].
  rewrite IH. reflexivity.
Qed.
Lemma named_edges_pure es :
  snd (dump_named es) = es /\ fst (dump_named (snd (dump_named es))) = fst (dump_named es).
Proof. split; [apply dump_named_state | rewrite dump_named_state; reflexivity]. Qed.

(* as found: the second document differs (and is not a net any more: the weight twice) *)
Definition named_witness : list nedge := [mkNEdge [YStr "T0"; YStr "M0"] (qc 2 1)].
Lemma named_edges_found_refuted :
  exists es, snd (dump_named_found es) <> es /\
             fst (dump_named_found (snd (dump_named_found es))) <> fst (dump_named_found es) /\
             (forall e, In e (fst (dump_named_found (snd (dump_named_found es)))) ->
                        exists r, parse_edge e = Reject r).
Proof.
  exists named_witness. split; [|split].
  - vm_compute. discriminate.
  - vm_compute. discriminate.
  - intros e [<-|[]]. eexists. vm_compute. reflexivity.
Qed.

(* ------------------------------------------------------------------ *)
(* the string builders AS FOUND (the repaired ones: ProducersRT.v)     *)
(* ------------------------------------------------------------------ *)
(* "says the same thing": the fields the property names, module by module *)
Definition same_module (a b : module) : Prop :=
  m_name a = m_name b /\ m_terminal a = m_terminal b /\ m_hard a = m_hard b /\ m_fixed a = m_fixed b /\
  m_flip a = m_flip b /\ m_area a = m_area b /\ m_ar a = m_ar b.
Definition same_design (a b : netlist) : Prop :=
  Forall2 same_module (nl_modules a) (nl_modules b) /\ nl_nets a = nl_nets b.

(* full statements for the code as found (false: F14b, F14c) *)
Definition solution_found_rt_statement : Prop :=
  forall sqrt_o e doc n t, read_netlist sqrt_o e doc = Ok n -> solution_to_netlist_found n [] = Some t ->
  exists n', read_netlist sqrt_o e t = Ok n' /\ same_design n n'.
Definition legal_found_rt_statement : Prop :=
  forall sqrt_o e doc n t, read_netlist sqrt_o e doc = Ok n -> legal_netlist_found n = Some t ->
  exists n', read_netlist sqrt_o e t = Ok n' /\ same_design n n'.

(* the epsilons the refutations run with (already defined: sqrt is not consulted) *)
Definition eps_ref : option (Qc * Qc) := Some (qc 1 1048576, qc 1 1024).

Definition soft_mod (a : Qc) (x y : Qc) : ytree :=
  YMap [(KW_AREA, YNum a true); (KW_CENTER, YList [yfloat x; yfloat y])].
Definition rect_mod (a : Qc) (r : list ytree) : ytree :=
  YMap [(KW_AREA, YNum a true); (KW_RECTANGLES, YList [YList r])].
Definition num (n : Z) : ytree := YNum (qc n 1) true.

(* a weighted net comes back with weight 1 *)
Definition doc_weight : ytree :=
  netlist_doc [("A", soft_mod (qc 4 1) (qc 1 1) (qc 1 1)); ("B", soft_mod (qc 2 1) (qc 3 1) (qc 1 1))]
              [YList [YStr "A"; YStr "B"; yfloat (qc 5 2)]].
(* a terminal is written as a hard module with a centre: rejected *)
Definition doc_terminal : ytree :=
  netlist_doc [("A", soft_mod (qc 4 1) (qc 1 1) (qc 1 1));
               ("T", YMap [(KW_TERMINAL, YBool true); (KW_CENTER, YList [num 0; num 3])])]
              [YList [YStr "A"; YStr "T"]].

Lemma solution_found_refuted : forall sqrt_o,
  (exists n t n', read_netlist sqrt_o eps_ref doc_weight = Ok n /\ solution_to_netlist_found n [] = Some t /\
                  read_netlist sqrt_o eps_ref t = Ok n' /\ map n_weight (nl_nets n') <> map n_weight (nl_nets n)) /\
  (exists n t r, read_netlist sqrt_o eps_ref doc_terminal = Ok n /\ solution_to_netlist_found n [] = Some t /\
                 read_netlist sqrt_o eps_ref t = Reject r).
Proof.
  intro sqrt_o. split.
  - eexists. eexists. eexists. split; [vm_compute; reflexivity|]. split; [vm_compute; reflexivity|].
    split; [vm_compute; reflexivity|]. vm_compute. discriminate.
  - eexists. eexists. eexists. split; [vm_compute; reflexivity|]. split; [vm_compute; reflexivity|].
    vm_compute. reflexivity.
Qed.

(* legalfloor: the weight is dropped as well, and so is the region of a rectangle *)
Definition doc_weight_rects : ytree :=
  netlist_doc [("A", rect_mod (qc 4 1) [num 2; num 2; num 2; num 2; YStr "lut"]);
               ("B", rect_mod (qc 2 1) [num 6; num 2; num 2; num 1])]
              [YList [YStr "A"; YStr "B"; yfloat (qc 5 2)]].

Lemma legal_found_refuted : forall sqrt_o,
  exists n t n', read_netlist sqrt_o eps_ref doc_weight_rects = Ok n /\ legal_netlist_found n = Some t /\
                 read_netlist sqrt_o eps_ref t = Ok n' /\
                 map n_weight (nl_nets n') <> map n_weight (nl_nets n) /\
                 map mr_region (nl_rects n') <> map mr_region (nl_rects n).
Proof.
  intro sqrt_o.
  eexists. eexists. eexists. split; [vm_compute; reflexivity|]. split; [vm_compute; reflexivity|].
  split; [vm_compute; reflexivity|]. split; vm_compute; discriminate.
Qed.

(* rect_io.get_netlist as found: 0/0 when the first two cells list a module with ratio 0
   (ZeroDivisionError); the repaired function gives the module of the third cell *)
Definition zero_ratio_cells : list cell :=
  [mkCell (mkRect (qc 1 1) (qc 1 1) (qc 2 1) (qc 2 1) false false KW_GROUND NOPOLY) [("M2", 0)] 0;
   mkCell (mkRect (qc 3 1) (qc 1 1) (qc 2 1) (qc 2 1) false false KW_GROUND NOPOLY) [("M2", 0)] 0;
   mkCell (mkRect (qc 5 1) (qc 1 1) (qc 2 1) (qc 2 1) false false KW_GROUND NOPOLY) [("M2", 1)] 0].
Lemma alloc_netlist_found_refuted :
  accepted 0 zero_ratio_cells /\ alloc_netlist_doc_found zero_ratio_cells = None /\
  alloc_netlist_doc zero_ratio_cells =
    (netlist_doc [("M2", YMap [(KW_AREA, yfloat (qc 4 1)); (KW_CENTER, YList [yfloat (qc 5 1); yfloat (qc 1 1)])])] []).
Proof. split; [|split]; vm_compute; reflexivity. Qed.
