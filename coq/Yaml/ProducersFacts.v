(* Facts about the producers of Yaml/Producers.v. *)
From FrameModel Require Import Num.QcTac Geometry.Rect Alloc.Alloc Stog.CreateStog Yaml.Tree
  Yaml.NetlistRead Yaml.NetlistWrite Yaml.Netgen Yaml.DieAlloc Yaml.Producers.
Open Scope Qc_scope.
Open Scope string_scope.

(* ---- dump_yaml_namededges ---- *)
(* repaired: the argument is left as it was, so a second call gives the same document *)
Lemma dump_named_state es : snd (dump_named es) = es.
Proof.
  unfold dump_named, dump_named_with; cbn [snd]. induction es as [|e r IH]; cbn [map]; [reflexivity|].
  rewrite IH. reflexivity.
Qed.
Lemma named_edges_pure es :
  snd (dump_named es) = es /\ fst (dump_named (snd (dump_named es))) = fst (dump_named es).
Proof. split; [apply dump_named_state | rewrite dump_named_state; reflexivity]. Qed.

(* as found: the second document differs (and is not a net any more: the weight twice) *)
Definition named_witness : list nedge := [mkNEdge [YStr "T0"; YStr "M0"] (qc 2 1)].
Lemma named_edges_found_refuted :
  exists es, snd (dump_named_found es) <> es /\
             fst (dump_named_found (snd (dump_named_found es))) <> fst (dump_named_found es) /\
             (forall e, In e (fst (dump_named_found (snd (dump_named_found es)))) ->
                        exists r, parse_edge e = Reject r).
Proof.
  exists named_witness. split; [|split].
  - vm_compute. discriminate.
  - vm_compute. discriminate.
  - intros e [<-|[]]. eexists. vm_compute. reflexivity.
Qed.
