(* Round trip write -> read for canonical designs (C04) and acceptance of
   canonical designs (C05).  [canonical] is the invariant the loader
   establishes: that every loaded netlist satisfies it (image_canonical_statement
   below) is proved in Yaml/NetlistImage.v, which also derives the full
   statements rt_read_write_statement / rt_idempotent_statement. *)
From Coq Require Import Permutation.
From FrameModel Require Import Num.QcTac Geometry.Rect Stog.CreateStog
  Yaml.Tree Yaml.NetlistRead Yaml.NetlistWrite Yaml.NetlistFacts Yaml.NetlistDerived.
Open Scope Qc_scope.
Open Scope string_scope.

(* ---------------- rectangles ---------------- *)
Definition rect_wf (fx hd : bool) (r : mrect) : Prop :=
  0 <= sval (mr_x r) /\ 0 <= sval (mr_y r) /\ 0 < sval (mr_w r) /\ 0 < sval (mr_h r) /\
  valid_identifier (mr_region r) = true /\
  (fx || hd = true -> mr_region r = KW_GROUND) /\ mr_fixed r = fx /\ mr_hard r = hd.

Lemma as_scalar_tree s : as_scalar (scalar_tree s) = Some s.
Proof. destruct s; reflexivity. Qed.

Lemma rect_num_tree s : 0 <= sval s -> rect_num (scalar_tree s) = Ok s.
Proof.
  intros H. unfold rect_num. rewrite as_scalar_tree.
  assert (E : Qcleb 0 (sval s) = true) by (qb2p; exact H). rewrite E. reflexivity.
Qed.

Lemma parse_write_rect fx hd r : rect_wf fx hd r -> parse_rectangle fx hd (write_rect r) = Ok (reset r).
Proof.
  intros (Hx & Hy & Hw & Hh & Hv & Hg & Hf & Hd). unfold write_rect.
  assert (Ew : Qcltb 0 (sval (mr_w r)) = true) by (qb2p; exact Hw).
  assert (Eh : Qcltb 0 (sval (mr_h r)) = true) by (qb2p; exact Hh).
  assert (Hw' : 0 <= sval (mr_w r)) by (apply Qclt_le_weak; exact Hw).
  assert (Hh' : 0 <= sval (mr_h r)) by (apply Qclt_le_weak; exact Hh).
  destruct (String.eqb (mr_region r) KW_GROUND) eqn:Eg; cbn [app parse_rectangle].
  - rewrite !rect_num_tree by assumption. cbn [bind]. unfold finish_rectangle. cbn [negb orb assert bind].
    rewrite Ew, Eh. cbn [assert bind]. apply String.eqb_eq in Eg.
    destruct r; cbn in *. subst. reflexivity.
  - rewrite !rect_num_tree by assumption. cbn [bind]. rewrite Hv. cbn [assert bind].
    unfold finish_rectangle. cbn [negb orb].
    destruct (fx || hd) eqn:Efh.
    + rewrite (Hg eq_refl) in Eg. discriminate.
    + cbn [negb orb assert bind]. rewrite Ew, Eh. cbn [assert bind].
      destruct r; cbn in *. subst. reflexivity.
Qed.

Lemma parse_write_rect_list fx hd rs :
  Forall (rect_wf fx hd) rs -> parse_rect_list fx hd (map write_rect rs) = Ok (map reset rs).
Proof.
  induction 1 as [|r rs Hr _ IH]; [reflexivity|].
  cbn [map parse_rect_list]. rewrite (parse_write_rect _ _ _ Hr), IH. reflexivity.
Qed.

Lemma parse_write_rects fx hd r rs :
  Forall (rect_wf fx hd) (r :: rs) ->
  parse_rectangles fx hd (YList (map write_rect (r :: rs))) = Ok (map reset (r :: rs)).
Proof.
  intros H. cbn [map parse_rectangles].
  assert (E : is_some (as_number (write_rect r)) = false) by reflexivity.
  rewrite E. apply (parse_write_rect_list _ _ (r :: rs) H).
Qed.

(* ---------------- areas ---------------- *)
Definition good_area (a : list (string * Qc)) : Prop :=
  a <> [] /\ nodup_str (map fst a) = true /\
  Forall (fun p => valid_identifier (fst p) = true /\ 0 < snd p) a.

Lemma read_write_area_dict a :
  Forall (fun p => valid_identifier (fst p) = true /\ 0 < snd p) a ->
  read_area_dict (map (fun p => (fst p, yfloat (snd p))) a) = Ok a.
Proof.
  induction 1 as [|[k v] a [Hv Hp] _ IH]; [reflexivity|].
  cbn [map read_area_dict fst snd] in *. rewrite Hv. cbn [assert bind as_number as_scalar yfloat sval].
  assert (E : Qcltb 0 v = true) by (qb2p; exact Hp). rewrite E. cbn [assert bind]. rewrite IH. reflexivity.
Qed.

Lemma read_write_area a : good_area a -> read_region_area (write_area a) = Ok a.
Proof.
  intros (Hne & Hnd & Hf).
  assert (D : read_region_area (YMap (map (fun p => (fst p, yfloat (snd p))) a)) = Ok a).
  { unfold read_region_area. cbn [as_number as_scalar]. unfold nodup_keys. rewrite map_map. cbn [fst].
    change (map (fun x : string * Qc => fst x) a) with (map fst a).
    rewrite Hnd. cbn [assert bind]. apply read_write_area_dict. exact Hf. }
  unfold write_area. destruct a as [|[k v] [|p a]]; [congruence| |exact D].
  destruct (String.eqb k KW_GROUND) eqn:Ek; [|exact D].
  apply String.eqb_eq in Ek. subst. inversion Hf; subst. destruct H1 as [_ Hp]. cbn in Hp.
  unfold read_region_area. cbn [as_number as_scalar yfloat sval].
  assert (E : Qcltb 0 v = true) by (qb2p; exact Hp). rewrite E. reflexivity.
Qed.

(* ---------------- one module ---------------- *)
Definition ar_ok (o : option (Qc * Qc)) : Prop :=
  match o with Some (a, b) => 0 <= a /\ a <= 1 /\ 1 <= b | None => True end.

Definition wf_module (m : module) : Prop :=
  valid_identifier (m_name m) = true /\
  Forall (rect_wf (m_fixed m) (m_hard m)) (m_rects m) /\
  (m_hard m = false ->
     m_fixed m = false /\ m_flip m = false /\ m_terminal m = false /\
     good_area (m_area m) /\ ar_ok (m_ar m)) /\
  (m_hard m = true ->
     m_area m = [(KW_GROUND, sum_areas (m_rects m))] /\ m_ar m = None /\
     (m_terminal m = false -> m_rects m <> []) /\
     (m_flip m = true -> m_fixed m = false /\ m_terminal m = false) /\
     (m_terminal m = true -> m_fixed m = true -> m_center m <> None)).

(* the module as parse_yaml_module rebuilds it from the written attributes:
   rectangles without roles; the centre of a hard module is not written *)
Definition unload (m : module) : module :=
  mkModule (m_name m) (if m_hard m && negb (m_terminal m) then None else m_center m) (m_ar m)
           (m_terminal m) (m_hard m) (m_fixed m) (m_flip m) (m_area m) (map reset (m_rects m)).

Arguments read_region_area : simpl never.
Arguments parse_rectangles : simpl never.
Arguments write_area : simpl never.
Arguments write_rect : simpl never.
Arguments sum_areas : simpl never.
Arguments valid_identifier : simpl never.

Lemma ar_ok_bool a b : ar_ok (Some (a, b)) -> Qcleb 0 a && Qcleb a 1 && Qcleb 1 b = true.
Proof. intros (H1 & H2 & H3). rewrite !andb_true_iff. repeat split; qb2p; assumption. Qed.

Lemma parse_write_module m :
  wf_module m -> parse_module (m_name m) (YMap (write_module m)) = Ok (unload m).
Proof.
  intros (Hname & Hrects & Hsoft & Hhard).
  destruct m as [name c ar te ha fi fl area rs]. cbn [m_name m_center m_ar m_terminal m_hard m_fixed m_flip m_area m_rects] in *.
  unfold unload. cbn [m_name m_center m_ar m_terminal m_hard m_fixed m_flip m_area m_rects].
  destruct ha.
  - (* hard *)
    destruct (Hhard eq_refl) as (Ha & Har & Hne & Hfl & Htc). subst ar area. clear Hsoft Hhard.
    assert (Hsum : sum_areas (map reset rs) = sum_areas rs) by apply sum_areas_reset.
    destruct te, fi, fl; try (destruct (Hfl eq_refl); discriminate);
    destruct c as [[cx cy]|]; try (exfalso; apply (Htc eq_refl eq_refl); reflexivity);
    destruct rs as [|r rs]; try (exfalso; apply (Hne eq_refl); reflexivity);
    unfold write_module, parse_module; cbn -[map reset];
    rewrite ?Hname; cbn -[map reset];
    rewrite ?(parse_write_rects _ _ _ _ Hrects); cbn -[map reset]; rewrite ?Hsum; reflexivity.
  - (* soft *)
    destruct (Hsoft eq_refl) as (-> & -> & -> & Hga & Har). clear Hsoft Hhard.
    destruct c as [[cx cy]|], ar as [[a b]|], rs as [|r rs];
    unfold write_module, parse_module, nodup_keys, module_init; cbn -[map reset];
    rewrite ?Hname; cbn -[map reset];
    rewrite ?(ar_ok_bool _ _ Har); cbn -[map reset];
    rewrite ?(read_write_area _ Hga); cbn -[map reset];
    rewrite ?(ar_ok_bool _ _ Har); cbn -[map reset];
    rewrite ?(parse_write_rects _ _ _ _ Hrects); cbn -[map reset];
    (destruct area; [exfalso; destruct Hga as [Hga _]; apply Hga; reflexivity|]); try reflexivity.
Qed.

(* ---------------- modules mapping ---------------- *)
Lemma parse_write_module_list ms :
  Forall wf_module ms ->
  parse_module_list (map (fun m => (m_name m, YMap (write_module m))) ms) = Ok (map unload ms).
Proof.
  induction 1 as [|m ms Hm _ IH]; [reflexivity|].
  cbn [map parse_module_list]. destruct Hm as (Hn & Hrest). rewrite Hn. cbn [assert bind].
  rewrite (parse_write_module m (conj Hn Hrest)). cbn [bind]. rewrite IH. reflexivity.
Qed.

(* ---------------- nets ---------------- *)
Definition wf_net (names : list string) (e : net) : Prop :=
  (2 <= List.length (n_members e))%nat /\ 0 < n_weight e /\ known_all names (n_members e) = true.

Lemma edge_items_cons s y r :
  edge_items (YStr s :: y :: r) = (do p <- edge_items (y :: r); Ok (s :: fst p, snd p)).
Proof. reflexivity. Qed.

Lemma edge_items_strs mem : mem <> [] -> edge_items (map YStr mem) = Ok (mem, None).
Proof.
  induction mem as [|s mem IH]; [congruence|]. intros _.
  destruct mem as [|s' mem]; [reflexivity|].
  assert (IH' := IH ltac:(discriminate)). cbn [map] in *.
  rewrite edge_items_cons, IH'. reflexivity.
Qed.

Lemma edge_items_strs_w mem w : edge_items (map YStr mem ++ [yfloat w])%list = Ok (mem, Some w).
Proof.
  induction mem as [|s mem IH]; [reflexivity|].
  cbn [map app]. destruct (map YStr mem ++ [yfloat w])%list eqn:E.
  - destruct mem; discriminate.
  - rewrite edge_items_cons, IH. reflexivity.
Qed.

Lemma parse_write_net names e : wf_net names e -> parse_edge (write_net e) = Ok (n_members e, n_weight e).
Proof.
  intros (Hl & Hw & _). unfold write_net, parse_edge.
  assert (Hl' : (2 <=? List.length (n_members e))%nat = true) by (apply Nat.leb_le; exact Hl).
  destruct (Qceqb (n_weight e) 1) eqn:E1.
  - rewrite app_nil_r, map_length, Hl'. cbn [assert bind].
    rewrite edge_items_strs by (destruct (n_members e); [cbn in Hl; lia|discriminate]).
    cbn [bind fst snd]. rewrite Hl'. cbn [assert bind]. qb2p. rewrite E1. reflexivity.
  - rewrite app_length, map_length. cbn [List.length].
    assert (H2 : (2 <=? List.length (n_members e) + 1)%nat = true) by (apply Nat.leb_le; lia).
    rewrite H2. cbn [assert bind]. rewrite edge_items_strs_w. cbn [bind fst snd]. rewrite Hl'. reflexivity.
Qed.

Lemma parse_write_nets names nets :
  Forall (wf_net names) nets ->
  parse_edge_list (map write_net nets) = Ok (map (fun e => (n_members e, n_weight e)) nets).
Proof.
  induction 1 as [|e nets He _ IH]; [reflexivity|].
  cbn [map parse_edge_list]. rewrite (parse_write_net _ _ He), IH. reflexivity.
Qed.

Lemma resolve_wf names nets :
  Forall (wf_net names) nets ->
  resolve_edges names (map (fun e => (n_members e, n_weight e)) nets) = Ok nets.
Proof.
  induction 1 as [|e nets (Hl & Hw & Hk) _ IH]; [reflexivity|].
  cbn [map resolve_edges]. rewrite Hk. cbn [assert bind].
  assert (E : Qcltb 0 (n_weight e) = true) by (qb2p; exact Hw). rewrite E. cbn [assert bind].
  rewrite IH. destruct e; reflexivity.
Qed.

(* ---------------- the whole netlist ---------------- *)
Section RoundTrip.
Variable sqrt_o : Qc -> Qc.

(* A design as the loader leaves it: well-formed modules with distinct names,
   nets of at least two known members with positive weights, and module data
   (rectangle order and roles, centres, epsilon) that _create_rectangles
   reproduces when it is run on the modules as they are rebuilt from their
   written attributes. *)
Definition canonical (e : option (Qc * Qc)) (n : netlist) : Prop :=
  Forall wf_module (nl_modules n) /\
  nodup_str (map m_name (nl_modules n)) = true /\
  Forall (wf_net (map m_name (nl_modules n))) (nl_nets n) /\
  exists rects, create_rectangles sqrt_o e (map unload (nl_modules n)) = Ok (nl_modules n, rects, nl_eps n).

Theorem rt_canonical e n :
  canonical e n ->
  exists n', read_netlist sqrt_o e (write_netlist n) = Ok n' /\
             nl_modules n' = nl_modules n /\ nl_nets n' = nl_nets n /\ nl_eps n' = nl_eps n.
Proof.
  intros (Hm & Hnd & Hn & rects & Hcr).
  exists (mkNetlist (nl_modules n) (nl_nets n) rects (nl_eps n)). split; [|auto].
  unfold read_netlist, write_netlist, parse_netlist, nodup_keys. cbn [map fst nodup_str mem_str].
  cbn [String.eqb Ascii.eqb Bool.eqb orb negb andb assert bind parse_root].
  change (String.eqb KW_MODULES KW_MODULES) with true. cbn iota.
  unfold parse_modules, nodup_keys. rewrite map_map. cbn [fst].
  change (map (fun x : module => m_name x) (nl_modules n)) with (map m_name (nl_modules n)).
  rewrite Hnd. cbn [assert bind]. rewrite (parse_write_module_list _ Hm). cbn [bind].
  change (String.eqb KW_NETS KW_MODULES) with false. change (String.eqb KW_NETS KW_NETS) with true.
  cbn iota. cbn [parse_edges]. rewrite (parse_write_nets _ _ Hn). cbn [bind fst snd].
  change (String.eqb KW_MODULES KW_NETS) with false. cbn [orb negb andb assert bind fst snd].
  rewrite Hcr. cbn [bind]. rewrite (resolve_wf _ _ Hn). reflexivity.
Qed.

Corollary rt_idempotent_canonical e n :
  canonical e n ->
  exists n', read_netlist sqrt_o e (write_netlist n) = Ok n' /\ write_netlist n' = write_netlist n.
Proof.
  intros H. destruct (rt_canonical _ _ H) as (n' & Hr & Hm & Hn & _).
  exists n'. split; [exact Hr|]. unfold write_netlist. rewrite Hm, Hn. reflexivity.
Qed.

(* every canonical design, written in the exchange format, is accepted *)
Corollary accept_well_formed e n :
  canonical e n -> exists n', read_netlist sqrt_o e (write_netlist n) = Ok n'.
Proof. intros H. destruct (rt_canonical _ _ H) as (n' & Hr & _). eauto. Qed.

(* The full statement of the round trip: for every netlist in the image of the reader *)
Definition rt_read_write_statement : Prop :=
  forall e t n, read_netlist sqrt_o e t = Ok n ->
  exists n', read_netlist sqrt_o e (write_netlist n) = Ok n' /\
             nl_modules n' = nl_modules n /\ nl_nets n' = nl_nets n /\ nl_eps n' = nl_eps n.
Definition rt_idempotent_statement : Prop :=
  forall e t n, read_netlist sqrt_o e t = Ok n ->
  exists n', read_netlist sqrt_o e (write_netlist n) = Ok n' /\ write_netlist n' = write_netlist n.

(* the link between the two: every loaded netlist is canonical
   (proved: NetlistImage.image_canonical) *)
Definition image_canonical_statement : Prop :=
  forall e t n, read_netlist sqrt_o e t = Ok n -> canonical e n.

Theorem rt_read_write_from_image : image_canonical_statement -> rt_read_write_statement.
Proof. intros H e t n Hr. apply rt_canonical. eapply H; eauto. Qed.

End RoundTrip.
