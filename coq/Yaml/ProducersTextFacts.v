(* Facts about the entry forms of the readers (Yaml/ProducersText.v): every text write_yaml
   writes is taken for a text by the repaired read_yaml, all four entry forms hand the written
   tree to the reader; the dispatch as found takes the text of an allocation without occupied
   cell for a file name and refuses every stream. *)
From FrameModel Require Import Num.QcTac Geometry.Rect Alloc.Alloc Yaml.Tree Yaml.NetlistRead
  Yaml.DieAlloc Yaml.DieAllocFacts Yaml.ProducersText.
From Coq Require Import ZArith Lia.
Open Scope Z_scope.

(* ------------------------------------------------------------------ *)
(* induction on document trees                                          *)
(* ------------------------------------------------------------------ *)
Section YtreeInd.
  Variable P : ytree -> Prop.
  Hypothesis Hnum : forall q i, P (YNum q i).
  Hypothesis Hbool : forall b, P (YBool b).
  Hypothesis Hstr : forall s, P (YStr s).
  Hypothesis Hnull : P YNull.
  Hypothesis Hlist : forall l, Forall P l -> P (YList l).
  Hypothesis Hmap : forall m, Forall (fun kv => P (snd kv)) m -> P (YMap m).

  Fixpoint ytree_nested_ind (t : ytree) : P t :=
    match t with
    | YNum q i => Hnum q i
    | YBool b => Hbool b
    | YStr s => Hstr s
    | YNull => Hnull
    | YList l =>
        Hlist l ((fix go (l : list ytree) : Forall P l :=
                    match l with
                    | [] => Forall_nil P
                    | x :: r => Forall_cons x (ytree_nested_ind x) (go r)
                    end) l)
    | YMap m =>
        Hmap m ((fix go (m : list (string * ytree)) : Forall (fun kv => P (snd kv)) m :=
                   match m with
                   | [] => Forall_nil _
                   | (k, v) :: r => Forall_cons (k, v) (ytree_nested_ind v) (go r)
                   end) m)
    end.
End YtreeInd.

(* ------------------------------------------------------------------ *)
(* every written text has a line break                                  *)
(* ------------------------------------------------------------------ *)
Definition lines_list (l : list ytree) : Z :=
  (fix go (l : list ytree) : Z := match l with [] => 0 | y :: r' => emit_lines y + go r' end) l.
Definition lines_map (m : list (string * ytree)) : Z :=
  (fix go (m : list (string * ytree)) : Z :=
     match m with
     | [] => 0
     | (k, v) :: r' => (if inline_value v then 1 else 1 + emit_lines v) + go r'
     end) m.

Lemma emit_lines_list x r : emit_lines (YList (x :: r)) = emit_lines x + lines_list r.
Proof. reflexivity. Qed.
Lemma emit_lines_map k v r :
  emit_lines (YMap ((k, v) :: r)) = (if inline_value v then 1 else 1 + emit_lines v) + lines_map r.
Proof. reflexivity. Qed.

Lemma lines_list_nonneg l : Forall (fun t => 0 < emit_lines t) l -> 0 <= lines_list l.
Proof.
  induction 1 as [|x r Hx _ IH]; [cbn; lia|].
  change (lines_list (x :: r)) with (emit_lines x + lines_list r). lia.
Qed.
Lemma lines_map_nonneg m : Forall (fun kv => 0 < emit_lines (snd kv)) m -> 0 <= lines_map m.
Proof.
  induction 1 as [|[k v] r Hx _ IH]; [cbn; lia|].
  change (lines_map ((k, v) :: r)) with ((if inline_value v then 1 else 1 + emit_lines v) + lines_map r).
  cbn [snd] in Hx. destruct (inline_value v); lia.
Qed.

Lemma emit_lines_pos : forall t, 0 < emit_lines t.
Proof.
  apply ytree_nested_ind; try (intros; cbn; lia).
  - intros l H. destruct l as [|x r]; [cbn; lia|].
    rewrite emit_lines_list. inversion H as [|? ? Hx Hr]; subst.
    pose proof (lines_list_nonneg r Hr). lia.
  - intros m H. destruct m as [|[k v] r]; [cbn; lia|].
    rewrite emit_lines_map. inversion H as [|? ? Hx Hr]; subst. cbn [snd] in Hx.
    pose proof (lines_map_nonneg r Hr). destruct (inline_value v); lia.
Qed.

Lemma written_text_has_break t : t_newline (text_of t) = true.
Proof. unfold t_newline, text_of. cbn [t_breaks]. apply Z.ltb_lt. apply emit_lines_pos. Qed.

(* the repaired string test takes every written text for a text *)
Theorem written_text_is_text t : string_route (text_of t) = ParseText.
Proof. unfold string_route. rewrite written_text_has_break, orb_true_r. reflexivity. Qed.

(* the test as found does so exactly when some value is written on the line of its key *)
Lemma written_text_found t :
  string_route_found (text_of t) = if emits_colon_space t then ParseText else OpenFile.
Proof. reflexivity. Qed.

(* ------------------------------------------------------------------ *)
(* the four entry forms                                                 *)
(* ------------------------------------------------------------------ *)
Section Forms.
  Variable text : Type.
  Variable dump : ytree -> text.
  Variable load : text -> option ytree.
  Variable looks : text -> text_abs.
  Variable file : text -> option text.
  (* the contract of the text layer: ruamel reads back what it wrote (trusted, exercised on every
     case), and a written text looks to find(": ") / find("\n") as text_of says (compared with the
     real text on every case) *)
  Hypothesis load_dump : forall t, load (dump t) = Some t.
  Hypothesis looks_dump : forall t, looks (dump t) = text_of t.

  Notation read := (read_yaml text load looks file).
  Notation read_found := (read_yaml_found text load looks file).

  (* the forms in which a written document reaches a reader: the tree, the text write_yaml()
     returned, the name of the file write_yaml(name) wrote, a stream opened on that file *)
  Definition forms_of (t : ytree) (name : text) : list (source text) :=
    [SrcTree t; SrcString (dump t); SrcString name; SrcStream (dump t)].

  Theorem read_yaml_forms t name :
    file name = Some (dump t) -> string_route (looks name) = OpenFile ->
    forall src, In src (forms_of t name) -> read src = Some t.
  Proof.
    intros F N src [<-|[<-|[<-|[<-|[]]]]]; unfold read_yaml; cbn [route_of follow].
    - reflexivity.
    - rewrite looks_dump, written_text_is_text. cbn [follow]. apply load_dump.
    - rewrite N. cbn [follow]. rewrite F. apply load_dump.
    - apply load_dump.
  Qed.

  (* a reader applied to what read_yaml returns *)
  Definition reader {A} (rd : ytree -> option A) (o : option ytree) : option A :=
    match o with Some t => rd t | None => None end.

  Theorem reader_forms {A} (rd : ytree -> option A) t name :
    file name = Some (dump t) -> string_route (looks name) = OpenFile ->
    forall src, In src (forms_of t name) -> reader rd (read src) = rd t.
  Proof. intros F N src I. rewrite (read_yaml_forms t name F N src I). reflexivity. Qed.

  (* ---- the code as found ---- *)
  Lemma read_yaml_found_stream c : read_found (SrcStream c) = None.
  Proof. reflexivity. Qed.

  Lemma read_yaml_found_text t :
    read_found (SrcString (dump t)) =
    if emits_colon_space t then Some t
    else match file (dump t) with Some c => load c | None => None end.
  Proof.
    unfold read_yaml_found. cbn [route_of_found]. rewrite looks_dump, written_text_found.
    destruct (emits_colon_space t); cbn [follow]; [apply load_dump|reflexivity].
  Qed.
End Forms.

(* ------------------------------------------------------------------ *)
(* the writers                                                          *)
(* ------------------------------------------------------------------ *)
(* a die always has "width: w" *)
Lemma die_text_colon d : emits_colon_space (write_die d) = true.
Proof. unfold write_die. cbn. reflexivity. Qed.

Theorem die_text_found d : string_route_found (text_of (write_die d)) = ParseText.
Proof. rewrite written_text_found, die_text_colon. reflexivity. Qed.

(* identifiers hold no ': ' *)
Lemma idchar_not_colon c : is_colon c = true -> is_letter c || is_digit c = false.
Proof. unfold is_colon. intro H. apply Ascii.eqb_eq in H. subst c. reflexivity. Qed.
Lemma all_idchars_no_colon s : all_idchars s = true -> str_colon_space s = false.
Proof.
  induction s as [|c r IH]; [reflexivity|]. cbn [all_idchars str_colon_space]. intro H.
  apply andb_true_iff in H. destruct H as [Hc Hr]. rewrite (IH Hr), orb_false_r.
  destruct (is_colon c) eqn:E; [|reflexivity].
  rewrite (idchar_not_colon c E) in Hc. discriminate.
Qed.
Lemma identifier_no_colon s : Tree.valid_identifier s = true -> str_colon_space s = false.
Proof.
  destruct s as [|c r]; [discriminate|]. cbn [Tree.valid_identifier]. intro H.
  apply andb_true_iff in H. destruct H as [Hc Hr].
  apply (all_idchars_no_colon (String c r)). cbn [all_idchars]. rewrite Hr, Hc. reflexivity.
Qed.

Definition occupied (c : cell) : bool := match calloc c with [] => false | _ => true end.

Lemma vector_spec_no_colon r :
  Tree.valid_identifier (region r) = true -> emits_colon_space (vector_spec r) = false.
Proof. intro H. unfold vector_spec, yfloat. cbn. rewrite (identifier_no_colon _ H). reflexivity. Qed.

Lemma write_cell_colon c :
  cell_region_ok c = true -> emits_colon_space (write_cell c) = occupied c.
Proof.
  unfold cell_region_ok, write_cell, occupied. intro H.
  assert (V := vector_spec_no_colon _ H).
  destruct (calloc c) as [|[k q] al]; destruct (0 <? cdepth c)%nat; cbn [map app fst snd];
    cbn -[vector_spec str_colon_space]; rewrite V; try reflexivity;
    destruct (str_colon_space k); reflexivity.
Qed.

Lemma write_alloc_colon cells :
  forallb cell_region_ok cells = true ->
  emits_colon_space (write_alloc cells) = existsb occupied cells.
Proof.
  unfold write_alloc. induction cells as [|c cells IH]; [reflexivity|].
  cbn [forallb map existsb]. intro H. apply andb_true_iff in H. destruct H as [Hc Hr].
  change (emits_colon_space (YList (write_cell c :: map write_cell cells)))
    with (emits_colon_space (write_cell c) || emits_colon_space (YList (map write_cell cells))).
  rewrite (write_cell_colon c Hc), (IH Hr). reflexivity.
Qed.

(* the test as found on the text of an allocation: a text exactly when some cell is occupied *)
Theorem alloc_text_found cells :
  forallb cell_region_ok cells = true ->
  string_route_found (text_of (write_alloc cells)) = if existsb occupied cells then ParseText else OpenFile.
Proof. intro H. rewrite written_text_found, (write_alloc_colon cells H). reflexivity. Qed.

(* the witness: Allocation([[[1,1,2,2,'_'],{}],[[3,1,2,2,'_'],{}]]) *)
Open Scope string_scope.
Definition empty_cells : list cell :=
  [mkCell (mkRect (qc 1 1) (qc 1 1) (qc 2 1) (qc 2 1) false false "_" NOPOLY) [] 0;
   mkCell (mkRect (qc 3 1) (qc 1 1) (qc 2 1) (qc 2 1) false false "_" NOPOLY) [] 0].
(* what Allocation.write_yaml returns for it *)
Definition empty_cells_text : string :=
"- - - 1
    - 1
    - 2
    - 2
    - _
  - {}
- - - 3
    - 1
    - 2
    - 2
    - _
  - {}
".

Lemma empty_cells_facts :
  accepted 0 empty_cells /\ forallb cell_region_ok empty_cells = true /\
  abs_of_string empty_cells_text = text_of (write_alloc empty_cells) /\
  string_route_found (abs_of_string empty_cells_text) = OpenFile /\
  string_route (abs_of_string empty_cells_text) = ParseText.
Proof. repeat split; vm_compute; reflexivity. Qed.

(* a plain path is a file name *)
Lemma file_name_example :
  string_route (abs_of_string "/tmp/allocations/a_1.yaml") = OpenFile /\
  string_route (abs_of_string empty_cells_text) = ParseText /\
  abs_of_string empty_cells_text = text_of (write_alloc empty_cells).
Proof. repeat split; vm_compute; reflexivity. Qed.

(* with any text layer that keeps its contract, the reader as found is handed nothing when no
   file is named like the text *)
Theorem alloc_text_found_refuted :
  accepted 0 empty_cells /\ forallb cell_region_ok empty_cells = true /\
  forall (text : Type) (dump : ytree -> text) (load : text -> option ytree) (looks : text -> text_abs)
         (file : text -> option text),
    (forall t, load (dump t) = Some t) -> (forall t, looks (dump t) = text_of t) ->
    file (dump (write_alloc empty_cells)) = None ->
    read_yaml_found text load looks file (SrcString (dump (write_alloc empty_cells))) = None /\
    read_yaml text load looks file (SrcString (dump (write_alloc empty_cells))) = Some (write_alloc empty_cells).
Proof.
  destruct empty_cells_facts as (A & R & _).
  split; [exact A|]. split; [exact R|].
  intros text dump load looks file LD LK NF. split.
  - rewrite (read_yaml_found_text text dump load looks file LD LK).
    replace (emits_colon_space (write_alloc empty_cells)) with false by (vm_compute; reflexivity).
    rewrite NF. reflexivity.
  - unfold read_yaml. cbn [route_of]. rewrite LK, written_text_is_text. cbn [follow]. apply LD.
Qed.

(* ------------------------------------------------------------------ *)
(* readers behind read_yaml                                             *)
(* ------------------------------------------------------------------ *)
Section Readers.
  Variable text : Type.
  Variable dump : ytree -> text.
  Variable load : text -> option ytree.
  Variable looks : text -> text_abs.
  Variable file : text -> option text.
  Hypothesis load_dump : forall t, load (dump t) = Some t.
  Hypothesis looks_dump : forall t, looks (dump t) = text_of t.

  (* Allocation(stream), Die(stream) *)
  Definition allocation_of (aeps : Qc) (s : source text) : option (list cell) :=
    reader (read_alloc aeps) (read_yaml text load looks file s).
  Definition die_of (s : source text) : option die :=
    reader read_die (read_yaml text load looks file s).

  Theorem alloc_forms_rt aeps cells name :
    accepted aeps cells -> forallb cell_region_ok cells = true ->
    file name = Some (dump (write_alloc cells)) -> string_route (looks name) = OpenFile ->
    forall src, In src (forms_of text dump (write_alloc cells) name) ->
    allocation_of aeps src = Some (map plain_cell cells).
  Proof.
    intros A V F N src I. unfold allocation_of.
    rewrite (reader_forms text dump load looks file load_dump looks_dump (read_alloc aeps) _ name F N src I).
    apply alloc_rt; assumption.
  Qed.

  Theorem die_forms_rt d name :
    die_wfb d = true ->
    file name = Some (dump (write_die d)) -> string_route (looks name) = OpenFile ->
    forall src, In src (forms_of text dump (write_die d) name) ->
    die_of src = Some (mkDie (dw d) (dh d) (map plain (dblock d)) (map plain (dspec d))).
  Proof.
    intros W F N src I. unfold die_of.
    rewrite (reader_forms text dump load looks file load_dump looks_dump read_die _ name F N src I).
    apply die_rt. exact W.
  Qed.
End Readers.
