(* Round trips of the die and allocation codecs (Yaml/DieAlloc.v). *)
From FrameModel Require Import Num.QcTac Geometry.Rect Alloc.Alloc Stog.CreateStog Yaml.Tree
  Yaml.NetlistRead Yaml.DieAlloc.
Open Scope Qc_scope.
Open Scope string_scope.

Lemma andb_split a b : a && b = true -> a = true /\ b = true.
Proof. apply andb_true_iff. Qed.
Ltac bsplit H :=
  repeat match type of H with
  | _ && _ = true => let H1 := fresh H in apply andb_split in H; destruct H as [H H1]
  end.
Lemma ltb_leb a : Qcltb 0 a = true -> Qcleb 0 a = true.
Proof. intro H. apply Qcltb_true in H. apply Qcleb_true. apply Qclt_le_weak. exact H. Qed.

(* ------------------------------------------------------------------ *)
(* the die                                                             *)
(* ------------------------------------------------------------------ *)
(* the invariants of the regions a Die object holds (parse_die_rectangle and
   Rectangle.__init__ established them; splitting keeps them) *)
Definition region_okb (r : Rect) : bool :=
  Qcleb 0 (cx r) && Qcleb 0 (cy r) && Qcltb 0 (rw r) && Qcltb 0 (rh r) &&
  (valid_identifier (region r) || String.eqb (region r) KW_BLOCKAGE) &&
  negb (String.eqb (region r) KW_GROUND).
Definition die_wfb (d : die) : bool :=
  Qcltb 0 (dw d) && Qcltb 0 (dh d) && forallb region_okb (dblock d ++ dspec d) &&
  forallb is_blockage (dblock d) && forallb (fun r => negb (is_blockage r)) (dspec d).

Lemma parse_die_rect_spec r : region_okb r = true -> parse_die_rect (vector_spec r) = Some (plain r).
Proof.
  unfold region_okb. intro H. bsplit H.
  unfold parse_die_rect, vector_spec, yfloat, as_number, as_scalar, sval.
  rewrite H, H4, (ltb_leb _ H3), (ltb_leb _ H2), H3, H2, H0.
  cbn [andb].
  replace (valid_identifier (region r) || String.eqb (region r) KW_GROUND || String.eqb (region r) KW_BLOCKAGE)
    with true.
  - cbn [andb]. reflexivity.
  - symmetry. apply orb_true_iff in H1. destruct H1 as [->| ->]; [reflexivity|apply orb_true_r].
Qed.

Lemma parse_die_rects_spec rs :
  forallb region_okb rs = true -> parse_die_rects (map vector_spec rs) = Some (map plain rs).
Proof.
  induction rs as [|r rs IH]; cbn [forallb map parse_die_rects]; [reflexivity|].
  intro H. apply andb_split in H. destruct H as [H1 H2].
  rewrite (parse_die_rect_spec r H1), (IH H2). reflexivity.
Qed.

Lemma parse_write_die d :
  die_wfb d = true -> parse_die (write_die d) = Some (dw d, dh d, map plain (dblock d ++ dspec d)).
Proof.
  unfold die_wfb. intro H. bsplit H.
  unfold write_die. destruct (dblock d ++ dspec d)%list as [|r rs] eqn:E.
  - cbn -[Qcltb]. rewrite H, H3. reflexivity.
  - cbn [app parse_die]. cbn [nodup_keys map fst nodup_str mem_str KW_WIDTH KW_HEIGHT KW_REGIONS].
    cbn -[parse_die_rects vector_spec Qcltb]. rewrite H, H3. cbn [andb].
    unfold vector_spec at 1. cbn [as_number as_scalar is_some].
    change (YList [yfloat (cx r); yfloat (cy r); yfloat (rw r); yfloat (rh r); YStr (region r)])
      with (vector_spec r).
    change (vector_spec r :: map vector_spec rs) with (map vector_spec (r :: rs)).
    rewrite (parse_die_rects_spec _ H2). reflexivity.
Qed.

Lemma is_blockage_plain r : is_blockage (plain r) = is_blockage r.
Proof. reflexivity. Qed.
Lemma filter_all {A} (f : A -> bool) l : forallb f l = true -> filter f l = l.
Proof.
  induction l as [|x l IH]; cbn; [reflexivity|]. intro H. apply andb_split in H. destruct H as [H1 H2].
  rewrite H1, (IH H2). reflexivity.
Qed.
Lemma filter_none {A} (f : A -> bool) l : forallb (fun x => negb (f x)) l = true -> filter f l = [].
Proof.
  induction l as [|x l IH]; cbn; [reflexivity|]. intro H. apply andb_split in H. destruct H as [H1 H2].
  apply negb_true_iff in H1. rewrite H1. apply IH, H2.
Qed.
Lemma forallb_ext {A} (f g : A -> bool) l : (forall x, f x = g x) -> forallb f l = forallb g l.
Proof. intro E. induction l; cbn; [reflexivity|]. rewrite E, IHl. reflexivity. Qed.
Lemma forallb_map {A B} (f : B -> bool) (g : A -> B) l : forallb f (map g l) = forallb (fun x => f (g x)) l.
Proof. induction l; cbn; congruence. Qed.

(* reader after writer: the same die - width, height, blockages and
   specialised regions, in the same order *)
Theorem die_rt d :
  die_wfb d = true ->
  read_die (write_die d) = Some (mkDie (dw d) (dh d) (map plain (dblock d)) (map plain (dspec d))).
Proof.
  intro W. unfold read_die. rewrite (parse_write_die d W).
  unfold die_wfb in W. bsplit W.
  rewrite map_app, !filter_app.
  rewrite (filter_all is_blockage (map plain (dblock d))), (filter_none is_blockage (map plain (dspec d))),
          (filter_none (fun r => negb (is_blockage r)) (map plain (dblock d))),
          (filter_all (fun r => negb (is_blockage r)) (map plain (dspec d))).
  - rewrite app_nil_r. reflexivity.
  - rewrite forallb_map. exact W0.
  - rewrite forallb_map. erewrite forallb_ext; [exact W1|]. intros; cbn. rewrite negb_involutive. reflexivity.
  - rewrite forallb_map. exact W0.
  - rewrite forallb_map. exact W1.
Qed.

(* writing is a function of the object: the object is unchanged and a second write gives the same document *)
Theorem die_write_pure d :
  snd (write_die_st d) = d /\ fst (write_die_st (snd (write_die_st d))) = fst (write_die_st d).
Proof. split; reflexivity. Qed.

(* the hypotheses are satisfiable by a die with a blockage and two regions *)
Definition die_example : die :=
  mkDie (qc 10 1) (qc 8 1)
        [mkRect (qc 1 1) (qc 1 1) (qc 2 1) (qc 2 1) false false "#" NOPOLY]
        [mkRect (qc 5 1) (qc 4 1) (qc 2 1) (qc 4 1) false false "DSP" NOPOLY;
         mkRect (qc 8 1) (qc 4 1) (qc 2 1) (qc 4 1) false false "DSP" NOPOLY].
Example die_example_wf : die_wfb die_example = true.
Proof. vm_compute. reflexivity. Qed.

(* ------------------------------------------------------------------ *)
(* the allocation                                                      *)
(* ------------------------------------------------------------------ *)
Lemma vi_eq s : Alloc.valid_identifier s = Tree.valid_identifier s.
Proof.
  destruct s as [|c s]; [reflexivity|].
  assert (E : forall t, Alloc.all_alnum_ t = Tree.all_idchars t).
  { induction t as [|c' t IH]; [reflexivity|].
    change (Alloc.is_alnum_ c' && Alloc.all_alnum_ t = (Tree.is_letter c' || Tree.is_digit c') && Tree.all_idchars t).
    rewrite IH. reflexivity. }
  change (Alloc.is_alpha_ c && Alloc.all_alnum_ s = Tree.is_letter c && Tree.all_idchars s).
  rewrite E. reflexivity.
Qed.

Lemma lookup_mem (a : alloc) k : (match Alloc.lookup k a with Some _ => true | None => false end) = mem_str k (map fst a).
Proof.
  induction a as [|[k' v] a IH]; [reflexivity|]. cbn. rewrite (String.eqb_sym k' k).
  destruct (String.eqb k k'); [reflexivity|]. exact IH.
Qed.
Lemma nodup_eq (a : alloc) : Alloc.nodup_keys a = nodup_str (map fst a).
Proof.
  induction a as [|[k v] a IH]; [reflexivity|]. cbn. rewrite <- lookup_mem.
  destruct (Alloc.lookup k a); [reflexivity|]. exact IH.
Qed.

Definition ratio_tree (p : string * Qc) : string * ytree := (fst p, yfloat (snd p)).
Lemma map_fst_ratio (a : alloc) : map fst (map ratio_tree a) = map fst a.
Proof. induction a as [|[k v] a IH]; cbn; congruence. Qed.

Lemma parse_ratios_spec (a : alloc) :
  forallb (fun p => Alloc.valid_identifier (fst p) && Qcleb 0 (snd p) && Qcleb (snd p) 1) a = true ->
  parse_ratios (map ratio_tree a) = Some a.
Proof.
  induction a as [|[k v] a IH]; [reflexivity|]. cbn [forallb map ratio_tree fst snd parse_ratios].
  intro H. apply andb_split in H. destruct H as [H1 H2]. bsplit H1.
  rewrite <- vi_eq, H1. unfold yfloat, as_number, as_scalar, sval. rewrite H0, H3. cbn [andb].
  fold (ratio_tree). rewrite (IH H2). reflexivity.
Qed.

Lemma Qnum_of_nat n : Z.to_nat (Qnum (this (Qc_of_nat n))) = n.
Proof.
  unfold Qc_of_nat, Q2Qc. cbn [this].
  rewrite Qred_identity; [cbn; apply Nat2Z.id|]. cbn. apply Z.gcd_1_r.
Qed.
Lemma Qc_of_nat_nonneg n : Qcleb 0 (Qc_of_nat n) = true.
Proof.
  apply Qcleb_true. unfold Qcle, Qc_of_nat. change 0 with (Q2Qc 0). rewrite !this_Q2Qc.
  unfold Qle, inject_Z; cbn [Qnum Qden]. lia.
Qed.
Lemma parse_depth_spec n : parse_depth (depth_tree n) = Some n.
Proof. unfold parse_depth, depth_tree. rewrite Qc_of_nat_nonneg, Qnum_of_nat. reflexivity. Qed.

Definition cell_region_ok (c : cell) : bool := Tree.valid_identifier (region (crect c)).
Definition quadrant_cell (c : cell) : bool := Qcleb 0 (xmin (crect c)) && Qcleb 0 (ymin (crect c)).

Lemma parse_rect_spec r :
  wfb r = true -> Qcleb 0 (xmin r) = true -> Qcleb 0 (ymin r) = true ->
  Tree.valid_identifier (region r) = true ->
  parse_rectangle false false (vector_spec r) =
  Ok (mkMRect (SNum (cx r) false) (SNum (cy r) false) (SNum (rw r) false) (SNum (rh r) false)
              (region r) false false NOPOLY).
Proof.
  unfold wfb. intros W X Y V. bsplit W.
  assert (Hx : Qcleb 0 (cx r) = true).
  { apply Qcleb_true. apply Qcleb_true in X. apply Qcltb_true in W. unfold xmin in X. qlra. }
  assert (Hy : Qcleb 0 (cy r) = true).
  { apply Qcleb_true. apply Qcleb_true in Y. apply Qcltb_true in W0. unfold ymin in Y. qlra. }
  assert (Hw := ltb_leb _ W). assert (Hh := ltb_leb _ W0).
  unfold parse_rectangle, vector_spec, yfloat.
  repeat (cbn [bind assert rect_num as_scalar sval finish_rectangle negb orb andb];
          first [rewrite Hx | rewrite Hy | rewrite Hw | rewrite Hh | rewrite V | rewrite W | rewrite W0]).
  reflexivity.
Qed.

Lemma parse_cell_spec c :
  cell_ok c = true -> quadrant_cell c = true -> cell_region_ok c = true ->
  parse_cell (write_cell c) = Some (plain_cell c).
Proof.
  unfold cell_ok, quadrant_cell, cell_region_ok, Alloc.alloc_ok. intros K Q V. bsplit K. apply andb_split in K0. destruct K0 as [K0 K1]. bsplit Q.
  assert (P : parse_cell_parts (vector_spec (crect c))
                (YMap (map (fun p => (fst p, yfloat (snd p))) (calloc c))) (cdepth c) = Some (plain_cell c)).
  { unfold parse_cell_parts. rewrite (parse_rect_spec _ K Q Q0 V).
    change (map (fun p : string * Qc => (fst p, yfloat (snd p))) (calloc c)) with (map ratio_tree (calloc c)).
    unfold Tree.nodup_keys. rewrite map_fst_ratio, <- nodup_eq, K1, (parse_ratios_spec _ K0).
    reflexivity. }
  unfold write_cell. destruct (cdepth c) as [|n] eqn:D.
  - cbn [Nat.ltb Nat.leb app parse_cell]. exact P.
  - cbn [Nat.ltb Nat.leb app parse_cell]. rewrite parse_depth_spec. exact P.
Qed.

Lemma parse_cells_spec cells :
  forallb cell_ok cells = true -> forallb quadrant_cell cells = true ->
  forallb cell_region_ok cells = true ->
  parse_cells (map write_cell cells) = Some (map plain_cell cells).
Proof.
  induction cells as [|c cells IH]; [reflexivity|]. cbn [forallb map parse_cells].
  intros K Q V. apply andb_split in K. apply andb_split in Q. apply andb_split in V.
  destruct K as [K1 K2], Q as [Q1 Q2], V as [V1 V2].
  rewrite (parse_cell_spec c K1 Q1 V1), (IH K2 Q2 V2). reflexivity.
Qed.

(* the constructor checks do not look at the tags the reader drops *)
Lemma cell_ok_plain c : cell_ok (plain_cell c) = cell_ok c.
Proof. reflexivity. Qed.
Lemma overlap_plain aeps r s : overlap aeps (plain r) (plain s) = overlap aeps r s.
Proof. reflexivity. Qed.
Lemma no_overlap_with_plain aeps r l :
  Alloc.no_overlap_with aeps (plain r) (map plain_cell l) = Alloc.no_overlap_with aeps r l.
Proof. induction l as [|c l IH]; [reflexivity|]. cbn. rewrite IH. reflexivity. Qed.
Lemma no_overlap_plain aeps l : no_overlap aeps (map plain_cell l) = no_overlap aeps l.
Proof.
  induction l as [|c l IH]; [reflexivity|]. cbn [map no_overlap]. rewrite IH.
  change (crect (plain_cell c)) with (plain (crect c)). rewrite no_overlap_with_plain. reflexivity.
Qed.
Lemma module_names_plain l : module_names (map plain_cell l) = module_names l.
Proof.
  unfold module_names. generalize (@nil string). induction l as [|c l IH]; intro acc; [reflexivity|].
  cbn [map fold_left]. apply IH.
Qed.
Lemma area_of_plain m l : area_of m (map plain_cell l) = area_of m l.
Proof. unfold area_of. rewrite map_map. reflexivity. Qed.
Lemma forallb_plain (f : cell -> bool) l :
  (forall c, f (plain_cell c) = f c) -> forallb f (map plain_cell l) = forallb f l.
Proof. intro E. rewrite forallb_map. apply forallb_ext. exact E. Qed.

Lemma mk_allocation_plain aeps cells :
  mk_allocation aeps cells = Some cells -> mk_allocation aeps (map plain_cell cells) = Some (map plain_cell cells).
Proof.
  unfold mk_allocation. destruct cells as [|c cells]; [discriminate|].
  set (l := c :: cells).
  destruct (forallb cell_ok l && in_quadrant l && no_overlap aeps l &&
            forallb (fun m => negb (Qceqb (area_of m l) 0)) (module_names l)) eqn:E; [|discriminate].
  intros _. bsplit E.
  change (map plain_cell l) with (plain_cell c :: map plain_cell cells) at 1.
  cbv iota. change (plain_cell c :: map plain_cell cells) with (map plain_cell l).
  rewrite (forallb_plain cell_ok), no_overlap_plain, module_names_plain, E; [|reflexivity].
  unfold in_quadrant in *. rewrite forallb_plain, E2, E1; [|reflexivity]. cbn [andb].
  erewrite forallb_ext; [rewrite E0; reflexivity|]. intros m. rewrite area_of_plain. reflexivity.
Qed.

(* reader after writer: the same cells - rectangle (centre, size, region), ratios
   in the same order, depth; only the tags that are not part of the format are reset *)
Theorem alloc_rt aeps cells :
  accepted aeps cells -> forallb cell_region_ok cells = true ->
  read_alloc aeps (write_alloc cells) = Some (map plain_cell cells).
Proof.
  intros A V. unfold read_alloc, write_alloc.
  assert (A' := A). unfold accepted, mk_allocation in A'. destruct cells as [|c cells]; [discriminate|].
  set (l := c :: cells) in *.
  destruct (forallb cell_ok l && in_quadrant l && no_overlap aeps l &&
            forallb (fun m => negb (Qceqb (area_of m l) 0)) (module_names l)) eqn:E; [|discriminate].
  bsplit E. rewrite (parse_cells_spec l E E2 V). apply mk_allocation_plain. exact A.
Qed.

Theorem alloc_write_pure cells :
  snd (write_alloc_st cells) = cells /\
  fst (write_alloc_st (snd (write_alloc_st cells))) = fst (write_alloc_st cells).
Proof. split; reflexivity. Qed.

(* the ratios, depths and geometry survive literally *)
Lemma plain_cell_fields c :
  calloc (plain_cell c) = calloc c /\ cdepth (plain_cell c) = cdepth c /\
  cx (crect (plain_cell c)) = cx (crect c) /\ cy (crect (plain_cell c)) = cy (crect c) /\
  rw (crect (plain_cell c)) = rw (crect c) /\ rh (crect (plain_cell c)) = rh (crect c) /\
  region (crect (plain_cell c)) = region (crect c).
Proof. repeat split. Qed.

(* the hypotheses are satisfiable: two cells, one refined once, with two modules *)
Definition alloc_example : list cell :=
  [mkCell (mkRect (qc 1 1) (qc 1 1) (qc 2 1) (qc 2 1) false false "_" NOPOLY)
          [("M1", qc 1 2); ("M2", qc 1 4)] 0;
   mkCell (mkRect (qc 3 1) (qc 1 1) (qc 2 1) (qc 2 1) true true "dsp" NOPOLY) [("M2", 1)] 1].
Example alloc_example_ok :
  accepted 0 alloc_example /\ forallb cell_region_ok alloc_example = true.
Proof. split; vm_compute; reflexivity. Qed.

(* a cell in a blockage region ('#', accepted by the Rectangle class) is written
   but not accepted back: the hypothesis on the regions cannot be dropped *)
Definition alloc_blockage_cell : list cell :=
  [mkCell (mkRect (qc 1 1) (qc 1 1) (qc 2 1) (qc 2 1) false false "#" NOPOLY) [] 0].
Lemma alloc_rt_needs_region :
  accepted 0 alloc_blockage_cell /\ read_alloc 0 (write_alloc alloc_blockage_cell) = None.
Proof. split; vm_compute; reflexivity. Qed.
