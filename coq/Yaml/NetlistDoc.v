(* C05, statements on the document itself.
   1. The three reject theorems about hard modules (NetlistFacts.v states them
      on the classification made by Module.__init__) restated on the literal
      attributes of the document: "hard: true" or "fixed: true".
   2. Yaml/NetlistAccept.v: a syntactic well-formedness predicate on documents
      and the acceptance theorem. *)
From Coq Require Import Permutation.
From FrameModel Require Import Num.QcTac Geometry.Rect Stog.CreateStog
  Yaml.Tree Yaml.NetlistRead Yaml.NetlistFacts Yaml.NetlistDerived.
Open Scope Qc_scope.
Open Scope string_scope.

(* ------------------------------------------------------------------ *)
(* the parameters handed to Module.__init__                             *)
(* ------------------------------------------------------------------ *)
Lemma params_raw_in info : forall ps k v,
  parse_params info = Ok ps -> In (k, PRaw v) ps -> In (k, v) info.
Proof.
  induction info as [|[k' v'] info IH]; intros ps k v H Hin.
  - inversion H; subst. destruct Hin.
  - cbn [parse_params] in H. do 2 inv_bind H. inversion H; subst; clear H.
    destruct a as [p'|]; [|right; eauto].
    destruct Hin as [E1|Hin]; [|right; eauto].
    inversion E1; subst. left.
    destruct (mem_str k raw_keys); [inversion E; reflexivity|].
    destruct (String.eqb k KW_CENTER); [inv_bind E; discriminate|].
    destruct (String.eqb k KW_ASPECT_RATIO); [inv_bind E; discriminate|].
    destruct (String.eqb k KW_RECTANGLES); discriminate.
Qed.

Lemma params_keys info : forall ps k,
  parse_params info = Ok ps -> mem_str k (map fst ps) = true -> mem_str k (map fst info) = true.
Proof.
  induction info as [|[k' v'] info IH]; intros ps k H Hm.
  - inversion H; subst. discriminate.
  - cbn [parse_params] in H. do 2 inv_bind H. inversion H; subst; clear H. cbn [map fst mem_str].
    destruct a as [p'|].
    + cbn [map fst mem_str] in Hm. apply orb_true_iff in Hm. apply orb_true_iff.
      destruct Hm as [Hm|Hm]; [left; exact Hm|right; eauto].
    + apply orb_true_iff. right. eauto.
Qed.

Lemma params_nodup info : forall ps,
  parse_params info = Ok ps -> nodup_keys info = true -> nodup_keys ps = true.
Proof.
  unfold nodup_keys. induction info as [|[k' v'] info IH]; intros ps H Hn.
  - inversion H; subst. reflexivity.
  - cbn [parse_params] in H. do 2 inv_bind H. inversion H; subst; clear H.
    cbn [map fst nodup_str] in Hn. apply andb_true_iff in Hn. destruct Hn as [Hn1 Hn2].
    destruct a as [p'|]; [|eauto]. cbn [map fst nodup_str]. apply andb_true_iff. split; [|eauto].
    apply negb_true_iff. apply negb_true_iff in Hn1.
    destruct (mem_str k' (map fst a0)) eqn:Em; [|reflexivity].
    rewrite (params_keys _ _ _ E0 Em) in Hn1. discriminate.
Qed.

Lemma mem_str_in k l : mem_str k l = true <-> In k l.
Proof.
  induction l as [|x l IH]; cbn; [split; [discriminate|tauto]|].
  rewrite orb_true_iff, IH, String.eqb_eq. split; intros [H|H]; auto.
Qed.

(* with distinct keys, an entry splits the list into parts that do not hold its key *)
Lemma nodup_split {A} (ps : list (string * A)) k p :
  nodup_keys ps = true -> In (k, p) ps ->
  exists l1 l2, ps = (l1 ++ (k, p) :: l2)%list /\
    (forall p', ~ In (k, p') l1) /\ (forall p', ~ In (k, p') l2).
Proof.
  unfold nodup_keys. induction ps as [|[k' p'] ps IH]; intros Hn Hin; [destruct Hin|].
  cbn [map fst nodup_str] in Hn. apply andb_true_iff in Hn. destruct Hn as [Hn1 Hn2].
  apply negb_true_iff in Hn1.
  assert (Hnot : forall q, ~ In (k', q) ps).
  { intros q Hq. assert (mem_str k' (map fst ps) = true); [|congruence].
    apply mem_str_in. apply in_map_iff. exists (k', q). auto. }
  destruct Hin as [E|Hin].
  - inversion E; subst. exists [], ps. split; [reflexivity|]. split; [intros q []|exact Hnot].
  - destruct (IH Hn2 Hin) as (l1 & l2 & -> & H1 & H2). exists ((k', p') :: l1), l2.
    split; [reflexivity|]. split; [|exact H2].
    intros q [E|Hq]; [|eapply H1; eauto]. inversion E; subst. apply (Hnot p). exact Hin.
Qed.

Lemma init_loop_app all l1 l2 : forall s s',
  init_loop all (l1 ++ l2) s = Ok s' ->
  exists s1, init_loop all l1 s = Ok s1 /\ init_loop all l2 s1 = Ok s'.
Proof.
  induction l1 as [|[k p] l1 IH]; intros s s' H; cbn [app init_loop] in *.
  - eauto.
  - inv_bind H. destruct (IH _ _ H) as (s1 & A & B). exists s1. rewrite E. cbn [bind]. auto.
Qed.

(* ------------------------------------------------------------------ *)
(* flag flow: what the literal attributes imply for the classification  *)
(* ------------------------------------------------------------------ *)
(* once hard, always hard: "hard" needs "fixed" to be absent altogether, and
   "terminal" makes the module hard *)
Lemma stays_hard all l : forall s s',
  init_loop all l s = Ok s' -> s_hard s = true ->
  (forall p, In (KW_HARD, p) l -> has_key KW_FIXED all = true) ->
  (forall p, ~ In (KW_FIXED, p) l) ->
  s_hard s' = true.
Proof.
  induction l as [|[k p] l IH]; intros s s' H Hs Hh Hf.
  - inversion H; subst. exact Hs.
  - cbn [init_loop] in H. inv_bind H. eapply IH; [exact H| | |].
    + destruct p as [v|c|ar]; cbn [init_step] in E.
      * destruct (String.eqb k KW_AREA); [inv_bind E; inversion E; subst; exact Hs|].
        destruct (String.eqb k KW_FIXED) eqn:Ek.
        { apply String.eqb_eq in Ek. subst k. exfalso. apply (Hf (PRaw v)). left. reflexivity. }
        destruct (String.eqb k KW_HARD) eqn:Ek2.
        { apply String.eqb_eq in Ek2. subst k. rewrite (Hh (PRaw v)) in E by (left; reflexivity). discriminate. }
        destruct (String.eqb k KW_FLIP); [destruct (as_bool v); inversion E; subst; exact Hs|].
        destruct (String.eqb k KW_TERMINAL); [|discriminate].
        do 3 inv_bind E. destruct (as_bool v); inversion E; subst; reflexivity.
      * inversion E; subst. exact Hs.
      * inv_bind E. inversion E; subst. exact Hs.
    + intros q Hq. apply (Hh q). right. exact Hq.
    + intros q Hq. apply (Hf q). right. exact Hq.
Qed.

Lemma init_loop_hard_literal all ps s :
  nodup_keys ps = true -> incl ps all ->
  In (KW_HARD, PRaw (YBool true)) ps \/ In (KW_FIXED, PRaw (YBool true)) ps ->
  init_loop all ps mstate0 = Ok s -> s_hard s = true.
Proof.
  intros Hn Hi Hlit H. destruct Hlit as [Hin|Hin].
  - destruct (nodup_split _ _ _ Hn Hin) as (l1 & l2 & -> & N1 & N2).
    destruct (init_loop_app _ _ _ _ _ H) as (s1 & A & B). cbn [init_loop] in B. inv_bind B.
    cbn in E. inv_bind E. apply assert_ok in E0. apply negb_true_iff in E0. inversion E; subst; clear E.
    eapply stays_hard; [exact B|reflexivity| |].
    + intros p Hp. exfalso. eapply N2; eauto.
    + intros p Hp. assert (has_key KW_FIXED all = true); [|congruence].
      apply has_key_in. exists p. apply Hi. apply in_or_app. right. right. exact Hp.
  - destruct (nodup_split _ _ _ Hn Hin) as (l1 & l2 & -> & N1 & N2).
    destruct (init_loop_app _ _ _ _ _ H) as (s1 & A & B). cbn [init_loop] in B. inv_bind B.
    cbn in E. inversion E; subst; clear E.
    eapply stays_hard; [exact B|reflexivity| |].
    + intros p Hp. apply has_key_in. exists (PRaw (YBool true)). apply Hi. exact Hin.
    + intros p Hp. eapply N2; eauto.
Qed.

(* terminal only by "terminal: true" *)
Lemma init_loop_terminal all l : forall s s',
  init_loop all l s = Ok s' -> s_terminal s' = true ->
  s_terminal s = true \/ In (KW_TERMINAL, PRaw (YBool true)) l.
Proof.
  induction l as [|[k p] l IH]; intros s s' H Ht.
  - inversion H; subst. left. exact Ht.
  - cbn [init_loop] in H. inv_bind H. destruct (IH _ _ H Ht) as [T|T]; [|right; right; exact T].
    destruct p as [v|c|ar]; cbn [init_step] in E.
    + destruct (String.eqb k KW_AREA); [inv_bind E; inversion E; subst; left; exact T|].
      destruct (String.eqb k KW_FIXED); [destruct (as_bool v); inversion E; subst; left; exact T|].
      destruct (String.eqb k KW_HARD); [inv_bind E; destruct (as_bool v); inversion E; subst; left; exact T|].
      destruct (String.eqb k KW_FLIP); [destruct (as_bool v); inversion E; subst; left; exact T|].
      destruct (String.eqb k KW_TERMINAL) eqn:Ek; [|discriminate]. apply String.eqb_eq in Ek. subst k.
      do 3 inv_bind E. destruct v; try discriminate. cbn in E. inversion E; subst. cbn in T. subst.
      right. left. reflexivity.
    + inversion E; subst. left. exact T.
    + inv_bind E. inversion E; subst. left. exact T.
Qed.

(* the area is what the (only) area attribute says *)
Lemma keeps_area all l : forall s s',
  init_loop all l s = Ok s' -> (forall p, ~ In (KW_AREA, p) l) ->
  s_area s' = s_area s.
Proof.
  induction l as [|[k p] l IH]; intros s s' H Hn.
  - inversion H; subst. reflexivity.
  - cbn [init_loop] in H. inv_bind H. rewrite (IH _ _ H).
    + destruct p as [v|c|ar]; cbn [init_step] in E.
      * destruct (String.eqb k KW_AREA) eqn:Ek.
        { apply String.eqb_eq in Ek. subst k. exfalso. apply (Hn (PRaw v)). left. reflexivity. }
        destruct (String.eqb k KW_FIXED); [destruct (as_bool v); inversion E; subst; reflexivity|].
        destruct (String.eqb k KW_HARD); [inv_bind E; destruct (as_bool v); inversion E; subst; reflexivity|].
        destruct (String.eqb k KW_FLIP); [destruct (as_bool v); inversion E; subst; reflexivity|].
        destruct (String.eqb k KW_TERMINAL); [|discriminate].
        do 3 inv_bind E. destruct (as_bool v); inversion E; subst; reflexivity.
      * inversion E; subst. reflexivity.
      * inv_bind E. inversion E; subst. reflexivity.
    + intros q Hq. apply (Hn q). right. exact Hq.
Qed.

Lemma read_area_dict_length d : forall r, read_area_dict d = Ok r -> List.length r = List.length d.
Proof.
  induction d as [|[k v] d IH]; intros r H.
  - inversion H. reflexivity.
  - cbn [read_area_dict] in H. inv_bind H. destruct (as_number v); [|discriminate].
    do 2 inv_bind H. inversion H; subst. cbn. f_equal. eauto.
Qed.

Lemma read_region_area_nonempty v a : read_region_area v = Ok a -> v <> YMap [] -> a <> [].
Proof.
  unfold read_region_area. destruct (as_number v).
  - intros H _. inv_bind H. inversion H. discriminate.
  - destruct v as [| | | |d|]; try discriminate. intros H Hv. inv_bind H.
    apply read_area_dict_length in H. destruct d; [congruence|]. destruct a; [discriminate|discriminate].
Qed.

Lemma init_loop_area all ps s v :
  nodup_keys ps = true -> In (KW_AREA, PRaw v) ps -> v <> YMap [] ->
  init_loop all ps mstate0 = Ok s -> s_area s <> [].
Proof.
  intros Hn Hin Hv H.
  destruct (nodup_split _ _ _ Hn Hin) as (l1 & l2 & -> & N1 & N2).
  destruct (init_loop_app _ _ _ _ _ H) as (s1 & A & B). cbn [init_loop] in B. inv_bind B.
  cbn in E. inv_bind E. inversion E; subst; clear E.
  rewrite (keeps_area _ _ _ _ B N2); cbn [s_area].
  eapply read_region_area_nonempty; eauto.
Qed.

(* ------------------------------------------------------------------ *)
(* 1. hard modules: the reject theorems on the literal attributes       *)
(* ------------------------------------------------------------------ *)
(* the module is declared hard: a literal "hard: true" or "fixed: true" *)
Definition hard_literal (info : list (string * ytree)) : Prop :=
  In (KW_HARD, YBool true) info \/ In (KW_FIXED, YBool true) info.

Lemma classified_hard info s :
  nodup_keys info = true -> classified info s -> hard_literal info -> s_hard s = true.
Proof.
  intros Hn (ps & Hp & Hi) Hl. apply module_init_loop in Hi.
  eapply init_loop_hard_literal; [eapply params_nodup; eauto|apply incl_refl| |exact Hi].
  destruct Hl as [H|H]; [left|right]; eapply params_in_raw; eauto.
Qed.

Lemma classified_not_terminal info s :
  classified info s -> ~ In (KW_TERMINAL, YBool true) info -> s_terminal s = false.
Proof.
  intros (ps & Hp & Hi) Hn. apply module_init_loop in Hi.
  destruct (s_terminal s) eqn:Et; [|reflexivity]. exfalso.
  destruct (init_loop_terminal _ _ _ _ Hi Et) as [T|T]; [discriminate|].
  apply Hn. eapply params_raw_in; eauto.
Qed.

Lemma classified_area info s v :
  nodup_keys info = true -> classified info s -> In (KW_AREA, v) info -> v <> YMap [] -> s_area s <> [].
Proof.
  intros Hn (ps & Hp & Hi) Hin Hv. apply module_init_loop in Hi.
  eapply init_loop_area; [eapply params_nodup; eauto| |exact Hv|exact Hi].
  eapply params_in_raw; eauto.
Qed.

Section DocFacts.
Variable sqrt_o : Qc -> Qc.

(* everything else being in order, the constructor classifies the module *)
Lemma module_at_cases e t name info :
  module_at t name info ->
  (forall s, nodup_keys info = true -> classified info s -> rejects (read_netlist sqrt_o e t)) ->
  rejects (read_netlist sqrt_o e t).
Proof.
  intros Hm H.
  destruct (nodup_keys info) eqn:En.
  - destruct (parse_params info) as [ps|r] eqn:Ep.
    + destruct (module_init ps) as [s|r] eqn:Ei.
      * apply (H s eq_refl). exists ps. auto.
      * eapply module_at_rejects; eauto. left. cbn [parse_module]. rbind. rbind.
        rewrite Ep. cbn [bind]. rewrite Ei. cbn. eauto.
    + eapply module_at_rejects; eauto. left. cbn [parse_module]. rbind. rbind.
      rewrite Ep. cbn. eauto.
  - eapply module_at_rejects; eauto. left. cbn [parse_module]. rewrite En. cbn. eauto.
Qed.

(* a module declared hard ("hard: true" or "fixed: true") that has an area *)
Theorem reject_hard_with_area_doc e t name info v :
  module_at t name info -> hard_literal info ->
  In (KW_AREA, v) info -> v <> YMap [] ->
  rejects (read_netlist sqrt_o e t).
Proof.
  intros Hm Hl Ha Hv. eapply module_at_cases; eauto. intros s Hn Hc.
  eapply reject_hard_with_area; eauto.
  - eapply classified_hard; eauto.
  - eapply classified_area; eauto.
Qed.

(* a module declared hard, not "terminal: true", without rectangles *)
Theorem reject_hard_without_rectangles_doc e t name info :
  module_at t name info -> hard_literal info ->
  ~ In (KW_TERMINAL, YBool true) info -> has_key KW_RECTANGLES info = false ->
  rejects (read_netlist sqrt_o e t).
Proof.
  intros Hm Hl Ht Hr. eapply module_at_cases; eauto. intros s Hn Hc.
  eapply reject_hard_without_rectangles; eauto.
  - eapply classified_hard; eauto.
  - eapply classified_not_terminal; eauto.
Qed.

(* ---- overlapping rectangles, as written in the document ---- *)
(* the geometry of a rectangle entry [x, y, w, h] or [x, y, w, h, region] *)
Definition doc_rect (t : ytree) : option Rect :=
  match t with
  | YList (x :: y :: w :: h :: _) =>
      match as_number x, as_number y, as_number w, as_number h with
      | Some a, Some b, Some c, Some d => Some (mkRect a b c d false false KW_GROUND NOPOLY)
      | _, _, _, _ => None
      end
  | _ => None
  end.

(* two entries, at any two positions of the rectangle list, whose rectangles
   overlap by more than aeps *)
Definition doc_overlapping_pair (aeps : Qc) (v : ytree) : Prop :=
  exists l1 t1 l2 t2 l3 g1 g2,
    v = YList (l1 ++ t1 :: l2 ++ t2 :: l3) /\ doc_rect t1 = Some g1 /\ doc_rect t2 = Some g2 /\
    overlap aeps g1 g2 = true.

Lemma overlap_geom aeps a b a' b' :
  cx a = cx a' -> cy a = cy a' -> rw a = rw a' -> rh a = rh a' ->
  cx b = cx b' -> cy b = cy b' -> rw b = rw b' -> rh b = rh b' ->
  overlap aeps a b = overlap aeps a' b'.
Proof.
  intros E1 E2 E3 E4 E5 E6 E7 E8. unfold overlap, area_overlap, xmin, xmax, ymin, ymax.
  rewrite E1, E2, E3, E4, E5, E6, E7, E8. reflexivity.
Qed.

Lemma parse_rectangle_geom f hd t r g :
  parse_rectangle f hd t = Ok r -> doc_rect t = Some g ->
  cx (to_rect r) = cx g /\ cy (to_rect r) = cy g /\ rw (to_rect r) = rw g /\ rh (to_rect r) = rh g.
Proof.
  destruct t as [| | |l| |]; try discriminate. cbn [parse_rectangle doc_rect].
  destruct l as [|x [|y [|w [|h [|e [|e' tl]]]]]]; try discriminate; intros H; do 4 inv_bind H;
    apply rect_num_ok in E, E0, E1, E2; rewrite E, E0, E1, E2; intros Hg; inversion Hg; subst; clear Hg.
  - unfold finish_rectangle in H. do 3 inv_bind H. inversion H; subst. cbn. auto.
  - destruct e; try discriminate. inv_bind H. unfold finish_rectangle in H. do 3 inv_bind H.
    inversion H; subst. cbn. auto.
Qed.

Lemma parse_rect_list_app f hd a : forall b rs,
  parse_rect_list f hd (a ++ b) = Ok rs ->
  exists ra rb, rs = (ra ++ rb)%list /\ parse_rect_list f hd a = Ok ra /\ parse_rect_list f hd b = Ok rb.
Proof.
  induction a as [|t a IH]; intros b rs H; cbn [app] in H.
  - exists [], rs. auto.
  - cbn [parse_rect_list] in H. do 2 inv_bind H. inversion H; subst; clear H.
    destruct (IH _ _ E0) as (ra & rb & -> & A & B). exists (a0 :: ra), rb.
    split; [reflexivity|]. split; [|exact B]. cbn [parse_rect_list]. rewrite E, A. reflexivity.
Qed.

Lemma parse_rect_list_pair f hd aeps l1 t1 l2 t2 l3 g1 g2 rs :
  parse_rect_list f hd (l1 ++ t1 :: l2 ++ t2 :: l3) = Ok rs ->
  doc_rect t1 = Some g1 -> doc_rect t2 = Some g2 -> overlap aeps g1 g2 = true ->
  overlapping_pair aeps rs.
Proof.
  intros H G1 G2 Ho.
  destruct (parse_rect_list_app _ _ _ _ _ H) as (r1s & rb & -> & _ & Hb).
  cbn [parse_rect_list] in Hb. do 2 inv_bind Hb. inversion Hb; subst; clear Hb.
  destruct (parse_rect_list_app _ _ _ _ _ E0) as (r2s & rc & -> & _ & Hc).
  cbn [parse_rect_list] in Hc. do 2 inv_bind Hc. inversion Hc; subst; clear Hc.
  exists r1s, a, r2s, a0, a1. split; [reflexivity|].
  destruct (parse_rectangle_geom _ _ _ _ _ E G1) as (A1 & A2 & A3 & A4).
  destruct (parse_rectangle_geom _ _ _ _ _ E1 G2) as (B1 & B2 & B3 & B4).
  rewrite <- Ho. apply overlap_geom; assumption.
Qed.

(* the four numbers of a rectangle entry are scalars and it has at most 5 items *)
Lemma parse_rectangle_shape f hd l r :
  parse_rectangle f hd (YList l) = Ok r ->
  (List.length l <= 5)%nat /\
  forall i t, (i < 4)%nat -> nth_error l i = Some t -> as_scalar t <> None.
Proof.
  cbn [parse_rectangle].
  assert (K : forall t s, rect_num t = Ok s -> as_scalar t <> None).
  { intros t s. unfold rect_num. destruct (as_scalar t); [discriminate|discriminate]. }
  destruct l as [|x [|y [|w [|h [|e [|e' tl]]]]]]; try discriminate; intros H; do 4 inv_bind H;
    (split; [cbn; lia|]); intros i t Hi Hn;
    destruct i as [|[|[|[|i]]]]; try lia; cbn in Hn; inversion Hn; subst; eauto.
Qed.

Lemma doc_rect_list t g : doc_rect t = Some g -> as_scalar t = None.
Proof. destruct t; try discriminate. reflexivity. Qed.

Lemma parse_rectangles_pair f hd aeps v rs :
  parse_rectangles f hd v = Ok rs -> doc_overlapping_pair aeps v -> overlapping_pair aeps rs.
Proof.
  intros H (l1 & t1 & l2 & t2 & l3 & g1 & g2 & -> & G1 & G2 & Ho).
  unfold parse_rectangles in H.
  destruct (l1 ++ t1 :: l2 ++ t2 :: l3)%list as [|first rest] eqn:El; [discriminate|].
  destruct (is_some (as_number first)).
  - (* read as a single rectangle: impossible, an entry is not a number *)
    exfalso. cbn [parse_rect_list] in H. inv_bind H. rewrite <- El in E.
    destruct (parse_rectangle_shape _ _ _ _ E) as [Hlen Hsc].
    rewrite app_length in Hlen. cbn [List.length] in Hlen. rewrite app_length in Hlen. cbn [List.length] in Hlen.
    apply (Hsc (List.length l1) t1); [lia| |eapply doc_rect_list; eauto].
    rewrite nth_error_app2 by lia. rewrite Nat.sub_diag. reflexivity.
  - rewrite <- El in H. eapply parse_rect_list_pair; eauto.
Qed.

Lemma parse_module_list_in l name info : forall ms,
  parse_module_list l = Ok ms -> In (name, info) l ->
  exists m, parse_module name info = Ok m /\ In m ms.
Proof.
  induction l as [|[n i] l IH]; intros ms H Hin; [destruct Hin|].
  cbn [parse_module_list] in H. do 3 inv_bind H. inversion H; subst; clear H.
  destruct Hin as [E2|Hin].
  - inversion E2; subst. exists a0. split; [exact E0|left; reflexivity].
  - destruct (IH _ E1 Hin) as (m & A & B). exists m. split; [exact A|right; exact B].
Qed.

Lemma module_at_parsed t name info ms es :
  module_at t name info -> parse_netlist t = Ok (ms, es) ->
  exists m, parse_module name (YMap info) = Ok m /\ In m ms.
Proof.
  intros (items & mods & -> & H1 & H2) H.
  destruct (parse_netlist_result _ _ _ H) as (Hnd & Hm & _).
  rewrite (lookup_in_nodup _ _ _ Hnd H1) in Hm. cbn [parse_modules] in Hm. inv_bind Hm.
  eapply parse_module_list_in; eauto.
Qed.

Lemma setup_terminal name s rs m : setup name s rs = Ok m -> m_terminal m = s_terminal s.
Proof.
  unfold setup. intros H. do 5 inv_bind H.
  destruct (s_hard s); [do 4 inv_bind H|]; inversion H; reflexivity.
Qed.

(* a module declared hard, not "terminal: true", two of whose rectangle
   entries overlap by more than the area epsilon in force *)
Theorem reject_hard_overlap_doc e t name info v aeps :
  module_at t name info -> hard_literal info -> ~ In (KW_TERMINAL, YBool true) info ->
  In (KW_RECTANGLES, v) info -> doc_overlapping_pair aeps v ->
  (forall ms es ms1, parse_netlist t = Ok (ms, es) -> cr_squares sqrt_o ms = Ok ms1 ->
     area_eps (epsilon_after sqrt_o e ms1) = aeps) ->
  rejects (read_netlist sqrt_o e t).
Proof.
  intros Hm Hl Ht Hr Hov He.
  destruct (parse_netlist t) as [[ms es]|r] eqn:Ep; [|apply read_rejects_parse; rewrite Ep; eauto].
  destruct (module_at_parsed _ _ _ _ _ Hm Ep) as (m & Hpm & Hin).
  cbn [parse_module] in Hpm. do 5 inv_bind Hpm. apply assert_ok in E.
  assert (Hc : classified info a2) by (exists a1; auto).
  destruct (setup_spec _ _ _ _ Hpm) as (R & _ & Hh & _).
  rewrite (lookup_in_nodup _ _ _ E Hr) in E3.
  apply (reject_hard_overlap sqrt_o e t ms es m aeps Ep Hin).
  - rewrite Hh. eapply classified_hard; eauto.
  - rewrite (setup_terminal _ _ _ _ Hpm). eapply classified_not_terminal; eauto.
  - intros ms1 H1. eapply He; eauto.
  - rewrite R. eapply parse_rectangles_pair; eauto.
Qed.

Corollary reject_hard_overlap_doc_eps eps aeps t name info v :
  module_at t name info -> hard_literal info -> ~ In (KW_TERMINAL, YBool true) info ->
  In (KW_RECTANGLES, v) info -> doc_overlapping_pair aeps v ->
  rejects (read_netlist sqrt_o (Some (eps, aeps)) t).
Proof. intros. eapply reject_hard_overlap_doc; eauto. Qed.

End DocFacts.
