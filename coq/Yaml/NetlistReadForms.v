(* The forms in which Netlist(...) takes its argument, and sessions.

   read_yaml (frame/utils/utils.py) dispatches on the Python type of the
   argument of Netlist(stream):
     - a dict or a list: the tree itself;
     - a str containing ': ' or a line break: YAML text, parsed by ruamel
       (YAML(typ='safe'));
     - any other str: the name of a file whose contents are parsed;
     - an open text stream (io.TextIOBase): its contents are parsed;
     - anything else (None, a number): AssertionError.
   The text layer is not modelled: [yaml_load] (text -> tree) and [file_text]
   (file name -> contents) are section variables.  Nothing is assumed about
   them; a parser error or a missing file is an exception that is no
   AssertionError ([Raised]) - in every case nothing is loaded.

   A session is what one process does with the reader and the writer: loads
   (each from an undefined Rectangle epsilon, as the C04 / C05 harness does;
   the retained-epsilon case is C20's and C04_rt_read_write_retained's),
   writes of a loaded design, loads of the very same source again.  The model
   is a function of the current document only, so the outcome of every load of
   a session is the outcome of that load alone: there is no cache, memo table
   or shared object in the model that a previous operation could leave behind,
   and the correspondence check requires the same of the code (histories). *)
From Coq Require Import List Bool.
From FrameModel Require Import Num.QcTac Geometry.Rect Yaml.Tree Yaml.NetlistRead Yaml.NetlistWrite.
Import ListNotations.
Open Scope string_scope.
Open Scope list_scope.

(* stream.find(": ") >= 0 *)
Fixpoint has_colon_space (s : string) : bool :=
  match s with
  | EmptyString => false
  | String c r =>
      match r with
      | String d _ => (Ascii.eqb c ":"%char && Ascii.eqb d " "%char) || has_colon_space r
      | EmptyString => false
      end
  end.

Fixpoint has_newline (s : string) : bool :=
  match s with
  | EmptyString => false
  | String c r => Ascii.eqb c "010"%char || has_newline r
  end.

(* stream.find(": ") >= 0 or stream.find("\n") >= 0 *)
Definition is_text (s : string) : bool := has_colon_space s || has_newline s.

Inductive source : Type :=
| SrcTree (t : ytree)       (* a dict / list (a list is refused by parse_yaml_netlist) *)
| SrcStr (s : string)       (* a str: text or file name *)
| SrcStream (txt : string)  (* an open text stream; txt = what stream.read() returns *)
| SrcOther.                 (* any other object *)

Inductive outcome : Type :=
| Loaded (n : netlist)
| Rejected (r : reason)     (* AssertionError *)
| Raised.                   (* another exception: parser error, file not found *)

Section Forms.
Variable sqrt_o : Qc -> Qc.
Variable yaml_load : string -> option ytree.
Variable file_text : string -> option string.

Definition of_result (x : result netlist) : outcome :=
  match x with Ok n => Loaded n | Reject r => Rejected r end.

Definition read_source (epsdef : option (Qc * Qc)) (src : source) : outcome :=
  match src with
  | SrcTree t => of_result (read_netlist sqrt_o epsdef t)
  | SrcStr s =>
      let txt := if is_text s then Some s else file_text s in
      match txt with
      | Some x => match yaml_load x with
                  | Some t => of_result (read_netlist sqrt_o epsdef t)
                  | None => Raised
                  end
      | None => Raised
      end
  | SrcStream x => match yaml_load x with
                   | Some t => of_result (read_netlist sqrt_o epsdef t)
                   | None => Raised
                   end
  | SrcOther => Rejected R_source
  end.

(* whatever the form, the design loaded is the one read_netlist gives for the tree *)
Theorem source_tree e t : read_source e (SrcTree t) = of_result (read_netlist sqrt_o e t).
Proof. reflexivity. Qed.

Theorem source_text e s t :
  is_text s = true -> yaml_load s = Some t ->
  read_source e (SrcStr s) = of_result (read_netlist sqrt_o e t).
Proof. intros H1 H2. unfold read_source. rewrite H1, H2. reflexivity. Qed.

Theorem source_stream e txt t :
  yaml_load txt = Some t -> read_source e (SrcStream txt) = of_result (read_netlist sqrt_o e t).
Proof. intros H. unfold read_source. rewrite H. reflexivity. Qed.

Theorem source_file e name txt t :
  is_text name = false -> file_text name = Some txt -> yaml_load txt = Some t ->
  read_source e (SrcStr name) = of_result (read_netlist sqrt_o e t).
Proof. intros H1 H2 H3. unfold read_source. rewrite H1, H2, H3. reflexivity. Qed.

(* nothing is loaded unless read_netlist loads the tree the source stands for:
   every reject theorem of C05 holds for every input form *)
Theorem source_loaded_inv e src n :
  read_source e src = Loaded n ->
  exists t, read_netlist sqrt_o e t = Ok n /\
    match src with
    | SrcTree t' => t' = t
    | SrcStr s => exists txt, (if is_text s then Some s else file_text s) = Some txt /\ yaml_load txt = Some t
    | SrcStream txt => yaml_load txt = Some t
    | SrcOther => False
    end.
Proof.
  destruct src as [t|s|x|]; cbn [read_source].
  - destruct (read_netlist sqrt_o e t) as [n'|r] eqn:E; cbn; [|discriminate].
    intros H. inversion H; subst. exists t. split; [exact E|reflexivity].
  - destruct (if is_text s then Some s else file_text s) as [txt|] eqn:Et; [|discriminate].
    destruct (yaml_load txt) as [t|] eqn:El; [|discriminate].
    destruct (read_netlist sqrt_o e t) as [n'|r] eqn:E; cbn; [|discriminate].
    intros H. inversion H; subst. exists t. split; [exact E|]. exists txt. split; [reflexivity|exact El].
  - destruct (yaml_load x) as [t|] eqn:El; [|discriminate].
    destruct (read_netlist sqrt_o e t) as [n'|r] eqn:E; cbn; [|discriminate].
    intros H. inversion H; subst. exists t. split; [exact E|reflexivity].
  - discriminate.
Qed.

Corollary source_rejects e src :
  (forall t, match src with
             | SrcTree t' => t' = t
             | SrcStr s => exists txt, (if is_text s then Some s else file_text s) = Some txt /\ yaml_load txt = Some t
             | SrcStream txt => yaml_load txt = Some t
             | SrcOther => False
             end -> rejects (read_netlist sqrt_o e t)) ->
  forall n, read_source e src <> Loaded n.
Proof.
  intros H n Hn. apply source_loaded_inv in Hn. destruct Hn as (t & Hr & Hs).
  destruct (H t Hs) as [r Hrej]. congruence.
Qed.

(* ------------------------------------------------------------------ *)
(* sessions                                                             *)
(* ------------------------------------------------------------------ *)
Inductive op : Type :=
| OpLoad (src : source)     (* Rectangle.undefine_epsilon(); Netlist(src) *)
| OpWrite (k : nat).        (* write_yaml() of the design of the k-th operation (if it loaded one) *)

Inductive event : Type :=
| EvLoad (o : outcome)
| EvWrite (t : option ytree).

Definition design_of (ev : event) : option netlist :=
  match ev with EvLoad (Loaded n) => Some n | _ => None end.

(* the events so far, oldest first *)
Definition step (past : list event) (o : op) : event :=
  match o with
  | OpLoad src => EvLoad (read_source None src)
  | OpWrite k => EvWrite (match nth_error past k with
                          | Some ev => option_map write_netlist (design_of ev)
                          | None => None
                          end)
  end.

Fixpoint run_from (past : list event) (ops : list op) : list event :=
  match ops with
  | [] => past
  | o :: rest => run_from (past ++ [step past o]) rest
  end.
Definition run (ops : list op) : list event := run_from [] ops.

Lemma run_from_app past ops : exists evs, run_from past ops = past ++ evs /\ List.length evs = List.length ops.
Proof.
  revert past. induction ops as [|o ops IH]; intros past; cbn [run_from].
  - exists []. rewrite app_nil_r. split; reflexivity.
  - destruct (IH (past ++ [step past o])) as (evs & E & L). exists (step past o :: evs).
    rewrite E, <- app_assoc. split; [reflexivity|cbn; rewrite L; reflexivity].
Qed.

Lemma run_from_last past ops o :
  run_from past (ops ++ [o]) = run_from past ops ++ [step (run_from past ops) o].
Proof.
  revert past. induction ops as [|a ops IH]; intros past; cbn [run_from app]; [reflexivity|apply IH].
Qed.

(* history independence: whatever was loaded, rejected or written before - other
   designs with the same module names, the same source, a rejected variant -
   a load gives what it gives in a fresh process *)
Theorem session_load_alone ops src :
  run (ops ++ [OpLoad src]) = run ops ++ [EvLoad (read_source None src)].
Proof. unfold run. rewrite run_from_last. reflexivity. Qed.

(* loading the very same source twice gives the same outcome twice *)
Corollary session_load_twice ops src :
  run (ops ++ [OpLoad src; OpLoad src]) =
  run ops ++ [EvLoad (read_source None src); EvLoad (read_source None src)].
Proof.
  change (ops ++ [OpLoad src; OpLoad src])%list with (ops ++ ([OpLoad src] ++ [OpLoad src]))%list.
  rewrite app_assoc, session_load_alone, session_load_alone, <- app_assoc. reflexivity.
Qed.

(* a design written any number of times is written the same way, and writing
   is no event that a later load could observe *)
Theorem session_write_repeatable ops k :
  exists t, run (ops ++ [OpWrite k; OpWrite k]) = run ops ++ [EvWrite t; EvWrite t].
Proof.
  unfold run.
  change (ops ++ [OpWrite k; OpWrite k])%list with (ops ++ ([OpWrite k] ++ [OpWrite k]))%list.
  rewrite app_assoc, run_from_last, run_from_last, <- app_assoc. cbn [step app].
  set (past := run_from [] ops).
  destruct (Nat.ltb k (List.length past)) eqn:Hk.
  - apply PeanoNat.Nat.ltb_lt in Hk.
    rewrite (nth_error_app1 past _ Hk). eexists. reflexivity.
  - apply PeanoNat.Nat.ltb_ge in Hk.
    assert (E1 : nth_error past k = None) by (apply nth_error_None; exact Hk).
    rewrite E1. destruct (nth_error (past ++ [EvWrite None]) k) as [ev|] eqn:E2.
    + (* k = length past: the event is the write itself, no design *)
      assert (k = List.length past).
      { assert (k < List.length (past ++ [EvWrite None]))%nat by (apply nth_error_Some; congruence).
        rewrite app_length in H. cbn in H. lia. }
      subst k. rewrite nth_error_app2 in E2 by lia. rewrite PeanoNat.Nat.sub_diag in E2. cbn in E2.
      inversion E2; subst. eexists. reflexivity.
    + eexists. reflexivity.
Qed.

End Forms.
