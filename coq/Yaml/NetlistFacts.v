(* Facts about the netlist reader model: rejection of every listed defect
   class at every position (C05), acceptance of plainly written designs. *)
From FrameModel Require Import Num.QcTac Geometry.Rect Geometry.RectFacts Stog.CreateStog
  Yaml.Tree Yaml.NetlistRead.
Open Scope Qc_scope.
Open Scope string_scope.

(* ------------------------------------------------------------------ *)
(* generic: a rejecting component makes the whole computation reject    *)
(* ------------------------------------------------------------------ *)
Lemma rejects_bind {A B} (x : result A) (f : A -> result B) :
  rejects x -> rejects (bind x f).
Proof. intros [r ->]. exists r. reflexivity. Qed.

Lemma rejects_bind_ok {A B} (x : result A) (f : A -> result B) :
  (forall a, x = Ok a -> rejects (f a)) -> rejects (bind x f).
Proof.
  intros H. destruct x as [a|r]; cbn [bind].
  - apply H. reflexivity.
  - exists r. reflexivity.
Qed.

Lemma rejects_Reject {A} r : rejects (@Reject A r).
Proof. exists r. reflexivity. Qed.
#[export] Hint Resolve rejects_Reject : core.

Lemma assert_false_rejects {B} b r (f : unit -> result B) :
  b = false -> rejects (bind (assert b r) f).
Proof. intros ->. cbn. eauto. Qed.

Ltac rbind := apply rejects_bind_ok; intros ? ?.

Section Facts.
Variable sqrt_o : Qc -> Qc.

(* ---------------- modules mapping ---------------- *)
Lemma module_list_rejects l name info :
  In (name, info) l ->
  rejects (parse_module name info) \/ valid_identifier name = false ->
  rejects (parse_module_list l).
Proof.
  induction l as [|[n i] l IH]; intros Hin H; [destruct Hin|].
  cbn [parse_module_list]. destruct Hin as [E|Hin].
  - inversion E; subst. destruct H as [H|H].
    + rbind. apply rejects_bind. exact H.
    + apply assert_false_rejects. exact H.
  - rbind. rbind. apply rejects_bind. eauto.
Qed.

Lemma modules_rejects l name info :
  In (name, info) l ->
  rejects (parse_module name info) \/ valid_identifier name = false ->
  rejects (parse_modules (YMap l)).
Proof.
  intros. cbn [parse_modules]. rbind. eapply module_list_rejects; eauto.
Qed.

Lemma edge_list_rejects l e :
  In e l -> rejects (parse_edge e) -> rejects (parse_edge_list l).
Proof.
  induction l as [|x l IH]; intros Hin H; [destruct Hin|].
  cbn [parse_edge_list]. destruct Hin as [->|Hin].
  - apply rejects_bind. exact H.
  - rbind. apply rejects_bind. eauto.
Qed.

Lemma root_rejects items k v :
  In (k, v) items ->
  (k = KW_MODULES /\ rejects (parse_modules v)) \/ (k = KW_NETS /\ rejects (parse_edges v)) \/
  (k <> KW_MODULES /\ k <> KW_NETS) ->
  forall ms es, rejects (parse_root items ms es).
Proof.
  induction items as [|[k' v'] items IH]; intros Hin H ms es; [destruct Hin|].
  cbn [parse_root]. destruct Hin as [E|Hin].
  - inversion E; subst. destruct H as [[-> H]|[[-> H]|[H1 H2]]].
    + cbn. apply rejects_bind. exact H.
    + cbn. apply rejects_bind. exact H.
    + apply String.eqb_neq in H1, H2. rewrite H1, H2. eauto.
  - destruct (String.eqb k' KW_MODULES). { rbind. eauto. }
    destruct (String.eqb k' KW_NETS). { rbind. eauto. }
    eauto.
Qed.

Lemma read_rejects_parse e t : rejects (parse_netlist t) -> rejects (read_netlist sqrt_o e t).
Proof. intros H. unfold read_netlist. apply rejects_bind. exact H. Qed.

Lemma netlist_rejects_modules e items v :
  In (KW_MODULES, v) items -> rejects (parse_modules v) ->
  rejects (read_netlist sqrt_o e (YMap items)).
Proof.
  intros Hin H. apply read_rejects_parse. cbn [parse_netlist]. rbind.
  eapply root_rejects; eauto.
Qed.

Lemma netlist_rejects_nets e items v :
  In (KW_NETS, v) items -> rejects (parse_edges v) ->
  rejects (read_netlist sqrt_o e (YMap items)).
Proof.
  intros Hin H. apply read_rejects_parse. cbn [parse_netlist]. rbind.
  eapply root_rejects; eauto.
Qed.

(* a module at any position of the Modules mapping of a document *)
Definition module_at (t : ytree) (name : string) (info : list (string * ytree)) : Prop :=
  exists items mods, t = YMap items /\ In (KW_MODULES, YMap mods) items /\ In (name, YMap info) mods.
(* a net at any position of the Nets list of a document *)
Definition net_at (t : ytree) (net : list ytree) : Prop :=
  exists items nets, t = YMap items /\ In (KW_NETS, YList nets) items /\ In (YList net) nets.

Lemma module_at_rejects e t name info :
  module_at t name info ->
  rejects (parse_module name (YMap info)) \/ valid_identifier name = false ->
  rejects (read_netlist sqrt_o e t).
Proof.
  intros (items & mods & -> & H1 & H2) H.
  eapply netlist_rejects_modules; eauto. eapply modules_rejects; eauto.
Qed.

Lemma net_at_rejects e t net :
  net_at t net -> rejects (parse_edge (YList net)) -> rejects (read_netlist sqrt_o e t).
Proof.
  intros (items & nets & -> & H1 & H2) H.
  eapply netlist_rejects_nets; eauto. cbn [parse_edges]. eapply edge_list_rejects; eauto.
Qed.

(* ---------------- invalid name ---------------- *)
Theorem reject_invalid_name e t name info :
  module_at t name info -> valid_identifier name = false -> rejects (read_netlist sqrt_o e t).
Proof. intros. eapply module_at_rejects; eauto. Qed.

(* ---------------- unknown attribute ---------------- *)
Definition known_keys : list string :=
  [KW_AREA; KW_CENTER; KW_ASPECT_RATIO; KW_TERMINAL; KW_HARD; KW_FIXED; KW_FLIP; KW_RECTANGLES].

Lemma params_rejects_unknown info k v :
  In (k, v) info -> mem_str k known_keys = false -> rejects (parse_params info).
Proof.
  induction info as [|[k' v'] info IH]; intros Hin H; [destruct Hin|].
  cbn [parse_params]. destruct Hin as [E|Hin].
  - inversion E; subst. apply rejects_bind.
    cbn [mem_str known_keys raw_keys] in *.
    repeat match type of H with (_ || _) = false => apply orb_false_iff in H; destruct H as [? H] end.
    repeat match goal with H : String.eqb _ _ = false |- _ => rewrite H; clear H end.
    cbn. eauto.
  - rbind. apply rejects_bind. eauto.
Qed.

Theorem reject_unknown_attribute e t name info k v :
  module_at t name info -> In (k, v) info -> mem_str k known_keys = false ->
  rejects (read_netlist sqrt_o e t).
Proof.
  intros Hm Hin Hk. eapply module_at_rejects; eauto. left.
  cbn [parse_module]. rbind. rbind. apply rejects_bind. eapply params_rejects_unknown; eauto.
Qed.

(* ---------------- inversion helpers ---------------- *)
Lemma bind_ok {A B} (x : result A) (f : A -> result B) b :
  bind x f = Ok b -> exists a, x = Ok a /\ f a = Ok b.
Proof. destruct x; cbn; [eauto|discriminate]. Qed.
Lemma assert_ok b r u : assert b r = Ok u -> b = true.
Proof. destruct b; cbn; [reflexivity|discriminate]. Qed.

Ltac inv_bind H :=
  let a := fresh "a" in let E := fresh "E" in
  apply bind_ok in H; destruct H as (a & E & H).

Lemma params_in_raw info : forall ps k v,
  parse_params info = Ok ps -> In (k, v) info -> mem_str k raw_keys = true -> In (k, PRaw v) ps.
Proof.
  induction info as [|[k' v'] info IH]; intros ps k v H Hin Hk; [destruct Hin|].
  cbn [parse_params] in H. inv_bind H. inv_bind H. inversion H; subst; clear H.
  destruct Hin as [E1|Hin].
  - inversion E1; subst. rewrite Hk in E. inversion E; subst. left. reflexivity.
  - specialize (IH _ _ _ E0 Hin Hk). destruct a; [right|]; exact IH.
Qed.

Lemma params_key_in info : forall ps k p,
  parse_params info = Ok ps -> In (k, p) ps -> exists v, In (k, v) info.
Proof.
  induction info as [|[k' v'] info IH]; intros ps k p H Hin.
  - cbn in H. inversion H; subst. destruct Hin.
  - cbn [parse_params] in H. inv_bind H. inv_bind H. inversion H; subst; clear H.
    destruct a as [p'|].
    + destruct Hin as [E1|Hin].
      * inversion E1; subst. exists v'. left. reflexivity.
      * destruct (IH _ _ _ E0 Hin) as [v Hv]. exists v. right. exact Hv.
    + destruct (IH _ _ _ E0 Hin) as [v Hv]. exists v. right. exact Hv.
Qed.

Lemma has_key_in {A} k (m : list (string * A)) : has_key k m = true <-> exists v, In (k, v) m.
Proof.
  unfold has_key. induction m as [|[k' v'] m IH]; cbn [lookup].
  - split; [discriminate|intros [v []]].
  - destruct (String.eqb k k') eqn:E.
    + apply String.eqb_eq in E. subst. split; [intros _; exists v'; left; reflexivity|reflexivity].
    + rewrite IH. apply String.eqb_neq in E. split; intros [v H]; exists v.
      * right. exact H.
      * destruct H as [H|H]; [inversion H; congruence|exact H].
Qed.

Lemma has_key_false {A} k (m : list (string * A)) v : has_key k m = false -> ~ In (k, v) m.
Proof.
  intros H Hin. assert (has_key k m = true) by (apply has_key_in; eauto). congruence.
Qed.

Lemma init_loop_rejects all ps k p :
  In (k, p) ps -> (forall s, rejects (init_step all k p s)) -> forall s, rejects (init_loop all ps s).
Proof.
  induction ps as [|[k' p'] ps IH]; intros Hin H s; [destruct Hin|].
  cbn [init_loop]. destruct Hin as [E|Hin].
  - inversion E; subst. apply rejects_bind. apply H.
  - rbind. eauto.
Qed.

(* ---------------- non-positive area ---------------- *)
Definition bad_area (v : ytree) : Prop :=
  (exists q, as_number v = Some q /\ q <= 0) \/
  (exists d r a q, v = YMap d /\ In (r, a) d /\ as_number a = Some q /\ q <= 0).

Lemma area_dict_rejects d r a q :
  In (r, a) d -> as_number a = Some q -> q <= 0 -> rejects (read_area_dict d).
Proof.
  induction d as [|[r' a'] d IH]; intros Hin Ha Hq; [destruct Hin|].
  cbn [read_area_dict]. destruct Hin as [E|Hin].
  - inversion E; subst. rbind. rewrite Ha. apply assert_false_rejects. qb2p. exact Hq.
  - rbind. destruct (as_number a'); [|eauto]. rbind. apply rejects_bind. eauto.
Qed.

Lemma region_area_rejects v : bad_area v -> rejects (read_region_area v).
Proof.
  intros [(q & Hv & Hq)|(d & r & a & q & -> & Hin & Ha & Hq)]; unfold read_region_area.
  - rewrite Hv. apply assert_false_rejects. qb2p. exact Hq.
  - cbn [as_number as_scalar]. rbind. eapply area_dict_rejects; eauto.
Qed.

Lemma parse_module_rejects_init name info :
  (forall ps, parse_params info = Ok ps -> rejects (module_init ps)) ->
  rejects (parse_module name (YMap info)).
Proof.
  intros H. cbn [parse_module]. rbind. rbind. rbind. apply rejects_bind. eauto.
Qed.

Theorem reject_nonpositive_area e t name info v :
  module_at t name info -> In (KW_AREA, v) info -> bad_area v ->
  rejects (read_netlist sqrt_o e t).
Proof.
  intros Hm Hin Hbad. eapply module_at_rejects; eauto. left.
  apply parse_module_rejects_init. intros ps Hps.
  unfold module_init. apply rejects_bind.
  eapply init_loop_rejects.
  - eapply params_in_raw; eauto.
  - intros s. cbn. apply rejects_bind. apply region_area_rejects. exact Hbad.
Qed.

(* ---------------- soft module without area ---------------- *)
Lemma init_step_keeps all k p s s' :
  k <> KW_AREA -> k <> KW_HARD -> k <> KW_FIXED -> k <> KW_TERMINAL ->
  init_step all k p s = Ok s' ->
  s_hard s' = s_hard s /\ s_area s' = s_area s /\ s_fixed s' = s_fixed s /\ s_terminal s' = s_terminal s.
Proof.
  intros H1 H2 H3 H4 H. apply String.eqb_neq in H1, H2, H3, H4.
  destruct p as [v|c|a]; cbn [init_step] in H.
  - rewrite H1, H3, H2, H4 in H. destruct (String.eqb k KW_FLIP); [|discriminate].
    destruct (as_bool v); inversion H; subst; cbn; auto.
  - inversion H; subst; cbn; auto.
  - inv_bind H. inversion H; subst; cbn; auto.
Qed.

Lemma init_loop_keeps all ps : forall s s',
  (forall k p, In (k, p) ps -> k <> KW_AREA /\ k <> KW_HARD /\ k <> KW_FIXED /\ k <> KW_TERMINAL) ->
  init_loop all ps s = Ok s' ->
  s_hard s' = s_hard s /\ s_area s' = s_area s /\ s_fixed s' = s_fixed s /\ s_terminal s' = s_terminal s.
Proof.
  induction ps as [|[k p] ps IH]; intros s s' Hk H.
  - cbn in H. inversion H; subst. auto.
  - cbn [init_loop] in H. inv_bind H.
    destruct (Hk k p (or_introl eq_refl)) as (H1 & H2 & H3 & H4).
    destruct (init_step_keeps _ _ _ _ _ H1 H2 H3 H4 E) as (A1 & A2 & A3 & A4).
    destruct (IH a s') as (B1 & B2 & B3 & B4); [intros k0 p0 Hin0; apply (Hk k0 p0); right; exact Hin0|exact H|].
    rewrite B1, B2, B3, B4. auto.
Qed.

Lemma module_init_loop ps s : module_init ps = Ok s -> init_loop ps ps mstate0 = Ok s.
Proof.
  unfold module_init. intros H. inv_bind H. inv_bind H. inv_bind H. inversion H; subst. exact E.
Qed.

Theorem reject_soft_without_area e t name info :
  module_at t name info ->
  has_key KW_AREA info = false -> has_key KW_HARD info = false ->
  has_key KW_FIXED info = false -> has_key KW_TERMINAL info = false ->
  rejects (read_netlist sqrt_o e t).
Proof.
  intros Hm Ha Hh Hf Ht. eapply module_at_rejects; eauto. left.
  cbn [parse_module]. rbind. rbind. apply rejects_bind_ok. intros ps Hps.
  apply rejects_bind_ok. intros s Hs.
  apply module_init_loop in Hs.
  assert (K : forall k p, In (k, p) ps ->
              k <> KW_AREA /\ k <> KW_HARD /\ k <> KW_FIXED /\ k <> KW_TERMINAL).
  { intros k p Hin. destruct (params_key_in _ _ _ _ Hps Hin) as [v Hv].
    assert (Hk : has_key k info = true) by (apply has_key_in; eauto).
    repeat split; intros ->; congruence. }
  destruct (init_loop_keeps _ _ _ _ K Hs) as (B1 & B2 & B3 & B4). cbn in B1, B2, B3, B4.
  rbind. unfold setup. rbind. rbind. rbind.
  apply assert_false_rejects. rewrite B1, B2. reflexivity.
Qed.

(* ---------------- hard module: area, no rectangle ---------------- *)
(* "hard" as Module.__init__ classifies the module: s_hard of the constructed state *)
Definition classified (info : list (string * ytree)) (s : mstate) : Prop :=
  exists ps, parse_params info = Ok ps /\ module_init ps = Ok s.

Lemma parse_module_classified name info s :
  classified info s ->
  (forall rs, rejects (setup name s rs)) ->
  rejects (parse_module name (YMap info)).
Proof.
  intros (ps & H1 & H2) H. cbn [parse_module]. rbind. rbind. rewrite H1. cbn [bind].
  rewrite H2. cbn [bind]. rbind. apply H.
Qed.

Theorem reject_hard_with_area e t name info s :
  module_at t name info -> classified info s ->
  s_hard s = true -> s_area s <> [] ->
  rejects (read_netlist sqrt_o e t).
Proof.
  intros Hm Hc Hh Ha. eapply module_at_rejects; eauto. left.
  eapply parse_module_classified; eauto. intros rs. unfold setup.
  rbind. rbind. rbind. rbind. rbind. rewrite Hh.
  apply assert_false_rejects. destruct (s_area s); [congruence|reflexivity].
Qed.

Theorem reject_hard_without_rectangles e t name info s :
  module_at t name info -> classified info s ->
  s_hard s = true -> s_terminal s = false -> has_key KW_RECTANGLES info = false ->
  rejects (read_netlist sqrt_o e t).
Proof.
  intros Hm (ps & H1 & H2) Hh Ht Hr. eapply module_at_rejects; eauto. left.
  cbn [parse_module]. rbind. rbind. rewrite H1. cbn [bind]. rewrite H2. cbn [bind].
  unfold has_key in Hr. destruct (lookup KW_RECTANGLES info); [discriminate|]. cbn [bind].
  unfold setup. rbind. rbind. rbind. rbind. rbind. rewrite Hh. rbind. rbind. rbind.
  apply assert_false_rejects. rewrite Ht. reflexivity.
Qed.

(* ---------------- non-positive rectangle size ---------------- *)
Definition nonpos (t : ytree) : Prop := exists q, as_number t = Some q /\ q <= 0.
Definition bad_rect (r : ytree) : Prop :=
  exists x y w h tl, r = YList (x :: y :: w :: h :: tl) /\ (nonpos w \/ nonpos h).
(* r is one of the rectangles of the attribute value v (list of rectangles or
   the single-rectangle shorthand) *)
Definition rect_in (v r : ytree) : Prop :=
  exists first rest, v = YList (first :: rest) /\
    ((is_some (as_number first) = true /\ r = v) \/
     (is_some (as_number first) = false /\ In r (first :: rest))).

Lemma rect_num_ok t s : rect_num t = Ok s -> as_number t = Some (sval s).
Proof.
  unfold rect_num, as_number. destruct (as_scalar t); [|discriminate].
  intros H. inv_bind H. inversion H; subst. reflexivity.
Qed.

Lemma finish_rejects f hd five x y w h reg :
  sval w <= 0 \/ sval h <= 0 -> rejects (finish_rectangle f hd five x y w h reg).
Proof.
  intros H. unfold finish_rectangle. rbind. destruct H as [H|H].
  - apply assert_false_rejects. qb2p. exact H.
  - rbind. apply assert_false_rejects. qb2p. exact H.
Qed.

Lemma bad_rect_rejects f hd r : bad_rect r -> rejects (parse_rectangle f hd r).
Proof.
  intros (x & y & w & h & tl & -> & H).
  assert (K : forall sw sh, rect_num w = Ok sw -> rect_num h = Ok sh -> sval sw <= 0 \/ sval sh <= 0).
  { intros sw sh Hw Hh. apply rect_num_ok in Hw, Hh.
    destruct H as [(q & Hq & Hle)|(q & Hq & Hle)]; [left|right]; congruence. }
  destruct tl as [|e [|e' tl]]; cbn [parse_rectangle]; [| |eauto].
  - rbind. rbind. rbind. rbind. apply finish_rejects. eauto.
  - rbind. rbind. rbind. rbind. destruct e; eauto. rbind. apply finish_rejects. eauto.
Qed.

Lemma rect_list_rejects f hd l r :
  In r l -> rejects (parse_rectangle f hd r) -> rejects (parse_rect_list f hd l).
Proof.
  induction l as [|x l IH]; intros Hin H; [destruct Hin|].
  cbn [parse_rect_list]. destruct Hin as [->|Hin].
  - apply rejects_bind. exact H.
  - rbind. apply rejects_bind. eauto.
Qed.

Lemma rectangles_rejects f hd v r :
  rect_in v r -> rejects (parse_rectangle f hd r) -> rejects (parse_rectangles f hd v).
Proof.
  intros (first & rest & -> & [[Hn ->]|[Hn Hin]]) H; cbn [parse_rectangles]; rewrite Hn.
  - eapply rect_list_rejects; [left; reflexivity|exact H].
  - eapply rect_list_rejects; eauto.
Qed.

Theorem reject_nonpositive_rect_size e t name info v r :
  module_at t name info -> lookup KW_RECTANGLES info = Some v -> rect_in v r -> bad_rect r ->
  rejects (read_netlist sqrt_o e t).
Proof.
  intros Hm Hl Hin Hbad. eapply module_at_rejects; eauto. left.
  cbn [parse_module]. rbind. rbind. rbind. rbind. rewrite Hl. apply rejects_bind.
  eapply rectangles_rejects; eauto. apply bad_rect_rejects. exact Hbad.
Qed.

(* ---------------- one-pin net ---------------- *)
Theorem reject_one_pin_net e t net :
  net_at t net ->
  (forall names w, edge_items net = Ok (names, w) -> (List.length names < 2)%nat) ->
  rejects (read_netlist sqrt_o e t).
Proof.
  intros Hn H. eapply net_at_rejects; eauto. cbn [parse_edge]. rbind. rbind.
  destruct a0 as [names w]. apply assert_false_rejects. cbn [fst].
  specialize (H _ _ H1). apply Nat.leb_gt. exact H.
Qed.

Corollary reject_one_pin_net_plain e t a :
  net_at t [YStr a] -> rejects (read_netlist sqrt_o e t).
Proof.
  intros. eapply reject_one_pin_net; eauto. cbn. intros names w E. inversion E; subst. cbn. lia.
Qed.

Corollary reject_one_pin_net_weight e t a wt q :
  net_at t [YStr a; wt] -> as_number wt = Some q -> rejects (read_netlist sqrt_o e t).
Proof.
  intros Hn Hw. eapply reject_one_pin_net; eauto. cbn. rewrite Hw. cbn.
  intros names w E. inversion E; subst. cbn. lia.
Qed.

(* ---------------- results of the root loop ---------------- *)
Lemma lookup_not_mem {A} k (m : list (string * A)) : mem_str k (map fst m) = false -> lookup k m = None.
Proof.
  induction m as [|[k' v] m IH]; cbn; [reflexivity|].
  intros H. apply orb_false_iff in H. destruct H as [H1 H2]. rewrite H1. auto.
Qed.

Lemma lookup_in_nodup {A} k v (m : list (string * A)) :
  nodup_keys m = true -> In (k, v) m -> lookup k m = Some v.
Proof.
  unfold nodup_keys. induction m as [|[k' v'] m IH]; intros Hn Hin; [destruct Hin|].
  cbn in Hn. apply andb_true_iff in Hn. destruct Hn as [Hn1 Hn2]. apply negb_true_iff in Hn1.
  cbn [lookup]. destruct Hin as [E|Hin].
  - inversion E; subst. rewrite String.eqb_refl. reflexivity.
  - destruct (String.eqb k k') eqn:Ek.
    + apply String.eqb_eq in Ek. subst. rewrite (lookup_not_mem _ _ Hn1) in IH.
      specialize (IH Hn2 Hin). discriminate.
    + auto.
Qed.

Lemma parse_root_result items : forall ms0 es0 ms es,
  nodup_keys items = true -> parse_root items ms0 es0 = Ok (ms, es) ->
  match lookup KW_MODULES items with Some v => parse_modules v = Ok ms | None => ms = ms0 end /\
  match lookup KW_NETS items with Some v => parse_edges v = Ok es | None => es = es0 end.
Proof.
  unfold nodup_keys.
  induction items as [|[k v] items IH]; intros ms0 es0 ms es Hn H.
  - cbn in H. inversion H; subst. cbn. auto.
  - cbn in Hn. apply andb_true_iff in Hn. destruct Hn as [Hn1 Hn2]. apply negb_true_iff in Hn1.
    cbn [parse_root] in H. cbn [lookup].
    destruct (String.eqb k KW_MODULES) eqn:E1.
    + apply String.eqb_eq in E1. subst. inv_bind H. destruct (IH _ _ _ _ Hn2 H) as [A B].
      rewrite (lookup_not_mem _ _ Hn1) in A. subst. cbn. split; [exact E|exact B].
    + destruct (String.eqb k KW_NETS) eqn:E2; [|discriminate].
      apply String.eqb_eq in E2. subst. inv_bind H. destruct (IH _ _ _ _ Hn2 H) as [A B].
      rewrite (lookup_not_mem _ _ Hn1) in B. subst. cbn. split; [exact A|exact E].
Qed.

Lemma parse_netlist_result items ms es :
  parse_netlist (YMap items) = Ok (ms, es) ->
  nodup_keys items = true /\
  match lookup KW_MODULES items with Some v => parse_modules v = Ok ms | None => ms = [] end /\
  match lookup KW_NETS items with Some v => parse_edges v = Ok es | None => es = [] end.
Proof.
  cbn [parse_netlist]. intros H. inv_bind H. apply assert_ok in E. split; [exact E|].
  eapply parse_root_result; eauto.
Qed.

Lemma parse_edge_list_in l : forall es e,
  parse_edge_list l = Ok es -> In e l -> exists ne, parse_edge e = Ok ne /\ In ne es.
Proof.
  induction l as [|x l IH]; intros es e H Hin; [destruct Hin|].
  cbn [parse_edge_list] in H. inv_bind H. inv_bind H. inversion H; subst; clear H.
  destruct Hin as [->|Hin].
  - exists a. split; [exact E|left; reflexivity].
  - destruct (IH _ _ E0 Hin) as (ne & H1 & H2). exists ne. split; [exact H1|right; exact H2].
Qed.

(* names are kept by every stage *)
Lemma setup_name name s rs m : setup name s rs = Ok m -> m_name m = name.
Proof.
  unfold setup. intros H. repeat inv_bind H.
  destruct (s_hard s); [repeat inv_bind H|]; inversion H; reflexivity.
Qed.
Lemma parse_module_name name t m : parse_module name t = Ok m -> m_name m = name.
Proof.
  destruct t; cbn [parse_module]; try discriminate. intros H. do 5 inv_bind H.
  eapply setup_name; eauto.
Qed.
Lemma parse_module_list_names l : forall ms, parse_module_list l = Ok ms -> map m_name ms = map fst l.
Proof.
  induction l as [|[n i] l IH]; intros ms H.
  - cbn in H. inversion H. reflexivity.
  - cbn [parse_module_list] in H. repeat inv_bind H. inversion H; subst. cbn.
    f_equal; [eapply parse_module_name; eauto|auto].
Qed.
Lemma cr_square_name m m' : cr_square sqrt_o m = Ok m' -> m_name m' = m_name m.
Proof.
  unfold cr_square. intros H. inv_bind H.
  destruct (m_hard m && negb (m_terminal m) && is_nil (m_rects m)).
  - destruct (m_center m) as [[x y]|]; inversion H; reflexivity.
  - inversion H; reflexivity.
Qed.
Lemma cr_squares_names ms : forall ms', cr_squares sqrt_o ms = Ok ms' -> map m_name ms' = map m_name ms.
Proof.
  induction ms as [|m ms IH]; intros ms' H.
  - cbn in H. inversion H. reflexivity.
  - cbn [cr_squares] in H. repeat inv_bind H. inversion H; subst. cbn.
    f_equal; [eapply cr_square_name; eauto|auto].
Qed.
Lemma cr_stog_name eps aeps m p : cr_stog eps aeps m = Ok p -> m_name (fst p) = m_name m.
Proof.
  unfold cr_stog. destruct (m_rects m); [intros H; inversion H; reflexivity|].
  destruct (m_create_stog eps aeps (m0 :: l)) as [[[hs fin] orig]|]; [|discriminate].
  intros H; inversion H; reflexivity.
Qed.
Lemma cr_stogs_names eps aeps ms : forall p,
  cr_stogs eps aeps ms = Ok p -> map m_name (fst p) = map m_name ms.
Proof.
  induction ms as [|m ms IH]; intros p H.
  - cbn in H. inversion H. reflexivity.
  - cbn [cr_stogs] in H. repeat inv_bind H. inversion H; subst. cbn.
    f_equal; [eapply cr_stog_name; eauto|auto].
Qed.
Lemma create_rectangles_names e ms ms' rects e' :
  create_rectangles sqrt_o e ms = Ok (ms', rects, e') -> map m_name ms' = map m_name ms.
Proof.
  unfold create_rectangles. intros H. repeat inv_bind H. inversion H; subst.
  erewrite cr_stogs_names by eauto. eapply cr_squares_names; eauto.
Qed.

Lemma resolve_rejects names es mem w :
  In (mem, w) es ->
  (exists b, In b mem /\ mem_str b names = false) \/ w <= 0 ->
  rejects (resolve_edges names es).
Proof.
  induction es as [|[mem' w'] es IH]; intros Hin H; [destruct Hin|].
  cbn [resolve_edges]. destruct Hin as [E|Hin].
  - inversion E; subst. destruct H as [(b & Hb & Hn)|Hw].
    + apply assert_false_rejects. clear -Hb Hn. induction mem as [|x mem IH]; [destruct Hb|].
      cbn. destruct Hb as [->|Hb]; [rewrite Hn; reflexivity|].
      rewrite (IH Hb). apply andb_false_r.
    + rbind. apply assert_false_rejects. qb2p. exact Hw.
  - rbind. rbind. apply rejects_bind. eauto.
Qed.

(* a net of the document whose loaded form has an unknown member or a
   non-positive weight makes the load fail *)
Lemma net_defect_rejects e items nets net :
  In (KW_NETS, YList nets) items -> In (YList net) nets ->
  (forall mem w, parse_edge (YList net) = Ok (mem, w) ->
     (exists b, In b mem /\
        forall mods, lookup KW_MODULES items = Some (YMap mods) -> ~ In b (map fst mods)) \/ w <= 0) ->
  rejects (read_netlist sqrt_o e (YMap items)).
Proof.
  intros Hnets Hnet Hdef. unfold read_netlist. rbind. destruct a as [ms es].
  destruct (parse_netlist_result _ _ _ H) as (Hnd & Hm & He).
  rewrite (lookup_in_nodup _ _ _ Hnd Hnets) in He. cbn [parse_edges] in He.
  destruct (parse_edge_list_in _ _ _ He Hnet) as ([mem w] & Hpe & Hin).
  cbn [fst snd]. rbind. destruct a as [[ms' rects] e'].
  apply rejects_bind. eapply resolve_rejects; eauto.
  destruct (Hdef _ _ Hpe) as [(b & Hb & Hun)|Hw]; [left|right; exact Hw].
  exists b. split; [exact Hb|].
  rewrite (create_rectangles_names _ _ _ _ _ H0).
  destruct (lookup KW_MODULES items) as [v|] eqn:El.
  - destruct v; cbn [parse_modules] in Hm; try discriminate.
    inv_bind Hm. rewrite (parse_module_list_names _ _ Hm).
    specialize (Hun _ eq_refl). clear -Hun.
    induction (map fst m) as [|x l IH]; [reflexivity|].
    cbn. apply orb_false_iff. split.
    + apply String.eqb_neq. intros ->. apply Hun. left. reflexivity.
    + apply IH. intros Hin. apply Hun. right. exact Hin.
  - subst. reflexivity.
Qed.

Lemma edge_items_in l : forall p b, edge_items l = Ok p -> In (YStr b) l -> In b (fst p).
Proof.
  induction l as [|x l IH]; intros p b H Hin; [destruct Hin|].
  cbn [edge_items] in H. destruct l as [|y l].
  - destruct Hin as [->|[]]. cbn in H. inversion H. left. reflexivity.
  - destruct x; try discriminate. inv_bind H. inversion H; subst. cbn [fst].
    destruct Hin as [E1|Hin]; [inversion E1; left; reflexivity|right; eapply IH; eauto].
Qed.

Lemma edge_items_weight wt q : as_number wt = Some q ->
  forall l p, edge_items (l ++ [wt])%list = Ok p -> snd p = Some q.
Proof.
  intros Hw. induction l as [|x l IH]; intros p H.
  - cbn in H. rewrite Hw in H. inversion H. reflexivity.
  - cbn [app edge_items] in H. destruct (l ++ [wt])%list eqn:El; [destruct l; discriminate|].
    destruct x; try discriminate. inv_bind H. inversion H; subst. cbn [snd]. eapply IH; eauto.
Qed.

(* ---------------- unknown module in a net ---------------- *)
Theorem reject_unknown_module e t net b :
  net_at t net -> In (YStr b) net ->
  (forall items mods, t = YMap items -> lookup KW_MODULES items = Some (YMap mods) -> ~ In b (map fst mods)) ->
  rejects (read_netlist sqrt_o e t).
Proof.
  intros (items & nets & -> & H1 & H2) Hb Hun. eapply net_defect_rejects; eauto.
  intros mem w Hpe. left. exists b. split; [|intros mods; apply Hun; reflexivity].
  cbn [parse_edge] in Hpe. repeat inv_bind Hpe. inversion Hpe; subst.
  eapply edge_items_in; eauto.
Qed.

(* ---------------- non-positive weight ---------------- *)
Theorem reject_nonpositive_weight e t l wt q :
  net_at t (l ++ [wt])%list -> as_number wt = Some q -> q <= 0 -> rejects (read_netlist sqrt_o e t).
Proof.
  intros (items & nets & -> & H1 & H2) Hw Hq. eapply net_defect_rejects; eauto.
  intros mem w Hpe. right.
  cbn [parse_edge] in Hpe. repeat inv_bind Hpe. inversion Hpe; subst.
  rewrite (edge_items_weight _ _ Hw _ _ E0). exact Hq.
Qed.

(* ---------------- hard module with overlapping rectangles ---------------- *)
Definition overlapping_pair (aeps : Qc) (rs : list mrect) : Prop :=
  exists l1 r1 l2 r2 l3, rs = (l1 ++ r1 :: l2 ++ r2 :: l3)%list /\
                         overlap aeps (to_rect r1) (to_rect r2) = true.

Lemma no_overlap_with_false aeps r l2 r2 l3 :
  overlap aeps (to_rect r) (to_rect r2) = true -> no_overlap_with aeps r (l2 ++ r2 :: l3) = false.
Proof.
  intros H. induction l2 as [|x l2 IH]; cbn.
  - rewrite H. reflexivity.
  - rewrite IH. apply andb_false_r.
Qed.

Lemma no_overlaps_false aeps rs : overlapping_pair aeps rs -> no_overlaps aeps rs = false.
Proof.
  intros (l1 & r1 & l2 & r2 & l3 & -> & H). induction l1 as [|x l1 IH]; cbn.
  - rewrite no_overlap_with_false by exact H. reflexivity.
  - rewrite IH. apply andb_false_r.
Qed.

Lemma cr_squares_keeps ms : forall ms1 m,
  cr_squares sqrt_o ms = Ok ms1 -> In m ms -> m_rects m <> [] -> In m ms1.
Proof.
  induction ms as [|x ms IH]; intros ms1 m H Hin Hr; [destruct Hin|].
  cbn [cr_squares] in H. inv_bind H. inv_bind H. inversion H; subst; clear H.
  destruct Hin as [->|Hin]; [left|right; eauto].
  unfold cr_square in E. inv_bind E.
  destruct (m_rects m); [congruence|]. rewrite andb_false_r in E. inversion E. reflexivity.
Qed.

Lemma cr_overlaps_rejects aeps ms m :
  In m ms -> m_hard m = true -> m_terminal m = false -> no_overlaps aeps (m_rects m) = false ->
  rejects (cr_overlaps aeps ms).
Proof.
  induction ms as [|x ms IH]; intros Hin Hh Ht Hn; [destruct Hin|].
  cbn [cr_overlaps]. destruct Hin as [->|Hin].
  - apply rejects_bind. unfold cr_overlap. rewrite Hh, Ht, Hn. cbn. eauto.
  - rbind. eauto.
Qed.

Definition area_eps (e : option (Qc * Qc)) : Qc := match e with Some (_, y) => y | None => 0 end.

(* the document parses (everything else is in order), one of its modules is
   hard, not a terminal, and two of its rectangles overlap by more than the
   area epsilon in force *)
Theorem reject_hard_overlap e t ms es m aeps :
  parse_netlist t = Ok (ms, es) -> In m ms ->
  m_hard m = true -> m_terminal m = false ->
  (forall ms1, cr_squares sqrt_o ms = Ok ms1 -> area_eps (epsilon_after sqrt_o e ms1) = aeps) ->
  overlapping_pair aeps (m_rects m) ->
  rejects (read_netlist sqrt_o e t).
Proof.
  intros Hp Hin Hh Ht He Hov. unfold read_netlist. rewrite Hp. cbn [bind fst snd].
  apply rejects_bind. unfold create_rectangles. rbind. apply rejects_bind.
  specialize (He _ H). unfold area_eps in He.
  assert (Hne : m_rects m <> []).
  { destruct Hov as (l1 & r1 & l2 & r2 & l3 & -> & _). destruct l1; discriminate. }
  pose proof (cr_squares_keeps _ _ _ H Hin Hne) as Hin1.
  replace (match epsilon_after sqrt_o e a with Some (_, y) => y | None => 0 end) with aeps.
  eapply cr_overlaps_rejects; eauto. apply no_overlaps_false. exact Hov.
Qed.

Corollary reject_hard_overlap_eps eps aeps t ms es m :
  parse_netlist t = Ok (ms, es) -> In m ms ->
  m_hard m = true -> m_terminal m = false ->
  overlapping_pair aeps (m_rects m) ->
  rejects (read_netlist sqrt_o (Some (eps, aeps)) t).
Proof. intros. eapply reject_hard_overlap; eauto. intros; reflexivity. Qed.

End Facts.
