(* rect_io.solution_to_netlist_found on the sub-class it preserves, first part: designs
   of soft modules given by area and centre (single ground-region area, no aspect
   ratio, no rectangles, not in the result) with nets of weight 1.  On this class
   the document is accepted back and gives the same modules and nets. *)
From FrameModel Require Import Num.QcTac Geometry.Rect Alloc.Alloc Stog.CreateStog Yaml.Tree
  Yaml.NetlistRead Yaml.NetlistWrite Yaml.Netgen Yaml.NetgenFacts Yaml.DieAlloc Yaml.Producers.
Open Scope Qc_scope.
Open Scope string_scope.

Definition centred (name : string) (a : Qc) (c : Qc * Qc) : module :=
  mkModule name (Some c) None false false false false [(KW_GROUND, a)] [].
Record cmod := mkCmod { c_name : string; c_area : Qc; c_center : Qc * Qc }.
Definition cmodule (x : cmod) : module := centred (c_name x) (c_area x) (c_center x).
Definition ctree (x : cmod) : string * ytree :=
  (c_name x, YMap [(KW_CENTER, write_point (c_center x)); (KW_AREA, yfloat (c_area x))]).

Lemma sol_module_centred x : sol_module [] (cmodule x) = Some (ctree x).
Proof.
  unfold sol_module, cmodule, centred, ctree. cbn [lookup m_name m_rects m_center m_hard m_fixed app].
  unfold module_total_area. cbn [m_area map snd Qcsum fold_right].
  replace (c_area x + 0) with (c_area x) by ring. reflexivity.
Qed.
Lemma sol_modules_centred xs : sol_modules [] (map cmodule xs) = Some (map ctree xs).
Proof.
  induction xs as [|x xs IH]; [reflexivity|]. cbn [map sol_modules]. rewrite sol_module_centred, IH. reflexivity.
Qed.

Lemma parse_ctree x :
  Qcltb 0 (c_area x) = true -> valid_identifier (c_name x) = true ->
  parse_module (c_name x) (snd (ctree x)) = Ok (cmodule x).
Proof.
  intros A V. destruct x as [name a [cx cy]]. cbn [c_name c_area c_center ctree snd] in *.
  unfold parse_module, write_point.
  cbn [nodup_keys map fst nodup_str mem_str negb andb assert bind]. rewrite V. cbn [bind assert].
  cbn -[Qcltb]. unfold module_init. cbn -[Qcltb]. rewrite A. cbn -[Qcltb]. reflexivity.
Qed.
Lemma parse_ctrees xs :
  forallb (fun x => Qcltb 0 (c_area x) && valid_identifier (c_name x)) xs = true ->
  parse_module_list (map ctree xs) = Ok (map cmodule xs).
Proof.
  induction xs as [|x xs IH]; cbn [map forallb parse_module_list]; [reflexivity|].
  intro H. apply andb_true_iff in H. destruct H as [H1 H2]. apply andb_true_iff in H1. destruct H1 as [A V].
  change (ctree x) with (c_name x, snd (ctree x)). cbv iota beta.
  rewrite V. cbn [assert bind]. rewrite (parse_ctree x A V). cbn [bind]. rewrite (IH H2). reflexivity.
Qed.

Lemma plain_soft_cmodules xs : forallb plain_soft (map cmodule xs) = true.
Proof. induction xs; cbn; auto. Qed.
Lemma names_cmodules xs : map m_name (map cmodule xs) = map c_name xs.
Proof. induction xs; cbn; congruence. Qed.
Lemma fst_ctrees xs : map fst (map ctree xs) = map c_name xs.
Proof. induction xs; cbn; congruence. Qed.

(* nets of weight 1 over known modules *)
Definition unit_net_ok (names : list string) (e : net) : bool :=
  (2 <=? List.length (n_members e))%nat && known_all names (n_members e) && Qceqb (n_weight e) 1.

Lemma names_net_tree e : names_net e = edge_tree (n_members e, None).
Proof. unfold names_net, edge_tree. cbn [fst snd]. rewrite app_nil_r. reflexivity. Qed.

Lemma forallb_impl {A} (f g : A -> bool) l :
  (forall x, f x = true -> g x = true) -> forallb f l = true -> forallb g l = true.
Proof.
  intro H. induction l as [|x l IH]; cbn; [auto|]. intro F. apply andb_true_iff in F. destruct F as [F1 F2].
  rewrite (H x F1), (IH F2). reflexivity.
Qed.

Section Partial.
Variable sqrt_o : Qc -> Qc.
Variable epsdef : option (Qc * Qc).

Theorem solution_netlist_rt_partial xs nets rects eps :
  forallb (fun x => Qcltb 0 (c_area x) && valid_identifier (c_name x)) xs = true ->
  nodup_str (map c_name xs) = true ->
  forallb (unit_net_ok (map c_name xs)) nets = true ->
  let n := mkNetlist (map cmodule xs) nets rects eps in
  exists t n', solution_to_netlist_found n [] = Some t /\ read_netlist sqrt_o epsdef t = Ok n' /\
               nl_modules n' = nl_modules n /\ nl_nets n' = nl_nets n.
Proof.
  intros X N E n. unfold solution_to_netlist_found. cbn [nl_modules nl_nets n]. rewrite sol_modules_centred.
  eexists. eexists. split; [reflexivity|].
  set (ws := map (fun e => (n_members e, @None Qc)) nets).
  assert (W : map names_net nets = map edge_tree ws).
  { unfold ws. rewrite map_map. apply map_ext. intro e. apply names_net_tree. }
  assert (EO : forallb (edge_ok (map c_name xs)) ws = true).
  { unfold ws. rewrite forallb_map. revert E. apply forallb_impl. intros e U. unfold unit_net_ok in U.
    apply andb_true_iff in U. destruct U as [U Q]. apply Qceqb_true in Q.
    unfold edge_ok, weight_of. cbn [fst snd]. rewrite U. reflexivity. }
  assert (NE : map net_of ws = nets).
  { unfold ws. rewrite map_map. clear W EO ws. induction nets as [|e r IH]; [reflexivity|].
    cbn [map forallb] in *. apply andb_true_iff in E. destruct E as [E1 E2]. rewrite (IH E2).
    unfold unit_net_ok in E1. apply andb_true_iff in E1. destruct E1 as [_ Q]. apply Qceqb_true in Q.
    unfold net_of, weight_of. cbn [fst snd]. destruct e as [ms w]. cbn [n_weight n_members] in *. subst w. reflexivity. }
  rewrite W. unfold read_netlist, netlist_doc, parse_netlist.
  cbn [nodup_keys map fst nodup_str mem_str negb andb assert bind parse_root KW_MODULES KW_NETS String.eqb].
  cbn -[parse_modules parse_edges create_rectangles resolve_edges].
  unfold parse_modules, nodup_keys. rewrite fst_ctrees, N. cbn [assert bind].
  rewrite (parse_ctrees xs X). cbn [bind].
  unfold parse_edges. rewrite (parse_edge_list_ok _ ws EO). cbn [bind fst snd].
  rewrite (create_rectangles_soft sqrt_o epsdef _ (plain_soft_cmodules xs)). cbn [bind].
  rewrite names_cmodules, (resolve_edges_ok _ ws EO). cbn [bind]. split; [reflexivity|].
  cbn [nl_modules nl_nets]. split; [reflexivity|exact NE].
Qed.
End Partial.

(* the class is inhabited: two modules and a net *)
Example partial_example :
  let xs := [mkCmod "A" (qc 4 1) (qc 1 1, qc 1 1); mkCmod "B" (qc 2 1) (qc 3 1, qc 1 1)] in
  forallb (fun x => Qcltb 0 (c_area x) && valid_identifier (c_name x)) xs = true /\
  nodup_str (map c_name xs) = true /\
  forallb (unit_net_ok (map c_name xs)) [mkNet ["A"; "B"] 1] = true.
Proof. vm_compute. auto. Qed.
