(* Examples: the hypotheses of the C04 / C05 theorems are satisfiable. *)
From FrameModel Require Import Num.QcTac Geometry.Rect Yaml.Tree Yaml.NetlistRead Yaml.NetlistWrite
  Yaml.NetlistFacts Yaml.NetlistDerived Yaml.NetlistRoundTrip.
Open Scope Qc_scope.
Open Scope string_scope.

Definition sqrt0 : Qc -> Qc := fun _ => 1.
Definition e0 : option (Qc * Qc) := Some (qc 1 1000000, qc 1 1000).

(* Modules: {A: {area: {lut: 3, dsp: 2}, center: [1, 2]},
             B: {hard: true, flip: true, rectangles: [[2, 2, 4, 4]]},
             T: {terminal: true, center: [0, 5]}}
   Nets: [[A, B, T, 2.0], [A, T]] *)
Definition doc0 : ytree :=
  YMap [("Modules", YMap [
           ("A", YMap [("area", YMap [("lut", YNum (qc 3 1) true); ("dsp", YNum (qc 2 1) true)]);
                       ("center", YList [YNum (qc 1 1) true; YNum (qc 2 1) true])]);
           ("B", YMap [("hard", YBool true); ("flip", YBool true);
                       ("rectangles", YList [YList [YNum (qc 2 1) true; YNum (qc 2 1) true;
                                                    YNum (qc 4 1) true; YNum (qc 4 1) true]])]);
           ("T", YMap [("terminal", YBool true);
                       ("center", YList [YNum (qc 0 1) true; YNum (qc 5 1) true])])]);
        ("Nets", YList [YList [YStr "A"; YStr "B"; YStr "T"; YNum (qc 2 1) false];
                        YList [YStr "A"; YStr "T"]])].

Example ex_doc0_loads : exists n, read_netlist sqrt0 e0 doc0 = Ok n.
Proof. eexists. vm_compute. reflexivity. Qed.

(* a canonical design (soft module with two regions and a centre, a terminal) *)
Definition n0 : netlist :=
  mkNetlist
    [mkModule "A" (Some (qc 1 1, qc 2 1)) (Some (qc 1 2, qc 2 1)) false false false false
              [("lut", qc 3 1); ("dsp", qc 2 1)] [];
     mkModule "T" (Some (qc 0 1, qc 5 1)) None true true false false [("_", 0)] []]
    [mkNet ["A"; "T"] (qc 2 1); mkNet ["A"; "T"; "A"] 1] [] e0.

Ltac qdec := first [apply Qcleb_true | apply Qcltb_true]; vm_compute; reflexivity.

Example ex_canonical : canonical sqrt0 e0 n0.
Proof.
  unfold canonical, n0; cbn [nl_modules nl_nets nl_eps]. split; [|split; [reflexivity|split]].
  - repeat constructor; cbn; try discriminate; try reflexivity; try qdec; try congruence.
  - repeat constructor; cbn; try lia; try qdec.
  - exists []. reflexivity.
Qed.

Example ex_round_trip : exists n', read_netlist sqrt0 e0 (write_netlist n0) = Ok n' /\
                                   write_netlist n' = write_netlist n0.
Proof. exact (rt_idempotent_canonical sqrt0 e0 n0 ex_canonical). Qed.

(* the defects *)
Definition doc_with_net (net : list ytree) : ytree :=
  YMap [("Modules", YMap [("A", YMap [("area", YNum (qc 1 1) true)]);
                          ("B", YMap [("area", YNum (qc 2 1) true)])]);
        ("Nets", YList [YList [YStr "A"; YStr "B"]; YList net])].
Lemma net_at_doc net : net_at (doc_with_net net) net.
Proof. eexists _, _. split; [reflexivity|]. split; [right; left; reflexivity|right; left; reflexivity]. Qed.

(* F6: [A, 2.0] *)
Example ex_one_pin : rejects (read_netlist sqrt0 None (doc_with_net [YStr "A"; YNum (qc 2 1) false])).
Proof. eapply reject_one_pin_net_weight; [apply net_at_doc|reflexivity]. Qed.

Example ex_unknown_module : rejects (read_netlist sqrt0 None (doc_with_net [YStr "A"; YStr "C"])).
Proof.
  eapply (reject_unknown_module _ _ _ _ "C"); [apply net_at_doc|right; left; reflexivity|].
  intros items mods E. inversion E; subst. cbn. intros H. inversion H; subst.
  cbn. intros [H1|[H1|[]]]; discriminate.
Qed.

Example ex_nonpositive_weight :
  rejects (read_netlist sqrt0 None (doc_with_net ([YStr "A"; YStr "B"] ++ [YNum (qc 0 1) false]))).
Proof. eapply reject_nonpositive_weight; [apply net_at_doc|reflexivity|]. apply Qcleb_true. reflexivity. Qed.

Definition doc_with_module (info : list (string * ytree)) : ytree :=
  YMap [("Modules", YMap [("A", YMap [("area", YNum (qc 1 1) true)]); ("M", YMap info)]);
        ("Nets", YList [])].
Lemma module_at_doc info : module_at (doc_with_module info) "M" info.
Proof. eexists _, _. split; [reflexivity|]. split; [left; reflexivity|right; left; reflexivity]. Qed.

Example ex_unknown_attribute :
  rejects (read_netlist sqrt0 None (doc_with_module [("area", YNum (qc 1 1) true); ("colour", YStr "red")])).
Proof.
  eapply reject_unknown_attribute; [apply module_at_doc|right; left; reflexivity|reflexivity].
Qed.

Example ex_soft_without_area :
  rejects (read_netlist sqrt0 None (doc_with_module [("center", YList [YNum (qc 1 1) true; YNum (qc 1 1) true])])).
Proof. eapply reject_soft_without_area; [apply module_at_doc|reflexivity..]. Qed.

Example ex_hard_with_area :
  rejects (read_netlist sqrt0 None
    (doc_with_module [("hard", YBool true); ("area", YNum (qc 4 1) true);
                      ("rectangles", YList [YNum (qc 2 1) true; YNum (qc 2 1) true; YNum (qc 2 1) true; YNum (qc 2 1) true])])).
Proof.
  eapply reject_hard_with_area; [apply module_at_doc| | |].
  - eexists. split; vm_compute; reflexivity.
  - reflexivity.
  - discriminate.
Qed.

Example ex_nonpositive_rect :
  rejects (read_netlist sqrt0 None
    (doc_with_module [("fixed", YBool true);
                      ("rectangles", YList [YNum (qc 2 1) true; YNum (qc 2 1) true; YNum (qc 0 1) true; YNum (qc 2 1) true])])).
Proof.
  eapply reject_nonpositive_rect_size; [apply module_at_doc|reflexivity| |].
  - eexists _, _. split; [reflexivity|]. left. split; reflexivity.
  - eexists _, _, _, _, _. split; [reflexivity|]. left. eexists. split; [reflexivity|].
    apply Qcleb_true. reflexivity.
Qed.

(* wire length: members at (0,0), (6,0), (0,... a net whose squared distances are squares *)
Example ex_wire_length_hyp :
  let ms := [mkModule "P" (Some (qc 0 1, qc 0 1)) None true true false false [("_", 0)] [];
             mkModule "Q" (Some (qc 6 1, qc 8 1)) None true true false false [("_", 0)] []] in
  net_sqdists ms (mkNet ["P"; "Q"] 1) = Some [qc 25 1; qc 25 1].
Proof. vm_compute. reflexivity. Qed.

(* ---- the full round trip (Yaml/NetlistImage.v) is not vacuous ---- *)
From FrameModel Require Import Yaml.NetlistImage.

(* a hard module whose trunk is its SECOND rectangle ([1,3,2,2] sits on top of
   [2,1,4,2]): the load swaps the trunk to the front, the written document
   lists it first, and the reload finds it there *)
Definition doc1 : ytree :=
  YMap [("Modules", YMap [
           ("B", YMap [("hard", YBool true);
                       ("rectangles", YList [
                          YList [YNum (qc 1 1) true; YNum (qc 3 1) true; YNum (qc 2 1) true; YNum (qc 2 1) true];
                          YList [YNum (qc 2 1) true; YNum (qc 1 1) true; YNum (qc 4 1) true; YNum (qc 2 1) true]])]);
           ("A", YMap [("area", YNum (qc 3 1) true)])]);
        ("Nets", YList [YList [YStr "A"; YStr "B"]])].

Example ex_doc1_swapped : exists n, read_netlist sqrt0 e0 doc1 = Ok n /\
  match nl_modules n with
  | m :: _ => match m_rects m with
              | r :: r' :: _ => mr_loc r = TRUNK /\ sval (mr_x r) = qc 2 1 /\ mr_loc r' = NORTH
              | _ => False
              end
  | _ => False
  end.
Proof. eexists. split; [vm_compute; reflexivity|]. cbn. repeat split. Qed.

Example ex_doc1_round_trip : exists n n',
  read_netlist sqrt0 e0 doc1 = Ok n /\ read_netlist sqrt0 e0 (write_netlist n) = Ok n' /\
  nl_modules n' = nl_modules n /\ write_netlist n' = write_netlist n.
Proof.
  destruct ex_doc1_swapped as (n & H & _).
  destruct (rt_read_write sqrt0 e0 doc1 n H) as (n' & A & B & C & _).
  exists n, n'. repeat split; auto. unfold write_netlist. rewrite B, C. reflexivity.
Qed.

Example ex_doc0_round_trip : exists n n',
  read_netlist sqrt0 None doc0 = Ok n /\ read_netlist sqrt0 None (write_netlist n) = Ok n' /\
  write_netlist n' = write_netlist n.
Proof.
  assert (H : exists n, read_netlist sqrt0 None doc0 = Ok n) by (eexists; vm_compute; reflexivity).
  destruct H as (n & H). destruct (rt_idempotent sqrt0 None doc0 n H) as (n' & A & B). eauto.
Qed.

(* ---- well_formed_doc / doc_geometry_ok (Yaml/NetlistAccept.v) are satisfiable ---- *)
From FrameModel Require Import Yaml.NetlistDoc Yaml.NetlistAccept.

(* every (key, value) of a concrete mapping *)
Ltac in_cases H :=
  cbn [In] in H;
  repeat (destruct H as [H|H]; [inversion H; subst; clear H|]); [..|destruct H].

Ltac wf_info_tac :=
  constructor;
  [ reflexivity
  | intros k v H; in_cases H; reflexivity
  | intros v H; in_cases H; eexists _, _, _, _; repeat split; reflexivity
  | intros v H; in_cases H
  | intros v H; in_cases H
  | intros v H; in_cases H; eexists; reflexivity
  | intros v H; in_cases H; split; reflexivity
  | intros v H; in_cases H; reflexivity
  | intros v H; in_cases H; repeat split; reflexivity
  | intros v H; in_cases H
  | try discriminate; try (intros _; split; reflexivity)
  | try discriminate; try (intros _; repeat split; try reflexivity; try discriminate)
  | try discriminate; try (intros _ _; reflexivity) ].

Lemma wf_entry_2_1_4_2 ra : wf_rect_entry ra
  (YList [YNum (qc 2 1) true; YNum (qc 1 1) true; YNum (qc 4 1) true; YNum (qc 2 1) true]).
Proof.
  eexists _, _, _, _, _, _, _, _, _. split; [reflexivity|].
  repeat split; try reflexivity; try qdec. left. reflexivity.
Qed.
Lemma wf_entry_1_3_2_2 ra : wf_rect_entry ra
  (YList [YNum (qc 1 1) true; YNum (qc 3 1) true; YNum (qc 2 1) true; YNum (qc 2 1) true]).
Proof.
  eexists _, _, _, _, _, _, _, _, _. split; [reflexivity|].
  repeat split; try reflexivity; try qdec. left. reflexivity.
Qed.

Example ex_doc1_info_B : wf_info
  [("hard", YBool true);
   ("rectangles", YList [
      YList [YNum (qc 1 1) true; YNum (qc 3 1) true; YNum (qc 2 1) true; YNum (qc 2 1) true];
      YList [YNum (qc 2 1) true; YNum (qc 1 1) true; YNum (qc 4 1) true; YNum (qc 2 1) true]])].
Proof.
  wf_info_tac.
  right. eexists. split; [reflexivity|]. split; [discriminate|].
  repeat constructor; [apply wf_entry_1_3_2_2|apply wf_entry_2_1_4_2].
Qed.

Example ex_doc1_info_A : wf_info [("area", YNum (qc 3 1) true)].
Proof.
  wf_info_tac. left. eexists. split; [reflexivity|qdec].
Qed.

Example ex_doc1_well_formed : well_formed_doc doc1.
Proof.
  eexists. split; [reflexivity|]. split; [reflexivity|]. split; [|split].
  - intros k v H. in_cases H; auto.
  - intros v H. in_cases H. eexists. split; [reflexivity|]. split; [reflexivity|].
    intros name i H. in_cases H; (split; [reflexivity|]); eexists; (split; [reflexivity|]).
    + exact ex_doc1_info_B.
    + exact ex_doc1_info_A.
  - intros v H. in_cases H. eexists. split; [reflexivity|].
    intros n H. in_cases H. exists ["A"; "B"], []. split; [reflexivity|]. split; [cbn; lia|].
    split; [|left; reflexivity]. intros b H. in_cases H; cbn; auto.
Qed.

Example ex_doc1_geometry : doc_geometry_ok (qc 1 1000000) (qc 1 1000) doc1.
Proof.
  intros name info v (items & mods & E & H1 & H2) Hl. inversion E; subst items; clear E.
  in_cases H1. in_cases H2; cbn in Hl; inversion Hl; subst v; clear Hl.
  split.
  - intros _ _. vm_compute. reflexivity.
  - intros H. vm_compute in H. discriminate.
Qed.

Example ex_doc1_accepted : exists n, read_netlist sqrt0 e0 doc1 = Ok n.
Proof. exact (accept_well_formed_doc_eps sqrt0 _ _ doc1 ex_doc1_well_formed ex_doc1_geometry). Qed.

(* the literal form of the hard-module reject theorems *)
Example ex_hard_with_area_doc :
  rejects (read_netlist sqrt0 None
    (doc_with_module [("area", YNum (qc 4 1) true); ("fixed", YBool true);
                      ("rectangles", YList [YNum (qc 2 1) true; YNum (qc 2 1) true; YNum (qc 2 1) true; YNum (qc 2 1) true])])).
Proof.
  eapply reject_hard_with_area_doc; [apply module_at_doc|right; right; left; reflexivity|left; reflexivity|discriminate].
Qed.

Example ex_hard_without_rectangles_doc :
  rejects (read_netlist sqrt0 None (doc_with_module [("hard", YBool true)])).
Proof.
  eapply reject_hard_without_rectangles_doc; [apply module_at_doc|left; left; reflexivity| |reflexivity].
  intros H. in_cases H.
Qed.

(* [2,2,4,4] and [3,3,4,4] share a 3 x 3 square *)
Example ex_hard_overlap_doc :
  rejects (read_netlist sqrt0 e0
    (doc_with_module [("hard", YBool true);
                      ("rectangles", YList [
                         YList [YNum (qc 2 1) true; YNum (qc 2 1) true; YNum (qc 4 1) true; YNum (qc 4 1) true];
                         YList [YNum (qc 3 1) true; YNum (qc 3 1) true; YNum (qc 4 1) true; YNum (qc 4 1) true]])])).
Proof.
  eapply reject_hard_overlap_doc_eps; [apply module_at_doc|left; left; reflexivity| |right; left; reflexivity|].
  - intros H. in_cases H.
  - exists [], (YList [YNum (qc 2 1) true; YNum (qc 2 1) true; YNum (qc 4 1) true; YNum (qc 4 1) true]), [],
           (YList [YNum (qc 3 1) true; YNum (qc 3 1) true; YNum (qc 4 1) true; YNum (qc 4 1) true]), [].
    eexists _, _. split; [reflexivity|]. split; [reflexivity|]. split; [reflexivity|]. vm_compute. reflexivity.
Qed.

(* ---- unconditional acceptance: hard modules with one rectangle ---- *)
Lemma wf_entry_2_2_4_4 ra : wf_rect_entry ra
  (YList [YNum (qc 2 1) true; YNum (qc 2 1) true; YNum (qc 4 1) true; YNum (qc 4 1) true]).
Proof.
  eexists _, _, _, _, _, _, _, _, _. split; [reflexivity|].
  repeat split; try reflexivity; try qdec. left. reflexivity.
Qed.

Example ex_doc0_info_A : wf_info
  [("area", YMap [("lut", YNum (qc 3 1) true); ("dsp", YNum (qc 2 1) true)]);
   ("center", YList [YNum (qc 1 1) true; YNum (qc 2 1) true])].
Proof.
  wf_info_tac. right. eexists. split; [reflexivity|]. split; [discriminate|]. split; [reflexivity|].
  repeat constructor; cbn; try reflexivity; eexists; (split; [reflexivity|qdec]).
Qed.

Example ex_doc0_info_B : wf_info
  [("hard", YBool true); ("flip", YBool true);
   ("rectangles", YList [YList [YNum (qc 2 1) true; YNum (qc 2 1) true; YNum (qc 4 1) true; YNum (qc 4 1) true]])].
Proof.
  wf_info_tac. right. eexists. split; [reflexivity|]. split; [discriminate|].
  repeat constructor. apply wf_entry_2_2_4_4.
Qed.

Example ex_doc0_info_T : wf_info
  [("terminal", YBool true); ("center", YList [YNum (qc 0 1) true; YNum (qc 5 1) true])].
Proof. wf_info_tac. Qed.

Example ex_doc0_well_formed : well_formed_doc doc0.
Proof.
  eexists. split; [reflexivity|]. split; [reflexivity|]. split; [|split].
  - intros k v H. in_cases H; auto.
  - intros v H. in_cases H. eexists. split; [reflexivity|]. split; [reflexivity|].
    intros name i H. in_cases H; (split; [reflexivity|]); eexists; (split; [reflexivity|]).
    + exact ex_doc0_info_A.
    + exact ex_doc0_info_B.
    + exact ex_doc0_info_T.
  - intros v H. in_cases H. eexists. split; [reflexivity|].
    intros n H. in_cases H.
    + exists ["A"; "B"; "T"], [YNum (qc 2 1) false]. split; [reflexivity|]. split; [cbn; lia|].
      split; [intros b H; in_cases H; cbn; auto|]. right. eexists _, _. split; [reflexivity|]. split; [reflexivity|qdec].
    + exists ["A"; "T"], []. split; [reflexivity|]. split; [cbn; lia|].
      split; [intros b H; in_cases H; cbn; auto|]. left. reflexivity.
Qed.

Example ex_doc0_hard_single : hard_single_rect doc0.
Proof.
  intros name info v (items & mods & E & H1 & H2) Hl Hh. inversion E; subst items; clear E.
  in_cases H1. in_cases H2; cbn in Hl; inversion Hl; subst v; clear Hl.
  right. eexists. split; [reflexivity|]. apply wf_entry_2_2_4_4.
Qed.

(* loaded whatever the epsilon state, e.g. undefined *)
Example ex_doc0_accepted : exists n, read_netlist sqrt0 None doc0 = Ok n.
Proof. exact (accept_well_formed_doc_single sqrt0 None doc0 ex_doc0_well_formed ex_doc0_hard_single). Qed.
