(* The H-tree generator (gen_htree_rec, structural recursion on the number of
   levels) produces consecutively numbered modules and the nets [hwedges]; the
   document is accepted and loaded as such, for every number of levels >= 1. *)
From FrameModel Require Import Num.QcTac Geometry.Rect Stog.CreateStog Yaml.Tree Yaml.NetlistRead
  Yaml.Netgen Yaml.NetgenFacts.
Open Scope string_scope.
Open Scope list_scope.

Definition ent (area : Qc) (i : nat) : string * ytree := (mname i, area_entry area).

Lemma fst_ent area l : map fst (map (ent area) l) = map mname l.
Proof. rewrite map_map. reflexivity. Qed.

Lemma mname_neq a b : a <> b -> String.eqb (mname a) (mname b) = false.
Proof. intro H. destruct (String.eqb_spec (mname a) (mname b)) as [E|E]; [|reflexivity]. apply mname_inj in E. contradiction. Qed.

Lemma ents_app area a k c : map (ent area) (seq a k) ++ map (ent area) (seq (a + k) c) = map (ent area) (seq a (k + c)).
Proof. rewrite <- map_app, <- seq_app. reflexivity. Qed.

Lemma fresh_range area a k c :
  forallb (fun x => negb (mem_str x (map fst (map (ent area) (seq a k))))) (map fst (map (ent area) (seq (a + k) c))) = true.
Proof.
  rewrite !fst_ent. apply forallb_forall. intros x X. apply in_map_iff in X. destruct X as [j [<- J]].
  apply in_seq in J. rewrite mem_mname_seq. apply negb_true_iff.
  destruct (Nat.leb_spec a j), (Nat.ltb_spec j (a + k)); cbn [andb]; try reflexivity; lia.
Qed.

(* one iteration of the loop over the four sub-trees *)
Lemma htree_step_spec area rec w first f0 k cnt edges centers E :
  rec (two * w) (f0 + k)%nat = (map (ent area) (seq (f0 + k) cnt), E, (f0 + k + cnt)%nat) ->
  htree_step rec w first (map (ent area) (seq f0 k), edges, centers, (f0 + k)%nat) =
  (map (ent area) (seq f0 (k + cnt)), (edges ++ [edge2w (mname first) (mname (f0 + k)) w]) ++ E,
   centers ++ [(f0 + k)%nat], (f0 + (k + cnt))%nat).
Proof.
  intro H. unfold htree_step. rewrite H. rewrite <- (Nat.add_assoc f0 k cnt).
  rewrite dict_update_fresh.
  - rewrite ents_app. reflexivity.
  - rewrite fst_ent. apply nodup_mname_seq.
  - apply fresh_range.
Qed.

Lemma hcount_SS l : hcount (S (S l)) = (3 + 4 * hcount (S l))%nat.
Proof. reflexivity. Qed.
Lemma hwedges_SS l w f :
  hwedges (S (S l)) w f =
      let sub k := (f + 3 + k * hcount (S l))%nat in
      (((((((([wedge_w (f + 1) f w; wedge_w (f + 2) f w]
              ++ [wedge_w f (sub 0%nat) w]) ++ hwedges (S l) (two * w) (sub 0%nat))
            ++ [wedge_w f (sub 1%nat) w]) ++ hwedges (S l) (two * w) (sub 1%nat))
          ++ [wedge_w f (sub 2%nat) w]) ++ hwedges (S l) (two * w) (sub 2%nat))
        ++ [wedge_w f (sub 3%nat) w]) ++ hwedges (S l) (two * w) (sub 3%nat))
      ++ [wedge_w (f + 1) (sub 0%nat) w; wedge_w (f + 1) (sub 1%nat) w;
          wedge_w (f + 2) (sub 2%nat) w; wedge_w (f + 2) (sub 3%nat) w].
Proof. reflexivity. Qed.

Lemma edge2w_tree a b w : edge2w (mname a) (mname b) w = edge_tree (wedge_w a b w).
Proof. reflexivity. Qed.

(* gen_htree_rec numbers its modules consecutively from first_module and emits [hwedges] *)
Theorem htree_rec_spec l area : forall w f,
  htree_rec (S l) area w f =
  Some (map (ent area) (seq f (hcount (S l))), map edge_tree (hwedges (S l) w f), (f + hcount (S l))%nat).
Proof.
  induction l as [|l IH]; intros w f.
  - cbn. rewrite Nat.add_1_r. reflexivity.
  - set (c := hcount (S l)).
    assert (R : forall w' f', (fun w f => match htree_rec (S l) area w f with Some x => x | None => ([], [], f) end) w' f'
                = (map (ent area) (seq f' c), map edge_tree (hwedges (S l) w' f'), (f' + c)%nat)).
    { intros. cbv beta. rewrite IH. reflexivity. }
    change (htree_rec (S (S l)) area w f) with
      (let rec := fun w f => match htree_rec (S l) area w f with Some x => x | None => ([], [], f) end in
       let name_center := mname f in
       let name_left := mname (f + 1) in
       let name_right := mname (f + 2) in
       let modules := dict_set (dict_set [(name_center, area_entry area)] name_left (area_entry area))
                               name_right (area_entry area) in
       let edges := [edge2w name_left name_center w; edge2w name_right name_center w] in
       let st0 := (modules, edges, @nil nat, (f + 3)%nat) in
       let '(modules, edges, centers, i) :=
         htree_step rec w f (htree_step rec w f (htree_step rec w f (htree_step rec w f st0))) in
       let cc k := mname (nth k centers 0%nat) in
       Some (modules,
             edges ++ [edge2w name_left (cc 0%nat) w; edge2w name_left (cc 1%nat) w;
                       edge2w name_right (cc 2%nat) w; edge2w name_right (cc 3%nat) w],
             i)).
    cbv zeta.
    assert (M0 : dict_set (dict_set [(mname f, area_entry area)] (mname (f + 1)) (area_entry area))
                          (mname (f + 2)) (area_entry area) = map (ent area) (seq f 3)).
    { cbn [dict_set seq map]. rewrite (mname_neq (f + 1) f) by lia. cbn [dict_set].
      rewrite (mname_neq (f + 2) f), (mname_neq (f + 2) (f + 1)) by lia.
      unfold ent. replace (S f) with (f + 1)%nat by lia. replace (S (f + 1)) with (f + 2)%nat by lia. reflexivity. }
    rewrite M0.
    rewrite (htree_step_spec area _ w f f 3 c _ _ _ (R _ _)).
    rewrite (htree_step_spec area _ w f f (3 + c) c _ _ _ (R _ _)).
    rewrite (htree_step_spec area _ w f f (3 + c + c) c _ _ _ (R _ _)).
    rewrite (htree_step_spec area _ w f f (3 + c + c + c) c _ _ _ (R _ _)).
    cbn [app nth].
    rewrite hcount_SS, hwedges_SS. fold c. cbv zeta.
    replace (3 + c + c + c + c)%nat with (3 + 4 * c)%nat by lia.
    replace (f + 3 + 0 * c)%nat with (f + 3)%nat by lia.
    replace (f + 3 + 1 * c)%nat with (f + (3 + c))%nat by lia.
    replace (f + 3 + 2 * c)%nat with (f + (3 + c + c))%nat by lia.
    replace (f + 3 + 3 * c)%nat with (f + (3 + c + c + c))%nat by lia.
    rewrite !map_app. cbn [map]. rewrite <- !edge2w_tree. reflexivity.
Qed.

Lemma wedge_w_ok n a b w :
  (a < n)%nat -> (b < n)%nat -> Qcltb 0 w = true -> edge_ok (map mname (range n)) (wedge_w a b w) = true.
Proof.
  intros A B W. unfold edge_ok, wedge_w, weight_of. cbn [fst snd List.length known_all].
  rewrite (known_mname n a A), (known_mname n b B), W. reflexivity.
Qed.
Lemma two_pos w : Qcltb 0 w = true -> Qcltb 0 (two * w) = true.
Proof. intro H. apply Qcltb_true in H. apply Qcltb_true. qlra. Qed.
Lemma hcount_pos l : (1 <= hcount (S l))%nat.
Proof. destruct l; cbn; lia. Qed.

Lemma hwedges_ok n : forall l w f,
  Qcltb 0 w = true -> (f + hcount l <= n)%nat ->
  forallb (edge_ok (map mname (range n))) (hwedges l w f) = true.
Proof.
  induction l as [|l IH]; intros w f W B; [reflexivity|].
  destruct l as [|l]; [reflexivity|].
  rewrite hwedges_SS. rewrite hcount_SS in B. cbv zeta.
  assert (P := hcount_pos l). set (c := hcount (S l)) in *.
  assert (W2 := two_pos w W).
  rewrite !forallb_app. cbn [forallb].
  rewrite !wedge_w_ok by (assumption || nia).
  rewrite !IH by (assumption || nia). reflexivity.
Qed.

Section HTreeRead.
Variable sqrt_o : Qc -> Qc.
Variable epsdef : option (Qc * Qc).

(* H-tree: defined for every number of levels >= 1 (the generator asserts it);
   modules M0 ... M(hcount l - 1), nets [hwedges l 1 0] with weight 2^depth *)
Theorem netgen_htree : netgen_htree_statement sqrt_o epsdef.
Proof.
  intros l area L A. destruct l as [|l]; [lia|].
  unfold gen_htree. rewrite htree_rec_spec. eexists. split; [reflexivity|].
  replace (map (ent area) (seq 0 (hcount (S l)))) with (chain_modules area (hcount (S l))).
  2:{ rewrite chain_modules_eq. unfold chain_entries, names_entries, range. rewrite !map_map. reflexivity. }
  unfold htree_entries. fold (chain_entries (hcount (S l))).
  apply read_chain_like; [exact A|reflexivity|].
  apply hwedges_ok; [reflexivity|lia].
Qed.

(* sizes: 1, 7, 31, 127, ... modules; every weight is a power of two >= 1 (positive) *)
Lemma htree_weights_positive l w f : Qcltb 0 w = true -> forallb (fun e => Qcltb 0 (weight_of e)) (hwedges l w f) = true.
Proof.
  revert w f. induction l as [|l IH]; intros w f W; [reflexivity|]. destruct l as [|l]; [reflexivity|].
  rewrite hwedges_SS. cbv zeta. assert (W2 := two_pos w W).
  rewrite !forallb_app. cbn [forallb wedge_w weight_of snd]. rewrite !IH by assumption. rewrite W. reflexivity.
Qed.
End HTreeRead.
