(* Model of loading a netlist:  Netlist.__init__ (frame/netlist/netlist.py)
   = parse_yaml_netlist / parse_yaml_modules / parse_yaml_module /
     parse_yaml_center / parse_yaml_aspect_ratio / parse_yaml_rectangles /
     parse_yaml_edges (frame/netlist/yaml_read_netlist.py),
     parse_yaml_rectangle and Rectangle.__init__ (frame/geometry/geometry.py),
     Module.__init__, Module._read_region_area, Module.setup,
     Module.create_square, Module.calculate_center_from_rectangles
     (frame/netlist/module.py), Netlist._create_rectangles and the edge
     resolution loop of Netlist.__init__.
   Definitions only.  Every assertion of the code is a [Reject] with its own
   reason, raised in the order in which the code evaluates them.

   The model mirrors the REPAIRED reader:
   - parse_yaml_edges requires two module names besides the weight
     (fixes/C05-one-pin-net.diff);
   - _create_rectangles computes the centre of a module from its rectangles
     after create_stog has put the trunk in front
     (fixes/C04-centre-after-stog.diff; same value in exact arithmetic).

   [sqrt_o] stands for math.sqrt (contract stated where it is needed, in
   NetlistFacts.v).  [epsdef] is the class-level state of Rectangle before the
   call: None = epsilon undefined (then _create_rectangles defines it from the
   smallest distance of the design), Some (eps, aeps) = already defined. *)
From FrameModel Require Import Num.QcTac Geometry.Rect Stog.CreateStog Yaml.Tree.
Open Scope Qc_scope.
Open Scope string_scope.

Inductive reason : Type :=
| R_root_not_map | R_root_key | R_duplicate_key
| R_modules_not_map | R_module_name | R_module_not_map | R_module_attr
| R_center_format | R_ar_value | R_ar_format | R_ar_range | R_ar_init
| R_area_positive | R_area_spec | R_area_region | R_area_value
| R_fixed_bool | R_hard_fixed_exclusive | R_hard_bool | R_flip_bool
| R_terminal_area | R_terminal_ar | R_terminal_flip | R_terminal_bool
| R_ar_hard | R_fixed_terminal_center
| R_rects_spec | R_rect_format | R_rect_value | R_rect_region | R_rect_hard_region
| R_rect_width | R_rect_height
| R_setup_fixed_not_hard | R_setup_flip_fixed | R_setup_flip_soft | R_setup_no_area
| R_setup_terminal_not_hard | R_setup_hard_area | R_setup_hard_center | R_setup_hard_ar
| R_setup_hard_no_rect
| R_edges_format | R_edge_spec
| R_cr_no_center | R_square_center | R_hard_overlap | R_stog_empty | R_flip_no_stog
| R_unknown_module | R_weight
| R_source.        (* read_yaml: the argument is no tree, no str and no text stream *)

Inductive result (A : Type) : Type :=
| Ok (a : A)
| Reject (r : reason).
Arguments Ok {A} a.
Arguments Reject {A} r.

Definition bind {A B} (x : result A) (f : A -> result B) : result B :=
  match x with Ok a => f a | Reject r => Reject r end.
Notation "'do' x <- e ; f" := (bind e (fun x => f))
  (at level 200, x pattern, e at level 100, f at level 200, right associativity).
Definition assert (b : bool) (r : reason) : result unit := if b then Ok tt else Reject r.

Definition rejects {A} (x : result A) : Prop := exists r, x = Reject r.

(* ------------------------------------------------------------------ *)
(* the loaded objects                                                  *)
(* ------------------------------------------------------------------ *)

(* a Rectangle of a module: the four numbers are kept as the Python objects
   that came out of the document (parse_yaml_rectangle does not convert them) *)
Record mrect : Type := mkMRect {
  mr_x : scalar; mr_y : scalar; mr_w : scalar; mr_h : scalar;
  mr_region : string; mr_fixed : bool; mr_hard : bool; mr_loc : loc }.

Definition to_rect (r : mrect) : Rect :=
  mkRect (sval (mr_x r)) (sval (mr_y r)) (sval (mr_w r)) (sval (mr_h r))
         (mr_fixed r) (mr_hard r) (mr_region r) (mr_loc r).
Definition mr_area (r : mrect) : Qc := sval (mr_w r) * sval (mr_h r).
Definition set_mloc (r : mrect) (l : loc) : mrect :=
  mkMRect (mr_x r) (mr_y r) (mr_w r) (mr_h r) (mr_region r) (mr_fixed r) (mr_hard r) l.

Record module : Type := mkModule {
  m_name : string;
  m_center : option (Qc * Qc);
  m_ar : option (Qc * Qc);            (* (min_wh, max_wh) *)
  m_terminal : bool; m_hard : bool; m_fixed : bool; m_flip : bool;
  m_area : list (string * Qc);        (* area_regions, insertion order *)
  m_rects : list mrect }.

Record net : Type := mkNet { n_members : list string; n_weight : Qc }.

Record netlist : Type := mkNetlist {
  nl_modules : list module;
  nl_nets : list net;
  nl_rects : list mrect;              (* Netlist.rectangles *)
  nl_eps : option (Qc * Qc) }.        (* Rectangle epsilons after the load; None = still undefined
                                         (a design without any dimension defines no tolerance) *)

Definition is_nil {A} (l : list A) : bool := match l with [] => true | _ => false end.
Definition is_some {A} (o : option A) : bool := match o with Some _ => true | None => false end.

(* ------------------------------------------------------------------ *)
(* attributes                                                          *)
(* ------------------------------------------------------------------ *)

(* parse_yaml_center *)
Definition parse_center (t : ytree) : result (Qc * Qc) :=
  match t with
  | YList [a; b] =>
      match as_number a, as_number b with
      | Some x, Some y => Ok (x, y)
      | _, _ => Reject R_center_format
      end
  | _ => Reject R_center_format
  end.

(* parse_yaml_aspect_ratio *)
Definition parse_ar (t : ytree) : result (Qc * Qc) :=
  match as_number t with
  | Some a =>
      do _ <- assert (Qcltb 0 a) R_ar_value;
      let inv := 1 / a in
      Ok (Qcmin a inv, Qcmax a inv)
  | None =>
      match t with
      | YList [a; b] =>
          match as_number a, as_number b with
          | Some x, Some y =>
              do _ <- assert (Qcleb 0 x && Qcleb x 1 && Qcleb 1 y) R_ar_range;
              Ok (x, y)
          | _, _ => Reject R_ar_format
          end
      | _ => Reject R_ar_format
      end
  end.

(* the keyword arguments handed to Module(name, **params) *)
Inductive pvalue : Type :=
| PRaw (t : ytree)
| PCenter (c : Qc * Qc)
| PAR (a : Qc * Qc).

Definition raw_keys : list string := [KW_AREA; KW_TERMINAL; KW_FIXED; KW_HARD; KW_FLIP].

(* the loop over info.items() of parse_yaml_module *)
Fixpoint parse_params (info : list (string * ytree)) : result (list (string * pvalue)) :=
  match info with
  | [] => Ok []
  | (k, v) :: rest =>
      do p <- (if mem_str k raw_keys then Ok (Some (PRaw v))
               else if String.eqb k KW_CENTER then (do c <- parse_center v; Ok (Some (PCenter c)))
               else if String.eqb k KW_ASPECT_RATIO then (do a <- parse_ar v; Ok (Some (PAR a)))
               else if String.eqb k KW_RECTANGLES then Ok None
               else Reject R_module_attr);
      do ps <- parse_params rest;
      Ok (match p with Some p => (k, p) :: ps | None => ps end)
  end.

(* Module._read_region_area *)
Fixpoint read_area_dict (d : list (string * ytree)) : result (list (string * Qc)) :=
  match d with
  | [] => Ok []
  | (region, a) :: rest =>
      do _ <- assert (valid_identifier region) R_area_region;
      match as_number a with
      | Some q =>
          do _ <- assert (Qcltb 0 q) R_area_value;
          do r <- read_area_dict rest;
          Ok ((region, q) :: r)
      | None => Reject R_area_value
      end
  end.
Definition read_region_area (t : ytree) : result (list (string * Qc)) :=
  match as_number t with
  | Some q => do _ <- assert (Qcltb 0 q) R_area_positive; Ok [(KW_GROUND, q)]
  | None =>
      match t with
      | YMap d => do _ <- assert (nodup_keys d) R_duplicate_key; read_area_dict d
      | _ => Reject R_area_spec
      end
  end.

(* the attributes of a Module while its constructor runs *)
Record mstate : Type := mkMState {
  s_center : option (Qc * Qc); s_ar : option (Qc * Qc);
  s_terminal : bool; s_hard : bool; s_fixed : bool; s_flip : bool;
  s_area : list (string * Qc) }.
Definition mstate0 : mstate := mkMState None None false false false false [].

Definition as_bool (t : ytree) : option bool :=
  match t with YBool b => Some b | _ => None end.

(* one iteration of "for key, value in kwargs.items()" of Module.__init__;
   [all] = kwargs (for the "not in kwargs" tests) *)
Definition init_step (all : list (string * pvalue)) (k : string) (p : pvalue) (s : mstate)
  : result mstate :=
  match p with
  | PCenter c =>
      Ok (mkMState (Some c) (s_ar s) (s_terminal s) (s_hard s) (s_fixed s) (s_flip s) (s_area s))
  | PAR a =>
      do _ <- assert (Qcleb 0 (fst a) && Qcleb (fst a) 1 && Qcleb 1 (snd a)) R_ar_init;
      Ok (mkMState (s_center s) (Some a) (s_terminal s) (s_hard s) (s_fixed s) (s_flip s) (s_area s))
  | PRaw v =>
      if String.eqb k KW_AREA then
        do a <- read_region_area v;
        Ok (mkMState (s_center s) (s_ar s) (s_terminal s) (s_hard s) (s_fixed s) (s_flip s) a)
      else if String.eqb k KW_FIXED then
        match as_bool v with
        | Some b => Ok (mkMState (s_center s) (s_ar s) (s_terminal s) b b (s_flip s) (s_area s))
        | None => Reject R_fixed_bool
        end
      else if String.eqb k KW_HARD then
        do _ <- assert (negb (has_key KW_FIXED all)) R_hard_fixed_exclusive;
        match as_bool v with
        | Some b => Ok (mkMState (s_center s) (s_ar s) (s_terminal s) b (s_fixed s) (s_flip s) (s_area s))
        | None => Reject R_hard_bool
        end
      else if String.eqb k KW_FLIP then
        match as_bool v with
        | Some b => Ok (mkMState (s_center s) (s_ar s) (s_terminal s) (s_hard s) (s_fixed s) b (s_area s))
        | None => Reject R_flip_bool
        end
      else if String.eqb k KW_TERMINAL then
        do _ <- assert (negb (has_key KW_AREA all)) R_terminal_area;
        do _ <- assert (negb (has_key KW_ASPECT_RATIO all)) R_terminal_ar;
        do _ <- assert (negb (has_key KW_FLIP all)) R_terminal_flip;
        match as_bool v with
        | Some b => Ok (mkMState (s_center s) (s_ar s) b true (s_fixed s) (s_flip s) (s_area s))
        | None => Reject R_terminal_bool
        end
      else Reject R_module_attr   (* assert key in [...]: unknown module attribute *)
  end.

Fixpoint init_loop (all ps : list (string * pvalue)) (s : mstate) : result mstate :=
  match ps with
  | [] => Ok s
  | (k, p) :: rest => do s' <- init_step all k p s; init_loop all rest s'
  end.

(* Module.__init__ (the name has been validated by the caller, as in the code) *)
Definition module_init (ps : list (string * pvalue)) : result mstate :=
  do s <- init_loop ps ps mstate0;
  do _ <- assert (negb (s_hard s) || negb (is_some (s_ar s))) R_ar_hard;
  do _ <- assert (negb (s_terminal s) || negb (s_fixed s) || is_some (s_center s))
                 R_fixed_terminal_center;
  Ok s.

(* ------------------------------------------------------------------ *)
(* rectangles                                                          *)
(* ------------------------------------------------------------------ *)

(* isinstance(x, (int, float)) and x >= 0 *)
Definition rect_num (t : ytree) : result scalar :=
  match as_scalar t with
  | Some s => do _ <- assert (Qcleb 0 (sval s)) R_rect_value; Ok s
  | None => Reject R_rect_value
  end.

(* parse_yaml_rectangle followed by Rectangle.__init__ *)
Definition finish_rectangle (fixed hard five : bool) (x y w h : scalar) (region : string)
  : result mrect :=
  do _ <- assert (negb five || negb (fixed || hard)) R_rect_hard_region;
  do _ <- assert (Qcltb 0 (sval w)) R_rect_width;
  do _ <- assert (Qcltb 0 (sval h)) R_rect_height;
  Ok (mkMRect x y w h region fixed hard NOPOLY).

Definition parse_rectangle (fixed hard : bool) (t : ytree) : result mrect :=
  match t with
  | YList [x; y; w; h] =>
      do x <- rect_num x; do y <- rect_num y; do w <- rect_num w; do h <- rect_num h;
      finish_rectangle fixed hard false x y w h KW_GROUND
  | YList [x; y; w; h; e] =>
      do x <- rect_num x; do y <- rect_num y; do w <- rect_num w; do h <- rect_num h;
      match e with
      | YStr s =>
          do _ <- assert (valid_identifier s) R_rect_region;
          finish_rectangle fixed hard true x y w h s
      | _ => Reject R_rect_region
      end
  | _ => Reject R_rect_format
  end.

Fixpoint parse_rect_list (fixed hard : bool) (l : list ytree) : result (list mrect) :=
  match l with
  | [] => Ok []
  | t :: rest =>
      do r <- parse_rectangle fixed hard t;
      do rs <- parse_rect_list fixed hard rest;
      Ok (r :: rs)
  end.

(* parse_yaml_rectangles, with the single-rectangle shorthand *)
Definition parse_rectangles (fixed hard : bool) (t : ytree) : result (list mrect) :=
  match t with
  | YList (first :: rest) =>
      if is_some (as_number first)
      then parse_rect_list fixed hard [YList (first :: rest)]
      else parse_rect_list fixed hard (first :: rest)
  | _ => Reject R_rects_spec
  end.

Definition sum_areas (rs : list mrect) : Qc := Qcsum (map mr_area rs).

(* Module.setup *)
Definition setup (name : string) (s : mstate) (rs : list mrect) : result module :=
  do _ <- assert (negb (s_fixed s && negb (s_hard s))) R_setup_fixed_not_hard;
  do _ <- assert (negb (s_flip s && s_fixed s)) R_setup_flip_fixed;
  do _ <- assert (negb (s_flip s && negb (s_hard s))) R_setup_flip_soft;
  let area_defined := negb (is_nil (s_area s)) in
  do _ <- assert (s_hard s || area_defined) R_setup_no_area;
  do _ <- assert (negb (s_terminal s) || s_hard s) R_setup_terminal_not_hard;
  if s_hard s then
    do _ <- assert (negb area_defined) R_setup_hard_area;
    do _ <- assert (negb (is_some (s_center s)) || s_terminal s) R_setup_hard_center;
    do _ <- assert (negb (is_some (s_ar s))) R_setup_hard_ar;
    do _ <- assert (s_terminal s || negb (is_nil rs)) R_setup_hard_no_rect;
    Ok (mkModule name (s_center s) (s_ar s) (s_terminal s) (s_hard s) (s_fixed s) (s_flip s)
                 [(KW_GROUND, sum_areas rs)] rs)
  else
    Ok (mkModule name (s_center s) (s_ar s) (s_terminal s) (s_hard s) (s_fixed s) (s_flip s)
                 (s_area s) rs).

(* parse_yaml_module *)
Definition parse_module (name : string) (t : ytree) : result module :=
  match t with
  | YMap info =>
      do _ <- assert (nodup_keys info) R_duplicate_key;
      do _ <- assert (valid_identifier name) R_module_name;
      do ps <- parse_params info;
      do s <- module_init ps;
      do rs <- match lookup KW_RECTANGLES info with
               | Some v => parse_rectangles (s_fixed s) (s_hard s) v
               | None => Ok []
               end;
      setup name s rs
  | _ => Reject R_module_not_map
  end.

Fixpoint parse_module_list (l : list (string * ytree)) : result (list module) :=
  match l with
  | [] => Ok []
  | (name, info) :: rest =>
      do _ <- assert (valid_identifier name) R_module_name;
      do m <- parse_module name info;
      do ms <- parse_module_list rest;
      Ok (m :: ms)
  end.

(* parse_yaml_modules *)
Definition parse_modules (t : ytree) : result (list module) :=
  match t with
  | YMap l => do _ <- assert (nodup_keys l) R_duplicate_key; parse_module_list l
  | _ => Reject R_modules_not_map
  end.

(* ------------------------------------------------------------------ *)
(* nets                                                                *)
(* ------------------------------------------------------------------ *)

(* the elements of one edge: module names, then possibly a numeric weight *)
Fixpoint edge_items (l : list ytree) : result (list string * option Qc) :=
  match l with
  | [] => Ok ([], None)
  | x :: r =>
      match r with
      | [] =>
          match as_number x with
          | Some w => Ok ([], Some w)
          | None => match x with YStr s => Ok ([s], None) | _ => Reject R_edge_spec end
          end
      | _ =>
          match x with
          | YStr s => do p <- edge_items r; Ok (s :: fst p, snd p)
          | _ => Reject R_edge_spec
          end
      end
  end.

Definition parse_edge (t : ytree) : result (list string * Qc) :=
  match t with
  | YList l =>
      do _ <- assert (2 <=? List.length l)%nat R_edge_spec;
      do p <- edge_items l;
      (* repaired: at least two modules besides the weight *)
      do _ <- assert (2 <=? List.length (fst p))%nat R_edge_spec;
      Ok (fst p, match snd p with Some w => w | None => 1 end)
  | _ => Reject R_edge_spec
  end.

Fixpoint parse_edge_list (l : list ytree) : result (list (list string * Qc)) :=
  match l with
  | [] => Ok []
  | t :: rest => do e <- parse_edge t; do es <- parse_edge_list rest; Ok (e :: es)
  end.

(* parse_yaml_edges *)
Definition parse_edges (t : ytree) : result (list (list string * Qc)) :=
  match t with
  | YList l => parse_edge_list l
  | _ => Reject R_edges_format
  end.

(* parse_yaml_netlist: the loop over the root mapping *)
Fixpoint parse_root (items : list (string * ytree)) (mods : list module)
         (edges : list (list string * Qc)) : result (list module * list (list string * Qc)) :=
  match items with
  | [] => Ok (mods, edges)
  | (k, v) :: rest =>
      if String.eqb k KW_MODULES then do m <- parse_modules v; parse_root rest m edges
      else if String.eqb k KW_NETS then do e <- parse_edges v; parse_root rest mods e
      else Reject R_root_key
  end.

Definition parse_netlist (t : ytree) : result (list module * list (list string * Qc)) :=
  match t with
  | YMap items => do _ <- assert (nodup_keys items) R_duplicate_key; parse_root items [] []
  | _ => Reject R_root_not_map
  end.

(* ------------------------------------------------------------------ *)
(* Netlist._create_rectangles                                          *)
(* ------------------------------------------------------------------ *)
Section CreateRectangles.
Variable sqrt_o : Qc -> Qc.

Definition module_total_area (m : module) : Qc := Qcsum (map snd (m_area m)).

Definition with_rects (m : module) (rs : list mrect) : module :=
  mkModule (m_name m) (m_center m) (m_ar m) (m_terminal m) (m_hard m) (m_fixed m) (m_flip m)
           (m_area m) rs.
Definition with_center (m : module) (c : Qc * Qc) : module :=
  mkModule (m_name m) (Some c) (m_ar m) (m_terminal m) (m_hard m) (m_fixed m) (m_flip m)
           (m_area m) (m_rects m).

(* first loop: the assertion and create_square (hard, not terminal, no rectangle) *)
Definition cr_square (m : module) : result module :=
  do _ <- assert (m_terminal m || negb (m_hard m) || is_some (m_center m) ||
                  negb (is_nil (m_rects m))) R_cr_no_center;
  if m_hard m && negb (m_terminal m) && is_nil (m_rects m) then
    match m_center m with
    | None => Reject R_square_center
    | Some (x, y) =>
        let side := sqrt_o (module_total_area m) in
        Ok (with_rects m [mkMRect (SNum x false) (SNum y false) (SNum side false) (SNum side false)
                                  KW_GROUND false false NOPOLY])
    end
  else Ok m.

Fixpoint cr_squares (ms : list module) : result (list module) :=
  match ms with
  | [] => Ok []
  | m :: rest => do m' <- cr_square m; do r <- cr_squares rest; Ok (m' :: r)
  end.

(* smallest distance: None = math.inf *)
Definition min_opt (a : option Qc) (b : Qc) : option Qc :=
  match a with None => Some b | Some x => Some (Qcmin x b) end.
Definition smallest_rects (rs : list mrect) (acc : option Qc) : option Qc :=
  fold_left (fun a r => min_opt (min_opt a (sval (mr_w r))) (sval (mr_h r))) rs acc.
Definition smallest_areas (ms : list module) (acc : option Qc) : option Qc :=
  fold_left (fun a m => let ar := module_total_area m in
                        if Qcltb 0 ar then min_opt a (sqrt_o ar) else a) ms acc.
Definition smallest_distance (ms : list module) : option Qc :=
  smallest_areas ms (smallest_rects (flat_map m_rects ms) None).

Definition tiny : Qc := qc 1 1000000000000.     (* 1e-12 *)

(* Rectangle.set_epsilon(smallest_distance * 1e-12) when undefined *)
Definition epsilon_after (epsdef : option (Qc * Qc)) (ms : list module) : option (Qc * Qc) :=
  match epsdef with
  | Some e => Some e
  | None =>
      match smallest_distance ms with
      | Some d => let eps := d * tiny in Some (eps, sqrt_o eps)
      | None => None
      end
  end.

(* combinations(rectangles, 2): no pair overlaps *)
Fixpoint no_overlap_with (aeps : Qc) (r : mrect) (rs : list mrect) : bool :=
  match rs with
  | [] => true
  | s :: rest => negb (overlap aeps (to_rect r) (to_rect s)) && no_overlap_with aeps r rest
  end.
Fixpoint no_overlaps (aeps : Qc) (rs : list mrect) : bool :=
  match rs with
  | [] => true
  | r :: rest => no_overlap_with aeps r rest && no_overlaps aeps rest
  end.

(* rectangles[0], rectangles[b] = rectangles[b], rectangles[0] *)
Definition swap0g {A} (l : list A) (b : nat) : list A :=
  match l with
  | [] => []
  | h :: _ => match nth_error l b with
              | Some x => set_nth (set_nth l b h) 0 x
              | None => l
              end
  end.

(* create_stog on the rectangles of a module (Stog/CreateStog.v: same scan,
   same find_location), keeping the module-level data of each rectangle.
   Result: (has a STOG, the list as the module holds it afterwards, the same
   objects in the order they had before the swap). None = empty list. *)
Definition m_create_stog (eps aeps : Qc) (rs : list mrect)
  : option (bool * list mrect * list mrect) :=
  match rs with
  | [] => None
  | [r] => Some (true, [set_mloc r TRUNK], [set_mloc r TRUNK])
  | _ =>
      let rs0 := map (fun r => set_mloc r NOPOLY) rs in
      let g := map to_rect rs0 in
      match scan eps aeps g g 0 None with
      | None => Some (false, rs0, rs0)
      | Some (b, _) =>
          match swap0g rs0 b with
          | [] => None
          | t :: rest =>
              let fin := set_mloc t TRUNK ::
                         map (fun r => set_mloc r (find_location eps aeps (to_rect t) (to_rect r)))
                             rest in
              Some (true, fin, swap0g fin b)
          end
      end
  end.

(* Module.calculate_center_from_rectangles *)
Definition centroid (rs : list mrect) : Qc * Qc :=
  let sx := Qcsum (map (fun r => mr_area r * sval (mr_x r)) rs) in
  let sy := Qcsum (map (fun r => mr_area r * sval (mr_y r)) rs) in
  let a := sum_areas rs in
  (sx / a, sy / a).

(* the overlap assertion of hard modules, one module *)
Definition cr_overlap (aeps : Qc) (m : module) : result unit :=
  if m_hard m && negb (m_terminal m) then assert (no_overlaps aeps (m_rects m)) R_hard_overlap
  else Ok tt.
Fixpoint cr_overlaps (aeps : Qc) (ms : list module) : result unit :=
  match ms with
  | [] => Ok tt
  | m :: rest => do _ <- cr_overlap aeps m; cr_overlaps aeps rest
  end.

(* STOG and centre of one module; also returns its rectangles in the order of
   Netlist._rectangles (built before the swap) *)
Definition cr_stog (eps aeps : Qc) (m : module) : result (module * list mrect) :=
  match m_rects m with
  | [] => Ok (m, [])
  | _ =>
      match m_create_stog eps aeps (m_rects m) with
      | None => Reject R_stog_empty
      | Some (_, fin, orig) => Ok (with_center (with_rects m fin) (centroid fin), orig)
      end
  end.
Fixpoint cr_stogs (eps aeps : Qc) (ms : list module) : result (list module * list mrect) :=
  match ms with
  | [] => Ok ([], [])
  | m :: rest =>
      do p <- cr_stog eps aeps m;
      do q <- cr_stogs eps aeps rest;
      Ok (fst p :: fst q, (snd p ++ snd q)%list)
  end.

Definition has_stog (m : module) : bool :=
  match m_rects m with
  | r :: _ => loc_eqb (mr_loc r) TRUNK
  | [] => false
  end.

Definition create_rectangles (epsdef : option (Qc * Qc)) (ms : list module)
  : result (list module * list mrect * option (Qc * Qc)) :=
  do ms1 <- cr_squares ms;
  let e := epsilon_after epsdef ms1 in
  (* with an infinite epsilon there is no rectangle at all: the remaining
     steps do not depend on the values used *)
  let eps := match e with Some (x, _) => x | None => 0 end in
  let aeps := match e with Some (_, y) => y | None => 0 end in
  do _ <- cr_overlaps aeps ms1;
  do p <- cr_stogs eps aeps ms1;
  do _ <- assert (forallb (fun m => negb (m_flip m) || has_stog m) (fst p)) R_flip_no_stog;
  Ok (fst p, snd p, e).

(* ------------------------------------------------------------------ *)
(* Netlist.__init__                                                    *)
(* ------------------------------------------------------------------ *)
Fixpoint known_all (names : list string) (members : list string) : bool :=
  match members with
  | [] => true
  | b :: rest => mem_str b names && known_all names rest
  end.

Fixpoint resolve_edges (names : list string) (es : list (list string * Qc)) : result (list net) :=
  match es with
  | [] => Ok []
  | (members, w) :: rest =>
      do _ <- assert (known_all names members) R_unknown_module;
      do _ <- assert (Qcltb 0 w) R_weight;
      do r <- resolve_edges names rest;
      Ok (mkNet members w :: r)
  end.

Definition read_netlist (epsdef : option (Qc * Qc)) (t : ytree) : result netlist :=
  do p <- parse_netlist t;
  do c <- create_rectangles epsdef (fst p);
  let '(ms, rects, e) := c in
  do nets <- resolve_edges (map m_name ms) (snd p);
  Ok (mkNetlist ms nets rects e).

End CreateRectangles.

(* ------------------------------------------------------------------ *)
(* HyperEdge.wire_length                                               *)
(* ------------------------------------------------------------------ *)
Fixpoint find_module (name : string) (ms : list module) : option module :=
  match ms with
  | [] => None
  | m :: rest => if String.eqb name (m_name m) then Some m else find_module name rest
  end.

(* centres of the members; None = "Module center must be defined" *)
Fixpoint member_centers (ms : list module) (members : list string) : option (list (Qc * Qc)) :=
  match members with
  | [] => Some []
  | b :: rest =>
      match find_module b ms with
      | Some m =>
          match m_center m, member_centers ms rest with
          | Some c, Some cs => Some (c :: cs)
          | _, _ => None
          end
      | None => None
      end
  end.

Definition Qc_of_nat (n : nat) : Qc := Q2Qc (inject_Z (Z.of_nat n)).

(* intersection_point = sum of the centres / len *)
Definition mean_point (cs : list (Qc * Qc)) : Qc * Qc :=
  let n := Qc_of_nat (List.length cs) in
  (Qcsum (map fst cs) / n, Qcsum (map snd cs) / n).
Definition sqdist (p c : Qc * Qc) : Qc :=
  (fst p - fst c) * (fst p - fst c) + (snd p - snd c) * (snd p - snd c).

(* the arguments of sqrt in wire_length, member by member *)
Definition net_sqdists (ms : list module) (e : net) : option (list Qc) :=
  match member_centers ms (n_members e) with
  | Some cs => Some (map (sqdist (mean_point cs)) cs)
  | None => None
  end.

Definition net_wire_length (sqrt_o : Qc -> Qc) (ms : list module) (e : net) : option Qc :=
  match net_sqdists ms e with
  | Some ds => Some (Qcsum (map sqrt_o ds) * n_weight e)
  | None => None
  end.
