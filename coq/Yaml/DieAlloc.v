(* Model of the die and allocation codecs:
     Die.write_yaml (frame/die/die.py), parse_yaml_die / parse_die_rectangle
     (frame/die/yaml_parse_die.py), Allocation.write_yaml and
     Allocation._parse_yaml_tree (frame/allocation/allocation.py),
     Rectangle.vector_spec (frame/geometry/geometry.py).
   Documents are trees (Yaml/Tree.v).  Definitions only; facts in DieAllocFacts.v.

   What a Die is for the writer: width, height, blockages, specialised regions
   (ground regions are never written: the constructor recomputes them as the
   complement of the written regions).  What an Allocation is: the list of
   cells of Alloc/Alloc.v (rectangle, occupancy map, depth); the [fixed]/[hard]
   tags and the STOG role of a cell's rectangle are not part of the format
   (vector_spec is [x, y, w, h, region]); the reader creates plain rectangles. *)
From FrameModel Require Import Num.QcTac Geometry.Rect Alloc.Alloc Stog.CreateStog Yaml.Tree
  Yaml.NetlistRead.
Open Scope Qc_scope.
Open Scope string_scope.

Definition KW_WIDTH := "width".
Definition KW_HEIGHT := "height".
Definition KW_REGIONS := "regions".
Definition KW_BLOCKAGE := "#".

(* Rectangle.vector_spec: (center.x, center.y, shape.w, shape.h, region) *)
Definition vector_spec (r : Rect) : ytree :=
  YList [yfloat (cx r); yfloat (cy r); yfloat (rw r); yfloat (rh r); YStr (region r)].

(* what the reader creates: a Rectangle with centre, shape and region only *)
Definition plain (r : Rect) : Rect := mkRect (cx r) (cy r) (rw r) (rh r) false false (region r) NOPOLY.

(* ------------------------------------------------------------------ *)
(* the die                                                             *)
(* ------------------------------------------------------------------ *)
Record die : Type := mkDie {
  dw : Qc; dh : Qc;
  dblock : list Rect;      (* Die.blockages *)
  dspec : list Rect }.     (* Die.specialized_regions *)

(* Die.write_yaml *)
Definition write_die (d : die) : ytree :=
  YMap ([(KW_WIDTH, yfloat (dw d)); (KW_HEIGHT, yfloat (dh d))]
        ++ match (dblock d ++ dspec d)%list with
           | [] => []
           | rs => [(KW_REGIONS, YList (map vector_spec rs))]
           end)%list.

(* parse_die_rectangle followed by Rectangle.__init__ *)
Definition parse_die_rect (t : ytree) : option Rect :=
  match t with
  | YList [x; y; w; h; tag] =>
      match as_number x, as_number y, as_number w, as_number h, tag with
      | Some x, Some y, Some w, Some h, YStr s =>
          if Qcleb 0 x && Qcleb 0 y && Qcleb 0 w && Qcleb 0 h
             && (valid_identifier s || String.eqb s KW_GROUND || String.eqb s KW_BLOCKAGE)
             && negb (String.eqb s KW_GROUND)
             && Qcltb 0 w && Qcltb 0 h
          then Some (mkRect x y w h false false s NOPOLY) else None
      | _, _, _, _, _ => None
      end
  | _ => None
  end.

Fixpoint parse_die_rects (l : list ytree) : option (list Rect) :=
  match l with
  | [] => Some []
  | t :: r =>
      match parse_die_rect t, parse_die_rects r with
      | Some x, Some xs => Some (x :: xs)
      | _, _ => None
      end
  end.

Definition die_key (k : string) : bool :=
  String.eqb k KW_WIDTH || String.eqb k KW_HEIGHT || String.eqb k KW_REGIONS.

(* parse_yaml_die on a tree: (width, height, regions); None = an assertion fails *)
Definition parse_die (t : ytree) : option (Qc * Qc * list Rect) :=
  match t with
  | YMap m =>
      if negb (nodup_keys m) then None else
      if negb (forallb (fun kv => die_key (fst kv)) m) then None else
      match lookup KW_WIDTH m, lookup KW_HEIGHT m with
      | Some tw, Some th =>
          match as_number tw, as_number th with
          | Some w, Some h =>
              if Qcltb 0 w && Qcltb 0 h then
                match lookup KW_REGIONS m with
                | None => Some (w, h, [])
                | Some (YList (first :: rest)) =>
                    if is_some (as_number first)           (* one rectangle, not nested *)
                    then match parse_die_rect (YList (first :: rest)) with
                         | Some r => Some (w, h, [r])
                         | None => None
                         end
                    else match parse_die_rects (first :: rest) with
                         | Some rs => Some (w, h, rs)
                         | None => None
                         end
                | Some _ => None
                end
              else None
          | _, _ => None
          end
      | _, _ => None
      end
  | _ => None
  end.

(* Die.__init__ after the parse: blockages and specialised regions *)
Definition is_blockage (r : Rect) : bool := String.eqb (region r) KW_BLOCKAGE.
Definition read_die (t : ytree) : option die :=
  match parse_die t with
  | Some (w, h, rs) => Some (mkDie w h (filter is_blockage rs) (filter (fun r => negb (is_blockage r)) rs))
  | None => None
  end.

(* a producer as a state transformer: (document, object afterwards) *)
Definition write_die_st (d : die) : ytree * die := (write_die d, d).

(* ------------------------------------------------------------------ *)
(* the allocation                                                      *)
(* ------------------------------------------------------------------ *)
Definition depth_tree (n : nat) : ytree := YNum (Qc_of_nat n) true.

(* [r.rect.vector_spec, r.alloc, r.depth] if r.depth > 0 else [r.rect.vector_spec, r.alloc] *)
Definition write_cell (c : cell) : ytree :=
  YList ([vector_spec (crect c); YMap (map (fun p => (fst p, yfloat (snd p))) (calloc c))]
         ++ (if (0 <? cdepth c)%nat then [depth_tree (cdepth c)] else []))%list.
Definition write_alloc (cells : list cell) : ytree := YList (map write_cell cells).
Definition write_alloc_st (cells : list cell) : ytree * list cell := (write_alloc cells, cells).

(* isinstance(depth, int) and depth >= 0   (a bool is an int) *)
Definition parse_depth (t : ytree) : option nat :=
  match t with
  | YNum q true => if Qcleb 0 q then Some (Z.to_nat (Qnum (this q))) else None
  | YBool b => Some (if b then 1 else 0)%nat
  | _ => None
  end.

(* the loop over allocs.items() *)
Fixpoint parse_ratios (m : list (string * ytree)) : option alloc :=
  match m with
  | [] => Some []
  | (k, v) :: rest =>
      if valid_identifier k then
        match as_number v with
        | Some q =>
            if Qcleb 0 q && Qcleb q 1 then
              match parse_ratios rest with
              | Some r => Some ((k, q) :: r)
              | None => None
              end
            else None
        | None => None
        end
      else None
  end.

Definition parse_cell_parts (r a : ytree) (depth : nat) : option cell :=
  match parse_rectangle false false r with
  | Ok mr =>
      match a with
      | YMap m =>
          if nodup_keys m then
            match parse_ratios m with
            | Some al => Some (mkCell (to_rect mr) al depth)
            | None => None
            end
          else None
      | _ => None
      end
  | Reject _ => None
  end.

Definition parse_cell (t : ytree) : option cell :=
  match t with
  | YList [r; a] => parse_cell_parts r a 0
  | YList [r; a; d] =>
      match parse_depth d with
      | Some n => parse_cell_parts r a n
      | None => None
      end
  | _ => None
  end.

Fixpoint parse_cells (l : list ytree) : option (list cell) :=
  match l with
  | [] => Some []
  | t :: rest =>
      match parse_cell t, parse_cells rest with
      | Some c, Some cs => Some (c :: cs)
      | _, _ => None
      end
  end.

(* Allocation(tree): _parse_yaml_tree, then the constructor checks of Alloc.v *)
Definition read_alloc (aeps : Qc) (t : ytree) : option (list cell) :=
  match t with
  | YList l =>
      match parse_cells l with
      | Some cells => mk_allocation aeps cells
      | None => None
      end
  | _ => None
  end.

Definition plain_cell (c : cell) : cell := mkCell (plain (crect c)) (calloc c) (cdepth c).
