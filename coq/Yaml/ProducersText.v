(* The entry forms of the readers: frame/utils/utils.py read_yaml, through which
   Netlist(...), Die(...) / parse_yaml_die and Allocation(...) take their argument.

     def read_yaml(stream):
         if isinstance(stream, (list, dict)): return stream              # a tree
         if isinstance(stream, str):
             if stream.find(": ") >= 0 [or stream.find("\n") >= 0]:      # a text   ([...]: repaired)
                 txt = stream
             else:                                                       # a file name
                 with open(stream) as f: txt = f.read()
         else:
             assert isinstance(stream, TextIOBase)                       # an open stream
             txt = stream.read()                                         # (found: typing.TextIO, never true)
         return YAML(typ='safe').load(txt)

   The text layer (ruamel) stays outside the model: it is a Section variable with the contract
   "load (dump t) = t".  What IS modelled of a text is the part read_yaml itself looks at: whether it
   contains ': ' and whether it contains a line break ([text_abs], with the number of line breaks
   instead of the mere presence, so that the abstraction can be compared with the real text).
   [text_of t] is that abstraction for the text write_yaml (ruamel, default_flow_style = False: block
   style) writes for the tree t; the correspondence check compares it with the real text on every
   document of every producer.

   read_yaml mirrors the REPAIRED dispatch (fixes/C19-read-yaml-text.diff,
   fixes/C19-read-yaml-stream.diff); the code as found is read_yaml_found. *)
From FrameModel Require Import Num.QcTac Yaml.Tree.
From Coq Require Import ZArith.
Open Scope Z_scope.

(* ------------------------------------------------------------------ *)
(* what read_yaml looks at in a string                                  *)
(* ------------------------------------------------------------------ *)
Record text_abs : Type := mkText {
  t_colon_space : bool;     (* s.find(": ") >= 0 *)
  t_breaks : Z }.           (* s.count("\n") *)
Definition t_newline (a : text_abs) : bool := 0 <? t_breaks a.

Definition is_colon (c : ascii) : bool := Ascii.eqb c ":"%char.
Definition is_space (c : ascii) : bool := Ascii.eqb c " "%char.
Definition is_break (c : ascii) : bool := Ascii.eqb c "010"%char.

Fixpoint str_colon_space (s : string) : bool :=
  match s with
  | EmptyString => false
  | String c r =>
      (is_colon c && match r with String d _ => is_space d | EmptyString => false end) || str_colon_space r
  end.
Fixpoint str_breaks (s : string) : Z :=
  match s with
  | EmptyString => 0
  | String c r => (if is_break c then 1 else 0) + str_breaks r
  end.
(* the abstraction of a concrete string *)
Definition abs_of_string (s : string) : text_abs := mkText (str_colon_space s) (str_breaks s).

(* ------------------------------------------------------------------ *)
(* the text write_yaml writes for a tree (block style), abstracted      *)
(* ------------------------------------------------------------------ *)
(* a value written on the line of its key / of its dash: scalars and the empty collections ([] and {}) *)
Definition inline_value (t : ytree) : bool :=
  match t with
  | YList (_ :: _) => false
  | YMap (_ :: _) => false
  | _ => true
  end.

(* ': ' is written exactly between a key and a value on the same line ("key: value"; a key whose
   value is a non-empty collection is written "key:" + line break), or inside a string that holds it *)
Fixpoint emits_colon_space (t : ytree) : bool :=
  match t with
  | YNum _ _ => false
  | YBool _ => false
  | YNull => false
  | YStr s => str_colon_space s
  | YList l =>
      (fix go (l : list ytree) : bool :=
         match l with
         | [] => false
         | x :: r => emits_colon_space x || go r
         end) l
  | YMap m =>
      (fix go (m : list (string * ytree)) : bool :=
         match m with
         | [] => false
         | (k, v) :: r => str_colon_space k || inline_value v || emits_colon_space v || go r
         end) m
  end.

(* lines: one per scalar / empty collection; the first item of a nested block shares the line of
   its dash ("- - x", "- k: v"), a key with a non-empty collection has a line of its own *)
Fixpoint emit_lines (t : ytree) : Z :=
  match t with
  | YList (x :: r) =>
      (fix go (l : list ytree) : Z :=
         match l with
         | [] => 0
         | y :: r' => emit_lines y + go r'
         end) (x :: r)
  | YMap (kv :: r) =>
      (fix go (m : list (string * ytree)) : Z :=
         match m with
         | [] => 0
         | (k, v) :: r' => (if inline_value v then 1 else 1 + emit_lines v) + go r'
         end) (kv :: r)
  | _ => 1
  end.

(* every line ends with a line break *)
Definition text_of (t : ytree) : text_abs := mkText (emits_colon_space t) (emit_lines t).

(* ------------------------------------------------------------------ *)
(* read_yaml                                                            *)
(* ------------------------------------------------------------------ *)
Inductive route : Type :=
| UseTree          (* the argument is the tree *)
| ParseText        (* the string is the text *)
| OpenFile         (* the string is a file name: open(stream) *)
| ReadStream       (* stream.read() *)
| AssertFails.     (* the assertion on the stream fails *)

(* the string test *)
Definition string_route (a : text_abs) : route :=
  if t_colon_space a || t_newline a then ParseText else OpenFile.
Definition string_route_found (a : text_abs) : route :=
  if t_colon_space a then ParseText else OpenFile.

Definition route_eqb (a b : route) : bool :=
  match a, b with
  | UseTree, UseTree | ParseText, ParseText | OpenFile, OpenFile | ReadStream, ReadStream
  | AssertFails, AssertFails => true
  | _, _ => false
  end.

Section ReadYaml.
  Variable text : Type.
  Variable dump : ytree -> text.                 (* write_yaml(data): ruamel, block style *)
  Variable load : text -> option ytree.          (* YAML(typ='safe').load; None: not a YAML text *)
  Variable looks : text -> text_abs.             (* what find(": ") / find("\n") see of a string *)
  Variable file : text -> option text.           (* open(name).read(); None: OSError *)

  Inductive source : Type :=
  | SrcTree (t : ytree)            (* a list or a dict *)
  | SrcString (s : text)           (* a str: a text or a file name *)
  | SrcStream (contents : text).   (* an open text stream positioned at the start of these contents *)

  Definition route_of (s : source) : route :=
    match s with
    | SrcTree _ => UseTree
    | SrcString s => string_route (looks s)
    | SrcStream _ => ReadStream
    end.
  Definition route_of_found (s : source) : route :=
    match s with
    | SrcTree _ => UseTree
    | SrcString s => string_route_found (looks s)
    | SrcStream _ => AssertFails
    end.

  Definition follow (r : route) (s : source) : option ytree :=
    match r, s with
    | UseTree, SrcTree t => Some t
    | ParseText, SrcString s => load s
    | OpenFile, SrcString s => match file s with Some c => load c | None => None end
    | ReadStream, SrcStream c => load c
    | _, _ => None
    end.

  (* None: an exception (OSError, AssertionError, a YAML error) *)
  Definition read_yaml (s : source) : option ytree := follow (route_of s) s.
  Definition read_yaml_found (s : source) : option ytree := follow (route_of_found s) s.
End ReadYaml.
Arguments SrcTree {text}.
Arguments SrcString {text}.
Arguments SrcStream {text}.
