(* rect_io.get_netlist(None, allocation) as repaired
   (fixes/C19-get-netlist-zero-area.diff): for every allocation the Allocation
   constructor accepts, the netlist document built from the cells is accepted
   by the netlist reader and describes the modules of the allocation: one soft
   module per module name, in order of first appearance, with the area and the
   centre the Allocation itself computes for it (area_of / center_of of
   Alloc/Alloc.v), and no nets.

   The function keeps a running weighted mean per module; the invariant is
   centre * area = moment.  The repaired guard (the entry is left alone while
   the accumulated area is zero) is what makes the invariant total: the code as
   found divides 0 by 0 there. *)
From FrameModel Require Import Num.QcTac Geometry.Rect Alloc.Alloc Alloc.AcceptFacts Alloc.InitialGeom
  Stog.CreateStog Yaml.Tree Yaml.NetlistRead Yaml.NetlistWrite Yaml.NetlistFacts Yaml.Netgen Yaml.NetgenFacts
  Yaml.DieAlloc Yaml.Producers Yaml.ProducersPartial.
Open Scope Qc_scope.
Open Scope string_scope.

(* ------------------------------------------------------------------ *)
(* 1. reading a document of modules given by area and centre            *)
(* ------------------------------------------------------------------ *)
Definition mm_module (e : string * mm_entry) : module :=
  let '(k, (x, y, a)) := e in centred k a (x, y).
Definition mm_tree (e : string * mm_entry) : string * ytree :=
  let '(k, (x, y, a)) := e in (k, YMap [(KW_AREA, yfloat a); (KW_CENTER, YList [yfloat x; yfloat y])]).
Definition mm_ok (e : string * mm_entry) : bool :=
  let '(k, (x, y, a)) := e in Qcltb 0 a && Tree.valid_identifier k.

Lemma mm_doc_trees mm : mm_doc mm = netlist_doc (map mm_tree mm) [].
Proof. reflexivity. Qed.

Lemma parse_mm k x y a :
  Qcltb 0 a = true -> Tree.valid_identifier k = true ->
  parse_module k (snd (mm_tree (k, (x, y, a)))) = Ok (mm_module (k, (x, y, a))).
Proof.
  intros A V. cbn [mm_tree snd mm_module]. unfold parse_module, centred.
  cbn [Tree.nodup_keys map fst nodup_str mem_str KW_AREA KW_CENTER negb andb orb String.eqb Ascii.eqb Bool.eqb assert bind].
  rewrite V. cbn [bind assert].
  cbn -[Qcltb]. unfold module_init. cbn -[Qcltb]. rewrite A. cbn -[Qcltb]. reflexivity.
Qed.

Lemma parse_mm_list mm :
  forallb mm_ok mm = true -> parse_module_list (map mm_tree mm) = Ok (map mm_module mm).
Proof.
  induction mm as [|[k [[x y] a]] mm IH]; cbn [map forallb parse_module_list]; [reflexivity|].
  intro H. apply andb_true_iff in H. destruct H as [H1 H2]. cbn [mm_ok] in H1.
  apply andb_true_iff in H1. destruct H1 as [A V].
  change (mm_tree (k, (x, y, a))) with (k, snd (mm_tree (k, (x, y, a)))). cbv iota beta.
  rewrite V. cbn [assert bind]. rewrite (parse_mm k x y a A V). cbn [bind]. rewrite (IH H2). reflexivity.
Qed.

Lemma plain_soft_mm mm : forallb plain_soft (map mm_module mm) = true.
Proof. induction mm as [|[k [[x y] a]] mm IH]; cbn; auto. Qed.
Lemma fst_mm_tree mm : map fst (map mm_tree mm) = map fst mm.
Proof. rewrite map_map. apply map_ext. intros [k [[x y] a]]. reflexivity. Qed.

Section ReadMM.
Variable sqrt_o : Qc -> Qc.

Theorem read_mm e mm :
  forallb mm_ok mm = true -> nodup_str (map fst mm) = true ->
  read_netlist sqrt_o e (mm_doc mm) =
  Ok (mkNetlist (map mm_module mm) [] [] (epsilon_after sqrt_o e (map mm_module mm))).
Proof.
  intros V N. rewrite mm_doc_trees. unfold read_netlist, netlist_doc, parse_netlist.
  cbn [Tree.nodup_keys map fst nodup_str mem_str negb andb assert bind parse_root KW_MODULES KW_NETS String.eqb].
  cbn -[parse_modules parse_edges create_rectangles resolve_edges].
  unfold parse_modules, Tree.nodup_keys. rewrite fst_mm_tree, N. cbn [assert bind].
  rewrite (parse_mm_list mm V). cbn [bind].
  unfold parse_edges. cbn [parse_edge_list bind fst snd].
  rewrite (create_rectangles_soft sqrt_o e _ (plain_soft_mm mm)). cbn [bind resolve_edges]. reflexivity.
Qed.
End ReadMM.

(* ------------------------------------------------------------------ *)
(* 2. the keys of module_map: the module names in order of first appearance *)
(* ------------------------------------------------------------------ *)
Lemma lookup_mem {A} k (m : list (string * A)) :
  mem_str k (map fst m) = match Tree.lookup k m with Some _ => true | None => false end.
Proof.
  induction m as [|[k' v] m IH]; cbn [map fst mem_str Tree.lookup]; [reflexivity|].
  destruct (String.eqb k k'); [reflexivity|exact IH].
Qed.

Lemma dict_set_keys {A} (d : list (string * A)) k v :
  map fst (dict_set d k v) = if mem_str k (map fst d) then map fst d else (map fst d ++ [k])%list.
Proof.
  induction d as [|[k' v'] d IH]; cbn [dict_set map fst mem_str app]; [reflexivity|].
  destruct (String.eqb k k') eqn:E; cbn [orb map fst]; [reflexivity|].
  rewrite IH. destruct (mem_str k (map fst d)); reflexivity.
Qed.

Lemma mm_add_keys mm c kv :
  map fst (mm_add mm c kv) =
  if mem_str (fst kv) (map fst mm) then map fst mm else (map fst mm ++ [fst kv])%list.
Proof.
  unfold mm_add. rewrite lookup_mem.
  destruct (Tree.lookup (fst kv) mm) as [[[x1 y1] a1]|] eqn:El.
  - destruct (Qcltb 0 (a1 + area (crect c) * snd kv)); [|reflexivity].
    rewrite dict_set_keys, lookup_mem, El. reflexivity.
  - rewrite dict_set_keys, lookup_mem, El. reflexivity.
Qed.

Lemma mem_existsb k l : existsb (String.eqb k) l = mem_str k l.
Proof. induction l as [|x l IH]; cbn [existsb mem_str]; [reflexivity|]. rewrite IH. reflexivity. Qed.

Lemma inner_keys c al : forall mm,
  map fst (fold_left (fun mm kv => mm_add mm c kv) al mm) = add_names al (map fst mm).
Proof.
  induction al as [|[k q] al IH]; intros mm; cbn [fold_left add_names]; [reflexivity|].
  rewrite IH, mm_add_keys, mem_existsb. cbn [fst]. destruct (mem_str k (map fst mm)); reflexivity.
Qed.

Lemma module_map_keys cells : map fst (module_map cells) = module_names cells.
Proof.
  unfold module_map, module_names.
  assert (G : forall mm, map fst (fold_left (fun mm c => fold_left (fun mm kv => mm_add mm c kv) (calloc c) mm) cells mm)
                       = fold_left (fun acc c => add_names (calloc c) acc) cells (map fst mm)).
  { induction cells as [|c cells IH]; intros mm; cbn [fold_left]; [reflexivity|]. rewrite IH, inner_keys. reflexivity. }
  apply (G []).
Qed.

Lemma add_names_nodup al : forall acc, nodup_str acc = true -> nodup_str (add_names al acc) = true.
Proof.
  induction al as [|[k q] al IH]; intros acc N; cbn [add_names]; [exact N|]. apply IH.
  rewrite mem_existsb. destruct (mem_str k acc) eqn:E; [exact N|].
  rewrite nodup_str_app, N. cbn [nodup_str mem_str negb andb forallb].
  apply forallb_forall. intros x Hx. cbn [mem_str]. rewrite orb_false_r.
  destruct (String.eqb x k) eqn:Ex; [|reflexivity]. apply String.eqb_eq in Ex. subst x.
  apply mem_str_In in Hx. rewrite Hx in E. discriminate.
Qed.
Lemma module_names_nodup cells : nodup_str (module_names cells) = true.
Proof.
  unfold module_names.
  assert (G : forall acc, nodup_str acc = true ->
                          nodup_str (fold_left (fun acc c => add_names (calloc c) acc) cells acc) = true).
  { induction cells as [|c cells IH]; intros acc N; cbn [fold_left]; [exact N|]. apply IH, add_names_nodup, N. }
  apply G. reflexivity.
Qed.

(* ------------------------------------------------------------------ *)
(* 3. the values: area and centre * area = moment                      *)
(* ------------------------------------------------------------------ *)
Open Scope list_scope.
Lemma alookup_app k (a b : alloc) :
  Alloc.lookup k (a ++ b)%list = match Alloc.lookup k a with Some v => Some v | None => Alloc.lookup k b end.
Proof.
  induction a as [|[k' v] a IH]; cbn [app Alloc.lookup]; [reflexivity|].
  destruct (String.eqb k' k); [reflexivity|exact IH].
Qed.

Lemma nodup_keys_mid (a : alloc) k v b :
  Alloc.nodup_keys (a ++ (k, v) :: b)%list = true -> Alloc.lookup k a = None.
Proof.
  induction a as [|[k1 v1] a IH]; cbn [app Alloc.nodup_keys Alloc.lookup]; [reflexivity|].
  destruct (Alloc.lookup k1 (a ++ (k, v) :: b)%list) eqn:E; [discriminate|]. intros N.
  destruct (String.eqb k1 k) eqn:Ek; [|exact (IH N)].
  apply String.eqb_eq in Ek. subst k1. rewrite alookup_app in E.
  destruct (Alloc.lookup k a); [discriminate|]. cbn [Alloc.lookup] in E. rewrite String.eqb_refl in E. discriminate.
Qed.

Lemma lookup_dict_set_same {A} (d : list (string * A)) k v : Tree.lookup k (dict_set d k v) = Some v.
Proof.
  induction d as [|[k' v'] d IH]; cbn [dict_set Tree.lookup].
  - rewrite String.eqb_refl. reflexivity.
  - destruct (String.eqb k k') eqn:E; cbn [Tree.lookup]; rewrite E; [reflexivity|exact IH].
Qed.
Lemma lookup_dict_set_other {A} (d : list (string * A)) k k0 v :
  String.eqb k k0 = false -> Tree.lookup k (dict_set d k0 v) = Tree.lookup k d.
Proof.
  intros N. induction d as [|[k' v'] d IH]; cbn [dict_set Tree.lookup].
  - rewrite N. reflexivity.
  - destruct (String.eqb k0 k') eqn:E; cbn [Tree.lookup].
    + apply String.eqb_eq in E. subst k'. rewrite N. reflexivity.
    + destruct (String.eqb k k'); [reflexivity|exact IH].
Qed.

Definition Inv (mm : list (string * mm_entry)) (P : list cell) : Prop :=
  forall k, match Tree.lookup k mm with
            | Some (x, y, a) => a = area_of k P /\ x * a = momx_of k P /\ y * a = momy_of k P
            | None => area_of k P = 0 /\ momx_of k P = 0 /\ momy_of k P = 0
            end.

Lemma sums_snoc k P c :
  area_of k (P ++ [c])%list = area_of k P + ratio k c * area (crect c) /\
  momx_of k (P ++ [c])%list = momx_of k P + ratio k c * area (crect c) * cx (crect c) /\
  momy_of k (P ++ [c])%list = momy_of k P + ratio k c * area (crect c) * cy (crect c).
Proof.
  unfold area_of, momx_of, momy_of. rewrite !map_app, !Qcsum_app. cbn [map Qcsum]. repeat split; ring.
Qed.

Definition nonneg_cell (c : cell) : Prop := 0 <= area (crect c) /\ Forall (fun p => 0 <= snd p) (calloc c).

Lemma ratio_nonneg k c : nonneg_cell c -> 0 <= ratio k c.
Proof.
  intros [_ F]. unfold ratio. induction (calloc c) as [|[k' v] a IH]; cbn [Alloc.lookup]; [qlra|].
  inversion F; subst. destruct (String.eqb k' k); [exact H1|exact (IH H2)].
Qed.
Lemma area_of_nonneg k P : Forall nonneg_cell P -> 0 <= area_of k P.
Proof.
  intros F. unfold area_of. apply Qcsum_map_nonneg. intros c Hc. rewrite Forall_forall in F.
  pose proof (ratio_nonneg k c (F c Hc)) as R. destruct (F c Hc) as [A _]. qnra.
Qed.

Lemma ratio_snoc k r d done k0 q :
  Alloc.lookup k0 done = None ->
  ratio k (mkCell r (done ++ [(k0, q)])%list d) =
  if String.eqb k0 k then q else ratio k (mkCell r done d).
Proof.
  intros N. unfold ratio. cbn [calloc]. rewrite alookup_app. cbn [Alloc.lookup].
  destruct (String.eqb k0 k) eqn:E.
  - apply String.eqb_eq in E. subst k. rewrite N. reflexivity.
  - destruct (Alloc.lookup k done); reflexivity.
Qed.

Lemma mm_add_inv P r d done k0 q mm c :
  crect c = r -> Inv mm (P ++ [mkCell r done d]) -> Alloc.lookup k0 done = None -> 0 <= q -> 0 <= area r ->
  (forall k, 0 <= area_of k (P ++ [mkCell r done d])) ->
  Inv (mm_add mm c (k0, q)) (P ++ [mkCell r (done ++ [(k0, q)]) d]).
Proof.
  intros Hc HI N Hq Ha Hpos k.
  destruct (sums_snoc k P (mkCell r (done ++ [(k0, q)]) d)) as (SA' & SX' & SY').
  destruct (sums_snoc k P (mkCell r done d)) as (SA & SX & SY).
  cbn [crect] in *. rewrite (ratio_snoc k r d done k0 q N) in SA', SX', SY'.
  unfold mm_add. cbn [fst snd]. rewrite Hc.
  pose proof (HI k0) as I0. pose proof (HI k) as Ik. pose proof (Hpos k0) as P0.
  destruct (String.eqb k0 k) eqn:Ek.
  - apply String.eqb_eq in Ek. subst k.
    assert (R0 : ratio k0 (mkCell r done d) = 0) by (unfold ratio; cbn [calloc]; rewrite N; reflexivity).
    rewrite R0 in SA, SX, SY. rewrite SA', SX', SY'. rewrite SA, SX, SY in I0. rewrite SA in P0.
    clear SA SX SY SA' SX' SY' Ik HI Hpos.
    generalize dependent (area_of k0 P). generalize dependent (momx_of k0 P). generalize dependent (momy_of k0 P).
    intros MY MX A I0 P0.
    destruct (Tree.lookup k0 mm) as [[[x1 y1] a1]|] eqn:E0.
    + destruct I0 as (IA & IX & IY).
      assert (EA : A = a1) by (rewrite IA; ring).
      assert (EX : MX = x1 * a1) by (rewrite IX; ring).
      assert (EY : MY = y1 * a1) by (rewrite IY; ring).
      subst A MX MY. clear IA IX IY.
      destruct (Qcltb 0 (a1 + area r * q)) eqn:G.
      * rewrite lookup_dict_set_same. qb2p.
        assert (D : a1 + area r * q <> 0) by (intro Z; rewrite Z in G; qlra).
        split; [ring|]. split; field; exact D.
      * rewrite E0. qb2p.
        assert (Z0 : 0 <= area r * q) by qnra.
        assert (Z1 : a1 = 0) by qlra.
        assert (Z2 : q * area r = 0) by (replace (q * area r) with (area r * q) by ring; qlra).
        rewrite Z2, Z1. repeat split; ring.
    + rewrite lookup_dict_set_same. destruct I0 as (IA & IX & IY).
      assert (EA : A = 0) by (rewrite <- IA; ring).
      assert (EX : MX = 0) by (rewrite <- IX; ring).
      assert (EY : MY = 0) by (rewrite <- IY; ring).
      subst A MX MY. repeat split; ring.
  - assert (Ek' : String.eqb k k0 = false) by (rewrite String.eqb_sym; exact Ek).
    rewrite SA', SX', SY'. rewrite SA, SX, SY in Ik.
    destruct (Tree.lookup k0 mm) as [[[x1 y1] a1]|] eqn:E0.
    + destruct (Qcltb 0 (a1 + area r * q)); [rewrite (lookup_dict_set_other _ _ _ _ Ek')|]; exact Ik.
    + rewrite (lookup_dict_set_other _ _ _ _ Ek'). exact Ik.
Qed.

Lemma inv_empty_cell mm P r d : Inv mm P -> Inv mm (P ++ [mkCell r [] d]).
Proof.
  intros HI k. destruct (sums_snoc k P (mkCell r [] d)) as (SA & SX & SY).
  assert (R0 : ratio k (mkCell r [] d) = 0) by reflexivity. rewrite R0 in SA, SX, SY.
  rewrite SA, SX, SY. pose proof (HI k) as Ik.
  destruct (Tree.lookup k mm) as [[[x y] a]|]; destruct Ik as (IA & IX & IY); rewrite <- ?IA, <- ?IX, <- ?IY, ?IA, ?IX, ?IY;
    repeat split; ring.
Qed.

Lemma inner_inv P r d c : crect c = r -> 0 <= area r -> Forall nonneg_cell P ->
  forall al done mm,
  Inv mm (P ++ [mkCell r done d]) -> Alloc.nodup_keys (done ++ al) = true ->
  Forall (fun p => 0 <= snd p) (done ++ al) ->
  Inv (fold_left (fun mm kv => mm_add mm c kv) al mm) (P ++ [mkCell r (done ++ al) d]).
Proof.
  intros Hc Ha HP. induction al as [|[k0 q] al IH]; intros done mm HI N F; cbn [fold_left].
  - rewrite app_nil_r. exact HI.
  - replace (done ++ (k0, q) :: al) with ((done ++ [(k0, q)]) ++ al) in * by (rewrite <- app_assoc; reflexivity).
    apply IH; [|exact N|exact F].
    assert (Fd : Forall (fun p => 0 <= snd p) (done ++ [(k0, q)])).
    { rewrite Forall_app in F. exact (proj1 F). }
    apply mm_add_inv; try assumption.
    + rewrite <- app_assoc in N. cbn [app] in N. exact (nodup_keys_mid _ _ _ _ N).
    + rewrite Forall_app in Fd. destruct Fd as [_ Fq]. inversion Fq; subst. exact H1.
    + intros k. apply area_of_nonneg. apply Forall_app. split; [exact HP|]. constructor; [|constructor].
      split; [exact Ha|]. cbn [calloc]. rewrite Forall_app in Fd. exact (proj1 Fd).
Qed.

Lemma cell_ok_nonneg c : cell_ok c = true -> nonneg_cell c /\ Alloc.nodup_keys (calloc c) = true.
Proof.
  unfold cell_ok, alloc_ok. intros H. apply andb_true_iff in H. destruct H as [W H].
  apply andb_true_iff in H. destruct H as [F N]. split; [|exact N]. split.
  - unfold wfb in W. apply andb_true_iff in W. destruct W as [W1 W2]. qb2p. unfold area. qnra.
  - apply Forall_forall. intros p Hp. rewrite forallb_forall in F. specialize (F p Hp).
    apply andb_true_iff in F. destruct F as [F _]. apply andb_true_iff in F. destruct F as [_ F]. qb2p. exact F.
Qed.

Lemma outer_inv cells : forall P mm,
  Inv mm P -> Forall nonneg_cell P -> Forall (fun c => cell_ok c = true) cells ->
  Inv (fold_left (fun mm c => fold_left (fun mm kv => mm_add mm c kv) (calloc c) mm) cells mm) (P ++ cells).
Proof.
  induction cells as [|c cells IH]; intros P mm HI HP HC; cbn [fold_left].
  - rewrite app_nil_r. exact HI.
  - inversion HC as [|? ? Hc HC']; subst. destruct (cell_ok_nonneg c Hc) as [[Ha Hf] Hn].
    replace (P ++ c :: cells) with ((P ++ [c]) ++ cells) by (rewrite <- app_assoc; reflexivity).
    apply IH; [|apply Forall_app; split; [exact HP|constructor; [split; assumption|constructor]]|exact HC'].
    destruct c as [r al d]. cbn [crect calloc] in *.
    apply (inner_inv P r d (mkCell r al d) eq_refl Ha HP al [] mm); [apply inv_empty_cell; exact HI|exact Hn|exact Hf].
Qed.

Theorem module_map_inv cells : Forall (fun c => cell_ok c = true) cells -> Inv (module_map cells) cells.
Proof.
  intros HC. unfold module_map. apply (outer_inv cells [] []); [|constructor|exact HC].
  intros k. cbn. repeat split; reflexivity.
Qed.

(* ------------------------------------------------------------------ *)
(* 4. reader after builder                                             *)
(* ------------------------------------------------------------------ *)
Lemma is_alpha_same c : is_alpha_ c = is_letter c.
Proof. reflexivity. Qed.
Lemma all_alnum_same s : all_alnum_ s = all_idchars s.
Proof. induction s as [|c s IH]; cbn [all_alnum_ all_idchars]; [reflexivity|]. rewrite IH. reflexivity. Qed.
Lemma valid_identifier_same s : Alloc.valid_identifier s = Tree.valid_identifier s.
Proof. destruct s as [|c s]; [reflexivity|]. cbn [Alloc.valid_identifier Tree.valid_identifier]. rewrite all_alnum_same. reflexivity. Qed.

Lemma names_valid cells k :
  Forall (fun c => cell_ok c = true) cells -> In k (module_names cells) -> Tree.valid_identifier k = true.
Proof.
  intros HC Hk. apply module_names_in in Hk. destruct Hk as (c & Hc & q & Hq).
  rewrite Forall_forall in HC. specialize (HC c Hc). unfold cell_ok, alloc_ok in HC.
  apply andb_true_iff in HC. destruct HC as [_ HC]. apply andb_true_iff in HC. destruct HC as [F _].
  rewrite forallb_forall in F. specialize (F _ Hq). cbn [fst snd] in F.
  apply andb_true_iff in F. destruct F as [F _]. apply andb_true_iff in F. destruct F as [F _].
  rewrite <- valid_identifier_same. exact F.
Qed.

(* the module of the allocation: area and centre as the Allocation computes them *)
Definition alloc_module (cells : list cell) (k : string) : module :=
  centred k (area_of k cells) (center_of k cells).

Lemma mm_values cells mm :
  Inv mm cells -> nodup_str (map fst mm) = true ->
  (forall k, In k (map fst mm) -> area_of k cells <> 0) ->
  map mm_module mm = map (alloc_module cells) (map fst mm).
Proof.
  intros HI N HA. rewrite map_map. apply map_ext_in. intros [k [[x y] a]] Hin.
  assert (L : Tree.lookup k mm = Some (x, y, a)) by (apply lookup_in_nodup; assumption).
  pose proof (HI k) as Ik. rewrite L in Ik. destruct Ik as (IA & IX & IY).
  assert (D : area_of k cells <> 0) by (apply HA; apply in_map_iff; exists (k, (x, y, a)); auto).
  cbn [mm_module fst]. unfold alloc_module, center_of, centred. rewrite <- IX, <- IY, <- IA. rewrite <- IA in D.
  assert (E1 : x * a / a = x) by (field; exact D). assert (E2 : y * a / a = y) by (field; exact D).
  rewrite E1, E2. reflexivity.
Qed.

Section AllocRT.
Variable sqrt_o : Qc -> Qc.

(* For every allocation the constructor accepts: the netlist built from it is accepted by the
   netlist reader and consists of one soft module per module of the allocation, in the order of
   first appearance, with the area and the centre of the allocation, and no net. *)
Theorem alloc_netlist_rt e aeps cells :
  accepted aeps cells ->
  read_netlist sqrt_o e (alloc_netlist_doc cells) =
  Ok (mkNetlist (map (alloc_module cells) (module_names cells)) [] []
                (epsilon_after sqrt_o e (map (alloc_module cells) (module_names cells)))).
Proof.
  intros H. apply accepted_iff in H. destruct H as (_ & HC & _ & _ & HA).
  pose proof (module_map_inv cells HC) as HI.
  assert (N : nodup_str (map fst (module_map cells)) = true)
    by (rewrite module_map_keys; apply module_names_nodup).
  assert (HA' : forall k, In k (map fst (module_map cells)) -> area_of k cells <> 0)
    by (intros k Hk; apply HA; rewrite <- module_map_keys; exact Hk).
  pose proof (mm_values cells _ HI N HA') as EV. rewrite module_map_keys in EV.
  unfold alloc_netlist_doc. rewrite read_mm; [rewrite EV; reflexivity| |exact N].
  apply forallb_forall. intros [k [[x y] a]] Hin. cbn [mm_ok].
  assert (Hk : In k (module_names cells)).
  { rewrite <- module_map_keys. apply in_map_iff. exists (k, (x, y, a)). auto. }
  rewrite (names_valid cells k HC Hk), andb_true_r.
  assert (L : Tree.lookup k (module_map cells) = Some (x, y, a)) by (apply lookup_in_nodup; assumption).
  pose proof (HI k) as Ik. rewrite L in Ik. destruct Ik as (IA & _).
  assert (P : 0 <= area_of k cells).
  { apply area_of_nonneg. eapply Forall_impl; [|exact HC]. intros c Hc. exact (proj1 (cell_ok_nonneg c Hc)). }
  pose proof (HA k Hk) as D. qb2p. rewrite IA. destruct (Qc_eq_dec (area_of k cells) 0) as [Z|Z]; [contradiction|].
  apply Qcle_lt_or_eq in P. destruct P as [P|P]; [exact P|]. congruence.
Qed.
End AllocRT.
