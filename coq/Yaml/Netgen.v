(* Model of tools/netgen/netgen.py: module_name, gen_modules, gen_grid,
   gen_chain, gen_ring, gen_one_net, gen_star, gen_ring_star, gen_htree /
   gen_htree_rec.  Definitions only; facts in NetgenFacts.v.

   Every generator returns the Python object handed to ruamel, i.e. a document
   tree (Yaml/Tree.v).  Sizes are natural numbers (argparse hands ints; a
   negative size behaves as 0 in every range(...) of the code, the only place
   where n - 1 is used as a *name* is gen_ring_star, modelled with an integer
   index).  A Python dict comprehension / dict.update is modelled by
   [dict_set]: assigning an existing key keeps its position.

   "%d" % i is the decimal numeral of i (Coq's DecimalString on Nat.to_uint). *)
From FrameModel Require Import Num.QcTac Yaml.Tree.
From Coq Require Import DecimalString Decimal DecimalNat.
Open Scope string_scope.
Open Scope list_scope.

(* ---- Python dicts as association lists in insertion order ---- *)
Fixpoint dict_set {A} (d : list (string * A)) (k : string) (v : A) : list (string * A) :=
  match d with
  | [] => [(k, v)]
  | (k', v') :: r => if String.eqb k k' then (k', v) :: r else (k', v') :: dict_set r k v
  end.
(* d.update(m), and { k: v for ... } = {}.update(pairs) *)
Definition dict_update {A} (d m : list (string * A)) : list (string * A) :=
  fold_left (fun acc kv => dict_set acc (fst kv) (snd kv)) m d.
Definition dict_of_list {A} (l : list (string * A)) : list (string * A) := dict_update [] l.

(* ---- module_name ---- *)
Definition dec (n : nat) : string := NilEmpty.string_of_uint (Nat.to_uint n).
(* "%d" of an integer *)
Definition dec_z (i : Z) : string :=
  if (i <? 0)%Z then "-" ++ dec (Z.to_nat (- i)) else dec (Z.to_nat i).
(* module_name(i) *)
Definition mname (i : nat) : string := "M" ++ dec i.
Definition mname_z (i : Z) : string := "M" ++ dec_z i.
(* module_name(i, j) with j >= 0 *)
Definition mname2 (i j : nat) : string := "M" ++ dec i ++ "_" ++ dec j.

(* {KW_AREA: area}; the area is the Python object passed by main: the int 1 *)
Definition area_entry (area : Qc) : ytree := YMap [(KW_AREA, YNum area true)].
Definition area_center_entry (area : Qc) (c : Qc * Qc) : ytree :=
  YMap [(KW_AREA, YNum area true); (KW_CENTER, YList [yfloat (fst c); yfloat (snd c)])].

(* range(n) *)
Definition range (n : nat) : list nat := seq 0 n.
(* range(a, b) *)
Definition range2 (a b : nat) : list nat := seq a (b - a).

(* gen_modules(area, rows) with columns <= 0: a chain of names *)
Definition chain_modules (area : Qc) (n : nat) : list (string * ytree) :=
  dict_of_list (map (fun r => (mname r, area_entry area)) (range n)).

(* the (r, c) pairs of "for r in range(rows) for c in range(columns)" *)
Definition pairs (rows cols : nat) : list (nat * nat) :=
  flat_map (fun r => map (fun c => (r, c)) (range cols)) (range rows).

Definition qnat (n : nat) : Qc := Q2Qc (inject_Z (Z.of_nat n)).

(* centres of --add-centers: [(0.5 + c) * x_offset + gauss, (0.5 + r) * y_offset + gauss];
   [noise r c] is the pair of values random.gauss returned for the module *)
Definition grid_center (w h : Qc) (rows cols : nat) (noise : nat -> nat -> Qc * Qc) (r c : nat)
  : Qc * Qc :=
  ((half + qnat c) * (w / qnat cols) + fst (noise r c),
   (half + qnat r) * (h / qnat rows) + snd (noise r c)).

(* gen_modules(area, rows, columns, add_centers, sd, die_shape) with columns > 0;
   centers = Some (w, h, noise) when add_centers *)
Definition grid_modules (area : Qc) (rows cols : nat)
           (centers : option (Qc * Qc * (nat -> nat -> Qc * Qc))) : list (string * ytree) :=
  let base := dict_of_list (map (fun p => (mname2 (fst p) (snd p), area_entry area)) (pairs rows cols)) in
  match centers with
  | None => base
  | Some (w, h, noise) =>
      (* modules[name][KW_CENTER] = ...: the entry of an existing key gets a second attribute *)
      fold_left (fun acc p =>
                   dict_set acc (mname2 (fst p) (snd p))
                            (area_center_entry area (grid_center w h rows cols noise (fst p) (snd p))))
                (pairs rows cols) base
  end.

Definition edge2 (a b : string) : ytree := YList [YStr a; YStr b].
Definition netlist_doc (modules : list (string * ytree)) (edges : list ytree) : ytree :=
  YMap [(KW_MODULES, YMap modules); (KW_NETS, YList edges)].

(* gen_grid *)
Definition grid_edges (rows cols : nat) : list ytree :=
  flat_map (fun r => map (fun c => edge2 (mname2 r c) (mname2 r (S c))) (range (cols - 1))) (range rows)
  ++ flat_map (fun r => map (fun c => edge2 (mname2 r c) (mname2 (S r) c)) (range cols)) (range (rows - 1)).
Definition gen_grid (rows cols : nat) (area : Qc)
           (centers : option (Qc * Qc * (nat -> nat -> Qc * Qc))) : ytree :=
  netlist_doc (if (cols =? 0)%nat then chain_modules area rows else grid_modules area rows cols centers)
              (grid_edges rows cols).

(* gen_chain *)
Definition chain_edges (n : nat) : list ytree :=
  map (fun i => edge2 (mname i) (mname (S i))) (range (n - 1)).
Definition gen_chain (n : nat) (area : Qc) : ytree := netlist_doc (chain_modules area n) (chain_edges n).

(* gen_ring: (i + 1) % n *)
Definition ring_edges (n : nat) : list ytree :=
  map (fun i => edge2 (mname i) (mname (S i mod n))) (range n).
Definition gen_ring (n : nat) (area : Qc) : ytree := netlist_doc (chain_modules area n) (ring_edges n).

(* gen_one_net: one net with all the modules *)
Definition one_net_edges (n : nat) : list ytree := [YList (map (fun i => YStr (mname i)) (range n))].
Definition gen_one_net (n : nat) (area : Qc) : ytree := netlist_doc (chain_modules area n) (one_net_edges n).

(* gen_star *)
Definition star_edges (n : nat) : list ytree := map (fun i => edge2 (mname 0) (mname i)) (range2 1 n).
Definition gen_star (n : nat) (area : Qc) : ytree := netlist_doc (chain_modules area n) (star_edges n).

(* gen_ring_star: the closing edge names module n - 1 (an integer: "M-1" for n = 0) *)
Definition ring_star_edges (n : nat) : list ytree :=
  (map (fun i => edge2 (mname i) (mname (S i))) (range2 1 (n - 1))
   ++ [edge2 (mname_z (Z.of_nat n - 1)) (mname 1)])
  ++ star_edges n.
Definition gen_ring_star (n : nat) (area : Qc) : ytree :=
  netlist_doc (chain_modules area n) (ring_star_edges n).

(* ---- the H-tree ---- *)
Definition edge2w (a b : string) (w : Qc) : ytree := YList [YStr a; YStr b; yfloat w].

(* one iteration of "for _ in range(4)": state (modules, edges, centers, i) *)
Definition htree_step (rec : Qc -> nat -> list (string * ytree) * list ytree * nat)
           (weight : Qc) (first : nat)
           (st : list (string * ytree) * list ytree * list nat * nat)
  : list (string * ytree) * list ytree * list nat * nat :=
  let '(modules, edges, centers, i) := st in
  let '(m, e, i') := rec (two * weight) i in
  (dict_update modules m,
   (edges ++ [edge2w (mname first) (mname i) weight]) ++ e,
   centers ++ [i], i').

(* gen_htree_rec(nlevels, area, weight, first_module); None = assert nlevels > 0 fails.
   Structural recursion on the number of levels. *)
Fixpoint htree_rec (nlevels : nat) (area : Qc) (weight : Qc) (first : nat)
  : option (list (string * ytree) * list ytree * nat) :=
  match nlevels with
  | O => None
  | S O => Some ([(mname first, area_entry area)], [], S first)
  | S l =>
      (* the recursive calls are made at level l >= 1: they never fail *)
      let rec := fun w f => match htree_rec l area w f with
                            | Some x => x
                            | None => ([], [], f)
                            end in
      let name_center := mname first in
      let name_left := mname (first + 1)%nat in
      let name_right := mname (first + 2)%nat in
      let modules := dict_set (dict_set [(name_center, area_entry area)] name_left (area_entry area))
                              name_right (area_entry area) in
      let edges := [edge2w name_left name_center weight; edge2w name_right name_center weight] in
      let st0 := (modules, edges, @nil nat, (first + 3)%nat) in
      let '(modules, edges, centers, i) :=
        htree_step rec weight first (htree_step rec weight first
          (htree_step rec weight first (htree_step rec weight first st0))) in
      let c k := mname (nth k centers 0%nat) in
      Some (modules,
            edges ++ [edge2w name_left (c 0%nat) weight; edge2w name_left (c 1%nat) weight;
                      edge2w name_right (c 2%nat) weight; edge2w name_right (c 3%nat) weight],
            i)
  end.

(* gen_htree(nlevels, area): weight 1.0, first module 0 *)
Definition gen_htree (nlevels : nat) (area : Qc) : option ytree :=
  match htree_rec nlevels area 1 0 with
  | Some (modules, edges, _) => Some (netlist_doc modules edges)
  | None => None
  end.
