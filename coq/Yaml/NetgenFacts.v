(* Facts about the netlist generators (Yaml/Netgen.v): every generated
   document is accepted by the reader of Yaml/NetlistRead.v and is loaded as
   the expected modules, nets and weights - for every size of the topology's
   domain; outside the domain the reader rejects (one-net, ring-star). *)
From FrameModel Require Import Num.QcTac Geometry.Rect Stog.CreateStog Yaml.Tree Yaml.NetlistRead
  Yaml.Netgen.
From Coq Require Import DecimalString Decimal DecimalNat.
Open Scope string_scope.
Open Scope list_scope.

(* ------------------------------------------------------------------ *)
(* names                                                               *)
(* ------------------------------------------------------------------ *)
Fixpoint all_digits (s : string) : bool :=
  match s with EmptyString => true | String c r => is_digit c && all_digits r end.

Lemma digits_of_uint d : all_digits (NilEmpty.string_of_uint d) = true.
Proof. induction d; cbn; try reflexivity; exact IHd. Qed.
Lemma dec_digits n : all_digits (dec n) = true.
Proof. apply digits_of_uint. Qed.

Lemma dec_inj a b : dec a = dec b -> a = b.
Proof.
  unfold dec. intro H.
  assert (E : Some (Nat.to_uint a) = Some (Nat.to_uint b)).
  { rewrite <- (NilEmpty.usu (Nat.to_uint a)), <- (NilEmpty.usu (Nat.to_uint b)), H. reflexivity. }
  injection E as E. rewrite <- (Unsigned.of_to a), <- (Unsigned.of_to b), E. reflexivity.
Qed.

Lemma append_inj_l (p a b : string) : (p ++ a = p ++ b)%string -> a = b.
Proof. induction p as [|c p IH]; cbn; [auto|]. intro H. injection H as H. auto. Qed.
Lemma mname_inj a b : mname a = mname b -> a = b.
Proof. unfold mname. intro H. apply append_inj_l in H. apply dec_inj, H. Qed.

Lemma digits_idchars s : all_digits s = true -> all_idchars s = true.
Proof.
  induction s as [|c s IH]; cbn; [reflexivity|]. intro H. apply andb_true_iff in H. destruct H as [H1 H2].
  rewrite H1, orb_true_r. cbn. auto.
Qed.
Lemma idchars_app a b : all_idchars (a ++ b)%string = all_idchars a && all_idchars b.
Proof. induction a as [|c a IH]; cbn; [reflexivity|]. rewrite IH, andb_assoc. reflexivity. Qed.

Lemma mname_valid i : valid_identifier (mname i) = true.
Proof. unfold mname. cbn. apply digits_idchars, dec_digits. Qed.
Lemma mname2_valid i j : valid_identifier (mname2 i j) = true.
Proof.
  unfold mname2. cbn. rewrite idchars_app. rewrite (digits_idchars _ (dec_digits i)). cbn.
  apply digits_idchars, dec_digits.
Qed.

(* digits, then "_": the split is unique *)
Lemma digits_sep_inj a a' s s' :
  all_digits a = true -> all_digits a' = true -> (a ++ "_" ++ s = a' ++ "_" ++ s')%string -> a = a' /\ s = s'.
Proof.
  revert a'. induction a as [|c a IH]; intros [|c' a'] Da Da'; cbn in *.
  - intro H. injection H as H. auto.
  - intro H. injection H as Hc _. subst c'. apply andb_true_iff in Da'. destruct Da' as [D _]. discriminate.
  - intro H. injection H as Hc _. subst c. apply andb_true_iff in Da. destruct Da as [D _]. discriminate.
  - intro H. injection H as Hc H. subst c'. apply andb_true_iff in Da. apply andb_true_iff in Da'.
    destruct (IH a' (proj2 Da) (proj2 Da') H) as [-> ->]. auto.
Qed.
Lemma mname2_inj i j i' j' : mname2 i j = mname2 i' j' -> i = i' /\ j = j'.
Proof.
  unfold mname2. intro H. apply append_inj_l in H.
  destruct (digits_sep_inj _ _ _ _ (dec_digits i) (dec_digits i') H) as [E1 E2].
  split; apply dec_inj; assumption.
Qed.

(* ------------------------------------------------------------------ *)
(* dicts                                                               *)
(* ------------------------------------------------------------------ *)
Lemma dict_set_fresh {A} (d : list (string * A)) k v :
  mem_str k (map fst d) = false -> dict_set d k v = d ++ [(k, v)].
Proof.
  induction d as [|[k' v'] d IH]; cbn; [reflexivity|]. intro H. apply orb_false_iff in H. destruct H as [H1 H2].
  rewrite H1, (IH H2). reflexivity.
Qed.
Lemma mem_str_app k a b : mem_str k (a ++ b) = mem_str k a || mem_str k b.
Proof. induction a as [|x a IH]; cbn; [reflexivity|]. rewrite IH, orb_assoc. reflexivity. Qed.
Lemma nodup_str_app a b :
  nodup_str (a ++ b) = nodup_str a && nodup_str b && forallb (fun k => negb (mem_str k b)) a.
Proof.
  induction a as [|x a IH]; cbn; [rewrite andb_true_r; reflexivity|].
  rewrite IH, mem_str_app, negb_orb.
  destruct (mem_str x a), (mem_str x b), (nodup_str a), (nodup_str b); cbn; try reflexivity;
    rewrite ?andb_false_r; reflexivity.
Qed.

Lemma fresh_ext l k d :
  forallb (fun x => negb (mem_str x d)) l = true -> mem_str k l = false ->
  forallb (fun x => negb (mem_str x (d ++ [k]))) l = true.
Proof.
  induction l as [|x l IH]; cbn [forallb mem_str]; [reflexivity|]. intros F M.
  apply andb_true_iff in F. destruct F as [F1 F2]. apply orb_false_iff in M. destruct M as [M1 M2].
  apply negb_true_iff in F1. rewrite mem_str_app, F1. cbn [mem_str]. rewrite (String.eqb_sym x k), M1.
  cbn. apply IH; assumption.
Qed.

(* d.update(m) appends when the keys of m are new and distinct *)
Lemma dict_update_fresh {A} (m d : list (string * A)) :
  nodup_str (map fst m) = true -> forallb (fun k => negb (mem_str k (map fst d))) (map fst m) = true ->
  dict_update d m = d ++ m.
Proof.
  unfold dict_update. revert d. induction m as [|[k v] m IH]; intros d N F; cbn [fold_left map fst snd].
  - rewrite app_nil_r. reflexivity.
  - cbn [map fst nodup_str forallb] in N, F.
    apply andb_true_iff in N. destruct N as [N1 N2]. apply andb_true_iff in F. destruct F as [F1 F2].
    apply negb_true_iff in F1. apply negb_true_iff in N1. rewrite (dict_set_fresh d k v F1). rewrite IH.
    + rewrite <- app_assoc. reflexivity.
    + exact N2.
    + rewrite map_app. cbn [map fst]. apply fresh_ext; assumption.
Qed.
Lemma dict_of_list_nodup {A} (l : list (string * A)) : nodup_str (map fst l) = true -> dict_of_list l = l.
Proof.
  intro N. unfold dict_of_list. rewrite dict_update_fresh; [reflexivity|exact N|].
  cbn [map fst]. clear N. induction (map fst l) as [|x r IHr]; cbn; auto.
Qed.

(* ------------------------------------------------------------------ *)
(* ranges of names                                                     *)
(* ------------------------------------------------------------------ *)
Lemma mem_mname_seq i a n : mem_str (mname i) (map mname (seq a n)) = (a <=? i)%nat && (i <? a + n)%nat.
Proof.
  revert a. induction n as [|n IH]; intro a; cbn [seq map mem_str].
  - destruct (Nat.leb_spec a i), (Nat.ltb_spec i (a + 0)); cbn [andb]; try reflexivity; lia.
  - rewrite IH. destruct (String.eqb_spec (mname i) (mname a)) as [E|E].
    + apply mname_inj in E. subst. rewrite Nat.leb_refl.
      replace (a <? a + S n)%nat with true by (symmetry; apply Nat.ltb_lt; lia). reflexivity.
    + assert (i <> a) by (intro; subst; auto). cbn [orb].
      replace (a + S n)%nat with (S a + n)%nat by lia.
      destruct (Nat.leb_spec (S a) i), (Nat.leb_spec a i); cbn [andb]; try reflexivity; lia.
Qed.
Lemma nodup_mname_seq a n : nodup_str (map mname (seq a n)) = true.
Proof.
  revert a. induction n as [|n IH]; intro a; cbn [seq map nodup_str]; [reflexivity|].
  rewrite mem_mname_seq, IH. destruct (Nat.leb_spec (S a) a); [lia|reflexivity].
Qed.
Lemma valid_mname_list l : forallb valid_identifier (map mname l) = true.
Proof. induction l; cbn [map forallb]; [reflexivity|]. rewrite mname_valid. exact IHl. Qed.

(* ------------------------------------------------------------------ *)
(* reading a document of soft modules                                  *)
(* ------------------------------------------------------------------ *)
Definition entry := (string * option (Qc * Qc))%type.
Definition entry_tree (area : Qc) (e : entry) : string * ytree :=
  (fst e, match snd e with None => area_entry area | Some c => area_center_entry area c end).
Definition module_of (area : Qc) (e : entry) : module :=
  mkModule (fst e) (snd e) None false false false false [(KW_GROUND, area)] [].

Definition wedge := (list string * option Qc)%type.
Definition edge_tree (e : wedge) : ytree :=
  YList (map YStr (fst e) ++ match snd e with Some q => [yfloat q] | None => [] end).
Definition weight_of (e : wedge) : Qc := match snd e with Some q => q | None => 1 end.
Definition net_of (e : wedge) : net := mkNet (fst e) (weight_of e).
Definition edge_ok (names : list string) (e : wedge) : bool :=
  (2 <=? List.length (fst e))%nat && known_all names (fst e) && Qcltb 0 (weight_of e).

Lemma parse_module_soft area (e : entry) :
  Qcltb 0 area = true -> valid_identifier (fst e) = true ->
  parse_module (fst e) (snd (entry_tree area e)) = Ok (module_of area e).
Proof.
  intros A V. destruct e as [name [[x y]|]]; cbn [fst snd entry_tree] in *.
  - unfold area_center_entry, parse_module.
    cbn [nodup_keys map fst nodup_str mem_str KW_AREA KW_CENTER negb andb orb String.eqb Ascii.eqb Bool.eqb assert bind].
    rewrite V. cbn [bind assert].
    cbn -[Qcltb]. unfold module_init. cbn -[Qcltb]. rewrite A. cbn -[Qcltb]. reflexivity.
  - unfold area_entry, parse_module.
    cbn [nodup_keys map fst nodup_str mem_str negb andb assert bind]. rewrite V. cbn [bind assert].
    cbn -[Qcltb]. unfold module_init. cbn -[Qcltb]. rewrite A. cbn -[Qcltb]. reflexivity.
Qed.

Lemma parse_module_list_soft area (es : list entry) :
  Qcltb 0 area = true -> forallb valid_identifier (map fst es) = true ->
  parse_module_list (map (entry_tree area) es) = Ok (map (module_of area) es).
Proof.
  intros A. induction es as [|e es IH]; cbn [map forallb parse_module_list]; [reflexivity|].
  intro V. apply andb_true_iff in V. destruct V as [V1 V2].
  change (entry_tree area e) with (fst e, snd (entry_tree area e)). cbv iota beta.
  rewrite V1. cbn [assert bind]. rewrite (parse_module_soft area e A V1). cbn [bind].
  rewrite (IH V2). reflexivity.
Qed.

Lemma edge_items_names ms : edge_items (map YStr ms) = Ok (ms, None).
Proof.
  induction ms as [|a ms IH]; [reflexivity|]. cbn [map edge_items].
  destruct ms as [|b ms]; [reflexivity|]. cbn [map] in *. rewrite IH. reflexivity.
Qed.
Lemma edge_items_weight ms q : edge_items (map YStr ms ++ [yfloat q]) = Ok (ms, Some q).
Proof.
  induction ms as [|a ms IH]; [reflexivity|].
  destruct ms as [|b ms]; [reflexivity|].
  change (edge_items (YStr a :: (map YStr (b :: ms) ++ [yfloat q])) = Ok (a :: b :: ms, Some q)).
  remember (map YStr (b :: ms) ++ [yfloat q]) as r eqn:R.
  destruct r as [|x r]; [destruct ms; discriminate|].
  cbn [edge_items]. cbn [edge_items] in IH. rewrite IH. reflexivity.
Qed.
Lemma parse_edge_ok (e : wedge) :
  (2 <=? List.length (fst e))%nat = true -> parse_edge (edge_tree e) = Ok (fst e, weight_of e).
Proof.
  intro L. destruct e as [ms [q|]]; unfold edge_tree, parse_edge, weight_of; cbn [fst snd] in *.
  - rewrite edge_items_weight.
    replace (2 <=? List.length (map YStr ms ++ [yfloat q]))%nat with true.
    + cbn [assert bind fst snd]. rewrite L. reflexivity.
    + symmetry. rewrite app_length, map_length. apply Nat.leb_le. apply Nat.leb_le in L. cbn. lia.
  - rewrite app_nil_r, edge_items_names, map_length, L. cbn [assert bind fst snd]. rewrite L. reflexivity.
Qed.
Lemma parse_edge_list_ok names (es : list wedge) :
  forallb (edge_ok names) es = true ->
  parse_edge_list (map edge_tree es) = Ok (map (fun e => (fst e, weight_of e)) es).
Proof.
  induction es as [|e es IH]; cbn [map forallb parse_edge_list]; [reflexivity|].
  intro H. apply andb_true_iff in H. destruct H as [H1 H2]. unfold edge_ok in H1.
  apply andb_true_iff in H1. destruct H1 as [H1 _]. apply andb_true_iff in H1. destruct H1 as [H1 _].
  rewrite (parse_edge_ok e H1). cbn [bind]. rewrite (IH H2). reflexivity.
Qed.
Lemma resolve_edges_ok names (es : list wedge) :
  forallb (edge_ok names) es = true ->
  resolve_edges names (map (fun e => (fst e, weight_of e)) es) = Ok (map net_of es).
Proof.
  induction es as [|e es IH]; cbn [map forallb resolve_edges]; [reflexivity|].
  intro H. apply andb_true_iff in H. destruct H as [H1 H2]. unfold edge_ok in H1.
  apply andb_true_iff in H1. destruct H1 as [H1 W]. apply andb_true_iff in H1. destruct H1 as [_ K].
  cbn [fst snd]. rewrite K, W. cbn [assert bind]. rewrite (IH H2). reflexivity.
Qed.

Section Read.
Variable sqrt_o : Qc -> Qc.

Definition plain_soft (m : module) : bool := negb (m_hard m) && is_nil (m_rects m) && negb (m_flip m).

Lemma cr_squares_soft ms : forallb plain_soft ms = true -> cr_squares sqrt_o ms = Ok ms.
Proof.
  induction ms as [|m ms IH]; cbn [forallb cr_squares]; [reflexivity|].
  intro H. apply andb_true_iff in H. destruct H as [H1 H2]. unfold plain_soft in H1.
  apply andb_true_iff in H1. destruct H1 as [H1 _]. apply andb_true_iff in H1. destruct H1 as [H1 _].
  apply negb_true_iff in H1. unfold cr_square. rewrite H1. cbn [negb orb andb assert bind].
  rewrite orb_true_r. cbn [bind]. rewrite (IH H2). reflexivity.
Qed.
Lemma cr_overlaps_soft aeps ms : forallb plain_soft ms = true -> cr_overlaps aeps ms = Ok tt.
Proof.
  induction ms as [|m ms IH]; cbn [forallb cr_overlaps]; [reflexivity|].
  intro H. apply andb_true_iff in H. destruct H as [H1 H2]. unfold plain_soft in H1.
  apply andb_true_iff in H1. destruct H1 as [H1 _]. apply andb_true_iff in H1. destruct H1 as [H1 _].
  apply negb_true_iff in H1. unfold cr_overlap. rewrite H1. cbn [andb bind]. exact (IH H2).
Qed.
Lemma cr_stogs_soft eps aeps ms : forallb plain_soft ms = true -> cr_stogs eps aeps ms = Ok (ms, []).
Proof.
  induction ms as [|m ms IH]; cbn [forallb cr_stogs]; [reflexivity|].
  intro H. apply andb_true_iff in H. destruct H as [H1 H2]. unfold plain_soft in H1.
  apply andb_true_iff in H1. destruct H1 as [H1 _]. apply andb_true_iff in H1. destruct H1 as [_ H1].
  unfold cr_stog. destruct (m_rects m); [|discriminate]. cbn [bind]. rewrite (IH H2). reflexivity.
Qed.
Lemma flip_soft ms : forallb plain_soft ms = true -> forallb (fun m => negb (m_flip m) || has_stog m) ms = true.
Proof.
  induction ms as [|m ms IH]; cbn [forallb]; [reflexivity|].
  intro H. apply andb_true_iff in H. destruct H as [H1 H2]. unfold plain_soft in H1.
  apply andb_true_iff in H1. destruct H1 as [_ H1]. rewrite H1. cbn. exact (IH H2).
Qed.
Lemma create_rectangles_soft epsdef ms :
  forallb plain_soft ms = true ->
  create_rectangles sqrt_o epsdef ms = Ok (ms, [], epsilon_after sqrt_o epsdef ms).
Proof.
  intro S. unfold create_rectangles. rewrite (cr_squares_soft ms S). cbn [bind].
  rewrite (cr_overlaps_soft _ ms S). cbn [bind]. rewrite (cr_stogs_soft _ _ ms S). cbn [bind fst snd].
  rewrite (flip_soft ms S). reflexivity.
Qed.

Lemma plain_soft_modules area (es : list entry) : forallb plain_soft (map (module_of area) es) = true.
Proof. induction es; cbn; auto. Qed.
Lemma names_modules area (es : list entry) : map m_name (map (module_of area) es) = map fst es.
Proof. induction es; cbn; congruence. Qed.
Lemma fst_entry_tree area (es : list entry) : map fst (map (entry_tree area) es) = map fst es.
Proof. induction es; cbn; congruence. Qed.

(* the document of soft modules [es] and edges [edges] is loaded as exactly these *)
Theorem read_simple epsdef area (es : list entry) (edges : list wedge) :
  Qcltb 0 area = true ->
  forallb valid_identifier (map fst es) = true -> nodup_str (map fst es) = true ->
  forallb (edge_ok (map fst es)) edges = true ->
  read_netlist sqrt_o epsdef (netlist_doc (map (entry_tree area) es) (map edge_tree edges)) =
  Ok (mkNetlist (map (module_of area) es) (map net_of edges) []
                (epsilon_after sqrt_o epsdef (map (module_of area) es))).
Proof.
  intros A V N E. unfold read_netlist, netlist_doc, parse_netlist.
  cbn [nodup_keys map fst nodup_str mem_str negb andb assert bind parse_root KW_MODULES KW_NETS String.eqb].
  cbn -[parse_modules parse_edges create_rectangles resolve_edges].
  unfold parse_modules, nodup_keys. rewrite fst_entry_tree, N. cbn [assert bind].
  rewrite (parse_module_list_soft area es A V). cbn [bind].
  unfold parse_edges. rewrite (parse_edge_list_ok _ edges E). cbn [bind fst snd].
  rewrite (create_rectangles_soft epsdef _ (plain_soft_modules area es)). cbn [bind].
  rewrite names_modules, (resolve_edges_ok _ edges E). reflexivity.
Qed.
End Read.

(* ------------------------------------------------------------------ *)
(* the flat topologies                                                 *)
(* ------------------------------------------------------------------ *)
Definition names_entries (l : list string) : list entry := map (fun s => (s, @None (Qc * Qc))) l.
Lemma fst_names_entries l : map fst (names_entries l) = l.
Proof. unfold names_entries. rewrite map_map. cbn. apply map_id. Qed.

(* the modules M0 ... M(n-1) *)
Definition chain_entries (n : nat) : list entry := names_entries (map mname (range n)).
Lemma chain_modules_eq area n : chain_modules area n = map (entry_tree area) (chain_entries n).
Proof.
  unfold chain_modules, chain_entries, names_entries. rewrite dict_of_list_nodup.
  - rewrite !map_map. reflexivity.
  - rewrite map_map. cbn [fst]. apply nodup_mname_seq.
Qed.

Lemma forallb_map {A B} (f : B -> bool) (g : A -> B) l : forallb f (map g l) = forallb (fun x => f (g x)) l.
Proof. induction l; cbn; congruence. Qed.
Lemma forallb_seq (f : nat -> bool) a k :
  (forall i, (a <= i < a + k)%nat -> f i = true) -> forallb f (seq a k) = true.
Proof. intro H. apply forallb_forall. intros i I. apply in_seq in I. apply H, I. Qed.
Lemma known_mname n i : (i < n)%nat -> mem_str (mname i) (map mname (range n)) = true.
Proof.
  intro H. unfold range. rewrite mem_mname_seq. cbn [Nat.leb andb Nat.add].
  apply Nat.ltb_lt. exact H.
Qed.
Lemma known_all_in names l : (forall x, In x l -> mem_str x names = true) -> known_all names l = true.
Proof.
  induction l as [|x l IH]; cbn [known_all]; [reflexivity|]. intro H.
  rewrite (H x (or_introl eq_refl)). cbn. apply IH. intros y Y. apply H. right. exact Y.
Qed.

Definition pair_edge (a b : nat) : wedge := ([mname a; mname b], None).
Lemma pair_edge_ok n a b : (a < n)%nat -> (b < n)%nat -> edge_ok (map mname (range n)) (pair_edge a b) = true.
Proof.
  intros A B. unfold edge_ok, pair_edge, weight_of. cbn [fst snd List.length known_all].
  rewrite (known_mname n a A), (known_mname n b B). reflexivity.
Qed.
Lemma edge2_tree a b : edge2 (mname a) (mname b) = edge_tree (pair_edge a b).
Proof. reflexivity. Qed.

Section Flat.
Variable sqrt_o : Qc -> Qc.
Variable epsdef : option (Qc * Qc).

(* what the reader returns for soft modules [es] of area [area] and nets [edges] *)
Definition loaded (area : Qc) (es : list entry) (edges : list wedge) : netlist :=
  mkNetlist (map (module_of area) es) (map net_of edges) []
            (epsilon_after sqrt_o epsdef (map (module_of area) es)).

Lemma read_chain_like area n (ws : list wedge) (edges : list ytree) :
  Qcltb 0 area = true -> edges = map edge_tree ws ->
  forallb (edge_ok (map mname (range n))) ws = true ->
  read_netlist sqrt_o epsdef (netlist_doc (chain_modules area n) edges) = Ok (loaded area (chain_entries n) ws).
Proof.
  intros A -> E. rewrite chain_modules_eq. apply read_simple; try assumption.
  - unfold chain_entries. rewrite fst_names_entries. apply valid_mname_list.
  - unfold chain_entries. rewrite fst_names_entries. apply nodup_mname_seq.
  - unfold chain_entries. rewrite fst_names_entries. exact E.
Qed.

(* chain: nets (M_i, M_i+1), i < n - 1; defined for every n *)
Definition chain_wedges (n : nat) : list wedge := map (fun i => pair_edge i (S i)) (range (n - 1)).
Theorem netgen_chain n area :
  Qcltb 0 area = true ->
  read_netlist sqrt_o epsdef (gen_chain n area) = Ok (loaded area (chain_entries n) (chain_wedges n)).
Proof.
  intro A. unfold gen_chain. apply read_chain_like; [exact A| |].
  - unfold chain_edges, chain_wedges. rewrite map_map. reflexivity.
  - unfold chain_wedges. rewrite forallb_map. apply forallb_seq. intros i I. apply pair_edge_ok; lia.
Qed.

(* ring: nets (M_i, M_(i+1) mod n), i < n; defined for every n (n = 1: the net (M0, M0)) *)
Definition ring_wedges (n : nat) : list wedge := map (fun i => pair_edge i (S i mod n)) (range n).
Theorem netgen_ring n area :
  Qcltb 0 area = true ->
  read_netlist sqrt_o epsdef (gen_ring n area) = Ok (loaded area (chain_entries n) (ring_wedges n)).
Proof.
  intro A. unfold gen_ring. apply read_chain_like; [exact A| |].
  - unfold ring_edges, ring_wedges. rewrite map_map. reflexivity.
  - unfold ring_wedges. rewrite forallb_map. apply forallb_seq. intros i I. apply pair_edge_ok; [lia|].
    apply Nat.mod_upper_bound. lia.
Qed.

(* star: nets (M0, M_i), 1 <= i < n; defined for every n *)
Definition star_wedges (n : nat) : list wedge := map (fun i => pair_edge 0 i) (range2 1 n).
Lemma star_wedges_ok n : forallb (edge_ok (map mname (range n))) (star_wedges n) = true.
Proof.
  unfold star_wedges, range2. rewrite forallb_map. apply forallb_seq. intros i I. apply pair_edge_ok; lia.
Qed.
Theorem netgen_star n area :
  Qcltb 0 area = true ->
  read_netlist sqrt_o epsdef (gen_star n area) = Ok (loaded area (chain_entries n) (star_wedges n)).
Proof.
  intro A. unfold gen_star. apply read_chain_like; [exact A| |apply star_wedges_ok].
  unfold star_edges, star_wedges. rewrite map_map. reflexivity.
Qed.

(* one net with all the modules: defined for n >= 2 *)
Definition one_net_wedges (n : nat) : list wedge := [(map mname (range n), None)].
Theorem netgen_one_net n area :
  (2 <= n)%nat -> Qcltb 0 area = true ->
  read_netlist sqrt_o epsdef (gen_one_net n area) = Ok (loaded area (chain_entries n) (one_net_wedges n)).
Proof.
  intros N A. unfold gen_one_net. apply read_chain_like; [exact A| |].
  - unfold one_net_edges, one_net_wedges, edge_tree. cbn [map fst snd]. rewrite app_nil_r, map_map. reflexivity.
  - unfold one_net_wedges, edge_ok, weight_of. cbn [forallb fst snd]. rewrite map_length. unfold range at 1.
    rewrite seq_length. replace (2 <=? n)%nat with true by (symmetry; apply Nat.leb_le; exact N).
    rewrite known_all_in; [reflexivity|]. intros x X. apply in_map_iff in X. destruct X as [i [<- I]].
    apply in_seq in I. apply known_mname. lia.
Qed.
(* ... and only there: with fewer than two modules the reader refuses the one-pin net *)
Theorem netgen_one_net_domain n :
  (n < 2)%nat -> exists r, read_netlist sqrt_o epsdef (gen_one_net n 1) = Reject r.
Proof.
  intro N. destruct n as [|[|n]]; [| |lia]; eexists; vm_compute; reflexivity.
Qed.

(* ring-star: a ring M1 ... M(n-1) and the centre M0 joined to each; defined for n >= 2 *)
Lemma mname_z_pred n : (1 <= n)%nat -> mname_z (Z.of_nat n - 1) = mname (n - 1).
Proof.
  intro N. unfold mname_z, dec_z, mname.
  destruct (Z.ltb_spec (Z.of_nat n - 1) 0); [lia|].
  replace (Z.to_nat (Z.of_nat n - 1)) with (n - 1)%nat by lia. reflexivity.
Qed.
Definition ring_star_wedges (n : nat) : list wedge :=
  (map (fun i => pair_edge i (S i)) (range2 1 (n - 1)) ++ [pair_edge (n - 1) 1]) ++ star_wedges n.
Theorem netgen_ring_star n area :
  (2 <= n)%nat -> Qcltb 0 area = true ->
  read_netlist sqrt_o epsdef (gen_ring_star n area) = Ok (loaded area (chain_entries n) (ring_star_wedges n)).
Proof.
  intros N A. unfold gen_ring_star. apply read_chain_like; [exact A| |].
  - unfold ring_star_edges, ring_star_wedges, star_edges, star_wedges.
    rewrite !map_app, !map_map. rewrite mname_z_pred by lia. reflexivity.
  - unfold ring_star_wedges. rewrite !forallb_app, star_wedges_ok, andb_true_r.
    cbn [forallb]. rewrite pair_edge_ok by lia. rewrite andb_true_r.
    unfold range2. rewrite forallb_map. apply forallb_seq. intros i I. apply pair_edge_ok; lia.
Qed.
Theorem netgen_ring_star_domain n :
  (n < 2)%nat -> exists r, read_netlist sqrt_o epsdef (gen_ring_star n 1) = Reject r.
Proof.
  intro N. destruct n as [|[|n]]; [| |lia]; eexists; vm_compute; reflexivity.
Qed.
End Flat.

(* ------------------------------------------------------------------ *)
(* the grid                                                            *)
(* ------------------------------------------------------------------ *)
Lemma mem_str_In k l : mem_str k l = true <-> In k l.
Proof.
  induction l as [|x l IH]; cbn; [split; [discriminate|tauto]|].
  rewrite orb_true_iff, IH. destruct (String.eqb_spec k x); split; intros [H|H]; auto; try discriminate.
  all: try (subst; contradiction).
Qed.
Lemma mem_str_notIn k l : ~ In k l -> mem_str k l = false.
Proof. intro H. destruct (mem_str k l) eqn:E; [|reflexivity]. apply mem_str_In in E. contradiction. Qed.

Lemma nodup_inj_seq (f : nat -> string) a n :
  (forall i j, f i = f j -> i = j) -> nodup_str (map f (seq a n)) = true.
Proof.
  intro Inj. revert a. induction n as [|n IH]; intro a; cbn [seq map nodup_str]; [reflexivity|].
  rewrite IH, andb_true_r. apply negb_true_iff, mem_str_notIn. intro H.
  apply in_map_iff in H. destruct H as [j [E J]]. apply Inj in E. apply in_seq in J. lia.
Qed.

Definition g2 (p : nat * nat) : string := mname2 (fst p) (snd p).
Definition pairs_from (a rows cols : nat) : list (nat * nat) :=
  flat_map (fun r => map (fun c => (r, c)) (range cols)) (seq a rows).
Lemma pairs_is_from rows cols : pairs rows cols = pairs_from 0 rows cols.
Proof. reflexivity. Qed.

Lemma in_pairs_from a rows cols r c :
  In (r, c) (pairs_from a rows cols) <-> (a <= r < a + rows)%nat /\ (c < cols)%nat.
Proof.
  unfold pairs_from, range. rewrite in_flat_map. split.
  - intros [x [X I]]. apply in_map_iff in I. destruct I as [y [E Y]]. injection E as -> ->.
    apply in_seq in X. apply in_seq in Y. lia.
  - intros [R C]. exists r. split; [apply in_seq; lia|]. apply in_map_iff. exists c. split; [reflexivity|].
    apply in_seq. lia.
Qed.
Lemma in_g2_pairs a rows cols r c :
  In (mname2 r c) (map g2 (pairs_from a rows cols)) <-> (a <= r < a + rows)%nat /\ (c < cols)%nat.
Proof.
  rewrite in_map_iff. split.
  - intros [[r' c'] [E I]]. unfold g2 in E. cbn [fst snd] in E. apply mname2_inj in E. destruct E as [-> ->].
    apply in_pairs_from. exact I.
  - intro H. exists (r, c). split; [reflexivity|]. apply in_pairs_from. exact H.
Qed.

Lemma nodup_pairs a rows cols : nodup_str (map g2 (pairs_from a rows cols)) = true.
Proof.
  revert a. induction rows as [|n IH]; intro a; [reflexivity|].
  unfold pairs_from. cbn [seq flat_map]. fold (pairs_from (S a) n cols).
  rewrite map_app, nodup_str_app, IH, andb_true_r. apply andb_true_iff. split.
  - rewrite map_map. unfold g2, range. cbn [fst snd]. apply nodup_inj_seq.
    intros i j E. apply mname2_inj in E. tauto.
  - apply forallb_forall. intros k K. apply negb_true_iff, mem_str_notIn. intro H.
    apply in_map_iff in K. destruct K as [[r c] [<- K]]. apply in_map_iff in K. destruct K as [c' [E _]].
    injection E as <- <-. unfold g2 in H. cbn [fst snd] in H. apply in_g2_pairs in H. lia.
Qed.

Lemma map_flat_map {A B C} (f : B -> C) (g : A -> list B) l :
  map f (flat_map g l) = flat_map (fun x => map f (g x)) l.
Proof. induction l as [|x l IH]; cbn; [reflexivity|]. rewrite map_app, IH. reflexivity. Qed.
Lemma forallb_flat_map {A B} (f : B -> bool) (g : A -> list B) l :
  (forall x, In x l -> forallb f (g x) = true) -> forallb f (flat_map g l) = true.
Proof.
  induction l as [|x l IH]; cbn; [reflexivity|]. intro H. rewrite forallb_app, (H x (or_introl eq_refl)), IH; auto.
Qed.

Definition grid_entries (rows cols : nat) : list entry :=
  map (fun p => (g2 p, @None (Qc * Qc))) (pairs rows cols).
Definition pair_edge2 (a b : nat * nat) : wedge := ([g2 a; g2 b], None).
Definition grid_wedges (rows cols : nat) : list wedge :=
  flat_map (fun r => map (fun c => pair_edge2 (r, c) (r, S c)) (range (cols - 1))) (range rows)
  ++ flat_map (fun r => map (fun c => pair_edge2 (r, c) (S r, c)) (range cols)) (range (rows - 1)).

Lemma fst_grid_entries rows cols : map fst (grid_entries rows cols) = map g2 (pairs rows cols).
Proof. unfold grid_entries. rewrite map_map. reflexivity. Qed.

Lemma pair_edge2_ok rows cols a b :
  (fst a < rows)%nat -> (snd a < cols)%nat -> (fst b < rows)%nat -> (snd b < cols)%nat ->
  edge_ok (map g2 (pairs rows cols)) (pair_edge2 a b) = true.
Proof.
  intros. destruct a as [r c], b as [r' c']. cbn [fst snd] in *.
  unfold edge_ok, pair_edge2, weight_of. cbn [fst snd List.length known_all].
  change (g2 (r, c)) with (mname2 r c). change (g2 (r', c')) with (mname2 r' c').
  rewrite pairs_is_from.
  rewrite (proj2 (mem_str_In _ _) (proj2 (in_g2_pairs 0 rows cols r c) ltac:(lia))).
  rewrite (proj2 (mem_str_In _ _) (proj2 (in_g2_pairs 0 rows cols r' c') ltac:(lia))). reflexivity.
Qed.

Section Grid.
Variable sqrt_o : Qc -> Qc.
Variable epsdef : option (Qc * Qc).

(* grid without centres: modules M<r>_<c> row by row, horizontal then vertical
   nets; for every number of rows and every columns >= 1 *)
Theorem netgen_grid rows cols area :
  (1 <= cols)%nat -> Qcltb 0 area = true ->
  read_netlist sqrt_o epsdef (gen_grid rows cols area None) =
  Ok (loaded sqrt_o epsdef area (grid_entries rows cols) (grid_wedges rows cols)).
Proof.
  intros C A. unfold gen_grid. destruct (Nat.eqb_spec cols 0) as [->|_]; [lia|].
  unfold grid_modules. rewrite dict_of_list_nodup.
  2:{ rewrite map_map. cbn [fst]. rewrite pairs_is_from. apply nodup_pairs. }
  replace (map (fun p => (mname2 (fst p) (snd p), area_entry area)) (pairs rows cols))
    with (map (entry_tree area) (grid_entries rows cols))
    by (unfold grid_entries; rewrite map_map; reflexivity).
  replace (grid_edges rows cols) with (map edge_tree (grid_wedges rows cols)).
  2:{ unfold grid_edges, grid_wedges. rewrite map_app, !map_flat_map.
      f_equal; apply flat_map_ext; intro r; rewrite map_map; reflexivity. }
  apply read_simple; try assumption.
  - rewrite fst_grid_entries. induction (pairs rows cols) as [|p l IH]; cbn [map forallb]; [reflexivity|].
    unfold g2 at 1. rewrite mname2_valid. exact IH.
  - rewrite fst_grid_entries, pairs_is_from. apply nodup_pairs.
  - rewrite fst_grid_entries. unfold grid_wedges. rewrite forallb_app. apply andb_true_iff. split.
    + apply forallb_flat_map. intros r R. apply in_seq in R. rewrite forallb_map. apply forallb_seq.
      intros c I. apply pair_edge2_ok; cbn [fst snd]; lia.
    + apply forallb_flat_map. intros r R. apply in_seq in R. rewrite forallb_map. apply forallb_seq.
      intros c I. apply pair_edge2_ok; cbn [fst snd]; lia.
Qed.
End Grid.

(* ------------------------------------------------------------------ *)
(* the H-tree                                                          *)
(* ------------------------------------------------------------------ *)
(* number of modules of an H-tree with l levels *)
Fixpoint hcount (l : nat) : nat :=
  match l with
  | O => 0
  | S O => 1
  | S l' => 3 + 4 * hcount l'
  end.

Definition wedge_w (a b : nat) (w : Qc) : wedge := ([mname a; mname b], Some w).

(* the nets of the tree with l levels rooted at module f, weight w at the root,
   doubled at each level: centre-left, centre-right, then for each of the four
   sub-trees the net centre - sub-centre followed by the sub-tree's nets, then
   left - sub-centres 0, 1 and right - sub-centres 2, 3 *)
Fixpoint hwedges (l : nat) (w : Qc) (f : nat) : list wedge :=
  match l with
  | O => []
  | S O => []
  | S l' =>
      let sub k := (f + 3 + k * hcount l')%nat in
      (((((((([wedge_w (f + 1) f w; wedge_w (f + 2) f w]
              ++ [wedge_w f (sub 0%nat) w]) ++ hwedges l' (two * w) (sub 0%nat))
            ++ [wedge_w f (sub 1%nat) w]) ++ hwedges l' (two * w) (sub 1%nat))
          ++ [wedge_w f (sub 2%nat) w]) ++ hwedges l' (two * w) (sub 2%nat))
        ++ [wedge_w f (sub 3%nat) w]) ++ hwedges l' (two * w) (sub 3%nat))
      ++ [wedge_w (f + 1) (sub 0%nat) w; wedge_w (f + 1) (sub 1%nat) w;
          wedge_w (f + 2) (sub 2%nat) w; wedge_w (f + 2) (sub 3%nat) w]
  end.

Definition htree_entries (l : nat) : list entry := names_entries (map mname (range (hcount l))).

Section HTree.
Variable sqrt_o : Qc -> Qc.
Variable epsdef : option (Qc * Qc).

(* the full statement: every number of levels >= 1 *)
Definition netgen_htree_statement : Prop :=
  forall l area, (1 <= l)%nat -> Qcltb 0 area = true ->
  exists doc, gen_htree l area = Some doc /\
    read_netlist sqrt_o epsdef doc = Ok (loaded sqrt_o epsdef area (htree_entries l) (hwedges l 1 0)).

(* the generator is defined exactly for l >= 1 *)
Lemma gen_htree_zero area : gen_htree 0 area = None.
Proof. reflexivity. Qed.
End HTree.
