(* Models of the remaining producers of netlist documents:
     dump_yaml_namededges (frame/netlist/yaml_write_netlist.py) - as a state
       transformer, both as repaired (fixes/C19-namededges-copy.diff) and as found;
     FloorSetInstance._parse_modules / _parse_connections / write_yaml_FPEF /
       write_yaml_DIEF (tools/floorset_parser/floor_set_manager/manager.py), given
       the rectangles strop_decomposition returned (terminal rectangles as repaired
       by fixes/C19-floorset-terminal-position.diff);
     rect_io.solution_to_netlist, rect_io.get_netlist (tools/rect/rect_io.py) and
       legalfloor.Model.get_netlist (tools/legalfloor/legalfloor.py) AS REPAIRED by
       fixes/C19-solution-to-netlist-writer.diff, fixes/C19-get-netlist-zero-area.diff
       and fixes/C19-legalfloor-get-netlist.diff: the data structures handed to
       dump_yaml_modules / dump_yaml_edges / write_yaml (resp. to Netlist directly);
     the same three functions as found (names ending in _found): the TREE obtained by parsing the
       text they assemble by concatenation (the text layer is outside the model;
       module names that YAML reads as null / true / false are outside the domain
       of the _found models).
   Definitions only; facts in ProducersFacts.v, ProducersRT.v. *)
From FrameModel Require Import Num.QcTac Geometry.Rect Alloc.Alloc Stog.CreateStog Yaml.Tree
  Yaml.NetlistRead Yaml.NetlistWrite Yaml.Netgen Yaml.DieAlloc.
Open Scope Qc_scope.
Open Scope string_scope.

(* ------------------------------------------------------------------ *)
(* dump_yaml_namededges                                                *)
(* ------------------------------------------------------------------ *)
(* NamedHyperEdge: [modules] is a Python list; it holds names, and - after the
   unrepaired writer has run - also numbers *)
Record nedge : Type := mkNEdge { ne_modules : list ytree; ne_weight : Qc }.

Definition weight_items (e : nedge) : list ytree :=
  if Qceqb (ne_weight e) 1 then [] else [yfloat (ne_weight e)].

(* repaired: edge = list(e.modules) *)
Definition dump_named_one (e : nedge) : ytree * nedge :=
  (YList (ne_modules e ++ weight_items e), e).
(* as found: edge = e.modules; edge.append(e.weight) appends to the edge's own list *)
Definition dump_named_one_found (e : nedge) : ytree * nedge :=
  let ms := (ne_modules e ++ weight_items e)%list in (YList ms, mkNEdge ms (ne_weight e)).

Definition dump_named_with (f : nedge -> ytree * nedge) (es : list nedge) : list ytree * list nedge :=
  (map (fun e => fst (f e)) es, map (fun e => snd (f e)) es).
Definition dump_named := dump_named_with dump_named_one.
Definition dump_named_found := dump_named_with dump_named_one_found.

(* ------------------------------------------------------------------ *)
(* FloorSet                                                            *)
(* ------------------------------------------------------------------ *)
Definition box : Type := (Qc * Qc * Qc * Qc)%type.     (* [cx, cy, w, h] *)
Definition box_tree (b : box) : ytree :=
  let '(x, y, w, h) := b in YList [yfloat x; yfloat y; yfloat w; yfloat h].
Definition box_area (b : box) : Qc := let '(_, _, w, h) := b in w * h.

(* compute_centroid *)
Definition fs_centroid (bs : list box) : Qc * Qc :=
  let a := Qcsum (map box_area bs) in
  (Qcsum (map (fun b => let '(x, _, _, _) := b in box_area b * x) bs) / a,
   Qcsum (map (fun b => let '(_, y, _, _) := b in box_area b * y) bs) / a).

Inductive fs_kind := FsFixed | FsHard | FsSoft.
(* one block: the rectangles of strop_decomposition, placement_constraints[.][1] / [0], area_blocks *)
Record fs_block : Type := mkFsBlock { fb_boxes : list box; fb_kind : fs_kind; fb_area : Qc }.

Definition fs_block_entry (b : fs_block) : ytree :=
  YMap ((KW_RECTANGLES, YList (map box_tree (fb_boxes b)))
        :: match fb_kind b with
           | FsFixed => [(KW_FIXED, YBool true)]
           | FsHard => [(KW_HARD, YBool true)]
           | FsSoft => let c := fs_centroid (fb_boxes b) in
                       [(KW_AREA, yfloat (fb_area b)); (KW_CENTER, YList [yfloat (fst c); yfloat (snd c)])]
           end).

Definition fs_eps : Qc := qc 1 1000.      (* EPSILON = 1e-3 *)
Definition qmax_list (l : list Qc) : Qc := fold_left Qcmax l 0.
(* (repaired) the centre of a terminal's rectangle: the pin, moved inside on a border *)
Definition fs_term_coord (p s : Qc) : Qc :=
  if Qcltb p fs_eps then p + fs_eps
  else if Qcleb (s - fs_eps) p then p - fs_eps
  else p.
Definition tname (i : nat) : string := "T" ++ dec i.

Definition fs_terminal_entry (as_modules : bool) (sx sy : Qc) (pin : Qc * Qc) : ytree :=
  if as_modules then
    YMap [(KW_RECTANGLES, YList [yfloat (fs_term_coord (fst pin) sx); yfloat (fs_term_coord (snd pin) sy);
                                 yfloat fs_eps; yfloat fs_eps]);
          (KW_FIXED, YBool true)]
  else
    YMap [(KW_CENTER, YList [yfloat (fst pin); yfloat (snd pin)]); (KW_TERMINAL, YBool true)].

Fixpoint indexed {A} (i : nat) (l : list A) : list (nat * A) :=
  match l with [] => [] | x :: r => (i, x) :: indexed (S i) r end.

(* _parse_modules: self._modules *)
Definition fs_modules (as_modules : bool) (blocks : list fs_block) (pins : list (Qc * Qc))
  : list (string * ytree) :=
  let sx := qmax_list (map fst pins) in
  let sy := qmax_list (map snd pins) in
  dict_update
    (dict_of_list (map (fun ib => (mname (fst ib), fs_block_entry (snd ib))) (indexed 0 blocks)))
    (map (fun ip => (tname (fst ip), fs_terminal_entry as_modules sx sy (snd ip))) (indexed 0 pins)).

(* _parse_connections: weight = w * alpha if that is positive, else 1 *)
Definition fs_weight (alpha w : Qc) : Qc := if Qcltb 0 (w * alpha) then w * alpha else 1.
Definition fs_nets (alpha : Qc) (b2b p2b : list (nat * nat * Qc)) : list nedge :=
  (map (fun e => let '(a, b, w) := e in mkNEdge [YStr (mname a); YStr (mname b)] (fs_weight alpha w)) b2b
   ++ map (fun e => let '(p, b, w) := e in mkNEdge [YStr (tname p); YStr (mname b)] (fs_weight alpha w)) p2b)%list.

(* write_yaml_FPEF: (document, nets afterwards) *)
Definition fs_netlist_doc (modules : list (string * ytree)) (nets : list nedge) : ytree * list nedge :=
  let '(es, nets') := dump_named nets in (netlist_doc modules es, nets').
(* write_yaml_DIEF *)
Definition fs_die_doc (pins : list (Qc * Qc)) : ytree :=
  YMap [(KW_WIDTH, yfloat (qmax_list (map fst pins))); (KW_HEIGHT, yfloat (qmax_list (map snd pins)))].

(* ------------------------------------------------------------------ *)
(* rect_io.solution_to_netlist (repaired)                              *)
(* ------------------------------------------------------------------ *)
(* modules = dump_yaml_modules(netlist.modules);
   for name, boxes in result.items(): if name in modules: modules[name][KW_RECTANGLES] = boxes;
   write_yaml({Modules: modules, Nets: dump_yaml_edges(netlist.edges)}).
   [result] is a dict: a name occurs once. *)
Definition sol_entry (result : list (string * list box)) (m : module) : string * ytree :=
  (m_name m,
   YMap (match lookup (m_name m) result with
         | Some bs => dict_set (write_module m) KW_RECTANGLES (YList (map box_tree bs))
         | None => write_module m
         end)).
Definition solution_to_netlist (n : netlist) (result : list (string * list box)) : ytree :=
  netlist_doc (map (sol_entry result) (nl_modules n)) (map write_net (nl_nets n)).

(* ------------------------------------------------------------------ *)
(* rect_io.solution_to_netlist as found                                *)
(* ------------------------------------------------------------------ *)
Definition rect4 (r : mrect) : ytree :=
  YList [scalar_tree (mr_x r); scalar_tree (mr_y r); scalar_tree (mr_w r); scalar_tree (mr_h r)].

(* None = "I don't know what to do with module" (an exception) *)
Definition sol_module (result : list (string * list box)) (m : module) : option (string * ytree) :=
  let first :=
    match lookup (m_name m) result with
    | Some bs => Some (KW_RECTANGLES, YList (map box_tree bs))
    | None =>
        match m_rects m with
        | _ :: _ => Some (KW_RECTANGLES, YList (map rect4 (m_rects m)))
        | [] => match m_center m with
                | Some c => Some (KW_CENTER, write_point c)
                | None => None
                end
        end
    end in
  match first with
  | Some f =>
      Some (m_name m,
            YMap (f :: (if m_hard m then [] else [(KW_AREA, yfloat (module_total_area m))])
                    ++ (if m_fixed m then [(KW_FIXED, YBool true)]
                        else if m_hard m then [(KW_HARD, YBool true)] else []))%list)
  | None => None
  end.

Fixpoint sol_modules (result : list (string * list box)) (ms : list module)
  : option (list (string * ytree)) :=
  match ms with
  | [] => Some []
  | m :: rest =>
      match sol_module result m, sol_modules result rest with
      | Some x, Some xs => Some (x :: xs)
      | _, _ => None
      end
  end.

Definition names_net (e : net) : ytree := YList (map YStr (n_members e)).

(* the text is a flow mapping: a repeated key is an error of the text layer, so
   the entries are those of a dict *)
Definition solution_to_netlist_found (n : netlist) (result : list (string * list box)) : option ytree :=
  match sol_modules result (nl_modules n) with
  | Some ms => Some (netlist_doc ms (map names_net (nl_nets n)))
  | None => None
  end.

(* ------------------------------------------------------------------ *)
(* rect_io.get_netlist(None, allocation)                               *)
(* ------------------------------------------------------------------ *)
(* module_map: name -> (centre, area), updated cell by cell *)
Definition mm_entry : Type := (Qc * Qc * Qc)%type.
(* repaired: the entry is left as it is while a1 + a2 is still zero *)
Definition mm_add (mm : list (string * mm_entry)) (c : cell) (kv : string * Qc) : list (string * mm_entry) :=
  let r := crect c in
  let a2 := area r * snd kv in
  match lookup (fst kv) mm with
  | None => dict_set mm (fst kv) (cx r, cy r, a2)
  | Some (x1, y1, a1) =>
      if Qcltb 0 (a1 + a2) then
        let f1 := a1 / (a1 + a2) in
        let f2 := a2 / (a1 + a2) in
        dict_set mm (fst kv) (x1 * f1 + cx r * f2, y1 * f1 + cy r * f2, a1 + a2)
      else mm
  end.
Definition module_map (cells : list cell) : list (string * mm_entry) :=
  fold_left (fun mm c => fold_left (fun mm kv => mm_add mm c kv) (calloc c) mm) cells [].
(* as found: None = ZeroDivisionError (a1 / (a1 + a2) with a1 + a2 = 0.0) *)
Definition mm_add_found (mm : list (string * mm_entry)) (c : cell) (kv : string * Qc)
  : option (list (string * mm_entry)) :=
  let r := crect c in
  let a2 := area r * snd kv in
  match lookup (fst kv) mm with
  | None => Some (dict_set mm (fst kv) (cx r, cy r, a2))
  | Some (x1, y1, a1) =>
      if Qceqb (a1 + a2) 0 then None
      else
        let f1 := a1 / (a1 + a2) in
        let f2 := a2 / (a1 + a2) in
        Some (dict_set mm (fst kv) (x1 * f1 + cx r * f2, y1 * f1 + cy r * f2, a1 + a2))
  end.
Definition module_map_found (cells : list cell) : option (list (string * mm_entry)) :=
  fold_left (fun o c => fold_left (fun o kv => match o with Some mm => mm_add_found mm c kv | None => None end)
                                  (calloc c) o) cells (Some []).
Definition mm_doc (mm : list (string * mm_entry)) : ytree :=
  netlist_doc (map (fun e => let '(k, (x, y, a)) := e in
                             (k, YMap [(KW_AREA, yfloat a); (KW_CENTER, YList [yfloat x; yfloat y])]))
                   mm)
              [].
Definition alloc_netlist_doc (cells : list cell) : ytree := mm_doc (module_map cells).
Definition alloc_netlist_doc_found (cells : list cell) : option ytree :=
  match module_map_found cells with Some mm => Some (mm_doc mm) | None => None end.

(* ------------------------------------------------------------------ *)
(* legalfloor: netlist_to_utils + Model.get_netlist on a model that was built *)
(* ------------------------------------------------------------------ *)
Record lf_boxes : Type := mkLf {
  lf_trunk : option mrect; lf_n : list mrect; lf_s : list mrect; lf_e : list mrect; lf_w : list mrect }.

(* the loop over module.rectangles of netlist_to_utils *)
Definition lf_step (b : lf_boxes) (r : mrect) : lf_boxes :=
  match mr_loc r with
  | TRUNK => mkLf (Some r) (lf_n b) (lf_s b) (lf_e b) (lf_w b)
  | NORTH => mkLf (lf_trunk b) (lf_n b ++ [r]) (lf_s b) (lf_e b) (lf_w b)
  | SOUTH => mkLf (lf_trunk b) (lf_n b) (lf_s b ++ [r]) (lf_e b) (lf_w b)
  | EAST => mkLf (lf_trunk b) (lf_n b) (lf_s b) (lf_e b ++ [r]) (lf_w b)
  | WEST => mkLf (lf_trunk b) (lf_n b) (lf_s b) (lf_e b) (lf_w b ++ [r])
  | NOPOLY =>
      match lf_trunk b with
      | None => mkLf (Some r) (lf_n b) (lf_s b) (lf_e b) (lf_w b)
      | Some _ => mkLf (lf_trunk b) (lf_n b ++ [r]) (lf_s b) (lf_e b) (lf_w b)
      end
  end.
Definition lf_of (rs : list mrect) : lf_boxes := fold_left lf_step rs (mkLf None [] [] [] []).
(* [trunk_defined] is a separate flag in the code; it is set exactly when a
   trunk has been stored *)

(* Model.fix: the degree written by get_netlist (0 soft, 1 hard, 2 fixed).
   netlist_to_utils hands the branch positions of a hard module as float offsets
   from the trunk (repository commit ac6e029), so only the trunk position of a
   fixed module raises the degree to 2. *)
Definition lf_degree (m : module) (branches : list mrect) : nat :=
  if m_fixed m then 2%nat else if m_hard m then 1%nat else 0%nat.

Definition float4 (r : mrect) : ytree :=
  YList [yfloat (sval (mr_x r)); yfloat (sval (mr_y r)); yfloat (sval (mr_w r)); yfloat (sval (mr_h r))].

(* None = the model cannot be built (a module without rectangle has a 0 x 0 trunk) *)
Definition lf_module (m : module) : option (string * ytree) :=
  let b := lf_of (m_rects m) in
  match lf_trunk b with
  | None => None
  | Some t =>
      let branches := (lf_n b ++ lf_s b ++ lf_e b ++ lf_w b)%list in
      let head := match lf_degree m branches with
                  | O => (KW_AREA, yfloat (module_total_area m))
                  | S O => (KW_HARD, YBool true)
                  | _ => (KW_FIXED, YBool true)
                  end in
      Some (m_name m, YMap [head; (KW_RECTANGLES, YList (map float4 (t :: branches)))])
  end.

Fixpoint lf_modules (ms : list module) : option (list (string * ytree)) :=
  match ms with
  | [] => Some []
  | m :: rest =>
      match lf_module m, lf_modules rest with
      | Some x, Some xs => Some (x :: xs)
      | _, _ => None
      end
  end.

Definition legal_netlist_found (n : netlist) : option ytree :=
  match nl_modules n with
  | [] => None                      (* tau = ... / len(ml): no model without modules *)
  | _ =>
      match lf_modules (nl_modules n) with
      | Some ms => Some (netlist_doc ms (map names_net (nl_nets n)))
      | None => None
      end
  end.

(* ------------------------------------------------------------------ *)
(* legalfloor (repaired): Model(..., netlist).get_netlist on a model that was built *)
(* ------------------------------------------------------------------ *)
(* netlist_to_utils (the rectangles handed to the model) and model_order (their
   indices in module.rectangles) run the same loop; here: one loop over the
   indexed rectangles, projected twice *)
Record lfp : Type := mkLfp {
  lp_t : option (nat * mrect); lp_n : list (nat * mrect); lp_s : list (nat * mrect);
  lp_e : list (nat * mrect); lp_w : list (nat * mrect) }.
Definition lfp_step (b : lfp) (kr : nat * mrect) : lfp :=
  match mr_loc (snd kr) with
  | TRUNK => mkLfp (Some kr) (lp_n b) (lp_s b) (lp_e b) (lp_w b)
  | NORTH => mkLfp (lp_t b) (lp_n b ++ [kr]) (lp_s b) (lp_e b) (lp_w b)
  | SOUTH => mkLfp (lp_t b) (lp_n b) (lp_s b ++ [kr]) (lp_e b) (lp_w b)
  | EAST => mkLfp (lp_t b) (lp_n b) (lp_s b) (lp_e b ++ [kr]) (lp_w b)
  | WEST => mkLfp (lp_t b) (lp_n b) (lp_s b) (lp_e b) (lp_w b ++ [kr])
  | NOPOLY =>
      match lp_t b with
      | None => mkLfp (Some kr) (lp_n b) (lp_s b) (lp_e b) (lp_w b)
      | Some _ => mkLfp (lp_t b) (lp_n b ++ [kr]) (lp_s b) (lp_e b) (lp_w b)
      end
  end.
Definition lfp_of (rs : list mrect) : lfp := fold_left lfp_step (indexed 0 rs) (mkLfp None [] [] [] []).
(* trunk, north, south, east, west: the rectangles of the model in its order *)
Definition lfp_flat (b : lfp) : list (nat * mrect) :=
  ((match lp_t b with Some t => [t] | None => [] end) ++ lp_n b ++ lp_s b ++ lp_e b ++ lp_w b)%list.

Fixpoint index_of (k : nat) (l : list nat) : option nat :=
  match l with
  | [] => None
  | x :: r => if Nat.eqb k x then Some O else match index_of k r with Some j => Some (S j) | None => None end
  end.

Definition float4_items (r : mrect) : list ytree :=
  [yfloat (sval (mr_x r)); yfloat (sval (mr_y r)); yfloat (sval (mr_w r)); yfloat (sval (mr_h r))].
Definition region_items (r : mrect) : list ytree :=
  if String.eqb (mr_region r) KW_GROUND then [] else [YStr (mr_region r)].

(* rects[order.index(k)] + [region of the k-th rectangle]; None = ValueError / IndexError *)
Definition legal_rect (model : list (nat * mrect)) (kr : nat * mrect) : option ytree :=
  match index_of (fst kr) (map fst model) with
  | Some j =>
      match nth_error (map snd model) j with
      | Some mr => Some (YList (float4_items mr ++ region_items (snd kr)))
      | None => None
      end
  | None => None
  end.
Fixpoint seq_opt {A} (l : list (option A)) : option (list A) :=
  match l with
  | [] => Some []
  | Some x :: r => match seq_opt r with Some xs => Some (x :: xs) | None => None end
  | None :: _ => None
  end.
Definition legal_rects (rs : list mrect) : option (list ytree) :=
  let model := lfp_flat (lfp_of rs) in
  seq_opt (map (legal_rect model) (indexed 0 rs)).

(* None = the model cannot be built (a module without rectangle has a 0 x 0 trunk) *)
Definition legal_entry (m : module) : option (string * ytree) :=
  match m_rects m with
  | [] => None
  | _ =>
      match legal_rects (m_rects m) with
      | Some rs => Some (m_name m, YMap (dict_set (write_module m) KW_RECTANGLES (YList rs)))
      | None => None
      end
  end.

(* nets: names of the pins, the weight of the hypergraph when it is not 1 *)
Definition legal_netlist (n : netlist) : option ytree :=
  match nl_modules n with
  | [] => None                      (* tau = ... / len(ml): no model without modules *)
  | _ =>
      match seq_opt (map legal_entry (nl_modules n)) with
      | Some ms => Some (netlist_doc ms (map write_net (nl_nets n)))
      | None => None
      end
  end.
