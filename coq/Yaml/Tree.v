(* Document trees: what ruamel hands to FRAME after loading a YAML text
   (frame/utils/utils.py: read_yaml) and what FRAME hands to ruamel for
   writing (write_yaml).  The text layer itself is outside the model.

   - numbers carry the int/float distinction of the Python object ([is_int]);
     the reader never looks at it, the writer reproduces it;
   - mappings are association lists in document order (a Python dict keeps
     insertion order); a dict cannot hold the same key twice - ruamel raises
     DuplicateKeyError while loading such a text - so association lists with a
     repeated key are no documents and the readers refuse them explicitly;
   - mapping keys are strings.  A key of another type (YAML `null:`, `true:`,
     `1e3:`) is refused wherever the code looks at keys (valid_identifier,
     `key in [...]`, isinstance(key, str)); all the code can find out about it
     is that it is no identifier, no keyword and differs from the other keys.
     The harness hands such a key to the model as the byte 255 followed by its
     repr - a string no Python str encodes to (strings are UTF-8 byte
     sequences here), hence no identifier, no keyword, equal to no other key;
   - [YNull] is Python's None (YAML `null`, `~`, an empty value): no number,
     no boolean, no string, no list, no mapping - the readers refuse it in
     every position through their "anything else" branches. *)
From FrameModel Require Export Num.QcTac.
From Coq Require Export String Ascii.
Open Scope Qc_scope.

Inductive ytree : Type :=
| YNum (q : Qc) (is_int : bool)
| YBool (b : bool)
| YStr (s : string)
| YList (l : list ytree)
| YMap (m : list (string * ytree))
| YNull.

(* A Python number as FRAME sees it.  [is_number] is
   isinstance(n, numbers.Real) and the rectangle parser tests
   isinstance(x, (int, float)): both accept bool (a subclass of int). *)
Inductive scalar : Type :=
| SNum (q : Qc) (is_int : bool)
| SBool (b : bool).

Definition sval (s : scalar) : Qc :=
  match s with
  | SNum q _ => q
  | SBool true => 1
  | SBool false => 0
  end.

Definition as_scalar (t : ytree) : option scalar :=
  match t with
  | YNum q i => Some (SNum q i)
  | YBool b => Some (SBool b)
  | _ => None
  end.

Definition scalar_tree (s : scalar) : ytree :=
  match s with
  | SNum q i => YNum q i
  | SBool b => YBool b
  end.

(* is_number(t) and its value *)
Definition as_number (t : ytree) : option Qc :=
  match as_scalar t with Some s => Some (sval s) | None => None end.

(* float(x) written back *)
Definition yfloat (q : Qc) : ytree := YNum q false.

Fixpoint lookup {A} (k : string) (m : list (string * A)) : option A :=
  match m with
  | [] => None
  | (k', v) :: r => if String.eqb k k' then Some v else lookup k r
  end.
Definition has_key {A} (k : string) (m : list (string * A)) : bool :=
  match lookup k m with Some _ => true | None => false end.

Fixpoint mem_str (k : string) (l : list string) : bool :=
  match l with
  | [] => false
  | x :: r => String.eqb k x || mem_str k r
  end.

Fixpoint nodup_str (l : list string) : bool :=
  match l with
  | [] => true
  | x :: r => negb (mem_str x r) && nodup_str r
  end.
Definition nodup_keys {A} (m : list (string * A)) : bool := nodup_str (map fst m).

(* valid_identifier (frame/utils/utils.py): ^[A-Za-z_][A-Za-z0-9_]* , full match *)
Definition is_letter (c : ascii) : bool :=
  let n := nat_of_ascii c in
  ((65 <=? n) && (n <=? 90)) || ((97 <=? n) && (n <=? 122)) || (n =? 95).
Definition is_digit (c : ascii) : bool :=
  let n := nat_of_ascii c in (48 <=? n) && (n <=? 57).
Fixpoint all_idchars (s : string) : bool :=
  match s with
  | EmptyString => true
  | String c r => (is_letter c || is_digit c) && all_idchars r
  end.
Definition valid_identifier (s : string) : bool :=
  match s with
  | EmptyString => false
  | String c r => is_letter c && all_idchars r
  end.

(* keywords (frame/utils/keywords.py) *)
Definition KW_MODULES := "Modules"%string.
Definition KW_NETS := "Nets"%string.
Definition KW_AREA := "area"%string.
Definition KW_CENTER := "center"%string.
Definition KW_ASPECT_RATIO := "aspect_ratio"%string.
Definition KW_TERMINAL := "terminal"%string.
Definition KW_HARD := "hard"%string.
Definition KW_FIXED := "fixed"%string.
Definition KW_FLIP := "flip"%string.
Definition KW_RECTANGLES := "rectangles"%string.
Definition KW_GROUND := "_"%string.
