(* netgen grid with --add-centers: the generated document is accepted and
   loaded as the soft modules M<r>_<c> of the given area, each with the centre
   gen_modules gave it ((0.5 + c) * w/cols + noise, (0.5 + r) * h/rows + noise,
   whatever values random.gauss returned), and the nets of the grid.
   For every number of rows and every columns >= 1. *)
From FrameModel Require Import Num.QcTac Geometry.Rect Yaml.Tree Yaml.NetlistRead Yaml.Netgen Yaml.NetgenFacts.
Open Scope Qc_scope.
Open Scope string_scope.

(* modules[name][KW_CENTER] = c for every key of a dict with distinct keys, in the order of the keys *)
Lemma dict_set_mid {A} (pre : list (string * A)) k v v' rest :
  mem_str k (map fst pre) = false ->
  dict_set (pre ++ (k, v) :: rest) k v' = (pre ++ (k, v') :: rest)%list.
Proof.
  induction pre as [|[k0 v0] pre IH]; cbn [app map fst mem_str dict_set]; intros H.
  - rewrite String.eqb_refl. reflexivity.
  - apply orb_false_iff in H. destruct H as [H1 H2]. rewrite H1. rewrite (IH H2). reflexivity.
Qed.

Lemma fold_dict_set_all {A B} (key : B -> string) (f g : B -> A) (l : list B) : forall pre,
  nodup_str (map key (pre ++ l)) = true ->
  fold_left (fun acc p => dict_set acc (key p) (g p)) l
            (map (fun p => (key p, g p)) pre ++ map (fun p => (key p, f p)) l)%list
  = map (fun p => (key p, g p)) (pre ++ l).
Proof.
  induction l as [|p l IH]; intros pre N; cbn [fold_left map].
  - rewrite !app_nil_r. reflexivity.
  - rewrite dict_set_mid.
    + replace (map (fun p0 => (key p0, g p0)) pre ++ (key p, g p) :: map (fun p0 => (key p0, f p0)) l)%list
        with (map (fun p0 => (key p0, g p0)) (pre ++ [p]) ++ map (fun p0 => (key p0, f p0)) l)%list
        by (rewrite map_app; cbn [map]; rewrite <- app_assoc; reflexivity).
      rewrite IH.
      * rewrite <- app_assoc. reflexivity.
      * rewrite <- app_assoc. exact N.
    + rewrite map_map. cbn [fst]. rewrite map_app, nodup_str_app in N.
      apply andb_true_iff in N. destruct N as [_ N]. rewrite forallb_forall in N.
      destruct (mem_str (key p) (map key pre)) eqn:E; [|reflexivity].
      apply mem_str_In in E. specialize (N _ E). cbn [map mem_str] in N. rewrite String.eqb_refl in N. discriminate.
Qed.

Definition grid_entries_c (w h : Qc) (rows cols : nat) (noise : nat -> nat -> Qc * Qc) : list entry :=
  map (fun p => (g2 p, Some (grid_center w h rows cols noise (fst p) (snd p)))) (pairs rows cols).

Lemma fst_grid_entries_c w h rows cols noise :
  map fst (grid_entries_c w h rows cols noise) = map g2 (pairs rows cols).
Proof. unfold grid_entries_c. rewrite map_map. reflexivity. Qed.

Lemma grid_modules_centers area rows cols w h noise :
  grid_modules area rows cols (Some (w, h, noise)) = map (entry_tree area) (grid_entries_c w h rows cols noise).
Proof.
  unfold grid_modules. rewrite dict_of_list_nodup.
  2:{ rewrite map_map. cbn [fst]. rewrite pairs_is_from. apply nodup_pairs. }
  pose proof (fold_dict_set_all g2 (fun _ => area_entry area)
                (fun p => area_center_entry area (grid_center w h rows cols noise (fst p) (snd p)))
                (pairs rows cols) []) as F.
  cbn [app map] in F. unfold g2 in F. rewrite F.
  - unfold grid_entries_c. rewrite map_map. reflexivity.
  - change (fun p : nat * nat => mname2 (fst p) (snd p)) with g2. rewrite pairs_is_from. apply nodup_pairs.
Qed.

Section GridCenters.
Variable sqrt_o : Qc -> Qc.
Variable epsdef : option (Qc * Qc).

Theorem netgen_grid_centers rows cols area w h noise :
  (1 <= cols)%nat -> Qcltb 0 area = true ->
  read_netlist sqrt_o epsdef (gen_grid rows cols area (Some (w, h, noise))) =
  Ok (loaded sqrt_o epsdef area (grid_entries_c w h rows cols noise) (grid_wedges rows cols)).
Proof.
  intros C A. unfold gen_grid. destruct (Nat.eqb_spec cols 0) as [->|_]; [lia|].
  rewrite grid_modules_centers.
  replace (grid_edges rows cols) with (map edge_tree (grid_wedges rows cols)).
  2:{ unfold grid_edges, grid_wedges. rewrite map_app, !map_flat_map.
      f_equal; apply flat_map_ext; intro r; rewrite map_map; reflexivity. }
  apply read_simple; try assumption.
  - rewrite fst_grid_entries_c. induction (pairs rows cols) as [|p l IH]; cbn [map forallb]; [reflexivity|].
    unfold g2 at 1. rewrite mname2_valid. exact IH.
  - rewrite fst_grid_entries_c, pairs_is_from. apply nodup_pairs.
  - rewrite fst_grid_entries_c. unfold grid_wedges. rewrite forallb_app. apply andb_true_iff. split.
    + apply forallb_flat_map. intros r R. apply in_seq in R. rewrite forallb_map. apply forallb_seq.
      intros c I. apply pair_edge2_ok; cbn [fst snd]; lia.
    + apply forallb_flat_map. intros r R. apply in_seq in R. rewrite forallb_map. apply forallb_seq.
      intros c I. apply pair_edge2_ok; cbn [fst snd]; lia.
Qed.
End GridCenters.
