(* Every netlist the reader accepts is canonical (NetlistRoundTrip.canonical):
   the missing link between the round trip of canonical designs and the full
   statement of C04.

   Ingredients
   - flag flow of Module.__init__ / Module.setup: what an accepted module looks
     like (wf_module), whatever the order of its attributes;
   - create_stog on its own output is the identity (Stog/StogStable.v), lifted
     to the rectangles of a module;
   - the overlap check of hard modules and the smallest distance of the design
     do not depend on the order of the rectangles nor on their roles. *)
From Coq Require Import Permutation.
From FrameModel Require Import Num.QcTac Geometry.Rect Stog.CreateStog Stog.StogFacts Stog.StogStable
  Yaml.Tree Yaml.NetlistRead Yaml.NetlistWrite Yaml.NetlistFacts Yaml.NetlistDerived Yaml.NetlistRoundTrip.
Open Scope Qc_scope.
Open Scope string_scope.

(* ------------------------------------------------------------------ *)
(* A. create_stog on the rectangles of a module is stable               *)
(* ------------------------------------------------------------------ *)
Lemma reset_same r : mr_loc r = NOPOLY -> reset r = r.
Proof. destruct r; cbn. intros ->. reflexivity. Qed.

Lemma map_reset_same l : Forall (fun r => mr_loc r = NOPOLY) l -> map reset l = l.
Proof.
  induction 1 as [|r l Hr _ IH]; [reflexivity|]. cbn [map]. rewrite IH, (reset_same _ Hr). reflexivity.
Qed.

Lemma map_reset_nopoly l : Forall (fun r => mr_loc r = NOPOLY) (map reset l).
Proof. apply Forall_forall. intros x Hx. apply in_map_iff in Hx. destruct Hx as (x0 & <- & _). reflexivity. Qed.

Transparent swap0g.
Lemma swap0_swap0g (l : list Rect) b : swap0 l b = swap0g l b.
Proof. reflexivity. Qed.
Lemma swap0g_zero {A} (l : list A) : swap0g l 0 = l.
Proof. destruct l; reflexivity. Qed.
Opaque swap0g.

Theorem m_create_stog_stable eps aeps rs hs fin orig :
  m_create_stog eps aeps rs = Some (hs, fin, orig) ->
  m_create_stog eps aeps (map reset fin) = Some (hs, fin, fin).
Proof.
  unfold m_create_stog at 1. destruct rs as [|r [|r' rs]]; [discriminate| |].
  { intros H. inversion H; subst. reflexivity. }
  change (map (fun r0 => set_mloc r0 NOPOLY) (r :: r' :: rs)) with (map reset (r :: r' :: rs)).
  set (rs0 := map reset (r :: r' :: rs)).
  assert (Hnp : Forall (fun r => mr_loc r = NOPOLY) rs0) by apply map_reset_nopoly.
  destruct (scan eps aeps (map to_rect rs0) (map to_rect rs0) 0 None) as [[b a]|] eqn:S.
  - pose proof (scan_stable _ _ _ _ _ S) as S'.
    rewrite swap0_swap0g, <- map_swap0g in S'.
    pose proof (swap0g_perm rs0 b) as P.
    destruct (swap0g rs0 b) as [|t rest] eqn:Es; [discriminate|].
    intros H. inversion H; subst hs fin orig; clear H.
    assert (Hnp' : Forall (fun r => mr_loc r = NOPOLY) (t :: rest)).
    { rewrite Forall_forall in *. intros x Hx. apply Hnp. eapply Permutation_in; [exact P|exact Hx]. }
    assert (L : (2 <= List.length (t :: rest))%nat).
    { rewrite (Permutation_length P). unfold rs0. rewrite map_length. cbn. lia. }
    assert (R : map reset (set_mloc t TRUNK ::
                   map (fun r0 => set_mloc r0 (find_location eps aeps (to_rect t) (to_rect r0))) rest)
                = t :: rest).
    { cbn [map]. rewrite map_map. inversion Hnp' as [|? ? Ht Hrest]; subst. f_equal.
      - rewrite reset_set. apply reset_same. exact Ht.
      - rewrite <- (map_reset_same _ Hrest) at 2. apply map_ext. intros x. apply reset_set. }
    rewrite R. destruct rest as [|r1 rest1]; [cbn in L; lia|].
    unfold m_create_stog.
    change (map (fun r0 => set_mloc r0 NOPOLY) (t :: r1 :: rest1)) with (map reset (t :: r1 :: rest1)).
    rewrite (map_reset_same _ Hnp'). rewrite S'. rewrite swap0g_zero.
    rewrite swap0g_zero. reflexivity.
  - intros H. inversion H; subst hs fin orig; clear H.
    rewrite (map_reset_same _ Hnp). unfold m_create_stog. unfold rs0 at 1. cbn [map].
    change (map (fun r0 => set_mloc r0 NOPOLY) rs0) with (map reset rs0).
    rewrite (map_reset_same _ Hnp). rewrite S. reflexivity.
Qed.

(* ------------------------------------------------------------------ *)
(* C. order and roles of the rectangles do not matter                   *)
(* ------------------------------------------------------------------ *)
Lemma overlap_sym aeps a b : overlap aeps a b = overlap aeps b a.
Proof.
  unfold overlap, area_overlap.
  rewrite (Qcmax_comm (xmin b) (xmin a)), (Qcmin_comm (xmax b) (xmax a)),
          (Qcmax_comm (ymin b) (ymin a)), (Qcmin_comm (ymax b) (ymax a)). reflexivity.
Qed.

Lemma overlap_reset aeps r s :
  overlap aeps (to_rect (reset r)) (to_rect (reset s)) = overlap aeps (to_rect r) (to_rect s).
Proof. reflexivity. Qed.

Lemma no_overlap_with_perm aeps r l l' :
  Permutation l l' -> no_overlap_with aeps r l = no_overlap_with aeps r l'.
Proof.
  induction 1; cbn [no_overlap_with]; try congruence.
  rewrite !andb_assoc. f_equal. apply andb_comm.
Qed.

Lemma no_overlaps_perm aeps l l' : Permutation l l' -> no_overlaps aeps l = no_overlaps aeps l'.
Proof.
  induction 1; cbn [no_overlaps no_overlap_with]; try congruence.
  - rewrite IHPermutation, (no_overlap_with_perm _ _ _ _ H). reflexivity.
  - rewrite (overlap_sym aeps (to_rect y) (to_rect x)).
    destruct (overlap aeps (to_rect x) (to_rect y)); cbn [negb andb]; [reflexivity|].
    rewrite !andb_assoc. f_equal. apply andb_comm.
Qed.

Lemma no_overlap_with_reset aeps r l :
  no_overlap_with aeps (reset r) (map reset l) = no_overlap_with aeps r l.
Proof. induction l as [|s l IH]; [reflexivity|]. cbn [map no_overlap_with]. rewrite IH. reflexivity. Qed.

Lemma no_overlaps_reset aeps l : no_overlaps aeps (map reset l) = no_overlaps aeps l.
Proof.
  induction l as [|r l IH]; [reflexivity|]. cbn [map no_overlaps].
  rewrite IH, no_overlap_with_reset. reflexivity.
Qed.

Lemma no_overlaps_reset_perm aeps l l' :
  Permutation (map reset l) (map reset l') -> no_overlaps aeps l = no_overlaps aeps l'.
Proof.
  intros P. rewrite <- (no_overlaps_reset aeps l), <- (no_overlaps_reset aeps l').
  apply no_overlaps_perm. exact P.
Qed.

(* the smallest distance *)
Lemma min_opt_swap a x y : min_opt (min_opt a x) y = min_opt (min_opt a y) x.
Proof.
  destruct a as [z|]; cbn [min_opt]; f_equal.
  - qmlra.
  - apply Qcmin_comm.
Qed.

Lemma fold_min_opt_perm l l' : Permutation l l' ->
  forall acc, fold_left min_opt l acc = fold_left min_opt l' acc.
Proof.
  induction 1; intros acc; cbn [fold_left].
  - reflexivity.
  - apply IHPermutation.
  - rewrite min_opt_swap. reflexivity.
  - rewrite IHPermutation1. apply IHPermutation2.
Qed.

Definition dims (rs : list mrect) : list Qc := flat_map (fun r => [sval (mr_w r); sval (mr_h r)]) rs.

Lemma smallest_rects_dims rs : forall acc, smallest_rects rs acc = fold_left min_opt (dims rs) acc.
Proof.
  unfold smallest_rects. induction rs as [|r rs IH]; intros acc; [reflexivity|].
  cbn [fold_left dims flat_map app]. apply IH.
Qed.

Lemma dims_reset rs : dims (map reset rs) = dims rs.
Proof. unfold dims. induction rs as [|r rs IH]; [reflexivity|]. cbn [map flat_map]. rewrite IH. reflexivity. Qed.

Lemma dims_perm l l' : Permutation l l' -> Permutation (dims l) (dims l').
Proof.
  induction 1; cbn [dims flat_map].
  - constructor.
  - apply Permutation_app_head. exact IHPermutation.
  - apply Permutation_app_swap_app.
  - eapply perm_trans; eauto.
Qed.

Lemma smallest_rects_reset_perm l l' acc :
  Permutation (map reset l) (map reset l') -> smallest_rects l acc = smallest_rects l' acc.
Proof.
  intros P. rewrite !smallest_rects_dims. rewrite <- (dims_reset l), <- (dims_reset l').
  apply fold_min_opt_perm. apply dims_perm. exact P.
Qed.

(* ------------------------------------------------------------------ *)
(* B. flag flow of Module.__init__ and Module.setup                     *)
(* ------------------------------------------------------------------ *)
Definition area_ok (a : list (string * Qc)) : Prop :=
  nodup_str (map fst a) = true /\ Forall (fun p => valid_identifier (fst p) = true /\ 0 < snd p) a.

Lemma read_area_dict_ok d : forall r, read_area_dict d = Ok r ->
  map fst r = map fst d /\ Forall (fun p => valid_identifier (fst p) = true /\ 0 < snd p) r.
Proof.
  induction d as [|[k v] d IH]; intros r H.
  - inversion H. split; [reflexivity|constructor].
  - cbn [read_area_dict] in H. inv_bind H. apply assert_ok in E.
    destruct (as_number v) as [q|]; [|discriminate].
    inv_bind H. apply assert_ok in E0. inv_bind H. inversion H; subst. destruct (IH _ E1) as [A B].
    cbn [map fst]. split; [f_equal; exact A|]. constructor; [|exact B]. cbn [fst snd].
    split; [exact E|qb2p; exact E0].
Qed.

Lemma read_region_area_ok v a : read_region_area v = Ok a -> area_ok a.
Proof.
  unfold read_region_area. destruct (as_number v) as [q|].
  - intros H. inv_bind H. apply assert_ok in E. inversion H; subst. split; [reflexivity|].
    constructor; [|constructor]. cbn [fst snd]. split; [reflexivity|qb2p; exact E].
  - destruct v as [| | | |d|]; try discriminate. intros H. inv_bind H. apply assert_ok in E.
    destruct (read_area_dict_ok _ _ H) as [A B]. split; [|exact B]. rewrite A. exact E.
Qed.

(* what holds of the attributes while the loop of Module.__init__ runs *)
Definition init_inv (all : list (string * pvalue)) (s : mstate) : Prop :=
  ar_ok (s_ar s) /\ area_ok (s_area s) /\
  (s_terminal s = true -> has_key KW_FLIP all = false) /\
  (s_flip s = true -> has_key KW_FLIP all = true).

Lemma init_inv0 all : init_inv all mstate0.
Proof. unfold init_inv, mstate0; cbn. repeat split; try discriminate; constructor. Qed.

Lemma init_step_inv all k p s s' :
  In (k, p) all -> init_inv all s -> init_step all k p s = Ok s' -> init_inv all s'.
Proof.
  intros Hin (Iar & Iarea & It & Ifl) H. destruct s as [c ar te ha fi fl area]. cbn in Iar, Iarea, It, Ifl.
  destruct p as [v|c'|a]; cbn [init_step] in H.
  - destruct (String.eqb k KW_AREA).
    { inv_bind H. inversion H; subst. unfold init_inv; cbn. repeat split; auto.
      apply (read_region_area_ok _ _ E). apply (read_region_area_ok _ _ E). }
    destruct (String.eqb k KW_FIXED).
    { destruct (as_bool v); inversion H; subst. unfold init_inv; cbn. repeat split; auto; apply Iarea. }
    destruct (String.eqb k KW_HARD).
    { inv_bind H. destruct (as_bool v); inversion H; subst. unfold init_inv; cbn. repeat split; auto; apply Iarea. }
    destruct (String.eqb k KW_FLIP) eqn:Ek.
    { destruct (as_bool v); inversion H; subst. unfold init_inv; cbn. repeat split; auto; try apply Iarea.
      intros _. apply String.eqb_eq in Ek. subst k. apply has_key_in. eauto. }
    destruct (String.eqb k KW_TERMINAL); [|discriminate].
    do 3 inv_bind H. apply assert_ok in E1. apply negb_true_iff in E1.
    destruct (as_bool v); inversion H; subst. unfold init_inv; cbn. repeat split; auto; apply Iarea.
  - inversion H; subst. unfold init_inv; cbn. repeat split; auto; apply Iarea.
  - inv_bind H. apply assert_ok in E. inversion H; subst. unfold init_inv; cbn. repeat split; auto; try apply Iarea.
    destruct a as [x y]. cbn [fst snd] in E. rewrite !andb_true_iff in E. destruct E as [[E1 E2] E3].
    qb2p. auto.
Qed.

Lemma init_loop_inv all ps : forall s s',
  incl ps all -> init_inv all s -> init_loop all ps s = Ok s' -> init_inv all s'.
Proof.
  induction ps as [|[k p] ps IH]; intros s s' Hi Hs H.
  - inversion H; subst. exact Hs.
  - cbn [init_loop] in H. inv_bind H. eapply IH; [|eapply init_step_inv; eauto|exact H].
    + intros x Hx. apply Hi. right. exact Hx.
    + apply Hi. left. reflexivity.
Qed.

Lemma module_init_inv ps s : module_init ps = Ok s ->
  init_inv ps s /\ (s_terminal s = true -> s_fixed s = true -> s_center s <> None).
Proof.
  unfold module_init. intros H. do 3 inv_bind H. inversion H; subst. split.
  - eapply init_loop_inv; [apply incl_refl|apply init_inv0|exact E].
  - intros Ht Hf. apply assert_ok in E1. rewrite Ht, Hf in E1. cbn in E1.
    destruct (s_center s); [discriminate|discriminate].
Qed.

(* rectangles *)
Lemma rect_num_nonneg t s : rect_num t = Ok s -> 0 <= sval s.
Proof.
  unfold rect_num. destruct (as_scalar t); [|discriminate]. intros H. inv_bind H.
  apply assert_ok in E. inversion H; subst. qb2p. exact E.
Qed.

Lemma finish_wf f hd five x y w h reg r :
  0 <= sval x -> 0 <= sval y -> valid_identifier reg = true -> (five = false -> reg = KW_GROUND) ->
  finish_rectangle f hd five x y w h reg = Ok r -> rect_wf f hd r.
Proof.
  intros Hx Hy Hv Hg H. unfold finish_rectangle in H. do 3 inv_bind H.
  apply assert_ok in E, E0, E1. inversion H; subst. unfold rect_wf; cbn.
  repeat split; auto; try (qb2p; assumption).
  intros Hfh. rewrite Hfh in E. cbn in E. rewrite orb_false_r in E. apply negb_true_iff in E. auto.
Qed.

Lemma parse_rectangle_wf f hd t r : parse_rectangle f hd t = Ok r -> rect_wf f hd r.
Proof.
  destruct t as [| | |l| |]; try discriminate. cbn [parse_rectangle].
  destruct l as [|x [|y [|w [|h [|e [|e' tl]]]]]]; try discriminate; intros H; do 4 inv_bind H;
    pose proof (rect_num_nonneg _ _ E) as Hx; pose proof (rect_num_nonneg _ _ E0) as Hy.
  - eapply finish_wf in H; [exact H|assumption|assumption|reflexivity|reflexivity].
  - destruct e; try discriminate. inv_bind H. apply assert_ok in E3.
    eapply finish_wf in H; [exact H|assumption|assumption|exact E3|discriminate].
Qed.

Lemma parse_rect_list_wf f hd l : forall rs,
  parse_rect_list f hd l = Ok rs -> Forall (rect_wf f hd) rs.
Proof.
  induction l as [|t l IH]; intros rs H.
  - inversion H. constructor.
  - cbn [parse_rect_list] in H. do 2 inv_bind H. inversion H; subst.
    constructor; [eapply parse_rectangle_wf; eauto|auto].
Qed.

Lemma parse_rectangles_wf f hd v rs : parse_rectangles f hd v = Ok rs -> Forall (rect_wf f hd) rs.
Proof.
  unfold parse_rectangles. destruct v as [| | |l| |]; try discriminate. destruct l as [|first rest]; [discriminate|].
  destruct (is_some (as_number first)); apply parse_rect_list_wf.
Qed.

Lemma setup_wf all name s rs m :
  valid_identifier name = true -> init_inv all s ->
  (s_terminal s = true -> s_fixed s = true -> s_center s <> None) ->
  Forall (rect_wf (s_fixed s) (s_hard s)) rs ->
  setup name s rs = Ok m -> wf_module m.
Proof.
  intros Hn (Iar & Iarea & It & Ifl) Hc Hr H. unfold setup in H.
  destruct s as [c ar te ha fi fl area]. cbn [s_center s_ar s_terminal s_hard s_fixed s_flip s_area] in *.
  do 5 inv_bind H. apply assert_ok in E, E0, E1, E2, E3.
  destruct ha.
  - do 4 inv_bind H. apply assert_ok in E4, E5, E6, E7. inversion H; subst; clear H.
    unfold wf_module; cbn [m_name m_center m_ar m_terminal m_hard m_fixed m_flip m_area m_rects].
    split; [exact Hn|]. split; [exact Hr|]. split; [discriminate|]. intros _.
    split; [reflexivity|]. split; [destruct ar; [discriminate|reflexivity]|].
    split; [intros ->; cbn in E7; destruct rs; [discriminate|discriminate]|].
    split; [|exact Hc].
    intros ->. split; [destruct fi; [discriminate|reflexivity]|].
    destruct te; [|reflexivity]. rewrite (It eq_refl) in Ifl. specialize (Ifl eq_refl). discriminate.
  - inversion H; subst; clear H.
    unfold wf_module; cbn [m_name m_center m_ar m_terminal m_hard m_fixed m_flip m_area m_rects].
    split; [exact Hn|]. split; [exact Hr|]. split; [|discriminate]. intros _.
    split; [destruct fi; [discriminate|reflexivity]|].
    split; [destruct fl; [discriminate|reflexivity]|].
    split; [destruct te; [discriminate|reflexivity]|].
    split; [|exact Iar]. destruct Iarea as [A B]. split; [|split; assumption].
    destruct area; [discriminate|discriminate].
Qed.

Lemma parse_module_wf name t m : parse_module name t = Ok m -> wf_module m.
Proof.
  destruct t as [| | | |info|]; try discriminate. cbn [parse_module]. intros H. do 5 inv_bind H.
  apply assert_ok in E0. destruct (module_init_inv _ _ E2) as [Hi Hc].
  assert (Hr : Forall (rect_wf (s_fixed a2) (s_hard a2)) a3).
  { destruct (lookup KW_RECTANGLES info).
    - eapply parse_rectangles_wf; eauto.
    - inversion E3. constructor. }
  exact (setup_wf _ _ _ _ _ E0 Hi Hc Hr H).
Qed.

Lemma parse_module_list_wf l : forall ms, parse_module_list l = Ok ms -> Forall wf_module ms.
Proof.
  induction l as [|[n i] l IH]; intros ms H.
  - inversion H. constructor.
  - cbn [parse_module_list] in H. do 3 inv_bind H. inversion H; subst.
    constructor; [eapply parse_module_wf; eauto|auto].
Qed.

Lemma parse_edge_len t e : parse_edge t = Ok e -> (2 <= List.length (fst e))%nat.
Proof.
  destruct t as [| | |l| |]; try discriminate. cbn [parse_edge]. intros H. do 3 inv_bind H.
  apply assert_ok in E1. inversion H; subst. cbn [fst]. apply Nat.leb_le. exact E1.
Qed.

Lemma parse_edge_list_len l : forall es,
  parse_edge_list l = Ok es -> Forall (fun e => (2 <= List.length (fst e))%nat) es.
Proof.
  induction l as [|t l IH]; intros es H.
  - inversion H. constructor.
  - cbn [parse_edge_list] in H. do 2 inv_bind H. inversion H; subst.
    constructor; [eapply parse_edge_len; eauto|auto].
Qed.

(* the parsing stage *)
Lemma parse_netlist_wf t ms es : parse_netlist t = Ok (ms, es) ->
  Forall wf_module ms /\ nodup_str (map m_name ms) = true /\
  Forall (fun e => (2 <= List.length (fst e))%nat) es.
Proof.
  destruct t as [| | | |items|]; try discriminate. intros H.
  destruct (parse_netlist_result _ _ _ H) as (_ & Hm & He). split; [|split].
  - destruct (lookup KW_MODULES items) as [v|]; [|subst; constructor].
    destruct v; try discriminate. cbn [parse_modules] in Hm. inv_bind Hm.
    eapply parse_module_list_wf; eauto.
  - destruct (lookup KW_MODULES items) as [v|]; [|subst; reflexivity].
    destruct v; try discriminate. cbn [parse_modules] in Hm. inv_bind Hm. apply assert_ok in E.
    rewrite (parse_module_list_names _ _ Hm). exact E.
  - destruct (lookup KW_NETS items) as [v|]; [|subst; constructor].
    destruct v; try discriminate. cbn [parse_edges] in He. eapply parse_edge_list_len; eauto.
Qed.

Lemma resolve_edges_wf names es : forall nets,
  Forall (fun e => (2 <= List.length (fst e))%nat) es ->
  resolve_edges names es = Ok nets -> Forall (wf_net names) nets.
Proof.
  induction es as [|[mem w] es IH]; intros nets Hl H.
  - inversion H. constructor.
  - cbn [resolve_edges] in H. do 3 inv_bind H. apply assert_ok in E, E0. inversion H; subst.
    inversion Hl; subst. constructor; [|auto].
    unfold wf_net; cbn [n_members n_weight]. cbn [fst] in H2. repeat split; auto. qb2p. exact E0.
Qed.

(* ------------------------------------------------------------------ *)
(* D. _create_rectangles on the reloaded modules                        *)
(* ------------------------------------------------------------------ *)
Lemma rect_wf_reset_perm fx hd l l' :
  Permutation (map reset l) (map reset l') -> Forall (rect_wf fx hd) l' -> Forall (rect_wf fx hd) l.
Proof.
  intros P H. rewrite Forall_forall in *. intros r Hr.
  assert (Hin : In (reset r) (map reset l')).
  { eapply Permutation_in; [exact P|]. apply in_map. exact Hr. }
  apply in_map_iff in Hin. destruct Hin as (r' & E & Hr').
  specialize (H _ Hr'). destruct r, r'; cbn in *. inversion E; subst. exact H.
Qed.

Lemma mcs_nonempty eps aeps rs hs fin orig :
  m_create_stog eps aeps rs = Some (hs, fin, orig) -> fin <> [].
Proof.
  intros H E. subst. destruct (mcs_perm _ _ _ _ _ _ H) as [P _]. cbn in P.
  apply Permutation_nil in P. destruct rs; [discriminate|discriminate].
Qed.

(* create_stog keeps a module well formed *)
Lemma cr_stog_wf eps aeps m p : wf_module m -> cr_stog eps aeps m = Ok p -> wf_module (fst p).
Proof.
  intros W H. unfold cr_stog in H. destruct (m_rects m) as [|r0 rs0] eqn:Er.
  - inversion H; subst. exact W.
  - destruct (m_create_stog eps aeps (r0 :: rs0)) as [[[hs fin] orig]|] eqn:Em; [|discriminate].
    inversion H; subst; clear H. destruct W as (Hn & Hr & Hs & Hh). rewrite Er in *.
    destruct (mcs_perm _ _ _ _ _ _ Em) as [P _].
    unfold wf_module; cbn [fst with_center with_rects m_name m_center m_ar m_terminal m_hard m_fixed m_flip m_area m_rects].
    split; [exact Hn|]. split; [eapply rect_wf_reset_perm; eauto|]. split; [exact Hs|].
    intros Hhd. destruct (Hh Hhd) as (A & B & C & D & _). repeat split; auto.
    + rewrite A. rewrite (mcs_sum_areas _ _ _ _ _ _ Em). reflexivity.
    + intros _. eapply mcs_nonempty; eauto.
    + apply D; assumption.
    + apply D; assumption.
    + discriminate.
Qed.

Lemma unload_no_rects m : wf_module m -> m_rects m = [] -> unload m = m.
Proof.
  intros (_ & _ & _ & Hh) Hr. unfold unload. rewrite Hr. cbn [map].
  assert (E : m_hard m && negb (m_terminal m) = false).
  { destruct (m_hard m) eqn:Ehd; [|reflexivity]. destruct (m_terminal m) eqn:Et; [reflexivity|].
    destruct (Hh eq_refl) as (_ & _ & C & _). exfalso. apply (C eq_refl). exact Hr. }
  rewrite E. destruct m; cbn in *. subst. reflexivity.
Qed.

(* the second run of create_stog, on the module as it is rebuilt from its
   written attributes, reproduces the module *)
Lemma cr_stog_unload eps aeps m p :
  wf_module m -> cr_stog eps aeps m = Ok p ->
  cr_stog eps aeps (unload (fst p)) = Ok (fst p, m_rects (fst p)).
Proof.
  intros W H. unfold cr_stog in H. destruct (m_rects m) as [|r0 rs0] eqn:Er.
  - inversion H; subst; clear H. cbn [fst]. rewrite (unload_no_rects _ W Er).
    unfold cr_stog. rewrite Er. reflexivity.
  - destruct (m_create_stog eps aeps (r0 :: rs0)) as [[[hs fin] orig]|] eqn:Em; [|discriminate].
    inversion H; subst; clear H. cbn [fst].
    pose proof (m_create_stog_stable _ _ _ _ _ _ Em) as St.
    pose proof (mcs_nonempty _ _ _ _ _ _ Em) as Hne.
    unfold cr_stog.
    change (m_rects (unload (with_center (with_rects m fin) (centroid fin)))) with (map reset fin).
    rewrite St. destruct fin as [|f0 fin0]; [congruence|]. cbn [map].
    destruct m; reflexivity.
Qed.

Lemma cr_stogs_wf eps aeps ms : forall p,
  Forall wf_module ms -> cr_stogs eps aeps ms = Ok p -> Forall wf_module (fst p).
Proof.
  induction ms as [|m ms IH]; intros p Hf H.
  - inversion H; subst. constructor.
  - cbn [cr_stogs] in H. do 2 inv_bind H. inversion H; subst; clear H. inversion Hf; subst.
    cbn [fst]. constructor; [eapply cr_stog_wf; eauto|eauto].
Qed.

Lemma cr_stogs_unload eps aeps ms : forall p,
  Forall wf_module ms -> cr_stogs eps aeps ms = Ok p ->
  cr_stogs eps aeps (map unload (fst p)) = Ok (fst p, flat_map m_rects (fst p)).
Proof.
  induction ms as [|m ms IH]; intros p Hf H.
  - inversion H; subst. reflexivity.
  - cbn [cr_stogs] in H. do 2 inv_bind H. inversion H; subst; clear H. inversion Hf; subst.
    cbn [fst map cr_stogs flat_map]. rewrite (cr_stog_unload _ _ _ _ H1 E). cbn [bind].
    rewrite (IH _ H2 E0). reflexivity.
Qed.

(* what the checks of _create_rectangles look at: kind, areas, and the
   rectangles up to order and roles *)
Definition shape (m m' : module) : Prop :=
  m_hard m' = m_hard m /\ m_terminal m' = m_terminal m /\ m_area m' = m_area m /\
  Permutation (map reset (m_rects m')) (map reset (m_rects m)).

Lemma cr_stog_shape eps aeps m p : cr_stog eps aeps m = Ok p -> shape m (unload (fst p)).
Proof.
  intros H. unfold cr_stog in H. destruct (m_rects m) as [|r0 rs0] eqn:Er.
  - inversion H; subst; clear H. unfold shape, unload; cbn. rewrite Er. repeat split. constructor.
  - destruct (m_create_stog eps aeps (r0 :: rs0)) as [[[hs fin] orig]|] eqn:Em; [|discriminate].
    inversion H; subst; clear H. destruct (mcs_perm _ _ _ _ _ _ Em) as [P _].
    unfold shape, unload; cbn. repeat split. rewrite map_map.
    rewrite (map_ext (fun x => reset (reset x)) reset) by (intros; apply reset_idem).
    rewrite Er. exact P.
Qed.

Lemma cr_stogs_shape eps aeps ms : forall p,
  cr_stogs eps aeps ms = Ok p -> Forall2 shape ms (map unload (fst p)).
Proof.
  induction ms as [|m ms IH]; intros p H.
  - inversion H; subst. constructor.
  - cbn [cr_stogs] in H. do 2 inv_bind H. inversion H; subst; clear H.
    cbn [fst map]. constructor; [eapply cr_stog_shape; eauto|eauto].
Qed.

Lemma cr_overlaps_shape aeps ms ms' :
  Forall2 shape ms ms' -> cr_overlaps aeps ms' = cr_overlaps aeps ms.
Proof.
  induction 1 as [|m m' ms ms' (Hh & Ht & _ & P) _ IH]; [reflexivity|].
  cbn [cr_overlaps]. rewrite IH. unfold cr_overlap. rewrite Hh, Ht.
  rewrite (no_overlaps_reset_perm aeps _ _ P). reflexivity.
Qed.

Section Image.
Variable sqrt_o : Qc -> Qc.

Lemma smallest_areas_shape ms ms' : Forall2 shape ms ms' ->
  forall acc, smallest_areas sqrt_o ms' acc = smallest_areas sqrt_o ms acc.
Proof.
  unfold smallest_areas.
  induction 1 as [|m m' ms ms' (_ & _ & Ha & _) _ IH]; intros acc; [reflexivity|].
  cbn [fold_left]. unfold module_total_area. rewrite Ha. apply IH.
Qed.

Lemma shape_rects ms ms' : Forall2 shape ms ms' ->
  Permutation (map reset (flat_map m_rects ms')) (map reset (flat_map m_rects ms)).
Proof.
  induction 1 as [|m m' ms ms' (_ & _ & _ & P) _ IH]; [constructor|].
  cbn [flat_map]. rewrite !map_app. apply Permutation_app; assumption.
Qed.

Lemma smallest_distance_shape ms ms' :
  Forall2 shape ms ms' -> smallest_distance sqrt_o ms' = smallest_distance sqrt_o ms.
Proof.
  intros H. unfold smallest_distance. rewrite (smallest_areas_shape _ _ H).
  rewrite (smallest_rects_reset_perm _ _ None (shape_rects _ _ H)). reflexivity.
Qed.

Lemma epsilon_after_shape e ms ms' :
  Forall2 shape ms ms' -> epsilon_after sqrt_o e ms' = epsilon_after sqrt_o e ms.
Proof.
  intros H. unfold epsilon_after. destruct e; [reflexivity|].
  rewrite (smallest_distance_shape _ _ H). reflexivity.
Qed.

(* create_square does nothing on the modules the reader builds *)
Lemma cr_square_id m :
  (m_hard m = true -> m_terminal m = false -> m_rects m <> []) -> cr_square sqrt_o m = Ok m.
Proof.
  intros N. unfold cr_square.
  destruct (m_hard m) eqn:Eh; [|destruct (m_terminal m); reflexivity].
  destruct (m_terminal m) eqn:Et; [reflexivity|].
  destruct (m_rects m) eqn:Er; [exfalso; apply (N eq_refl eq_refl); reflexivity|].
  cbn. rewrite !orb_true_r. reflexivity.
Qed.

Lemma cr_squares_id ms :
  Forall (fun m => m_hard m = true -> m_terminal m = false -> m_rects m <> []) ms ->
  cr_squares sqrt_o ms = Ok ms.
Proof.
  induction 1 as [|m ms Hm _ IH]; [reflexivity|].
  cbn [cr_squares]. rewrite (cr_square_id _ Hm), IH. reflexivity.
Qed.

Lemma wf_has_rects m : wf_module m -> m_hard m = true -> m_terminal m = false -> m_rects m <> [].
Proof. intros (_ & _ & _ & Hh) E1 E2. destruct (Hh E1) as (_ & _ & C & _). auto. Qed.

Lemma wf_unload_has_rects m :
  wf_module m -> m_hard (unload m) = true -> m_terminal (unload m) = false -> m_rects (unload m) <> [].
Proof.
  intros W E1 E2. cbn in *. pose proof (wf_has_rects _ W E1 E2) as N.
  destruct (m_rects m); [congruence|discriminate].
Qed.

(* the heart of the image theorem *)
Lemma create_rectangles_image e e' ms0 msF rects ef :
  Forall wf_module ms0 ->
  create_rectangles sqrt_o e ms0 = Ok (msF, rects, ef) ->
  (e' = e \/ e' = ef) ->
  Forall wf_module msF /\
  create_rectangles sqrt_o e' (map unload msF) = Ok (msF, flat_map m_rects msF, ef).
Proof.
  intros W H He. unfold create_rectangles in H.
  rewrite cr_squares_id in H by (eapply Forall_impl; [|exact W]; intros m; apply wf_has_rects).
  cbn [bind] in H. do 3 inv_bind H. inversion H; subst msF rects ef; clear H.
  pose proof (cr_stogs_wf _ _ _ _ W E0) as WF. split; [exact WF|].
  pose proof (cr_stogs_shape _ _ _ _ E0) as Sh.
  assert (Eeps : epsilon_after sqrt_o e' (map unload (fst a0)) = epsilon_after sqrt_o e ms0).
  { destruct He as [->| ->]; [apply epsilon_after_shape; exact Sh|].
    destruct (epsilon_after sqrt_o e ms0) as [x|] eqn:Ee; [reflexivity|].
    assert (e = None) by (destruct e; [discriminate|reflexivity]). subst e.
    rewrite (epsilon_after_shape _ _ _ Sh). exact Ee. }
  unfold create_rectangles.
  rewrite cr_squares_id by (eapply Forall_map; eapply Forall_impl; [|exact WF]; intros m; apply wf_unload_has_rects).
  cbn [bind]. rewrite Eeps. rewrite (cr_overlaps_shape _ _ _ Sh), E. cbn [bind].
  rewrite (cr_stogs_unload _ _ _ _ W E0). cbn [bind fst snd]. rewrite E1. reflexivity.
Qed.

(* Every netlist the reader accepts is canonical; also under the epsilon the
   load leaves behind (a process that loads, writes and reloads without
   resetting Rectangle's class-level epsilon) *)
Theorem image_canonical_gen e t n :
  read_netlist sqrt_o e t = Ok n ->
  forall e', e' = e \/ e' = nl_eps n -> canonical sqrt_o e' n.
Proof.
  unfold read_netlist. intros H e' He'. inv_bind H. destruct a as [ms0 es0]. cbn [fst snd] in H.
  inv_bind H. destruct a as [[msF rects] ef]. inv_bind H. inversion H; subst n; clear H.
  cbn [nl_eps] in He'.
  destruct (parse_netlist_wf _ _ _ E) as (W & Hnd & Hl).
  destruct (create_rectangles_image _ _ _ _ _ _ W E0 He') as [WF Hcr].
  unfold canonical; cbn [nl_modules nl_nets nl_eps]. split; [exact WF|]. split; [|split].
  - rewrite (create_rectangles_names _ _ _ _ _ _ E0). exact Hnd.
  - eapply resolve_edges_wf; eauto.
  - eexists. exact Hcr.
Qed.

Theorem image_canonical : image_canonical_statement sqrt_o.
Proof. intros e t n H. eapply image_canonical_gen; eauto. Qed.

(* ---------------- the full round trip ---------------- *)
Theorem rt_read_write : rt_read_write_statement sqrt_o.
Proof. apply rt_read_write_from_image. exact image_canonical. Qed.

Theorem rt_idempotent : rt_idempotent_statement sqrt_o.
Proof. intros e t n H. apply rt_idempotent_canonical. eapply image_canonical; eauto. Qed.

(* the same when the second load runs under the epsilon left by the first *)
Theorem rt_read_write_retained e t n :
  read_netlist sqrt_o e t = Ok n ->
  exists n', read_netlist sqrt_o (nl_eps n) (write_netlist n) = Ok n' /\
             nl_modules n' = nl_modules n /\ nl_nets n' = nl_nets n /\ nl_eps n' = nl_eps n.
Proof. intros H. apply rt_canonical. eapply image_canonical_gen; eauto. Qed.

(* every document the reader accepts is accepted again after being written *)
Theorem accept_rewritten e t n :
  read_netlist sqrt_o e t = Ok n -> exists n', read_netlist sqrt_o e (write_netlist n) = Ok n'.
Proof. intros H. eapply accept_well_formed. eapply image_canonical; eauto. Qed.

End Image.
