(* The tie in create_stog: a module of two congruent rectangles that share a whole side.  Both can
   be the trunk and their areas are equal; the code keeps the first one it meets (the loop stops at
   `trunk.area <= rectangles[best].area`), so the rectangle listed first stays first through every
   write and read.  The round-trip theorems (solution_netlist_rt, legal_netlist_rt) hold for every
   loaded netlist; this file shows that such a module is among them. *)
From FrameModel Require Import Num.QcTac Geometry.Rect Yaml.Tree Yaml.NetlistRead Yaml.NetlistWrite Yaml.Netgen
  Yaml.Producers Yaml.ProducersFacts Yaml.ProducersRT Yaml.ProducersFloat.
Open Scope Qc_scope.
Open Scope string_scope.

Definition twin_doc : ytree :=
  netlist_doc [("TW", YMap [(KW_HARD, YBool true);
                            (KW_RECTANGLES, YList [YList [num 503; num 3; num 2; num 2];
                                                   YList [num 501; num 3; num 2; num 2]])])] [].

Definition rect_order (n : netlist) : list (list (Qc * loc)) :=
  map (fun m => map (fun r => (sval (mr_x r), mr_loc r)) (m_rects m)) (nl_modules n).

Lemma twin_example sqrt_o :
  exists n n' t n'',
    read_netlist sqrt_o eps_ref twin_doc = Ok n /\ buildable n /\
    rect_order n = [[(qc 503 1, TRUNK); (qc 501 1, WEST)]] /\
    read_netlist sqrt_o eps_ref (solution_to_netlist n []) = Ok n' /\ rect_order n' = rect_order n /\
    legal_netlist n = Some t /\ read_netlist sqrt_o eps_ref t = Ok n'' /\ rect_order n'' = rect_order n.
Proof.
  eexists. eexists. eexists. eexists.
  split; [vm_compute; reflexivity|]. split; [split; [discriminate|repeat constructor; discriminate]|].
  split; [vm_compute; reflexivity|]. split; [vm_compute; reflexivity|]. split; [vm_compute; reflexivity|].
  split; [vm_compute; reflexivity|]. split; [vm_compute; reflexivity|]. vm_compute; reflexivity.
Qed.
