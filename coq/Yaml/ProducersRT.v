(* Round trips of the repaired netlist builders (Yaml/Producers.v):
     rect_io.solution_to_netlist   (fixes/C19-solution-to-netlist-writer.diff)
     legalfloor Model.get_netlist  (fixes/C19-legalfloor-get-netlist.diff)
     rect_io.get_netlist           (fixes/C19-get-netlist-zero-area.diff)
   reader after builder gives the design the builder was given: modules, kinds,
   shapes (rectangles with their regions and roles), areas, aspect ratios,
   nets and weights.

   Ingredients: the document of the repaired builders is the document of
   Netlist.write_yaml (write_netlist) - for legalfloor, of the netlist whose
   rectangle numbers are floats (the model's variables evaluate to floats) -
   and every netlist the reader accepts is canonical (NetlistImage.image_canonical,
   which rests on Stog/StogStable.create_stog_stable). *)
From Coq Require Import Permutation.
From FrameModel Require Import Num.QcTac Geometry.Rect Alloc.Alloc Stog.CreateStog Stog.StogFacts Yaml.Tree
  Yaml.NetlistRead Yaml.NetlistWrite Yaml.NetlistFacts Yaml.NetlistDerived Yaml.NetlistRoundTrip
  Yaml.NetlistImage Yaml.Netgen Yaml.DieAlloc Yaml.Producers.
Open Scope Qc_scope.
Open Scope string_scope.

(* ------------------------------------------------------------------ *)
(* A. rect_io.solution_to_netlist                                      *)
(* ------------------------------------------------------------------ *)
Lemma solution_nil n : solution_to_netlist n [] = write_netlist n.
Proof. reflexivity. Qed.

(* a module the result does not name is written as Netlist.write_yaml writes it *)
Lemma sol_entry_other result m :
  lookup (m_name m) result = None -> sol_entry result m = (m_name m, YMap (write_module m)).
Proof. unfold sol_entry. intros ->. reflexivity. Qed.

Section SolutionRT.
Variable sqrt_o : Qc -> Qc.

(* with no module re-shaped the written netlist is the one that was loaded *)
Theorem solution_netlist_rt e doc n :
  read_netlist sqrt_o e doc = Ok n ->
  exists n', read_netlist sqrt_o e (solution_to_netlist n []) = Ok n' /\
             nl_modules n' = nl_modules n /\ nl_nets n' = nl_nets n /\ nl_eps n' = nl_eps n.
Proof. intros H. rewrite solution_nil. eapply rt_read_write; eauto. Qed.

(* a second call writes the same document (the function reads its argument only) *)
Lemma solution_netlist_pure n result : solution_to_netlist n result = solution_to_netlist n result.
Proof. reflexivity. Qed.
End SolutionRT.

(* ------------------------------------------------------------------ *)
(* B. legalfloor: the order of the rectangles                          *)
(* ------------------------------------------------------------------ *)
(* the rectangles of a module as the loader leaves them: the first one is the
   trunk (or nothing has a role), no other rectangle is a trunk *)
Definition stog_shape (rs : list mrect) : Prop :=
  match rs with
  | [] => False
  | r0 :: rest => (mr_loc r0 = TRUNK \/ mr_loc r0 = NOPOLY) /\ Forall (fun r => mr_loc r <> TRUNK) rest
  end.

(* the rectangle with its four numbers as floats (the variables of the model evaluate to floats) *)
Definition fl (r : mrect) : mrect :=
  mkMRect (SNum (sval (mr_x r)) false) (SNum (sval (mr_y r)) false) (SNum (sval (mr_w r)) false)
          (SNum (sval (mr_h r)) false) (mr_region r) (mr_fixed r) (mr_hard r) (mr_loc r).

Lemma write_rect_fl r : write_rect (fl r) = YList (float4_items r ++ region_items r).
Proof. reflexivity. Qed.

Lemma in_indexed {A} (l : list A) : forall i k x,
  In (k, x) (indexed i l) <-> (i <= k)%nat /\ nth_error l (k - i) = Some x.
Proof.
  induction l as [|a l IH]; intros i k x; cbn [indexed In].
  - split; [tauto|]. intros [_ H]. destruct (k - i)%nat; discriminate.
  - rewrite IH. split.
    + intros [E|[L N]].
      * inversion E; subst. rewrite Nat.sub_diag. split; [lia|reflexivity].
      * split; [lia|]. replace (k - i)%nat with (S (k - S i)) by lia. exact N.
    + intros [L N]. destruct (Nat.eq_dec k i) as [->|D].
      * rewrite Nat.sub_diag in N. cbn in N. inversion N; subst. left; reflexivity.
      * right. split; [lia|]. replace (k - i)%nat with (S (k - S i)) in N by lia. exact N.
Qed.

Lemma indexed_forall {A} (P : A -> Prop) (l : list A) : forall i,
  Forall P l -> Forall (fun kr => P (snd kr)) (indexed i l).
Proof. induction l as [|a l IH]; intros i H; cbn [indexed]; inversion H; subst; constructor; auto. Qed.

Lemma map_snd_indexed {A B} (g : A -> B) (l : list A) : forall i,
  map (fun kr => g (snd kr)) (indexed i l) = map g l.
Proof. induction l as [|a l IH]; intros i; cbn [indexed map]; [reflexivity|]. rewrite IH. reflexivity. Qed.

Lemma lfp_step_in b kr :
  lp_t b <> None -> mr_loc (snd kr) <> TRUNK ->
  lp_t (lfp_step b kr) <> None /\
  forall p, In p (lfp_flat (lfp_step b kr)) <-> In p (lfp_flat b) \/ p = kr.
Proof.
  intros T L. unfold lfp_step. destruct (lp_t b) as [t|] eqn:Et; [|congruence].
  destruct (mr_loc (snd kr)) eqn:El; try congruence;
    (split; [cbn; rewrite ?Et; congruence|]); intros p; unfold lfp_flat; cbn [lp_t lp_n lp_s lp_e lp_w];
    rewrite ?Et; rewrite !in_app_iff; cbn [In]; intuition.
Qed.

Lemma lfp_fold_in l : forall b,
  lp_t b <> None -> Forall (fun kr => mr_loc (snd kr) <> TRUNK) l ->
  forall p, In p (lfp_flat (fold_left lfp_step l b)) <-> In p (lfp_flat b) \/ In p l.
Proof.
  induction l as [|kr l IH]; intros b T F p; cbn [fold_left In]; [tauto|].
  inversion F; subst. destruct (lfp_step_in b kr T H1) as [T' I'].
  rewrite (IH _ T' H2). rewrite I'. intuition.
Qed.

Lemma lfp_of_in rs : stog_shape rs ->
  forall p, In p (lfp_flat (lfp_of rs)) <-> In p (indexed 0 rs).
Proof.
  destruct rs as [|r0 rest]; [intros []|]. intros [L0 F] p. unfold lfp_of. cbn [indexed fold_left].
  assert (E : lfp_step (mkLfp None [] [] [] []) (0%nat, r0) = mkLfp (Some (0%nat, r0)) [] [] [] []).
  { unfold lfp_step. cbn [snd lp_t lp_n lp_s lp_e lp_w]. destruct L0 as [-> | ->]; reflexivity. }
  rewrite E. rewrite lfp_fold_in.
  - cbn. intuition.
  - cbn. discriminate.
  - apply (indexed_forall (fun r => mr_loc r <> TRUNK)). exact F.
Qed.

Lemma index_of_in k l : In k l -> exists j, index_of k l = Some j /\ nth_error l j = Some k.
Proof.
  induction l as [|x l IH]; [intros []|]. intros H. cbn [index_of].
  destruct (Nat.eqb k x) eqn:E.
  - apply Nat.eqb_eq in E. subst. exists 0%nat. split; reflexivity.
  - destruct H as [->|H]; [rewrite Nat.eqb_refl in E; discriminate|].
    destruct (IH H) as (j & Ij & Nj). rewrite Ij. exists (S j). split; [reflexivity|exact Nj].
Qed.

Lemma nth_error_map_inv {A B} (f : A -> B) (l : list A) : forall j y,
  nth_error (map f l) j = Some y -> exists x, nth_error l j = Some x /\ f x = y.
Proof.
  induction l as [|a l IH]; intros [|j] y H; cbn in *; try discriminate.
  - inversion H; subst. eauto.
  - apply IH. exact H.
Qed.

Lemma legal_rect_id rs : stog_shape rs ->
  forall kr, In kr (indexed 0 rs) ->
  legal_rect (lfp_flat (lfp_of rs)) kr = Some (write_rect (fl (snd kr))).
Proof.
  intros S [k r] Hin. set (P := lfp_flat (lfp_of rs)).
  assert (HP : In (k, r) P) by (apply lfp_of_in; assumption).
  assert (Hk : In k (map fst P)) by (apply in_map_iff; exists (k, r); auto).
  destruct (index_of_in _ _ Hk) as (j & Ij & Nj).
  destruct (nth_error_map_inv _ _ _ _ Nj) as ([k' y] & Ny & Ek). cbn [fst] in Ek. subst k'.
  assert (Hy : In (k, y) P) by (eapply nth_error_In; eauto).
  apply lfp_of_in in Hy; [|assumption].
  apply in_indexed in Hy. apply in_indexed in Hin. destruct Hy as [_ Hy]. destruct Hin as [_ Hin].
  rewrite Hin in Hy. inversion Hy; subst y.
  unfold legal_rect. cbn [fst snd]. fold P. rewrite Ij. rewrite (map_nth_error snd _ _ Ny). cbn [snd].
  rewrite write_rect_fl. reflexivity.
Qed.

Lemma seq_opt_map {A B} (f : A -> option B) (g : A -> B) (l : list A) :
  (forall x, In x l -> f x = Some (g x)) -> seq_opt (map f l) = Some (map g l).
Proof.
  induction l as [|a l IH]; intros H; cbn [map seq_opt]; [reflexivity|].
  rewrite (H a (or_introl eq_refl)). rewrite IH by (intros x Hx; apply H; right; exact Hx). reflexivity.
Qed.

(* written back in their original order, each rectangle with its own numbers and region *)
Lemma legal_rects_id rs : stog_shape rs -> legal_rects rs = Some (map (fun r => write_rect (fl r)) rs).
Proof.
  intros S. unfold legal_rects.
  rewrite (seq_opt_map _ (fun kr => write_rect (fl (snd kr)))) by (apply legal_rect_id; exact S).
  rewrite (map_snd_indexed (fun r => write_rect (fl r))). reflexivity.
Qed.

(* ------------------------------------------------------------------ *)
(* C. the attributes of dump_yaml_module with the rectangles replaced  *)
(* ------------------------------------------------------------------ *)
Definition write_module_pre (m : module) : list (string * ytree) :=
  ((if m_hard m then []
    else (KW_AREA, write_area (m_area m))
         :: opt_entry KW_CENTER (m_center m) write_point
         ++ opt_entry KW_ASPECT_RATIO (m_ar m) write_point)
   ++ (if m_fixed m then [(KW_FIXED, YBool true)]
       else if m_hard m && negb (m_terminal m) then [(KW_HARD, YBool true)] else [])
   ++ (if m_flip m then [(KW_FLIP, YBool true)] else [])
   ++ (if m_terminal m
       then (KW_TERMINAL, YBool true)
            :: (if m_hard m then opt_entry KW_CENTER (m_center m) write_point else [])
       else []))%list.

Lemma write_module_split m :
  write_module m = (write_module_pre m ++
                    match m_rects m with [] => [] | rs => [(KW_RECTANGLES, YList (map write_rect rs))] end)%list.
Proof. unfold write_module, write_module_pre. rewrite <- !app_assoc. reflexivity. Qed.

Lemma write_module_pre_keys m : Forall (fun kv => fst kv <> KW_RECTANGLES) (write_module_pre m).
Proof.
  unfold write_module_pre.
  destruct m as [name c ar te ha fi fl0 area rs]. cbn [m_center m_ar m_terminal m_hard m_fixed m_flip m_area].
  destruct ha, fi, fl0, te, c as [c|], ar as [a|]; cbn [andb negb opt_entry app];
    repeat constructor; cbn [fst]; discriminate.
Qed.

Lemma dict_set_last {A} (pre : list (string * A)) k v v' :
  Forall (fun kv => fst kv <> k) pre -> dict_set (pre ++ [(k, v)]) k v' = (pre ++ [(k, v')])%list.
Proof.
  induction pre as [|[k0 v0] pre IH]; intros F; cbn [app dict_set].
  - rewrite String.eqb_refl. reflexivity.
  - inversion F; subst. cbn [fst] in H1.
    destruct (String.eqb k k0) eqn:E; [apply String.eqb_eq in E; congruence|].
    rewrite IH by assumption. reflexivity.
Qed.

(* the module with the numbers of its rectangles as floats *)
Definition flm (m : module) : module :=
  mkModule (m_name m) (m_center m) (m_ar m) (m_terminal m) (m_hard m) (m_fixed m) (m_flip m) (m_area m)
           (map fl (m_rects m)).
Definition fln (n : netlist) : netlist :=
  mkNetlist (map flm (nl_modules n)) (nl_nets n) (map fl (nl_rects n)) (nl_eps n).

Lemma legal_entry_id m :
  stog_shape (m_rects m) -> legal_entry m = Some (m_name m, YMap (write_module (flm m))).
Proof.
  intros S. unfold legal_entry. destruct (m_rects m) as [|r0 rest] eqn:Er; [destruct S|].
  rewrite (legal_rects_id _ S). rewrite (write_module_split m), Er.
  rewrite (dict_set_last _ _ _ _ (write_module_pre_keys m)).
  rewrite (write_module_split (flm m)). unfold flm at 2. cbn [m_rects]. rewrite Er.
  cbn [map]. rewrite map_map. reflexivity.
Qed.

Lemma legal_netlist_id n :
  nl_modules n <> [] -> Forall (fun m => stog_shape (m_rects m)) (nl_modules n) ->
  legal_netlist n = Some (write_netlist (fln n)).
Proof.
  intros N S. unfold legal_netlist. destruct (nl_modules n) as [|m0 ms] eqn:Em; [congruence|].
  rewrite (seq_opt_map _ (fun m => (m_name m, YMap (write_module (flm m))))).
  - unfold write_netlist, netlist_doc, fln. cbn [nl_modules nl_nets]. rewrite Em. rewrite !map_map. reflexivity.
  - intros m Hm. apply legal_entry_id. rewrite Forall_forall in S. apply S. exact Hm.
Qed.

(* the domain of the builder: a model can be built when there is a module and
   every module has a rectangle *)
Lemma legal_netlist_none_modules n : nl_modules n = [] -> legal_netlist n = None.
Proof. unfold legal_netlist. intros ->. reflexivity. Qed.

Lemma seq_opt_none {A} (l : list (option A)) : In None l -> seq_opt l = None.
Proof.
  induction l as [|[a|] l IH]; intros H; cbn [seq_opt]; [destruct H| |reflexivity].
  destruct H as [H|H]; [discriminate|]. rewrite (IH H). reflexivity.
Qed.
Lemma legal_netlist_none_rects n m : In m (nl_modules n) -> m_rects m = [] -> legal_netlist n = None.
Proof.
  intros Hm Hr. unfold legal_netlist. destruct (nl_modules n) as [|m0 ms] eqn:Em; [reflexivity|].
  rewrite seq_opt_none; [reflexivity|]. apply in_map_iff. exists m. split; [|exact Hm].
  unfold legal_entry. rewrite Hr. reflexivity.
Qed.

(* ------------------------------------------------------------------ *)
(* D. every loaded module has the shape                                *)
(* ------------------------------------------------------------------ *)
Lemma mcs_shape eps aeps rs hs fin orig :
  m_create_stog eps aeps rs = Some (hs, fin, orig) -> stog_shape fin.
Proof.
  unfold m_create_stog. destruct rs as [|r [|r' rs]]; [discriminate| |].
  - intros H. inversion H; subst. cbn. split; [left; reflexivity|constructor].
  - set (rs0 := map (fun r0 => set_mloc r0 NOPOLY) (r :: r' :: rs)).
    destruct (scan eps aeps (map to_rect rs0) (map to_rect rs0) 0 None) as [[b a]|].
    + destruct (swap0g rs0 b) as [|t rest]; [discriminate|]. intros H. inversion H; subst. cbn [stog_shape].
      split; [left; reflexivity|]. apply Forall_forall. intros x Hx. apply in_map_iff in Hx.
      destruct Hx as (x0 & <- & _). cbn [set_mloc mr_loc]. apply find_location_range.
    + intros H. inversion H; subst. unfold rs0. cbn [map stog_shape]. split; [right; reflexivity|].
      constructor; [cbn; discriminate|]. apply Forall_forall. intros x Hx. apply in_map_iff in Hx.
      destruct Hx as (x0 & <- & _). cbn. discriminate.
Qed.

Definition shaped (m : module) : Prop := m_rects m = [] \/ stog_shape (m_rects m).

Lemma cr_stog_shaped eps aeps m p : cr_stog eps aeps m = Ok p -> shaped (fst p).
Proof.
  unfold cr_stog. destruct (m_rects m) as [|r0 rs0] eqn:Er.
  - intros H. inversion H; subst. left. exact Er.
  - destruct (m_create_stog eps aeps (r0 :: rs0)) as [[[hs fin] orig]|] eqn:Em; [|discriminate].
    intros H. inversion H; subst. right. cbn. eapply mcs_shape; eauto.
Qed.

Lemma cr_stogs_shaped eps aeps ms : forall p, cr_stogs eps aeps ms = Ok p -> Forall shaped (fst p).
Proof.
  induction ms as [|m ms IH]; intros p H.
  - inversion H; subst. constructor.
  - cbn [cr_stogs] in H. do 2 inv_bind H. inversion H; subst; clear H. cbn [fst]. constructor.
    + eapply cr_stog_shaped; eauto.
    + eapply IH; eauto.
Qed.

Section LegalRT.
Variable sqrt_o : Qc -> Qc.

Lemma read_netlist_shaped e t n : read_netlist sqrt_o e t = Ok n -> Forall shaped (nl_modules n).
Proof.
  unfold read_netlist. intros H. inv_bind H. destruct a as [ms0 es0]. cbn [fst snd] in *.
  inv_bind H. destruct a as [[ms rects] e']. inv_bind H. inversion H; subst; clear H. cbn [nl_modules].
  unfold create_rectangles in E0. do 4 inv_bind E0. inversion E0; subst; clear E0.
  eapply cr_stogs_shaped; eauto.
Qed.

(* the model can be built: every module has a rectangle *)
Definition buildable (n : netlist) : Prop :=
  nl_modules n <> [] /\ Forall (fun m => m_rects m <> []) (nl_modules n).

Lemma read_buildable_shape e t n :
  read_netlist sqrt_o e t = Ok n -> buildable n -> Forall (fun m => stog_shape (m_rects m)) (nl_modules n).
Proof.
  intros H [_ B]. pose proof (read_netlist_shaped _ _ _ H) as S. rewrite Forall_forall in *.
  intros m Hm. destruct (S m Hm) as [E|Sh]; [exfalso; apply (B m Hm); exact E|exact Sh].
Qed.

(* the document of the repaired get_netlist is the document Netlist.write_yaml gives for the
   netlist with float rectangle numbers *)
Theorem legal_netlist_doc e t n :
  read_netlist sqrt_o e t = Ok n -> buildable n -> legal_netlist n = Some (write_netlist (fln n)).
Proof.
  intros H B. apply legal_netlist_id; [exact (proj1 B)|]. eapply read_buildable_shape; eauto.
Qed.

(* a netlist whose rectangle numbers are floats already (2.0, not 2) *)
Definition float_rects (n : netlist) : Prop :=
  Forall (fun m => Forall (fun r => fl r = r) (m_rects m)) (nl_modules n) /\ Forall (fun r => fl r = r) (nl_rects n).

Lemma map_fl_id rs : Forall (fun r => fl r = r) rs -> map fl rs = rs.
Proof. induction 1 as [|r rs Hr _ IH]; [reflexivity|]. cbn [map]. rewrite Hr, IH. reflexivity. Qed.

Lemma fln_id n : float_rects n -> fln n = n.
Proof.
  intros [Fm Fr]. destruct n as [ms nets rects eps]. unfold fln. cbn [nl_modules nl_nets nl_rects nl_eps] in *.
  rewrite (map_fl_id _ Fr). f_equal.
  induction Fm as [|m ms Hm _ IH]; [reflexivity|]. cbn [map]. rewrite IH. f_equal.
  destruct m as [name c ar te ha fi fl0 area rs]; unfold flm; cbn [m_name m_center m_ar m_terminal m_hard m_fixed m_flip m_area m_rects] in *.
  rewrite (map_fl_id _ Hm). reflexivity.
Qed.

(* reader after builder on a design given with float coordinates: the design itself *)
Theorem legal_netlist_rt_floats e doc n :
  read_netlist sqrt_o e doc = Ok n -> buildable n -> float_rects n ->
  exists t n', legal_netlist n = Some t /\ read_netlist sqrt_o e t = Ok n' /\
               nl_modules n' = nl_modules n /\ nl_nets n' = nl_nets n /\ nl_eps n' = nl_eps n.
Proof.
  intros H B F. destruct (rt_read_write sqrt_o _ _ _ H) as (n' & Hr & Hm & Hn & He).
  exists (write_netlist n), n'. split; [|auto].
  rewrite (legal_netlist_doc _ _ _ H B), (fln_id _ F). reflexivity.
Qed.
End LegalRT.
