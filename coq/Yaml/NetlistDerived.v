(* Derived quantities of a loaded netlist equal their definitions (C05):
   areas, centres, Netlist.rectangles, fixed_rectangles(), wire length. *)
From Coq Require Import Permutation.
From FrameModel Require Import Num.QcTac Geometry.Rect Stog.CreateStog
  Yaml.Tree Yaml.NetlistRead Yaml.NetlistFacts.
Open Scope Qc_scope.
Open Scope string_scope.

Ltac inv_bind H :=
  let a := fresh "a" in let E := fresh "E" in
  apply bind_ok in H; destruct H as (a & E & H).

Definition reset (r : mrect) : mrect := set_mloc r NOPOLY.

Lemma reset_set r l : reset (set_mloc r l) = reset r.
Proof. reflexivity. Qed.
Lemma reset_idem r : reset (reset r) = reset r.
Proof. reflexivity. Qed.
Lemma area_set r l : mr_area (set_mloc r l) = mr_area r.
Proof. reflexivity. Qed.

(* ---------------- the swap is a permutation ---------------- *)
Lemma set_nth_perm {A} (tl : list A) : forall k x h,
  nth_error tl k = Some x -> Permutation (x :: set_nth tl k h) (h :: tl).
Proof.
  induction tl as [|y r IH]; intros k x h H; [destruct k; discriminate|].
  destruct k as [|k]; cbn in H; cbn [set_nth].
  - inversion H; subst. apply perm_swap.
  - specialize (IH _ _ h H).
    eapply perm_trans; [apply perm_swap|].
    eapply perm_trans; [apply perm_skip; exact IH|]. apply perm_swap.
Qed.

Lemma swap0g_perm {A} (l : list A) b : Permutation (swap0g l b) l.
Proof.
  destruct l as [|h tl]; [constructor|]. unfold swap0g.
  destruct (nth_error (h :: tl) b) as [x|] eqn:E; [|apply Permutation_refl].
  destruct b as [|k]; cbn in E.
  - inversion E; subst. cbn. apply Permutation_refl.
  - cbn [set_nth]. apply set_nth_perm. exact E.
Qed.

Lemma map_swap0g {A B} (f : A -> B) (l : list A) b : map f (swap0g l b) = swap0g (map f l) b.
Proof.
  assert (S : forall (l : list A) n x, map f (set_nth l n x) = set_nth (map f l) n (f x)).
  { induction l0 as [|y r IH]; intros n x; destruct n; cbn; try reflexivity. f_equal. apply IH. }
  destruct l as [|h tl]; [reflexivity|]. unfold swap0g. cbn [map].
  change (f h :: map f tl) with (map f (h :: tl)). rewrite nth_error_map.
  destruct (nth_error (h :: tl) b) as [x|]; cbn [option_map]; [|reflexivity].
  rewrite !S. reflexivity.
Qed.

#[global] Opaque swap0g.

(* ---------------- what create_stog does to the list ---------------- *)
Lemma mcs_perm eps aeps rs hs fin orig :
  m_create_stog eps aeps rs = Some (hs, fin, orig) ->
  Permutation (map reset fin) (map reset rs) /\ Permutation orig fin.
Proof.
  unfold m_create_stog. destruct rs as [|r [|r' rs]]; [discriminate| |].
  - intros H. inversion H; subst. split; apply Permutation_refl.
  - set (rs0 := map (fun r => set_mloc r NOPOLY) (r :: r' :: rs)).
    destruct (scan eps aeps (map to_rect rs0) (map to_rect rs0) 0 None) as [[b ab]|].
    + destruct (swap0g rs0 b) as [|t rest] eqn:Es; [discriminate|].
      intros H. inversion H; subst; clear H. split; [|apply swap0g_perm].
      assert (Em : map reset (set_mloc t TRUNK :: map (fun r0 => set_mloc r0
                     (find_location eps aeps (to_rect t) (to_rect r0))) rest) = map reset (t :: rest)).
      { cbn [map]. rewrite map_map. reflexivity. }
      rewrite Em, <- Es. eapply perm_trans; [apply Permutation_map; apply swap0g_perm|].
      unfold rs0. rewrite map_map. apply Permutation_refl.
    + intros H. inversion H; subst. split; [|apply Permutation_refl].
      unfold rs0. rewrite map_map. apply Permutation_refl.
Qed.

Lemma Qcsum_perm l l' : Permutation l l' -> Qcsum l = Qcsum l'.
Proof.
  induction 1; cbn [Qcsum]; try congruence; ring.
Qed.

Lemma sum_areas_reset rs : sum_areas (map reset rs) = sum_areas rs.
Proof. unfold sum_areas. rewrite map_map. reflexivity. Qed.

Lemma mcs_sum_areas eps aeps rs hs fin orig :
  m_create_stog eps aeps rs = Some (hs, fin, orig) -> sum_areas fin = sum_areas rs.
Proof.
  intros H. destruct (mcs_perm _ _ _ _ _ _ H) as [P _].
  rewrite <- (sum_areas_reset fin), <- (sum_areas_reset rs). unfold sum_areas.
  apply Qcsum_perm. apply Permutation_map. exact P.
Qed.

Lemma mcs_fixed eps aeps rs hs fin orig f :
  m_create_stog eps aeps rs = Some (hs, fin, orig) ->
  Forall (fun r => mr_fixed r = f) rs -> Forall (fun r => mr_fixed r = f) fin.
Proof.
  intros H Hf. destruct (mcs_perm _ _ _ _ _ _ H) as [P _].
  rewrite Forall_forall in *. intros r Hr.
  assert (Hin : In (reset r) (map reset rs)).
  { eapply Permutation_in; [exact P|]. apply in_map. exact Hr. }
  apply in_map_iff in Hin. destruct Hin as (r' & E & Hr').
  specialize (Hf _ Hr'). destruct r, r'; cbn in *. inversion E; subst. reflexivity.
Qed.

Section Derived.
Variable sqrt_o : Qc -> Qc.

(* ---------------- invariants of the parsed modules ---------------- *)
(* what Module.setup leaves behind *)
Definition setup_inv (m : module) : Prop :=
  (m_hard m = true -> m_area m = [(KW_GROUND, sum_areas (m_rects m))]) /\
  Forall (fun r => mr_fixed r = m_fixed m) (m_rects m) /\
  (m_hard m = true -> m_terminal m = false -> m_rects m <> []).

Lemma finish_fixed f hd five x y w h reg r :
  finish_rectangle f hd five x y w h reg = Ok r -> mr_fixed r = f.
Proof. unfold finish_rectangle. intros H. do 3 inv_bind H. inversion H. reflexivity. Qed.

Lemma parse_rectangle_fixed f hd t r : parse_rectangle f hd t = Ok r -> mr_fixed r = f.
Proof.
  destruct t as [| | |l| |]; try discriminate. cbn [parse_rectangle].
  destruct l as [|x [|y [|w [|h [|e [|e' tl]]]]]]; try discriminate; intros H; do 4 inv_bind H.
  - eapply finish_fixed; eauto.
  - destruct e; try discriminate. inv_bind H. eapply finish_fixed; eauto.
Qed.

Lemma parse_rect_list_fixed f hd l : forall rs,
  parse_rect_list f hd l = Ok rs -> Forall (fun r => mr_fixed r = f) rs.
Proof.
  induction l as [|t l IH]; intros rs H.
  - inversion H. constructor.
  - cbn [parse_rect_list] in H. do 2 inv_bind H. inversion H; subst.
    constructor; [eapply parse_rectangle_fixed; eauto|auto].
Qed.

Lemma parse_rectangles_fixed f hd v rs :
  parse_rectangles f hd v = Ok rs -> Forall (fun r => mr_fixed r = f) rs.
Proof.
  destruct v as [| | |l| |]; try discriminate. destruct l as [|first rest]; [discriminate|].
  cbn [parse_rectangles]. destruct (is_some (as_number first)); apply parse_rect_list_fixed.
Qed.

Lemma setup_spec name s rs m :
  setup name s rs = Ok m ->
  m_rects m = rs /\ m_fixed m = s_fixed s /\ m_hard m = s_hard s /\ m_center m = s_center s /\
  (m_hard m = true -> m_area m = [(KW_GROUND, sum_areas rs)]) /\
  (m_hard m = true -> m_terminal m = false -> rs <> []).
Proof.
  unfold setup. intros H. do 5 inv_bind H.
  destruct (s_hard s) eqn:Eh.
  - do 4 inv_bind H. inversion H; subst; cbn. repeat split; auto.
    intros _ Ht. apply assert_ok in E7. rewrite Ht in E7. cbn in E7.
    destruct rs; [discriminate|congruence].
  - inversion H; subst; cbn. repeat split; auto; discriminate.
Qed.

Lemma parse_module_inv name t m : parse_module name t = Ok m -> setup_inv m.
Proof.
  destruct t as [| | | |info|]; try discriminate. cbn [parse_module]. intros H. do 5 inv_bind H.
  destruct (setup_spec _ _ _ _ H) as (R & F & Hh & _ & A & N). unfold setup_inv. rewrite R, F.
  split; [exact A|]. split; [|exact N].
  destruct (lookup KW_RECTANGLES info).
  - eapply parse_rectangles_fixed; eauto.
  - inversion E3. constructor.
Qed.

Lemma parse_module_list_inv l : forall ms, parse_module_list l = Ok ms -> Forall setup_inv ms.
Proof.
  induction l as [|[n i] l IH]; intros ms H.
  - inversion H. constructor.
  - cbn [parse_module_list] in H. do 3 inv_bind H. inversion H; subst.
    constructor; [eapply parse_module_inv; eauto|auto].
Qed.

Lemma parse_netlist_inv t ms es : parse_netlist t = Ok (ms, es) -> Forall setup_inv ms.
Proof.
  destruct t as [| | | |items|]; try discriminate. intros H.
  destruct (parse_netlist_result _ _ _ H) as (_ & Hm & _).
  destruct (lookup KW_MODULES items) as [v|]; [|subst; constructor].
  destruct v; try discriminate. cbn [parse_modules] in Hm. inv_bind Hm.
  eapply parse_module_list_inv; eauto.
Qed.

Lemma cr_square_inv m m' : setup_inv m -> cr_square sqrt_o m = Ok m' -> m' = m.
Proof.
  intros (A & F & N) H. unfold cr_square in H. inv_bind H.
  destruct (m_hard m) eqn:Eh; [|inversion H; reflexivity].
  destruct (m_terminal m) eqn:Et; [inversion H; reflexivity|].
  destruct (m_rects m) eqn:Er; [exfalso; apply (N eq_refl eq_refl); reflexivity|].
  inversion H; reflexivity.
Qed.

Lemma cr_squares_inv ms : forall ms', Forall setup_inv ms -> cr_squares sqrt_o ms = Ok ms' -> ms' = ms.
Proof.
  induction ms as [|m ms IH]; intros ms' Hf H.
  - inversion H. reflexivity.
  - cbn [cr_squares] in H. do 2 inv_bind H. inversion H; subst. inversion Hf; subst.
    f_equal; [eapply cr_square_inv; eauto|auto].
Qed.

(* ---------------- what _create_rectangles leaves behind ---------------- *)
Definition final_inv (m : module) : Prop :=
  (m_hard m = true -> m_area m = [(KW_GROUND, sum_areas (m_rects m))]) /\
  Forall (fun r => mr_fixed r = m_fixed m) (m_rects m) /\
  (m_rects m <> [] -> m_center m = Some (centroid (m_rects m))).

Lemma cr_stog_inv eps aeps m p :
  setup_inv m -> cr_stog eps aeps m = Ok p ->
  final_inv (fst p) /\ Permutation (snd p) (m_rects (fst p)) /\
  (m_rects m = [] -> fst p = m).
Proof.
  intros (A & F & N) H. unfold cr_stog in H.
  destruct (m_rects m) as [|r0 rs0] eqn:Er.
  - inversion H; subst; cbn. unfold final_inv. rewrite !Er. repeat split; auto. congruence.
  - destruct (m_create_stog eps aeps (r0 :: rs0)) as [[[hs fin] orig]|] eqn:Em; [|discriminate].
    inversion H; subst; cbn. unfold final_inv; cbn. repeat split.
    + intros Hh. rewrite (A Hh). rewrite <- (mcs_sum_areas _ _ _ _ _ _ Em). reflexivity.
    + eapply mcs_fixed; eauto.
    + apply (mcs_perm _ _ _ _ _ _ Em).
    + discriminate.
Qed.

Lemma cr_stogs_inv eps aeps ms : forall p,
  Forall setup_inv ms -> cr_stogs eps aeps ms = Ok p ->
  Forall final_inv (fst p) /\ Permutation (snd p) (flat_map m_rects (fst p)).
Proof.
  induction ms as [|m ms IH]; intros p Hf H.
  - inversion H; subst; cbn. split; constructor.
  - cbn [cr_stogs] in H. do 2 inv_bind H. inversion H; subst; clear H. inversion Hf; subst.
    destruct (cr_stog_inv _ _ _ _ H1 E) as (I1 & P1 & _).
    destruct (IH _ H2 E0) as (I2 & P2). cbn [fst snd flat_map]. split.
    + constructor; assumption.
    + apply Permutation_app; assumption.
Qed.

Lemma read_netlist_inv e t n :
  read_netlist sqrt_o e t = Ok n ->
  Forall final_inv (nl_modules n) /\ Permutation (nl_rects n) (flat_map m_rects (nl_modules n)).
Proof.
  unfold read_netlist. intros H. inv_bind H. destruct a as [ms0 es0]. cbn [fst snd] in *.
  inv_bind H. destruct a as [[ms rects] e']. inv_bind H. inversion H; subst; clear H. cbn.
  unfold create_rectangles in E0. do 4 inv_bind E0. inversion E0; subst; clear E0.
  pose proof (parse_netlist_inv _ _ _ E) as Hinv.
  rewrite (cr_squares_inv _ _ Hinv E2) in *.
  eapply cr_stogs_inv; eauto.
Qed.

(* module areas: a hard module (fixed and terminal modules included) has the
   sum of the areas of its rectangles, hence zero for a terminal without
   rectangles; a soft module has the sum of its region areas (by definition of
   module_total_area) *)
Theorem derived_area e t n :
  read_netlist sqrt_o e t = Ok n ->
  Forall (fun m => (m_hard m = true -> m_area m = [(KW_GROUND, sum_areas (m_rects m))] /\
                                       module_total_area m = sum_areas (m_rects m)) /\
                   (m_terminal m = true -> m_hard m = true -> m_rects m = [] -> module_total_area m = 0))
         (nl_modules n).
Proof.
  intros H. destruct (read_netlist_inv _ _ _ H) as [Hf _].
  eapply Forall_impl; [|exact Hf]. intros m (A & _ & _). split.
  - intros Hh. split; [auto|]. unfold module_total_area. rewrite (A Hh). cbn. ring.
  - intros _ Hh Hr. unfold module_total_area. rewrite (A Hh), Hr. cbn. ring.
Qed.

(* centres: the area-weighted centroid of the rectangles when there are any *)
Theorem derived_center e t n :
  read_netlist sqrt_o e t = Ok n ->
  Forall (fun m => m_rects m <> [] -> m_center m = Some (centroid (m_rects m))) (nl_modules n).
Proof.
  intros H. destruct (read_netlist_inv _ _ _ H) as [Hf _].
  eapply Forall_impl; [|exact Hf]. intros m (_ & _ & C). exact C.
Qed.

(* Netlist.rectangles holds exactly the rectangles of the modules *)
Theorem derived_rectangles e t n :
  read_netlist sqrt_o e t = Ok n ->
  Permutation (nl_rects n) (flat_map m_rects (nl_modules n)).
Proof. intros H. apply (read_netlist_inv _ _ _ H). Qed.

Lemma filter_perm {A} (f : A -> bool) l l' : Permutation l l' -> Permutation (filter f l) (filter f l').
Proof.
  induction 1; cbn.
  - constructor.
  - destruct (f x); [constructor|]; assumption.
  - destruct (f x), (f y); try apply Permutation_refl. apply perm_swap.
  - eapply perm_trans; eauto.
Qed.

Lemma filter_flat_fixed ms :
  Forall (fun m => Forall (fun r => mr_fixed r = m_fixed m) (m_rects m)) ms ->
  filter mr_fixed (flat_map m_rects ms) = flat_map m_rects (filter m_fixed ms).
Proof.
  induction 1 as [|m ms Hm _ IH]; [reflexivity|].
  cbn [flat_map filter]. rewrite filter_app, IH.
  assert (E : filter mr_fixed (m_rects m) = if m_fixed m then m_rects m else []).
  { clear -Hm. induction Hm as [|r rs Hr _ IH]; [destruct (m_fixed m); reflexivity|].
    cbn [filter]. rewrite Hr, IH. destruct (m_fixed m); reflexivity. }
  rewrite E. destruct (m_fixed m); reflexivity.
Qed.

(* fixed_rectangles() holds exactly the rectangles of the fixed modules *)
Theorem derived_fixed_rectangles e t n :
  read_netlist sqrt_o e t = Ok n ->
  Permutation (filter mr_fixed (nl_rects n)) (flat_map m_rects (filter m_fixed (nl_modules n))).
Proof.
  intros H. destruct (read_netlist_inv _ _ _ H) as [Hf P].
  rewrite <- filter_flat_fixed.
  - apply filter_perm. exact P.
  - eapply Forall_impl; [|exact Hf]. intros m (_ & F & _). exact F.
Qed.

(* ---------------- wire length ---------------- *)
Lemma sqdist_nonneg p c : 0 <= sqdist p c.
Proof. unfold sqdist. generalize (fst p - fst c), (snd p - snd c). intros a b. qnra. Qed.

(* per net: weight times the sum of the distances from the member centres to
   their mean; "distance" by the contract of sqrt on the arguments that occur *)
Theorem wire_length_def ms e wl :
  (forall ds, net_sqdists ms e = Some ds ->
     Forall (fun a => 0 <= sqrt_o a /\ sqrt_o a * sqrt_o a = a) ds) ->
  net_wire_length sqrt_o ms e = Some wl ->
  exists cs dist,
    member_centers ms (n_members e) = Some cs /\
    Forall2 (fun c d => 0 <= d /\ d * d = sqdist (mean_point cs) c) cs dist /\
    wl = n_weight e * Qcsum dist.
Proof.
  intros Hc H. unfold net_wire_length in H. unfold net_sqdists in *.
  destruct (member_centers ms (n_members e)) as [cs|]; [|discriminate].
  specialize (Hc _ eq_refl). inversion H; subst; clear H.
  exists cs, (map sqrt_o (map (sqdist (mean_point cs)) cs)). split; [reflexivity|]. split; [|ring].
  generalize dependent (mean_point cs). intros p Hc.
  induction cs as [|c cs IH]; cbn [map]; constructor.
  - inversion Hc; subst. assumption.
  - apply IH. inversion Hc; subst. assumption.
Qed.

End Derived.
