(* dump_yaml_module, the area of a soft module: a plain number is written only when
   the ground region is the ONLY region.  Whatever the magnitudes - a ground area of
   4e17 next to regions of 12 and 4, which a binary64 sum of the areas absorbs - a
   module with two or more regions is written as the mapping region -> area, every
   region with its own area (the writer never compares the ground area with the total). *)
From FrameModel Require Import Num.QcTac Geometry.Rect Yaml.Tree Yaml.NetlistRead Yaml.NetlistWrite.
Open Scope Qc_scope.
Open Scope string_scope.

Definition area_mapping (a : list (string * Qc)) : ytree :=
  YMap (map (fun p => (fst p, yfloat (snd p))) a).

Lemma write_area_keeps_regions : forall a,
  (2 <= List.length a)%nat -> write_area a = area_mapping a.
Proof.
  intros a H. destruct a as [| [k v] [| q r]]; simpl in H.
  - inversion H.
  - apply le_S_n in H. inversion H.
  - reflexivity.
Qed.

(* a single region that is not the ground is a mapping as well *)
Lemma write_area_single_region : forall k v,
  String.eqb k KW_GROUND = false -> write_area [(k, v)] = area_mapping [(k, v)].
Proof. intros k v H. unfold write_area. rewrite H. reflexivity. Qed.

(* the document of seeded/C04/r5-2: {_: 4e17, DSP: 12, BRAM: 4} *)
Example write_area_ground_absorbs :
  write_area [("_", qc 400000000000000000 1); ("DSP", qc 12 1); ("BRAM", qc 4 1)] =
  YMap [("_", yfloat (qc 400000000000000000 1)); ("DSP", yfloat (qc 12 1)); ("BRAM", yfloat (qc 4 1))].
Proof. reflexivity. Qed.
