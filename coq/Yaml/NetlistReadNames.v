(* Names of the netlist format.

   valid_identifier (frame/utils/utils.py) is
       re.fullmatch('^[A-Za-z_][A-Za-z0-9_]*', ident) is not None
   on a str pattern without flags: the character classes are the listed ASCII
   ranges only (no Unicode letters or digits, no case folding), '^' is redundant
   under fullmatch and there is no '$' - so, unlike re.match(r'^...$'), a
   trailing newline is not tolerated.  Python strs are handed to the model as
   their UTF-8 bytes (every non-ASCII character has all its bytes >= 128), keys
   that are no strs as the byte 255 followed by their repr (Yaml/Tree.v).

   This file states that semantics independently of the boolean function
   [valid_identifier] of Yaml/Tree.v:
     - a small regular-expression type with its full-match relation
       ([fullmatch]), the identifier expression [ident_re] with its two classes
       given as the literal lists of their characters;
     - [valid_identifier s = true <-> fullmatch ident_re s]
       (<-> [is_identifier s]: first character in [start_chars], all others in
       [rest_chars]);
     - hence: a string with a character outside the 63 allowed ones (control
       characters, blank, newline, any byte of a non-ASCII character, byte 255)
       anywhere, the empty string, a string starting with a digit - none is an
       identifier;
   and derives the rejection of EVERY string that is no identifier as a module
   name, as a region name of an area mapping, as a region name of a rectangle,
   at any position of the document. *)
From Coq Require Import List Bool Arith Lia.
From FrameModel Require Import Num.QcTac Geometry.Rect Yaml.Tree Yaml.NetlistRead Yaml.NetlistFacts
  Yaml.NetlistDoc.
Import ListNotations.
Open Scope string_scope.

(* ------------------------------------------------------------------ *)
(* regular expressions, full match                                      *)
(* ------------------------------------------------------------------ *)
Inductive re : Type :=
| Cls (chars : list ascii)      (* [ ... ]: one character of the list *)
| Cat (a b : re)                (* a b *)
| Star (a : re).                (* a* *)

Inductive fullmatch : re -> string -> Prop :=
| FM_cls chars c : In c chars -> fullmatch (Cls chars) (String c "")
| FM_cat a b s1 s2 : fullmatch a s1 -> fullmatch b s2 -> fullmatch (Cat a b) (s1 ++ s2)
| FM_star_nil a : fullmatch (Star a) ""
| FM_star_cons a s1 s2 : fullmatch a s1 -> fullmatch (Star a) s2 -> fullmatch (Star a) (s1 ++ s2).

(* [A-Za-z_] and [A-Za-z0-9_], character by character *)
Definition start_chars : list ascii :=
  list_ascii_of_string "ABCDEFGHIJKLMNOPQRSTUVWXYZabcdefghijklmnopqrstuvwxyz_".
Definition rest_chars : list ascii :=
  list_ascii_of_string "ABCDEFGHIJKLMNOPQRSTUVWXYZabcdefghijklmnopqrstuvwxyz0123456789_".

Definition ident_re : re := Cat (Cls start_chars) (Star (Cls rest_chars)).

Fixpoint all_chars (P : ascii -> Prop) (s : string) : Prop :=
  match s with
  | EmptyString => True
  | String c r => P c /\ all_chars P r
  end.

(* the same thing said without regular expressions *)
Definition is_identifier (s : string) : Prop :=
  exists c r, s = String c r /\ In c start_chars /\ all_chars (fun d => In d rest_chars) r.

(* ------------------------------------------------------------------ *)
(* the classes of Yaml/Tree.v are these lists                           *)
(* ------------------------------------------------------------------ *)
Definition memb (c : ascii) (l : list ascii) : bool := existsb (Ascii.eqb c) l.

Lemma memb_In c l : memb c l = true <-> In c l.
Proof.
  unfold memb. rewrite existsb_exists. split.
  - intros (x & Hx & E). apply Ascii.eqb_eq in E. subst. exact Hx.
  - intros H. exists c. split; [exact H|apply Ascii.eqb_refl].
Qed.

Lemma is_letter_memb : forall c, is_letter c = memb c start_chars.
Proof. intros [[] [] [] [] [] [] [] []]; vm_compute; reflexivity. Qed.

Lemma is_idchar_memb : forall c, (is_letter c || is_digit c)%bool = memb c rest_chars.
Proof. intros [[] [] [] [] [] [] [] []]; vm_compute; reflexivity. Qed.

Lemma is_letter_In c : is_letter c = true <-> In c start_chars.
Proof. rewrite is_letter_memb. apply memb_In. Qed.

Lemma is_idchar_In c : (is_letter c || is_digit c)%bool = true <-> In c rest_chars.
Proof. rewrite is_idchar_memb. apply memb_In. Qed.

Lemma all_idchars_spec s : all_idchars s = true <-> all_chars (fun d => In d rest_chars) s.
Proof.
  induction s as [|c r IH]; cbn [all_idchars all_chars].
  - split; auto.
  - rewrite andb_true_iff, is_idchar_In, IH. reflexivity.
Qed.

Theorem valid_identifier_is_identifier s : valid_identifier s = true <-> is_identifier s.
Proof.
  destruct s as [|c r]; cbn [valid_identifier].
  - split; [discriminate|]. intros (c & r & E & _). discriminate.
  - rewrite andb_true_iff, is_letter_In, all_idchars_spec. split.
    + intros [H1 H2]. exists c, r. auto.
    + intros (c' & r' & E & H1 & H2). inversion E; subst. auto.
Qed.

(* ------------------------------------------------------------------ *)
(* full match of ident_re = is_identifier                               *)
(* ------------------------------------------------------------------ *)
Lemma star_cls_all chars s : fullmatch (Star (Cls chars)) s -> all_chars (fun d => In d chars) s.
Proof.
  intros H. remember (Star (Cls chars)) as e eqn:Ee. induction H; try discriminate.
  - exact I.
  - inversion Ee; subst. inversion H; subst. cbn [append all_chars]. split; [assumption|].
    apply IHfullmatch2. reflexivity.
Qed.

Lemma all_star_cls chars s : all_chars (fun d => In d chars) s -> fullmatch (Star (Cls chars)) s.
Proof.
  induction s as [|c r IH]; cbn [all_chars].
  - intros _. constructor.
  - intros [H1 H2]. change (String c r) with (String c "" ++ r).
    apply FM_star_cons; [constructor; exact H1|apply IH; exact H2].
Qed.

Theorem fullmatch_is_identifier s : fullmatch ident_re s <-> is_identifier s.
Proof.
  unfold ident_re. split.
  - intros H. inversion H; subst. inversion H2; subst. cbn [append].
    exists c, s2. split; [reflexivity|]. split; [assumption|]. apply star_cls_all. assumption.
  - intros (c & r & -> & H1 & H2). change (String c r) with (String c "" ++ r).
    constructor; [constructor; exact H1|apply all_star_cls; exact H2].
Qed.

(* valid_identifier IS the full match of [A-Za-z_][A-Za-z0-9_]* *)
Theorem valid_identifier_fullmatch s : valid_identifier s = true <-> fullmatch ident_re s.
Proof. rewrite fullmatch_is_identifier. apply valid_identifier_is_identifier. Qed.

Corollary not_identifier_invalid s : ~ fullmatch ident_re s -> valid_identifier s = false.
Proof.
  intros H. destruct (valid_identifier s) eqn:E; [|reflexivity].
  exfalso. apply H. apply valid_identifier_fullmatch. exact E.
Qed.

(* ------------------------------------------------------------------ *)
(* what is no identifier                                                *)
(* ------------------------------------------------------------------ *)
Fixpoint chars_of (s : string) : list ascii :=
  match s with EmptyString => [] | String c r => c :: chars_of r end.

Lemma start_in_rest c : In c start_chars -> In c rest_chars.
Proof. rewrite <- is_letter_In, <- is_idchar_In. intros ->. reflexivity. Qed.

(* one character outside [A-Za-z0-9_], anywhere *)
Theorem foreign_char_no_identifier s c :
  In c (chars_of s) -> ~ In c rest_chars -> ~ fullmatch ident_re s.
Proof.
  intros Hin Hc H. apply fullmatch_is_identifier in H. destruct H as (c0 & r & -> & H1 & H2).
  cbn [chars_of] in Hin. destruct Hin as [->|Hin].
  - apply Hc. apply start_in_rest. exact H1.
  - clear H1. induction r as [|d r IH]; cbn [chars_of all_chars] in *; [destruct Hin|].
    destruct H2 as [Hd H2]. destruct Hin as [->|Hin]; [exact (Hc Hd)|exact (IH Hin H2)].
Qed.

(* every byte that is not one of the 63: in particular all control characters
   (0-31, 127), the blank, and every byte >= 128 (all bytes of the UTF-8
   encoding of a non-ASCII character; the byte 255 of a key that is no str) *)
Lemma rest_chars_range c : In c rest_chars ->
  let n := nat_of_ascii c in
  (48 <= n <= 57 \/ 65 <= n <= 90 \/ n = 95 \/ 97 <= n <= 122)%nat.
Proof.
  intros H. apply is_idchar_In in H. unfold is_letter, is_digit in H. cbn zeta.
  repeat match type of H with
         | (_ || _)%bool = true => apply orb_true_iff in H; destruct H as [H|H]
         | (_ && _)%bool = true => apply andb_true_iff in H; destruct H as [? H]
         end;
  repeat match goal with
         | H : (_ <=? _)%nat = true |- _ => apply Nat.leb_le in H
         | H : (_ =? _)%nat = true |- _ => apply Nat.eqb_eq in H
         end; lia.
Qed.

Theorem non_ascii_no_identifier s c :
  In c (chars_of s) -> (128 <= nat_of_ascii c)%nat -> ~ fullmatch ident_re s.
Proof.
  intros Hin Hc. apply (foreign_char_no_identifier s c Hin). intros H.
  apply rest_chars_range in H. cbn zeta in H. lia.
Qed.

Theorem control_or_blank_no_identifier s c :
  In c (chars_of s) -> (nat_of_ascii c <= 32 \/ nat_of_ascii c = 127)%nat -> ~ fullmatch ident_re s.
Proof.
  intros Hin Hc. apply (foreign_char_no_identifier s c Hin). intros H.
  apply rest_chars_range in H. cbn zeta in H. lia.
Qed.

Lemma chars_of_app a b : chars_of (a ++ b) = (chars_of a ++ chars_of b)%list.
Proof. induction a as [|c a IH]; cbn; [reflexivity|]. rewrite IH. reflexivity. Qed.

(* re.match(r'^...$') would accept these; fullmatch does not *)
Theorem trailing_newline_no_identifier s : ~ fullmatch ident_re (s ++ String "010"%char "").
Proof.
  apply (control_or_blank_no_identifier _ "010"%char).
  - rewrite chars_of_app. apply in_or_app. right. left. reflexivity.
  - left. vm_compute. lia.
Qed.

Theorem empty_no_identifier : ~ fullmatch ident_re "".
Proof. intros H. apply fullmatch_is_identifier in H. destruct H as (c & r & E & _). discriminate. Qed.

Theorem leading_digit_no_identifier c r :
  (48 <= nat_of_ascii c <= 57)%nat -> ~ fullmatch ident_re (String c r).
Proof.
  intros Hc H. apply fullmatch_is_identifier in H. destruct H as (c' & r' & E & H1 & _).
  inversion E; subst. apply is_letter_In in H1. unfold is_letter in H1.
  repeat match type of H1 with
         | (_ || _)%bool = true => apply orb_true_iff in H1; destruct H1 as [H1|H1]
         | (_ && _)%bool = true => apply andb_true_iff in H1; destruct H1 as [? H1]
         end;
  repeat match goal with
         | H : (_ <=? _)%nat = true |- _ => apply Nat.leb_le in H
         | H : (_ =? _)%nat = true |- _ => apply Nat.eqb_eq in H
         end; lia.
Qed.

(* a key that is no str: byte 255 followed by anything *)
Theorem non_string_key_no_identifier r : ~ fullmatch ident_re (String "255"%char r).
Proof.
  apply (non_ascii_no_identifier _ "255"%char); [left; reflexivity|]. vm_compute. lia.
Qed.

(* ------------------------------------------------------------------ *)
(* rejection of every name that is no identifier, wherever it stands    *)
(* ------------------------------------------------------------------ *)
Section Names.
Variable sqrt_o : Qc -> Qc.

(* module name, any position of the Modules mapping *)
Theorem reject_invalid_name_re e t name info :
  module_at t name info -> ~ fullmatch ident_re name -> rejects (read_netlist sqrt_o e t).
Proof.
  intros Hm Hn. eapply reject_invalid_name; [exact Hm|]. apply not_identifier_invalid. exact Hn.
Qed.

(* region name of an area mapping, any position of the mapping *)
Lemma area_dict_rejects_region d r a :
  In (r, a) d -> valid_identifier r = false -> rejects (read_area_dict d).
Proof.
  induction d as [|[r' a'] d IH]; intros Hin Hr; [destruct Hin|].
  cbn [read_area_dict]. destruct Hin as [E|Hin].
  - inversion E; subst. apply assert_false_rejects. exact Hr.
  - apply rejects_bind_ok; intros ? ?. destruct (as_number a'); [|apply rejects_Reject].
    apply rejects_bind_ok; intros ? ?. apply rejects_bind. eauto.
Qed.

Theorem reject_invalid_area_region e t name info d r a :
  module_at t name info -> In (KW_AREA, YMap d) info -> In (r, a) d -> ~ fullmatch ident_re r ->
  rejects (read_netlist sqrt_o e t).
Proof.
  intros Hm Hin Hr Hn. eapply module_at_rejects; eauto. left.
  apply parse_module_rejects_init. intros ps Hps.
  unfold module_init. apply rejects_bind.
  eapply init_loop_rejects.
  - eapply params_in_raw; eauto.
  - intros s. cbn. apply rejects_bind. unfold read_region_area. cbn [as_number as_scalar].
    apply rejects_bind_ok; intros ? ?. eapply area_dict_rejects_region; eauto.
    apply not_identifier_invalid. exact Hn.
Qed.

(* region of a rectangle entry [x, y, w, h, region] (list of rectangles or the
   single-rectangle shorthand), any position of the list *)
Lemma rect_region_rejects f hd x y w h s :
  valid_identifier s = false -> rejects (parse_rectangle f hd (YList [x; y; w; h; YStr s])).
Proof.
  intros Hs. cbn [parse_rectangle].
  apply rejects_bind_ok; intros ? ?. apply rejects_bind_ok; intros ? ?.
  apply rejects_bind_ok; intros ? ?. apply rejects_bind_ok; intros ? ?.
  apply assert_false_rejects. exact Hs.
Qed.

Theorem reject_invalid_rect_region e t name info v x y w h s :
  module_at t name info -> lookup KW_RECTANGLES info = Some v ->
  rect_in v (YList [x; y; w; h; YStr s]) -> ~ fullmatch ident_re s ->
  rejects (read_netlist sqrt_o e t).
Proof.
  intros Hm Hl Hin Hn. eapply module_at_rejects; eauto. left.
  cbn [parse_module]. apply rejects_bind_ok; intros ? ?. apply rejects_bind_ok; intros ? ?.
  apply rejects_bind_ok; intros ? ?. apply rejects_bind_ok; intros ? ?.
  rewrite Hl. apply rejects_bind.
  eapply rectangles_rejects; eauto. apply rect_region_rejects. apply not_identifier_invalid. exact Hn.
Qed.

(* a region that is no string at all (number, boolean, null, list, mapping) *)
Theorem reject_non_string_rect_region e t name info v x y w h r :
  module_at t name info -> lookup KW_RECTANGLES info = Some v ->
  rect_in v (YList [x; y; w; h; r]) -> (forall s, r <> YStr s) ->
  rejects (read_netlist sqrt_o e t).
Proof.
  intros Hm Hl Hin Hr. eapply module_at_rejects; eauto. left.
  cbn [parse_module]. apply rejects_bind_ok; intros ? ?. apply rejects_bind_ok; intros ? ?.
  apply rejects_bind_ok; intros ? ?. apply rejects_bind_ok; intros ? ?.
  rewrite Hl. apply rejects_bind.
  eapply rectangles_rejects; eauto. cbn [parse_rectangle].
  apply rejects_bind_ok; intros ? ?. apply rejects_bind_ok; intros ? ?.
  apply rejects_bind_ok; intros ? ?. apply rejects_bind_ok; intros ? ?.
  destruct r; try apply rejects_Reject. exfalso. eapply Hr. reflexivity.
Qed.

End Names.

(* ------------------------------------------------------------------ *)
(* examples: the hypotheses are satisfiable, the seeded instances        *)
(* ------------------------------------------------------------------ *)
Definition nl : string := String "010"%char "".

Example ex_S1_newline : ~ fullmatch ident_re ("S1" ++ nl).
Proof. apply trailing_newline_no_identifier. Qed.

Example ex_S1 : fullmatch ident_re "S1".
Proof. apply valid_identifier_fullmatch. reflexivity. Qed.

Example ex_null_word : fullmatch ident_re "null" /\ fullmatch ident_re "_" /\ fullmatch ident_re "Modules".
Proof. repeat split; apply valid_identifier_fullmatch; reflexivity. Qed.

(* 'é' = bytes 195 169; 'x²' = 120 194 178; Arabic-Indic digit one = 217 161 *)
Example ex_e_acute : ~ fullmatch ident_re (String "195"%char (String "169"%char "")).
Proof. apply (non_ascii_no_identifier _ "195"%char); [left; reflexivity|vm_compute; lia]. Qed.
Example ex_x_superscript_two : ~ fullmatch ident_re (String "x"%char (String "194"%char (String "178"%char ""))).
Proof. apply (non_ascii_no_identifier _ "194"%char); [right; left; reflexivity|vm_compute; lia]. Qed.
Example ex_1e3 : ~ fullmatch ident_re "1e3".
Proof. apply leading_digit_no_identifier. vm_compute. lia. Qed.
Example ex_tilde : ~ fullmatch ident_re "~".
Proof.
  apply (foreign_char_no_identifier _ "~"%char); [left; reflexivity|].
  intros H. apply rest_chars_range in H. vm_compute in H. lia.
Qed.

(* Modules: {"S1\n": {area: 12}}  and  Modules: {S1: {area: {"dsp\n": 4, lut: 8}}} *)
Definition doc_name (name : string) (info : list (string * ytree)) : ytree :=
  YMap [("Modules", YMap [("T1", YMap [("terminal", YBool true)]); (name, YMap info)]); ("Nets", YList [])].
Lemma module_at_doc_name name info : module_at (doc_name name info) name info.
Proof. eexists _, _. split; [reflexivity|]. split; [left; reflexivity|right; left; reflexivity]. Qed.

Example ex_reject_S1_newline sqrt_o e :
  rejects (read_netlist sqrt_o e (doc_name ("S1" ++ nl) [("area", YNum (qc 12 1) true)])).
Proof.
  eapply reject_invalid_name_re; [apply module_at_doc_name|apply trailing_newline_no_identifier].
Qed.

Example ex_reject_region_newline sqrt_o e :
  rejects (read_netlist sqrt_o e
             (doc_name "S1" [("area", YMap [("dsp" ++ nl, YNum (qc 4 1) true); ("lut", YNum (qc 8 1) true)])])).
Proof.
  eapply reject_invalid_area_region; [apply module_at_doc_name|left; reflexivity|left; reflexivity|].
  apply trailing_newline_no_identifier.
Qed.

Example ex_reject_rect_region_newline sqrt_o e :
  rejects (read_netlist sqrt_o e
             (doc_name "S1" [("area", YNum (qc 12 1) true);
                             ("rectangles", YList [YList [YNum (qc 3 1) true; YNum (qc 4 1) true; YNum (qc 2 1) true;
                                                          YNum (qc 3 1) true; YStr ("dsp" ++ nl)]])])).
Proof.
  eapply reject_invalid_rect_region; [apply module_at_doc_name|reflexivity| |apply trailing_newline_no_identifier].
  eexists _, _. split; [reflexivity|]. right. split; [reflexivity|left; reflexivity].
Qed.

(* the coincidence of seeded/C05/r2-1: {hard: true, area: 6, rectangles: [[3, 4, 2, 3]]} -
   the stated area equals the area of the rectangle; rejected all the same
   (reject_hard_with_area_doc quantifies over every value) *)
Example ex_reject_hard_area_equal_rectangles sqrt_o e :
  rejects (read_netlist sqrt_o e
             (doc_name "H1" [("hard", YBool true); ("area", YNum (qc 6 1) true);
                             ("rectangles", YList [YList [YNum (qc 3 1) true; YNum (qc 4 1) true;
                                                          YNum (qc 2 1) true; YNum (qc 3 1) true]])])).
Proof.
  eapply reject_hard_with_area_doc; [apply module_at_doc_name| |right; left; reflexivity|discriminate].
  left. left. reflexivity.
Qed.

(* ... and split over regions: {fixed: true, area: {dsp: 4, lut: 8}, rectangles: [[4,4,4,2],[4,6,2,2]]} *)
Example ex_reject_fixed_area_regions_equal_rectangles sqrt_o e :
  rejects (read_netlist sqrt_o e
             (doc_name "H1" [("fixed", YBool true);
                             ("area", YMap [("dsp", YNum (qc 4 1) true); ("lut", YNum (qc 8 1) true)]);
                             ("rectangles", YList [YList [YNum (qc 4 1) true; YNum (qc 4 1) true; YNum (qc 4 1) true; YNum (qc 2 1) true];
                                                   YList [YNum (qc 4 1) true; YNum (qc 6 1) true; YNum (qc 2 1) true; YNum (qc 2 1) true]])])).
Proof.
  eapply reject_hard_with_area_doc; [apply module_at_doc_name| |right; left; reflexivity|discriminate].
  right. left. reflexivity.
Qed.
