(* Histories of ONE MODULE (frame/netlist/module.py) on top of the object histories of
   Stog/StogHist.v.

   A Module holds a list of Rectangle objects (m.rectangles, the list object itself is
   public and mutable) and recognises it with m.create_stog(), which hands that very list
   to geometry.create_stog; m.has_stog reads the role of the first rectangle.  Between two
   recognitions the rectangles may change by any route: m.add_rectangle, m.clear_rectangles,
   the list itself (append / insert / remove / pop / del / slice assignment / reverse),
   Netlist.assign_rectangles (new objects, the list replaced), m.recenter_rectangles (every
   rectangle moved in place), and everything StogHist.v already lets happen to the objects
   (moves, resizes, roles through the setter, plain create_stog calls on other lists that
   share objects with the module, plain create_stog on the module's own list).

   Model: the state is the pool of StogHist.v plus the list of indices the module holds.
   Like there, it is a function of the CURRENT values: the module keeps nothing else, so
   every recognition is [call] on the current list - whatever was answered before. *)
From FrameModel Require Import Num.QcTac Geometry.Rect Stog.CreateStog Stog.StogFacts Stog.StogHist.
From Coq Require Import Permutation Lia.
Open Scope list_scope.
Open Scope Qc_scope.

Inductive mop :=
  | MObj (op : hop)          (* an operation of StogHist.v on the objects (a call there is a plain
                                create_stog on ANOTHER list object holding pool objects) *)
  | MCreate                  (* m.create_stog(), then m.has_stog *)
  | MPlain                   (* geometry.create_stog(m.rectangles): the plain function on the module's own list *)
  | MAdd (i : nat)           (* m.add_rectangle(pool[i]) or m.rectangles.append(pool[i]) *)
  | MInsert (pos i : nat)    (* m.rectangles.insert(pos, pool[i]) *)
  | MRemove (i : nat)        (* m.rectangles.remove(pool[i]) / pop / del *)
  | MSet (idxs : list nat)   (* clear_rectangles (idxs = []), clear + re-adding, slice assignment, reverse,
                                Netlist.assign_rectangles (after the HNew of its new objects) *)
  | MShift (dx dy : Qc).     (* recenter_rectangles: every rectangle of the module moved by (dx, dy) in place *)

Definition shift_all (pool : list Rect) (ml : list nat) (dx dy : Qc) : list Rect :=
  fold_left (fun p i => upd p i (fun r => set_center r (cx r + dx) (cy r + dy))) ml pool.

(* the operations that are no recognition: new pool, new list of the module *)
Definition mstep (pool : list Rect) (ml : list nat) (op : mop) : list Rect * list nat :=
  match op with
  | MObj o => (apply_op pool o, ml)
  | MAdd i => (pool, ml ++ [i])
  | MInsert pos i => (pool, firstn pos ml ++ i :: skipn pos ml)
  | MRemove i => (pool, filter (fun j => negb (Nat.eqb j i)) ml)
  | MSet idxs => (pool, idxs)
  | MShift dx dy => (shift_all pool ml dx dy, ml)
  | MCreate | MPlain => (pool, ml)
  end.

(* one record per recognition (of the module or plain), as in StogHist.v *)
Fixpoint run_mhist (eps aeps : Qc) (pool : list Rect) (ml : list nat) (ops : list mop) : list step :=
  match ops with
  | [] => []
  | MObj (HCall idxs) :: rest =>
      let res := call eps aeps pool idxs in
      (pool, idxs, res) ::
      run_mhist eps aeps (match res with Some (_, _, p) => p | None => pool end) ml rest
  | (MCreate | MPlain) :: rest =>
      let res := call eps aeps pool ml in
      (pool, ml, res) ::
      match res with
      | Some (_, ml', p) => run_mhist eps aeps p ml' rest
      | None => run_mhist eps aeps pool ml rest
      end
  | op :: rest => let '(p, l) := mstep pool ml op in run_mhist eps aeps p l rest
  end.

(* m.has_stog: the module has rectangles and the first one carries the role TRUNK *)
Definition has_stog (pool : list Rect) (ml : list nat) : bool :=
  match ml with
  | [] => false
  | i :: _ => match nth_error pool i with Some r => loc_eqb (rloc r) TRUNK | None => false end
  end.

(* ---------- facts ---------- *)
Lemma call_step_ok eps aeps pool idxs : step_ok eps aeps (pool, idxs, call eps aeps pool idxs).
Proof.
  cbn. destruct (call eps aeps pool idxs) as [[[b ix] p]|] eqn:C; [|exact I].
  destruct (call_spec _ _ _ _ _ _ _ C) as (rs & out & A1 & A2 & A3 & A4 & _ & A5 & A6 & A7).
  exists rs, out. auto 10.
Qed.

(* every recognition of every module history - through the module or through the plain function,
   after the rectangles changed by whatever route - is create_stog on fresh copies of the current
   geometry of the rectangles the module holds at that moment *)
Theorem mhist_steps_ok eps aeps ops : forall pool ml, Forall (step_ok eps aeps) (run_mhist eps aeps pool ml ops).
Proof.
  induction ops as [|op ops IH]; intros pool ml; cbn [run_mhist]; [constructor|].
  destruct op as [o| | |i|pos i|i|idxs|dx dy].
  - destruct o; try (cbn [mstep]; apply IH).
    constructor; [apply call_step_ok|apply IH].
  - constructor; [apply call_step_ok|]. destruct (call eps aeps pool ml) as [[[b ix] p]|]; apply IH.
  - constructor; [apply call_step_ok|]. destruct (call eps aeps pool ml) as [[[b ix] p]|]; apply IH.
  - cbn [mstep]. apply IH.
  - cbn [mstep]. apply IH.
  - cbn [mstep]. apply IH.
  - cbn [mstep]. apply IH.
  - cbn [mstep]. apply IH.
Qed.

(* the roles clause of the property at one recognition *)
Definition step_roles (eps aeps : Qc) (s : step) : Prop :=
  match s with
  | (pre, idxs, Some (false, idxs', post)) =>
      idxs' = idxs /\ forall i, In i idxs -> exists r, nth_error post i = Some r /\ rloc r = NOPOLY
  | (pre, idxs, Some (true, idxs', post)) =>
      exists i0 rest t rs, idxs' = i0 :: rest /\ nth_error post i0 = Some (set_loc t TRUNK) /\
        gather post rest = Some rs /\
        Forall (fun r => rloc r <> NOPOLY /\ rloc r <> TRUNK /\ abuts eps aeps (rloc r) t r) rs
  | _ => True
  end.

Lemma step_ok_roles eps aeps s : step_ok eps aeps s -> step_roles eps aeps s.
Proof.
  destruct s as [[pre idxs] [[[b idxs'] post]|]]; [|cbn; auto].
  intros (rs & out & G & G' & C & P & K & M & O). destruct b; cbn.
  - destruct (create_stog_true _ _ _ _ C) as (t & rest & -> & _ & F & _).
    destruct idxs' as [|i0 irest]; [discriminate|]. cbn in G'.
    destruct (nth_error post i0) as [r0|] eqn:E0; [|discriminate].
    destruct (gather post irest) as [l|] eqn:E1; [|discriminate]. injection G' as -> ->.
    exists i0, irest, t, rest. auto.
  - destruct (create_stog_false _ _ _ _ C) as (_ & F & _).
    rewrite (K eq_refl) in *. split; [reflexivity|].
    intros i Hi. destruct (gather_in _ _ _ _ G' Hi) as (r & A & B). exists r. split; [exact A|].
    rewrite Forall_forall in F. apply F. exact B.
Qed.

Theorem mhist_roles eps aeps ops pool ml : Forall (step_roles eps aeps) (run_mhist eps aeps pool ml ops).
Proof. eapply Forall_impl; [apply step_ok_roles|apply mhist_steps_ok]. Qed.

(* m.has_stog right after m.create_stog() is the answer *)
Theorem has_stog_after_call eps aeps pool ml b ml' pool' :
  call eps aeps pool ml = Some (b, ml', pool') -> has_stog pool' ml' = b.
Proof.
  intro C. pose proof (call_step_ok eps aeps pool ml) as S. rewrite C in S.
  apply step_ok_roles in S. cbn in S. destruct b.
  - destruct S as (i0 & rest & t & rs & -> & E & _). cbn. rewrite E. reflexivity.
  - destruct S as (-> & F). destruct ml as [|i ml]; [reflexivity|].
    cbn. destruct (F i (or_introl eq_refl)) as (r & E & L). rewrite E, L. reflexivity.
Qed.

(* non-vacuity, and the history the cached answer of a module gets wrong: an L-shaped pair is added to a
   module (branch first) and recognised; the branch is then moved away IN PLACE, not through the module:
   the second recognition is negative, nothing carries a role, has_stog is false; moved back through
   the setter: positive again *)
Example ex_mhist :
  map visible (run_mhist (qc 1 1024) (qc 1 32) [ex_b; ex_t] []
     [MAdd 0; MAdd 1; MCreate; MObj (HMove InPlace 0 (qc 2 1) (qc 20 1)); MCreate;
      MObj (HMove Setter 0 (cx ex_b) (cy ex_b)); MCreate; MRemove 0; MCreate])%nat =
  [Some (true, [1; 0]%nat, Some [set_loc ex_t TRUNK; set_loc ex_b NORTH]);
   Some (false, [1; 0]%nat, Some [ex_t; set_center ex_b (qc 2 1) (qc 20 1)]);
   Some (true, [1; 0]%nat, Some [set_loc ex_t TRUNK; set_loc ex_b NORTH]);
   Some (true, [1]%nat, Some [set_loc ex_t TRUNK])].
Proof. vm_compute. reflexivity. Qed.
