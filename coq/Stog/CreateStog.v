(* Model of Rectangle.find_location and create_stog (frame/geometry/geometry.py).
   Definitions only. create_stog mirrors the repaired code: the trunk candidate
   is skipped by identity (position), not by value equality. *)
From FrameModel Require Import Num.QcTac Geometry.Rect.
Open Scope Qc_scope.

Definition almost_eq (v1 v2 eps : Qc) : bool := Qcltb (Qcabs (v1 - v2)) eps.

Definition set_loc (r : Rect) (l : loc) : Rect :=
  mkRect (cx r) (cy r) (rw r) (rh r) (fixed r) (hard r) (region r) l.

Definition find_location (eps aeps : Qc) (t r : Rect) : loc :=
  if Qcltb aeps (area_overlap t r) then NOPOLY else
  let side :=
    if almost_eq (ymax t) (ymin r) eps then Some NORTH
    else if almost_eq (ymin t) (ymax r) eps then Some SOUTH
    else if almost_eq (xmax t) (xmin r) eps then Some EAST
    else if almost_eq (xmin t) (xmax r) eps then Some WEST
    else None in
  match side with
  | None => NOPOLY
  | Some NORTH | Some SOUTH =>
      if Qcltb (xmin t - eps) (xmin r) && Qcltb (xmax r) (xmax t + eps)
      then match side with Some l => l | None => NOPOLY end else NOPOLY
  | Some l =>
      if Qcltb (ymin t - eps) (ymin r) && Qcltb (ymax r) (ymax t + eps) then l else NOPOLY
  end.

Definition is_side (l : loc) : bool := negb (loc_eqb l NOPOLY).

(* all(r is trunk or trunk.find_location(r) != NO_POLYGON for r in rectangles) *)
Fixpoint valid_from (eps aeps : Qc) (t : Rect) (i j : nat) (rs : list Rect) : bool :=
  match rs with
  | [] => true
  | r :: rest => (Nat.eqb j i || is_side (find_location eps aeps t r)) &&
                 valid_from eps aeps t i (S j) rest
  end.
Definition valid_trunk eps aeps (all : list Rect) (i : nat) (t : Rect) : bool :=
  valid_from eps aeps t i 0 all.

(* the scan with its early break: stop at the first candidate whose area does
   not exceed the best one found so far *)
Fixpoint scan eps aeps (all rs : list Rect) (i : nat) (best : option (nat * Qc)) : option (nat * Qc) :=
  match rs with
  | [] => best
  | t :: rest =>
      match best with
      | Some (b, ab) =>
          if Qcleb (area t) ab then best
          else if valid_trunk eps aeps all i t then scan eps aeps all rest (S i) (Some (i, area t))
          else scan eps aeps all rest (S i) best
      | None =>
          if valid_trunk eps aeps all i t then scan eps aeps all rest (S i) (Some (i, area t))
          else scan eps aeps all rest (S i) None
      end
  end.

Fixpoint set_nth {A} (l : list A) (n : nat) (x : A) : list A :=
  match l, n with
  | [], _ => []
  | _ :: r, O => x :: r
  | y :: r, S m => y :: set_nth r m x
  end.
(* rectangles[0], rectangles[b] = rectangles[b], rectangles[0] *)
Definition swap0 (l : list Rect) (b : nat) : list Rect :=
  match l with
  | [] => []
  | h :: _ => match nth_error l b with
              | Some x => set_nth (set_nth l b h) 0 x
              | None => l
              end
  end.

(* result: None = the assertion len > 0 fails *)
Definition create_stog (eps aeps : Qc) (rs : list Rect) : option (bool * list Rect) :=
  match rs with
  | [] => None
  | [r] => Some (true, [set_loc r TRUNK])
  | _ =>
      let rs0 := map (fun r => set_loc r NOPOLY) rs in
      match scan eps aeps rs0 rs0 0 None with
      | None => Some (false, rs0)
      | Some (b, _) =>
          match swap0 rs0 b with
          | [] => None
          | t :: rest =>
              Some (true, set_loc t TRUNK ::
                          map (fun r => set_loc r (find_location eps aeps t r)) rest)
          end
      end
  end.
