(* Object histories of create_stog (frame/geometry/geometry.py).

   The Python function works on Rectangle OBJECTS: it reads their centre and shape,
   overwrites their location (role) and reorders the list it is given.  The objects
   survive the call, may be put into other lists (sub-lists, permutations, with a new
   rectangle prepended or replacing one), may be moved or resized in place
   (r.center.x = ..., r.shape.w = ...) or through the setters (r.center = Point(..)),
   and may carry any role an earlier call or the public location setter left behind.

   Model: a pool (list) of Rect values indexed by object identity; an operation
   sequence [hop]; [call] = create_stog on the list of objects named by an index list,
   the result written back into the pool (roles) and into the index list (order).
   The model is a function of the CURRENT VALUES of the objects; the facts below say
   that the incoming roles never matter, that a call touches nothing but the roles of
   the objects in its list, and that every call in every history returns exactly what
   create_stog returns on fresh copies of the current geometry. *)
From FrameModel Require Import Num.QcTac Geometry.Rect Stog.CreateStog Stog.StogFacts.
From Coq Require Import Permutation Lia.
Open Scope list_scope.
Open Scope Qc_scope.

(* ---------- the operations ---------- *)
(* how a coordinate was written: through the attribute of the Point / Shape object the
   rectangle holds (r.center.x = v, r.center.x += d, r.shape.w = v) or by giving the
   rectangle a new Point / Shape (r.center = Point(x, y)).  The model is a function of
   the values, so both mean the same. *)
Inductive mech := InPlace | Setter.

Inductive hop :=
  | HCall (idxs : list nat)                 (* create_stog([pool[i] for i in idxs]) *)
  | HMove (m : mech) (i : nat) (x y : Qc)   (* the centre of pool[i] becomes (x, y) *)
  | HResize (m : mech) (i : nat) (w h : Qc) (* the shape of pool[i] becomes (w, h) *)
  | HSetLoc (i : nat) (l : loc)             (* pool[i].location = l (public setter) *)
  | HNew (r : Rect)                         (* a new Rectangle object is appended to the pool *)
  | HProbe (i j : nat).                     (* pool[i].find_location(pool[j]), area_overlap, bounding_box: reads only *)

Definition set_center (r : Rect) (x y : Qc) : Rect :=
  mkRect x y (rw r) (rh r) (fixed r) (hard r) (region r) (rloc r).
Definition set_shape (r : Rect) (w h : Qc) : Rect :=
  mkRect (cx r) (cy r) w h (fixed r) (hard r) (region r) (rloc r).

Definition upd (pool : list Rect) (i : nat) (f : Rect -> Rect) : list Rect :=
  match nth_error pool i with
  | Some r => set_nth pool i (f r)
  | None => pool
  end.

Definition apply_op (pool : list Rect) (op : hop) : list Rect :=
  match op with
  | HMove _ i x y => upd pool i (fun r => set_center r x y)
  | HResize _ i w h => upd pool i (fun r => set_shape r w h)
  | HSetLoc i l => upd pool i (fun r => set_loc r l)
  | HNew r => pool ++ [r]
  | HProbe _ _ => pool
  | HCall _ => pool
  end.

(* ---------- a call on a list of objects ---------- *)
Fixpoint gather (pool : list Rect) (idxs : list nat) : option (list Rect) :=
  match idxs with
  | [] => Some []
  | i :: rest =>
      match nth_error pool i, gather pool rest with
      | Some r, Some l => Some (r :: l)
      | _, _ => None
      end
  end.

(* object idxs[k] receives the value rs[k] *)
Fixpoint scatter (pool : list Rect) (idxs : list nat) (rs : list Rect) : list Rect :=
  match idxs, rs with
  | i :: is', r :: rs' => set_nth (scatter pool is' rs') i r
  | _, _ => pool
  end.

(* rectangles[0], rectangles[b] = rectangles[b], rectangles[0] on any list *)
Definition swapg {A} (l : list A) (b : nat) : list A :=
  match l with
  | [] => []
  | h :: _ => match nth_error l b with
              | Some x => set_nth (set_nth l b h) 0 x
              | None => l
              end
  end.

(* the position create_stog's scan selects (None: one rectangle, or no trunk) *)
Definition trunk_pos (eps aeps : Qc) (rs : list Rect) : option nat :=
  match rs with
  | [] => None
  | [_] => None
  | _ => let rs0 := map (fun r => set_loc r NOPOLY) rs in
         match scan eps aeps rs0 rs0 0 None with
         | Some (b, _) => Some b
         | None => None
         end
  end.
(* the reordering create_stog applies to the list it is given *)
Definition reorder {A} (eps aeps : Qc) (rs : list Rect) (l : list A) : list A :=
  match trunk_pos eps aeps rs with
  | Some b => swapg l b
  | None => l
  end.

Fixpoint nodupb (l : list nat) : bool :=
  match l with
  | [] => true
  | x :: r => negb (existsb (Nat.eqb x) r) && nodupb r
  end.

(* result: the answer, the list of objects after the call, the pool after the call.
   None: the assertion len > 0 fails, an index names no object, or the same object occurs
   twice in the list (the model of create_stog identifies the trunk candidate by position,
   the code by object identity: the two agree on lists of distinct objects) *)
Definition call (eps aeps : Qc) (pool : list Rect) (idxs : list nat)
  : option (bool * list nat * list Rect) :=
  if nodupb idxs then
    match gather pool idxs with
    | None => None
    | Some rs =>
        match create_stog eps aeps rs with
        | None => None
        | Some (b, out) =>
            let idxs' := reorder eps aeps rs idxs in
            Some (b, idxs', scatter pool idxs' out)
        end
    end
  else None.

(* ---------- a history ---------- *)
(* one record per call: the pool before, the list, the result *)
Definition step : Type := (list Rect * list nat * option (bool * list nat * list Rect))%type.

Fixpoint run_hist (eps aeps : Qc) (pool : list Rect) (ops : list hop) : list step :=
  match ops with
  | [] => []
  | HCall idxs :: rest =>
      let res := call eps aeps pool idxs in
      (pool, idxs, res) ::
      run_hist eps aeps (match res with Some (_, _, p) => p | None => pool end) rest
  | op :: rest => run_hist eps aeps (apply_op pool op) rest
  end.

(* what a caller sees of a call: the answer, the order of the list, the roles of its objects *)
Definition visible (s : step) : option (bool * list nat * option (list Rect)) :=
  match s with
  | (_, _, Some (b, idxs', post)) => Some (b, idxs', gather post idxs')
  | (_, _, None) => None
  end.

(* ====================================================================== *)
(*                                 facts                                  *)
(* ====================================================================== *)

Lemma geom_idem r : geom (geom r) = geom r.
Proof. reflexivity. Qed.
Lemma geom_set_loc r l : geom (set_loc r l) = geom r.
Proof. reflexivity. Qed.
Lemma map_geom_nopoly rs : map (fun r => set_loc r NOPOLY) rs = map geom rs.
Proof. reflexivity. Qed.

(* ---------- create_stog does not read the incoming roles ---------- *)
Lemma create_stog_geom eps aeps rs : create_stog eps aeps (map geom rs) = create_stog eps aeps rs.
Proof.
  unfold create_stog. destruct rs as [|r [|r' rs]]; [reflexivity|reflexivity|].
  cbn [map]. change (set_loc (geom r) NOPOLY) with (geom r).
  change (set_loc (geom r') NOPOLY) with (geom r').
  rewrite map_map.
  replace (map (fun x : Rect => set_loc (geom x) NOPOLY) rs) with (map (fun r => set_loc r NOPOLY) rs)
    by (apply map_ext; reflexivity).
  reflexivity.
Qed.

Theorem create_stog_ignores_old_roles eps aeps rs rs' :
  map geom rs = map geom rs' -> create_stog eps aeps rs = create_stog eps aeps rs'.
Proof. intro H. rewrite <- (create_stog_geom eps aeps rs), <- (create_stog_geom eps aeps rs'), H. reflexivity. Qed.

Lemma trunk_pos_geom eps aeps rs rs' : map geom rs = map geom rs' -> trunk_pos eps aeps rs = trunk_pos eps aeps rs'.
Proof.
  intro H. unfold trunk_pos.
  destruct rs as [|r [|r2 rs]]; destruct rs' as [|r' [|r2' rs']]; try discriminate; try reflexivity.
  rewrite !map_geom_nopoly, H. reflexivity.
Qed.

(* ---------- set_nth, swapg ---------- *)
Lemma length_set_nth {A} (l : list A) n x : List.length (set_nth l n x) = List.length l.
Proof. revert n; induction l as [|a l IH]; intros [|n]; cbn; auto. Qed.
Lemma nth_error_set_nth_eq {A} (l : list A) n x : (n < List.length l)%nat -> nth_error (set_nth l n x) n = Some x.
Proof. revert n; induction l as [|a l IH]; intros [|n] H; cbn in *; try lia; auto. apply IH. lia. Qed.
Lemma nth_error_set_nth_neq {A} (l : list A) n m x : m <> n -> nth_error (set_nth l n x) m = nth_error l m.
Proof.
  revert n m; induction l as [|a l IH]; intros [|n] [|m] H; cbn; try reflexivity; try congruence.
  apply IH. congruence.
Qed.
Lemma set_nth_same {A} (l : list A) n x : nth_error l n = Some x -> set_nth l n x = l.
Proof.
  revert n; induction l as [|a l IH]; intros [|n] H; cbn in *; try discriminate.
  - congruence.
  - rewrite IH; auto.
Qed.
Lemma map_set_nth {A B} (f : A -> B) l n x : map f (set_nth l n x) = set_nth (map f l) n (f x).
Proof. revert n; induction l as [|a l IH]; intros [|n]; cbn; try reflexivity. rewrite IH. reflexivity. Qed.

Lemma swap0_swapg l b : swap0 l b = swapg l b.
Proof. reflexivity. Qed.
Lemma map_swapg {A B} (f : A -> B) l b : map f (swapg l b) = swapg (map f l) b.
Proof.
  unfold swapg. destruct l as [|h l]; [reflexivity|].
  cbn [map]. change (f h :: map f l) with (map f (h :: l)). rewrite nth_error_map.
  destruct (nth_error (h :: l) b) as [x|]; cbn [option_map]; [|reflexivity].
  rewrite !map_set_nth. reflexivity.
Qed.
Lemma length_swapg {A} (l : list A) b : List.length (swapg l b) = List.length l.
Proof.
  unfold swapg. destruct l as [|h l]; [reflexivity|].
  destruct (nth_error (h :: l) b); [|reflexivity]. rewrite !length_set_nth. reflexivity.
Qed.
Lemma swapg_perm {A} (l : list A) b : Permutation l (swapg l b).
Proof.
  unfold swapg. destruct l as [|h l]; [constructor|].
  destruct (nth_error (h :: l) b) as [x|] eqn:H; [|apply Permutation_refl].
  destruct b as [|b].
  - cbn in H. injection H as <-. cbn. apply Permutation_refl.
  - cbn in H. apply nth_error_split in H. destruct H as (l1 & l2 & -> & Hlen).
    cbn [set_nth]. rewrite <- Hlen, set_nth_app.
    change (h :: l1 ++ x :: l2) with ((h :: l1) ++ x :: l2).
    apply Permutation_trans with (l' := x :: (h :: l1) ++ l2).
    + apply Permutation_sym. apply Permutation_middle.
    + constructor. cbn. apply Permutation_middle.
Qed.
Lemma reorder_perm {A} eps aeps rs (l : list A) : Permutation l (reorder eps aeps rs l).
Proof. unfold reorder. destruct (trunk_pos eps aeps rs); [apply swapg_perm|apply Permutation_refl]. Qed.
Lemma map_reorder {A B} (f : A -> B) eps aeps rs l : map f (reorder eps aeps rs l) = reorder eps aeps rs (map f l).
Proof. unfold reorder. destruct (trunk_pos eps aeps rs); [apply map_swapg|reflexivity]. Qed.
Lemma length_reorder {A} eps aeps rs (l : list A) : List.length (reorder eps aeps rs l) = List.length l.
Proof. unfold reorder. destruct (trunk_pos eps aeps rs); [apply length_swapg|reflexivity]. Qed.

(* ---------- the output of create_stog is the reordered input, up to roles ---------- *)
Lemma create_stog_reorder eps aeps rs b out :
  create_stog eps aeps rs = Some (b, out) -> map geom out = reorder eps aeps rs (map geom rs).
Proof.
  unfold create_stog, reorder, trunk_pos. destruct rs as [|r [|r' rs]]; [discriminate| |].
  { intro H; injection H as <- <-. reflexivity. }
  set (rs1 := r :: r' :: rs). set (rs0 := map (fun r => set_loc r NOPOLY) rs1).
  destruct (scan eps aeps rs0 rs0 0 None) as [[k a]|] eqn:S.
  - rewrite swap0_swapg. destruct (swapg rs0 k) as [|t rest] eqn:E; [discriminate|].
    intro H; injection H as <- <-.
    cbn [map]. rewrite map_map.
    change (geom (set_loc t TRUNK)) with (geom t).
    replace (map (fun x : Rect => geom (set_loc x (find_location eps aeps t x))) rest) with (map geom rest)
      by (apply map_ext; reflexivity).
    change (geom t :: map geom rest) with (map geom (t :: rest)). rewrite <- E, map_swapg.
    unfold rs0. rewrite map_map. reflexivity.
  - intro H; injection H as <- <-. unfold rs0. rewrite map_map. reflexivity.
Qed.

Lemma create_stog_false_pos eps aeps rs out :
  create_stog eps aeps rs = Some (false, out) -> trunk_pos eps aeps rs = None.
Proof.
  unfold create_stog, trunk_pos. destruct rs as [|r [|r' rs]]; [reflexivity|reflexivity|].
  set (rs0 := map (fun r => set_loc r NOPOLY) (r :: r' :: rs)).
  destruct (scan eps aeps rs0 rs0 0 None) as [[k a]|]; [|reflexivity].
  destruct (swap0 rs0 k); discriminate.
Qed.

(* ---------- gather / scatter ---------- *)
Lemma gather_spec pool idxs rs : gather pool idxs = Some rs <-> map (nth_error pool) idxs = map Some rs.
Proof.
  revert rs; induction idxs as [|i idxs IH]; intros rs; cbn.
  - split; intro H; [injection H as <-; reflexivity|destruct rs; [reflexivity|discriminate]].
  - destruct (nth_error pool i) as [r|] eqn:E.
    + destruct (gather pool idxs) as [l|].
      * split; intro H.
        { injection H as <-. cbn. f_equal. apply IH. reflexivity. }
        { destruct rs as [|r0 rs]; [discriminate|]. cbn in H. injection H as -> H.
          apply IH in H. injection H as ->. reflexivity. }
      * split; intro H; [discriminate|]. destruct rs as [|r0 rs]; [discriminate|].
        cbn in H. injection H as _ H. apply IH in H. discriminate.
    + split; intro H; [discriminate|]. destruct rs; discriminate.
Qed.
Lemma gather_length pool idxs rs : gather pool idxs = Some rs -> List.length rs = List.length idxs.
Proof. intro H. apply gather_spec in H. apply (f_equal (@List.length _)) in H. rewrite !map_length in H. auto. Qed.

Lemma gather_reorder eps aeps rs0 pool idxs rs :
  gather pool idxs = Some rs -> gather pool (reorder eps aeps rs0 idxs) = Some (reorder eps aeps rs0 rs).
Proof. intro H. apply gather_spec. apply gather_spec in H. rewrite !map_reorder, H. reflexivity. Qed.

Lemma gather_ext pool pool' idxs :
  (forall i, In i idxs -> nth_error pool' i = nth_error pool i) -> gather pool' idxs = gather pool idxs.
Proof.
  induction idxs as [|i idxs IH]; intro H; cbn; [reflexivity|].
  rewrite (H i (or_introl eq_refl)), IH; [reflexivity|]. intros j Hj. apply H. right; exact Hj.
Qed.

Lemma length_scatter pool idxs rs : List.length (scatter pool idxs rs) = List.length pool.
Proof.
  revert rs; induction idxs as [|i idxs IH]; intros [|r rs]; cbn; try reflexivity.
  rewrite length_set_nth. apply IH.
Qed.
Lemma scatter_other pool idxs rs i : ~ In i idxs -> nth_error (scatter pool idxs rs) i = nth_error pool i.
Proof.
  revert rs; induction idxs as [|j idxs IH]; intros [|r rs] H; cbn; try reflexivity.
  rewrite nth_error_set_nth_neq; [apply IH|]; intro; apply H; cbn; auto.
Qed.
Lemma gather_scatter pool idxs rs out :
  NoDup idxs -> gather pool idxs = Some rs -> List.length out = List.length idxs ->
  gather (scatter pool idxs out) idxs = Some out.
Proof.
  revert rs out; induction idxs as [|i idxs IH]; intros rs [|o out] N G L; cbn in *; try discriminate; [reflexivity|].
  inversion N as [|? ? Hni N']; subst.
  destruct (nth_error pool i) as [r|] eqn:E; [|discriminate].
  destruct (gather pool idxs) as [l|] eqn:G'; [|discriminate].
  rewrite nth_error_set_nth_eq.
  2:{ rewrite length_scatter. apply nth_error_Some. congruence. }
  rewrite (gather_ext (scatter pool idxs out)).
  - rewrite (IH l out N' eq_refl); [reflexivity|lia].
  - intros j Hj. apply nth_error_set_nth_neq. intro; subst; contradiction.
Qed.
Lemma cons_inj {A} (x y : A) l l' : x :: l = y :: l' -> x = y /\ l = l'.
Proof. intro H; injection H; auto. Qed.
Lemma scatter_geom pool idxs rs out :
  gather pool idxs = Some rs -> map geom out = map geom rs ->
  map geom (scatter pool idxs out) = map geom pool.
Proof.
  revert rs out; induction idxs as [|i idxs IH]; intros rs [|o out] G M; cbn [gather scatter] in *; try reflexivity.
  destruct (nth_error pool i) as [r|] eqn:E; [|discriminate].
  destruct (gather pool idxs) as [l|] eqn:G'; [|discriminate]. injection G as <-.
  cbn [map] in M. apply cons_inj in M. destruct M as [Mo Ml].
  rewrite map_set_nth, (IH l out eq_refl Ml).
  apply set_nth_same. rewrite nth_error_map, E, Mo. reflexivity.
Qed.

Lemma nodupb_NoDup l : nodupb l = true -> NoDup l.
Proof.
  induction l as [|x l IH]; cbn; intro H; [constructor|].
  apply andb_true_iff in H. destruct H as [H1 H2]. constructor; [|auto].
  intro Hin. apply negb_true_iff in H1.
  assert (existsb (Nat.eqb x) l = true) by (apply existsb_exists; exists x; split; [exact Hin|apply Nat.eqb_refl]).
  congruence.
Qed.

(* ---------- one call ---------- *)
(* a call on reused objects returns what create_stog returns on fresh copies of their
   current geometry; it permutes the list, keeps the geometry of every object and touches
   no object outside the list *)
Theorem call_spec eps aeps pool idxs b idxs' pool' :
  call eps aeps pool idxs = Some (b, idxs', pool') ->
  exists rs out,
    gather pool idxs = Some rs /\ gather pool' idxs' = Some out /\
    create_stog eps aeps (map geom rs) = Some (b, out) /\
    Permutation idxs idxs' /\ NoDup idxs /\ (b = false -> idxs' = idxs) /\
    map geom pool' = map geom pool /\
    (forall i, ~ In i idxs -> nth_error pool' i = nth_error pool i).
Proof.
  unfold call. destruct (nodupb idxs) eqn:N; [|discriminate]. apply nodupb_NoDup in N.
  destruct (gather pool idxs) as [rs|] eqn:G; [|discriminate].
  destruct (create_stog eps aeps rs) as [[b0 out]|] eqn:C; [|discriminate].
  intro H; injection H as <- <- <-.
  pose proof (create_stog_reorder _ _ _ _ _ C) as R.
  pose proof (gather_reorder eps aeps rs _ _ _ G) as G2.
  pose proof (reorder_perm eps aeps rs idxs) as P.
  exists rs, out. repeat split.
  - eapply gather_scatter; [eapply Permutation_NoDup; eauto|exact G2|].
    apply (f_equal (@List.length _)) in R. rewrite map_length in R. rewrite R.
    rewrite !length_reorder, map_length. eapply gather_length; eauto.
  - rewrite create_stog_geom. exact C.
  - exact P.
  - exact N.
  - intros ->. unfold reorder. rewrite (create_stog_false_pos _ _ _ _ C). reflexivity.
  - eapply scatter_geom; [exact G2|]. rewrite R, map_reorder. reflexivity.
  - intros i Hi. apply scatter_other. intro Hin. apply Hi.
    eapply Permutation_in; [apply Permutation_sym; exact P|exact Hin].
Qed.

(* two pools holding the same geometry (whatever roles) answer a call alike: same answer,
   same order, same roles on the objects of the list, same geometry afterwards *)
Lemma gather_geom pool pool' idxs : map geom pool = map geom pool' ->
  match gather pool idxs, gather pool' idxs with
  | Some rs, Some rs' => map geom rs = map geom rs'
  | None, None => True
  | _, _ => False
  end.
Proof.
  intro H. induction idxs as [|i idxs IH]; cbn [gather]; [reflexivity|].
  assert (Hi : option_map geom (nth_error pool i) = option_map geom (nth_error pool' i))
    by (rewrite <- !nth_error_map, H; reflexivity).
  destruct (nth_error pool i) as [r|], (nth_error pool' i) as [r'|]; cbn [option_map] in Hi; try discriminate.
  - destruct (gather pool idxs), (gather pool' idxs); try exact IH. cbn [map].
    assert (Hg : geom r = geom r') by congruence. rewrite Hg, IH. reflexivity.
  - destruct (gather pool idxs), (gather pool' idxs); auto.
Qed.

Theorem call_ignores_old_roles eps aeps pool pool' idxs : map geom pool = map geom pool' ->
  match call eps aeps pool idxs, call eps aeps pool' idxs with
  | Some (b, ix, p), Some (b', ix', p') =>
      b = b' /\ ix = ix' /\ map geom p = map geom p' /\ gather p ix = gather p' ix'
  | None, None => True
  | _, _ => False
  end.
Proof.
  intro H.
  destruct (call eps aeps pool idxs) as [[[b ix] p]|] eqn:C1.
  - pose proof C1 as C1'. unfold call in C1'. destruct (nodupb idxs) eqn:N; [|discriminate].
    destruct (gather pool idxs) as [rs|] eqn:G; [|discriminate].
    destruct (create_stog eps aeps rs) as [[b0 out]|] eqn:C; [|discriminate].
    injection C1' as <- <- <-.
    pose proof (gather_geom pool pool' idxs H) as GG. rewrite G in GG.
    unfold call. rewrite N. destruct (gather pool' idxs) as [rs'|] eqn:G'; [|contradiction].
    rewrite <- (create_stog_ignores_old_roles eps aeps rs rs' GG), C.
    assert (E : forall A (l : list A), reorder eps aeps rs' l = reorder eps aeps rs l).
    { intros A l. unfold reorder. rewrite (trunk_pos_geom eps aeps rs rs' GG). reflexivity. }
    rewrite E.
    destruct (call_spec _ _ _ _ _ _ _ C1) as (rs1 & out1 & G1 & G1' & C1s & _ & _ & _ & M1 & _).
    assert (C2 : call eps aeps pool' idxs = Some (b0, reorder eps aeps rs idxs, scatter pool' (reorder eps aeps rs idxs) out)).
    { unfold call. rewrite N, G', <- (create_stog_ignores_old_roles eps aeps rs rs' GG), C, E. reflexivity. }
    destruct (call_spec _ _ _ _ _ _ _ C2) as (rs2 & out2 & G2 & G2' & C2s & _ & _ & _ & M2 & _).
    repeat split.
    + rewrite M1, M2. exact H.
    + rewrite G1', G2'. f_equal.
      rewrite G in G1. injection G1 as <-. rewrite G' in G2. injection G2 as <-.
      rewrite GG in C1s. congruence.
  - unfold call in *. destruct (nodupb idxs); [|exact I].
    pose proof (gather_geom pool pool' idxs H) as GG.
    destruct (gather pool idxs) as [rs|] eqn:G.
    + destruct (gather pool' idxs) as [rs'|]; [|contradiction].
      rewrite <- (create_stog_ignores_old_roles eps aeps rs rs' GG).
      destruct (create_stog eps aeps rs) as [[b0 out]|]; [discriminate|exact I].
    + destruct (gather pool' idxs); [contradiction|exact I].
Qed.

(* ---------- the other operations ---------- *)
Lemma map_upd (h f f' : Rect -> Rect) pool i : (forall r, h (f r) = f' (h r)) ->
  map h (upd pool i f) = upd (map h pool) i f'.
Proof.
  intro E. unfold upd. rewrite nth_error_map. destruct (nth_error pool i) as [r|]; cbn; [|reflexivity].
  rewrite map_set_nth, E. reflexivity.
Qed.
Lemma upd_id pool i : upd pool i (fun r => r) = pool.
Proof. unfold upd. destruct (nth_error pool i) eqn:E; [apply set_nth_same; exact E|reflexivity]. Qed.

Lemma apply_op_geom pool pool' op : map geom pool = map geom pool' ->
  map geom (apply_op pool op) = map geom (apply_op pool' op).
Proof.
  intro H. destruct op as [idxs|m i x y|m i w h|i l|r|i j]; cbn [apply_op]; try exact H.
  - rewrite (map_upd geom _ (fun r => set_center r x y) pool), (map_upd geom _ (fun r => set_center r x y) pool'), H; reflexivity.
  - rewrite (map_upd geom _ (fun r => set_shape r w h) pool), (map_upd geom _ (fun r => set_shape r w h) pool'), H; reflexivity.
  - rewrite (map_upd geom _ (fun r => r) pool), (map_upd geom _ (fun r => r) pool'), H; reflexivity.
  - rewrite !map_app, H. reflexivity.
Qed.

(* the way a coordinate is written does not matter *)
Lemma mech_irrelevant pool m m' i x y w h :
  apply_op pool (HMove m i x y) = apply_op pool (HMove m' i x y) /\
  apply_op pool (HResize m i w h) = apply_op pool (HResize m' i w h).
Proof. split; reflexivity. Qed.

(* ---------- histories ---------- *)
(* every call of every history: create_stog on fresh copies of the current geometry *)
Definition step_ok (eps aeps : Qc) (s : step) : Prop :=
  match s with
  | (pre, idxs, Some (b, idxs', post)) =>
      exists rs out,
        gather pre idxs = Some rs /\ gather post idxs' = Some out /\
        create_stog eps aeps (map geom rs) = Some (b, out) /\
        Permutation idxs idxs' /\ (b = false -> idxs' = idxs) /\ map geom post = map geom pre /\
        (forall i, ~ In i idxs -> nth_error post i = nth_error pre i)
  | (_, _, None) => True
  end.

Theorem hist_steps_ok eps aeps ops : forall pool, Forall (step_ok eps aeps) (run_hist eps aeps pool ops).
Proof.
  induction ops as [|op ops IH]; intro pool; cbn [run_hist]; [constructor|].
  destruct op; try apply IH.
  constructor; [|apply IH].
  cbn. destruct (call eps aeps pool idxs) as [[[b ix] p]|] eqn:C; [|exact I].
  destruct (call_spec _ _ _ _ _ _ _ C) as (rs & out & A1 & A2 & A3 & A4 & _ & A5 & A6 & A7).
  exists rs, out. auto 10.
Qed.

(* what the caller sees of a history does not depend on the roles the objects carried at its start *)
Theorem hist_ignores_old_roles eps aeps ops : forall pool pool', map geom pool = map geom pool' ->
  map visible (run_hist eps aeps pool ops) = map visible (run_hist eps aeps pool' ops).
Proof.
  induction ops as [|op ops IH]; intros pool pool' H; cbn [run_hist]; [reflexivity|].
  destruct op as [idxs|m i x y|m i w h|i l|r|i j];
    try (apply IH; apply (apply_op_geom pool pool' _ H)).
  pose proof (call_ignores_old_roles eps aeps pool pool' idxs H) as C.
  destruct (call eps aeps pool idxs) as [[[b ix] p]|], (call eps aeps pool' idxs) as [[[b' ix'] p']|];
    try contradiction.
  - destruct C as (-> & -> & M & G). cbn [map visible]. rewrite G. f_equal. apply IH. exact M.
  - cbn [map visible]. f_equal. apply IH. exact H.
Qed.

(* the clause of the property the histories are about: a negative answer leaves no role on any
   rectangle of the list and keeps its order, whatever the objects went through before; a positive
   one puts a trunk first and gives every other rectangle the side it abuts *)
Lemma gather_in pool idxs rs i : gather pool idxs = Some rs -> In i idxs ->
  exists r, nth_error pool i = Some r /\ In r rs.
Proof.
  revert rs; induction idxs as [|j idxs IH]; intros rs G Hin; [destruct Hin|].
  cbn in G. destruct (nth_error pool j) as [r|] eqn:E; [|discriminate].
  destruct (gather pool idxs) as [l|] eqn:G'; [|discriminate]. injection G as <-.
  destruct Hin as [->|Hin].
  - exists r. split; [exact E|left; reflexivity].
  - destruct (IH l eq_refl Hin) as (r' & A & B). exists r'. split; [exact A|right; exact B].
Qed.

Theorem hist_roles eps aeps ops pool :
  Forall (fun s : step => match s with
     | (pre, idxs, Some (false, idxs', post)) =>
         idxs' = idxs /\ forall i, In i idxs -> exists r, nth_error post i = Some r /\ rloc r = NOPOLY
     | (pre, idxs, Some (true, idxs', post)) =>
         exists i0 rest t rs, idxs' = i0 :: rest /\ nth_error post i0 = Some (set_loc t TRUNK) /\
           gather post rest = Some rs /\
           Forall (fun r => rloc r <> NOPOLY /\ rloc r <> TRUNK /\ abuts eps aeps (rloc r) t r) rs
     | _ => True end) (run_hist eps aeps pool ops).
Proof.
  eapply Forall_impl; [|apply hist_steps_ok].
  intros [[pre idxs] [[[b idxs'] post]|]]; [|auto].
  intros (rs & out & G & G' & C & P & K & M & O). destruct b.
  - destruct (create_stog_true _ _ _ _ C) as (t & rest & -> & _ & F & _).
    destruct idxs' as [|i0 irest]; [discriminate|]. cbn in G'.
    destruct (nth_error post i0) as [r0|] eqn:E0; [|discriminate].
    destruct (gather post irest) as [l|] eqn:E1; [|discriminate]. injection G' as -> ->.
    exists i0, irest, t, rest. auto.
  - destruct (create_stog_false _ _ _ _ C) as (_ & F & _).
    rewrite (K eq_refl) in *. split; [reflexivity|].
    intros i Hi. destruct (gather_in _ _ _ _ G' Hi) as (r & A & B). exists r. split; [exact A|].
    rewrite Forall_forall in F. apply F. exact B.
Qed.

(* non-vacuity: an L-shaped pair is recognised (branch NORTH); the trunk is then replaced by a fresh
   rectangle far away and put in front: the answer is negative and the branch has lost its role *)
Definition ex_far := mkRect (qc 50 1) (qc 50 1) (qc 4 1) (qc 4 1) false false "_" NOPOLY.
Example ex_hist :
  map visible (run_hist (qc 1 1024) (qc 1 32) [ex_b; ex_t] [HCall [0; 1]; HNew ex_far; HCall [2; 0]])%nat =
  [Some (true, [1; 0]%nat, Some [set_loc ex_t TRUNK; set_loc ex_b NORTH]);
   Some (false, [2; 0]%nat, Some [ex_far; ex_b])].
Proof. vm_compute. reflexivity. Qed.
