(* Stability of create_stog: running it on its own output returns the same
   list with the same roles.

   The scan of create_stog keeps the FIRST valid trunk and afterwards replaces
   it only by a later valid candidate of STRICTLY larger area; it stops at the
   first candidate whose area does not exceed the best one.  Hence, when the
   scan has chosen position b:
     - every earlier position is either no valid trunk or has a smaller area
       (it was a previous best), and
     - the scan of the positions after b, started with b as the best one,
       ends with b.
   After the swap the trunk is at position 0; it is still a valid trunk
   (validity of a candidate depends only on the other rectangles, not on their
   order), every position up to b either breaks the scan (area not larger) or
   is no valid trunk, and the positions after b behave as before.  So the
   second scan answers 0, the swap is the identity and find_location gives the
   same roles. *)
From FrameModel Require Import Num.QcTac Geometry.Rect Geometry.RectFacts Stog.CreateStog Stog.StogFacts.
From Coq Require Import Permutation.
Open Scope list_scope.
Open Scope Qc_scope.

(* ---------- the result of a scan never has a smaller area than its start ---------- *)
Lemma scan_mono eps aeps all rs : forall i b0 a0 b1 a1,
  scan eps aeps all rs i (Some (b0, a0)) = Some (b1, a1) -> a0 <= a1.
Proof.
  induction rs as [|t rs IH]; intros i b0 a0 b1 a1 H; cbn [scan] in H.
  - inversion H; subst. apply Qcle_refl.
  - destruct (Qcleb (area t) a0) eqn:E.
    + inversion H; subst. apply Qcle_refl.
    + apply Qcleb_false in E. destruct (valid_trunk eps aeps all i t).
      * apply IH in H. qlra.
      * eapply IH; eauto.
Qed.

(* ---------- anatomy of a successful scan ---------- *)
Lemma scan_anatomy eps aeps all rs : forall i best b a,
  scan eps aeps all rs i best = Some (b, a) ->
  best = Some (b, a) \/
  exists l1 tb l2, rs = l1 ++ tb :: l2 /\ b = (i + List.length l1)%nat /\ a = area tb /\
    valid_trunk eps aeps all b tb = true /\
    (forall k t, nth_error l1 k = Some t -> valid_trunk eps aeps all (i + k) t = false \/ area t <= a) /\
    scan eps aeps all l2 (S b) (Some (b, a)) = Some (b, a).
Proof.
  induction rs as [|t rs IH]; intros i best b a H; cbn [scan] in H; [left; exact H|].
  (* the two continuations *)
  assert (Kvalid : valid_trunk eps aeps all i t = true ->
            scan eps aeps all rs (S i) (Some (i, area t)) = Some (b, a) ->
            exists l1 tb l2, t :: rs = l1 ++ tb :: l2 /\ b = (i + List.length l1)%nat /\ a = area tb /\
              valid_trunk eps aeps all b tb = true /\
              (forall k t0, nth_error l1 k = Some t0 ->
                 valid_trunk eps aeps all (i + k) t0 = false \/ area t0 <= a) /\
              scan eps aeps all l2 (S b) (Some (b, a)) = Some (b, a)).
  { intros V H'. pose proof (scan_mono _ _ _ _ _ _ _ _ _ H') as Hm.
    destruct (IH _ _ _ _ H') as [E|(l1 & tb & l2 & -> & -> & -> & Vb & Hl1 & Hl2)].
    - inversion E; subst. exists [], t, rs. cbn [app List.length]. rewrite Nat.add_0_r.
      repeat split; auto. intros k t0 Hk. destruct k; discriminate.
    - exists (t :: l1), tb, l2. cbn [app List.length].
      replace (i + S (List.length l1))%nat with (S i + List.length l1)%nat by lia.
      repeat split; auto. intros k t0 Hk. destruct k as [|k]; cbn in Hk.
      + inversion Hk; subst. right. exact Hm.
      + replace (i + S k)%nat with (S i + k)%nat by lia. apply Hl1. exact Hk. }
  assert (Kinvalid : forall best', valid_trunk eps aeps all i t = false ->
            scan eps aeps all rs (S i) best' = Some (b, a) ->
            best' = Some (b, a) \/
            exists l1 tb l2, t :: rs = l1 ++ tb :: l2 /\ b = (i + List.length l1)%nat /\ a = area tb /\
              valid_trunk eps aeps all b tb = true /\
              (forall k t0, nth_error l1 k = Some t0 ->
                 valid_trunk eps aeps all (i + k) t0 = false \/ area t0 <= a) /\
              scan eps aeps all l2 (S b) (Some (b, a)) = Some (b, a)).
  { intros best' V H'.
    destruct (IH _ _ _ _ H') as [E|(l1 & tb & l2 & -> & -> & -> & Vb & Hl1 & Hl2)]; [left; exact E|right].
    exists (t :: l1), tb, l2. cbn [app List.length].
    replace (i + S (List.length l1))%nat with (S i + List.length l1)%nat by lia.
    repeat split; auto. intros k t0 Hk. destruct k as [|k]; cbn in Hk.
    + inversion Hk; subst. left. rewrite Nat.add_0_r. exact V.
    + replace (i + S k)%nat with (S i + k)%nat by lia. apply Hl1. exact Hk. }
  destruct best as [[b0 a0]|].
  - destruct (Qcleb (area t) a0); [left; exact H|].
    destruct (valid_trunk eps aeps all i t) eqn:V; [right; auto|auto].
  - destruct (valid_trunk eps aeps all i t) eqn:V; [right; auto|auto].
Qed.

(* ---------- a scan that keeps its best: the index plays no role, and only
   the validity of the candidates that do not break the scan matters ---------- *)
Lemma scan_stay_transfer eps aeps all all' rs : forall i i' b b' a,
  scan eps aeps all rs i (Some (b, a)) = Some (b, a) ->
  (forall k t, nth_error rs k = Some t ->
     valid_trunk eps aeps all' (i' + k) t = valid_trunk eps aeps all (i + k) t) ->
  scan eps aeps all' rs i' (Some (b', a)) = Some (b', a).
Proof.
  induction rs as [|t rs IH]; intros i i' b b' a H Hv; cbn [scan] in *; [reflexivity|].
  destruct (Qcleb (area t) a) eqn:E; [reflexivity|].
  pose proof (Hv 0%nat t eq_refl) as V0. rewrite !Nat.add_0_r in V0. rewrite V0.
  destruct (valid_trunk eps aeps all i t).
  - exfalso. apply scan_mono in H. apply Qcleb_false in E. qlra.
  - eapply IH; [exact H|]. intros k t0 Hk.
    replace (S i' + k)%nat with (i' + S k)%nat by lia.
    replace (S i + k)%nat with (i + S k)%nat by lia. apply Hv. exact Hk.
Qed.

(* candidates that break the scan or are no valid trunk are passed over *)
Lemma scan_skip eps aeps all rs rest : forall i b a,
  (forall k t, nth_error rs k = Some t -> area t <= a \/ valid_trunk eps aeps all (i + k) t = false) ->
  scan eps aeps all rest (i + List.length rs) (Some (b, a)) = Some (b, a) ->
  scan eps aeps all (rs ++ rest) i (Some (b, a)) = Some (b, a).
Proof.
  induction rs as [|t rs IH]; intros i b a Hs Hr; cbn [app List.length] in *.
  - rewrite Nat.add_0_r in Hr. exact Hr.
  - cbn [scan]. destruct (Qcleb (area t) a) eqn:E; [reflexivity|].
    destruct (Hs 0%nat t eq_refl) as [Hle|Hv].
    + exfalso. apply Qcleb_false in E. qlra.
    + rewrite Nat.add_0_r in Hv. rewrite Hv. apply IH.
      * intros k t0 Hk. replace (S i + k)%nat with (i + S k)%nat by lia. apply Hs. exact Hk.
      * replace (S i + List.length rs)%nat with (i + S (List.length rs))%nat by lia. exact Hr.
Qed.

(* ---------- validity of a trunk does not depend on the order of the others ---------- *)
Lemma valid_trunk_reindex eps aeps all all' (sigma : nat -> nat) i t :
  (forall k, nth_error all' k = nth_error all (sigma k)) ->
  (forall k, sigma (sigma k) = k) ->
  valid_trunk eps aeps all' (sigma i) t = valid_trunk eps aeps all i t.
Proof.
  intros Hn Hs.
  assert (Inj : forall k, sigma k = sigma i -> k = i).
  { intros k E. rewrite <- (Hs k), E. apply Hs. }
  destruct (valid_trunk eps aeps all i t) eqn:V.
  - apply valid_trunk_spec. rewrite valid_trunk_spec in V.
    intros k r Hk Hne. rewrite Hn in Hk. apply (V _ _ Hk).
    intros E. apply Hne. rewrite <- E. symmetry. apply Hs.
  - destruct (valid_trunk eps aeps all' (sigma i) t) eqn:V'; [|reflexivity].
    rewrite <- V. symmetry. apply valid_trunk_spec. rewrite valid_trunk_spec in V'.
    intros k r Hk Hne. apply (V' (sigma k) r).
    + rewrite Hn, Hs. exact Hk.
    + intros E. apply Hne. apply Inj. exact E.
Qed.

(* the transposition of 0 and b *)
Definition tr (b k : nat) : nat := if Nat.eqb k 0 then b else if Nat.eqb k b then 0%nat else k.
Lemma tr_invol b k : tr b (tr b k) = k.
Proof.
  unfold tr. destruct (Nat.eqb k 0) eqn:E0.
  - apply Nat.eqb_eq in E0. subst. destruct (Nat.eqb b 0) eqn:Eb.
    + apply Nat.eqb_eq in Eb. exact Eb.
    + rewrite Nat.eqb_refl. reflexivity.
  - destruct (Nat.eqb k b) eqn:Eb.
    + apply Nat.eqb_eq in Eb. subst. reflexivity.
    + rewrite E0, Eb. reflexivity.
Qed.

Lemma tr_b b : tr b b = 0%nat.
Proof. unfold tr. destruct (Nat.eqb b 0) eqn:E; [apply Nat.eqb_eq in E; exact E|]. rewrite Nat.eqb_refl. reflexivity. Qed.
Lemma tr_0 b : tr b 0 = b.
Proof. reflexivity. Qed.
Lemma tr_other b k : k <> 0%nat -> k <> b -> tr b k = k.
Proof. intros H0 Hb. unfold tr. apply Nat.eqb_neq in H0, Hb. rewrite H0, Hb. reflexivity. Qed.

Lemma swap0_split h (m : list Rect) x l2 :
  swap0 (h :: m ++ x :: l2) (S (List.length m)) = x :: m ++ h :: l2.
Proof.
  unfold swap0.
  assert (E : nth_error (h :: m ++ x :: l2) (S (List.length m)) = Some x).
  { cbn. rewrite nth_error_app2 by lia. rewrite Nat.sub_diag. reflexivity. }
  rewrite E. cbn [set_nth]. rewrite set_nth_app. reflexivity.
Qed.

Lemma nth_error_swapped h (m : list Rect) x l2 k :
  nth_error (x :: m ++ h :: l2) k = nth_error (h :: m ++ x :: l2) (tr (S (List.length m)) k).
Proof.
  unfold tr. destruct k as [|k]; cbn [Nat.eqb].
  - cbn. rewrite nth_error_app2 by lia. rewrite Nat.sub_diag. reflexivity.
  - destruct (Nat.eqb k (List.length m)) eqn:E.
    + apply Nat.eqb_eq in E. subst. cbn. rewrite nth_error_app2 by lia. rewrite Nat.sub_diag. reflexivity.
    + apply Nat.eqb_neq in E. cbn. destruct (Nat.lt_ge_cases k (List.length m)) as [L|G].
      * rewrite !nth_error_app1 by exact L. reflexivity.
      * rewrite !nth_error_app2 by lia.
        destruct (k - List.length m)%nat as [|j] eqn:Ej; [lia|reflexivity].
Qed.

(* ---------- the scan after the swap answers 0 ---------- *)
Theorem scan_stable eps aeps all b a :
  scan eps aeps all all 0 None = Some (b, a) ->
  scan eps aeps (swap0 all b) (swap0 all b) 0 None = Some (0%nat, a).
Proof.
  intros H. destruct (scan_anatomy _ _ _ _ _ _ _ _ H) as [E|(l1 & tb & l2 & Eall & Eb & Ea & Vb & Hl1 & Hl2)];
    [discriminate|].
  cbn [plus] in Eb. destruct l1 as [|h m].
  - (* the trunk was in front already *)
    cbn [List.length] in Eb. subst b. cbn [app] in Eall.
    assert (Es : swap0 all 0 = all) by (rewrite Eall; reflexivity).
    rewrite Es. exact H.
  - cbn [List.length app] in *. subst b.
    set (all' := tb :: m ++ h :: l2).
    assert (Es : swap0 all (S (List.length m)) = all') by (rewrite Eall; apply swap0_split).
    rewrite Es.
    assert (Hv : forall i t, valid_trunk eps aeps all' (tr (S (List.length m)) i) t =
                             valid_trunk eps aeps all i t).
    { intros i t. apply valid_trunk_reindex; [|apply tr_invol].
      intros k. rewrite Eall. apply nth_error_swapped. }
    unfold all' at 2. cbn [scan].
    assert (V0 : valid_trunk eps aeps all' 0 tb = true).
    { rewrite <- Vb. rewrite <- (Hv (S (List.length m)) tb). rewrite tr_b. reflexivity. }
    rewrite V0. rewrite <- Ea.
    change (m ++ h :: l2) with (m ++ [h] ++ l2). rewrite app_assoc.
    apply scan_skip.
    + intros k t Hk. destruct (Nat.lt_ge_cases k (List.length m)) as [L|G].
      * rewrite nth_error_app1 in Hk by exact L.
        destruct (Hl1 (S k) t Hk) as [V|A]; [right|left; exact A].
        rewrite <- V. cbn [plus]. rewrite <- Hv. rewrite tr_other by lia. reflexivity.
      * rewrite nth_error_app2 in Hk by exact G.
        destruct (k - List.length m)%nat as [|j] eqn:Ej; [|destruct j; discriminate].
        cbn in Hk. inversion Hk; subst t. assert (k = List.length m) by lia. subst k.
        destruct (Hl1 0%nat h eq_refl) as [V|A]; [right|left; exact A].
        rewrite <- V. cbn [plus]. rewrite <- Hv. rewrite tr_0. reflexivity.
    + rewrite app_length. cbn [List.length].
      eapply scan_stay_transfer; [exact Hl2|].
      intros k t Hk.
      rewrite <- Hv. rewrite tr_other by lia. f_equal. lia.
Qed.

(* ---------- create_stog on its own output ---------- *)
Lemma set_loc_same (r : Rect) : rloc r = NOPOLY -> set_loc r NOPOLY = r.
Proof. destruct r; cbn. intros ->. reflexivity. Qed.

Lemma map_set_loc_same (l : list Rect) :
  Forall (fun r => rloc r = NOPOLY) l -> map (fun r => set_loc r NOPOLY) l = l.
Proof.
  induction 1 as [|r l Hr _ IH]; [reflexivity|]. cbn [map]. rewrite IH, (set_loc_same _ Hr). reflexivity.
Qed.

Theorem create_stog_stable eps aeps rs flag out :
  create_stog eps aeps rs = Some (flag, out) -> create_stog eps aeps out = Some (flag, out).
Proof.
  unfold create_stog at 1. destruct rs as [|r [|r' rs]]; [discriminate| |].
  { intros H. inversion H; subst. reflexivity. }
  set (rs0 := map (fun r => set_loc r NOPOLY) (r :: r' :: rs)).
  assert (Hnp : Forall (fun r => rloc r = NOPOLY) rs0).
  { apply Forall_forall. intros x Hx. apply in_map_iff in Hx. destruct Hx as (x0 & <- & _). reflexivity. }
  destruct (scan eps aeps rs0 rs0 0 None) as [[b a]|] eqn:S.
  - pose proof (scan_stable _ _ _ _ _ S) as S'.
    assert (P : Permutation rs0 (swap0 rs0 b)).
    { assert (B : best_ok eps aeps rs0 (Some (b, a))) by (rewrite <- S; apply scan_some; cbn; auto).
      destruct B as (t & Ht & _). destruct (swap0_spec _ _ _ Ht) as (rest & -> & P & _). exact P. }
    destruct (swap0 rs0 b) as [|t rest] eqn:Es; [discriminate|].
    intros H. inversion H; subst flag out; clear H.
    assert (Hnp' : Forall (fun r => rloc r = NOPOLY) (t :: rest)).
    { rewrite Forall_forall in *. intros x Hx. apply Hnp. eapply Permutation_in; [apply Permutation_sym; exact P|exact Hx]. }
    assert (L : (2 <= List.length (t :: rest))%nat).
    { rewrite <- (Permutation_length P). unfold rs0. rewrite map_length. cbn. lia. }
    assert (R : map (fun r => set_loc r NOPOLY)
                    (set_loc t TRUNK :: map (fun r0 => set_loc r0 (find_location eps aeps t r0)) rest)
                = t :: rest).
    { cbn [map]. rewrite map_map. inversion Hnp' as [|? ? Ht Hrest]; subst.
      f_equal.
      - destruct t; cbn in *. subst. reflexivity.
      - cbn. rewrite <- (map_set_loc_same _ Hrest) at 2. apply map_ext. intros x. destruct x; reflexivity. }
    unfold create_stog.
    destruct rest as [|r1 rest1]; [cbn in L; lia|].
    cbn [map] in R |- *. cbn [map] in R. rewrite R. rewrite S'.
    assert (E0 : swap0 (t :: r1 :: rest1) 0 = t :: r1 :: rest1) by reflexivity.
    rewrite E0. reflexivity.
  - intros H. inversion H; subst flag out; clear H.
    unfold create_stog. unfold rs0 at 1. cbn [map].
    change (set_loc r NOPOLY :: set_loc r' NOPOLY :: map (fun r => set_loc r NOPOLY) rs) with rs0.
    rewrite (map_set_loc_same _ Hnp). rewrite S. reflexivity.
Qed.
