(* C06: find_location / create_stog are sound and complete w.r.t. the
   coordinate definition of "abuts one side of the trunk within its extent". *)
From FrameModel Require Import Num.QcTac Geometry.Rect Geometry.RectFacts Stog.CreateStog.
From Coq Require Import Permutation.
Open Scope list_scope.
Open Scope Qc_scope.

(* ---------- specification ---------- *)
Definition abuts (eps aeps : Qc) (side : loc) (t r : Rect) : Prop :=
  area_overlap t r <= aeps /\
  match side with
  | NORTH => Qcabs (ymax t - ymin r) < eps /\ xmin t - eps < xmin r /\ xmax r < xmax t + eps
  | SOUTH => Qcabs (ymin t - ymax r) < eps /\ xmin t - eps < xmin r /\ xmax r < xmax t + eps
  | EAST => Qcabs (xmax t - xmin r) < eps /\ ymin t - eps < ymin r /\ ymax r < ymax t + eps
  | WEST => Qcabs (xmin t - xmax r) < eps /\ ymin t - eps < ymin r /\ ymax r < ymax t + eps
  | TRUNK | NOPOLY => False
  end.

(* position i holds a trunk to which every rectangle at another position abuts *)
Definition is_stog_at (eps aeps : Qc) (rs : list Rect) (i : nat) (t : Rect) : Prop :=
  nth_error rs i = Some t /\
  forall j r, nth_error rs j = Some r -> j <> i -> exists s, abuts eps aeps s t r.
Definition is_stog eps aeps rs : Prop := exists i t, is_stog_at eps aeps rs i t.

(* rectangles larger than the tolerance band (otherwise two sides can be "almost equal" at once) *)
Definition nondegenerate (eps : Qc) (rs : list Rect) : Prop :=
  Forall (fun r => eps + eps <= rw r /\ eps + eps <= rh r) rs.

(* same rectangle up to its role label *)
Definition geom (r : Rect) := set_loc r NOPOLY.

(* ---------- find_location ---------- *)
Lemma almost_eq_true a b e : almost_eq a b e = true <-> Qcabs (a - b) < e.
Proof. unfold almost_eq. apply Qcltb_true. Qed.
Lemma almost_eq_false a b e : almost_eq a b e = false <-> e <= Qcabs (a - b).
Proof. unfold almost_eq. apply Qcltb_false. Qed.

Theorem find_location_sound eps aeps t r l :
  find_location eps aeps t r = l -> l <> NOPOLY -> abuts eps aeps l t r.
Proof.
  unfold find_location, abuts.
  destruct (Qcltb aeps (area_overlap t r)) eqn:Eo; [intros <- H; congruence|].
  apply Qcltb_false in Eo.
  destruct (almost_eq (ymax t) (ymin r) eps) eqn:E1.
  { apply almost_eq_true in E1.
    destruct (Qcltb (xmin t - eps) (xmin r) && Qcltb (xmax r) (xmax t + eps)) eqn:Ex; intros <- H; [|congruence].
    qb2p. auto. }
  destruct (almost_eq (ymin t) (ymax r) eps) eqn:E2.
  { apply almost_eq_true in E2.
    destruct (Qcltb (xmin t - eps) (xmin r) && Qcltb (xmax r) (xmax t + eps)) eqn:Ex; intros <- H; [|congruence].
    qb2p. auto. }
  destruct (almost_eq (xmax t) (xmin r) eps) eqn:E3.
  { apply almost_eq_true in E3.
    destruct (Qcltb (ymin t - eps) (ymin r) && Qcltb (ymax r) (ymax t + eps)) eqn:Ex; intros <- H; [|congruence].
    qb2p. auto. }
  destruct (almost_eq (xmin t) (xmax r) eps) eqn:E4.
  { apply almost_eq_true in E4.
    destruct (Qcltb (ymin t - eps) (ymin r) && Qcltb (ymax r) (ymax t + eps)) eqn:Ex; intros <- H; [|congruence].
    qb2p. auto. }
  intros <- H. congruence.
Qed.

Lemma find_location_range eps aeps t r :
  find_location eps aeps t r <> TRUNK.
Proof.
  unfold find_location.
  destruct (Qcltb aeps (area_overlap t r)); [discriminate|].
  destruct (almost_eq (ymax t) (ymin r) eps).
  { destruct (_ && _); discriminate. }
  destruct (almost_eq (ymin t) (ymax r) eps).
  { destruct (_ && _); discriminate. }
  destruct (almost_eq (xmax t) (xmin r) eps).
  { destruct (_ && _); discriminate. }
  destruct (almost_eq (xmin t) (xmax r) eps).
  { destruct (_ && _); discriminate. }
  discriminate.
Qed.

Theorem find_location_complete eps aeps t r l : wf t -> wf r ->
  eps + eps <= rw r -> eps + eps <= rh r ->
  abuts eps aeps l t r -> find_location eps aeps t r = l.
Proof.
  intros [Wt Ht] [Wr Hr] Dw Dh [Ho A]. unfold find_location.
  destruct (Qcltb aeps (area_overlap t r)) eqn:Eo; [apply Qcltb_true in Eo; exfalso; qlra|].
  assert (Xr : xmax r = xmin r + rw r) by (unfold xmax, xmin; qlra).
  assert (Yr : ymax r = ymin r + rh r) by (unfold ymax, ymin; qlra).
  assert (Xt : xmax t = xmin t + rw t) by (unfold xmax, xmin; qlra).
  assert (Yt : ymax t = ymin t + rh t) by (unfold ymax, ymin; qlra).
  revert A Xr Yr Xt Yt.
  generalize (xmin t) (xmax t) (ymin t) (ymax t) (xmin r) (xmax r) (ymin r) (ymax r).
  intros a b c d e f g h A Xr Yr Xt Yt.
  destruct l; try contradiction; destruct A as (A1 & A2 & A3).
  - (* NORTH *)
    rewrite (proj2 (almost_eq_true d g eps) A1).
    rewrite (proj2 (Qcltb_true _ _) A2), (proj2 (Qcltb_true _ _) A3). reflexivity.
  - (* SOUTH *)
    destruct (almost_eq d g eps) eqn:E1.
    { apply almost_eq_true in E1. exfalso. clear Eo Ho. qmlra. }
    rewrite (proj2 (almost_eq_true c h eps) A1).
    rewrite (proj2 (Qcltb_true _ _) A2), (proj2 (Qcltb_true _ _) A3). reflexivity.
  - (* EAST *)
    destruct (almost_eq d g eps) eqn:E1.
    { apply almost_eq_true in E1. exfalso. clear Eo Ho. qmlra. }
    destruct (almost_eq c h eps) eqn:E2.
    { apply almost_eq_true in E2. exfalso. clear Eo Ho. qmlra. }
    rewrite (proj2 (almost_eq_true b e eps) A1).
    rewrite (proj2 (Qcltb_true _ _) A2), (proj2 (Qcltb_true _ _) A3). reflexivity.
  - (* WEST *)
    destruct (almost_eq d g eps) eqn:E1.
    { apply almost_eq_true in E1. exfalso. clear Eo Ho. qmlra. }
    destruct (almost_eq c h eps) eqn:E2.
    { apply almost_eq_true in E2. exfalso. clear Eo Ho. qmlra. }
    destruct (almost_eq b e eps) eqn:E3.
    { apply almost_eq_true in E3. exfalso. clear Eo Ho. qmlra. }
    rewrite (proj2 (almost_eq_true a f eps) A1).
    rewrite (proj2 (Qcltb_true _ _) A2), (proj2 (Qcltb_true _ _) A3). reflexivity.
Qed.

(* role labels do not influence the geometry tests *)
Lemma find_location_set_loc eps aeps t r l1 l2 :
  find_location eps aeps (set_loc t l1) (set_loc r l2) = find_location eps aeps t r.
Proof. reflexivity. Qed.
Lemma abuts_set_loc eps aeps s t r l1 l2 :
  abuts eps aeps s (set_loc t l1) (set_loc r l2) <-> abuts eps aeps s t r.
Proof. reflexivity. Qed.

Lemma is_side_iff l : is_side l = true <-> l <> NOPOLY.
Proof. destruct l; cbn; split; intros; try congruence; try discriminate; auto. Qed.

(* ---------- valid_trunk ---------- *)
Lemma valid_from_spec eps aeps t i rs : forall j,
  valid_from eps aeps t i j rs = true <->
  (forall k r, nth_error rs k = Some r -> (j + k)%nat <> i -> is_side (find_location eps aeps t r) = true).
Proof.
  induction rs as [|x rs IH]; intro j; cbn [valid_from].
  - split; auto. intros _ k r H. destruct k; discriminate.
  - rewrite andb_true_iff, orb_true_iff, IH, Nat.eqb_eq. split.
    + intros [H0 H] k r Hk Hne. destruct k as [|k]; cbn in Hk.
      * injection Hk as <-. destruct H0 as [H0|H0]; [exfalso; apply Hne; lia|exact H0].
      * apply (H k r Hk). lia.
    + intro H. split.
      * destruct (Nat.eq_dec j i) as [E|E]; [left; exact E|right]. apply (H 0%nat x eq_refl). lia.
      * intros k r Hk Hne. apply (H (S k) r Hk). lia.
Qed.
Lemma valid_trunk_spec eps aeps all i t :
  valid_trunk eps aeps all i t = true <->
  (forall k r, nth_error all k = Some r -> k <> i -> is_side (find_location eps aeps t r) = true).
Proof. unfold valid_trunk. rewrite valid_from_spec. cbn. tauto. Qed.

(* ---------- scan ---------- *)
Definition best_ok eps aeps (all : list Rect) (best : option (nat * Qc)) : Prop :=
  match best with
  | None => True
  | Some (b, _) => exists t, nth_error all b = Some t /\ valid_trunk eps aeps all b t = true
  end.

Lemma scan_some eps aeps all rs : forall i best,
  (forall k r, nth_error rs k = Some r -> nth_error all (i + k) = Some r) ->
  best_ok eps aeps all best -> best_ok eps aeps all (scan eps aeps all rs i best).
Proof.
  induction rs as [|t rs IH]; intros i best Hpos Hb; cbn [scan]; [exact Hb|].
  assert (Hpos' : forall k r, nth_error rs k = Some r -> nth_error all (S i + k) = Some r).
  { intros k r Hk. replace (S i + k)%nat with (i + S k)%nat by lia. apply Hpos. exact Hk. }
  assert (Ht : nth_error all i = Some t).
  { replace i with (i + 0)%nat by lia. apply Hpos. reflexivity. }
  destruct best as [[b ab]|].
  - destruct (Qcleb (area t) ab); [exact Hb|].
    destruct (valid_trunk eps aeps all i t) eqn:V; apply IH; auto.
    cbn. exists t. auto.
  - destruct (valid_trunk eps aeps all i t) eqn:V; apply IH; auto.
    cbn. exists t. auto.
Qed.

Lemma scan_none eps aeps all rs : forall i,
  scan eps aeps all rs i None = None ->
  forall k t, nth_error rs k = Some t -> valid_trunk eps aeps all (i + k) t = false.
Proof.
  induction rs as [|x rs IH]; intros i H k t Hk; [destruct k; discriminate|].
  cbn [scan] in H. destruct (valid_trunk eps aeps all i x) eqn:V.
  - exfalso. clear IH Hk.
    assert (G : forall rs i b, scan eps aeps all rs i (Some b) <> None).
    { clear. induction rs as [|y rs IH]; intros i [b ab]; cbn [scan]; [discriminate|].
      destruct (Qcleb (area y) ab); [discriminate|].
      destruct (valid_trunk eps aeps all i y); apply IH. }
    apply (G _ _ _ H).
  - destruct k as [|k]; cbn in Hk.
    + injection Hk as <-. replace (i + 0)%nat with i by lia. exact V.
    + replace (i + S k)%nat with (S i + k)%nat by lia. apply (IH _ H). exact Hk.
Qed.

(* ---------- swap ---------- *)
Lemma set_nth_app {A} (l1 : list A) y l2 x :
  set_nth (l1 ++ y :: l2) (List.length l1) x = l1 ++ x :: l2.
Proof. induction l1 as [|a l1 IH]; cbn; [reflexivity|]. rewrite IH. reflexivity. Qed.

Lemma swap0_spec (l : list Rect) b x : nth_error l b = Some x ->
  exists rest, swap0 l b = x :: rest /\ Permutation l (x :: rest) /\
    (forall r, In r rest -> exists k, k <> b /\ nth_error l k = Some r).
Proof.
  intro H. destruct l as [|h l]; [destruct b; discriminate|].
  unfold swap0. rewrite H. destruct b as [|b].
  - cbn in H. injection H as <-. cbn. exists l. split; [reflexivity|]. split; [apply Permutation_refl|].
    intros r Hr. apply In_nth_error in Hr. destruct Hr as [k Hk]. exists (S k). split; [lia|exact Hk].
  - cbn in H. apply nth_error_split in H. destruct H as (l1 & l2 & -> & Hlen).
    cbn [set_nth]. rewrite <- Hlen, set_nth_app. exists (l1 ++ h :: l2). split; [reflexivity|]. split.
    + change (h :: l1 ++ x :: l2) with ((h :: l1) ++ x :: l2).
      apply Permutation_sym. apply Permutation_trans with (l' := x :: (h :: l1) ++ l2).
      * constructor. cbn. apply Permutation_sym. apply Permutation_middle.
      * apply Permutation_middle.
    + intros r Hr. apply in_app_or in Hr. destruct Hr as [Hr|[<-|Hr]].
      * apply In_nth_error in Hr. destruct Hr as [k Hk]. exists (S k). split.
        { assert (k < List.length l1)%nat by (apply nth_error_Some; congruence). lia. }
        cbn. rewrite nth_error_app1; [exact Hk|apply nth_error_Some; congruence].
      * exists 0%nat. split; [lia|reflexivity].
      * apply In_nth_error in Hr. destruct Hr as [k Hk]. exists (S (List.length l1 + S k)). split; [lia|].
        cbn. rewrite nth_error_app2 by lia. replace (List.length l1 + S k - List.length l1)%nat with (S k) by lia. exact Hk.
Qed.

(* ---------- create_stog ---------- *)
Lemma nth_error_map_set eps l k r :
  nth_error (map (fun r => set_loc r eps) l) k = Some r ->
  exists r0, nth_error l k = Some r0 /\ r = set_loc r0 eps.
Proof.
  rewrite nth_error_map. destruct (nth_error l k) as [r0|]; cbn; [|discriminate].
  intro H; injection H as <-. exists r0. auto.
Qed.

Theorem create_stog_defined eps aeps rs : rs <> [] -> exists b out, create_stog eps aeps rs = Some (b, out).
Proof.
  intro H. unfold create_stog. destruct rs as [|r [|r' rs]]; [congruence|eauto|].
  set (rs0 := map (fun r => set_loc r NOPOLY) (r :: r' :: rs)).
  destruct (scan eps aeps rs0 rs0 0 None) as [[b a]|] eqn:S; [|eauto].
  assert (B : best_ok eps aeps rs0 (Some (b, a))).
  { rewrite <- S. apply scan_some; cbn; auto. }
  destruct B as (t & Ht & _). destruct (swap0_spec _ _ _ Ht) as (rest & -> & _). eauto.
Qed.

(* soundness: a positive answer exhibits a trunk, puts it first and labels every
   other rectangle with the side it abuts; the output is a permutation of the
   input (same rectangles up to role labels) *)
Theorem create_stog_true eps aeps rs out :
  create_stog eps aeps rs = Some (true, out) ->
  exists t rest, out = set_loc t TRUNK :: rest /\
    Permutation (map geom rs) (map geom out) /\
    Forall (fun r => rloc r <> NOPOLY /\ rloc r <> TRUNK /\ abuts eps aeps (rloc r) t r) rest /\
    is_stog eps aeps rs.
Proof.
  unfold create_stog. destruct rs as [|r [|r' rs]]; [discriminate| |].
  { intro H; injection H as <-. exists r, []. split; [reflexivity|]. split; [apply Permutation_refl|].
    split; [constructor|]. exists 0%nat, r. split; [reflexivity|].
    intros j x Hj Hne. destruct j; [congruence|destruct j; discriminate]. }
  set (rs1 := r :: r' :: rs). set (rs0 := map (fun r => set_loc r NOPOLY) rs1).
  destruct (scan eps aeps rs0 rs0 0 None) as [[b a]|] eqn:S; [|discriminate].
  assert (B : best_ok eps aeps rs0 (Some (b, a))).
  { rewrite <- S. apply scan_some; cbn; auto. }
  destruct B as (t & Ht & Vt). destruct (swap0_spec _ _ _ Ht) as (rest & -> & P & Hrest).
  intro H; injection H as <-.
  rewrite valid_trunk_spec in Vt.
  exists t, (map (fun r0 => set_loc r0 (find_location eps aeps t r0)) rest).
  split; [reflexivity|]. split; [|split].
  - (* permutation *)
    apply Permutation_trans with (l' := map geom rs0).
    { unfold rs0. rewrite map_map. apply Permutation_refl. }
    apply Permutation_trans with (l' := map geom (t :: rest)); [apply Permutation_map; exact P|].
    cbn [map]. rewrite map_map. apply Permutation_refl.
  - apply Forall_forall. intros x Hx. apply in_map_iff in Hx. destruct Hx as (x0 & <- & Hx0).
    destruct (Hrest _ Hx0) as (k & Hk & Hnth). specialize (Vt k x0 Hnth Hk).
    apply is_side_iff in Vt. cbn [rloc set_loc].
    split; [exact Vt|]. split; [apply find_location_range|].
    apply (abuts_set_loc eps aeps _ t x0 NOPOLY (find_location eps aeps t x0)).
    apply find_location_sound; [reflexivity|exact Vt].
  - (* is_stog of the input *)
    destruct (nth_error_map_set _ _ _ _ Ht) as (t0 & Ht0 & Et).
    exists b, t0. split; [exact Ht0|]. intros j x Hj Hne.
    assert (Hj0 : nth_error rs0 j = Some (set_loc x NOPOLY)).
    { unfold rs0. rewrite nth_error_map, Hj. reflexivity. }
    specialize (Vt j _ Hj0 Hne). apply is_side_iff in Vt.
    exists (find_location eps aeps t (set_loc x NOPOLY)).
    subst t. apply (abuts_set_loc eps aeps _ t0 x NOPOLY NOPOLY).
    apply find_location_sound; [reflexivity|exact Vt].
Qed.

(* a negative answer leaves every rectangle without a role, in the input order *)
Theorem create_stog_false eps aeps rs out :
  create_stog eps aeps rs = Some (false, out) ->
  out = map geom rs /\ Forall (fun r => rloc r = NOPOLY) out /\
  (forall i t, nth_error rs i = Some t ->
     exists j r, nth_error rs j = Some r /\ j <> i /\ find_location eps aeps t r = NOPOLY).
Proof.
  unfold create_stog. destruct rs as [|r [|r' rs]]; [discriminate|discriminate|].
  set (rs1 := r :: r' :: rs). set (rs0 := map (fun r => set_loc r NOPOLY) rs1).
  destruct (scan eps aeps rs0 rs0 0 None) as [[b a]|] eqn:S.
  { assert (B : best_ok eps aeps rs0 (Some (b, a))) by (rewrite <- S; apply scan_some; cbn; auto).
    destruct B as (t & Ht & _). destruct (swap0_spec _ _ _ Ht) as (rest & -> & _). discriminate. }
  intro H; injection H as <-. split; [reflexivity|]. split.
  { apply Forall_forall. intros x Hx. apply in_map_iff in Hx. destruct Hx as (x0 & <- & _). reflexivity. }
  intros i t Hi.
  assert (Hi0 : nth_error rs0 i = Some (set_loc t NOPOLY)).
  { unfold rs0. rewrite nth_error_map. fold rs1. rewrite Hi. reflexivity. }
  pose proof (scan_none _ _ _ _ _ S i _ Hi0) as V. change (0 + i)%nat with i in V.
  (* not (forall ...) on a finite list: find the witness *)
  unfold valid_trunk in V.
  assert (W : forall rs j, valid_from eps aeps (set_loc t NOPOLY) i j rs = false ->
            exists k r, nth_error rs k = Some r /\ (j + k)%nat <> i /\
                        is_side (find_location eps aeps (set_loc t NOPOLY) r) = false).
  { clear. induction rs as [|x rs IH]; intros j H; cbn [valid_from] in H; [discriminate|].
    apply andb_false_iff in H. destruct H as [H|H].
    - apply orb_false_iff in H. destruct H as [H1 H2]. apply Nat.eqb_neq in H1.
      exists 0%nat, x. split; [reflexivity|]. split; [lia|exact H2].
    - destruct (IH _ H) as (k & r & A & B & C). exists (S k), r. split; [exact A|]. split; [lia|exact C]. }
  destruct (W _ _ V) as (k & x & Hk & Hne & Hs).
  destruct (nth_error_map_set _ _ _ _ Hk) as (x0 & Hx0 & ->).
  exists k, x0. split; [exact Hx0|]. split; [lia|].
  rewrite find_location_set_loc in Hs. destruct (find_location eps aeps t x0); cbn in Hs; congruence.
Qed.

(* completeness: if some position is a trunk (coordinate definition) the answer is positive *)
Theorem create_stog_complete eps aeps rs : Forall wf rs -> nondegenerate eps rs ->
  is_stog eps aeps rs -> exists out, create_stog eps aeps rs = Some (true, out).
Proof.
  intros Hwf Hnd (i & t & Hi & Hall).
  assert (Hne : rs <> []) by (intro E; subst; destruct i; discriminate).
  destruct (create_stog_defined eps aeps rs Hne) as ([|] & out & E); [eauto|].
  exfalso. destruct (create_stog_false _ _ _ _ E) as (_ & _ & W).
  destruct (W i t Hi) as (j & r & Hj & Hji & Hloc).
  destruct (Hall j r Hj Hji) as (s & Hs).
  assert (Wt : wf t) by (eapply Forall_forall in Hwf; [exact Hwf|eapply nth_error_In; exact Hi]).
  assert (Wr : wf r) by (eapply Forall_forall in Hwf; [exact Hwf|eapply nth_error_In; exact Hj]).
  assert (Dr : eps + eps <= rw r /\ eps + eps <= rh r).
  { unfold nondegenerate in Hnd. eapply Forall_forall in Hnd; [exact Hnd|eapply nth_error_In; exact Hj]. }
  rewrite (find_location_complete eps aeps t r s Wt Wr (proj1 Dr) (proj2 Dr) Hs) in Hloc.
  subst s. destruct Hs as [_ []].
Qed.

Theorem create_stog_iff eps aeps rs : rs <> [] -> Forall wf rs -> nondegenerate eps rs ->
  ((exists out, create_stog eps aeps rs = Some (true, out)) <-> is_stog eps aeps rs).
Proof.
  intros Hne Hwf Hnd. split.
  - intros (out & E). destruct (create_stog_true _ _ _ _ E) as (t & rest & _ & _ & _ & S). exact S.
  - apply create_stog_complete; assumption.
Qed.

(* non-vacuity: an L-shaped pair is a STOG; the same pair pulled apart is not *)
Definition ex_t := mkRect (qc 2 1) (qc 1 1) (qc 4 1) (qc 2 1) false false "_" NOPOLY.
Definition ex_b := mkRect (qc 1 1) (qc 3 1) (qc 2 1) (qc 2 1) false false "_" NOPOLY.
Example ex_stog : exists out, create_stog (qc 1 1024) (qc 1 32) [ex_b; ex_t] = Some (true, out) /\
  match out with t :: b :: nil => rloc t = TRUNK /\ rloc b = NORTH /\ cx t = qc 2 1 | _ => False end.
Proof. eexists. split. vm_compute. reflexivity. cbn. repeat split. Qed.
