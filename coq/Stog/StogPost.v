(* A verified checker of create_stog's post-condition, used by the
   correspondence so that *which* valid trunk the code selects is not part
   of the comparison (the property does not fix it). *)
From FrameModel Require Import Num.QcTac Geometry.Rect Stog.CreateStog Stog.StogFacts.
From Coq Require Import Permutation.
Open Scope list_scope.
Open Scope Qc_scope.

Definition geom_eqb (a b : Rect) : bool :=
  Qceqb (cx a) (cx b) && Qceqb (cy a) (cy b) && Qceqb (rw a) (rw b) && Qceqb (rh a) (rh b) &&
  Bool.eqb (fixed a) (fixed b) && Bool.eqb (hard a) (hard b) && String.eqb (region a) (region b).

Lemma geom_eqb_eq a b : geom_eqb a b = true -> geom a = geom b.
Proof.
  unfold geom_eqb. intro H. repeat (apply andb_true_iff in H; destruct H as [H ?]). qb2p.
  destruct a, b; cbn in *. unfold geom, set_loc; cbn.
  repeat match goal with H : Bool.eqb _ _ = true |- _ => apply eqb_prop in H end.
  match goal with H : String.eqb _ _ = true |- _ => apply String.eqb_eq in H end.
  congruence.
Qed.

Fixpoint remove1 (x : Rect) (l : list Rect) : option (list Rect) :=
  match l with
  | [] => None
  | y :: r => if geom_eqb x y then Some r else option_map (cons y) (remove1 x r)
  end.
Fixpoint perm_eqb (l1 l2 : list Rect) : bool :=
  match l1 with
  | [] => match l2 with [] => true | _ => false end
  | x :: r => match remove1 x l2 with Some l2' => perm_eqb r l2' | None => false end
  end.

Lemma remove1_perm x l l' : remove1 x l = Some l' ->
  Permutation (map geom l) (geom x :: map geom l').
Proof.
  revert l'. induction l as [|y r IH]; intros l' H; cbn in H; [discriminate|].
  destruct (geom_eqb x y) eqn:E.
  - injection H as <-. cbn. rewrite (geom_eqb_eq _ _ E). apply Permutation_refl.
  - destruct (remove1 x r) as [r'|]; cbn in H; [|discriminate]. injection H as <-.
    cbn. eapply Permutation_trans; [apply perm_skip; apply IH; reflexivity|]. apply perm_swap.
Qed.
Lemma perm_eqb_sound l1 : forall l2, perm_eqb l1 l2 = true ->
  Permutation (map geom l1) (map geom l2).
Proof.
  induction l1 as [|x r IH]; intros l2 H; cbn in H.
  - destruct l2; [apply Permutation_refl|discriminate].
  - destruct (remove1 x l2) as [l2'|] eqn:R; [|discriminate].
    apply Permutation_sym. eapply Permutation_trans; [apply remove1_perm; exact R|].
    cbn. apply perm_skip. apply Permutation_sym. apply IH. exact H.
Qed.

Definition stog_post_ok (eps aeps : Qc) (inp out : list Rect) (b : bool) : bool :=
  perm_eqb inp out &&
  if b then
    match out with
    | [] => false
    | t :: rest =>
        loc_eqb (rloc t) TRUNK &&
        forallb (fun r => is_side (rloc r) && negb (loc_eqb (rloc r) TRUNK) &&
                          loc_eqb (rloc r) (find_location eps aeps t r)) rest
    end
  else forallb (fun r => loc_eqb (rloc r) NOPOLY) out.

Lemma loc_eqb_eq a b : loc_eqb a b = true <-> a = b.
Proof. destruct a, b; cbn; split; intros; try discriminate; try reflexivity. Qed.

Theorem stog_post_ok_sound eps aeps inp out b : stog_post_ok eps aeps inp out b = true ->
  Permutation (map geom inp) (map geom out) /\
  (b = true -> exists t rest, out = t :: rest /\ rloc t = TRUNK /\
     Forall (fun r => rloc r <> NOPOLY /\ rloc r <> TRUNK /\ abuts eps aeps (rloc r) t r) rest) /\
  (b = false -> Forall (fun r => rloc r = NOPOLY) out).
Proof.
  unfold stog_post_ok. intro H. apply andb_true_iff in H. destruct H as [P H].
  split; [apply perm_eqb_sound; exact P|]. split; intro Hb; subst b.
  - destruct out as [|t rest]; [discriminate|]. apply andb_true_iff in H. destruct H as [Ht Hr].
    exists t, rest. split; [reflexivity|]. split; [apply loc_eqb_eq; exact Ht|].
    apply Forall_forall. intros r Hin. rewrite forallb_forall in Hr. specialize (Hr r Hin).
    apply andb_true_iff in Hr. destruct Hr as [Hr E]. apply andb_true_iff in Hr. destruct Hr as [S T].
    apply is_side_iff in S. apply loc_eqb_eq in E. apply negb_true_iff in T.
    split; [exact S|]. split; [intro C; rewrite C in T; discriminate|].
    apply find_location_sound; [symmetry; exact E|exact S].
  - apply Forall_forall. intros r Hin. rewrite forallb_forall in H. apply loc_eqb_eq. apply H. exact Hin.
Qed.

(* the model's own output always passes the checker's true/false clauses *)
Definition stog_decision (eps aeps : Qc) (rs : list Rect) : option bool :=
  match create_stog eps aeps rs with Some (b, _) => Some b | None => None end.
