(* Facts about Spectral/Iterate.v: the constructor keeps the input netlist; the CONCRETE iteration of
   spectral_layout_die (orthogonalize, centroids, the "all nodes in the same place" step, normalize, the
   convergence test, the iteration limit) keeps the length of the row and its fixed entries and leaves every
   movable entry within its span - on both paths of the step, for every graph, mass vector and start. *)
From FrameModel Require Import Num.QcTac Geometry.Rect Spectral.Normalize Spectral.NormalizeFacts
  Spectral.LayoutFacts Spectral.Iterate.
Open Scope Qc_scope.

(* ------------------------------------------------------------------ the constructor *)
Section ConstructorFacts.
  Context {A : Type}.
  Variable radius_of : smod A -> Qc.

  Lemma spectral_new_input (ms : list (smod A)) (nets : list net) (s0 : sess A (list net)) :
    spectral_new radius_of ms nets = Ok s0 ->
    ss_mods s0 = ms /\ ss_nets s0 = nets /\ clique_adj (List.length ms) nets = Ok (ss_adj s0) /\
    ss_fx s0 = map (fun m => s_fixed m) ms /\
    exists adj, sess_init radius_of (mkSnet ms adj nets) = Ok s0.
  Proof.
    unfold spectral_new. intros H.
    destruct (clique_adj (List.length ms) nets) as [adj| | |] eqn:Ec; try discriminate.
    assert (H' := H). unfold sess_init in H. cbn [s_mods s_adj s_nets] in H.
    destruct (negb (forallb (fun m => negb (s_fixed m) || has_centre m) ms)); [discriminate|].
    inversion H; subst s0; cbn. splits; auto. exists adj. exact H'.
  Qed.

  (* whatever calls follow on the object, the nets it holds are the nets of the INPUT, pin by pin *)
  Theorem constructed_session_same thr (ms : list (smod A)) (nets : list net) calls (s0 s : sess A (list net)) :
    spectral_new radius_of ms nets = Ok s0 -> sess_run thr calls s0 = Ok s ->
    ss_nets s = nets /\ clique_adj (List.length ms) nets = Ok (ss_adj s) /\
    List.length (ss_mods s) = List.length ms /\
    forall i m0, nth_error ms i = Some m0 ->
      exists m, nth_error (ss_mods s) i = Some m /\
        s_other m = s_other m0 /\ s_fixed m = s_fixed m0 /\ s_hard m = s_hard m0 /\ s_terminal m = s_terminal m0 /\
        map shape_of (s_rects m) = map shape_of (s_rects m0) /\ rects_area (s_rects m) = rects_area (s_rects m0) /\
        (s_hard m0 && negb (s_fixed m0) = false -> s_rects m = s_rects m0) /\
        (exists dx dy, s_rects m = map (shift dx dy) (s_rects m0)).
  Proof.
    intros Hn Hr. destruct (spectral_new_input _ _ _ Hn) as (_ & _ & Hc & _ & adj & Hi).
    pose proof (session_same thr radius_of (mkSnet ms adj nets) calls s0 s Hi Hr) as (N & Ad & L & M).
    cbn [s_nets s_adj s_mods] in *. splits; auto.
    assert (Ea : ss_adj s0 = adj).
    { unfold sess_init in Hi. cbn [s_mods s_adj s_nets] in Hi.
      destruct (negb (forallb (fun m => negb (s_fixed m) || has_centre m) ms)); [discriminate|].
      inversion Hi; reflexivity. }
    rewrite Ad, <- Ea. exact Hc.
  Qed.
End ConstructorFacts.

(* ------------------------------------------------------------------ the iteration *)
Lemma sub_scaled_length factor : forall cd ck fx, List.length (sub_scaled factor cd ck fx) = List.length cd.
Proof.
  induction cd as [|d cd IH]; intros [|k ck] [|f fx]; cbn [sub_scaled List.length]; auto.
Qed.

Lemma sub_scaled_fixed factor : forall cd ck fx j, nth_error fx j = Some true ->
  nth_error (sub_scaled factor cd ck fx) j = nth_error cd j.
Proof.
  induction cd as [|d cd IH]; intros [|k ck] [|f fx] j Hf; cbn [sub_scaled]; auto.
  destruct j as [|j]; cbn [nth_error] in *.
  - inversion Hf; subst. reflexivity.
  - apply IH; exact Hf.
Qed.

Lemma ortho_one_keeps atol ck cd mass fx cd' : ortho_one atol ck cd mass fx = Ok cd' ->
  List.length cd' = List.length cd /\ forall j, nth_error fx j = Some true -> nth_error cd' j = nth_error cd j.
Proof.
  unfold ortho_one. intros H.
  destruct (Qceqb (snd (num_den ck cd mass fx)) 0); [discriminate|].
  destruct (abs_norm_dot_product _ ck mass) as [dp| | |]; try discriminate.
  destruct (Qcltb dp atol); [|discriminate]. inversion H; subst cd'. split.
  - apply sub_scaled_length.
  - intros j Hf. apply sub_scaled_fixed; exact Hf.
Qed.

Lemma ortho_loop_keeps atol mass fx : forall cks cd cd', ortho_loop atol cks cd mass fx = Ok cd' ->
  List.length cd' = List.length cd /\ forall j, nth_error fx j = Some true -> nth_error cd' j = nth_error cd j.
Proof.
  induction cks as [|ck cks IH]; intros cd cd' H; cbn [ortho_loop] in H.
  - inversion H; subst. split; auto.
  - destruct (ortho_one atol ck cd mass fx) as [c1| | |] eqn:E1; try discriminate.
    destruct (ortho_one_keeps _ _ _ _ _ _ E1) as [L1 F1]. destruct (IH _ _ H) as [L2 F2]. split; [congruence|].
    intros j Hf. rewrite (F2 j Hf). apply F1; exact Hf.
Qed.

Lemma avg_length : forall a b, List.length (avg a b) = List.length a.
Proof. induction a as [|x a IH]; intros [|y b]; cbn [avg List.length]; auto. Qed.

(* 0.5 * (c + c) = c: the averaging step leaves an entry alone where both rows agree *)
Lemma avg_same : forall a b j, nth_error a j = nth_error b j -> nth_error (avg a b) j = nth_error a j.
Proof.
  induction a as [|x a IH]; intros [|y b] j H; cbn [avg]; auto.
  destruct j as [|j]; cbn [nth_error] in *.
  - inversion H; subst. f_equal. unfold half. qlra.
  - apply IH; exact H.
Qed.

Section IterationFacts.
  Variable thr atol eps : Qc.
  Variable adj : adjlist.
  Variable deg mass : list Qc.
  Variable fx : list bool.
  Variable spans : list Qc.

  Lemma iter_vec_keeps prev c co v : iter_vec atol eps adj deg mass fx prev c = Ok (co, v) ->
    List.length v = List.length c /\ forall j, nth_error fx j = Some true -> nth_error v j = nth_error c j.
  Proof.
    unfold iter_vec. intros H.
    destruct (ortho_loop atol prev c mass fx) as [co'| | |] eqn:Eo; try discriminate.
    destruct (calculate_centroids adj co' deg) as [tmp| | |]; try discriminate.
    destruct (spread (keep_fixed 0 co' fx tmp)) as [sp|]; [|discriminate].
    destruct (ortho_loop_keeps _ _ _ _ _ _ Eo) as [Lo Fo].
    inversion H; subst co v; clear H.
    destruct (Qcltb sp eps).
    - split; [rewrite avg_length, keep_fixed_length; exact Lo|].
      intros j Hf. rewrite avg_same; rewrite keep_fixed_nth by exact Hf; [apply Fo; exact Hf|reflexivity].
    - split; [rewrite keep_fixed_length; exact Lo|].
      intros j Hf. rewrite keep_fixed_nth by exact Hf. apply Fo; exact Hf.
  Qed.

  (* ONE iteration, whichever path it takes *)
  Lemma iter_step_post ref prev c co c' :
    iter_step thr atol eps adj deg mass fx spans prev c = Ok (co, c') ->
    post spans fx ref c -> post spans fx ref c'.
  Proof.
    unfold iter_step. intros H (L0 & F0 & _).
    destruct (iter_vec atol eps adj deg mass fx prev c) as [[co' v]| | |] eqn:Ev; try discriminate.
    destruct (normalize thr v spans fx) as [c1| | |] eqn:En; try discriminate.
    inversion H; subst co' c1; clear H.
    destruct (iter_vec_keeps _ _ _ _ Ev) as [Lv Fv]. destruct (normalize_post thr _ _ _ _ En) as (L1 & F1 & B1).
    split; [congruence|]. split.
    - intros j Hf. rewrite (F1 j Hf), (Fv j Hf). apply F0; exact Hf.
    - exact B1.
  Qed.

  Theorem iter_step_bound prev c co c' i y s :
    iter_step thr atol eps adj deg mass fx spans prev c = Ok (co, c') ->
    nth_error c' i = Some y -> nth_error spans i = Some s -> nth_error fx i = Some false -> 0 <= s ->
    Qcabs y <= s.
  Proof.
    unfold iter_step. intros H.
    destruct (iter_vec atol eps adj deg mass fx prev c) as [[co' v]| | |]; try discriminate.
    destruct (normalize thr v spans fx) as [c1| | |] eqn:En; try discriminate.
    inversion H; subst co' c1. eapply normalize_bound; eassumption.
  Qed.

  Theorem iter_step_fixed prev c co c' i :
    iter_step thr atol eps adj deg mass fx spans prev c = Ok (co, c') -> nth_error fx i = Some true ->
    nth_error c' i = nth_error c i.
  Proof.
    unfold iter_step. intros H Hf.
    destruct (iter_vec atol eps adj deg mass fx prev c) as [[co' v]| | |] eqn:Ev; try discriminate.
    destruct (normalize thr v spans fx) as [c1| | |] eqn:En; try discriminate.
    inversion H; subst co' c1. rewrite (normalize_fixed thr _ _ _ _ _ En Hf).
    apply (proj2 (iter_vec_keeps _ _ _ _ Ev)); exact Hf.
  Qed.

  (* the whole loop of a dimension: any number of iterations, stopped by the test or by the limit *)
  Lemma dim_iter_post ref prev : forall fuel dp c c' k,
    dim_iter thr atol eps adj deg mass fx spans fuel dp prev c = Ok (c', k) ->
    post spans fx ref c -> post spans fx ref c' /\ (k <= fuel)%nat.
  Proof.
    induction fuel as [|fuel IH]; intros dp c c' k H Hp; cbn [dim_iter] in H.
    - inversion H; subst. split; [exact Hp|lia].
    - destruct (goes_on eps dp).
      + destruct (iter_step thr atol eps adj deg mass fx spans prev c) as [[co c1]| | |] eqn:Es; try discriminate.
        destruct (abs_norm_dot_product co c1 mass) as [dp'| | |]; try discriminate.
        destruct (dim_iter thr atol eps adj deg mass fx spans fuel dp' prev c1) as [[r k']| | |] eqn:Ed;
          try discriminate.
        inversion H; subst r k; clear H.
        destruct (IH _ _ _ _ Ed (iter_step_post ref _ _ _ _ Es Hp)) as [P K]. split; [exact P|lia].
      + inversion H; subst. split; [exact Hp|lia].
  Qed.

  (* one dimension of spectral_layout_die with the concrete iteration *)
  Theorem dim_run_conc_post rnd d fuel size radius ini prev c k :
    spans = spans_of size radius ->
    dim_run_conc thr atol eps adj deg mass fx spans rnd d fuel size ini prev = Ok (c, k) ->
    List.length fx = List.length ini ->
    List.length c = List.length ini /\ (k <= fuel)%nat /\
    (forall j x, nth_error ini j = Some x -> nth_error fx j = Some true ->
                 nth_error c j = Some (x - size * half)) /\
    (forall j y r, nth_error c j = Some y -> nth_error radius j = Some r -> nth_error fx j = Some false ->
                   r <= size * half -> Qcabs y + r <= size * half).
  Proof.
    unfold dim_run_conc. intros Hsp Hr Hl.
    destruct (init_coord rnd 0 d 0 (size * half) fx ini) as [c0| | |] eqn:Ei; try discriminate.
    destruct (normalize thr c0 spans fx) as [c1| | |] eqn:En; try discriminate.
    apply normalize_post in En.
    destruct (dim_iter_post c0 _ _ _ _ _ _ Hr En) as ((L & Fx & Bd) & K).
    destruct (init_coord_post _ _ _ _ _ _ _ _ Ei Hl) as [L0 F0].
    split; [congruence|]. split; [exact K|]. split.
    - intros j x Hx Hf. rewrite (Fx j Hf). apply F0; assumption.
    - intros j y r Hy Hrad Hf Hle.
      assert (Hs : nth_error spans j = Some (size * half - r)).
      { subst spans. unfold spans_of. rewrite nth_error_map, Hrad. reflexivity. }
      specialize (Bd j y _ Hy Hs Hf ltac:(qlra)). qlra.
  Qed.
End IterationFacts.

