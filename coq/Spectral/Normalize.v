(* Model of tools/spectral/spectral_algorithm.py (normalize, orthogonalize,
   calculate_centroids, abs_norm_dot_product, wirelength, the shell of
   spectral_layout_die), tools/spectral/spectral.py (Spectral.spectral_layout) and
   Module.recenter_rectangles (frame/netlist/module.py).  DEFINITIONS ONLY.

   Concrete: the four kernels as pure list functions over Qc (thresholds are
   parameters: [thr] = the float 10e-10, [atol] = the float 10e-12); the shell
   of the driver: initial coordinates (centre - size/2, "random" for negative
   entries), the first [normalize], then per executed iteration "a new vector is
   produced, fixed entries are kept, [normalize] is applied and the result
   stored"; best-of-n by first strict minimum of the wire length; centre =
   coordinate + size/2; recentring of movable hard modules; hard centres dropped.

   Abstract (Section variables, arbitrary functions, no contract used):
     [rnd]      the random start  random.uniform(0, 2*max_span)
     [produce]  the eigen-iteration: orthogonalize + calculate_centroids (+ the
                "more modest move" averaging) - ANY vector, of any magnitude
     [niter]    how many iterations the convergence test lets through (0..10000)
     [radius]   sqrt(mass / pi) per module
   [normalize] is the function AS REPAIRED by fixes/C14-normalize-small.diff (scale,
   then keep every movable entry within its span); [normalize_orig] is the function
   as it stood: it scales entries with |x_i| <= thr without having taken them into
   account in the minimum (finding F16, theorem normalize_orig_refuted). *)
From FrameModel Require Import Num.QcTac Geometry.Rect.
Open Scope Qc_scope.

Inductive res (A : Type) : Type :=
| Ok (a : A)
| EmptyMin       (* ValueError: min() arg is an empty sequence *)
| ZeroDiv        (* ZeroDivisionError *)
| AssertFail.    (* AssertionError *)
Arguments Ok {A} a.
Arguments EmptyMin {A}.
Arguments ZeroDiv {A}.
Arguments AssertFail {A}.

Definition vec : Type := (Qc * Qc)%type.

(* ------------------------------------------------------------------ kernels *)
Section Kernels.
  Variable thr : Qc.      (* 10e-10 *)

  (* max_span[i] / abs(x[i]) for i ... if not is_fixed[i] and abs(x[i]) > 10e-10 *)
  Fixpoint cands (xs spans : list Qc) (fx : list bool) : list Qc :=
    match xs, spans, fx with
    | x :: xs', s :: sp', f :: fx' =>
        if negb f && Qcltb thr (Qcabs x) then s / Qcabs x :: cands xs' sp' fx' else cands xs' sp' fx'
    | _, _, _ => []
    end.

  Fixpoint list_min (l : list Qc) : option Qc :=
    match l with
    | [] => None
    | x :: r => match list_min r with None => Some x | Some m => Some (Qcmin x m) end
    end.

  (* as it stood:  x[i] *= scale *)
  Fixpoint scale_all (sc : Qc) (xs : list Qc) (fx : list bool) : list Qc :=
    match xs, fx with
    | x :: xs', f :: fx' => (if f then x else x * sc) :: scale_all sc xs' fx'
    | _, _ => xs
    end.
  Definition normalize_orig (xs spans : list Qc) (fx : list bool) : res (list Qc) :=
    match list_min (cands xs spans fx) with
    | None => EmptyMin
    | Some sc => Ok (scale_all sc xs fx)
    end.

  (* repaired:  x[i] = max(-max_span[i], min(max_span[i], x[i] * scale)) *)
  Definition clip (s y : Qc) : Qc := Qcmax (- s) (Qcmin s y).
  Fixpoint scale_clip (sc : Qc) (xs spans : list Qc) (fx : list bool) : list Qc :=
    match xs, spans, fx with
    | x :: xs', s :: sp', f :: fx' => (if f then x else clip s (x * sc)) :: scale_clip sc xs' sp' fx'
    | _, _, _ => xs
    end.
  Definition normalize (xs spans : list Qc) (fx : list bool) : res (list Qc) :=
    match list_min (cands xs spans fx) with
    | None => EmptyMin
    | Some sc => Ok (scale_clip sc xs spans fx)
    end.

  (* sum(weight[i] * v1[i] * v2[i]) *)
  Fixpoint dot3 (w a b : list Qc) : Qc :=
    match w, a, b with
    | wi :: w', ai :: a', bi :: b' => wi * ai * bi + dot3 w' a' b'
    | _, _, _ => 0
    end.
  Definition abs_norm_dot_product (v1 v2 w : list Qc) : res Qc :=
    let nrm := dot3 w v1 v1 in
    if Qceqb nrm 0 then ZeroDiv else Ok (Qcabs (dot3 w v1 v2 / nrm)).

  (* orthogonalize: one k of "for k in range(dim)" *)
  Fixpoint num_den (ck cd mass : list Qc) (fx : list bool) : Qc * Qc :=
    match ck, cd, mass, fx with
    | k :: ck', d :: cd', m :: mass', f :: fx' =>
        let nd := num_den ck' cd' mass' fx' in
        if f then nd else (d * (k * m) + fst nd, k * (k * m) + snd nd)
    | _, _, _, _ => (0, 0)
    end.
  Fixpoint sub_scaled (factor : Qc) (cd ck : list Qc) (fx : list bool) : list Qc :=
    match cd, ck, fx with
    | d :: cd', k :: ck', f :: fx' => (if f then d else d - factor * k) :: sub_scaled factor cd' ck' fx'
    | _, _, _ => cd
    end.
  Variable atol : Qc.     (* 10e-12 *)
  Definition ortho_one (ck cd mass : list Qc) (fx : list bool) : res (list Qc) :=
    let nd := num_den ck cd mass fx in
    if Qceqb (snd nd) 0 then ZeroDiv else
    let cd' := sub_scaled (fst nd / snd nd) cd ck fx in
    match abs_norm_dot_product cd' ck mass with
    | Ok dp => if Qcltb dp atol then Ok cd' else AssertFail
    | EmptyMin => EmptyMin | ZeroDiv => ZeroDiv | AssertFail => AssertFail
    end.
  Fixpoint ortho_loop (cks : list (list Qc)) (cd mass : list Qc) (fx : list bool) : res (list Qc) :=
    match cks with
    | [] => Ok cd
    | ck :: rest =>
        match ortho_one ck cd mass fx with
        | Ok cd' => ortho_loop rest cd' mass fx
        | e => e
        end
    end.
  (* returns the new coord[dim] (the only row that is assigned) *)
  Definition orthogonalize (coord : list (list Qc)) (mass : list Qc) (dim : nat) (fx : list bool)
    : res (list Qc) :=
    ortho_loop (firstn dim coord) (nth dim coord []) mass fx.

  (* calculate_centroids; an adjacency entry is (node, weight) *)
  Definition centroid_one (coord : list Qc) (edges : list (nat * Qc)) (deg ci : Qc) : res Qc :=
    if Qceqb deg 0 then ZeroDiv else
    Ok (half * (ci + Qcsum (map (fun e => snd e * nth (fst e) coord 0) edges) / deg)).
  Fixpoint centroids_from (coord : list Qc) (adj : list (list (nat * Qc))) (cs deg : list Qc)
    : res (list Qc) :=
    match adj, cs, deg with
    | es :: adj', ci :: cs', dg :: deg' =>
        match centroid_one coord es dg ci with
        | Ok v => match centroids_from coord adj' cs' deg' with Ok r => Ok (v :: r) | e => e end
        | EmptyMin => EmptyMin | ZeroDiv => ZeroDiv | AssertFail => AssertFail
        end
    | _, _, _ => Ok []
    end.
  Definition calculate_centroids (adj : list (list (nat * Qc))) (coord deg : list Qc) : res (list Qc) :=
    centroids_from coord adj coord deg.

  (* Manhattan wire length *)
  Definition wl_node (coord : list (list Qc)) (i : nat) (edges : list (nat * Qc)) : Qc :=
    Qcsum (map (fun e => snd e * Qcsum (map (fun row => Qcabs (nth (fst e) row 0 - nth i row 0)) coord)) edges).
  Fixpoint wl_from (coord : list (list Qc)) (i : nat) (adj : list (list (nat * Qc))) : Qc :=
    match adj with
    | [] => 0
    | es :: adj' => wl_node coord i es + wl_from coord (S i) adj'
    end.
  Definition wirelength (adj : list (list (nat * Qc))) (coord : list (list Qc)) : Qc :=
    wl_from coord 0 adj * half.
End Kernels.

(* ------------------------------------------------------------------ the driver shell *)
Section Driver.
  Variable thr : Qc.
  Variable rnd : nat -> nat -> nat -> Qc.                       (* trial, dimension, node *)
  Variable produce : nat -> nat -> nat -> list (list Qc) -> list Qc -> list Qc.
                                  (* trial, dimension, iteration, finished dimensions, coord[d] *)
  Variable niter : nat -> nat -> nat.                           (* trial, dimension *)

  (* coord[d][i]: random if negative (asserting the node is not fixed), then -= size/2 *)
  Fixpoint init_coord (tr d i : nat) (hs : Qc) (fx : list bool) (ini : list Qc) : res (list Qc) :=
    match ini, fx with
    | x :: ini', f :: fx' =>
        if Qcltb x 0 && f then AssertFail else
        match init_coord tr d (S i) hs fx' ini' with
        | Ok r => Ok ((if Qcltb x 0 then rnd tr d i else x) - hs :: r)
        | e => e
        end
    | _, _ => Ok []
    end.

  (* new_coord = [coord[d][i] if fixed[i] else tmp_coord[i] ...] *)
  Fixpoint keep_fixed (i : nat) (cur : list Qc) (fx : list bool) (new : list Qc) : list Qc :=
    match cur, fx with
    | c :: cur', f :: fx' => (if f then c else nth i new 0) :: keep_fixed (S i) cur' fx' new
    | _, _ => cur
    end.

  Fixpoint dim_loop (tr d n k : nat) (prev : list (list Qc)) (spans : list Qc) (fx : list bool)
           (c : list Qc) : res (list Qc) :=
    match n with
    | O => Ok c
    | S n' =>
        match normalize thr (keep_fixed 0 c fx (produce tr d k prev c)) spans fx with
        | Ok c' => dim_loop tr d n' (S k) prev spans fx c'
        | e => e
        end
    end.

  Definition spans_of (size : Qc) (radius : list Qc) : list Qc := map (fun r => size * half - r) radius.

  Definition dim_run (tr d : nat) (size : Qc) (radius : list Qc) (fx : list bool) (ini : list Qc)
             (prev : list (list Qc)) : res (list Qc) :=
    match init_coord tr d 0 (size * half) fx ini with
    | Ok c0 =>
        match normalize thr c0 (spans_of size radius) fx with
        | Ok c => dim_loop tr d (niter tr d) 0 prev (spans_of size radius) fx c
        | e => e
        end
    | EmptyMin => EmptyMin | ZeroDiv => ZeroDiv | AssertFail => AssertFail
    end.

  (* spectral_layout_die for a 2-dimensional die: the x row, then the y row *)
  Definition layout_die (tr : nat) (W H : Qc) (radius : list Qc) (fx : list bool) (inix iniy : list Qc)
    : res (list Qc * list Qc) :=
    match dim_run tr 1 W radius fx inix [] with
    | Ok xs =>
        match dim_run tr 2 H radius fx iniy [xs] with
        | Ok ys => Ok (xs, ys)
        | EmptyMin => EmptyMin | ZeroDiv => ZeroDiv | AssertFail => AssertFail
        end
    | EmptyMin => EmptyMin | ZeroDiv => ZeroDiv | AssertFail => AssertFail
    end.

  (* ---------------- Spectral.spectral_layout ---------------- *)
  Context {A B : Type}.
  Record smod : Type := mkSmod {
    s_centre : option vec;        (* m.center *)
    s_fixed : bool; s_hard : bool; s_terminal : bool;
    s_rects : list Rect;
    s_other : A }.                (* name, areas, aspect ratio, flip ... *)
  Record snet : Type := mkSnet { s_mods : list smod; s_adj : list (list (nat * Qc)); s_nets : B }.

  (* _centers as built by _build_graph: the centre, or -1 when there is none *)
  Definition cx_of (m : smod) : Qc := match s_centre m with Some c => fst c | None => - (1) end.
  Definition cy_of (m : smod) : Qc := match s_centre m with Some c => snd c | None => - (1) end.
  (* "Remove centers of the non-fixed nodes" *)
  Definition forget (coord : smod -> Qc) (m : smod) : Qc := if s_fixed m then coord m else - (1).

  (* recenter_rectangles *)
  Definition rects_area (rs : list Rect) : Qc := Qcsum (map area rs).
  Definition shift (dx dy : Qc) (r : Rect) : Rect :=
    mkRect (cx r + dx) (cy r + dy) (rw r) (rh r) (fixed r) (hard r) (region r) (rloc r).
  Definition recenter (rs : list Rect) (c : vec) : res (list Rect) :=
    let a := rects_area rs in
    if Qceqb a 0 then ZeroDiv else
    let x := Qcsum (map (fun r => cx r * area r) rs) / a in
    let y := Qcsum (map (fun r => cy r * area r) rs) / a in
    Ok (map (shift (fst c - x) (snd c - y)) rs).

  (* the area-weighted centre of the rectangles, as recenter_rectangles computes it *)
  Definition gx (rs : list Rect) : Qc := Qcsum (map (fun r => cx r * area r) rs) / rects_area rs.
  Definition gy (rs : list Rect) : Qc := Qcsum (map (fun r => cy r * area r) rs) / rects_area rs.

  (* what the last two loops of spectral_layout do to one module, given its coordinate *)
  Definition place (W H : Qc) (m : smod) (x y : Qc) : res smod :=
    let c := (x + W * half, y + H * half) in
    let keep := if s_hard m && negb (s_terminal m) then None else Some c in
    if s_hard m && negb (s_fixed m) then
      match recenter (s_rects m) c with
      | Ok rs => Ok (mkSmod keep (s_fixed m) (s_hard m) (s_terminal m) rs (s_other m))
      | EmptyMin => EmptyMin | ZeroDiv => ZeroDiv | AssertFail => AssertFail
      end
    else Ok (mkSmod keep (s_fixed m) (s_hard m) (s_terminal m) (s_rects m) (s_other m)).

  Fixpoint place_all (W H : Qc) (ms : list smod) (xs ys : list Qc) : res (list smod) :=
    match ms, xs, ys with
    | m :: ms', x :: xs', y :: ys' =>
        match place W H m x y with
        | Ok m' => match place_all W H ms' xs' ys' with Ok r => Ok (m' :: r) | e => e end
        | EmptyMin => EmptyMin | ZeroDiv => ZeroDiv | AssertFail => AssertFail
        end
    | [], _, _ => Ok []
    | _, _, _ => AssertFail        (* a coordinate row shorter than the module list: IndexError, unreachable *)
    end.

  (* the trials: "if wl < best_wl: best_coord, best_wl = coord, wl" (first strict minimum) *)
  Fixpoint trials (wl : list Qc * list Qc -> Qc) (run : nat -> res (list Qc * list Qc)) (n tr : nat)
           (best : option (list Qc * list Qc * Qc)) : res (option (list Qc * list Qc * Qc)) :=
    match n with
    | O => Ok best
    | S n' =>
        match run tr with
        | Ok c =>
            let w := wl c in
            let best' := match best with
                         | None => Some (c, w)
                         | Some (_, bw) => if Qcltb w bw then Some (c, w) else best
                         end in
            trials wl run n' (S tr) best'
        | EmptyMin => EmptyMin | ZeroDiv => ZeroDiv | AssertFail => AssertFail
        end
    end.

  Variable radius_of : smod -> Qc.         (* sqrt(area / pi) *)

  Definition has_centre (m : smod) : bool := match s_centre m with Some _ => true | None => false end.

  (* ---------------- the Spectral object: what __init__/_build_graph store, what a call changes ----------------
     _adj, _mass (here: the radii), _fixed_modules and _centers are computed ONCE, when the object is
     built; spectral_layout reads them on every call.  A call with nfloorplans > 0 overwrites the
     _centers entries of the movable modules by -1 (and they stay -1 for every later call); a call in
     init mode (nfloorplans = 0) reads _centers as they are - NOT the centres the modules have now.
     The modules themselves are updated by every call (centres assigned, hard rectangles recentred,
     centres of hard non-terminal modules dropped). *)
  Record sess : Type := mkSess {
    ss_mods : list smod; ss_adj : list (list (nat * Qc)); ss_nets : B;
    ss_fx : list bool;            (* _fixed_modules *)
    ss_radius : list Qc;          (* sqrt(_mass[i] / pi) *)
    ss_cx : list Qc; ss_cy : list Qc }.   (* _centers *)

  (* Spectral.__init__: "if m.is_fixed: assert m.center is not None" *)
  Definition sess_init (nl : snet) : res sess :=
    let ms := s_mods nl in
    if negb (forallb (fun m => negb (s_fixed m) || has_centre m) ms) then AssertFail else
    Ok (mkSess ms (s_adj nl) (s_nets nl) (map s_fixed ms) (map radius_of ms) (map cx_of ms) (map cy_of ms)).

  (* "Remove centers of the non-fixed nodes": if not self._fixed_modules[i]: self._centers[.][i] = -1.0 *)
  Fixpoint wipe (fx : list bool) (cs : list Qc) : list Qc :=
    match fx, cs with
    | f :: fx', c :: cs' => (if f then c else - (1)) :: wipe fx' cs'
    | _, _ => cs
    end.

  (* spectral_layout once _centers is settled: the trials, the selection, the placement *)
  Definition layout_core (W H : Qc) (nfloorplans : nat) (ms : list smod) (adj : list (list (nat * Qc)))
             (fx : list bool) (radius inix iniy : list Qc) : res (list smod) :=
    if Nat.leb (List.length radius) 2 then AssertFail else
    if Nat.eqb nfloorplans 0 && negb (forallb has_centre ms) then AssertFail else
    let wl c := wirelength adj [fst c; snd c] in
    match trials wl (fun tr => layout_die tr W H radius fx inix iniy)
                 (if Nat.eqb nfloorplans 0 then 1 else nfloorplans) 0 None with
    | Ok (Some (c, _)) => place_all W H ms (fst c) (snd c)
    | Ok None => AssertFail
    | EmptyMin => EmptyMin | ZeroDiv => ZeroDiv | AssertFail => AssertFail
    end.

  (* one call of spectral_layout on the object in state [s] *)
  Definition sess_centres (nfloorplans : nat) (s : sess) : list Qc * list Qc :=
    if Nat.eqb nfloorplans 0 then (ss_cx s, ss_cy s) else (wipe (ss_fx s) (ss_cx s), wipe (ss_fx s) (ss_cy s)).
  Definition sess_step (W H : Qc) (nfloorplans : nat) (s : sess) : res sess :=
    let cs := sess_centres nfloorplans s in
    match layout_core W H nfloorplans (ss_mods s) (ss_adj s) (ss_fx s) (ss_radius s) (fst cs) (snd cs) with
    | Ok ms' => Ok (mkSess ms' (ss_adj s) (ss_nets s) (ss_fx s) (ss_radius s) (fst cs) (snd cs))
    | EmptyMin => EmptyMin | ZeroDiv => ZeroDiv | AssertFail => AssertFail
    end.

  (* Spectral(netlist).spectral_layout(shape, nfloorplans): one call on a fresh object *)
  Definition spectral_layout (W H : Qc) (nfloorplans : nat) (nl : snet) : res snet :=
    match sess_init nl with
    | Ok s =>
        match sess_step W H nfloorplans s with
        | Ok s' => Ok (mkSnet (ss_mods s') (ss_adj s') (ss_nets s'))
        | EmptyMin => EmptyMin | ZeroDiv => ZeroDiv | AssertFail => AssertFail
        end
    | EmptyMin => EmptyMin | ZeroDiv => ZeroDiv | AssertFail => AssertFail
    end.
End Driver.

Arguments smod : clear implicits.
Arguments snet : clear implicits.
Arguments sess : clear implicits.

(* ------------------------------------------------------------------ several calls on one object *)
(* every call has its own die, trial count and (abstract) random start / eigen-iteration *)
Record call : Type := mkCall {
  c_W : Qc; c_H : Qc; c_nf : nat;
  c_rnd : nat -> nat -> nat -> Qc;
  c_produce : nat -> nat -> nat -> list (list Qc) -> list Qc -> list Qc;
  c_niter : nat -> nat -> nat }.

Fixpoint sess_run {A B : Type} (thr : Qc) (calls : list call) (s : sess A B) : res (sess A B) :=
  match calls with
  | [] => Ok s
  | c :: rest =>
      match sess_step thr (c_rnd c) (c_produce c) (c_niter c) (c_W c) (c_H c) (c_nf c) s with
      | Ok s' => sess_run thr rest s'
      | e => e
      end
  end.

(* ------------------------------------------------------------------ a hard module driven from outside *)
(* Module.center = p (public setter; also p.x = .. on the Point the module holds), Module.add_rectangle(r),
   in-place edits of a rectangle, Module.recenter_rectangles() in any order on one movable hard module *)
Inductive rc_op : Type :=
| RcSet (c : vec)          (* m.center = Point(...) *)
| RcAdd (r : Rect)         (* m.add_rectangle(r) *)
| RcPut (k : nat) (r : Rect)   (* rectangle k edited in place through its public attributes (center.x/.y, shape) *)
| RcRecenter.              (* m.recenter_rectangles() *)
Record rc_state : Type := mkRc { rc_centre : option vec; rc_rects : list Rect }.

Fixpoint put_nth (k : nat) (r : Rect) (rs : list Rect) : list Rect :=
  match rs, k with
  | [], _ => []
  | _ :: rs', O => r :: rs'
  | r0 :: rs', S k' => r0 :: put_nth k' r rs'
  end.

Definition rc_step (op : rc_op) (st : rc_state) : res rc_state :=
  match op with
  | RcSet c => Ok (mkRc (Some c) (rc_rects st))
  | RcAdd r => Ok (mkRc (rc_centre st) (rc_rects st ++ [r]))
  | RcPut k r => Ok (mkRc (rc_centre st) (put_nth k r (rc_rects st)))
  | RcRecenter =>
      match rc_centre st with
      | None => AssertFail            (* assert ... self.center is not None *)
      | Some c =>
          match recenter (rc_rects st) c with
          | Ok rs => Ok (mkRc (Some c) rs)
          | EmptyMin => EmptyMin | ZeroDiv => ZeroDiv | AssertFail => AssertFail
          end
      end
  end.
Fixpoint rc_run (ops : list rc_op) (st : rc_state) : res rc_state :=
  match ops with
  | [] => Ok st
  | op :: rest => match rc_step op st with Ok st' => rc_run rest st' | e => e end
  end.
