(* The hypotheses of the C14 theorems are satisfiable by non-trivial concrete states. *)
From FrameModel Require Import Num.QcTac Geometry.Rect Cases.Cmp Spectral.Normalize Spectral.NormalizeFacts
  Spectral.LayoutFacts Cases.CmpC14.
Open Scope Qc_scope.

(* the repaired normalize on the F16 input: entry 0 is kept at its span 1/10 (the function
   as it stood returned 5), the entry that decides the scale is exactly at its span 10 *)
Example ex_normalize_f16 :
  res_cmp (list_eqb Qceqb) (normalize f16_thr f16_x f16_spans [false; false; false; false])
          (Ok [qc 1 10; qc 10 1; 0; 0]) = true.
Proof. vm_compute. reflexivity. Qed.

(* fixed entries and entries above the threshold: spans non-negative, result defined *)
Example ex_normalize_mixed :
  res_cmp (list_eqb Qceqb)
          (normalize f16_thr [qc 3 1; qc (-4) 1; qc 7 1; 0] [qc 6 1; qc 2 1; qc 1 1; qc 5 1] [false; false; true; false])
          (Ok [qc 3 2; qc (-2) 1; qc 7 1; 0]) = true /\
  res_cmp (list_eqb Qceqb)
          (normalize_orig f16_thr [qc 3 1; qc (-4) 1; qc 7 1; 0] [qc 6 1; qc 2 1; qc 1 1; qc 5 1] [false; false; true; false])
          (Ok [qc 3 2; qc (-2) 1; qc 7 1; 0]) = true.
Proof. split; vm_compute; reflexivity. Qed.

(* a netlist on which the model of Spectral.spectral_layout returns: die 8 x 6, three soft
   modules, a movable hard module of two rectangles, a fixed module; the "eigen-iteration"
   produces alternating vectors of very different magnitudes *)
Definition ex_mods : list (smod Qc) :=
  [ mkSmod (Some (qc 1 1, qc 1 1)) false false false [] (qc 1 1);
    mkSmod None false false false [] (qc 1 2);
    mkSmod (Some (qc 7 1, qc 5 1)) false false false [] (qc 3 2);
    mkSmod (Some (qc 3 1, qc 3 1)) false true false
           [mkRect (qc 3 1) (qc 3 1) (qc 2 1) (qc 2 1) false true "_" TRUNK;
            mkRect (qc 9 2) (qc 3 1) (qc 1 1) (qc 1 1) false true "_" EAST] (qc 5 4);
    mkSmod (Some (qc 6 1, qc 1 1)) true true false
           [mkRect (qc 6 1) (qc 1 1) (qc 1 1) (qc 1 1) true true "_" TRUNK] (qc 1 2) ].
Definition ex_adj : list (list (nat * Qc)) :=
  [[(1%nat, qc 1 1)]; [(0%nat, qc 1 1); (2%nat, qc 2 1)]; [(1%nat, qc 2 1); (3%nat, qc 1 1)];
   [(2%nat, qc 1 1); (4%nat, qc 1 1)]; [(3%nat, qc 1 1)]].
Definition ex_rnd (tr d i : nat) : Qc := Q2Qc (inject_Z (Z.of_nat (tr + d + i))) * qc 1 2.
Definition ex_produce (tr d k : nat) (_ : list (list Qc)) (c : list Qc) : list Qc :=
  map (fun x => (x + qc 1 3) * (if Nat.even k then qc 1000 1 else - qc 1 1000000)) (rev c).
Definition ex_niter (tr d : nat) : nat := (3 + tr + d)%nat.

Example ex_layout_returns :
  exists out, spectral_layout f16_thr ex_rnd ex_produce ex_niter (fun m => s_other m) (qc 8 1) (qc 6 1) 2
                              (mkSnet ex_mods ex_adj tt) = Ok out.
Proof. vm_compute. eexists. reflexivity. Qed.

(* hypotheses of layout_discs / layout_rigid / layout_fixed on it *)
Example ex_layout_hyps :
  (forall m, In m ex_mods -> s_other m <= qc 8 1 * half /\ s_other m <= qc 6 1 * half) /\
  (exists m, nth_error ex_mods 3 = Some m /\ s_fixed m = false /\ s_hard m = true) /\
  (exists m, nth_error ex_mods 4 = Some m /\ s_fixed m = true).
Proof.
  splits.
  - intros m [<-|[<-|[<-|[<-|[<-|[]]]]]]; split; apply Qcleb_true; vm_compute; reflexivity.
  - eexists; splits; reflexivity.
  - eexists; splits; reflexivity.
Qed.
