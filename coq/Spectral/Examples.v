(* The hypotheses of the C14 theorems are satisfiable by non-trivial concrete states. *)
From FrameModel Require Import Num.QcTac Geometry.Rect Cases.Cmp Spectral.Normalize Spectral.NormalizeFacts
  Spectral.LayoutFacts Cases.CmpC14.
Open Scope Qc_scope.

(* the repaired normalize on the F16 input: entry 0 is kept at its span 1/10 (the function
   as it stood returned 5), the entry that decides the scale is exactly at its span 10 *)
Example ex_normalize_f16 :
  res_cmp (list_eqb Qceqb) (normalize f16_thr f16_x f16_spans [false; false; false; false])
          (Ok [qc 1 10; qc 10 1; 0; 0]) = true.
Proof. vm_compute. reflexivity. Qed.

(* fixed entries and entries above the threshold: spans non-negative, result defined *)
Example ex_normalize_mixed :
  res_cmp (list_eqb Qceqb)
          (normalize f16_thr [qc 3 1; qc (-4) 1; qc 7 1; 0] [qc 6 1; qc 2 1; qc 1 1; qc 5 1] [false; false; true; false])
          (Ok [qc 3 2; qc (-2) 1; qc 7 1; 0]) = true /\
  res_cmp (list_eqb Qceqb)
          (normalize_orig f16_thr [qc 3 1; qc (-4) 1; qc 7 1; 0] [qc 6 1; qc 2 1; qc 1 1; qc 5 1] [false; false; true; false])
          (Ok [qc 3 2; qc (-2) 1; qc 7 1; 0]) = true.
Proof. split; vm_compute; reflexivity. Qed.

(* a netlist on which the model of Spectral.spectral_layout returns: die 8 x 6, three soft
   modules, a movable hard module of two rectangles, a fixed module; the "eigen-iteration"
   produces alternating vectors of very different magnitudes *)
Definition ex_mods : list (smod Qc) :=
  [ mkSmod (Some (qc 1 1, qc 1 1)) false false false [] (qc 1 1);
    mkSmod None false false false [] (qc 1 2);
    mkSmod (Some (qc 7 1, qc 5 1)) false false false [] (qc 3 2);
    mkSmod (Some (qc 3 1, qc 3 1)) false true false
           [mkRect (qc 3 1) (qc 3 1) (qc 2 1) (qc 2 1) false true "_" TRUNK;
            mkRect (qc 9 2) (qc 3 1) (qc 1 1) (qc 1 1) false true "_" EAST] (qc 5 4);
    mkSmod (Some (qc 6 1, qc 1 1)) true true false
           [mkRect (qc 6 1) (qc 1 1) (qc 1 1) (qc 1 1) true true "_" TRUNK] (qc 1 2) ].
Definition ex_adj : list (list (nat * Qc)) :=
  [[(1%nat, qc 1 1)]; [(0%nat, qc 1 1); (2%nat, qc 2 1)]; [(1%nat, qc 2 1); (3%nat, qc 1 1)];
   [(2%nat, qc 1 1); (4%nat, qc 1 1)]; [(3%nat, qc 1 1)]].
Definition ex_rnd (tr d i : nat) : Qc := Q2Qc (inject_Z (Z.of_nat (tr + d + i))) * qc 1 2.
Definition ex_produce (tr d k : nat) (_ : list (list Qc)) (c : list Qc) : list Qc :=
  map (fun x => (x + qc 1 3) * (if Nat.even k then qc 1000 1 else - qc 1 1000000)) (rev c).
Definition ex_niter (tr d : nat) : nat := (3 + tr + d)%nat.

Example ex_layout_returns :
  exists out, spectral_layout f16_thr ex_rnd ex_produce ex_niter (fun m => s_other m) (qc 8 1) (qc 6 1) 2
                              (mkSnet ex_mods ex_adj tt) = Ok out.
Proof. vm_compute. eexists. reflexivity. Qed.

(* hypotheses of layout_discs / layout_rigid / layout_fixed on it *)
Example ex_layout_hyps :
  (forall m, In m ex_mods -> s_other m <= qc 8 1 * half /\ s_other m <= qc 6 1 * half) /\
  (exists m, nth_error ex_mods 3 = Some m /\ s_fixed m = false /\ s_hard m = true) /\
  (exists m, nth_error ex_mods 4 = Some m /\ s_fixed m = true).
Proof.
  splits.
  - intros m [<-|[<-|[<-|[<-|[<-|[]]]]]]; split; apply Qcleb_true; vm_compute; reflexivity.
  - eexists; splits; reflexivity.
  - eexists; splits; reflexivity.
Qed.

(* ---- recenter_rectangles at a coincidence: the hard module of [ex_mods] (areas 4 and 1, area-weighted centre
   (33/10, 3)) sent to (33/10, 5): the x increment is exactly zero, every rectangle still moves by 2 in y ---- *)
Definition ex_hard_rects : list Rect :=
  [mkRect (qc 3 1) (qc 3 1) (qc 2 1) (qc 2 1) false true "_" TRUNK;
   mkRect (qc 9 2) (qc 3 1) (qc 1 1) (qc 1 1) false true "_" EAST].
Example ex_recenter_one_axis :
  Qceqb (gx ex_hard_rects) (qc 33 10) = true /\ Qceqb (gy ex_hard_rects) (qc 3 1) = true /\
  match recenter ex_hard_rects (qc 33 10, qc 5 1) with
  | Ok rs => list_eqb rect_eqb rs
               [mkRect (qc 3 1) (qc 5 1) (qc 2 1) (qc 2 1) false true "_" TRUNK;
                mkRect (qc 9 2) (qc 5 1) (qc 1 1) (qc 1 1) false true "_" EAST]
  | _ => false
  end = true.
Proof. splits; vm_compute; reflexivity. Qed.

(* hypotheses of recenter_fixpoint / recenter_idem / recenter_history: both increments zero; a history with a new
   centre, an added rectangle and an edited rectangle between three recentrings *)
Example ex_recenter_fixpoint_hyps :
  rects_area ex_hard_rects <> 0 /\ gx ex_hard_rects = fst (qc 33 10, qc 3 1) /\ gy ex_hard_rects = snd (qc 33 10, qc 3 1).
Proof.
  splits.
  - apply Qceqb_false. vm_compute. reflexivity.
  - apply Qceqb_true. vm_compute. reflexivity.
  - apply Qceqb_true. vm_compute. reflexivity.
Qed.
Example ex_rc_history_returns :
  exists st', rc_run ([RcSet (qc 33 10, qc 5 1); RcRecenter; RcSet (qc 1 1, qc 5 1); RcRecenter;
                       RcAdd (mkRect (qc 7 1) (qc 7 1) (qc 1 1) (qc 2 1) false true "_" NOPOLY);
                       RcPut 1 (mkRect (qc 9 2) (qc 1 1) (qc 1 2) (qc 1 1) false true "_" EAST)] ++ [RcRecenter])
                     (mkRc None ex_hard_rects) = Ok st'.
Proof. vm_compute. eexists. reflexivity. Qed.

(* ---- three calls on one object: other dies, other trial counts, other "eigen-iterations"; the second call is in
   init mode (it reads the centre matrix stored at construction, wiped by the first call for the movable modules,
   and needs every module to have a centre NOW: a netlist without hard modules) ---- *)
Definition ex_soft_mods : list (smod Qc) :=
  [ mkSmod (Some (qc 1 1, qc 1 1)) false false false [] (qc 1 1);
    mkSmod None false false false [] (qc 1 2);
    mkSmod (Some (qc 7 1, qc 5 1)) false false false [] (qc 3 2);
    mkSmod (Some (qc 3 1, qc 3 1)) false false false [] (qc 5 4);
    mkSmod (Some (qc 6 1, qc 1 1)) true false true [] 0 ].
Definition ex_calls : list call :=
  [mkCall (qc 8 1) (qc 6 1) 2 ex_rnd ex_produce ex_niter;
   mkCall (qc 10 1) (qc 7 1) 0 ex_rnd ex_produce (fun tr d => (1 + d)%nat);
   mkCall (qc 7 1) (qc 9 1) 1 (fun tr d i => ex_rnd (S tr) d i) ex_produce ex_niter].
Definition returns_after (ms : list (smod Qc)) (calls : list call) : bool :=
  match sess_init (fun m => s_other m) (mkSnet ms ex_adj tt) with
  | Ok s0 => match sess_run f16_thr calls s0 with Ok _ => true | _ => false end
  | _ => false
  end.
Example ex_session_returns :
  returns_after ex_soft_mods ex_calls = true /\
  (* with the movable hard module of [ex_mods]: two calls with trials > 0 *)
  returns_after ex_mods [nth 0 ex_calls (mkCall 0 0 0 ex_rnd ex_produce ex_niter);
                         nth 2 ex_calls (mkCall 0 0 0 ex_rnd ex_produce ex_niter)] = true.
Proof. split; vm_compute; reflexivity. Qed.

(* ---- fixed terminals on an edge of the die and OUTSIDE it (pads drawn beyond the core): die 10 x 6, four soft
   modules, PAD_E at (23/2, 3) beyond the right edge, PAD_N at (4, 8) above the top edge, PAD_W at (0, 2) on the left
   edge, a pad far away at (10000, 6000).  The model returns and every pad is where it was: layout_fixed has no
   hypothesis about where a fixed module lies ("discs fit in the die" is about the movable modules) ---- *)
Definition ex_pad_mods : list (smod Qc) :=
  [ mkSmod None false false false [] (qc 1 1);
    mkSmod (Some (qc 2 1, qc 2 1)) false false false [] (qc 4 5);
    mkSmod None false false false [] (qc 9 8);
    mkSmod (Some (qc 9 1, qc 5 1)) false false false [] (qc 1 2);
    mkSmod (Some (qc 23 2, qc 3 1)) true false true [] 0;
    mkSmod (Some (qc 4 1, qc 8 1)) true false true [] 0;
    mkSmod (Some (0, qc 2 1)) true false true [] 0;
    mkSmod (Some (qc 10000 1, qc 6000 1)) true false true [] 0 ].
Definition ex_pad_adj : list (list (nat * Qc)) :=
  [[(6%nat, qc 1 1); (1%nat, qc 2 1); (3%nat, qc 1 2)]; [(0%nat, qc 2 1); (2%nat, qc 1 1)];
   [(1%nat, qc 1 1); (3%nat, qc 1 1); (5%nat, qc 1 1); (7%nat, qc 1 1)]; [(2%nat, qc 1 1); (4%nat, qc 1 1); (0%nat, qc 1 2)];
   [(3%nat, qc 1 1)]; [(2%nat, qc 1 1)]; [(0%nat, qc 1 1)]; [(2%nat, qc 1 1)]].
Definition pads_kept (out : list (smod Qc)) : bool :=
  forallb (fun p => match s_centre (fst p) with
                    | Some c => Qceqb (fst c) (fst (snd p)) && Qceqb (snd c) (snd (snd p))
                    | None => false
                    end)
          (combine (skipn 4 out) [(qc 23 2, qc 3 1); (qc 4 1, qc 8 1); (0, qc 2 1); (qc 10000 1, qc 6000 1)])
  && Nat.eqb (List.length out) 8.
Example ex_pads_outside_stay :
  match spectral_layout f16_thr ex_rnd ex_produce ex_niter (fun m => s_other m) (qc 10 1) (qc 6 1) 2
                        (mkSnet ex_pad_mods ex_pad_adj tt) with
  | Ok out => pads_kept (s_mods out)
  | _ => false
  end = true.
Proof. vm_compute. reflexivity. Qed.
(* ... and again after a second call on the same object with a smaller die (7 x 9: PAD_N is then inside) *)
Example ex_pads_outside_stay_session :
  match sess_init (fun m => s_other m) (mkSnet ex_pad_mods ex_pad_adj tt) with
  | Ok s0 => match sess_run f16_thr [mkCall (qc 10 1) (qc 6 1) 2 ex_rnd ex_produce ex_niter;
                                     mkCall (qc 7 1) (qc 9 1) 1 (fun tr d i => ex_rnd (S tr) d i) ex_produce ex_niter] s0 with
             | Ok s2 => pads_kept (ss_mods s2)
             | _ => false
             end
  | _ => false
  end = true.
Proof. vm_compute. reflexivity. Qed.
