(* The hypotheses of the C14 theorems about the constructor and the concrete iteration are satisfiable, and
   the rarely taken paths are really taken by small concrete inputs. *)
From FrameModel Require Import Num.QcTac Geometry.Rect Cases.Cmp Spectral.Normalize Spectral.NormalizeFacts
  Spectral.LayoutFacts Spectral.Iterate Spectral.IterateFacts Cases.CmpC14 Cases.CmpC14Iter.
Open Scope Qc_scope.

Definition adj_eqb : adjlist -> adjlist -> bool := list_eqb (list_eqb (pair_eqb Nat.eqb Qceqb)).

(* a net that lists a module twice keeps both pins in the divisor (2 * 3 / 4) and adds two self-loops *)
Example ex_clique_repeated_pin :
  res_cmp adj_eqb (clique_adj 3 [([0; 1; 0; 2], qc 3 1)%nat])
    (Ok [[(1%nat, qc 3 2); (0%nat, qc 3 2); (0%nat, qc 3 2); (2%nat, qc 3 2); (1%nat, qc 3 2); (2%nat, qc 3 2)];
         [(0%nat, qc 3 2); (0%nat, qc 3 2); (2%nat, qc 3 2)];
         [(0%nat, qc 3 2); (1%nat, qc 3 2); (0%nat, qc 3 2)]]) = true.
Proof. vm_compute. reflexivity. Qed.

(* ... which is not the graph of the net with the repeated pin dropped (2 * 3 / 3, no self-loop) *)
Example ex_clique_pin_dropped_differs :
  graph_ok 3 [([0; 1; 0; 2], qc 3 1)%nat]
    [[(1%nat, qc 2 1); (2%nat, qc 2 1)]; [(0%nat, qc 2 1); (2%nat, qc 2 1)]; [(0%nat, qc 2 1); (1%nat, qc 2 1)]] = false.
Proof. vm_compute. reflexivity. Qed.

(* a one-pin net is refused by the constructor *)
Example ex_clique_one_pin : res_cmp adj_eqb (clique_adj 2 [([1], qc 1 1)%nat]) AssertFail = true.
Proof. vm_compute. reflexivity. Qed.

Definition ex_ring : adjlist :=
  [[(1%nat, qc 1 1); (3%nat, qc 1 1)]; [(0%nat, qc 1 1); (2%nat, qc 1 1)];
   [(1%nat, qc 1 1); (3%nat, qc 1 1)]; [(2%nat, qc 1 1); (0%nat, qc 1 1)]].
Definition ex_ones : list Qc := [qc 1 1; qc 1 1; qc 1 1; qc 1 1].
Definition ex_free : list bool := [false; false; false; false].

(* the ring a-b-c-d with the mirror start (3, 1, 3, 1) and equal masses: the orthogonalised row is (1, -1, 1, -1),
   every centroid is 0, the "all nodes in the same place" path is taken (the row is halved) ... *)
Example ex_collapse_path_taken :
  match iter_vec (qc 1 100000000000) (qc 1 1000000000) ex_ring (degrees ex_ring) ex_ones ex_free
                 [ex_ones] [qc 3 1; qc 1 1; qc 3 1; qc 1 1] with
  | Ok (co, v) => list_eqb Qceqb co [qc 1 1; qc (-1) 1; qc 1 1; qc (-1) 1] &&
                  list_eqb Qceqb v [qc 1 2; qc (-1) 2; qc 1 2; qc (-1) 2]
  | _ => false
  end = true.
Proof. vm_compute. reflexivity. Qed.

(* ... and the row that leaves the step is normalised: node 1 (span 1/4) decides the scale *)
Example ex_collapse_normalised :
  match iter_step (qc 1 1000000000) (qc 1 100000000000) (qc 1 1000000000) ex_ring (degrees ex_ring) ex_ones ex_free
                  [qc 2 1; qc 1 4; qc 2 1; qc 2 1] [ex_ones] [qc 3 1; qc 1 1; qc 3 1; qc 1 1] with
  | Ok (_, c') => list_eqb Qceqb c' [qc 1 4; qc (-1) 4; qc 1 4; qc (-1) 4]
  | _ => false
  end = true.
Proof. vm_compute. reflexivity. Qed.

(* the second iteration reproduces the row (dot product 1): the loop stops after two iterations *)
Example ex_collapse_loop :
  match dim_iter (qc 1 1000000000) (qc 1 100000000000) (qc 1 1000000000) ex_ring (degrees ex_ring) ex_ones ex_free
                 [qc 2 1; qc 1 4; qc 2 1; qc 2 1] 5 0 [ex_ones] [qc 3 1; qc 1 1; qc 3 1; qc 1 1] with
  | Ok (c', k) => list_eqb Qceqb c' [qc 1 4; qc (-1) 4; qc 1 4; qc (-1) 4] && Nat.eqb k 2
  | _ => false
  end = true.
Proof. vm_compute. reflexivity. Qed.

(* an all-equal start vanishes under orthogonalisation: the step does not return *)
Example ex_all_equal_raises :
  match iter_vec (qc 1 100000000000) (qc 1 1000000000) ex_ring (degrees ex_ring) ex_ones ex_free
                 [ex_ones] [qc 3 1; qc 3 1; qc 3 1; qc 3 1] with
  | ZeroDiv => true
  | _ => false
  end = true.
Proof. vm_compute. reflexivity. Qed.
