(* The parts of tools/spectral that Spectral/Normalize.v leaves abstract or takes as given, made CONCRETE.
   DEFINITIONS ONLY.

   1. Spectral._build_graph (tools/spectral/spectral.py): the adjacency list is the clique model of the
      nets OF THE INPUT: every net (m_0 .. m_{k-1}, w) adds, for every pair i < j in the order of
      itertools.combinations, the edge m_i - m_j of weight 2 w / k to both adjacency lists.  A net may list a
      module more than once (the reader accepts it): the pair (m, m) adds two self-loops to m's list and the
      divisor k counts every pin.  The nets themselves are stored as they were given.  [spectral_new] is
      Spectral.__init__ on the input (modules, nets).

   2. One iteration of the loop of spectral_layout_die (tools/spectral/spectral_algorithm.py), which
      Normalize.v abstracts as [produce]: orthogonalize against the finished rows, calculate_centroids, keep the
      fixed entries, the rarely taken "all nodes ended in the same place" step (spread of the new row below
      epsilon: average with the current row), normalize; then the convergence test on the normalised dot
      product of the orthogonalised row and the new row; the loop with its iteration limit as fuel. *)
From FrameModel Require Import Num.QcTac Geometry.Rect Spectral.Normalize.
Open Scope Qc_scope.

Definition adjlist : Type := list (list (nat * Qc)).

(* ------------------------------------------------------------------ _build_graph *)
Definition net : Type := (list nat * Qc)%type.          (* module indices in the order listed, weight *)

(* itertools.combinations(l, 2) *)
Fixpoint pairs (l : list nat) : list (nat * nat) :=
  match l with
  | [] => []
  | a :: r => map (fun b => (a, b)) r ++ pairs r
  end.

(* adj[i].append(e) *)
Fixpoint add_at (i : nat) (e : nat * Qc) (adj : adjlist) : adjlist :=
  match adj, i with
  | [], _ => []
  | es :: r, O => (es ++ [e]) :: r
  | es :: r, S i' => es :: add_at i' e r
  end.

(* self._adj[src].append(AdjEdge(dst, weight)); self._adj[dst].append(AdjEdge(src, weight)) *)
Definition add_pair (w : Qc) (adj : adjlist) (p : nat * nat) : adjlist :=
  add_at (snd p) (fst p, w) (add_at (fst p) (snd p, w) adj).

(* weight = 2 * e.weight / len(e.modules): every listed pin counts *)
Definition net_weight (e : net) : Qc := qc 2 1 * snd e / qc (Z.of_nat (List.length (fst e))) 1.

(* assert len(e.modules) > 1 *)
Definition add_net (adj : res adjlist) (e : net) : res adjlist :=
  match adj with
  | Ok a => if Nat.leb (List.length (fst e)) 1 then AssertFail
            else Ok (fold_left (add_pair (net_weight e)) (pairs (fst e)) a)
  | EmptyMin => EmptyMin | ZeroDiv => ZeroDiv | AssertFail => AssertFail
  end.

Definition clique_adj (n : nat) (nets : list net) : res adjlist :=
  fold_left add_net nets (Ok (repeat [] n)).

(* Spectral.__init__ on the input: the netlist is stored as given, the graph is derived from it *)
Definition spectral_new {A : Type} (radius_of : smod A -> Qc) (ms : list (smod A)) (nets : list net)
  : res (sess A (list net)) :=
  match clique_adj (List.length ms) nets with
  | Ok adj => sess_init radius_of (mkSnet ms adj nets)
  | EmptyMin => EmptyMin | ZeroDiv => ZeroDiv | AssertFail => AssertFail
  end.

(* the graph as a function: total weight from node i to node j (what the iteration depends on; the order of
   an adjacency list is not part of it) *)
Definition weight_to (adj : adjlist) (i j : nat) : Qc :=
  Qcsum (map (fun e => if Nat.eqb (fst e) j then snd e else 0) (nth i adj [])).

(* degree = [sum([e.weight for e in adj[i]]) ...] *)
Definition degrees (adj : adjlist) : list Qc := map (fun es => Qcsum (map snd es)) adj.

(* float_mass = [0 if fixed[i] else mass[i] ...] *)
Fixpoint float_mass (mass : list Qc) (fx : list bool) : list Qc :=
  match mass, fx with
  | m :: mass', f :: fx' => (if f then 0 else m) :: float_mass mass' fx'
  | _, _ => mass
  end.

(* ------------------------------------------------------------------ one iteration *)
Fixpoint list_max (l : list Qc) : option Qc :=
  match l with
  | [] => None
  | x :: r => match list_max r with None => Some x | Some m => Some (Qcmax x m) end
  end.

(* max(new_coord) - min(new_coord) *)
Definition spread (v : list Qc) : option Qc :=
  match list_max v, list_min v with
  | Some a, Some b => Some (a - b)
  | _, _ => None
  end.

(* [0.5 * (new_coord[i] + coord[d][i]) for i in range(n)] *)
Fixpoint avg (a b : list Qc) : list Qc :=
  match a, b with
  | x :: a', y :: b' => half * (x + y) :: avg a' b'
  | _, _ => a
  end.

Section Iteration.
  Variable thr atol eps : Qc.        (* 10e-10, 10e-12, max(size) * n * 1e-10 *)
  Variable adj : adjlist.
  Variable deg mass : list Qc.       (* degree, float_mass *)
  Variable fx : list bool.
  Variable spans : list Qc.

  (* the row handed to normalize, together with the orthogonalised current row:
       orthogonalize(coord, float_mass, d, fixed); tmp_coord = calculate_centroids(adj, coord[d], degree)
       new_coord = [coord[d][i] if fixed[i] else tmp_coord[i] ...]
       if max(new_coord) - min(new_coord) < epsilon: new_coord = [0.5 * (new_coord[i] + coord[d][i]) ...] *)
  Definition iter_vec (prev : list (list Qc)) (c : list Qc) : res (list Qc * list Qc) :=
    match ortho_loop atol prev c mass fx with
    | Ok co =>
        match calculate_centroids adj co deg with
        | Ok tmp =>
            let nc := keep_fixed 0 co fx tmp in
            match spread nc with
            | Some sp => Ok (co, if Qcltb sp eps then avg nc co else nc)
            | None => EmptyMin          (* max() of an empty sequence *)
            end
        | EmptyMin => EmptyMin | ZeroDiv => ZeroDiv | AssertFail => AssertFail
        end
    | EmptyMin => EmptyMin | ZeroDiv => ZeroDiv | AssertFail => AssertFail
    end.

  (* ... normalize(new_coord, max_span[d], fixed): on BOTH paths *)
  Definition iter_step (prev : list (list Qc)) (c : list Qc) : res (list Qc * list Qc) :=
    match iter_vec prev c with
    | Ok (co, v) =>
        match normalize thr v spans fx with
        | Ok c' => Ok (co, c')
        | EmptyMin => EmptyMin | ZeroDiv => ZeroDiv | AssertFail => AssertFail
        end
    | EmptyMin => EmptyMin | ZeroDiv => ZeroDiv | AssertFail => AssertFail
    end.

  (* while (dotprod < one_minus_epsilon or dotprod > 1 + epsilon) and num_iter < 10000 *)
  Definition goes_on (dp : Qc) : bool := Qcltb dp (1 - eps) || Qcltb (1 + eps) dp.

  (* the loop of one dimension; [fuel] = iterations still allowed (10000 at the start), [dp] = the current
     dotprod (0 at the start); returns the row and the number of iterations done *)
  Fixpoint dim_iter (fuel : nat) (dp : Qc) (prev : list (list Qc)) (c : list Qc) : res (list Qc * nat) :=
    match fuel with
    | O => Ok (c, O)
    | S fuel' =>
        if goes_on dp then
          match iter_step prev c with
          | Ok (co, c') =>
              match abs_norm_dot_product co c' mass with
              | Ok dp' =>
                  match dim_iter fuel' dp' prev c' with
                  | Ok (r, k) => Ok (r, S k)
                  | EmptyMin => EmptyMin | ZeroDiv => ZeroDiv | AssertFail => AssertFail
                  end
              | EmptyMin => EmptyMin | ZeroDiv => ZeroDiv | AssertFail => AssertFail
              end
          | EmptyMin => EmptyMin | ZeroDiv => ZeroDiv | AssertFail => AssertFail
          end
        else Ok (c, O)
    end.

  (* one dimension of spectral_layout_die with the concrete iteration: the start row (given entries; the random
     ones stay a parameter), the first normalize, the loop *)
  Definition dim_run_conc (rnd : nat -> nat -> nat -> Qc) (d fuel : nat) (size : Qc) (ini : list Qc)
             (prev : list (list Qc)) : res (list Qc * nat) :=
    match init_coord rnd 0 d 0 (size * half) fx ini with
    | Ok c0 =>
        match normalize thr c0 spans fx with
        | Ok c => dim_iter fuel 0 prev c
        | EmptyMin => EmptyMin | ZeroDiv => ZeroDiv | AssertFail => AssertFail
        end
    | EmptyMin => EmptyMin | ZeroDiv => ZeroDiv | AssertFail => AssertFail
    end.
End Iteration.
