(* Facts about the shell of spectral_layout_die / Spectral.spectral_layout for an
   ARBITRARY eigen-iteration: every statement quantifies over [rnd], [produce], [niter]
   and [radius_of] without any hypothesis on them. *)
From FrameModel Require Import Num.QcTac Geometry.Rect Spectral.Normalize Spectral.NormalizeFacts.
Open Scope Qc_scope.

Ltac dres H :=
  repeat match type of H with
         | context [match ?e with _ => _ end] => destruct e eqn:?; try discriminate
         end.

Section LayoutFacts.
  Variable thr : Qc.
  Variable rnd : nat -> nat -> nat -> Qc.
  Variable produce : nat -> nat -> nat -> list (list Qc) -> list Qc -> list Qc.
  Variable niter : nat -> nat -> nat.

  (* post-condition of one finished dimension relative to a reference row [ref]:
     same length, fixed entries as in [ref], movable entries within their span *)
  Definition post (spans : list Qc) (fx : list bool) (ref c : list Qc) : Prop :=
    List.length c = List.length ref /\
    (forall j, nth_error fx j = Some true -> nth_error c j = nth_error ref j) /\
    (forall j y s, nth_error c j = Some y -> nth_error spans j = Some s -> nth_error fx j = Some false ->
                   0 <= s -> Qcabs y <= s).

  Lemma normalize_post xs spans fx ys : normalize thr xs spans fx = Ok ys -> post spans fx xs ys.
  Proof.
    intros Hn. split; [eapply normalize_length; eassumption|]. split.
    - intros j Hf. eapply normalize_fixed; eassumption.
    - intros j y s Hy Hs Hf H0. eapply normalize_bound; eassumption.
  Qed.

  Lemma keep_fixed_length : forall cur i fx new, List.length (keep_fixed i cur fx new) = List.length cur.
  Proof. induction cur as [|c cur IH]; intros i [|f fx] new; cbn [keep_fixed List.length]; auto. Qed.

  Lemma keep_fixed_nth : forall cur i fx new j, nth_error fx j = Some true ->
    nth_error (keep_fixed i cur fx new) j = nth_error cur j.
  Proof.
    induction cur as [|c cur IH]; intros i [|f fx] new j Hf; cbn [keep_fixed]; auto.
    destruct j as [|j]; cbn [nth_error] in *.
    - inversion Hf; subst. reflexivity.
    - apply IH; exact Hf.
  Qed.

  Lemma dim_loop_post tr d prev spans fx ref : forall n k c c',
    dim_loop thr produce tr d n k prev spans fx c = Ok c' ->
    post spans fx ref c -> post spans fx ref c'.
  Proof.
    induction n as [|n IH]; intros k c c' Hl Hp; cbn [dim_loop] in Hl.
    - inversion Hl; subst; exact Hp.
    - destruct (normalize thr (keep_fixed 0 c fx (produce tr d k prev c)) spans fx) as [c1| | |] eqn:En;
        try discriminate.
      apply (IH _ _ _ Hl). apply normalize_post in En. destruct En as (L1 & F1 & B1).
      destruct Hp as (L0 & F0 & _). split; [|split].
      + rewrite L1, keep_fixed_length. exact L0.
      + intros j Hf. rewrite (F1 j Hf), keep_fixed_nth by exact Hf. apply F0; exact Hf.
      + exact B1.
  Qed.

  Lemma init_coord_post tr d hs : forall ini fx i c,
    init_coord rnd tr d i hs fx ini = Ok c -> List.length fx = List.length ini ->
    List.length c = List.length ini /\
    forall j x, nth_error ini j = Some x -> nth_error fx j = Some true -> nth_error c j = Some (x - hs).
  Proof.
    induction ini as [|x ini IH]; intros [|f fx] i c Hi Hl; cbn [List.length] in Hl; try discriminate.
    - cbn in Hi. inversion Hi; subst. split; [reflexivity|]. intros [|j] ? Hx; discriminate.
    - cbn [init_coord] in Hi. destruct (Qcltb x 0 && f) eqn:E; [discriminate|].
      destruct (init_coord rnd tr d (S i) hs fx ini) as [r| | |] eqn:Er; try discriminate.
      inversion Hi; subst c; clear Hi.
      destruct (IH fx (S i) r Er ltac:(lia)) as [L Fx]. split; [cbn [List.length]; lia|].
      intros [|j] x' Hx Hf; cbn [nth_error] in *.
      + inversion Hx; inversion Hf; subst. rewrite andb_true_r in E. rewrite E. reflexivity.
      + apply Fx; assumption.
  Qed.

  (* one dimension: same length as the input row, fixed entries = initial - size/2,
     movable entries within size/2 - radius whenever that is non-negative *)
  Lemma dim_run_post tr d size radius fx ini prev c :
    dim_run thr rnd produce niter tr d size radius fx ini prev = Ok c ->
    List.length fx = List.length ini ->
    List.length c = List.length ini /\
    (forall j x, nth_error ini j = Some x -> nth_error fx j = Some true ->
                 nth_error c j = Some (x - size * half)) /\
    (forall j y r, nth_error c j = Some y -> nth_error radius j = Some r -> nth_error fx j = Some false ->
                   r <= size * half -> Qcabs y + r <= size * half).
  Proof.
    unfold dim_run. intros Hr Hl.
    destruct (init_coord rnd tr d 0 (size * half) fx ini) as [c0| | |] eqn:Ei; try discriminate.
    destruct (normalize thr c0 (spans_of size radius) fx) as [c1| | |] eqn:En; try discriminate.
    apply normalize_post in En.
    pose proof (dim_loop_post _ _ _ _ _ c0 _ _ _ _ Hr En) as (L & Fx & Bd).
    destruct (init_coord_post _ _ _ _ _ _ _ Ei Hl) as [L0 F0].
    split; [congruence|]. split.
    - intros j x Hx Hf. rewrite (Fx j Hf). apply F0; assumption.
    - intros j y r Hy Hrad Hf Hle.
      assert (Hs : nth_error (spans_of size radius) j = Some (size * half - r)).
      { unfold spans_of. rewrite nth_error_map, Hrad. reflexivity. }
      specialize (Bd j y _ Hy Hs Hf ltac:(qlra)). qlra.
  Qed.

  Lemma layout_die_post tr W H radius fx inix iniy xs ys :
    layout_die thr rnd produce niter tr W H radius fx inix iniy = Ok (xs, ys) ->
    List.length fx = List.length inix -> List.length fx = List.length iniy ->
    (List.length xs = List.length inix /\
     (forall j x, nth_error inix j = Some x -> nth_error fx j = Some true -> nth_error xs j = Some (x - W * half)) /\
     (forall j y r, nth_error xs j = Some y -> nth_error radius j = Some r -> nth_error fx j = Some false ->
                    r <= W * half -> Qcabs y + r <= W * half)) /\
    (List.length ys = List.length iniy /\
     (forall j x, nth_error iniy j = Some x -> nth_error fx j = Some true -> nth_error ys j = Some (x - H * half)) /\
     (forall j y r, nth_error ys j = Some y -> nth_error radius j = Some r -> nth_error fx j = Some false ->
                    r <= H * half -> Qcabs y + r <= H * half)).
  Proof.
    unfold layout_die. intros Hd Hlx Hly.
    destruct (dim_run thr rnd produce niter tr 1 W radius fx inix []) as [xs'| | |] eqn:Ex; try discriminate.
    destruct (dim_run thr rnd produce niter tr 2 H radius fx iniy [xs']) as [ys'| | |] eqn:Ey; try discriminate.
    inversion Hd; subst xs' ys'. split.
    - eapply dim_run_post; eassumption.
    - eapply dim_run_post; eassumption.
  Qed.

  (* the selected coordinates are those of one of the trials *)
  Lemma trials_In (wl : list Qc * list Qc -> Qc) run : forall n tr best c w,
    trials wl run n tr best = Ok (Some (c, w)) ->
    best = Some (c, w) \/ exists t, run t = Ok c.
  Proof.
    induction n as [|n IH]; intros tr best c w Ht; cbn [trials] in Ht.
    - inversion Ht; auto.
    - destruct (run tr) as [c1| | |] eqn:Er; try discriminate.
      apply IH in Ht. destruct Ht as [Hb|Hex]; [|right; exact Hex].
      destruct best as [[cb wb]|].
      + destruct (Qcltb (wl c1) wb).
        * inversion Hb; subst. right. exists tr. exact Er.
        * left; exact Hb.
      + inversion Hb; subst. right. exists tr. exact Er.
  Qed.

  (* ---------------- modules ---------------- *)
  Context {A B : Type}.
  Notation smod := (smod A).
  Notation snet := (snet A B).
  Variable radius_of : smod -> Qc.

  Lemma place_all_nth W H : forall (ms : list smod) xs ys ms',
    place_all W H ms xs ys = Ok ms' ->
    List.length ms' = List.length ms /\
    forall i m, nth_error ms i = Some m ->
      exists x y m', nth_error xs i = Some x /\ nth_error ys i = Some y /\
                     place W H m x y = Ok m' /\ nth_error ms' i = Some m'.
  Proof.
    induction ms as [|m ms IH]; intros xs ys ms' Hp.
    - cbn in Hp. inversion Hp; subst. split; [reflexivity|]. intros [|i] ? Hm; discriminate.
    - destruct xs as [|x xs]; [discriminate|]. destruct ys as [|y ys]; [discriminate|].
      cbn [place_all] in Hp.
      destruct (place W H m x y) as [m1| | |] eqn:E1; try discriminate.
      destruct (place_all W H ms xs ys) as [r| | |] eqn:Er; try discriminate.
      inversion Hp; subst ms'; clear Hp.
      destruct (IH _ _ _ Er) as [L N]. split; [cbn [List.length]; lia|].
      intros [|i] m0 Hm; cbn [nth_error] in *.
      + inversion Hm; subst m0. exists x, y, m1. auto.
      + apply N; exact Hm.
  Qed.

  Definition shape_of (r : Rect) := (rw r, rh r, fixed r, hard r, region r, rloc r).

  Lemma recenter_rigid rs c rs' : recenter rs c = Ok rs' ->
    exists dx dy, rs' = map (shift dx dy) rs.
  Proof.
    unfold recenter. intros Hr. destruct (Qceqb (rects_area rs) 0); [discriminate|].
    inversion Hr. eexists; eexists; reflexivity.
  Qed.

  Lemma shift_shape dx dy rs : map shape_of (map (shift dx dy) rs) = map shape_of rs.
  Proof. rewrite map_map. apply map_ext. intros r. reflexivity. Qed.

  Lemma shift_area dx dy rs : rects_area (map (shift dx dy) rs) = rects_area rs.
  Proof. unfold rects_area. rewrite map_map. f_equal. Qed.

  Lemma Qcsum_shift_x dx dy rs :
    Qcsum (map (fun r => cx r * area r) (map (shift dx dy) rs)) =
    Qcsum (map (fun r => cx r * area r) rs) + dx * rects_area rs.
  Proof.
    unfold rects_area. induction rs as [|r rs IH]; cbn [map Qcsum]; [ring|].
    rewrite IH. unfold shift, area; cbn [cx rw rh]. ring.
  Qed.
  Lemma Qcsum_shift_y dx dy rs :
    Qcsum (map (fun r => cy r * area r) (map (shift dx dy) rs)) =
    Qcsum (map (fun r => cy r * area r) rs) + dy * rects_area rs.
  Proof.
    unfold rects_area. induction rs as [|r rs IH]; cbn [map Qcsum]; [ring|].
    rewrite IH. unfold shift, area; cbn [cy rw rh]. ring.
  Qed.

  (* after recentring, the area-weighted centre of the rectangles is the centre that was assigned *)
  Lemma recenter_centroid rs c rs' : recenter rs c = Ok rs' ->
    rects_area rs' = rects_area rs /\ rects_area rs <> 0 /\
    Qcsum (map (fun r => cx r * area r) rs') = fst c * rects_area rs' /\
    Qcsum (map (fun r => cy r * area r) rs') = snd c * rects_area rs'.
  Proof.
    unfold recenter. intros Hr. destruct (Qceqb (rects_area rs) 0) eqn:E; [discriminate|].
    apply Qceqb_false in E. inversion Hr; subst rs'; clear Hr.
    rewrite shift_area, Qcsum_shift_x, Qcsum_shift_y. splits; auto; field; exact E.
  Qed.

  Definition has_centre (m : smod) : bool := match s_centre m with Some _ => true | None => false end.

  (* everything spectral_layout guarantees about one module, given the netlist it returned *)
  Theorem layout_module W H nf (nl out : snet) i m :
    spectral_layout thr rnd produce niter radius_of W H nf nl = Ok out ->
    nth_error (s_mods nl) i = Some m ->
    exists x y m', nth_error (s_mods out) i = Some m' /\ place W H m x y = Ok m' /\
      (s_fixed m = false -> radius_of m <= W * half -> Qcabs x + radius_of m <= W * half) /\
      (s_fixed m = false -> radius_of m <= H * half -> Qcabs y + radius_of m <= H * half) /\
      (s_fixed m = true -> exists c, s_centre m = Some c /\ x = fst c - W * half /\ y = snd c - H * half).
  Proof.
    unfold spectral_layout. intros Hs Hm.
    destruct (Nat.leb (List.length (s_mods nl)) 2); [discriminate|].
    destruct (Nat.eqb nf 0 && negb (forallb (fun m => match s_centre m with Some _ => true | None => false end) (s_mods nl)));
      [discriminate|].
    destruct (forallb (fun m => negb (s_fixed m) || match s_centre m with Some _ => true | None => false end) (s_mods nl))
      eqn:Efix; [|discriminate]. cbn [negb] in Hs.
    set (inix := map (if Nat.eqb nf 0 then cx_of else forget cx_of) (s_mods nl)) in *.
    set (iniy := map (if Nat.eqb nf 0 then cy_of else forget cy_of) (s_mods nl)) in *.
    set (fx := map s_fixed (s_mods nl)) in *.
    set (radius := map radius_of (s_mods nl)) in *.
    match type of Hs with context [trials ?wl ?run ?n 0 None] =>
      destruct (trials wl run n 0%nat None) as [[[c w]|]| | |] eqn:Et; try discriminate end.
    destruct (place_all W H (s_mods nl) (fst c) (snd c)) as [ms'| | |] eqn:Ep; try discriminate.
    inversion Hs; subst out; clear Hs. cbn [s_mods].
    apply trials_In in Et. destruct Et as [Hb|[t Ht]]; [discriminate|].
    destruct c as [xs ys]. cbn [fst snd] in *.
    apply layout_die_post in Ht; try (unfold fx, inix, iniy; rewrite !map_length; reflexivity).
    destruct Ht as [(Lx & Fxx & Bx) (Ly & Fxy & By)].
    destruct (place_all_nth _ _ _ _ _ _ Ep) as [_ N].
    destruct (N i m Hm) as (x & y & m' & Hx & Hy & Hpl & Hm').
    exists x, y, m'. split; [exact Hm'|]. split; [exact Hpl|].
    assert (Hrad : nth_error radius i = Some (radius_of m)) by (unfold radius; rewrite nth_error_map, Hm; reflexivity).
    assert (Hfx : nth_error fx i = Some (s_fixed m)) by (unfold fx; rewrite nth_error_map, Hm; reflexivity).
    split; [|split].
    - intros Hf Hr. rewrite Hf in Hfx. eapply Bx; eassumption.
    - intros Hf Hr. rewrite Hf in Hfx. eapply By; eassumption.
    - intros Hf. rewrite Hf in Hfx.
      rewrite forallb_forall in Efix. specialize (Efix m (nth_error_In _ _ Hm)). rewrite Hf in Efix. cbn in Efix.
      destruct (s_centre m) as [c0|] eqn:Ec; [|discriminate]. exists c0. split; [reflexivity|].
      assert (Hix : nth_error inix i = Some (fst c0)).
      { unfold inix. rewrite nth_error_map, Hm. cbn [option_map].
        destruct (Nat.eqb nf 0); unfold forget, cx_of; rewrite ?Hf, Ec; reflexivity. }
      assert (Hiy : nth_error iniy i = Some (snd c0)).
      { unfold iniy. rewrite nth_error_map, Hm. cbn [option_map].
        destruct (Nat.eqb nf 0); unfold forget, cy_of; rewrite ?Hf, Ec; reflexivity. }
      rewrite (Fxx i _ Hix Hfx) in Hx. rewrite (Fxy i _ Hiy Hfx) in Hy.
      inversion Hx; inversion Hy; auto.
  Qed.

  (* the disc of a module of radius r centred at c lies in the die [0,W] x [0,H] *)
  Definition disc_in_die (W H : Qc) (c : vec) (r : Qc) : Prop :=
    Qcabs (fst c - W * half) + r <= W * half /\ Qcabs (snd c - H * half) + r <= H * half.

  Lemma disc_in_die_geom W H c r : disc_in_die W H c r <->
    (0 <= fst c - r /\ fst c + r <= W /\ 0 <= snd c - r /\ snd c + r <= H).
  Proof.
    unfold disc_in_die. split.
    - intros [H1 H2]. splits; qmlra.
    - intros (H1 & H2 & H3 & H4). split; qmlra.
  Qed.

  (* position of a module in a netlist: its centre if it has one, else the
     area-weighted centre of its rectangles *)
  Definition centroid_is (rs : list Rect) (c : vec) : Prop :=
    rects_area rs <> 0 /\
    Qcsum (map (fun r => cx r * area r) rs) = fst c * rects_area rs /\
    Qcsum (map (fun r => cy r * area r) rs) = snd c * rects_area rs.
  Definition position_is (m : smod) (c : vec) : Prop :=
    s_centre m = Some c \/ (s_centre m = None /\ centroid_is (s_rects m) c).

  (* C14: every movable module whose disc fits in the die ends with its disc in the die *)
  Theorem layout_discs W H nf (nl out : snet) i m :
    spectral_layout thr rnd produce niter radius_of W H nf nl = Ok out ->
    nth_error (s_mods nl) i = Some m -> s_fixed m = false ->
    radius_of m <= W * half -> radius_of m <= H * half ->
    exists m' c, nth_error (s_mods out) i = Some m' /\ position_is m' c /\ disc_in_die W H c (radius_of m).
  Proof.
    intros Hs Hm Hf HrW HrH.
    destruct (layout_module W H nf nl out i m Hs Hm) as (x & y & m' & Hm' & Hpl & Bx & By & _).
    exists m', (x + W * half, y + H * half). split; [exact Hm'|]. split.
    - unfold place in Hpl. rewrite Hf in Hpl. cbn [negb] in Hpl. rewrite andb_true_r in Hpl.
      destruct (s_hard m) eqn:Eh; cbn [andb] in Hpl.
      + destruct (recenter (s_rects m) (x + W * half, y + H * half)) as [rs| | |] eqn:Er; try discriminate.
        inversion Hpl; subst m'; clear Hpl. unfold position_is; cbn [s_centre s_rects].
        destruct (s_terminal m); cbn [negb]; [left; reflexivity|right].
        split; [reflexivity|]. apply recenter_centroid in Er. destruct Er as (Ea & Hne & Ex & Ey).
        unfold centroid_is. rewrite Ea in *. auto.
      + inversion Hpl; subst m'. left. reflexivity.
    - unfold disc_in_die; cbn [fst snd].
      replace (x + W * half - W * half) with x by ring. replace (y + H * half - H * half) with y by ring.
      split; [apply Bx|apply By]; assumption.
  Qed.

  (* fixed modules: rectangles and flags as they were; the centre is the original one
     ((c - size/2) + size/2), dropped for hard non-terminal modules as for every hard module *)
  Theorem layout_fixed W H nf (nl out : snet) i m :
    spectral_layout thr rnd produce niter radius_of W H nf nl = Ok out ->
    nth_error (s_mods nl) i = Some m -> s_fixed m = true ->
    exists c, s_centre m = Some c /\
      nth_error (s_mods out) i =
      Some (mkSmod (if s_hard m && negb (s_terminal m) then None else Some c)
                   (s_fixed m) (s_hard m) (s_terminal m) (s_rects m) (s_other m)).
  Proof.
    intros Hs Hm Hf.
    destruct (layout_module W H nf nl out i m Hs Hm) as (x & y & m' & Hm' & Hpl & _ & _ & Hfix).
    destruct (Hfix Hf) as (c & Ec & Ex & Ey). exists c. split; [exact Ec|].
    rewrite Hm'. f_equal. unfold place in Hpl. rewrite Hf in Hpl. cbn [negb] in Hpl. rewrite andb_false_r in Hpl.
    inversion Hpl; subst m' x y. rewrite Hf.
    replace (fst c - W * half + W * half) with (fst c) by ring.
    replace (snd c - H * half + H * half) with (snd c) by ring.
    destruct c; reflexivity.
  Qed.

  (* movable hard modules are translated: every rectangle by the same vector *)
  Theorem layout_rigid W H nf (nl out : snet) i m :
    spectral_layout thr rnd produce niter radius_of W H nf nl = Ok out ->
    nth_error (s_mods nl) i = Some m -> s_fixed m = false -> s_hard m = true ->
    exists m' dx dy, nth_error (s_mods out) i = Some m' /\ s_rects m' = map (shift dx dy) (s_rects m).
  Proof.
    intros Hs Hm Hf Hh.
    destruct (layout_module W H nf nl out i m Hs Hm) as (x & y & m' & Hm' & Hpl & _).
    unfold place in Hpl. rewrite Hf, Hh in Hpl. cbn [negb andb] in Hpl.
    destruct (recenter (s_rects m) (x + W * half, y + H * half)) as [rs| | |] eqn:Er; try discriminate.
    inversion Hpl; subst m'; clear Hpl.
    destruct (recenter_rigid _ _ _ Er) as (dx & dy & E).
    exists (mkSmod (if negb (s_terminal m) then None else Some (x + W * half, y + H * half))
                   false true (s_terminal m) rs (s_other m)), dx, dy.
    split; [exact Hm'|exact E].
  Qed.

  Lemma place_same W H (m : smod) x y (m' : smod) : place W H m x y = Ok m' ->
    s_other m' = s_other m /\ s_fixed m' = s_fixed m /\ s_hard m' = s_hard m /\
    s_terminal m' = s_terminal m /\ map shape_of (s_rects m') = map shape_of (s_rects m) /\
    rects_area (s_rects m') = rects_area (s_rects m) /\
    (s_hard m && negb (s_fixed m) = false -> s_rects m' = s_rects m).
  Proof.
    unfold place. intros Hp. destruct (s_hard m && negb (s_fixed m)) eqn:E.
    - destruct (recenter (s_rects m) (x + W * half, y + H * half)) as [rs| | |] eqn:Er; try discriminate.
      inversion Hp; subst m'; cbn [s_other s_fixed s_hard s_terminal s_rects]. destruct (recenter_rigid _ _ _ Er) as (dx & dy & Ers). subst rs.
      rewrite shift_shape, shift_area. splits; auto. discriminate.
    - inversion Hp; subst m'; cbn [s_other s_fixed s_hard s_terminal s_rects]. splits; auto.
  Qed.

  (* areas and nets: the same modules in the same order with the same payload (name,
     areas, aspect ratio ...), flags, rectangle shapes/regions/roles and total rectangle
     area; rectangles of soft and fixed modules untouched; the same nets and graph *)
  Theorem layout_same_nets_areas W H nf (nl out : snet) :
    spectral_layout thr rnd produce niter radius_of W H nf nl = Ok out ->
    s_nets out = s_nets nl /\ s_adj out = s_adj nl /\
    List.length (s_mods out) = List.length (s_mods nl) /\
    forall i m, nth_error (s_mods nl) i = Some m ->
      exists m', nth_error (s_mods out) i = Some m' /\
        s_other m' = s_other m /\ s_fixed m' = s_fixed m /\ s_hard m' = s_hard m /\
        s_terminal m' = s_terminal m /\ map shape_of (s_rects m') = map shape_of (s_rects m) /\
        rects_area (s_rects m') = rects_area (s_rects m) /\
        (s_hard m && negb (s_fixed m) = false -> s_rects m' = s_rects m).
  Proof.
    intros Hs. assert (Hs' := Hs). unfold spectral_layout in Hs.
    dres Hs. inversion Hs; subst out; clear Hs. cbn [s_nets s_adj s_mods].
    splits; auto.
    - match goal with Hp : place_all _ _ _ _ _ = Ok _ |- _ => apply place_all_nth in Hp; destruct Hp as [L _]; exact L end.
    - intros i m Hm.
      destruct (layout_module W H nf nl _ i m Hs' Hm) as (x & y & m' & Hm' & Hpl & _).
      cbn [s_mods] in Hm'. exists m'. split; [exact Hm'|]. eapply place_same; eassumption.
  Qed.
End LayoutFacts.
