(* Facts about the shell of spectral_layout_die / Spectral.spectral_layout for an
   ARBITRARY eigen-iteration: every statement quantifies over [rnd], [produce], [niter]
   and [radius_of] without any hypothesis on them. *)
From FrameModel Require Import Num.QcTac Geometry.Rect Spectral.Normalize Spectral.NormalizeFacts.
Open Scope Qc_scope.

Ltac dres H :=
  repeat match type of H with
         | context [match ?e with _ => _ end] => destruct e eqn:?; try discriminate
         end.

Section LayoutFacts.
  Variable thr : Qc.
  Variable rnd : nat -> nat -> nat -> Qc.
  Variable produce : nat -> nat -> nat -> list (list Qc) -> list Qc -> list Qc.
  Variable niter : nat -> nat -> nat.

  (* post-condition of one finished dimension relative to a reference row [ref]:
     same length, fixed entries as in [ref], movable entries within their span *)
  Definition post (spans : list Qc) (fx : list bool) (ref c : list Qc) : Prop :=
    List.length c = List.length ref /\
    (forall j, nth_error fx j = Some true -> nth_error c j = nth_error ref j) /\
    (forall j y s, nth_error c j = Some y -> nth_error spans j = Some s -> nth_error fx j = Some false ->
                   0 <= s -> Qcabs y <= s).

  Lemma normalize_post xs spans fx ys : normalize thr xs spans fx = Ok ys -> post spans fx xs ys.
  Proof.
    intros Hn. split; [eapply normalize_length; eassumption|]. split.
    - intros j Hf. eapply normalize_fixed; eassumption.
    - intros j y s Hy Hs Hf H0. eapply normalize_bound; eassumption.
  Qed.

  Lemma keep_fixed_length : forall cur i fx new, List.length (keep_fixed i cur fx new) = List.length cur.
  Proof. induction cur as [|c cur IH]; intros i [|f fx] new; cbn [keep_fixed List.length]; auto. Qed.

  Lemma keep_fixed_nth : forall cur i fx new j, nth_error fx j = Some true ->
    nth_error (keep_fixed i cur fx new) j = nth_error cur j.
  Proof.
    induction cur as [|c cur IH]; intros i [|f fx] new j Hf; cbn [keep_fixed]; auto.
    destruct j as [|j]; cbn [nth_error] in *.
    - inversion Hf; subst. reflexivity.
    - apply IH; exact Hf.
  Qed.

  Lemma dim_loop_post tr d prev spans fx ref : forall n k c c',
    dim_loop thr produce tr d n k prev spans fx c = Ok c' ->
    post spans fx ref c -> post spans fx ref c'.
  Proof.
    induction n as [|n IH]; intros k c c' Hl Hp; cbn [dim_loop] in Hl.
    - inversion Hl; subst; exact Hp.
    - destruct (normalize thr (keep_fixed 0 c fx (produce tr d k prev c)) spans fx) as [c1| | |] eqn:En;
        try discriminate.
      apply (IH _ _ _ Hl). apply normalize_post in En. destruct En as (L1 & F1 & B1).
      destruct Hp as (L0 & F0 & _). split; [|split].
      + rewrite L1, keep_fixed_length. exact L0.
      + intros j Hf. rewrite (F1 j Hf), keep_fixed_nth by exact Hf. apply F0; exact Hf.
      + exact B1.
  Qed.

  Lemma init_coord_post tr d hs : forall ini fx i c,
    init_coord rnd tr d i hs fx ini = Ok c -> List.length fx = List.length ini ->
    List.length c = List.length ini /\
    forall j x, nth_error ini j = Some x -> nth_error fx j = Some true -> nth_error c j = Some (x - hs).
  Proof.
    induction ini as [|x ini IH]; intros [|f fx] i c Hi Hl; cbn [List.length] in Hl; try discriminate.
    - cbn in Hi. inversion Hi; subst. split; [reflexivity|]. intros [|j] ? Hx; discriminate.
    - cbn [init_coord] in Hi. destruct (Qcltb x 0 && f) eqn:E; [discriminate|].
      destruct (init_coord rnd tr d (S i) hs fx ini) as [r| | |] eqn:Er; try discriminate.
      inversion Hi; subst c; clear Hi.
      destruct (IH fx (S i) r Er ltac:(lia)) as [L Fx]. split; [cbn [List.length]; lia|].
      intros [|j] x' Hx Hf; cbn [nth_error] in *.
      + inversion Hx; inversion Hf; subst. rewrite andb_true_r in E. rewrite E. reflexivity.
      + apply Fx; assumption.
  Qed.

  (* one dimension: same length as the input row, fixed entries = initial - size/2,
     movable entries within size/2 - radius whenever that is non-negative *)
  Lemma dim_run_post tr d size radius fx ini prev c :
    dim_run thr rnd produce niter tr d size radius fx ini prev = Ok c ->
    List.length fx = List.length ini ->
    List.length c = List.length ini /\
    (forall j x, nth_error ini j = Some x -> nth_error fx j = Some true ->
                 nth_error c j = Some (x - size * half)) /\
    (forall j y r, nth_error c j = Some y -> nth_error radius j = Some r -> nth_error fx j = Some false ->
                   r <= size * half -> Qcabs y + r <= size * half).
  Proof.
    unfold dim_run. intros Hr Hl.
    destruct (init_coord rnd tr d 0 (size * half) fx ini) as [c0| | |] eqn:Ei; try discriminate.
    destruct (normalize thr c0 (spans_of size radius) fx) as [c1| | |] eqn:En; try discriminate.
    apply normalize_post in En.
    pose proof (dim_loop_post _ _ _ _ _ c0 _ _ _ _ Hr En) as (L & Fx & Bd).
    destruct (init_coord_post _ _ _ _ _ _ _ Ei Hl) as [L0 F0].
    split; [congruence|]. split.
    - intros j x Hx Hf. rewrite (Fx j Hf). apply F0; assumption.
    - intros j y r Hy Hrad Hf Hle.
      assert (Hs : nth_error (spans_of size radius) j = Some (size * half - r)).
      { unfold spans_of. rewrite nth_error_map, Hrad. reflexivity. }
      specialize (Bd j y _ Hy Hs Hf ltac:(qlra)). qlra.
  Qed.

  Lemma layout_die_post tr W H radius fx inix iniy xs ys :
    layout_die thr rnd produce niter tr W H radius fx inix iniy = Ok (xs, ys) ->
    List.length fx = List.length inix -> List.length fx = List.length iniy ->
    (List.length xs = List.length inix /\
     (forall j x, nth_error inix j = Some x -> nth_error fx j = Some true -> nth_error xs j = Some (x - W * half)) /\
     (forall j y r, nth_error xs j = Some y -> nth_error radius j = Some r -> nth_error fx j = Some false ->
                    r <= W * half -> Qcabs y + r <= W * half)) /\
    (List.length ys = List.length iniy /\
     (forall j x, nth_error iniy j = Some x -> nth_error fx j = Some true -> nth_error ys j = Some (x - H * half)) /\
     (forall j y r, nth_error ys j = Some y -> nth_error radius j = Some r -> nth_error fx j = Some false ->
                    r <= H * half -> Qcabs y + r <= H * half)).
  Proof.
    unfold layout_die. intros Hd Hlx Hly.
    destruct (dim_run thr rnd produce niter tr 1 W radius fx inix []) as [xs'| | |] eqn:Ex; try discriminate.
    destruct (dim_run thr rnd produce niter tr 2 H radius fx iniy [xs']) as [ys'| | |] eqn:Ey; try discriminate.
    inversion Hd; subst xs' ys'. split.
    - eapply dim_run_post; eassumption.
    - eapply dim_run_post; eassumption.
  Qed.

  (* the selected coordinates are those of one of the trials *)
  Lemma trials_In (wl : list Qc * list Qc -> Qc) run : forall n tr best c w,
    trials wl run n tr best = Ok (Some (c, w)) ->
    best = Some (c, w) \/ exists t, run t = Ok c.
  Proof.
    induction n as [|n IH]; intros tr best c w Ht; cbn [trials] in Ht.
    - inversion Ht; auto.
    - destruct (run tr) as [c1| | |] eqn:Er; try discriminate.
      apply IH in Ht. destruct Ht as [Hb|Hex]; [|right; exact Hex].
      destruct best as [[cb wb]|].
      + destruct (Qcltb (wl c1) wb).
        * inversion Hb; subst. right. exists tr. exact Er.
        * left; exact Hb.
      + inversion Hb; subst. right. exists tr. exact Er.
  Qed.

  (* ---------------- modules ---------------- *)
  Context {A B : Type}.
  Notation smod := (smod A).
  Notation snet := (snet A B).
  Notation sess := (sess A B).
  Variable radius_of : smod -> Qc.

  Lemma place_all_nth W H : forall (ms : list smod) xs ys ms',
    place_all W H ms xs ys = Ok ms' ->
    List.length ms' = List.length ms /\
    forall i m, nth_error ms i = Some m ->
      exists x y m', nth_error xs i = Some x /\ nth_error ys i = Some y /\
                     place W H m x y = Ok m' /\ nth_error ms' i = Some m'.
  Proof.
    induction ms as [|m ms IH]; intros xs ys ms' Hp.
    - cbn in Hp. inversion Hp; subst. split; [reflexivity|]. intros [|i] ? Hm; discriminate.
    - destruct xs as [|x xs]; [discriminate|]. destruct ys as [|y ys]; [discriminate|].
      cbn [place_all] in Hp.
      destruct (place W H m x y) as [m1| | |] eqn:E1; try discriminate.
      destruct (place_all W H ms xs ys) as [r| | |] eqn:Er; try discriminate.
      inversion Hp; subst ms'; clear Hp.
      destruct (IH _ _ _ Er) as [L N]. split; [cbn [List.length]; lia|].
      intros [|i] m0 Hm; cbn [nth_error] in *.
      + inversion Hm; subst m0. exists x, y, m1. auto.
      + apply N; exact Hm.
  Qed.

  Definition shape_of (r : Rect) := (rw r, rh r, fixed r, hard r, region r, rloc r).

  (* ---------------- recenter_rectangles ---------------- *)
  (* every rectangle is moved by (centre - current area-weighted centre), in x AND in y, whatever the
     two increments are (zero, tiny, large - independently of each other) *)
  Lemma recenter_exact rs c rs' : recenter rs c = Ok rs' ->
    rects_area rs <> 0 /\ rs' = map (shift (fst c - gx rs) (snd c - gy rs)) rs.
  Proof.
    unfold recenter. intros Hr. destruct (Qceqb (rects_area rs) 0) eqn:E; [discriminate|].
    apply Qceqb_false in E. inversion Hr. split; [exact E|reflexivity].
  Qed.

  Lemma recenter_defined rs c : rects_area rs <> 0 ->
    recenter rs c = Ok (map (shift (fst c - gx rs) (snd c - gy rs)) rs).
  Proof.
    intros E. unfold recenter. destruct (Qceqb (rects_area rs) 0) eqn:E0.
    - apply Qceqb_true in E0. contradiction.
    - reflexivity.
  Qed.

  Lemma recenter_rigid rs c rs' : recenter rs c = Ok rs' ->
    exists dx dy, rs' = map (shift dx dy) rs.
  Proof. intros Hr. apply recenter_exact in Hr. destruct Hr as [_ E]. eexists; eexists; exact E. Qed.

  (* per rectangle: same shape, role and region; the displacement of each axis is the increment of
     that axis - an axis stands still exactly when ITS increment is zero, whatever the other one is *)
  Lemma recenter_nth rs c rs' i r : recenter rs c = Ok rs' -> nth_error rs i = Some r ->
    exists r', nth_error rs' i = Some r' /\ shape_of r' = shape_of r /\
      cx r' = cx r + (fst c - gx rs) /\ cy r' = cy r + (snd c - gy rs) /\
      (cx r' = cx r <-> fst c = gx rs) /\ (cy r' = cy r <-> snd c = gy rs).
  Proof.
    intros Hr Hn. apply recenter_exact in Hr. destruct Hr as [_ ->].
    exists (shift (fst c - gx rs) (snd c - gy rs) r). rewrite nth_error_map, Hn. cbn [option_map].
    unfold shift; cbn [cx cy]. splits; try reflexivity.
    - generalize (gx rs), (fst c), (cx r). intros g f x. split; intros E; qlra.
    - generalize (gy rs), (snd c), (cy r). intros g f x. split; intros E; qlra.
  Qed.

  Lemma shift_shape dx dy rs : map shape_of (map (shift dx dy) rs) = map shape_of rs.
  Proof. rewrite map_map. apply map_ext. intros r. reflexivity. Qed.

  Lemma shift_area dx dy rs : rects_area (map (shift dx dy) rs) = rects_area rs.
  Proof. unfold rects_area. rewrite map_map. f_equal. Qed.

  Lemma shift_zero r : shift 0 0 r = r.
  Proof. destruct r as [x y w h f hd rg lc]. unfold shift; cbn [cx cy rw rh fixed hard region rloc]. f_equal; ring. Qed.
  Lemma map_shift_zero rs : map (shift 0 0) rs = rs.
  Proof. induction rs as [|r rs IH]; cbn [map]; [reflexivity|]. rewrite shift_zero, IH. reflexivity. Qed.
  Lemma shift_shift dx1 dy1 dx2 dy2 r : shift dx2 dy2 (shift dx1 dy1 r) = shift (dx1 + dx2) (dy1 + dy2) r.
  Proof. unfold shift; cbn [cx cy rw rh fixed hard region rloc]. f_equal; ring. Qed.
  Lemma map_shift_shift dx1 dy1 dx2 dy2 rs :
    map (shift dx2 dy2) (map (shift dx1 dy1) rs) = map (shift (dx1 + dx2) (dy1 + dy2)) rs.
  Proof. rewrite map_map. apply map_ext. intros r. apply shift_shift. Qed.

  Lemma Qcsum_shift_x dx dy rs :
    Qcsum (map (fun r => cx r * area r) (map (shift dx dy) rs)) =
    Qcsum (map (fun r => cx r * area r) rs) + dx * rects_area rs.
  Proof.
    unfold rects_area. induction rs as [|r rs IH]; cbn [map Qcsum]; [ring|].
    rewrite IH. unfold shift, area; cbn [cx rw rh]. ring.
  Qed.
  Lemma Qcsum_shift_y dx dy rs :
    Qcsum (map (fun r => cy r * area r) (map (shift dx dy) rs)) =
    Qcsum (map (fun r => cy r * area r) rs) + dy * rects_area rs.
  Proof.
    unfold rects_area. induction rs as [|r rs IH]; cbn [map Qcsum]; [ring|].
    rewrite IH. unfold shift, area; cbn [cy rw rh]. ring.
  Qed.

  (* the area-weighted centre moves with the rectangles *)
  Lemma gx_shift dx dy rs : rects_area rs <> 0 -> gx (map (shift dx dy) rs) = gx rs + dx.
  Proof. intros E. unfold gx. rewrite shift_area, Qcsum_shift_x. field. exact E. Qed.
  Lemma gy_shift dx dy rs : rects_area rs <> 0 -> gy (map (shift dx dy) rs) = gy rs + dy.
  Proof. intros E. unfold gy. rewrite shift_area, Qcsum_shift_y. field. exact E. Qed.

  (* after recentring, the area-weighted centre of the rectangles is the centre that was assigned *)
  Lemma recenter_centroid rs c rs' : recenter rs c = Ok rs' ->
    rects_area rs' = rects_area rs /\ rects_area rs <> 0 /\
    Qcsum (map (fun r => cx r * area r) rs') = fst c * rects_area rs' /\
    Qcsum (map (fun r => cy r * area r) rs') = snd c * rects_area rs'.
  Proof.
    intros Hr. apply recenter_exact in Hr. destruct Hr as [E ->].
    rewrite shift_area, Qcsum_shift_x, Qcsum_shift_y. unfold gx, gy. splits; auto; field; exact E.
  Qed.

  Lemma recenter_g rs c rs' : recenter rs c = Ok rs' -> gx rs' = fst c /\ gy rs' = snd c.
  Proof.
    intros Hr. apply recenter_exact in Hr. destruct Hr as [E ->].
    rewrite gx_shift, gy_shift by exact E. split; ring.
  Qed.

  (* already there: nothing moves (both increments zero) *)
  Lemma recenter_fixpoint rs c : rects_area rs <> 0 -> gx rs = fst c -> gy rs = snd c -> recenter rs c = Ok rs.
  Proof.
    intros E Ex Ey. rewrite (recenter_defined rs c E), Ex, Ey.
    replace (fst c - fst c) with 0 by ring. replace (snd c - snd c) with 0 by ring.
    rewrite map_shift_zero. reflexivity.
  Qed.

  (* recentring twice to the same centre is recentring once *)
  Lemma recenter_idem rs c rs' : recenter rs c = Ok rs' -> recenter rs' c = Ok rs'.
  Proof.
    intros Hr. destruct (recenter_g _ _ _ Hr) as [Ex Ey]. destruct (recenter_centroid _ _ _ Hr) as (Ea & E & _).
    apply recenter_fixpoint; auto. rewrite Ea. exact E.
  Qed.

  (* a coincidence in one axis: that axis stands still, the other axis moves by its full increment *)
  Lemma recenter_axis_x rs c rs' i r r' : recenter rs c = Ok rs' -> gx rs = fst c ->
    nth_error rs i = Some r -> nth_error rs' i = Some r' -> cx r' = cx r /\ cy r' = cy r + (snd c - gy rs).
  Proof.
    intros Hr Ex Hn Hn'. destruct (recenter_nth _ _ _ _ _ Hr Hn) as (r1 & H1 & _ & _ & Hy & Hx & _).
    rewrite Hn' in H1. inversion H1; subst r1. split; [apply Hx; auto|exact Hy].
  Qed.
  Lemma recenter_axis_y rs c rs' i r r' : recenter rs c = Ok rs' -> gy rs = snd c ->
    nth_error rs i = Some r -> nth_error rs' i = Some r' -> cy r' = cy r /\ cx r' = cx r + (fst c - gx rs).
  Proof.
    intros Hr Ey Hn Hn'. destruct (recenter_nth _ _ _ _ _ Hr Hn) as (r1 & H1 & _ & Hx & _ & _ & Hy).
    rewrite Hn' in H1. inversion H1; subst r1. split; [apply Hy; auto|exact Hx].
  Qed.

  (* position of a set of rectangles *)
  Definition centroid_is (rs : list Rect) (c : vec) : Prop :=
    rects_area rs <> 0 /\
    Qcsum (map (fun r => cx r * area r) rs) = fst c * rects_area rs /\
    Qcsum (map (fun r => cy r * area r) rs) = snd c * rects_area rs.

  Lemma centroid_is_g rs c : centroid_is rs c <-> rects_area rs <> 0 /\ gx rs = fst c /\ gy rs = snd c.
  Proof.
    unfold centroid_is, gx, gy. split; intros (E & Hx & Hy); splits; auto.
    - rewrite Hx. field. exact E.
    - rewrite Hy. field. exact E.
    - rewrite <- Hx. field. exact E.
    - rewrite <- Hy. field. exact E.
  Qed.

  Lemma recenter_centroid_is rs c rs' : recenter rs c = Ok rs' -> centroid_is rs' c.
  Proof.
    intros Hr. apply recenter_centroid in Hr. destruct Hr as (Ea & E & Hx & Hy).
    unfold centroid_is. rewrite Ea in *. auto.
  Qed.

  (* ---------------- a hard module driven from outside: setter / add_rectangle / recenter ---------------- *)
  (* one recenter_rectangles() call on the module as it is NOW *)
  Lemma rc_recenter_step st st' : rc_step RcRecenter st = Ok st' ->
    exists c, rc_centre st = Some c /\ rc_centre st' = Some c /\ rects_area (rc_rects st) <> 0 /\
      rc_rects st' = map (shift (fst c - gx (rc_rects st)) (snd c - gy (rc_rects st))) (rc_rects st) /\
      centroid_is (rc_rects st') c.
  Proof.
    unfold rc_step. destruct (rc_centre st) as [c|]; [|discriminate].
    destruct (recenter (rc_rects st) c) as [rs| | |] eqn:Er; try discriminate.
    intros Hs. inversion Hs; subst st'; clear Hs. cbn [rc_centre rc_rects].
    exists c. destruct (recenter_exact _ _ _ Er) as [E Ers]. splits; auto.
    eapply recenter_centroid_is; eassumption.
  Qed.

  Lemma rc_run_app ops1 : forall ops2 st,
    rc_run (ops1 ++ ops2) st = match rc_run ops1 st with Ok st1 => rc_run ops2 st1 | e => e end.
  Proof.
    induction ops1 as [|op ops1 IH]; intros ops2 st; cbn [app rc_run]; [reflexivity|].
    destruct (rc_step op st) as [st1| | |]; auto.
  Qed.

  (* whatever was done to the module before (centres set, rectangles added, earlier recentrings):
     after a recenter_rectangles() that returns, the rectangles are those the module had just before
     the call, all moved by (centre - their area-weighted centre), and they are centred on the centre *)
  Lemma rc_history ops st st' : rc_run (ops ++ [RcRecenter]) st = Ok st' ->
    exists st1 c, rc_run ops st = Ok st1 /\ rc_centre st1 = Some c /\ rc_centre st' = Some c /\
      rc_rects st' = map (shift (fst c - gx (rc_rects st1)) (snd c - gy (rc_rects st1))) (rc_rects st1) /\
      centroid_is (rc_rects st') c.
  Proof.
    rewrite rc_run_app. destruct (rc_run ops st) as [st1| | |] eqn:E1; try discriminate.
    cbn [rc_run]. destruct (rc_step RcRecenter st1) as [st2| | |] eqn:E2; try discriminate.
    intros Hs. inversion Hs; subst st2; clear Hs.
    destruct (rc_recenter_step _ _ E2) as (c & Hc & Hc' & _ & Hr & Hcen).
    exists st1, c. splits; auto.
  Qed.

  (* recentring again without touching the module changes nothing *)
  Lemma rc_recenter_twice st st1 : rc_step RcRecenter st = Ok st1 -> rc_step RcRecenter st1 = Ok st1.
  Proof.
    unfold rc_step. destruct (rc_centre st) as [c|]; [|discriminate].
    destruct (recenter (rc_rects st) c) as [rs| | |] eqn:Er; try discriminate.
    intros Hs. inversion Hs; subst st1; clear Hs. cbn [rc_centre rc_rects].
    rewrite (recenter_idem _ _ _ Er). reflexivity.
  Qed.

  (* ---------------- one call on the object ---------------- *)
  Lemma wipe_length : forall fx cs, List.length (wipe fx cs) = List.length cs.
  Proof. induction fx as [|f fx IH]; intros [|c cs]; cbn [wipe List.length]; auto. Qed.

  Lemma wipe_nth_fixed : forall fx cs j, nth_error fx j = Some true -> nth_error (wipe fx cs) j = nth_error cs j.
  Proof.
    induction fx as [|f fx IH]; intros [|c cs] j Hf; cbn [wipe]; auto.
    destruct j as [|j]; cbn [nth_error] in *.
    - inversion Hf; subst. reflexivity.
    - apply IH; exact Hf.
  Qed.

  Lemma wipe_forget (coord : smod -> Qc) : forall ms, wipe (map s_fixed ms) (map coord ms) = map (forget coord) ms.
  Proof. induction ms as [|m ms IH]; cbn [map wipe]; [reflexivity|]. rewrite IH. reflexivity. Qed.

  Lemma place_fixed W H (m : smod) x y m' : place W H m x y = Ok m' -> s_fixed m' = s_fixed m.
  Proof.
    unfold place. intros Hp. destruct (s_hard m && negb (s_fixed m)).
    - destruct (recenter (s_rects m) (x + W * half, y + H * half)); try discriminate. inversion Hp; reflexivity.
    - inversion Hp; reflexivity.
  Qed.

  Lemma place_all_fixed W H : forall (ms : list smod) xs ys ms',
    place_all W H ms xs ys = Ok ms' -> map s_fixed ms' = map s_fixed ms.
  Proof.
    induction ms as [|m ms IH]; intros xs ys ms' Hp.
    - cbn in Hp. inversion Hp; reflexivity.
    - destruct xs as [|x xs]; [discriminate|]. destruct ys as [|y ys]; [discriminate|].
      cbn [place_all] in Hp.
      destruct (place W H m x y) as [m1| | |] eqn:E1; try discriminate.
      destruct (place_all W H ms xs ys) as [r| | |] eqn:Er; try discriminate.
      inversion Hp; subst ms'. cbn [map]. rewrite (IH _ _ _ Er), (place_fixed _ _ _ _ _ _ E1). reflexivity.
  Qed.

  (* everything the trials + placement guarantee about one module *)
  Lemma core_module W H nf (ms : list smod) adj fx radius inix iniy ms' i m :
    layout_core thr rnd produce niter W H nf ms adj fx radius inix iniy = Ok ms' ->
    List.length fx = List.length inix -> List.length fx = List.length iniy ->
    nth_error ms i = Some m ->
    exists x y m', nth_error ms' i = Some m' /\ place W H m x y = Ok m' /\
      (forall r, nth_error fx i = Some false -> nth_error radius i = Some r -> r <= W * half ->
                 Qcabs x + r <= W * half) /\
      (forall r, nth_error fx i = Some false -> nth_error radius i = Some r -> r <= H * half ->
                 Qcabs y + r <= H * half) /\
      (forall c0, nth_error fx i = Some true -> nth_error inix i = Some c0 -> x = c0 - W * half) /\
      (forall c0, nth_error fx i = Some true -> nth_error iniy i = Some c0 -> y = c0 - H * half).
  Proof.
    unfold layout_core. intros Hs Lx Ly Hm.
    destruct (Nat.leb (List.length radius) 2); [discriminate|].
    destruct (Nat.eqb nf 0 && negb (forallb has_centre ms)); [discriminate|].
    match type of Hs with context [trials ?wl ?run ?n 0 None] =>
      destruct (trials wl run n 0%nat None) as [[[c w]|]| | |] eqn:Et; try discriminate end.
    apply trials_In in Et. destruct Et as [Hb|[t Ht]]; [discriminate|].
    destruct c as [xs ys]. cbn [fst snd] in *.
    apply layout_die_post in Ht; auto.
    destruct Ht as [(_ & Fxx & Bx) (_ & Fxy & By)].
    destruct (place_all_nth _ _ _ _ _ _ Hs) as [_ N].
    destruct (N i m Hm) as (x & y & m' & Hx & Hy & Hpl & Hm').
    exists x, y, m'. splits; auto.
    - intros r Hf Hr Hle. eapply Bx; eassumption.
    - intros r Hf Hr Hle. eapply By; eassumption.
    - intros c0 Hf Hc. rewrite (Fxx i _ Hc Hf) in Hx. inversion Hx; reflexivity.
    - intros c0 Hf Hc. rewrite (Fxy i _ Hc Hf) in Hy. inversion Hy; reflexivity.
  Qed.

  Lemma core_frame W H nf (ms : list smod) adj fx radius inix iniy ms' :
    layout_core thr rnd produce niter W H nf ms adj fx radius inix iniy = Ok ms' ->
    List.length ms' = List.length ms /\ map s_fixed ms' = map s_fixed ms.
  Proof.
    unfold layout_core. intros Hs.
    destruct (Nat.leb (List.length radius) 2); [discriminate|].
    destruct (Nat.eqb nf 0 && negb (forallb has_centre ms)); [discriminate|].
    match type of Hs with context [trials ?wl ?run ?n 0 None] =>
      destruct (trials wl run n 0%nat None) as [[[c w]|]| | |] eqn:Et; try discriminate end.
    split; [eapply place_all_nth; eassumption|eapply place_all_fixed; eassumption].
  Qed.

  (* the object is well formed: the vectors stored at construction have one entry per module *)
  Definition sess_wf (s : sess) : Prop :=
    ss_fx s = map s_fixed (ss_mods s) /\ List.length (ss_radius s) = List.length (ss_mods s) /\
    List.length (ss_cx s) = List.length (ss_mods s) /\ List.length (ss_cy s) = List.length (ss_mods s).

  Lemma sess_centres_length nf (s : sess) : sess_wf s ->
    List.length (ss_fx s) = List.length (fst (sess_centres nf s)) /\
    List.length (ss_fx s) = List.length (snd (sess_centres nf s)).
  Proof.
    intros (Efx & _ & Lx & Ly). unfold sess_centres. rewrite Efx, map_length.
    destruct (Nat.eqb nf 0); cbn [fst snd]; rewrite ?wipe_length; auto.
  Qed.

  Lemma sess_centres_fixed nf (s : sess) j : nth_error (ss_fx s) j = Some true ->
    nth_error (fst (sess_centres nf s)) j = nth_error (ss_cx s) j /\
    nth_error (snd (sess_centres nf s)) j = nth_error (ss_cy s) j.
  Proof.
    intros Hf. unfold sess_centres. destruct (Nat.eqb nf 0); cbn [fst snd]; auto.
    split; apply wipe_nth_fixed; exact Hf.
  Qed.

  Lemma step_module W H nf (s s' : sess) i m :
    sess_step thr rnd produce niter W H nf s = Ok s' -> sess_wf s -> nth_error (ss_mods s) i = Some m ->
    exists x y m', nth_error (ss_mods s') i = Some m' /\ place W H m x y = Ok m' /\
      (s_fixed m = false -> forall r, nth_error (ss_radius s) i = Some r -> r <= W * half -> Qcabs x + r <= W * half) /\
      (s_fixed m = false -> forall r, nth_error (ss_radius s) i = Some r -> r <= H * half -> Qcabs y + r <= H * half) /\
      (s_fixed m = true -> forall c0, nth_error (ss_cx s) i = Some c0 -> x = c0 - W * half) /\
      (s_fixed m = true -> forall c0, nth_error (ss_cy s) i = Some c0 -> y = c0 - H * half).
  Proof.
    unfold sess_step. intros Hs Hwf Hm.
    destruct (layout_core thr rnd produce niter W H nf (ss_mods s) (ss_adj s) (ss_fx s) (ss_radius s)
                          (fst (sess_centres nf s)) (snd (sess_centres nf s))) as [ms'| | |] eqn:Ec; try discriminate.
    inversion Hs; subst s'; clear Hs. cbn [ss_mods].
    destruct (sess_centres_length nf s Hwf) as [Lx Ly].
    destruct (core_module _ _ _ _ _ _ _ _ _ _ i m Ec Lx Ly Hm) as (x & y & m' & Hm' & Hpl & Bx & By & Fx & Fy).
    assert (Hfx : nth_error (ss_fx s) i = Some (s_fixed m)).
    { destruct Hwf as (-> & _). rewrite nth_error_map, Hm. reflexivity. }
    exists x, y, m'. splits; auto.
    - intros Hf r Hr Hle. rewrite Hf in Hfx. eapply Bx; eassumption.
    - intros Hf r Hr Hle. rewrite Hf in Hfx. eapply By; eassumption.
    - intros Hf c0 Hc. rewrite Hf in Hfx. apply Fx; [exact Hfx|].
      rewrite (proj1 (sess_centres_fixed nf s i Hfx)). exact Hc.
    - intros Hf c0 Hc. rewrite Hf in Hfx. apply Fy; [exact Hfx|].
      rewrite (proj2 (sess_centres_fixed nf s i Hfx)). exact Hc.
  Qed.

  (* what a call leaves alone: the graph, the nets, the flags and radii stored at construction, the
     stored centres of the fixed modules *)
  Lemma step_frame W H nf (s s' : sess) :
    sess_step thr rnd produce niter W H nf s = Ok s' -> sess_wf s ->
    sess_wf s' /\ ss_adj s' = ss_adj s /\ ss_nets s' = ss_nets s /\ ss_fx s' = ss_fx s /\
    ss_radius s' = ss_radius s /\ List.length (ss_mods s') = List.length (ss_mods s) /\
    (forall j, nth_error (ss_fx s) j = Some true ->
       nth_error (ss_cx s') j = nth_error (ss_cx s) j /\ nth_error (ss_cy s') j = nth_error (ss_cy s) j).
  Proof.
    unfold sess_step. intros Hs Hwf.
    destruct (layout_core thr rnd produce niter W H nf (ss_mods s) (ss_adj s) (ss_fx s) (ss_radius s)
                          (fst (sess_centres nf s)) (snd (sess_centres nf s))) as [ms'| | |] eqn:Ec; try discriminate.
    inversion Hs; subst s'; clear Hs. cbn [ss_mods ss_adj ss_nets ss_fx ss_radius ss_cx ss_cy].
    destruct (core_frame _ _ _ _ _ _ _ _ _ _ Ec) as [L Fm].
    destruct (sess_centres_length nf s Hwf) as [Lx Ly].
    pose proof Hwf as (Efx & Lr & _ & _).
    splits; auto.
    - unfold sess_wf; cbn [ss_mods ss_adj ss_nets ss_fx ss_radius ss_cx ss_cy]. rewrite Fm, L. splits; auto.
      + rewrite <- Lx, Efx, map_length. reflexivity.
      + rewrite <- Ly, Efx, map_length. reflexivity.
    - intros j Hf. apply sess_centres_fixed. exact Hf.
  Qed.

  Lemma init_wf (nl : snet) (s : sess) : sess_init radius_of nl = Ok s ->
    sess_wf s /\ ss_mods s = s_mods nl /\ ss_adj s = s_adj nl /\ ss_nets s = s_nets nl /\
    ss_radius s = map radius_of (s_mods nl) /\ ss_cx s = map cx_of (s_mods nl) /\ ss_cy s = map cy_of (s_mods nl) /\
    (forall m, In m (s_mods nl) -> s_fixed m = true -> exists c, s_centre m = Some c).
  Proof.
    unfold sess_init. destruct (forallb (fun m => negb (s_fixed m) || has_centre m) (s_mods nl)) eqn:Ef; [|discriminate].
    cbn [negb]. intros Hs. inversion Hs; subst s; clear Hs. unfold sess_wf; cbn [ss_mods ss_adj ss_nets ss_fx ss_radius ss_cx ss_cy].
    rewrite !map_length. splits; auto.
    intros m Hin Hf. rewrite forallb_forall in Ef. specialize (Ef m Hin). rewrite Hf in Ef. cbn in Ef.
    unfold has_centre in Ef. destruct (s_centre m) as [c|]; [exists c; reflexivity|discriminate].
  Qed.

  (* ---------------- a single call on a fresh object: Spectral(...).spectral_layout(...) ---------------- *)
  Lemma layout_unfold W H nf (nl out : snet) :
    spectral_layout thr rnd produce niter radius_of W H nf nl = Ok out ->
    exists s s', sess_init radius_of nl = Ok s /\ sess_step thr rnd produce niter W H nf s = Ok s' /\
                 out = mkSnet (ss_mods s') (ss_adj s') (ss_nets s').
  Proof.
    unfold spectral_layout. intros Hs.
    destruct (sess_init radius_of nl) as [s| | |] eqn:Ei; try discriminate.
    destruct (sess_step thr rnd produce niter W H nf s) as [s'| | |] eqn:Es; try discriminate.
    inversion Hs. exists s, s'. auto.
  Qed.

  (* everything spectral_layout guarantees about one module, given the netlist it returned *)
  Theorem layout_module W H nf (nl out : snet) i m :
    spectral_layout thr rnd produce niter radius_of W H nf nl = Ok out ->
    nth_error (s_mods nl) i = Some m ->
    exists x y m', nth_error (s_mods out) i = Some m' /\ place W H m x y = Ok m' /\
      (s_fixed m = false -> radius_of m <= W * half -> Qcabs x + radius_of m <= W * half) /\
      (s_fixed m = false -> radius_of m <= H * half -> Qcabs y + radius_of m <= H * half) /\
      (s_fixed m = true -> exists c, s_centre m = Some c /\ x = fst c - W * half /\ y = snd c - H * half).
  Proof.
    intros Hs Hm. destruct (layout_unfold _ _ _ _ _ Hs) as (s & s' & Ei & Es & ->). cbn [s_mods].
    destruct (init_wf _ _ Ei) as (Hwf & Em & _ & _ & Er & Ex & Ey & Hfc).
    rewrite <- Em in Hm.
    destruct (step_module _ _ _ _ _ _ _ Es Hwf Hm) as (x & y & m' & Hm' & Hpl & Bx & By & Fx & Fy).
    exists x, y, m'. splits; auto.
    - intros Hf Hr. apply Bx; auto. rewrite Er, <- Em, nth_error_map, Hm. reflexivity.
    - intros Hf Hr. apply By; auto. rewrite Er, <- Em, nth_error_map, Hm. reflexivity.
    - intros Hf. rewrite Em in Hm. destruct (Hfc m (nth_error_In _ _ Hm) Hf) as [c Ec]. exists c. split; [exact Ec|].
      split.
      + apply Fx; auto. rewrite Ex, nth_error_map, Hm. cbn [option_map]. unfold cx_of. rewrite Ec. reflexivity.
      + apply Fy; auto. rewrite Ey, nth_error_map, Hm. cbn [option_map]. unfold cy_of. rewrite Ec. reflexivity.
  Qed.

  (* ---------------- what [place] does to a module ---------------- *)
  (* the disc of a module of radius r centred at c lies in the die [0,W] x [0,H] *)
  Definition disc_in_die (W H : Qc) (c : vec) (r : Qc) : Prop :=
    Qcabs (fst c - W * half) + r <= W * half /\ Qcabs (snd c - H * half) + r <= H * half.

  Lemma disc_in_die_geom W H c r : disc_in_die W H c r <->
    (0 <= fst c - r /\ fst c + r <= W /\ 0 <= snd c - r /\ snd c + r <= H).
  Proof.
    unfold disc_in_die. split.
    - intros [H1 H2]. splits; qmlra.
    - intros (H1 & H2 & H3 & H4). split; qmlra.
  Qed.

  Lemma disc_of_coord W H x y r : Qcabs x + r <= W * half -> Qcabs y + r <= H * half ->
    disc_in_die W H (x + W * half, y + H * half) r.
  Proof.
    intros Bx By. unfold disc_in_die; cbn [fst snd].
    replace (x + W * half - W * half) with x by ring. replace (y + H * half - H * half) with y by ring.
    split; assumption.
  Qed.

  (* position of a module in a netlist: its centre if it has one, else the
     area-weighted centre of its rectangles *)
  Definition position_is (m : smod) (c : vec) : Prop :=
    s_centre m = Some c \/ (s_centre m = None /\ centroid_is (s_rects m) c).

  Lemma place_position W H (m : smod) x y m' : place W H m x y = Ok m' -> s_fixed m = false ->
    position_is m' (x + W * half, y + H * half).
  Proof.
    unfold place. intros Hpl Hf. rewrite Hf in Hpl. cbn [negb] in Hpl. rewrite andb_true_r in Hpl.
    destruct (s_hard m) eqn:Eh; cbn [andb] in Hpl.
    - destruct (recenter (s_rects m) (x + W * half, y + H * half)) as [rs| | |] eqn:Er; try discriminate.
      inversion Hpl; subst m'; clear Hpl. unfold position_is; cbn [s_centre s_rects].
      destruct (s_terminal m); cbn [negb]; [left; reflexivity|right].
      split; [reflexivity|]. eapply recenter_centroid_is; eassumption.
    - inversion Hpl; subst m'. left. reflexivity.
  Qed.

  (* a movable hard module: every rectangle moved by (assigned centre - area-weighted centre of the
     rectangles it had), in both axes; afterwards the rectangles are centred on the assigned centre *)
  Lemma place_rigid_exact W H (m : smod) x y m' : place W H m x y = Ok m' ->
    s_fixed m = false -> s_hard m = true ->
    rects_area (s_rects m) <> 0 /\
    s_rects m' = map (shift (x + W * half - gx (s_rects m)) (y + H * half - gy (s_rects m))) (s_rects m) /\
    centroid_is (s_rects m') (x + W * half, y + H * half).
  Proof.
    unfold place. intros Hpl Hf Hh. rewrite Hf, Hh in Hpl. cbn [negb andb] in Hpl.
    destruct (recenter (s_rects m) (x + W * half, y + H * half)) as [rs| | |] eqn:Er; try discriminate.
    inversion Hpl; subst m'; clear Hpl. cbn [s_rects].
    destruct (recenter_exact _ _ _ Er) as [E Ers]. cbn [fst snd] in Ers. splits; auto.
    eapply recenter_centroid_is; eassumption.
  Qed.

  Lemma place_fixed_form W H (m : smod) x y m' : place W H m x y = Ok m' -> s_fixed m = true ->
    m' = mkSmod (if s_hard m && negb (s_terminal m) then None else Some (x + W * half, y + H * half))
                (s_fixed m) (s_hard m) (s_terminal m) (s_rects m) (s_other m).
  Proof.
    unfold place. intros Hpl Hf. rewrite Hf in Hpl. cbn [negb] in Hpl. rewrite andb_false_r in Hpl.
    inversion Hpl. rewrite Hf. reflexivity.
  Qed.

  Lemma place_same W H (m : smod) x y (m' : smod) : place W H m x y = Ok m' ->
    s_other m' = s_other m /\ s_fixed m' = s_fixed m /\ s_hard m' = s_hard m /\
    s_terminal m' = s_terminal m /\ map shape_of (s_rects m') = map shape_of (s_rects m) /\
    rects_area (s_rects m') = rects_area (s_rects m) /\
    (s_hard m && negb (s_fixed m) = false -> s_rects m' = s_rects m) /\
    (exists dx dy, s_rects m' = map (shift dx dy) (s_rects m)).
  Proof.
    unfold place. intros Hp. destruct (s_hard m && negb (s_fixed m)) eqn:E.
    - destruct (recenter (s_rects m) (x + W * half, y + H * half)) as [rs| | |] eqn:Er; try discriminate.
      inversion Hp; subst m'; cbn [s_other s_fixed s_hard s_terminal s_rects]. destruct (recenter_rigid _ _ _ Er) as (dx & dy & Ers). subst rs.
      rewrite shift_shape, shift_area. splits; auto; [discriminate|]. exists dx, dy. reflexivity.
    - inversion Hp; subst m'; cbn [s_other s_fixed s_hard s_terminal s_rects]. splits; auto.
      exists 0, 0. rewrite map_shift_zero. reflexivity.
  Qed.

  (* ---------------- a single call on a fresh object: the property ---------------- *)
  (* C14: every movable module whose disc fits in the die ends with its disc in the die *)
  Theorem layout_discs W H nf (nl out : snet) i m :
    spectral_layout thr rnd produce niter radius_of W H nf nl = Ok out ->
    nth_error (s_mods nl) i = Some m -> s_fixed m = false ->
    radius_of m <= W * half -> radius_of m <= H * half ->
    exists m' c, nth_error (s_mods out) i = Some m' /\ position_is m' c /\ disc_in_die W H c (radius_of m).
  Proof.
    intros Hs Hm Hf HrW HrH.
    destruct (layout_module W H nf nl out i m Hs Hm) as (x & y & m' & Hm' & Hpl & Bx & By & _).
    exists m', (x + W * half, y + H * half). split; [exact Hm'|]. split.
    - eapply place_position; eassumption.
    - apply disc_of_coord; auto.
  Qed.

  (* fixed modules: rectangles and flags as they were; the centre is the original one
     ((c - size/2) + size/2), dropped for hard non-terminal modules as for every hard module *)
  Theorem layout_fixed W H nf (nl out : snet) i m :
    spectral_layout thr rnd produce niter radius_of W H nf nl = Ok out ->
    nth_error (s_mods nl) i = Some m -> s_fixed m = true ->
    exists c, s_centre m = Some c /\
      nth_error (s_mods out) i =
      Some (mkSmod (if s_hard m && negb (s_terminal m) then None else Some c)
                   (s_fixed m) (s_hard m) (s_terminal m) (s_rects m) (s_other m)).
  Proof.
    intros Hs Hm Hf.
    destruct (layout_module W H nf nl out i m Hs Hm) as (x & y & m' & Hm' & Hpl & _ & _ & Hfix).
    destruct (Hfix Hf) as (c & Ec & Ex & Ey). exists c. split; [exact Ec|].
    rewrite Hm'. f_equal. rewrite (place_fixed_form _ _ _ _ _ _ Hpl Hf). subst x y.
    replace (fst c - W * half + W * half) with (fst c) by ring.
    replace (snd c - H * half + H * half) with (snd c) by ring.
    destruct c; reflexivity.
  Qed.

  (* movable hard modules are translated: every rectangle by the same vector *)
  Theorem layout_rigid W H nf (nl out : snet) i m :
    spectral_layout thr rnd produce niter radius_of W H nf nl = Ok out ->
    nth_error (s_mods nl) i = Some m -> s_fixed m = false -> s_hard m = true ->
    exists m' dx dy, nth_error (s_mods out) i = Some m' /\ s_rects m' = map (shift dx dy) (s_rects m).
  Proof.
    intros Hs Hm Hf Hh.
    destruct (layout_module W H nf nl out i m Hs Hm) as (x & y & m' & Hm' & Hpl & _).
    destruct (place_rigid_exact _ _ _ _ _ _ Hpl Hf Hh) as (_ & E & _).
    exists m'. eexists; eexists. split; [exact Hm'|exact E].
  Qed.

  (* ... and the vector is (computed position - area-weighted centre of the module's rectangles) in
     BOTH axes: the module ends centred on the computed position c, whose disc is in the die; an axis
     in which the module already was on c stands still, the other axis still moves *)
  Theorem layout_rigid_exact W H nf (nl out : snet) i m :
    spectral_layout thr rnd produce niter radius_of W H nf nl = Ok out ->
    nth_error (s_mods nl) i = Some m -> s_fixed m = false -> s_hard m = true ->
    exists m' c, nth_error (s_mods out) i = Some m' /\
      s_rects m' = map (shift (fst c - gx (s_rects m)) (snd c - gy (s_rects m))) (s_rects m) /\
      centroid_is (s_rects m') c /\
      (radius_of m <= W * half -> radius_of m <= H * half -> disc_in_die W H c (radius_of m)).
  Proof.
    intros Hs Hm Hf Hh.
    destruct (layout_module W H nf nl out i m Hs Hm) as (x & y & m' & Hm' & Hpl & Bx & By & _).
    destruct (place_rigid_exact _ _ _ _ _ _ Hpl Hf Hh) as (_ & E & Hc).
    exists m', (x + W * half, y + H * half). cbn [fst snd]. splits; auto.
    intros HrW HrH. apply disc_of_coord; auto.
  Qed.

  (* areas and nets: the same modules in the same order with the same payload (name,
     areas, aspect ratio ...), flags, rectangle shapes/regions/roles and total rectangle
     area; rectangles of soft and fixed modules untouched; the same nets and graph *)
  Theorem layout_same_nets_areas W H nf (nl out : snet) :
    spectral_layout thr rnd produce niter radius_of W H nf nl = Ok out ->
    s_nets out = s_nets nl /\ s_adj out = s_adj nl /\
    List.length (s_mods out) = List.length (s_mods nl) /\
    forall i m, nth_error (s_mods nl) i = Some m ->
      exists m', nth_error (s_mods out) i = Some m' /\
        s_other m' = s_other m /\ s_fixed m' = s_fixed m /\ s_hard m' = s_hard m /\
        s_terminal m' = s_terminal m /\ map shape_of (s_rects m') = map shape_of (s_rects m) /\
        rects_area (s_rects m') = rects_area (s_rects m) /\
        (s_hard m && negb (s_fixed m) = false -> s_rects m' = s_rects m).
  Proof.
    intros Hs. destruct (layout_unfold _ _ _ _ _ Hs) as (s & s' & Ei & Es & Eo).
    destruct (init_wf _ _ Ei) as (Hwf & Em & Ea & En & _).
    destruct (step_frame _ _ _ _ _ Es Hwf) as (_ & Ea' & En' & _ & _ & L & _).
    subst out. cbn [s_nets s_adj s_mods]. splits; try congruence.
    intros i m Hm.
    destruct (layout_module W H nf nl _ i m Hs Hm) as (x & y & m' & Hm' & Hpl & _).
    cbn [s_mods] in Hm'. exists m'. split; [exact Hm'|].
    destruct (place_same _ _ _ _ _ _ Hpl) as (H1 & H2 & H3 & H4 & H5 & H6 & H7 & _). splits; auto.
  Qed.

  (* ---------------- what relates a module to what it was when the object was built ---------------- *)
  Definition rel (m0 m : smod) : Prop :=
    s_other m = s_other m0 /\ s_fixed m = s_fixed m0 /\ s_hard m = s_hard m0 /\ s_terminal m = s_terminal m0 /\
    (exists dx dy, s_rects m = map (shift dx dy) (s_rects m0)) /\
    (s_hard m0 && negb (s_fixed m0) = false -> s_rects m = s_rects m0).

  Lemma rel_refl m : rel m m.
  Proof. unfold rel. splits; auto. exists 0, 0. rewrite map_shift_zero. reflexivity. Qed.

  Lemma rel_place W H (m0 m : smod) x y m' : rel m0 m -> place W H m x y = Ok m' -> rel m0 m'.
  Proof.
    intros (R1 & R2 & R3 & R4 & (dx & dy & R5) & R6) Hpl.
    destruct (place_same _ _ _ _ _ _ Hpl) as (H1 & H2 & H3 & H4 & _ & _ & H7 & (ex & ey & H8)).
    unfold rel. splits; try congruence.
    - exists (dx + ex), (dy + ey). rewrite H8, R5, map_shift_shift. reflexivity.
    - intros E. rewrite H7; [apply R6; exact E|]. rewrite R2, R3. exact E.
  Qed.

  Lemma rel_shapes (m0 m : smod) : rel m0 m ->
    map shape_of (s_rects m) = map shape_of (s_rects m0) /\ rects_area (s_rects m) = rects_area (s_rects m0).
  Proof.
    intros (_ & _ & _ & _ & (dx & dy & R5) & _). rewrite R5, shift_shape, shift_area. split; reflexivity.
  Qed.

  (* the state of the object in terms of the netlist it was built from *)
  Definition inv (nl : snet) (s : sess) : Prop :=
    sess_wf s /\ List.length (ss_mods s) = List.length (s_mods nl) /\
    ss_adj s = s_adj nl /\ ss_nets s = s_nets nl /\ ss_radius s = map radius_of (s_mods nl) /\
    (forall i m0, nth_error (s_mods nl) i = Some m0 -> exists m, nth_error (ss_mods s) i = Some m /\ rel m0 m) /\
    (forall i m0, nth_error (s_mods nl) i = Some m0 -> s_fixed m0 = true ->
       exists c, s_centre m0 = Some c /\ nth_error (ss_cx s) i = Some (fst c) /\ nth_error (ss_cy s) i = Some (snd c)).

  Lemma inv_init (nl : snet) (s : sess) : sess_init radius_of nl = Ok s -> inv nl s.
  Proof.
    intros Ei. destruct (init_wf _ _ Ei) as (Hwf & Em & Ea & En & Er & Ex & Ey & Hfc).
    unfold inv. rewrite Em. splits; auto.
    - intros i m0 Hm. exists m0. split; [exact Hm|apply rel_refl].
    - intros i m0 Hm Hf. destruct (Hfc m0 (nth_error_In _ _ Hm) Hf) as [c Ec]. exists c. split; [exact Ec|].
      rewrite Ex, Ey, !nth_error_map, Hm. cbn [option_map]. unfold cx_of, cy_of. rewrite Ec. auto.
  Qed.

  Lemma inv_step W H nf (nl : snet) (s s' : sess) : inv nl s ->
    sess_step thr rnd produce niter W H nf s = Ok s' -> inv nl s'.
  Proof.
    intros (Hwf & L & Ea & En & Er & Hrel & Hfix) Es.
    destruct (step_frame _ _ _ _ _ Es Hwf) as (Hwf' & Ea' & En' & Efx' & Er' & L' & Hc).
    unfold inv. splits; try congruence.
    - intros i m0 Hm0. destruct (Hrel i m0 Hm0) as (m & Hm & R).
      destruct (step_module _ _ _ _ _ _ _ Es Hwf Hm) as (x & y & m' & Hm' & Hpl & _).
      exists m'. split; [exact Hm'|]. eapply rel_place; eassumption.
    - intros i m0 Hm0 Hf. destruct (Hfix i m0 Hm0 Hf) as (c & Ec & Hx & Hy).
      exists c. split; [exact Ec|].
      destruct (Hrel i m0 Hm0) as (m & Hm & (_ & R2 & _)).
      assert (Hfx : nth_error (ss_fx s) i = Some true).
      { destruct Hwf as (-> & _). rewrite nth_error_map, Hm. cbn [option_map]. rewrite R2, Hf. reflexivity. }
      destruct (Hc i Hfx) as [-> ->]. auto.
  Qed.
End LayoutFacts.

(* ------------------------------------------------------------------ several calls on one object *)
Section SessionFacts.
  Variable thr : Qc.
  Context {A B : Type}.
  Notation smod := (smod A).
  Notation snet := (snet A B).
  Notation sess := (sess A B).
  Variable radius_of : smod -> Qc.

  Lemma sess_run_app calls1 : forall calls2 (s : sess),
    sess_run thr (calls1 ++ calls2) s =
    match sess_run thr calls1 s with Ok s1 => sess_run thr calls2 s1 | e => e end.
  Proof.
    induction calls1 as [|c calls1 IH]; intros calls2 s; cbn [app sess_run]; [reflexivity|].
    destruct (sess_step thr (c_rnd c) (c_produce c) (c_niter c) (c_W c) (c_H c) (c_nf c) s) as [s1| | |]; auto.
  Qed.

  Lemma inv_run (nl : snet) calls : forall (s s' : sess),
    inv radius_of nl s -> sess_run thr calls s = Ok s' -> inv radius_of nl s'.
  Proof.
    induction calls as [|c calls IH]; intros s s' Hi Hr; cbn [sess_run] in Hr.
    - inversion Hr; subst; exact Hi.
    - destruct (sess_step thr (c_rnd c) (c_produce c) (c_niter c) (c_W c) (c_H c) (c_nf c) s) as [s1| | |] eqn:Es;
        try discriminate.
      eapply IH; [|exact Hr]. eapply inv_step; eassumption.
  Qed.

  (* the LAST call of any sequence of calls on one object, in terms of the modules the object was
     built from (m0), the modules it holds just before the call (m1: the current values) and after (m2) *)
  Theorem session_last (nl : snet) calls c (s0 s2 : sess) i m0 :
    sess_init radius_of nl = Ok s0 -> sess_run thr (calls ++ [c]) s0 = Ok s2 ->
    nth_error (s_mods nl) i = Some m0 ->
    exists (s1 : sess) m1 m2 x y,
      sess_run thr calls s0 = Ok s1 /\ nth_error (ss_mods s1) i = Some m1 /\ rel m0 m1 /\
      nth_error (ss_mods s2) i = Some m2 /\ place (c_W c) (c_H c) m1 x y = Ok m2 /\
      (s_fixed m0 = false -> radius_of m0 <= c_W c * half -> Qcabs x + radius_of m0 <= c_W c * half) /\
      (s_fixed m0 = false -> radius_of m0 <= c_H c * half -> Qcabs y + radius_of m0 <= c_H c * half) /\
      (s_fixed m0 = true -> exists c0, s_centre m0 = Some c0 /\ x = fst c0 - c_W c * half /\ y = snd c0 - c_H c * half).
  Proof.
    intros Ei Hr Hm0. rewrite sess_run_app in Hr.
    destruct (sess_run thr calls s0) as [s1| | |] eqn:E1; try discriminate.
    cbn [sess_run] in Hr.
    destruct (sess_step thr (c_rnd c) (c_produce c) (c_niter c) (c_W c) (c_H c) (c_nf c) s1) as [s2'| | |] eqn:Es;
      try discriminate.
    inversion Hr; subst s2'; clear Hr.
    pose proof (inv_run nl calls s0 s1 (inv_init _ _ _ Ei) E1) as (Hwf & L & Ea & En & Er & Hrel & Hfix).
    destruct (Hrel i m0 Hm0) as (m1 & Hm1 & R).
    destruct (step_module _ _ _ _ _ _ _ _ _ _ _ Es Hwf Hm1) as (x & y & m2 & Hm2 & Hpl & Bx & By & Fx & Fy).
    pose proof R as (_ & R2 & _).
    assert (Hrad : nth_error (ss_radius s1) i = Some (radius_of m0)) by (rewrite Er, nth_error_map, Hm0; reflexivity).
    exists s1, m1, m2, x, y. splits; auto.
    - intros Hf Hle. apply Bx; auto. congruence.
    - intros Hf Hle. apply By; auto. congruence.
    - intros Hf. destruct (Hfix i m0 Hm0 Hf) as (c0 & Ec & Hx & Hy). exists c0. split; [exact Ec|].
      split; [apply Fx|apply Fy]; auto; congruence.
  Qed.

  (* C14 for the n-th call on one object: discs in the die OF THAT CALL *)
  Theorem session_discs (nl : snet) calls c (s0 s2 : sess) i m0 :
    sess_init radius_of nl = Ok s0 -> sess_run thr (calls ++ [c]) s0 = Ok s2 ->
    nth_error (s_mods nl) i = Some m0 -> s_fixed m0 = false ->
    radius_of m0 <= c_W c * half -> radius_of m0 <= c_H c * half ->
    exists m2 p, nth_error (ss_mods s2) i = Some m2 /\ position_is m2 p /\ disc_in_die (c_W c) (c_H c) p (radius_of m0).
  Proof.
    intros Ei Hr Hm0 Hf HW HH.
    destruct (session_last nl calls c s0 s2 i m0 Ei Hr Hm0) as (s1 & m1 & m2 & x & y & _ & _ & R & Hm2 & Hpl & Bx & By & _).
    exists m2, (x + c_W c * half, y + c_H c * half). split; [exact Hm2|]. split.
    - eapply place_position; [exact Hpl|]. destruct R as (_ & R2 & _). congruence.
    - apply disc_of_coord; auto.
  Qed.

  (* fixed modules after any non-empty sequence of calls: rectangles, flags and payload as built; the
     centre is the one the object was built with (dropped for hard non-terminal modules) *)
  Theorem session_fixed (nl : snet) calls c (s0 s2 : sess) i m0 :
    sess_init radius_of nl = Ok s0 -> sess_run thr (calls ++ [c]) s0 = Ok s2 ->
    nth_error (s_mods nl) i = Some m0 -> s_fixed m0 = true ->
    exists c0, s_centre m0 = Some c0 /\
      nth_error (ss_mods s2) i =
      Some (mkSmod (if s_hard m0 && negb (s_terminal m0) then None else Some c0)
                   (s_fixed m0) (s_hard m0) (s_terminal m0) (s_rects m0) (s_other m0)).
  Proof.
    intros Ei Hr Hm0 Hf.
    destruct (session_last nl calls c s0 s2 i m0 Ei Hr Hm0) as (s1 & m1 & m2 & x & y & _ & _ & R & Hm2 & Hpl & _ & _ & Hfix).
    destruct (Hfix Hf) as (c0 & Ec & Ex & Ey). exists c0. split; [exact Ec|].
    destruct R as (R1 & R2 & R3 & R4 & _ & R6).
    rewrite Hm2. f_equal. rewrite (place_fixed_form _ _ _ _ _ _ Hpl) by congruence.
    rewrite R1, R2, R3, R4, R6 by (rewrite Hf; apply andb_false_r). subst x y.
    replace (fst c0 - c_W c * half + c_W c * half) with (fst c0) by ring.
    replace (snd c0 - c_H c * half + c_H c * half) with (snd c0) by ring.
    destruct c0; reflexivity.
  Qed.

  (* movable hard modules: the n-th call moves the rectangles the module has NOW (m1) by
     (computed position - their area-weighted centre) in both axes - zero exactly in the axes in which the
     module already is on the computed position, e.g. in both when a placement is repeated -;
     relative to the netlist the object was built from the module is still a translate *)
  Theorem session_rigid (nl : snet) calls c (s0 s2 : sess) i m0 :
    sess_init radius_of nl = Ok s0 -> sess_run thr (calls ++ [c]) s0 = Ok s2 ->
    nth_error (s_mods nl) i = Some m0 -> s_fixed m0 = false -> s_hard m0 = true ->
    exists (s1 : sess) m1 m2 p,
      sess_run thr calls s0 = Ok s1 /\ nth_error (ss_mods s1) i = Some m1 /\ nth_error (ss_mods s2) i = Some m2 /\
      s_rects m2 = map (shift (fst p - gx (s_rects m1)) (snd p - gy (s_rects m1))) (s_rects m1) /\
      centroid_is (s_rects m2) p /\
      (radius_of m0 <= c_W c * half -> radius_of m0 <= c_H c * half -> disc_in_die (c_W c) (c_H c) p (radius_of m0)) /\
      (exists dx dy, s_rects m1 = map (shift dx dy) (s_rects m0)) /\
      (exists dx dy, s_rects m2 = map (shift dx dy) (s_rects m0)).
  Proof.
    intros Ei Hr Hm0 Hf Hh.
    destruct (session_last nl calls c s0 s2 i m0 Ei Hr Hm0) as (s1 & m1 & m2 & x & y & E1 & Hm1 & R & Hm2 & Hpl & Bx & By & _).
    pose proof (rel_place _ _ _ _ _ _ _ R Hpl) as (_ & _ & _ & _ & R5' & _).
    pose proof R as (_ & R2 & R3 & _ & R5 & _).
    destruct (place_rigid_exact _ _ _ _ _ _ Hpl) as (_ & E & Hc); try congruence.
    exists s1, m1, m2, (x + c_W c * half, y + c_H c * half). cbn [fst snd]. splits; auto.
    intros HW HH. apply disc_of_coord; auto.
  Qed.

  (* areas and nets after any sequence of calls *)
  Theorem session_same (nl : snet) calls (s0 s : sess) :
    sess_init radius_of nl = Ok s0 -> sess_run thr calls s0 = Ok s ->
    ss_nets s = s_nets nl /\ ss_adj s = s_adj nl /\ List.length (ss_mods s) = List.length (s_mods nl) /\
    forall i m0, nth_error (s_mods nl) i = Some m0 ->
      exists m, nth_error (ss_mods s) i = Some m /\
        s_other m = s_other m0 /\ s_fixed m = s_fixed m0 /\ s_hard m = s_hard m0 /\ s_terminal m = s_terminal m0 /\
        map shape_of (s_rects m) = map shape_of (s_rects m0) /\ rects_area (s_rects m) = rects_area (s_rects m0) /\
        (s_hard m0 && negb (s_fixed m0) = false -> s_rects m = s_rects m0) /\
        (exists dx dy, s_rects m = map (shift dx dy) (s_rects m0)).
  Proof.
    intros Ei Hr. pose proof (inv_run nl calls s0 s (inv_init _ _ _ Ei) Hr) as (_ & L & Ea & En & _ & Hrel & _).
    splits; auto. intros i m0 Hm0. destruct (Hrel i m0 Hm0) as (m & Hm & R). exists m. split; [exact Hm|].
    destruct (rel_shapes _ _ R) as [S1 S2]. destruct R as (R1 & R2 & R3 & R4 & R5 & R6). splits; auto.
  Qed.

  (* one call on a fresh object is the one-call session *)
  Lemma layout_is_session rnd produce niter W H nf (nl : snet) :
    spectral_layout thr rnd produce niter radius_of W H nf nl =
    match sess_init radius_of nl with
    | Ok s0 => match sess_run thr [mkCall W H nf rnd produce niter] s0 with
               | Ok s => Ok (mkSnet (ss_mods s) (ss_adj s) (ss_nets s))
               | EmptyMin => EmptyMin | ZeroDiv => ZeroDiv | AssertFail => AssertFail
               end
    | EmptyMin => EmptyMin | ZeroDiv => ZeroDiv | AssertFail => AssertFail
    end.
  Proof.
    unfold spectral_layout. destruct (sess_init radius_of nl) as [s0| | |]; auto.
    cbn [sess_run c_rnd c_produce c_niter c_W c_H c_nf].
    destruct (sess_step thr rnd produce niter W H nf s0) as [s| | |]; reflexivity.
  Qed.
End SessionFacts.
