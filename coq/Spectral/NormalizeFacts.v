(* Facts about the kernels of the spectral placement (Spectral/Normalize.v). *)
From FrameModel Require Import Num.QcTac Geometry.Rect Spectral.Normalize.
Open Scope Qc_scope.

Lemma nth_error_ext' {X} : forall (l1 l2 : list X), (forall i, nth_error l1 i = nth_error l2 i) -> l1 = l2.
Proof.
  induction l1 as [|a l1 IH]; intros [|b l2] Hn; auto.
  - specialize (Hn 0%nat); discriminate.
  - specialize (Hn 0%nat); discriminate.
  - f_equal.
    + specialize (Hn 0%nat). cbn in Hn. congruence.
    + apply IH. intros i. exact (Hn (S i)).
Qed.

Lemma Qcabs_nonneg a : 0 <= Qcabs a.
Proof. qmlra. Qed.
Lemma Qcabs_mult_nonneg x c : 0 <= c -> Qcabs (x * c) = Qcabs x * c.
Proof.
  intros Hc. destruct (Qcabs_spec x) as [[H1 E1]|[H1 E1]]; rewrite E1;
  destruct (Qcabs_spec (x * c)) as [[H2 E2]|[H2 E2]]; rewrite E2; try ring.
  - assert (x * c = 0) by qnra. qnra.
  - assert (x * c = 0) by qnra. qnra.
Qed.

Section KernelFacts.
  Variable thr : Qc.
  Hypothesis thr_nonneg : 0 <= thr.

  (* ---------------- the minimum ---------------- *)
  Lemma list_min_le l m : list_min l = Some m -> forall x, In x l -> m <= x.
  Proof.
    revert m. induction l as [|a l IH]; intros m Hm x Hx; [destruct Hx|].
    cbn [list_min] in Hm. destruct (list_min l) as [m'|] eqn:E.
    - inversion Hm; subst m. destruct Hx as [->|Hx].
      + qmlra.
      + specialize (IH m' eq_refl x Hx). qmlra.
    - inversion Hm; subst m. destruct Hx as [->|Hx]; [apply Qcle_refl|].
      destruct l; [destruct Hx|]. cbn [list_min] in E. destruct (list_min l); discriminate.
  Qed.

  Lemma list_min_In l m : list_min l = Some m -> In m l.
  Proof.
    revert m. induction l as [|a l IH]; intros m Hm; [discriminate|].
    cbn [list_min] in Hm. destruct (list_min l) as [m'|] eqn:E.
    - inversion Hm; subst m. destruct (Qcmin_spec a m') as [[_ Em]|[_ Em]]; rewrite Em.
      + left; reflexivity.
      + right; apply IH; reflexivity.
    - inversion Hm; left; reflexivity.
  Qed.

  Lemma cands_In : forall xs spans fx i x s,
    nth_error xs i = Some x -> nth_error spans i = Some s -> nth_error fx i = Some false ->
    thr < Qcabs x -> In (s / Qcabs x) (cands thr xs spans fx).
  Proof.
    induction xs as [|x0 xs IH]; intros [|s0 sp] [|f0 fx] [|i] x s Hx Hs Hf Ht; cbn in Hx, Hs, Hf; try discriminate.
    - inversion Hx; inversion Hs; inversion Hf; subst. cbn [cands negb andb].
      apply Qcltb_true in Ht. rewrite Ht. left; reflexivity.
    - cbn [cands]. specialize (IH sp fx i x s Hx Hs Hf Ht).
      destruct (negb f0 && Qcltb thr (Qcabs x0)); [right|]; exact IH.
  Qed.

  Lemma div_nonneg s a : 0 <= s -> 0 < a -> 0 <= s / a.
  Proof.
    intros Hs Ha. assert (E : s / a * a = s) by (field; intro E0; rewrite E0 in Ha; qlra).
    revert E. generalize (s / a). intros u E. subst s. qnra.
  Qed.

  Lemma cands_nonneg : forall xs spans fx, (forall s, In s spans -> 0 <= s) ->
    forall c, In c (cands thr xs spans fx) -> 0 <= c.
  Proof.
    induction xs as [|x0 xs IH]; intros [|s0 sp] [|f0 fx] Hsp c Hc; cbn [cands] in Hc; try (destruct Hc; fail).
    destruct (negb f0 && Qcltb thr (Qcabs x0)) eqn:E.
    - destruct Hc as [<-|Hc].
      + apply andb_true_iff in E. destruct E as [_ E]. apply Qcltb_true in E.
        apply div_nonneg; [apply Hsp; left; reflexivity|]. eapply Qcle_lt_trans; eassumption.
      + eapply IH; [|exact Hc]. intros s Hs; apply Hsp; right; exact Hs.
    - eapply IH; [|exact Hc]. intros s Hs; apply Hsp; right; exact Hs.
  Qed.

  (* ---------------- entries of the results ---------------- *)
  Lemma scale_all_nth sc : forall xs fx i,
    nth_error (scale_all sc xs fx) i =
    match nth_error xs i with
    | None => None
    | Some x => match nth_error fx i with Some false => Some (x * sc) | _ => Some x end
    end.
  Proof.
    induction xs as [|x xs IH]; intros fx i; cbn [scale_all].
    - destruct i; reflexivity.
    - destruct fx as [|f fx].
      + destruct (nth_error (x :: xs) i); destruct i; reflexivity.
      + destruct i as [|i]; cbn [nth_error]; [destruct f; reflexivity|apply IH].
  Qed.

  Lemma scale_clip_nth sc : forall xs spans fx i,
    nth_error (scale_clip sc xs spans fx) i =
    match nth_error xs i with
    | None => None
    | Some x => match nth_error spans i, nth_error fx i with
                | Some s, Some false => Some (clip s (x * sc))
                | _, _ => Some x
                end
    end.
  Proof.
    induction xs as [|x xs IH]; intros spans fx i; cbn [scale_clip].
    - destruct i; reflexivity.
    - destruct spans as [|s sp]; [|destruct fx as [|f fx]].
      + destruct (nth_error (x :: xs) i); destruct i; reflexivity.
      + destruct (nth_error (x :: xs) i); [|reflexivity]. destruct (nth_error (s :: sp) i); destruct i; reflexivity.
      + destruct i as [|i]; cbn [nth_error]; [destruct f; reflexivity|apply IH].
  Qed.

  Lemma scale_clip_length sc : forall xs spans fx, List.length (scale_clip sc xs spans fx) = List.length xs.
  Proof.
    induction xs as [|x xs IH]; intros [|s sp] [|f fx]; cbn [scale_clip List.length]; auto.
  Qed.

  Lemma clip_bound s y : 0 <= s -> Qcabs (clip s y) <= s.
  Proof. intros Hs. unfold clip. qmlra. Qed.
  Lemma clip_id s y : Qcabs y <= s -> clip s y = y.
  Proof. intros Hy. unfold clip. qmlra. Qed.

  (* the scale is non-negative and below span_j / |x_j| for every movable j above the threshold *)
  Lemma scale_props xs spans fx sc :
    list_min (cands thr xs spans fx) = Some sc -> (forall s, In s spans -> 0 <= s) ->
    0 <= sc /\
    forall j x s, nth_error xs j = Some x -> nth_error spans j = Some s -> nth_error fx j = Some false ->
                  thr < Qcabs x -> sc <= s / Qcabs x.
  Proof.
    intros Hm Hsp. split.
    - eapply cands_nonneg; [exact Hsp|]. apply list_min_In; exact Hm.
    - intros j x s Hx Hs Hf Ht. eapply list_min_le; [exact Hm|]. eapply cands_In; eassumption.
  Qed.

  Lemma scaled_large_bound x s sc : 0 <= sc -> 0 <= thr -> thr < Qcabs x -> sc <= s / Qcabs x ->
    Qcabs (x * sc) <= s.
  Proof.
    intros Hsc _ Ht Hle. rewrite Qcabs_mult_nonneg by exact Hsc.
    assert (Ha : 0 < Qcabs x) by (apply (Qcle_lt_trans _ thr); [exact thr_nonneg|exact Ht]).
    assert (E : s / Qcabs x * Qcabs x = s) by (field; intro E0; rewrite E0 in Ha; qlra).
    revert E Hle. generalize (s / Qcabs x). generalize (Qcabs x) Ha. intros a Ha' u E Hle. subst s. qnra.
  Qed.

  (* ---------------- normalize as it stood ---------------- *)
  (* entries above the threshold end within their span *)
  Theorem normalize_orig_bound xs spans fx ys i x s :
    normalize_orig thr xs spans fx = Ok ys -> (forall s, In s spans -> 0 <= s) ->
    nth_error xs i = Some x -> nth_error spans i = Some s -> nth_error fx i = Some false ->
    thr < Qcabs x ->
    exists y, nth_error ys i = Some y /\ Qcabs y <= s.
  Proof.
    unfold normalize_orig. intros Hn Hsp Hx Hs Hf Ht.
    destruct (list_min (cands thr xs spans fx)) as [sc|] eqn:Em; [|discriminate].
    inversion Hn; subst ys; clear Hn.
    destruct (scale_props _ _ _ _ Em Hsp) as [Hsc Hle].
    exists (x * sc). split.
    - rewrite scale_all_nth, Hx, Hf. reflexivity.
    - apply scaled_large_bound; auto. eapply Hle; eassumption.
  Qed.

  Theorem normalize_orig_fixed xs spans fx ys i :
    normalize_orig thr xs spans fx = Ok ys -> nth_error fx i = Some true ->
    nth_error ys i = nth_error xs i.
  Proof.
    unfold normalize_orig. intros Hn Hf.
    destruct (list_min (cands thr xs spans fx)) as [sc|]; [|discriminate].
    inversion Hn; subst ys. rewrite scale_all_nth, Hf. destruct (nth_error xs i); reflexivity.
  Qed.

  (* entries at or below the threshold are multiplied by the same scale, which they
     had no part in choosing: all that can be said is |y_i| <= thr * scale *)
  Theorem normalize_orig_small xs spans fx ys i x :
    normalize_orig thr xs spans fx = Ok ys -> (forall s, In s spans -> 0 <= s) ->
    nth_error xs i = Some x -> nth_error fx i = Some false -> Qcabs x <= thr ->
    exists sc, list_min (cands thr xs spans fx) = Some sc /\ 0 <= sc /\
               nth_error ys i = Some (x * sc) /\ Qcabs (x * sc) <= thr * sc.
  Proof.
    unfold normalize_orig. intros Hn Hsp Hx Hf Ht.
    destruct (list_min (cands thr xs spans fx)) as [sc|] eqn:Em; [|discriminate].
    inversion Hn; subst ys; clear Hn.
    destruct (scale_props _ _ _ _ Em Hsp) as [Hsc _].
    exists sc. splits; auto.
    - rewrite scale_all_nth, Hx, Hf. reflexivity.
    - rewrite Qcabs_mult_nonneg by exact Hsc. qnra.
  Qed.

  (* ---------------- normalize as repaired ---------------- *)
  (* every movable entry with a non-negative span ends within its span *)
  Theorem normalize_bound xs spans fx ys i y s :
    normalize thr xs spans fx = Ok ys ->
    nth_error ys i = Some y -> nth_error spans i = Some s -> nth_error fx i = Some false -> 0 <= s ->
    Qcabs y <= s.
  Proof.
    unfold normalize. intros Hn Hy Hs Hf H0.
    destruct (list_min (cands thr xs spans fx)) as [sc|]; [|discriminate].
    inversion Hn; subst ys; clear Hn.
    rewrite scale_clip_nth, Hs, Hf in Hy. destruct (nth_error xs i) as [x|]; [|discriminate].
    inversion Hy; subst y. apply clip_bound; exact H0.
  Qed.

  Theorem normalize_fixed xs spans fx ys i :
    normalize thr xs spans fx = Ok ys -> nth_error fx i = Some true ->
    nth_error ys i = nth_error xs i.
  Proof.
    unfold normalize. intros Hn Hf.
    destruct (list_min (cands thr xs spans fx)) as [sc|]; [|discriminate].
    inversion Hn; subst ys. rewrite scale_clip_nth, Hf.
    destruct (nth_error xs i); [|reflexivity]. destruct (nth_error spans i); reflexivity.
  Qed.

  Theorem normalize_length xs spans fx ys :
    normalize thr xs spans fx = Ok ys -> List.length ys = List.length xs.
  Proof.
    unfold normalize. intros Hn.
    destruct (list_min (cands thr xs spans fx)) as [sc|]; [|discriminate].
    inversion Hn; subst ys. apply scale_clip_length.
  Qed.

  (* the repair acts only where the original broke its post-condition: entries above
     the threshold are still exactly x_i * scale ... *)
  Theorem normalize_large_exact xs spans fx ys i x s :
    normalize thr xs spans fx = Ok ys -> (forall s, In s spans -> 0 <= s) ->
    nth_error xs i = Some x -> nth_error spans i = Some s -> nth_error fx i = Some false ->
    thr < Qcabs x ->
    exists sc, list_min (cands thr xs spans fx) = Some sc /\ nth_error ys i = Some (x * sc).
  Proof.
    unfold normalize. intros Hn Hsp Hx Hs Hf Ht.
    destruct (list_min (cands thr xs spans fx)) as [sc|] eqn:Em; [|discriminate].
    inversion Hn; subst ys; clear Hn.
    destruct (scale_props _ _ _ _ Em Hsp) as [Hsc Hle].
    exists sc. split; [reflexivity|].
    rewrite scale_clip_nth, Hx, Hs, Hf. f_equal. apply clip_id.
    apply scaled_large_bound; auto. eapply Hle; eassumption.
  Qed.

  (* ... and whenever the original result kept every movable entry within its span, the
     repaired function returns the very same vector *)
  Theorem normalize_conservative xs spans fx ys :
    normalize_orig thr xs spans fx = Ok ys -> List.length spans = List.length xs ->
    (forall i y s, nth_error ys i = Some y -> nth_error spans i = Some s -> nth_error fx i = Some false ->
                   Qcabs y <= s) ->
    normalize thr xs spans fx = Ok ys.
  Proof.
    unfold normalize_orig, normalize. intros Hn Hl Hb.
    destruct (list_min (cands thr xs spans fx)) as [sc|]; [|discriminate].
    inversion Hn; subst ys; clear Hn. f_equal.
    apply nth_error_ext'. intros i. rewrite scale_clip_nth, scale_all_nth.
    destruct (nth_error xs i) as [x|] eqn:Ex; [|reflexivity].
    destruct (nth_error spans i) as [s|] eqn:Es.
    - destruct (nth_error fx i) as [[|]|] eqn:Ef; try reflexivity.
      f_equal. apply clip_id. apply (Hb i); auto. rewrite scale_all_nth, Ex, Ef. reflexivity.
    - exfalso. apply nth_error_None in Es. assert (nth_error xs i <> None) by congruence.
      apply nth_error_Some in H. lia.
  Qed.
End KernelFacts.

(* F16 at unit level: the function as it stood, on four movable entries with
   non-negative spans, returns an entry that exceeds its span (5 > 1/10) *)
Definition f16_thr : Qc := qc 1 1000000000.
Definition f16_x : list Qc := [qc 1 1000000000; qc 2 1000000000; 0; 0].
Definition f16_spans : list Qc := [qc 1 10; qc 10 1; qc 5 1; qc 5 1].
Theorem normalize_orig_refuted :
  exists thr xs spans fx ys i y s,
    0 <= thr /\ (forall s, In s spans -> 0 <= s) /\ List.length spans = List.length xs /\ List.length fx = List.length xs /\
    normalize_orig thr xs spans fx = Ok ys /\
    nth_error ys i = Some y /\ nth_error spans i = Some s /\ nth_error fx i = Some false /\ s < Qcabs y.
Proof.
  assert (Hc : exists ys, normalize_orig f16_thr f16_x f16_spans [false; false; false; false] = Ok ys /\
                 exists y, nth_error ys 0 = Some y /\ Qcltb (qc 1 10) (Qcabs y) = true).
  { vm_compute. eexists; split; [reflexivity|]. eexists; split; [reflexivity|]. vm_compute. reflexivity. }
  destruct Hc as (ys & Hn & y & Hy & Hlt). apply Qcltb_true in Hlt.
  exists f16_thr, f16_x, f16_spans, [false; false; false; false], ys, 0%nat, y, (qc 1 10).
  splits; try reflexivity; auto.
  - discriminate.
  - intros s [<-|[<-|[<-|[<-|[]]]]]; discriminate.
Qed.
