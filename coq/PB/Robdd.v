(* C07 model, part 3: Ineq.isclause, Ineq.getrobdd (both constructions),
   constructrobdd and the process-wide diagram store memory/mmap
   (tools/rect/pseudobool.py:274-300, 317-433).

   memory = [0, 1] ++ nodes; the model keeps only the node part, the node at
   position j has id j + 2.  mmap (node -> id) always agrees with memory in the
   implementation (both are written only by constructrobdd, together), so the
   model looks a node up in the list.  The per-call memo is an association
   list keyed by the data (the implementation keys it by the serialised data). *)
From Coq Require Import ZArith List Bool String Lia.
From FrameModel Require Import PB.Expr PB.Cnf.
Import ListNotations.
Open Scope Z_scope.

Definition node := (string * nat * nat)%type.          (* (decision variable, if-child, else-child) *)
Definition memory := list node.
Definition node_eqb (x y : node) : bool :=
  match x, y with (v, i, e), (v', i', e') => String.eqb v v' && Nat.eqb i i' && Nat.eqb e e' end.

(* denotation: values of all ids, computed front to back *)
Fixpoint vals (a : asg) (m : memory) (acc : list bool) : list bool :=
  match m with
  | [] => acc
  | (v, hi, lo) :: r => vals a r (acc ++ [if a v then nth hi acc false else nth lo acc false])
  end.
Definition den (m : memory) (a : asg) (id : nat) : bool := nth id (vals a m [false; true]) false.

(* well-formed store: children precede their parent *)
Definition mem_wf (m : memory) : Prop :=
  forall j v hi lo, nth_error m j = Some (v, hi, lo) -> (hi < j + 2)%nat /\ (lo < j + 2)%nat.
Definition valid (m : memory) (id : nat) : Prop := (id < 2 + List.length m)%nat.

Fixpoint find_node (x : node) (m : memory) (j : nat) : option nat :=
  match m with
  | [] => None
  | y :: r => if node_eqb x y then Some j else find_node x r (S j)
  end.
(* if obj not in mmap: memory.append(obj); mmap[obj] = len(memory) - 1 *)
Definition intern (x : node) (m : memory) : nat * memory :=
  match find_node x m 2%nat with
  | Some id => (id, m)
  | None => ((2 + List.length m)%nat, m ++ [x])
  end.

(* ---- list preparation ---- *)
(* lst.sort(key=lambda x: -x.c): stable, descending coefficient *)
Fixpoint ins_desc (t : term) (l : list term) : list term :=
  match l with
  | [] => [t]
  | x :: r => if tc x >? tc t then x :: ins_desc t r else t :: x :: r
  end.
Fixpoint sort_desc (l : list term) : list term :=
  match l with [] => [] | t :: r => ins_desc t (sort_desc r) end.

Fixpoint maxsum (l : list term) : Z := match l with [] => 0 | t :: r => tc t + maxsum r end.
Definition tlit (t : term) : literal := (User (tv t), ts t).

(* ---- isclause (repaired: a bound of 0 is a tautology only for ">=") ---- *)
Definition is_ge (o : cmp) : bool := match o with GE => true | _ => false end.
Definition is_gt (o : cmp) : bool := match o with GT => true | _ => false end.
Definition strong (o : cmp) (rhs : Z) (t : term) : bool :=
  (tc t >? rhs) || ((tc t >=? rhs) && is_ge o).
Fixpoint take_strong (o : cmp) (rhs : Z) (l : list term) : list term * list term :=
  match l with
  | [] => ([], [])
  | t :: r => if strong o rhs t then let (b, w) := take_strong o rhs r in (t :: b, w) else ([], l)
  end.
(* while i < len(lst) and s <= rhs: s += lst[i].c *)
Fixpoint acc_while (rhs s : Z) (l : list term) : Z :=
  match l with
  | [] => s
  | t :: r => if s <=? rhs then acc_while rhs (s + tc t) r else s
  end.

Inductive clause_res := NotClause | Tautology | IsClause (c : clause).

Definition isclause_gen (taut : cmp -> Z -> bool) (i : ineq) : clause_res :=
  if negb (is_ge (iop i) || is_gt (iop i)) then NotClause
  else if taut (iop i) (ir i) then Tautology
  else
    let lst := sort_desc (il i) in
    let (big, weak) := take_strong (iop i) (ir i) lst in
    let s := acc_while (ir i) 0 weak in
    if (s >? ir i) || ((s >=? ir i) && is_ge (iop i)) then NotClause
    else IsClause (rev (map tlit big)).      (* clause.sort() on Literals reverses the list *)

Definition taut_fixed (o : cmp) (rhs : Z) : bool := (rhs <? 0) || ((rhs =? 0) && is_ge o).
Definition taut_orig (o : cmp) (rhs : Z) : bool := rhs <=? 0.      (* the unrepaired test *)
Definition isclause := isclause_gen taut_fixed.
Definition isclause_orig := isclause_gen taut_orig.

(* ---- constructrobdd ---- *)
Definition data := (list term * Z)%type.
Definition data_eqb (x y : data) : bool := terms_eqb (fst x) (fst y) && Z.eqb (snd x) (snd y).
Definition memo_t := list (data * nat).
Fixpoint memo_find (d : data) (mo : memo_t) : option nat :=
  match mo with
  | [] => None
  | (d', id) :: r => if data_eqb d d' then Some id else memo_find d r
  end.

Definition bccond (d : data) : bool := (maxsum (fst d) <? snd d) || (snd d <=? 0).
Definition bcconstr (d : data) : nat := if snd d <=? 0 then 1%nat else 0%nat.
Definition dvar (d : data) : option string := match fst d with t :: _ => Some (tv t) | [] => None end.

(* [None]: out of fuel, or x[0][0] on an empty list (IndexError) *)
Fixpoint construct (ifp elp : data -> data) (fuel : nat) (d : data) (m : memory) (mo : memo_t)
  : option (nat * memory * memo_t) :=
  match fuel with
  | O => None
  | S f =>
      match memo_find d mo with
      | Some id => Some (id, m, mo)
      | None =>
          if bccond d then Some (bcconstr d, m, mo)
          else
            match construct ifp elp f (ifp d) m mo with
            | None => None
            | Some (i, m1, mo1) =>
                match construct ifp elp f (elp d) m1 mo1 with
                | None => None
                | Some (e, m2, mo2) =>
                    if Nat.eqb i e then Some (i, m2, mo2)
                    else match dvar d with
                         | None => None
                         | Some v =>
                             let (id, m3) := intern (v, i, e) m2 in
                             Some (id, m3, (d, id) :: mo2)
                         end
                end
            end
      end
  end.

(* standard construction *)
Definition ifp_std (d : data) : data :=
  match fst d with
  | [] => d
  | t :: r => (r, if ts t then snd d - tc t else snd d)
  end.
Definition elp_std (d : data) : data :=
  match fst d with
  | [] => d
  | t :: r => (r, if ts t then snd d else snd d - tc t)
  end.
Definition mu_std (d : data) : nat := List.length (fst d).

(* coefficient decomposition *)
Definition largebit (n : Z) : Z := if n <? 1 then 1 else 2 ^ Z.log2 n.
(* insert(): append, then swap towards the front while strictly larger than the predecessor;
   [bubble] works on the reversed list *)
Fixpoint bubble (rl : list term) (t : term) : list term :=
  match rl with
  | [] => [t]
  | x :: r => if tc t >? tc x then x :: bubble r t else t :: x :: r
  end.
Definition insert (l : list term) (t : term) : list term :=
  if tc t =? 0 then l else rev (bubble (rev l) t).
Definition ifp_dec (d : data) : data :=
  match fst d with
  | [] => d
  | t :: r => let lb := largebit (tc t) in
              (insert r (mkT (tv t) (ts t) (tc t - lb)), if ts t then snd d - lb else snd d)
  end.
Definition elp_dec (d : data) : data :=
  match fst d with
  | [] => d
  | t :: r => let lb := largebit (tc t) in
              (insert r (mkT (tv t) (ts t) (tc t - lb)), if ts t then snd d else snd d - lb)
  end.
Definition bitsize (c : Z) : nat := S (Z.to_nat (Z.log2 c)).
Fixpoint mu_terms (l : list term) : nat :=
  match l with [] => O | t :: r => (bitsize (tc t) + mu_terms r)%nat end.
Definition mu_dec (d : data) : nat := mu_terms (fst d).

(* Ineq.getrobdd: [None] when the operator is not ">=" ("Not implemented yet")
   is decided by the caller; here [None] means the construction got stuck *)
Definition getrobdd (decomp : bool) (i : ineq) (m : memory) : option (nat * memory) :=
  let lst := sort_desc (il i) in
  let r := if decomp
           then construct ifp_dec elp_dec (S (mu_dec (lst, ir i))) (lst, ir i) m []
           else construct ifp_std elp_std (S (mu_std (lst, ir i))) (lst, ir i) m [] in
  match r with
  | Some (id, m', _) => Some (id, m')
  | None => None
  end.

(* the meaning of a datum: sum of the true terms reaches the bound *)
Definition semb (d : data) (a : asg) : bool := tsum a (fst d) >=? snd d.
