(* Model of tools/rect/pseudobool.py: Literal, Term, Expr (normal form with
   positive coefficients, insertion-ordered terms) and Ineq normalisation. *)
From Coq Require Import ZArith List Bool String Lia.
Import ListNotations.
Open Scope Z_scope.

Record term := mkT { tv : string; ts : bool; tc : Z }.
Record expr := mkE { ec : Z; et : list term }.

Definition term_eqb (a b : term) : bool :=
  String.eqb (tv a) (tv b) && Bool.eqb (ts a) (ts b) && Z.eqb (tc a) (tc b).
Fixpoint terms_eqb (a b : list term) : bool :=
  match a, b with
  | [], [] => true
  | x :: a', y :: b' => term_eqb x y && terms_eqb a' b'
  | _, _ => false
  end.
Definition expr_eqb (a b : expr) : bool := Z.eqb (ec a) (ec b) && terms_eqb (et a) (et b).

(* Expr.__add__(Term): update in place / delete / append, then re-normalise sign *)
Fixpoint upd (l : list term) (v : string) (s : bool) (k : Z) : list term * Z :=
  match l with
  | [] => if k <? 0 then ([mkT v (negb s) (- k)], k) else ([mkT v s k], 0)
  | t :: r =>
      if String.eqb (tv t) v then
        let c' := if Bool.eqb (ts t) s then tc t + k else tc t - k in
        let dc := if Bool.eqb (ts t) s then 0 else k in
        if c' =? 0 then (r, dc)
        else if c' <? 0 then (mkT v (negb (ts t)) (- c') :: r, dc + c')
        else (mkT v (ts t) c' :: r, dc)
      else let (r', d) := upd r v s k in (t :: r', d)
  end.

Definition add_term (e : expr) (v : string) (s : bool) (k : Z) : expr :=
  if k =? 0 then e else let (l, d) := upd (et e) v s k in mkE (ec e + d) l.
Definition add_int (e : expr) (k : Z) : expr := mkE (ec e + k) (et e).
(* Expr + Expr : constant, then every term in the operand's order *)
Definition add_expr (e f : expr) : expr :=
  fold_left (fun acc t => add_term acc (tv t) (ts t) (tc t)) (et f) (add_int e (ec f)).
Definition sub_expr (e f : expr) : expr :=
  fold_left (fun acc t => add_term acc (tv t) (ts t) (- tc t)) (et f) (add_int e (- ec f)).

(* Expr * int (constant multiplied too; negative products re-normalised) *)
Fixpoint mul_terms (l : list term) (k : Z) : list term * Z :=
  match l with
  | [] => ([], 0)
  | t :: r =>
      let (r', d) := mul_terms r k in
      let c' := tc t * k in
      if c' =? 0 then (r', d)
      else if c' <? 0 then (mkT (tv t) (negb (ts t)) (- c') :: r', d + c')
      else (mkT (tv t) (ts t) c' :: r', d)
  end.
Definition mul (e : expr) (k : Z) : expr :=
  let (l, d) := mul_terms (et e) k in mkE (ec e * k + d) l.

Definition zero : expr := mkE 0 [].

(* ---- expression trees: how a user builds an expression ---- *)
Inductive tree :=
| TZero
| TAddStr (t : tree) (v : string)
| TAddLit (t : tree) (v : string) (s : bool)
| TAddTerm (t : tree) (v : string) (s : bool) (k : Z)
| TAddInt (t : tree) (k : Z)
| TAddE (t u : tree)
| TSubStr (t : tree) (v : string)
| TSubLit (t : tree) (v : string) (s : bool)
| TSubTerm (t : tree) (v : string) (s : bool) (k : Z)
| TSubInt (t : tree) (k : Z)
| TSubE (t u : tree)
| TMul (t : tree) (k : Z).

Fixpoint build (t : tree) : expr :=
  match t with
  | TZero => zero
  | TAddStr t v => add_term (build t) v true 1
  | TAddLit t v s => add_term (build t) v s 1
  | TAddTerm t v s k => add_term (build t) v s k
  | TAddInt t k => add_int (build t) k
  | TAddE t u => add_expr (build t) (build u)
  | TSubStr t v => add_term (build t) v true (-1)
  | TSubLit t v s => add_term (build t) v s (-1)
  | TSubTerm t v s k => add_term (build t) v s (- k)
  | TSubInt t k => add_int (build t) (- k)
  | TSubE t u => sub_expr (build t) (build u)
  | TMul t k => mul (build t) k
  end.

(* ---- semantics ---- *)
Definition asg := string -> bool.
Definition lit (a : asg) (v : string) (s : bool) : Z := if Bool.eqb (a v) s then 1 else 0.
Fixpoint tsum (a : asg) (l : list term) : Z :=
  match l with [] => 0 | t :: r => tc t * lit a (tv t) (ts t) + tsum a r end.
Definition eval (a : asg) (e : expr) : Z := ec e + tsum a (et e).

Fixpoint teval (a : asg) (t : tree) : Z :=
  match t with
  | TZero => 0
  | TAddStr t v => teval a t + lit a v true
  | TAddLit t v s => teval a t + lit a v s
  | TAddTerm t v s k => teval a t + k * lit a v s
  | TAddInt t k => teval a t + k
  | TAddE t u => teval a t + teval a u
  | TSubStr t v => teval a t - lit a v true
  | TSubLit t v s => teval a t - lit a v s
  | TSubTerm t v s k => teval a t - k * lit a v s
  | TSubInt t k => teval a t - k
  | TSubE t u => teval a t - teval a u
  | TMul t k => teval a t * k
  end.

(* normal form: positive coefficients, every variable at most once *)
Definition NF (e : expr) : Prop :=
  Forall (fun t => 0 < tc t) (et e) /\ NoDup (map tv (et e)).

(* ---- inequalities ---- *)
Inductive cmp := GE | LE | GT | LT | EQ | EQ2.   (* ">=" "<=" ">" "<" "=" "==" *)
Record ineq := mkI { il : list term; ir : Z; iop : cmp }.
Definition mk_ineq (l r : expr) (op : cmp) : ineq :=
  let '(l, r, op) := match op with
                     | LE => (r, l, GE) | LT => (r, l, GT) | EQ2 => (l, r, EQ)
                     | o => (l, r, o) end in
  let d := sub_expr l r in mkI (et d) (- ec d) op.
Definition cmp_holds (op : cmp) (x y : Z) : Prop :=
  match op with GE => x >= y | LE => x <= y | GT => x > y | LT => x < y | EQ | EQ2 => x = y end.
Definition holds (a : asg) (i : ineq) : Prop := cmp_holds (iop i) (tsum a (il i)) (ir i).
Definition cmp_eqb (a b : cmp) : bool :=
  match a, b with GE, GE | LE, LE | GT, GT | LT, LT | EQ, EQ | EQ2, EQ2 => true | _, _ => false end.
Definition ineq_eqb (a b : ineq) : bool :=
  terms_eqb (il a) (il b) && Z.eqb (ir a) (ir b) && cmp_eqb (iop a) (iop b).
