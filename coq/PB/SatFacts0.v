From Coq Require Import ZArith List Bool String Lia.
From FrameModel Require Import PB.Expr PB.Cnf PB.Robdd.
Import ListNotations.
Open Scope Z_scope.
(* the unrepaired tautology test drops x + y > 0 *)
Lemma gt0_refuted : exists i a, isclause_orig i = Tautology /\ ~ holds a i.
Proof.
  exists (mkI [mkT "x" true 1; mkT "y" true 1] 0 GT), (fun _ => false).
  split; [reflexivity|]. unfold holds; cbn. lia.
Qed.
