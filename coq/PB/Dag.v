(* Value semantics of the pseudo-Boolean algebra under REUSE (C16, C07).

   A user of tools/rect/pseudobool.py does not build one expression tree from
   fresh leaves: he binds Literal / Term / Expr / Ineq objects to names and uses
   them again and again after other objects were derived from them
   (rect.py: selarea, realarea, obj, var_b[b] ...).  [bind] is that language: a
   history is a list of bindings, each referring to EARLIER bindings by index
   (a DAG, `let x_n := op x_i x_j`).  Its semantics [run] is by value: every
   operation reads the values of its operands and yields a new value; nothing
   an operation does can change an earlier binding.  [unfold_all] substitutes
   every reference by the tree that built it; [ubuild] evaluates such a tree
   with every leaf and every intermediate result used exactly once (what the
   tree-based C16 check did).  PB/DagFacts.v proves the two coincide
   ([dag_run_unfold]) and that every bound value means what direct integer
   arithmetic on the unfolded tree means ([dag_eval]).

   The implementation (mutable objects that may share sub-objects) has to agree
   with [run] on EVERY binding, observed at the END of the history. *)
From Coq Require Import ZArith List Bool String Lia.
From FrameModel Require Import PB.Expr.
Import ListNotations.
Open Scope Z_scope.

(* what a Python name can be bound to *)
Inductive pyval :=
| VInt (k : Z)                               (* int *)
| VStr (v : string)                          (* str: a variable name *)
| VLit (v : string) (s : bool)               (* Literal *)
| VTerm (v : string) (s : bool) (k : Z)      (* Term: any integer coefficient (not normalised) *)
| VExpr (e : expr)                           (* Expr *)
| VIneq (i : ineq)                           (* Ineq *)
| VNone.                                     (* result of an observer / of a post *)

(* ---- the operators of Literal / Term / Expr, on values.  [None]: not an operation of the
   algebra (Python raises TypeError / "Invalid type", or it is plain int / str arithmetic) ---- *)

(* Expr.__add__(self = e, y) *)
Definition add_opnd (e : expr) (y : pyval) : option expr :=
  match y with
  | VInt k => Some (add_int e k)
  | VStr v => Some (add_term e v true 1)         (* self + Term(Literal(str)) *)
  | VLit v s => Some (add_term e v s 1)          (* self + Term(lit) *)
  | VTerm v s k => Some (add_term e v s k)
  | VExpr f => Some (add_expr e f)
  | _ => None
  end.
(* Expr.__sub__(self = e, y) *)
Definition sub_opnd (e : expr) (y : pyval) : option expr :=
  match y with
  | VInt k => Some (add_int e (- k))             (* self + (-int) *)
  | VStr v => Some (add_term e v true (-1))      (* self + Term(L, -1) *)
  | VLit v s => Some (add_term e v s (-1))
  | VTerm v s k => Some (add_term e v s (- k))
  | VExpr f => Some (sub_expr e f)
  | _ => None
  end.
(* Expr() + x   for a Literal / Term x (the first step of every Literal / Term overload) *)
Definition lift (x : pyval) : option expr :=
  match x with
  | VLit v s => Some (add_term zero v s 1)
  | VTerm v s k => Some (add_term zero v s k)
  | _ => None
  end.
Definition oexpr (o : option expr) : option pyval :=
  match o with Some e => Some (VExpr e) | None => None end.

(* x + y.  int / str on the left reach Literal.__radd__ / Term.__radd__ (Expr has no __radd__) *)
Definition v_add (x y : pyval) : option pyval :=
  match x with
  | VExpr e => oexpr (add_opnd e y)
  | VLit _ _ | VTerm _ _ _ =>
      match lift x with Some e => oexpr (add_opnd e y) | None => None end
  | VInt _ | VStr _ =>
      match lift y with Some e => oexpr (add_opnd e x) | None => None end
  | _ => None
  end.
(* x - y: only Expr defines __sub__ *)
Definition v_sub (x y : pyval) : option pyval :=
  match x with VExpr e => oexpr (sub_opnd e y) | _ => None end.
(* x * k, k * x *)
Definition v_times (x : pyval) (k : Z) : option pyval :=
  match x with
  | VLit v s => Some (VTerm v s k)               (* Term(self, k) *)
  | VTerm v s c => Some (VTerm v s (c * k))
  | VExpr e => Some (VExpr (mul e k))
  | _ => None
  end.
(* -literal: logical negation *)
Definition v_not (x : pyval) : option pyval :=
  match x with VLit v s => Some (VLit v (negb s)) | _ => None end.
(* -term: arithmetic negation *)
Definition v_neg (x : pyval) : option pyval :=
  match x with VTerm v s k => Some (VTerm v s (- k)) | _ => None end.
(* the copy constructors Literal(l.v, l.s) / Term(t.L, t.c) / Expr(e.c, e.t) *)
Definition v_copy (x : pyval) : option pyval :=
  match x with VLit _ _ | VTerm _ _ _ | VExpr _ => Some x | _ => None end.

(* Ineq(lhs, rhs, op): swap for <= and <, then lhs - rhs with Expr.__sub__ *)
Definition v_ineq (x : pyval) (op : cmp) (y : pyval) : option pyval :=
  let '(l, r, op') := match op with
                      | LE => (y, x, GE) | LT => (y, x, GT) | EQ2 => (x, y, EQ)
                      | o => (x, y, o) end in
  match v_sub l r with
  | Some (VExpr d) => Some (VIneq (mkI (et d) (- ec d) op'))
  | _ => None
  end.
(* x >= y, x <= y, x > y, x < y, x == y through the overloaded operators:
   Expr:  Ineq(self, Expr() + y, op);  Literal / Term:  (Expr() + self) op (Expr() + y) *)
Definition v_cmp (x : pyval) (op : cmp) (y : pyval) : option pyval :=
  match op with
  | EQ2 => None                                   (* "==" is a spelling of the constructor only *)
  | _ =>
    match x with
    | VExpr e =>
        match add_opnd zero y with
        | Some r => v_ineq x op (VExpr r)
        | None => None
        end
    | VLit _ _ | VTerm _ _ _ =>
        match lift x, add_opnd zero y with
        | Some l, Some r => v_ineq (VExpr l) op (VExpr (add_expr zero r))
        | _, _ => None
        end
    | _ => None
    end
  end.

(* ---- bindings: every index refers to an earlier binding of the history ---- *)
Inductive bind :=
| BInt (k : Z)
| BStr (v : string)
| BLit (v : string) (s : bool)        (* Literal(v, s) *)
| BExprC (c : Z)                      (* Expr() / Expr(c) *)
| BNot (i : nat)                      (* -literal *)
| BNeg (i : nat)                      (* -term *)
| BTimes (i : nat) (k : Z)            (* Term(lit, k), lit * k, k * lit, term * k, expr * k, k * expr *)
| BCopy (i : nat)
| BAdd (i j : nat)                    (* x_i + x_j (also x_i += x_j rebinding the name) *)
| BSub (i j : nat)
| BCmp (i : nat) (op : cmp) (j : nat) (* x_i op x_j *)
| BIneq (i : nat) (op : cmp) (j : nat)(* Ineq(x_i, x_j, "op") *)
| BSum (l : list nat)                 (* sum([x_i ...], Expr()) / e = Expr(); for x in ...: e = e + x  (e += x) *)
| BObs (i : nat).                     (* tostr / isclause / getrobdd / evalexpr on x_i: reads, binds nothing *)

Definition get (env : list pyval) (i : nat) : option pyval := nth_error env i.
Definition ap1 (f : pyval -> option pyval) (o : option pyval) : option pyval :=
  match o with Some x => f x | None => None end.
Definition ap2 (f : pyval -> pyval -> option pyval) (o p : option pyval) : option pyval :=
  match o, p with Some x, Some y => f x y | _, _ => None end.

Definition step (env : list pyval) (b : bind) : option pyval :=
  match b with
  | BInt k => Some (VInt k)
  | BStr v => Some (VStr v)
  | BLit v s => Some (VLit v s)
  | BExprC c => Some (VExpr (mkE c []))
  | BNot i => ap1 v_not (get env i)
  | BNeg i => ap1 v_neg (get env i)
  | BTimes i k => ap1 (fun x => v_times x k) (get env i)
  | BCopy i => ap1 v_copy (get env i)
  | BAdd i j => ap2 v_add (get env i) (get env j)
  | BSub i j => ap2 v_sub (get env i) (get env j)
  | BCmp i op j => ap2 (fun x y => v_cmp x op y) (get env i) (get env j)
  | BIneq i op j => ap2 (fun x y => v_ineq x op y) (get env i) (get env j)
  | BSum l => fold_left (fun acc i => ap2 v_add acc (get env i)) l (Some (VExpr (mkE 0 [])))
  | BObs i => ap1 (fun _ => Some VNone) (get env i)
  end.

(* the history continues from the environment [env]; result: all bindings, oldest first *)
Fixpoint run_from (env : list pyval) (bs : list bind) : option (list pyval) :=
  match bs with
  | [] => Some env
  | b :: r => match step env b with Some v => run_from (env ++ [v]) r | None => None end
  end.
Definition run (bs : list bind) : option (list pyval) := run_from [] bs.

(* ---- unfolded trees: the same operators, operands in place ---- *)
Inductive utree :=
| UInt (k : Z)
| UStr (v : string)
| ULit (v : string) (s : bool)
| UExprC (c : Z)
| UNot (t : utree)
| UNeg (t : utree)
| UTimes (t : utree) (k : Z)
| UCopy (t : utree)
| UAdd (t u : utree)
| USub (t u : utree)
| UCmp (t : utree) (op : cmp) (u : utree)
| UIneq (t : utree) (op : cmp) (u : utree)
| UObs (t : utree).

Fixpoint ubuild (t : utree) : option pyval :=
  match t with
  | UInt k => Some (VInt k)
  | UStr v => Some (VStr v)
  | ULit v s => Some (VLit v s)
  | UExprC c => Some (VExpr (mkE c []))
  | UNot t => ap1 v_not (ubuild t)
  | UNeg t => ap1 v_neg (ubuild t)
  | UTimes t k => ap1 (fun x => v_times x k) (ubuild t)
  | UCopy t => ap1 v_copy (ubuild t)
  | UAdd t u => ap2 v_add (ubuild t) (ubuild u)
  | USub t u => ap2 v_sub (ubuild t) (ubuild u)
  | UCmp t op u => ap2 (fun x y => v_cmp x op y) (ubuild t) (ubuild u)
  | UIneq t op u => ap2 (fun x y => v_ineq x op y) (ubuild t) (ubuild u)
  | UObs t => ap1 (fun _ => Some VNone) (ubuild t)
  end.

Definition tget (ts : list utree) (i : nat) : option utree := nth_error ts i.
Definition tap1 (f : utree -> utree) (o : option utree) : option utree :=
  match o with Some x => Some (f x) | None => None end.
Definition tap2 (f : utree -> utree -> utree) (o p : option utree) : option utree :=
  match o, p with Some x, Some y => Some (f x y) | _, _ => None end.

(* substitution of the references of one binding *)
Definition unfold1 (ts : list utree) (b : bind) : option utree :=
  match b with
  | BInt k => Some (UInt k)
  | BStr v => Some (UStr v)
  | BLit v s => Some (ULit v s)
  | BExprC c => Some (UExprC c)
  | BNot i => tap1 UNot (tget ts i)
  | BNeg i => tap1 UNeg (tget ts i)
  | BTimes i k => tap1 (fun t => UTimes t k) (tget ts i)
  | BCopy i => tap1 UCopy (tget ts i)
  | BAdd i j => tap2 UAdd (tget ts i) (tget ts j)
  | BSub i j => tap2 USub (tget ts i) (tget ts j)
  | BCmp i op j => tap2 (fun t u => UCmp t op u) (tget ts i) (tget ts j)
  | BIneq i op j => tap2 (fun t u => UIneq t op u) (tget ts i) (tget ts j)
  | BSum l => fold_left (fun acc i => tap2 UAdd acc (tget ts i)) l (Some (UExprC 0))
  | BObs i => tap1 UObs (tget ts i)
  end.
Fixpoint unfold_from (ts : list utree) (bs : list bind) : option (list utree) :=
  match bs with
  | [] => Some ts
  | b :: r => match unfold1 ts b with Some t => unfold_from (ts ++ [t]) r | None => None end
  end.
Definition unfold_all (bs : list bind) : option (list utree) := unfold_from [] bs.

Fixpoint build_all (ts : list utree) : option (list pyval) :=
  match ts with
  | [] => Some []
  | t :: r => match ubuild t, build_all r with Some v, Some vs => Some (v :: vs) | _, _ => None end
  end.

(* ---- direct integer meaning of a tree (no normal forms involved) ---- *)
Fixpoint ueval (a : asg) (t : utree) : Z :=
  match t with
  | UInt k => k
  | UStr v => lit a v true
  | ULit v s => lit a v s
  | UExprC c => c
  | UNot t => 1 - ueval a t
  | UNeg t => - ueval a t
  | UTimes t k => ueval a t * k
  | UCopy t => ueval a t
  | UAdd t u => ueval a t + ueval a u
  | USub t u => ueval a t - ueval a u
  | UCmp _ _ _ | UIneq _ _ _ | UObs _ => 0
  end.
(* ... and of a comparison *)
Definition uholds (a : asg) (t : utree) : Prop :=
  match t with
  | UCmp l op r | UIneq l op r => cmp_holds op (ueval a l) (ueval a r)
  | _ => True
  end.

(* meaning of a value *)
Definition vmean (a : asg) (x : pyval) : Z :=
  match x with
  | VInt k => k
  | VStr v => lit a v true
  | VLit v s => lit a v s
  | VTerm v s k => k * lit a v s
  | VExpr e => eval a e
  | _ => 0
  end.
(* the normalised forms never carry a zero / negative coefficient or a variable twice *)
Definition vgood (x : pyval) : Prop :=
  match x with
  | VExpr e => NF e
  | VIneq i => NF (mkE 0 (il i))
  | _ => True
  end.
Definition vholds (a : asg) (x : pyval) : Prop :=
  match x with VIneq i => holds a i | _ => True end.

(* the expression trees of PB/Expr.v are a fragment of this language *)
Fixpoint emb (t : tree) : utree :=
  match t with
  | TZero => UExprC 0
  | TAddStr t v => UAdd (emb t) (UStr v)
  | TAddLit t v s => UAdd (emb t) (ULit v s)
  | TAddTerm t v s k => UAdd (emb t) (UTimes (ULit v s) k)
  | TAddInt t k => UAdd (emb t) (UInt k)
  | TAddE t u => UAdd (emb t) (emb u)
  | TSubStr t v => USub (emb t) (UStr v)
  | TSubLit t v s => USub (emb t) (ULit v s)
  | TSubTerm t v s k => USub (emb t) (UTimes (ULit v s) k)
  | TSubInt t k => USub (emb t) (UInt k)
  | TSubE t u => USub (emb t) (emb u)
  | TMul t k => UTimes (emb t) k
  end.

(* ---- boolean comparison with what the implementation holds at the end of a history ----
   C16 fixes the MEANING of a normal form and that it has no zero / negative coefficient and no
   variable twice - not the order of its terms: term lists are compared as sets (the model's side is
   in normal form, so equal sizes and mutual inclusion make the other side a permutation of it) *)
Definition terms_seteqb (a b : list term) : bool :=
  Nat.eqb (List.length a) (List.length b) &&
  forallb (fun t => existsb (term_eqb t) b) a && forallb (fun t => existsb (term_eqb t) a) b.
Definition expr_seteqb (a b : expr) : bool := Z.eqb (ec a) (ec b) && terms_seteqb (et a) (et b).
Definition ineq_seteqb (a b : ineq) : bool :=
  terms_seteqb (il a) (il b) && Z.eqb (ir a) (ir b) && cmp_eqb (iop a) (iop b).
Definition value_eqb (x y : pyval) : bool :=
  match x, y with
  | VInt a, VInt b => Z.eqb a b
  | VStr a, VStr b => String.eqb a b
  | VLit v s, VLit w r => String.eqb v w && Bool.eqb s r
  | VTerm v s k, VTerm w r c => String.eqb v w && Bool.eqb s r && Z.eqb k c
  | VExpr e, VExpr f => expr_seteqb e f
  | VIneq i, VIneq j => ineq_seteqb i j
  | VNone, VNone => true
  | _, _ => false
  end.
Fixpoint values_eqb (a b : list pyval) : bool :=
  match a, b with
  | [], [] => true
  | x :: a', y :: b' => value_eqb x y && values_eqb a' b'
  | _, _ => false
  end.
(* [None] in the observation: an object the history itself gave up (the old value of a name after `x += y`) *)
Definition ovalue_eqb (v : pyval) (o : option pyval) : bool :=
  match o with None => true | Some x => value_eqb v x end.
Fixpoint ovalues_eqb (a : list pyval) (b : list (option pyval)) : bool :=
  match a, b with
  | [], [] => true
  | x :: a', y :: b' => ovalue_eqb x y && ovalues_eqb a' b'
  | _, _ => false
  end.
