(* Facts about PB/Dag.v: evaluation of a history with shared bindings = evaluation of the
   unfolded trees; every bound value means what direct integer arithmetic means. *)
From Coq Require Import ZArith List Bool String Lia.
From FrameModel Require Import PB.Expr PB.ExprFacts PB.Dag.
Import ListNotations.
Open Scope Z_scope.

(* ---- one operator at a time ---- *)
Lemma add_opnd_sound a e y e' : add_opnd e y = Some e' ->
  eval a e' = eval a e + vmean a y /\ (NF e -> NF e').
Proof.
  destruct y; cbn [add_opnd vmean]; intro H; inversion H; subst; clear H.
  - rewrite add_int_eval. split; [lia|apply add_int_NF].
  - rewrite add_term_eval. split; [lia|apply add_term_NF].
  - rewrite add_term_eval. split; [lia|apply add_term_NF].
  - rewrite add_term_eval. split; [lia|apply add_term_NF].
  - rewrite add_expr_eval. split; [lia|apply add_expr_NF].
Qed.
Lemma sub_opnd_sound a e y e' : sub_opnd e y = Some e' ->
  eval a e' = eval a e - vmean a y /\ (NF e -> NF e').
Proof.
  destruct y; cbn [sub_opnd vmean]; intro H; inversion H; subst; clear H.
  - rewrite add_int_eval. split; [lia|apply add_int_NF].
  - rewrite add_term_eval. split; [lia|apply add_term_NF].
  - rewrite add_term_eval. split; [lia|apply add_term_NF].
  - rewrite add_term_eval. split; [lia|apply add_term_NF].
  - rewrite sub_expr_eval. split; [lia|apply sub_expr_NF].
Qed.
Lemma eval_zero a : eval a zero = 0.
Proof. reflexivity. Qed.
Lemma lift_sound a x e : lift x = Some e -> eval a e = vmean a x /\ NF e.
Proof.
  destruct x; cbn [lift vmean]; intro H; inversion H; subst; clear H;
    rewrite add_term_eval, eval_zero; (split; [lia|apply add_term_NF, zero_NF]).
Qed.

Lemma oexpr_inv o v : oexpr o = Some v -> exists e, o = Some e /\ v = VExpr e.
Proof. destruct o; cbn; intro H; inversion H; eauto. Qed.

Lemma v_add_sound a x y v : v_add x y = Some v -> vgood x ->
  vmean a v = vmean a x + vmean a y /\ vgood v.
Proof.
  destruct x; cbn [v_add]; intros H G; try discriminate.
  - (* int + lit/term *)
    destruct (lift y) as [e|] eqn:L; [|discriminate].
    apply oexpr_inv in H. destruct H as (e' & H & ->).
    destruct (lift_sound a _ _ L) as [E N]. destruct (add_opnd_sound a _ _ _ H) as [E' N'].
    cbn [vmean vgood] in *. split; [lia|auto].
  - destruct (lift y) as [e|] eqn:L; [|discriminate].
    apply oexpr_inv in H. destruct H as (e' & H & ->).
    destruct (lift_sound a _ _ L) as [E N]. destruct (add_opnd_sound a _ _ _ H) as [E' N'].
    cbn [vmean vgood] in *. split; [lia|auto].
  - destruct (lift (VLit v0 s)) as [e|] eqn:L; [|discriminate].
    apply oexpr_inv in H. destruct H as (e' & H & ->).
    destruct (lift_sound a _ _ L) as [E N]. destruct (add_opnd_sound a _ _ _ H) as [E' N'].
    cbn [vmean vgood] in *. split; [lia|auto].
  - destruct (lift (VTerm v0 s k)) as [e|] eqn:L; [|discriminate].
    apply oexpr_inv in H. destruct H as (e' & H & ->).
    destruct (lift_sound a _ _ L) as [E N]. destruct (add_opnd_sound a _ _ _ H) as [E' N'].
    cbn [vmean vgood] in *. split; [lia|auto].
  - apply oexpr_inv in H. destruct H as (e' & H & ->).
    destruct (add_opnd_sound a _ _ _ H) as [E' N']. cbn [vmean vgood] in *. split; [lia|auto].
Qed.
Lemma v_sub_sound a x y v : v_sub x y = Some v -> vgood x ->
  vmean a v = vmean a x - vmean a y /\ vgood v /\ exists d, v = VExpr d.
Proof.
  destruct x; cbn [v_sub]; intros H G; try discriminate.
  apply oexpr_inv in H. destruct H as (e' & H & ->).
  destruct (sub_opnd_sound a _ _ _ H) as [E' N']. cbn [vmean vgood] in *. split; [lia|]. split; [auto|eauto].
Qed.
Lemma v_times_sound a x k v : v_times x k = Some v -> vgood x ->
  vmean a v = vmean a x * k /\ vgood v.
Proof.
  destruct x; cbn [v_times]; intros H G; inversion H; subst; clear H; cbn [vmean vgood] in *.
  - split; [lia|exact I].
  - split; [lia|exact I].
  - rewrite mul_eval. split; [lia|apply mul_NF; exact G].
Qed.
Lemma v_not_sound a x v : v_not x = Some v -> vmean a v = 1 - vmean a x /\ vgood v.
Proof.
  destruct x; cbn [v_not]; intro H; inversion H; subst; clear H; cbn [vmean vgood].
  rewrite lit_negb. split; [lia|exact I].
Qed.
Lemma v_neg_sound a x v : v_neg x = Some v -> vmean a v = - vmean a x /\ vgood v.
Proof.
  destruct x; cbn [v_neg]; intro H; inversion H; subst; clear H; cbn [vmean vgood]. split; [lia|exact I].
Qed.
Lemma v_copy_sound x v : v_copy x = Some v -> v = x.
Proof. destruct x; cbn [v_copy]; intro H; inversion H; reflexivity. Qed.

Lemma NF_terms d : NF d -> NF (mkE 0 (et d)).
Proof. intro H; exact H. Qed.

Lemma v_ineq_sound a x op y v : v_ineq x op y = Some v -> vgood x -> vgood y ->
  exists q, v = VIneq q /\ NF (mkE 0 (il q)) /\ (holds a q <-> cmp_holds op (vmean a x) (vmean a y)).
Proof.
  unfold v_ineq. intros H Gx Gy.
  destruct op;
    match type of H with match v_sub ?l ?r with _ => _ end = _ =>
      destruct (v_sub l r) as [w|] eqn:S; [|discriminate];
      let Gl := match l with x => Gx | _ => Gy end in
      destruct (v_sub_sound a _ _ _ S Gl) as (E & G & d & ->)
    end;
    inversion H; subst; clear H; eexists; (split; [reflexivity|]); (split; [exact (NF_terms _ G)|]);
    unfold holds; cbn [il ir iop cmp_holds vmean] in *; unfold eval in E; lia.
Qed.

Lemma v_cmp_sound a x op y v : v_cmp x op y = Some v -> vgood x ->
  exists q, v = VIneq q /\ NF (mkE 0 (il q)) /\ (holds a q <-> cmp_holds op (vmean a x) (vmean a y)).
Proof.
  intros H Gx.
  assert (K : forall l r, eval a l = vmean a x -> NF l -> eval a r = vmean a y -> NF r ->
                          v_ineq (VExpr l) op (VExpr r) = Some v ->
          exists q, v = VIneq q /\ NF (mkE 0 (il q)) /\ (holds a q <-> cmp_holds op (vmean a x) (vmean a y))).
  { intros l r El Nl Er Nr Hi. destruct (v_ineq_sound a _ _ _ _ Hi Nl Nr) as (q & -> & Nq & Hq).
    exists q. split; [reflexivity|]. split; [exact Nq|]. cbn [vmean] in Hq. rewrite El, Er in Hq. exact Hq. }
  unfold v_cmp in H.
  destruct x; try (destruct op; discriminate).
  - (* literal *)
    destruct (lift (VLit v0 s)) as [l|] eqn:L; [|destruct op; discriminate].
    destruct (add_opnd zero y) as [r|] eqn:R; [|destruct op; discriminate].
    destruct (lift_sound a _ _ L) as [El Nl]. destruct (add_opnd_sound a _ _ _ R) as [Er Nr].
    rewrite eval_zero in Er.
    apply (K l (add_expr zero r)).
    + exact El.
    + exact Nl.
    + rewrite add_expr_eval, eval_zero. lia.
    + apply add_expr_NF, zero_NF.
    + destruct op; try discriminate; exact H.
  - destruct (lift (VTerm v0 s k)) as [l|] eqn:L; [|destruct op; discriminate].
    destruct (add_opnd zero y) as [r|] eqn:R; [|destruct op; discriminate].
    destruct (lift_sound a _ _ L) as [El Nl]. destruct (add_opnd_sound a _ _ _ R) as [Er Nr].
    rewrite eval_zero in Er.
    apply (K l (add_expr zero r)).
    + exact El.
    + exact Nl.
    + rewrite add_expr_eval, eval_zero. lia.
    + apply add_expr_NF, zero_NF.
    + destruct op; try discriminate; exact H.
  - destruct (add_opnd zero y) as [r|] eqn:R; [|destruct op; discriminate].
    destruct (add_opnd_sound a _ _ _ R) as [Er Nr]. rewrite eval_zero in Er.
    apply (K e r).
    + reflexivity.
    + exact Gx.
    + lia.
    + apply Nr, zero_NF.
    + destruct op; try discriminate; exact H.
Qed.

(* ---- trees: a tree built from fresh leaves means what integer arithmetic means ---- *)
Definition sound (a : asg) (t : utree) (v : pyval) : Prop :=
  vmean a v = ueval a t /\ vgood v /\ (vholds a v <-> uholds a t).

Lemma plain_holds a t v : (forall i, v <> VIneq i) -> uholds a t = True -> (vholds a v <-> uholds a t).
Proof. intros Hn ->. destruct v; cbn [vholds]; try tauto. exfalso; eapply Hn; reflexivity. Qed.

Theorem ubuild_sound a t : forall v, ubuild t = Some v -> sound a t v.
Proof.
  unfold sound.
  induction t as [k|s|s b|c|t IH|t IH|t IH k|t IH|t IH u IHu|t IH u IHu|t IH op u IHu|t IH op u IHu|t IH];
    cbn [ubuild ueval]; intros v H.
  - inversion H; subst. cbn. tauto.
  - inversion H; subst. cbn. tauto.
  - inversion H; subst. cbn. tauto.
  - inversion H; subst. cbn [vmean vgood vholds uholds]. split; [unfold eval; cbn; lia|].
    split; [split; constructor|tauto].
  - destruct (ubuild t) as [x|]; [|discriminate]. destruct (IH x eq_refl) as (E & G & _). cbn [ap1] in H.
    destruct (v_not_sound a _ _ H) as [E' G']. split; [lia|]. split; [exact G'|].
    destruct x; try discriminate. inversion H; subst. cbn. tauto.
  - destruct (ubuild t) as [x|]; [|discriminate]. destruct (IH x eq_refl) as (E & G & _). cbn [ap1] in H.
    destruct (v_neg_sound a _ _ H) as [E' G']. split; [lia|]. split; [exact G'|].
    destruct x; try discriminate. inversion H; subst. cbn. tauto.
  - destruct (ubuild t) as [x|]; [|discriminate]. destruct (IH x eq_refl) as (E & G & _). cbn [ap1] in H.
    destruct (v_times_sound a _ _ _ H G) as [E' G']. split; [lia|]. split; [exact G'|].
    destruct x; try discriminate; inversion H; subst; cbn; tauto.
  - destruct (ubuild t) as [x|]; [|discriminate]. destruct (IH x eq_refl) as (E & G & _). cbn [ap1] in H.
    pose proof (v_copy_sound _ _ H) as ->. split; [exact E|]. split; [exact G|].
    destruct x; try discriminate; cbn; tauto.
  - destruct (ubuild t) as [x|]; [|discriminate]. destruct (ubuild u) as [y|]; [|discriminate].
    destruct (IH x eq_refl) as (E & G & _). destruct (IHu y eq_refl) as (Eu & Gu & _). cbn [ap2] in H.
    destruct (v_add_sound a _ _ _ H G) as [E' G']. split; [lia|]. split; [exact G'|].
    apply plain_holds; [|reflexivity]. intros i ->.
    destruct x; cbn [v_add] in H; try discriminate;
      repeat match type of H with match ?o with _ => _ end = _ => destruct o; try discriminate end;
      apply oexpr_inv in H; destruct H as (? & _ & ?); discriminate.
  - destruct (ubuild t) as [x|]; [|discriminate]. destruct (ubuild u) as [y|]; [|discriminate].
    destruct (IH x eq_refl) as (E & G & _). destruct (IHu y eq_refl) as (Eu & Gu & _). cbn [ap2] in H.
    destruct (v_sub_sound a _ _ _ H G) as (E' & G' & d & ->). split; [lia|]. split; [exact G'|]. cbn. tauto.
  - destruct (ubuild t) as [x|]; [|discriminate]. destruct (ubuild u) as [y|]; [|discriminate].
    destruct (IH x eq_refl) as (E & G & _). destruct (IHu y eq_refl) as (Eu & Gu & _). cbn [ap2] in H.
    destruct (v_cmp_sound a _ _ _ _ H G) as (q & -> & Nq & Hq).
    cbn [vmean vgood vholds uholds]. rewrite <- E, <- Eu. tauto.
  - destruct (ubuild t) as [x|]; [|discriminate]. destruct (ubuild u) as [y|]; [|discriminate].
    destruct (IH x eq_refl) as (E & G & _). destruct (IHu y eq_refl) as (Eu & Gu & _). cbn [ap2] in H.
    destruct (v_ineq_sound a _ _ _ _ H G Gu) as (q & -> & Nq & Hq).
    cbn [vmean vgood vholds uholds]. rewrite <- E, <- Eu. tauto.
  - destruct (ubuild t) as [x|]; [|discriminate]. cbn [ap1] in H. inversion H; subst. cbn. tauto.
Qed.

(* ---- histories with shared bindings ---- *)
Lemma build_all_length ts : forall env, build_all ts = Some env -> List.length env = List.length ts.
Proof.
  induction ts as [|t r IH]; cbn [build_all]; intros env H; [inversion H; reflexivity|].
  destruct (ubuild t); [|discriminate]. destruct (build_all r) as [vs|]; [|discriminate].
  inversion H; subst. cbn. f_equal. apply IH. reflexivity.
Qed.
Lemma build_all_get ts : forall env i, build_all ts = Some env ->
  match tget ts i with
  | Some t => exists v, get env i = Some v /\ ubuild t = Some v
  | None => get env i = None
  end.
Proof.
  unfold tget, get.
  induction ts as [|t r IH]; cbn [build_all]; intros env i H.
  - inversion H; subst. destruct i; reflexivity.
  - destruct (ubuild t) as [v|] eqn:B; [|discriminate]. destruct (build_all r) as [vs|] eqn:R; [|discriminate].
    inversion H; subst. destruct i as [|i]; cbn [nth_error].
    + exists v. split; [reflexivity|exact B].
    + apply IH. reflexivity.
Qed.
Lemma build_all_snoc ts : forall env t, build_all ts = Some env ->
  build_all (ts ++ [t]) = match ubuild t with Some v => Some (env ++ [v]) | None => None end.
Proof.
  induction ts as [|x r IH]; cbn [build_all app]; intros env t H.
  - inversion H; subst. destruct (ubuild t); reflexivity.
  - destruct (ubuild x) as [v|]; [|discriminate]. destruct (build_all r) as [vs|] eqn:R; [|discriminate].
    inversion H; subst. rewrite (IH vs t eq_refl). destruct (ubuild t); reflexivity.
Qed.
Lemma build_all_app_none l : forall m, build_all l = None -> build_all (l ++ m) = None.
Proof.
  induction l as [|x r IH]; cbn [build_all app]; intros m H; [discriminate|].
  destruct (ubuild x); [|reflexivity]. destruct (build_all r) eqn:R; [discriminate|].
  rewrite (IH m eq_refl). reflexivity.
Qed.
Lemma unfold_from_extends bs : forall ts ts', unfold_from ts bs = Some ts' -> exists m, ts' = ts ++ m.
Proof.
  induction bs as [|b r IH]; cbn [unfold_from]; intros ts ts' H.
  - inversion H; subst. exists []. rewrite app_nil_r. reflexivity.
  - destruct (unfold1 ts b) as [t|]; [|discriminate]. destruct (IH _ _ H) as (m & ->).
    exists (t :: m). rewrite <- app_assoc. reflexivity.
Qed.

(* one binding: the step on the values = the build of the substituted tree *)
Lemma step_unfold1 ts env b : build_all ts = Some env ->
  match unfold1 ts b with
  | Some t => step env b = ubuild t
  | None => step env b = None
  end.
Proof.
  intro H. pose proof (fun i => build_all_get ts env i H) as G.
  destruct b as [k|v|v s|c|i|i|i k|i|i j|i j|i op j|i op j|l|i]; cbn [unfold1 step ubuild]; try reflexivity.
  9:{ (* BSum: the running sum and its tree stay tied *)
    set (R := fun (ot : option utree) (ov : option pyval) =>
                match ot with Some t => ov = ubuild t | None => ov = None end).
    assert (K : forall l0 ot ov, R ot ov ->
              R (fold_left (fun acc i => tap2 UAdd acc (tget ts i)) l0 ot)
                (fold_left (fun acc i => ap2 v_add acc (get env i)) l0 ov)).
    { induction l0 as [|i r IH]; intros ot ov Hr; cbn [fold_left]; [exact Hr|]. apply IH.
      specialize (G i). unfold R in *. destruct ot as [t|].
      - subst ov. destruct (tget ts i) as [u|]; cbn [tap2].
        + destruct G as (y & -> & Bu). cbn [ubuild]. rewrite Bu. reflexivity.
        + rewrite G. destruct (ubuild t); reflexivity.
      - subst ov. reflexivity. }
    exact (K l (Some (UExprC 0)) (Some (VExpr (mkE 0 []))) eq_refl). }
  all: try (specialize (G i); destruct (tget ts i) as [t|]; cbn [tap1 ubuild];
         [destruct G as (x & -> & ->); reflexivity | rewrite G; reflexivity]).
  all: (pose proof (G i) as Gi; pose proof (G j) as Gj;
     destruct (tget ts i) as [t|]; destruct (tget ts j) as [u|]; cbn [tap2 ubuild];
     [destruct Gi as (x & -> & ->); destruct Gj as (y & -> & ->); reflexivity
     |destruct Gi as (x & -> & _); rewrite Gj; reflexivity
     |rewrite Gi; reflexivity
     |rewrite Gi; reflexivity]).
Qed.

Lemma run_unfold_from bs : forall ts env, build_all ts = Some env ->
  run_from env bs = match unfold_from ts bs with Some ts' => build_all ts' | None => None end.
Proof.
  induction bs as [|b r IH]; cbn [run_from unfold_from]; intros ts env H; [symmetry; exact H|].
  pose proof (step_unfold1 ts env b H) as S.
  destruct (unfold1 ts b) as [t|]; [|rewrite S; reflexivity].
  rewrite S. pose proof (build_all_snoc ts env t H) as B.
  destruct (ubuild t) as [v|].
  - apply IH. exact B.
  - destruct (unfold_from (ts ++ [t]) r) as [ts'|] eqn:U; [|reflexivity].
    destruct (unfold_from_extends _ _ _ U) as (m & ->). symmetry. apply build_all_app_none. exact B.
Qed.

(* evaluation of a history with shared bindings = build of its unfolded trees *)
Theorem dag_run_unfold bs :
  run bs = match unfold_all bs with Some ts => build_all ts | None => None end.
Proof. apply (run_unfold_from bs [] []). reflexivity. Qed.

Lemma build_all_Forall2 ts : forall vs, build_all ts = Some vs -> Forall2 (fun v t => ubuild t = Some v) vs ts.
Proof.
  induction ts as [|t r IH]; cbn [build_all]; intros vs H; [inversion H; constructor|].
  destruct (ubuild t) as [v|] eqn:B; [|discriminate]. destruct (build_all r) as [ws|]; [|discriminate].
  inversion H; subst. constructor; [exact B|apply IH; reflexivity].
Qed.

(* every binding of every history: its value, read at the end, means what the direct integer
   evaluation of its unfolded tree means, is in normal form, and (an inequality) holds exactly
   when the direct comparison holds *)
Theorem dag_eval bs vs : run bs = Some vs ->
  exists ts, unfold_all bs = Some ts /\
    Forall2 (fun v t => ubuild t = Some v /\ forall a, sound a t v) vs ts.
Proof.
  rewrite dag_run_unfold. destruct (unfold_all bs) as [ts|]; [|discriminate]. intro H.
  exists ts. split; [reflexivity|]. apply build_all_Forall2 in H.
  induction H as [|v t vs' ts' B _ IH]; constructor; [|exact IH].
  split; [exact B|]. intro a. apply ubuild_sound. exact B.
Qed.

(* the expression trees of C16_build_eval are the histories without reuse *)
Lemma emb_build t : ubuild (emb t) = Some (VExpr (build t)).
Proof.
  induction t; cbn [emb ubuild build]; try rewrite IHt; try rewrite IHt1; try rewrite IHt2; reflexivity.
Qed.
Lemma emb_eval a t : ueval a (emb t) = teval a t.
Proof.
  induction t; cbn [emb ueval teval]; try rewrite IHt; try rewrite IHt1; try rewrite IHt2; lia.
Qed.

(* non-vacuity: the shape of the seeded defect (an expression reused after another was derived
   from it with an opposite-polarity term on a variable it contains) *)
Example dag_example :
  run [BLit "a" true; BLit "b" true; BTimes 0 2; BAdd 2 1;          (* load = 2a + b *)
       BNot 0; BTimes 4 2; BAdd 3 5;                                  (* slack = load + 2(-a) *)
       BInt 2; BCmp 3 GE 7]                                           (* load >= 2, built last *)
  = Some [VLit "a" true; VLit "b" true; VTerm "a" true 2; VExpr (mkE 0 [mkT "a" true 2; mkT "b" true 1]);
          VLit "a" false; VTerm "a" false 2; VExpr (mkE 2 [mkT "b" true 1]);
          VInt 2; VIneq (mkI [mkT "a" true 2; mkT "b" true 1] 2 GE)].
Proof. reflexivity. Qed.
